import Infretis.Lemmas.RepexC05Family
import Infretis.Lemmas.WF
import Infretis.Model.RepexCv
/-!
# C05 — exactly when `calc_cv_vector` stays in C02's staircase family (wire fencing included)

`WF.cvVector` models `calc_cv_vector`.  Entry `k` (interface `λ_k`) is positive iff
* shooting ensemble: `λ_k ≤ max(order)`;
* wire-fencing ensemble: `0 < weight λ_k c ops` — some frame inside `[λ_k, c)` lies on a valid sub-path
  (`c` = `interface_cap`, else the last interface).
`cvVector_vecOk_iff` : the vector is in the family iff positivity is downward closed (`NoHole`).
`weight_pos_of_noJump` : a path that starts below `λ`, reaches `λ`, ends outside `[λ, c)` and never steps from
below `λ` to `≥ c` has positive wire-fencing weight — hence (`cvVector_vecOk_of_noJump`) order sequences without
such a jump give family vectors, whose entries are non-zero exactly up to the path's maximum.
The hole vectors of the open finding are exactly the other side (`cvVector_hole_has_jump`).
-/
namespace Infretis.Repex.Cv
open Infretis.Perm Infretis.Perm.C05 Infretis.WF Infretis.RepexCv

/-! ### positivity of the scan weight (scan-free form; the bridge scan = spec is C10's) -/

theorem countFrom_pos_iff (l r : Int) : ∀ (R L : List Int),
    0 < countFrom l r L R ↔
      ∃ pre x suf, R = pre ++ x :: suf ∧ validAt l r (pre.reverse ++ L) x suf = true := by
  intro R
  induction R with
  | nil => intro L; simp [countFrom]
  | cons y t ih =>
    intro L
    simp only [countFrom]
    constructor
    · intro h
      by_cases hv : validAt l r L y t = true
      · exact ⟨[], y, t, rfl, by simpa using hv⟩
      · have : 0 < countFrom l r (y :: L) t := by
          simp [hv] at h; exact h
        obtain ⟨pre, x, suf, he, hx⟩ := (ih (y :: L)).1 this
        exact ⟨y :: pre, x, suf, by simp [he], by simpa using hx⟩
    · rintro ⟨pre, x, suf, he, hx⟩
      cases pre with
      | nil =>
        simp at he
        obtain ⟨rfl, rfl⟩ := he
        simp at hx
        simp [hx]
      | cons z pre =>
        simp at he
        obtain ⟨rfl, rfl⟩ := he
        have : 0 < countFrom l r (y :: L) (pre ++ x :: suf) :=
          (ih (y :: L)).2 ⟨pre, x, suf, rfl, by simpa using hx⟩
        omega

theorem weight_pos_iff (l r : Int) (hlr : l ≤ r) (ops : List Int) :
    0 < weight l r ops ↔
      ∃ pre x suf, ops = pre ++ x :: suf ∧ validAt l r pre.reverse x suf = true := by
  rw [weight_eq_runs l r hlr, runs_none_eq_spec]
  unfold specWeight
  simpa using countFrom_pos_iff l r ops []

theorem firstOutside_some_of_mem (l r : Int) : ∀ (t : List Int) (q : Int),
    q ∈ t → inside l r q = false → ∃ p, firstOutside l r t = some p ∧ inside l r p = false := by
  intro t
  induction t with
  | nil => intro q h; simp at h
  | cons x t ih =>
    intro q hq hout
    simp only [firstOutside]
    by_cases hx : inside l r x = true
    · rw [if_pos hx]
      rcases List.mem_cons.1 hq with rfl | hq
      · rw [hout] at hx; cases hx
      · exact ih q hq hout
    · rw [if_neg hx]
      exact ⟨x, rfl, by simpa using hx⟩

/-- first crossing inside the band ⇒ non-zero weight -/
theorem weight_first_crossing_pos (l r : Int) (hlr : l ≤ r) (pre suf : List Int) (x last : Int)
    (hpre : pre ≠ []) (hbelow : ∀ y ∈ pre, y < l) (hx : l ≤ x ∧ x < r)
    (hlast : (pre ++ x :: suf).getLast? = some last) (hout : last < l ∨ r ≤ last) :
    0 < weight l r (pre ++ x :: suf) := by
  rw [weight_pos_iff l r hlr]
  refine ⟨pre, x, suf, rfl, ?_⟩
  simp only [validAt, Bool.and_eq_true]
  refine ⟨(inside_iff l r x).2 hx, ?_⟩
  obtain ⟨p, hp, hpl⟩ : ∃ p, firstOutside l r pre.reverse = some p ∧ p < l := by
    obtain ⟨b, hb⟩ : ∃ b, pre.getLast? = some b := by
      cases h : pre.getLast? with
      | none => exact absurd (List.getLast?_eq_none_iff.1 h) hpre
      | some b => exact ⟨b, rfl⟩
    have hbm : b ∈ pre := List.mem_of_getLast? hb
    have hhead : pre.reverse.head? = some b := by rw [List.head?_reverse]; exact hb
    cases hr : pre.reverse with
    | nil => simp [hr] at hhead
    | cons y t =>
      simp only [hr, List.head?_cons, Option.some.injEq] at hhead
      subst hhead
      refine ⟨y, ?_, hbelow y hbm⟩
      simp only [firstOutside]
      rw [if_neg]
      have : inside l r y = false := (inside_false_iff l r y).2 (Or.inl (hbelow y hbm))
      simp [this]
  have hsuf : suf ≠ [] := by
    intro hs
    subst hs
    simp only [List.getLast?_append, List.getLast?_singleton, Option.some_or,
      Option.some.injEq] at hlast
    omega
  have hlastmem : last ∈ suf := by
    have : (pre ++ x :: suf).getLast? = suf.getLast? := by
      rw [show pre ++ x :: suf = (pre ++ [x]) ++ suf by simp]
      rw [List.getLast?_append]
      cases hs : suf.getLast? with
      | none => exact absurd (List.getLast?_eq_none_iff.1 hs) hsuf
      | some z => simp
    rw [this] at hlast
    exact List.mem_of_getLast? hlast
  obtain ⟨q, hq, _⟩ := firstOutside_some_of_mem l r suf last hlastmem
    ((inside_false_iff l r last).2 hout)
  rw [hp, hq]
  simp only [closes, Bool.not_eq_true', Bool.and_eq_false_iff, decide_eq_false_iff_not]
  left; omega

theorem foldl_max_ge (t : List Int) : ∀ (a m : Int),
    m ≤ t.foldl (fun m x => if x > m then x else m) a ↔ (m ≤ a ∨ ∃ x ∈ t, m ≤ x) := by
  induction t with
  | nil => intro a m; simp
  | cons y t ih =>
    intro a m
    simp only [List.foldl_cons, ih, List.mem_cons, exists_eq_or_imp]
    by_cases hy : y > a
    · rw [if_pos hy]
      constructor
      · rintro (h | h)
        · exact Or.inr (Or.inl h)
        · exact Or.inr (Or.inr h)
      · rintro (h | h | h)
        · left; omega
        · left; exact h
        · right; exact h
    · rw [if_neg hy]
      constructor
      · rintro (h | h)
        · exact Or.inl h
        · exact Or.inr (Or.inr h)
      · rintro (h | h | h)
        · left; exact h
        · left; omega
        · right; exact h

/-- `m ≤ max(order)` iff some frame is at or above `m` -/
theorem maxOf_ge (ops : List Int) (mx m : Int) (h : maxOf ops = some mx) :
    m ≤ mx ↔ ∃ x ∈ ops, m ≤ x := by
  cases ops with
  | nil => simp [maxOf] at h
  | cons a t =>
    simp only [maxOf, Option.some.injEq] at h
    rw [← h, foldl_max_ge]
    simp

/-! ### no jump over the band ⇒ positive weight -/

theorem mem_takeWhile_pos {α : Type} (p : α → Bool) : ∀ (l : List α) (x : α), x ∈ l.takeWhile p → p x = true := by
  intro l
  induction l with
  | nil => intro x h; simp at h
  | cons a t ih =>
    intro x h
    by_cases ha : p a = true
    · rw [List.takeWhile_cons, if_pos ha] at h
      rcases List.mem_cons.1 h with rfl | h
      · exact ha
      · exact ih x h
    · rw [List.takeWhile_cons, if_neg ha] at h
      simp at h

theorem noJumpUp_pair (l r : Int) : ∀ (pre : List Int) (a b : Int) (suf : List Int),
    noJumpUp l r (pre ++ a :: b :: suf) = true → ¬ (a < l ∧ r ≤ b) := by
  intro pre
  induction pre with
  | nil =>
    intro a b suf h
    simp only [List.nil_append, noJumpUp, Bool.and_eq_true, Bool.not_eq_true', Bool.and_eq_false_iff,
      decide_eq_false_iff_not] at h
    omega
  | cons p pre ih =>
    intro a b suf h
    cases pre with
    | nil =>
      simp only [List.cons_append, List.nil_append, noJumpUp, Bool.and_eq_true] at h
      exact ih a b suf (by simpa [noJumpUp] using h.2)
    | cons q pre =>
      simp only [List.cons_append, noJumpUp, Bool.and_eq_true] at h
      exact ih a b suf (by simpa using h.2)

/-- **`weight_pos_of_noJump`**: a path that starts below `l`, reaches `l` (`l ≤ max`), ends outside `[l, r)`
    and never steps from below `l` to at or above `r` has a frame inside `[l, r)` on a valid sub-path:
    its wire-fencing weight for the band is positive. -/
theorem weight_pos_of_noJump (l r : Int) (hlr : l ≤ r) (ops : List Int) (first last pmax : Int)
    (hf : ops.head? = some first) (hfl : first < l)
    (hl : ops.getLast? = some last) (hout : last < l ∨ r ≤ last)
    (hmax : maxOf ops = some pmax) (hreach : l ≤ pmax) (hnj : noJumpUp l r ops = true) :
    0 < weight l r ops := by
  obtain ⟨z, hz, hlz⟩ := (maxOf_ge ops pmax l hmax).1 hreach
  have hsplit : ops.takeWhile (fun y => decide (y < l)) ++ ops.dropWhile (fun y => decide (y < l)) = ops :=
    List.takeWhile_append_dropWhile
  have hbelow : ∀ y ∈ ops.takeWhile (fun y => decide (y < l)), y < l := by
    intro y hy
    have := mem_takeWhile_pos _ _ _ hy
    simpa using this
  cases hd : ops.dropWhile (fun y => decide (y < l)) with
  | nil =>
    rw [hd, List.append_nil] at hsplit
    have := hbelow z (by rw [hsplit]; exact hz)
    omega
  | cons x suf =>
    have hxl : l ≤ x := by
      have := List.head?_dropWhile_not (fun y => decide (y < l)) ops
      rw [hd] at this
      simp only [List.head?_cons, decide_eq_false_iff_not] at this
      omega
    rw [hd] at hsplit
    have hpre : ops.takeWhile (fun y => decide (y < l)) ≠ [] := by
      intro he
      rw [he, List.nil_append] at hsplit
      rw [← hsplit] at hf
      simp only [List.head?_cons, Option.some.injEq] at hf
      omega
    -- the frame just before x
    obtain ⟨pre', a, hpa⟩ : ∃ pre' a, ops.takeWhile (fun y => decide (y < l)) = pre' ++ [a] :=
      ⟨_, _, (List.dropLast_concat_getLast hpre).symm⟩
    have hal : a < l := hbelow a (by rw [hpa]; simp)
    have hxr : x < r := by
      have hops : ops = pre' ++ a :: x :: suf := by rw [← hsplit, hpa]; simp
      have := noJumpUp_pair l r pre' a x suf (by rw [← hops]; exact hnj)
      omega
    rw [← hsplit]
    exact weight_first_crossing_pos l r hlr _ suf x last hpre hbelow ⟨hxl, hxr⟩
      (by rw [hsplit]; exact hl) hout

/-- a positive wire-fencing weight needs a frame at or above `l` -/
theorem le_max_of_weight_pos (l r : Int) (hlr : l ≤ r) (ops : List Int) (pmax : Int)
    (hmax : maxOf ops = some pmax) (h : 0 < weight l r ops) : l ≤ pmax := by
  obtain ⟨pre, x, suf, hops, hv⟩ := (weight_pos_iff l r hlr ops).1 h
  simp only [validAt, Bool.and_eq_true] at hv
  have := (inside_iff l r x).1 hv.1
  exact (maxOf_ge ops pmax l hmax).2 ⟨x, by rw [hops]; simp, this.1⟩

/-! ### which entries of `calc_cv_vector` are positive -/

/-- entry for interface `lam` with wire-fencing flag `wf` is positive -/
def EntryPos (ops : List Int) (c pmax : Int) (lam : Int) (wf : Bool) : Prop :=
  if wf then 0 < weight lam c ops else lam ≤ pmax

theorem computeWeight_pos (ops : List Int) (i0 i1 i2 : Int) (w : Nat)
    (h : computeWeight ops i0 i1 i2 true = .ok w) : 0 < w ↔ 0 < weight i1 i2 ops := by
  unfold computeWeight at h
  simp only [↓reduceIte, Bool.and_true] at h
  split at h
  · split at h
    · split at h
      · simp only [Except.ok.injEq] at h; omega
      · simp only [Except.ok.injEq] at h; omega
    · exact absurd h (by simp)
  · exact absurd h (by simp)

theorem cvVectorGo_pos (ops : List Int) (i0 c pmax : Int) :
    ∀ (intfs : List Int) (mv : List Bool) (ws : List Nat),
      cvVectorGo ops i0 c pmax intfs mv = .ok ws →
      ws.length = intfs.length ∧
      ∀ (k : Nat) (lam : Int), intfs[k]? = some lam → ∃ (m : Bool) (w : Nat), mv[k]? = some m ∧ ws[k]? = some w ∧
        (0 < w ↔ EntryPos ops c pmax lam m) := by
  intro intfs
  induction intfs with
  | nil =>
    intro mv ws h
    simp only [cvVectorGo, Except.ok.injEq] at h
    subst h
    exact ⟨rfl, fun k lam hk => by simp at hk⟩
  | cons a is ih =>
    intro mv ws h
    cases mv with
    | nil => simp [cvVectorGo] at h
    | cons m ms =>
      simp only [cvVectorGo] at h
      split at h
      · exact absurd h (by simp)
      rename_i w hw0
      split at h
      · exact absurd h (by simp)
      rename_i ws' hws
      simp only [Except.ok.injEq] at h
      subst h
      obtain ⟨hlen, hrest⟩ := ih ms ws' hws
      refine ⟨by simp [hlen], ?_⟩
      intro k lam hk
      cases k with
      | zero =>
        simp only [List.getElem?_cons_zero, Option.some.injEq] at hk
        subst hk
        refine ⟨m, w, rfl, rfl, ?_⟩
        unfold EntryPos
        cases m with
        | true =>
          simp only [↓reduceIte] at hw0 ⊢
          exact computeWeight_pos ops i0 a c w hw0
        | false =>
          simp only [Bool.false_eq_true, ↓reduceIte, Except.ok.injEq] at hw0 ⊢
          subst hw0
          split <;> simp_all
      | succ k =>
        simp only [List.getElem?_cons_succ] at hk ⊢
        exact hrest k lam hk

/-- the data `calc_cv_vector` works with, and which of its entries are positive -/
theorem cvVector_entries (ops intfs : List Int) (mv : List Bool) (cap : Option Int) (ws : List Nat)
    (h : cvVector ops intfs mv cap = .ok ws) :
    ∃ pmax i0 ilast, maxOf ops = some pmax ∧ intfs.head? = some i0 ∧ intfs.getLast? = some ilast ∧
      ws.length = intfs.length ∧ ws.getLast? = some 0 ∧
      ∀ (k : Nat) (lam : Int), k + 1 < intfs.length → intfs[k]? = some lam → ∃ (m : Bool) (w : Nat), mv[k]? = some m ∧ ws[k]? = some w ∧
        (0 < w ↔ EntryPos ops (cap.getD ilast) pmax lam m) := by
  unfold cvVector at h
  cases hm : maxOf ops with
  | none => simp [hm] at h
  | some pmax =>
    cases hi : intfs.head? with
    | none => simp [hm, hi] at h
    | some i0 =>
      cases hl : intfs.getLast? with
      | none => simp [hm, hi, hl] at h
      | some ilast =>
        simp only [hm, hi, hl] at h
        split at h
        · exact absurd h (by simp)
        rename_i ws' hws
        simp only [Except.ok.injEq] at h
        subst h
        have hws : cvVectorGo ops i0 (cap.getD ilast) pmax intfs.dropLast mv = .ok ws' := by
          cases cap <;> exact hws
        obtain ⟨hlen, hpos⟩ := cvVectorGo_pos ops i0 _ pmax _ _ _ hws
        rw [List.length_dropLast] at hlen
        have hne : intfs ≠ [] := by intro e; simp [e] at hi
        have hposl : 0 < intfs.length := List.length_pos_iff.mpr hne
        refine ⟨pmax, i0, ilast, rfl, rfl, rfl, by simp [hlen]; omega, by simp, ?_⟩
        intro k lam hk hlam
        have hd : intfs.dropLast[k]? = some lam := by
          rw [List.getElem?_dropLast, if_pos (by omega)]
          exact hlam
        obtain ⟨m, w, hm', hw', hiff⟩ := hpos k lam hd
        refine ⟨m, w, hm', ?_, hiff⟩
        rw [List.getElem?_append_left (by omega)]
        exact hw'

/-! ### staircase vectors are exactly the family -/

/-- positivity is downward closed -/
def StairP (ws : List Nat) : Prop := ∀ (k j wj : Nat), k < j → ws[j]? = some wj → 0 < wj → ∃ wk, ws[k]? = some wk ∧ 0 < wk

theorem ratVec_getD (ws : List Nat) (c : Nat) : (ratVec ws).getD c 0 = (((ws.getD c 0 : Nat)) : Rat) := by
  unfold ratVec
  rw [List.getD_eq_getElem?_getD, List.getD_eq_getElem?_getD, List.getElem?_map]
  cases ws[c]? <;> simp

theorem padN_plus_getD (n : Nat) (e : Int) (he : 0 ≤ e) (ws : List Nat) (c : Nat) :
    (padN n e (ratVec ws)).getD (c + 1) 0 = (((ws.getD c 0 : Nat)) : Rat) := by
  unfold padN
  rw [if_pos he]
  show ((0 : Rat) :: ratVec ws).getD (c + 1) 0 = _
  rw [List.getD_cons_succ, ratVec_getD]

/-- **a vector ending in `0` is in C02's family iff its positive entries form a prefix** -/
theorem vecOk_iff_stair (n : Nat) (e : Int) (he : 0 ≤ e) (ws : List Nat) (hlen : ws.length + 1 = n)
    (hlast : ws.getLast? = some 0) : VecOk n e (ratVec ws) ↔ StairP ws := by
  have hslot : 1 ≤ (e + 1).toNat := by omega
  have hpadlen : (padN n e (ratVec ws)).length = n := by
    unfold padN ratVec
    rw [if_pos he]
    simp [off]; omega
  constructor
  · intro h k j wj hkj hj hpos
    obtain ⟨cnt, hrow, _⟩ := h.2 hslot
    obtain ⟨_, _, _, hp, hz⟩ := hrow
    have hjlt : j < ws.length := (List.getElem?_eq_some_iff.mp hj).1
    have hgj : ws.getD j 0 = wj := by rw [List.getD_eq_getElem?_getD, hj]; rfl
    have hj1 : j + 1 < 1 + cnt := by
      by_contra hnot
      have := hz (j + 1) (by omega) (by omega)
      rw [padN_plus_getD n e he, hgj] at this
      have : wj = 0 := by exact_mod_cast this
      omega
    have hk := hp (k + 1) (by omega) (by omega)
    rw [padN_plus_getD n e he] at hk
    have hklt : k < ws.length := by omega
    refine ⟨ws[k], List.getElem?_eq_getElem hklt, ?_⟩
    rw [List.getD_eq_getElem?_getD, List.getElem?_eq_getElem hklt] at hk
    exact_mod_cast hk
  · intro h
    refine ⟨fun h0 => by omega, fun _ => ?_⟩
    have hne : ws ≠ [] := by intro e'; simp [e'] at hlast
    have hex : ∃ x ∈ ws, (x == 0) = true :=
      ⟨0, List.mem_of_getLast? hlast, by simp⟩
    have hclt : ws.findIdx (· == 0) < ws.length := List.findIdx_lt_length_of_exists hex
    refine ⟨ws.findIdx (· == 0), ⟨hpadlen, by omega, ?_, ?_, ?_⟩, by omega⟩
    · intro c hc
      have : c = 0 := by omega
      subst this
      unfold padN
      rw [if_pos he]
      rfl
    · intro c h1 h2
      obtain ⟨c', rfl⟩ : ∃ c', c = c' + 1 := ⟨c - 1, by omega⟩
      rw [padN_plus_getD n e he]
      have hc' : c' < ws.findIdx (· == 0) := by omega
      have hnz := List.not_of_lt_findIdx hc'
      rw [List.getD_eq_getElem?_getD, List.getElem?_eq_getElem (by omega)]
      simp only [Option.getD_some]
      have : ws[c'] ≠ 0 := by simpa using hnz
      exact_mod_cast Nat.pos_of_ne_zero this
    · intro c h1 h2
      obtain ⟨c', rfl⟩ : ∃ c', c = c' + 1 := ⟨c - 1, by omega⟩
      rw [padN_plus_getD n e he]
      have hc' : c' < ws.length := by omega
      rw [List.getD_eq_getElem?_getD, List.getElem?_eq_getElem hc']
      simp only [Option.getD_some]
      by_contra hnz
      have hpos : 0 < ws[c'] := by
        rcases Nat.eq_zero_or_pos ws[c'] with h0 | h0
        · exfalso; apply hnz; rw [h0]; rfl
        · exact h0
      have hz0 : ws[ws.findIdx (· == 0)] = 0 := by
        have := List.findIdx_getElem (w := hclt)
        simpa using this
      rcases Nat.lt_or_ge (ws.findIdx (· == 0)) c' with hlt | hge
      · obtain ⟨wk, hwk, hwkpos⟩ := h _ c' _ hlt (List.getElem?_eq_getElem hc') hpos
        rw [List.getElem?_eq_getElem hclt, Option.some.injEq] at hwk
        omega
      · have : c' = ws.findIdx (· == 0) := by omega
        subst this
        omega


/-! ### the exact characterisation -/

/-- **no hole**: positivity of the entries of `calc_cv_vector` is downward closed — whenever the entry of a
    higher ensemble `j` is positive, so is the entry of every lower ensemble `k` -/
def NoHole (ops intfs : List Int) (mv : List Bool) (c pmax : Int) : Prop :=
  ∀ (k j : Nat) (lk lj : Int) (mk mj : Bool), k < j → j + 1 < intfs.length →
    intfs[k]? = some lk → intfs[j]? = some lj → mv[k]? = some mk → mv[j]? = some mj →
    EntryPos ops c pmax lj mj → EntryPos ops c pmax lk mk

/-- **`cvVector_vecOk_iff`** — exactly when `calc_cv_vector` is in C02's family: iff there is no hole. -/
theorem cvVector_vecOk_iff (n : Nat) (e : Int) (he : 0 ≤ e) (ops intfs : List Int) (mv : List Bool)
    (cap : Option Int) (ws : List Nat) (hn : n = intfs.length + 1)
    (h : cvVector ops intfs mv cap = .ok ws) :
    ∃ pmax ilast, maxOf ops = some pmax ∧ intfs.getLast? = some ilast ∧
      (VecOk n e (ratVec ws) ↔ NoHole ops intfs mv (cap.getD ilast) pmax) := by
  obtain ⟨pmax, i0, ilast, hmax, _, hl, hlen, hlast, hent⟩ := cvVector_entries ops intfs mv cap ws h
  refine ⟨pmax, ilast, hmax, hl, ?_⟩
  rw [vecOk_iff_stair n e he ws (by omega) hlast]
  have hlast0 : ws[ws.length - 1]? = some 0 := by rw [← List.getLast?_eq_getElem?]; exact hlast
  constructor
  · intro hst k j lk lj mk mj hkj hj hik hij hmk hmj hpos
    obtain ⟨mj', wj, hmj', hwj, hiffj⟩ := hent j lj hj hij
    rw [hmj] at hmj'; cases hmj'
    obtain ⟨wk, hwk, hwkpos⟩ := hst k j wj hkj hwj (hiffj.2 hpos)
    obtain ⟨mk', wk', hmk', hwk', hiffk⟩ := hent k lk (by omega) hik
    rw [hmk] at hmk'; cases hmk'
    rw [hwk] at hwk'; cases hwk'
    exact hiffk.1 hwkpos
  · intro hnh k j wj hkj hwj hpos
    have hjlt : j < ws.length := (List.getElem?_eq_some_iff.mp hwj).1
    have hj1 : j + 1 < intfs.length := by
      by_contra hnot
      have : j = ws.length - 1 := by omega
      subst this
      rw [hwj] at hlast0
      cases hlast0
      omega
    obtain ⟨mj, wj', hmj, hwj', hiffj⟩ := hent j intfs[j] hj1 (List.getElem?_eq_getElem (by omega))
    rw [hwj] at hwj'; cases hwj'
    obtain ⟨mk, wk, hmk, hwk, hiffk⟩ := hent k intfs[k] (by omega) (List.getElem?_eq_getElem (by omega))
    exact ⟨wk, hwk, hiffk.2 (hnh k j _ _ mk mj hkj hj1 (List.getElem?_eq_getElem (by omega))
      (List.getElem?_eq_getElem (by omega)) hmk hmj (hiffj.1 hpos))⟩

/-! ### order sequences without a jump over a wire-fencing band give family vectors -/

theorem pairwise_getElem?_lt {l : List Int} (hs : l.Pairwise (· < ·)) {k j : Nat} {a b : Int} (hkj : k < j)
    (ha : l[k]? = some a) (hb : l[j]? = some b) : a < b := by
  obtain ⟨hk, rfl⟩ := List.getElem?_eq_some_iff.mp ha
  obtain ⟨hj, rfl⟩ := List.getElem?_eq_some_iff.mp hb
  exact (List.pairwise_iff_getElem.mp hs) k j hk hj hkj

theorem head_le_of_pairwise {l : List Int} (hs : l.Pairwise (· < ·)) {i0 a : Int} {k : Nat}
    (h0 : l.head? = some i0) (ha : l[k]? = some a) : i0 ≤ a := by
  rw [List.head?_eq_getElem?] at h0
  rcases Nat.eq_zero_or_pos k with rfl | hk
  · rw [h0] at ha; cases ha; exact Int.le_refl _
  · exact Int.le_of_lt (pairwise_getElem?_lt hs hk h0 ha)

theorem noJumpGo_get (c : Int) (ops : List Int) : ∀ (intfs : List Int) (mv : List Bool),
    noJumpGo c ops intfs mv = true → ∀ (k : Nat) (lam : Int), intfs[k]? = some lam → mv[k]? = some true →
      noJumpUp lam c ops = true := by
  intro intfs
  induction intfs with
  | nil => intro mv _ k lam h; simp at h
  | cons a is ih =>
    intro mv h k lam hk hm
    cases mv with
    | nil => simp at hm
    | cons m ms =>
      simp only [noJumpGo, Bool.and_eq_true, Bool.or_eq_true, Bool.not_eq_true'] at h
      cases k with
      | zero =>
        simp only [List.getElem?_cons_zero, Option.some.injEq] at hk hm
        subst hk; subst hm
        rcases h.1 with h1 | h1
        · cases h1
        · exact h1
      | succ k =>
        simp only [List.getElem?_cons_succ] at hk hm
        exact ih ms h.2 k lam hk hm

/-- every wire-fencing ensemble's interface lies at or below the right end of the bands -/
def CapOk (c : CvCfg) : Prop :=
  ∀ (k : Nat) (lam : Int), k + 1 < c.intfs.length → c.intfs[k]? = some lam → c.mv[k]? = some true → lam ≤ capOf c

/-- under the no-jump condition every entry (shooting or wire fencing) is positive exactly up to the
    path's maximum -/
theorem entryPos_iff_le_max (c : CvCfg) (ops : List Int) (pmax : Int) (hs : c.intfs.Pairwise (· < ·))
    (hcap : CapOk c) (hnj : noJumpCfg c ops = true) (hmax : maxOf ops = some pmax)
    (k : Nat) (lam : Int) (m : Bool) (hk : k + 1 < c.intfs.length) (hlam : c.intfs[k]? = some lam)
    (hm : c.mv[k]? = some m) : EntryPos ops (capOf c) pmax lam m ↔ lam ≤ pmax := by
  unfold EntryPos
  cases m with
  | false => simp
  | true =>
    simp only [↓reduceIte]
    have hlc : lam ≤ capOf c := hcap k lam hk hlam hm
    constructor
    · exact le_max_of_weight_pos lam _ hlc ops pmax hmax
    · intro hreach
      unfold noJumpCfg at hnj
      simp only [Bool.and_eq_true] at hnj
      obtain ⟨hlegal, hgo⟩ := hnj
      have hd : c.intfs.dropLast[k]? = some lam := by
        rw [List.getElem?_dropLast, if_pos (by omega)]; exact hlam
      have hup := noJumpGo_get (capOf c) ops _ _ hgo k lam hd hm
      unfold legalEnds at hlegal
      cases hf : ops.head? with
      | none => simp [hf] at hlegal
      | some first =>
        cases hl : ops.getLast? with
        | none => simp [hf, hl] at hlegal
        | some last =>
          simp only [hf, hl, Bool.and_eq_true, Bool.or_eq_true, decide_eq_true_eq] at hlegal
          have hne : c.intfs ≠ [] := by intro e; rw [e] at hk; simp at hk
          obtain ⟨i0, hi0⟩ : ∃ i0, c.intfs.head? = some i0 := by
            cases hh : c.intfs.head? with
            | none => exact absurd (List.head?_eq_none_iff.mp hh) hne
            | some i0 => exact ⟨i0, rfl⟩
          rw [hi0] at hlegal
          simp only [Option.getD_some] at hlegal
          have h0le := head_le_of_pairwise hs hi0 hlam
          exact weight_pos_of_noJump lam _ hlc ops first last pmax hf (by omega) hl
            (by rcases hlegal.2 with h1 | h1
                · left; omega
                · right; exact h1) hmax hreach hup

/-- **`cvVector_vecOk_of_noJump`** — the family hypothesis from a condition on ORDER SEQUENCES: strictly
    increasing interfaces, wire-fencing interfaces at or below the cap, a path that starts below `λ_0`, ends below
    `λ_0` or at/above the cap, and never steps from below a wire-fencing interface `λ_k` to at/above the cap:
    then `calc_cv_vector` is in C02's family and entry `k` is non-zero exactly when `λ_k ≤ max(order)`. -/
theorem cvVector_vecOk_of_noJump (n : Nat) (e : Int) (he : 0 ≤ e) (c : CvCfg) (ops : List Int) (ws : List Nat)
    (hn : n = c.intfs.length + 1) (hs : c.intfs.Pairwise (· < ·)) (hcap : CapOk c)
    (hnj : noJumpCfg c ops = true) (h : cvVector ops c.intfs c.mv c.cap = .ok ws) :
    VecOk n e (ratVec ws) ∧ ∃ pmax, maxOf ops = some pmax ∧
      ∀ (k : Nat) (lam : Int), k + 1 < c.intfs.length → c.intfs[k]? = some lam →
        ∃ w, ws[k]? = some w ∧ (0 < w ↔ lam ≤ pmax) := by
  obtain ⟨pmax, ilast, hmax, hl, hiff⟩ := cvVector_vecOk_iff n e he ops c.intfs c.mv c.cap ws hn h
  obtain ⟨pmax', _, ilast', hmax', _, hl', _, _, hent⟩ := cvVector_entries ops c.intfs c.mv c.cap ws h
  rw [hmax] at hmax'; cases hmax'
  rw [hl] at hl'; cases hl'
  have hc : c.cap.getD ilast = capOf c := by unfold capOf; rw [hl]; rfl
  rw [hc] at hiff hent
  refine ⟨hiff.2 ?_, pmax, hmax, ?_⟩
  · intro k j lk lj mk mj hkj hj hik hij hmk hmj hpos
    rw [entryPos_iff_le_max c ops pmax hs hcap hnj hmax j lj mj hj hij hmj] at hpos
    rw [entryPos_iff_le_max c ops pmax hs hcap hnj hmax k lk mk (by omega) hik hmk]
    have := pairwise_getElem?_lt hs hkj hik hij
    omega
  · intro k lam hk hlam
    obtain ⟨m, w, hm, hw, hpos⟩ := hent k lam hk hlam
    exact ⟨w, hw, by rw [hpos]; exact entryPos_iff_le_max c ops pmax hs hcap hnj hmax k lam m hk hlam hm⟩

/-- **the boundary**: a vector outside the family (a hole) needs an order sequence that violates the condition —
    with legal ends, some MD step jumps from below a wire-fencing interface to at/above the cap -/
theorem cvVector_hole_has_jump (n : Nat) (e : Int) (he : 0 ≤ e) (c : CvCfg) (ops : List Int) (ws : List Nat)
    (hn : n = c.intfs.length + 1) (hs : c.intfs.Pairwise (· < ·)) (hcap : CapOk c)
    (h : cvVector ops c.intfs c.mv c.cap = .ok ws) (hbad : ¬ VecOk n e (ratVec ws)) :
    noJumpCfg c ops = false := by
  cases hnj : noJumpCfg c ops with
  | false => rfl
  | true => exact absurd (cvVector_vecOk_of_noJump n e he c ops ws hn hs hcap hnj h).1 hbad

/-- a bound on the MD step implies the no-jump condition for a band: steps of at most `r - l` cannot go from
    below `l` to at/above `r` -/
theorem noJumpUp_of_step_bound (l r : Int) : ∀ (ops : List Int),
    (∀ (pre : List Int) (a b : Int) (suf : List Int), ops = pre ++ a :: b :: suf → b - a ≤ r - l) →
    noJumpUp l r ops = true := by
  intro ops
  induction ops with
  | nil => intro _; rfl
  | cons a t ih =>
    intro h
    cases t with
    | nil => rfl
    | cons b t =>
      simp only [noJumpUp, Bool.and_eq_true, Bool.not_eq_true', Bool.and_eq_false_iff, decide_eq_false_iff_not]
      refine ⟨?_, ih (fun pre a' b' suf hops => h (a :: pre) a' b' suf (by rw [hops]; rfl))⟩
      have := h [] a b t rfl
      omega

/-! ### histories whose accepted weight vectors are `calc_cv_vector` of no-jump order sequences -/

/-- the new weight vectors of an accepted step are what `calc_cv_vector` computes, in a configuration that may
    contain wire-fencing ensembles, from order sequences that satisfy the no-jump condition -/
def EvCvW (c : CvCfg) (y : Sys) : Ev → Prop
  | .step k status newW _ => status = .acc → y.s.n = c.intfs.length + 1 ∧
      ∀ job, y.jobs[k]? = some job → ∀ pw ∈ job.picked.zip newW,
        (pw.1.ens < 0 → ∃ ops bound pmax ws, WF.maxOf ops = some pmax ∧ bound ≤ pmax ∧
            WF.cvMinus ops bound = .ok ws ∧ pw.2 = ratVec ws) ∧
        (0 ≤ pw.1.ens → ∃ ops ws, noJumpCfg c ops = true ∧
            WF.cvVector ops c.intfs c.mv c.cap = .ok ws ∧ pw.2 = ratVec ws)
  | _ => True

def CvHistW (c : CvCfg) : Sys → List Ev → Prop
  | _, [] => True
  | y, ev :: rest => EvCvW c y ev ∧ ∀ y', sysStep y ev = .ok y' → CvHistW c y' rest

theorem evOk_of_evCvW (c : CvCfg) (hs : c.intfs.Pairwise (· < ·)) (hcap : CapOk c) (y : Sys) (ev : Ev)
    (h : EvCvW c y ev) : EvOk y ev := by
  cases ev with
  | start o saved => exact trivial
  | initDone => exact trivial
  | step k status newW o =>
    intro hacc job hjob pw hpw
    obtain ⟨hn, hall⟩ := h hacc
    obtain ⟨hminus, hplus⟩ := hall job hjob pw hpw
    rcases Int.lt_or_le pw.1.ens 0 with hneg | hge
    · obtain ⟨ops, bound, pmax, ws, hmax, hb, hcv, hw⟩ := hminus hneg
      obtain ⟨h1, h2⟩ := cvMinus_vecOk y.s.n (by omega) pw.1.ens hneg ops bound pmax hmax hb
      rw [h1] at hcv
      simp only [Except.ok.injEq] at hcv
      rw [hw, ← hcv]; exact h2
    · obtain ⟨ops, ws, hnj, hcv, hw⟩ := hplus hge
      rw [hw]
      exact (cvVector_vecOk_of_noJump y.s.n pw.1.ens hge c ops ws hn hs hcap hnj hcv).1

/-- **the family hypothesis `HistOk` from order sequences, wire fencing included** -/
theorem histOk_of_cvW (c : CvCfg) (hs : c.intfs.Pairwise (· < ·)) (hcap : CapOk c) :
    ∀ (evs : List Ev) (y : Sys), CvHistW c y evs → HistOk y evs := by
  intro evs
  induction evs with
  | nil => intro y _; exact trivial
  | cons ev rest ih =>
    intro y h
    exact ⟨evOk_of_evCvW c hs hcap y ev h.1, fun y' hy' => ih y' (h.2 y' hy')⟩

end Infretis.Repex.Cv
