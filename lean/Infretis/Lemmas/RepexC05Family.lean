import Infretis.Lemmas.RepexC05Sys
import Infretis.Model.WF
/-!
# C05 — the weight vectors `calc_cv_vector` computes for shooting moves are in C02's family

`WF.cvVector ops interfaces movesTail cap` models `calc_cv_vector` for a plus path, `WF.cvMinus` for
a `[0-]` path.  For strictly increasing interfaces and shooting moves only (`movesTail` all
`false`) the vector is `1` on a prefix (the interfaces the path's maximum reaches) and `0` after
it, the last entry (the ghost column) being `0`: a staircase.  Hence `VecOk`.
Wire-fencing entries are frame counts inside `[λ_i, cap)` and can vanish while entries further up
do not (`cvVector_wf_hole`): for wf configurations the family assumption is a scope restriction.
-/
namespace Infretis.Repex
open Infretis.Perm Infretis.Perm.C05

/-- the code's weight vector (small naturals held in floats) as rationals -/
def ratVec (ws : List Nat) : List Rat := List.map (fun (x : Nat) => (Nat.cast x : Rat)) ws

/-- **shooting entries form a staircase**: for strictly increasing interfaces and no wf move, the
    entries are `1` exactly on the prefix of interfaces not above the path's maximum -/
theorem cvVectorGo_sh_stair (ops : List Int) (i0 c pmax : Int) :
    ∀ (intfs : List Int) (mv : List Bool) (ws : List Nat),
      intfs.Pairwise (· < ·) → (∀ b ∈ mv, b = false) →
      WF.cvVectorGo ops i0 c pmax intfs mv = .ok ws →
      ∃ cnt, cnt ≤ intfs.length ∧
        ws = List.replicate cnt 1 ++ List.replicate (intfs.length - cnt) 0 ∧
        ∀ k (hk : k < intfs.length), k < cnt ↔ intfs[k] ≤ pmax := by
  intro intfs
  induction intfs with
  | nil =>
    intro mv ws _ _ h
    simp only [WF.cvVectorGo, Except.ok.injEq] at h
    subst h
    exact ⟨0, by simp, by simp, fun k hk => by simp at hk⟩
  | cons a is ih =>
    intro mv ws hs hmv h
    cases mv with
    | nil => simp [WF.cvVectorGo] at h
    | cons m ms =>
      have hm : m = false := hmv m (List.mem_cons_self ..)
      subst hm
      simp only [WF.cvVectorGo, Bool.false_eq_true, ↓reduceIte] at h
      split at h
      · exact absurd h (by simp)
      rename_i ws' hws
      simp only [Except.ok.injEq] at h
      subst h
      rw [List.pairwise_cons] at hs
      obtain ⟨cnt', hle, hws', hiff⟩ := ih ms ws' hs.2 (fun b hb => hmv b (List.mem_cons_of_mem _ hb)) hws
      by_cases ha : a ≤ pmax
      · refine ⟨cnt' + 1, by simp only [List.length_cons]; omega, ?_, ?_⟩
        · rw [if_pos ha, hws']
          simp only [List.length_cons, List.replicate_succ, List.cons_append, Nat.add_sub_add_right]
        · intro k hk
          cases k with
          | zero => simp [ha]
          | succ k =>
            simp only [List.length_cons, Nat.add_lt_add_iff_right] at hk
            simp only [List.getElem_cons_succ, Nat.add_lt_add_iff_right]
            exact hiff k hk
      · have hc0 : cnt' = 0 := by
          by_contra hne
          have hpos : 0 < is.length := by omega
          have h0 := (hiff 0 hpos).mp (by omega)
          have := hs.1 is[0] (List.getElem_mem hpos)
          omega
        subst hc0
        refine ⟨0, by simp, ?_, ?_⟩
        · rw [if_neg ha, hws']
          simp only [List.replicate_zero, List.nil_append, Nat.sub_zero, List.length_cons,
            List.replicate_succ]
        · intro k hk
          cases k with
          | zero => simp [ha]
          | succ k =>
            simp only [List.length_cons, Nat.add_lt_add_iff_right] at hk
            simp only [List.getElem_cons_succ]
            have := hiff k hk
            omega

/-- **`cvVector_sh_staircase`**: `calc_cv_vector` of a non-empty plus path, strictly increasing
    interfaces, shooting moves only: `1` on a prefix of `cnt ≤ len − 1` entries, `0` after it (the
    last entry is always `0`); entry `k < len − 1` is `1` iff `λ_k ≤ max(order)`. -/
theorem cvVector_sh_staircase (ops intfs : List Int) (mv : List Bool) (cap : Option Int) (ws : List Nat)
    (pmax : Int) (hmax : WF.maxOf ops = some pmax)
    (hs : intfs.Pairwise (· < ·)) (hmv : ∀ b ∈ mv, b = false)
    (h : WF.cvVector ops intfs mv cap = .ok ws) :
    ∃ cnt, cnt + 1 ≤ intfs.length ∧
      ws = List.replicate cnt 1 ++ List.replicate (intfs.length - cnt) 0 ∧
      ∀ k (hk : k < intfs.length - 1), k < cnt ↔ intfs[k] ≤ pmax := by
  unfold WF.cvVector at h
  rw [hmax] at h
  cases hi : intfs.head? with
  | none => simp [hi] at h
  | some i0 =>
    cases hl : intfs.getLast? with
    | none => simp [hi, hl] at h
    | some ilast =>
      simp only [hi, hl] at h
      split at h
      · exact absurd h (by simp)
      rename_i ws' hws
      simp only [Except.ok.injEq] at h
      subst h
      have hne : intfs ≠ [] := by intro e; simp [e] at hi
      have hpos : 0 < intfs.length := List.length_pos_iff.mpr hne
      have hsd : intfs.dropLast.Pairwise (· < ·) := hs.sublist (List.dropLast_sublist _)
      obtain ⟨cnt, hle, hws', hiff⟩ := cvVectorGo_sh_stair ops i0 _ pmax _ _ _ hsd hmv hws
      rw [List.length_dropLast] at hle hws'
      refine ⟨cnt, by omega, ?_, ?_⟩
      · rw [hws', List.append_assoc]
        congr 1
        have : intfs.length - cnt = (intfs.length - 1 - cnt) + 1 := by omega
        rw [this, List.replicate_succ']
      · intro k hk
        have := hiff k (by rw [List.length_dropLast]; exact hk)
        rw [List.getElem_dropLast] at this
        exact this

/-! ### the staircase rows are in the family -/

theorem getD_stair (cnt m c : Nat) :
    ((0 : Rat) :: (List.replicate cnt (1 : Rat) ++ List.replicate m 0)).getD c 0
      = if 1 ≤ c ∧ c < 1 + cnt then 1 else 0 := by
  cases c with
  | zero => simp
  | succ c =>
    rw [List.getD_cons_succ, List.getD_eq_getElem?_getD]
    by_cases hc : c < cnt
    · rw [List.getElem?_append_left (by simpa using hc), List.getElem?_replicate, if_pos hc,
        if_pos (by omega)]
      rfl
    · rw [if_neg (show ¬(1 ≤ c + 1 ∧ c + 1 < 1 + cnt) by omega),
        List.getElem?_append_right (by simpa using Nat.le_of_not_lt hc), List.getElem?_replicate]
      split <;> rfl

theorem isPlusRow_stair (cnt m : Nat) :
    IsPlusRow 1 (1 + cnt + m) cnt ((0 : Rat) :: (List.replicate cnt (1 : Rat) ++ List.replicate m 0)) := by
  refine ⟨by simp; omega, by omega, ?_, ?_, ?_⟩
  · intro c hc
    rw [getD_stair, if_neg (by omega)]
  · intro c h1 h2
    rw [getD_stair, if_pos ⟨h1, h2⟩]
    exact zero_lt_one
  · intro c h1 _
    rw [getD_stair, if_neg (by omega)]

theorem ratVec_stair (cnt m : Nat) :
    ratVec (List.replicate cnt 1 ++ List.replicate m 0)
      = List.replicate cnt (1 : Rat) ++ List.replicate m 0 := by
  unfold ratVec
  rw [List.map_append, List.map_replicate, List.map_replicate]
  simp

/-- **`cvVector_sh_vecOk`**: the weight vector `calc_cv_vector` computes for a plus path under
    shooting-only moves and strictly increasing interfaces is in C02's family, for every plus
    ensemble `e` of a state with `n = len(interfaces) + 1` slots. -/
theorem cvVector_sh_vecOk (n : Nat) (e : Int) (he : 0 ≤ e) (ops intfs : List Int) (mv : List Bool)
    (cap : Option Int) (ws : List Nat) (hn : n = intfs.length + 1)
    (hs : intfs.Pairwise (· < ·)) (hmv : ∀ b ∈ mv, b = false)
    (h : WF.cvVector ops intfs mv cap = .ok ws) : VecOk n e (ratVec ws) := by
  have hmax : ∃ pmax, WF.maxOf ops = some pmax := by
    cases hm : WF.maxOf ops with
    | none => simp [WF.cvVector, hm] at h
    | some p => exact ⟨p, rfl⟩
  obtain ⟨pmax, hmax⟩ := hmax
  obtain ⟨cnt, hle, hws, _⟩ := cvVector_sh_staircase ops intfs mv cap ws pmax hmax hs hmv h
  unfold VecOk
  have hpad : padN n e (ratVec ws)
      = (0 : Rat) :: (List.replicate cnt (1 : Rat) ++ List.replicate (intfs.length - cnt) 0) := by
    unfold padN
    rw [if_pos he, hws, ratVec_stair]
    rfl
  rw [hpad]
  refine ⟨fun h0 => by omega, fun _ => ⟨cnt, ?_, by omega⟩⟩
  have : n = 1 + cnt + (intfs.length - cnt) := by omega
  rw [this]
  exact isPlusRow_stair cnt _

/-- … and a path that crosses the interface of ensemble `e` (what an accepted shooting move
    guarantees) has weight `1` there -/
theorem cvVector_sh_own (ops intfs : List Int) (mv : List Bool) (cap : Option Int) (ws : List Nat)
    (pmax : Int) (hmax : WF.maxOf ops = some pmax)
    (hs : intfs.Pairwise (· < ·)) (hmv : ∀ b ∈ mv, b = false)
    (h : WF.cvVector ops intfs mv cap = .ok ws) (e : Nat) (he : e < intfs.length - 1)
    (hcross : intfs[e]'(by omega) ≤ pmax) : ws.getD e 0 = 1 := by
  obtain ⟨cnt, hle, hws, hiff⟩ := cvVector_sh_staircase ops intfs mv cap ws pmax hmax hs hmv h
  have hlt : e < cnt := (hiff e he).mpr hcross
  rw [hws, List.getD_eq_getElem?_getD, List.getElem?_append_left (by simpa using hlt),
    List.getElem?_replicate, if_pos hlt]
  rfl

/-- **`cvMinus_vecOk`**: `calc_cv_vector` of a valid `[0-]` path (`bound ≤ max(order)`) is `(1,)`,
    which is in the family for ensemble `-1` -/
theorem cvMinus_vecOk (n : Nat) (hn : 1 ≤ n) (e : Int) (he : e < 0) (ops : List Int) (bound pmax : Int)
    (hmax : WF.maxOf ops = some pmax) (hb : bound ≤ pmax) :
    WF.cvMinus ops bound = .ok [1] ∧ VecOk n e (ratVec [1]) := by
  refine ⟨by simp [WF.cvMinus, hmax, hb], ?_⟩
  unfold VecOk
  have hpad : padN n e (ratVec [1]) = (1 : Rat) :: List.replicate (n - 1) 0 := by
    unfold padN ratVec
    rw [if_neg (by omega)]
    simp [off]
  have hslot : (e + 1).toNat = 0 := by omega
  rw [hpad, hslot]
  refine ⟨fun _ => ⟨by simp; omega, by simp, ?_⟩, fun h => absurd h (by decide)⟩
  intro c h1 h2
  obtain ⟨c', rfl⟩ : ∃ c', c = c' + 1 := ⟨c - 1, by omega⟩
  rw [List.getD_eq_getElem?_getD, List.getElem?_cons_succ, List.getElem?_replicate]
  split <;> rfl

/-- **a wire-fencing hole**: interfaces `0 < 2 < 4 < 6`, ensemble `[1+]` wire-fencing (cap = last
    interface), a path that jumps from `1` to `7` over the whole band `[2, 6)`: weight `0` in
    `[1+]` but `1` in `[2+]` — not a staircase. -/
theorem cvVector_wf_hole :
    WF.cvVector [-1, 1, 7, -1] [0, 2, 4, 6] [false, true, false] none = .ok [1, 0, 1, 0] := by
  decide

/-! ### histories whose accepted weight vectors are computed by `calc_cv_vector` -/

/-- the new weight vectors of an accepted step are what `calc_cv_vector` computes in a
    shooting-only configuration with interfaces `intfs` (`n = len(intfs) + 1` slots): for the
    `[0-]` ensemble `cvMinus` of a valid path (its maximum reaches the bound), for a plus ensemble
    `cvVector` with no wire-fencing entry -/
def EvCv (intfs : List Int) (y : Sys) : Ev → Prop
  | .step k status newW _ => status = .acc → y.s.n = intfs.length + 1 ∧
      ∀ job, y.jobs[k]? = some job → ∀ pw ∈ job.picked.zip newW,
        (pw.1.ens < 0 → ∃ ops bound pmax ws, WF.maxOf ops = some pmax ∧ bound ≤ pmax ∧
            WF.cvMinus ops bound = .ok ws ∧ pw.2 = ratVec ws) ∧
        (0 ≤ pw.1.ens → ∃ ops mv cap ws, (∀ b ∈ mv, b = false) ∧
            WF.cvVector ops intfs mv cap = .ok ws ∧ pw.2 = ratVec ws)
  | _ => True

def CvHist (intfs : List Int) : Sys → List Ev → Prop
  | _, [] => True
  | y, ev :: rest => EvCv intfs y ev ∧ ∀ y', sysStep y ev = .ok y' → CvHist intfs y' rest

theorem evOk_of_evCv (intfs : List Int) (hs : intfs.Pairwise (· < ·)) (y : Sys) (ev : Ev)
    (h : EvCv intfs y ev) : EvOk y ev := by
  cases ev with
  | start o saved => exact trivial
  | initDone => exact trivial
  | step k status newW o =>
    intro hacc job hjob pw hpw
    obtain ⟨hn, hall⟩ := h hacc
    obtain ⟨hminus, hplus⟩ := hall job hjob pw hpw
    rcases Int.lt_or_le pw.1.ens 0 with hneg | hge
    · obtain ⟨ops, bound, pmax, ws, hmax, hb, hcv, hw⟩ := hminus hneg
      obtain ⟨h1, h2⟩ := cvMinus_vecOk y.s.n (by omega) pw.1.ens hneg ops bound pmax hmax hb
      rw [h1] at hcv
      simp only [Except.ok.injEq] at hcv
      rw [hw, ← hcv]; exact h2
    · obtain ⟨ops, mv, cap, ws, hmv, hcv, hw⟩ := hplus hge
      rw [hw]
      exact cvVector_sh_vecOk y.s.n pw.1.ens hge ops intfs mv cap ws hn hs hmv hcv

/-- **for shooting-only configurations the family hypothesis `HistOk` is implied** by "every
    accepted step's weight vectors are `calc_cv_vector` of the new paths" -/
theorem histOk_of_cv (intfs : List Int) (hs : intfs.Pairwise (· < ·)) :
    ∀ (evs : List Ev) (y : Sys), CvHist intfs y evs → HistOk y evs := by
  intro evs
  induction evs with
  | nil => intro y _; exact trivial
  | cons ev rest ih =>
    intro y h
    exact ⟨evOk_of_evCv intfs hs y ev h.1, fun y' hy' => ih y' (h.2 y' hy')⟩

end Infretis.Repex
