import Infretis.Lemmas.RepexC05Sys
/-!
# C05 — the initial state: every path valid in its own ensemble gives the identity matching
-/
namespace Infretis.Repex
open Infretis.Perm Infretis.Perm.C05

/-- The state `scheduler()` starts from (C03's `Init`) with initial paths from C02's weight family,
    each valid in its own ensemble (what `load_paths` asserts), their weights recorded in
    `traj_data`, and all recorded numbers below `traj_num`. -/
structure Init5 (y : Sys) : Prop where
  init : Init y
  rows : ∀ i, i < y.s.n - 1 → RowOk y.s.n i (y.s.W.getD i [])
  diag : ∀ i, i < y.s.n - 1 → entryM y.s.W i i ≠ 0
  wts : ∀ i pn, i < y.s.n - 1 → y.s.trajs[i]? = some (some pn) →
    ∃ w, y.s.wts.lookup pn = some w ∧ padValid y.s ((i : Int) - 1) w = y.s.W.getD i []
  wkeys : ∀ k ∈ y.s.wts.map Prod.fst, k < y.s.trajNum
  fkeys : ∀ k ∈ y.s.frac.map Prod.fst, k < y.s.trajNum
  rkeys : ∀ x ∈ y.s.rows, x.1 < y.s.trajNum

theorem Init5.inv5 {y : Sys} (h : Init5 y) : Inv5 y := by
  have hinv := h.init.invR
  refine ⟨hinv, ⟨h.rows, ?_, h.wts, h.wkeys, h.fkeys, h.rkeys⟩,
    DiagR.of_fresh (Or.inr h.init.locked0), ?_⟩
  · apply idle_perm_pos_of_diag y.s.n _ _ hinv.core.lenW hinv.core.lenL hinv.core.ghost h.rows
    intro i hi
    exact h.diag i (hinv.core.unlocked_lt i hi)
  · intro j hj
    rw [h.init.jobs] at hj
    simp at hj

end Infretis.Repex
