import Infretis.Lemmas.RepexC05Sys
/-!
# C05 — the initial state: every path valid in its own ensemble gives the identity matching
-/
namespace Infretis.Repex
open Infretis.Perm Infretis.Perm.C05

theorem permC_nil : permC ([] : Mat) = 1 := rfl

theorem entry_minor_lt (N : Mat) (m k : Nat) (hk : k < m) (hm : m < N.length) :
    entry (minor N m m) k k = entry N k k := by
  unfold entry minor
  have hk' : k < (N.eraseIdx m).length := by rw [List.length_eraseIdx, if_pos hm]; omega
  rw [List.getD_eq_getElem?_getD (l := List.map _ _), List.getElem?_map,
    List.getElem?_eq_getElem hk']
  simp only [Option.map_some, Option.getD_some]
  rw [getD_eraseIdx, if_pos hk, List.getElem_eraseIdx_of_lt hk' hk]
  rw [List.getD_eq_getElem?_getD (l := N), List.getElem?_eq_getElem (by omega)]
  rfl

/-- **identity matching**: a non-negative square matrix with a positive diagonal has a positive
    permanent -/
theorem permC_pos_of_diag : ∀ (m : Nat) (N : Mat), N.length = m → NonNegM N →
    (∀ k, k < m → 0 < entry N k k) → 0 < permC N := by
  intro m
  induction m with
  | zero =>
    intro N hlen _ _
    have : N = [] := List.eq_nil_of_length_eq_zero hlen
    subst this
    rw [permC_nil]; exact zero_lt_one
  | succ m ih =>
    intro N hlen hnn hdiag
    have hge := permC_ge_term N hnn m m (by omega) (by omega)
    have hmin : 0 < permC (minor N m m) := by
      apply ih
      · rw [length_minor N m m (by omega)]; omega
      · exact hnn.minor m m
      · intro k hk
        rw [entry_minor_lt N m k hk (by omega)]
        exact hdiag k (by omega)
    exact lt_of_lt_of_le (mul_pos (hdiag m (by omega)) hmin) hge

/-- positive diagonal on the idle slots ⇒ the idle block has a positive permanent -/
theorem idle_perm_pos_of_diag (n : Nat) (W : Mat) (locks : List Bool) (hlenW : W.length = n)
    (hlenL : locks.length = n) (hghost : locks[n - 1]? = some true)
    (rows : ∀ i, i < n - 1 → RowOk n i (W.getD i []))
    (hdiag : ∀ i, locks[i]? = some false → entry W i i ≠ 0) : 0 < permC (idle W locks) := by
  have hWL : W.length = locks.length := by rw [hlenW, hlenL]
  have hnn := rows_nonneg n W locks hlenL hghost rows
  apply permC_pos_of_diag (nIdle locks) _ (idle_length W locks hWL) hnn
  intro k hk
  obtain ⟨i, hi, rfl⟩ := exists_idle_of_lt_nIdle locks k hk
  rw [idle_entry W locks i i hWL hi hi]
  have h1 := getElem?_lt_of_some _ _ _ hi
  have hlt : i < n - 1 := by
    by_cases heq : i = n - 1
    · rw [heq, hghost] at hi; exact absurd hi (by simp)
    · omega
  have h0 : 0 ≤ entry W i i := by
    unfold entry
    rw [List.getD_eq_getElem?_getD (l := W.getD i [])]
    cases hx : (W.getD i [])[i]? with
    | none => simp
    | some x => exact (rows i hlt).nonneg x (List.mem_of_getElem? hx)
  exact lt_of_le_of_ne h0 (Ne.symm (hdiag i hi))

/-- The state `scheduler()` starts from (C03's `Init`) with initial paths from C02's weight family,
    each valid in its own ensemble (what `load_paths` asserts), their weights recorded in
    `traj_data`, and all recorded numbers below `traj_num`. -/
structure Init5 (y : Sys) : Prop where
  init : Init y
  rows : ∀ i, i < y.s.n - 1 → RowOk y.s.n i (y.s.W.getD i [])
  diag : ∀ i, i < y.s.n - 1 → entryM y.s.W i i ≠ 0
  wts : ∀ i pn, i < y.s.n - 1 → y.s.trajs[i]? = some (some pn) →
    ∃ w, y.s.wts.lookup pn = some w ∧ padValid y.s ((i : Int) - 1) w = y.s.W.getD i []
  wkeys : ∀ k ∈ y.s.wts.map Prod.fst, k < y.s.trajNum
  fkeys : ∀ k ∈ y.s.frac.map Prod.fst, k < y.s.trajNum
  rkeys : ∀ x ∈ y.s.rows, x.1 < y.s.trajNum

theorem Init5.inv5 {y : Sys} (h : Init5 y) : Inv5 y := by
  have hinv := h.init.inv
  refine ⟨hinv, ⟨h.rows, ?_, h.wts, h.wkeys, h.fkeys, h.rkeys⟩, ?_⟩
  · apply idle_perm_pos_of_diag y.s.n _ _ hinv.core.lenW hinv.core.lenL hinv.core.ghost h.rows
    intro i hi
    exact h.diag i (hinv.core.unlocked_lt i hi)
  · intro j hj
    rw [h.init.jobs] at hj
    simp at hj

end Infretis.Repex
