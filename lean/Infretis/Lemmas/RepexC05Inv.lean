import Infretis.Lemmas.RepexC03Load
import Infretis.Lemmas.RepexC03RInit
import Infretis.Lemmas.RepexC05Pos
/-!
# C05 — the weight-family / matchability invariant `Fam` of the replica-exchange state

`Fam s tn` (on top of C03's slot/lock invariant `CoreR`, which covers restarted runs; `Core`
implies it, `Core.toR`):
* `rows`   slot 0 holds a minus row `(w,0,…,0)`, `w > 0`; every other real slot a staircase plus row
           (zero in column 0, positive on columns `1..cnt`, zero after, `cnt ≤ n-2`),
* `perm`   the idle block has a positive permanent (it admits a perfect matching),
* `wts`    `traj_data[pn]['weights']` of every live path is the (un-padded) row of its slot,
* `wkeys`, `fkeys`, `rkeys`   all keys of `traj_data` and all rows of the data file are `< tn`.
Preservation: one pick step (`swap`, `lock`), `add_traj`, `pick`, `pick_lock`, `prep_md_items`.
-/
namespace Infretis.Repex
open Infretis.Perm Infretis.Perm.C05

/-! ### the weight family -/

/-- the (padded) row of a path sitting in slot `i` of an `n`-slot state is in C02's family -/
def RowOk (n i : Nat) (r : Row) : Prop :=
  (i = 0 → IsMinusRow n r) ∧ (1 ≤ i → ∃ cnt, IsPlusRow 1 n cnt r ∧ 1 + cnt ≤ n - 1)

theorem RowOk.congr_idx {n i j : Nat} {r : Row} (h : RowOk n j r) (hij : i = 0 ↔ j = 0) : RowOk n i r := by
  refine ⟨fun hi => h.1 (hij.mp hi), fun hi => h.2 ?_⟩
  rcases Nat.eq_zero_or_pos j with hj | hj
  · have := hij.mpr hj; omega
  · exact hj

theorem mem_getD {r : Row} {x : Rat} (hx : x ∈ r) : ∃ c, c < r.length ∧ r.getD c 0 = x := by
  obtain ⟨c, hc, hxc⟩ := List.getElem_of_mem hx
  exact ⟨c, hc, by rw [List.getD_eq_getElem?_getD, List.getElem?_eq_getElem hc]; simpa using hxc⟩

theorem RowOk.nonneg {n i : Nat} {r : Row} (h : RowOk n i r) : ∀ x ∈ r, (0 : Rat) ≤ x := by
  intro x hx
  obtain ⟨c, hc, rfl⟩ := mem_getD hx
  rcases Nat.eq_zero_or_pos i with hi | hi
  · obtain ⟨hlen, hpos, hz⟩ := h.1 hi
    rcases Nat.eq_zero_or_pos c with h0 | h0
    · subst h0; exact le_of_lt hpos
    · rw [hz c h0 (by omega)]
  · obtain ⟨cnt, ⟨hlen, _, hz, hp, hz'⟩, _⟩ := h.2 hi
    rcases Nat.lt_or_ge c 1 with h1 | h1
    · rw [hz c h1]
    · rcases Nat.lt_or_ge c (1 + cnt) with h2 | h2
      · exact le_of_lt (hp c h1 h2)
      · rw [hz' c h2 (by omega)]

theorem padValid_idx {s s' : St} (hn : s'.n = s.n) {i j : Nat} (hij : i = 0 ↔ j = 0) (w : List Rat) :
    padValid s' ((i : Int) - 1) w = padValid s ((j : Int) - 1) w := by
  unfold padValid
  rw [hn]
  have : ((i : Int) - 1 ≥ 0) ↔ ((j : Int) - 1 ≥ 0) := by omega
  by_cases h : (i : Int) - 1 ≥ 0
  · rw [if_pos h, if_pos (this.mp h)]
  · rw [if_neg h, if_neg (fun h' => h (this.mpr h'))]

structure Fam (s : St) (tn : Nat) : Prop where
  rows : ∀ i, i < s.n - 1 → RowOk s.n i (s.W.getD i [])
  perm : 0 < permC (idle s.W s.locks)
  wts : ∀ i pn, i < s.n - 1 → s.trajs[i]? = some (some pn) →
    ∃ w, s.wts.lookup pn = some w ∧ padValid s ((i : Int) - 1) w = s.W.getD i []
  wkeys : ∀ k ∈ s.wts.map Prod.fst, k < tn
  fkeys : ∀ k ∈ s.frac.map Prod.fst, k < tn
  rkeys : ∀ x ∈ s.rows, x.1 < tn

/-- equality of everything `Fam` reads -/
structure FamEq (s s' : St) : Prop where
  n : s'.n = s.n
  W : s'.W = s.W
  trajs : s'.trajs = s.trajs
  locks : s'.locks = s.locks
  wts : s'.wts = s.wts
  frac : s'.frac = s.frac
  rows : s'.rows = s.rows

theorem FamEq.refl (s : St) : FamEq s s := ⟨rfl, rfl, rfl, rfl, rfl, rfl, rfl⟩

theorem padValid_n {s s' : St} (hn : s'.n = s.n) (ens : Int) (w : List Rat) :
    padValid s' ens w = padValid s ens w := by
  unfold padValid; rw [hn]

theorem Fam.congr {s s' : St} {tn : Nat} (h : Fam s tn) (e : FamEq s s') : Fam s' tn := by
  obtain ⟨h1, h2, h3, h4, h5, h6, h7⟩ := e
  constructor
  · rw [h1, h2]; exact h.rows
  · rw [h2, h4]; exact h.perm
  · rw [h1, h2, h3, h5]
    intro i pn hi ht
    obtain ⟨w, hw1, hw2⟩ := h.wts i pn hi ht
    exact ⟨w, hw1, by rw [padValid_n h1]; exact hw2⟩
  · rw [h5]; exact h.wkeys
  · rw [h6]; exact h.fkeys
  · rw [h7]; exact h.rkeys

theorem Fam.mono {s : St} {tn tn' : Nat} (h : Fam s tn) (hle : tn ≤ tn') : Fam s tn' :=
  { h with
    wkeys := fun k hk => Nat.lt_of_lt_of_le (h.wkeys k hk) hle
    fkeys := fun k hk => Nat.lt_of_lt_of_le (h.fkeys k hk) hle
    rkeys := fun x hx => Nat.lt_of_lt_of_le (h.rkeys x hx) hle }

/-- the idle block of a state whose real slots hold family rows is non-negative -/
theorem rows_nonneg (n : Nat) (W : Mat) (locks : List Bool) (hlenL : locks.length = n)
    (hghost : locks[n - 1]? = some true)
    (rows : ∀ i, i < n - 1 → RowOk n i (W.getD i [])) : NonNegM (idle W locks) := by
  apply idle_nonneg
  intro i r hi hr x hx
  have h1 := getElem?_lt_of_some _ _ _ hi
  have hlt : i < n - 1 := by
    by_cases heq : i = n - 1
    · rw [heq, hghost] at hi; exact absurd hi (by simp)
    · omega
  have := rows i hlt
  rw [List.getD_eq_getElem?_getD, hr] at this
  exact this.nonneg x hx

/-- C03's fresh-start invariant is the special case `locked0 = []` of the restart-aware one -/
theorem Core.toR {s : St} {H : List (Nat × Nat)} {tn : Nat} (h : Core s H tn) : CoreR s H tn :=
  ⟨h.n2, h.lenW, h.lenT, h.lenL, h.ghost, h.busy, h.nodup, h.heldOk, h.live, h.inj,
    fun _ => Resv.ofNil h.l0⟩

theorem Fam.nonneg {s : St} {H : List (Nat × Nat)} {tn tn' : Nat} (hc : CoreR s H tn') (hf : Fam s tn) :
    NonNegM (idle s.W s.locks) :=
  rows_nonneg s.n s.W s.locks hc.lenL hc.ghost hf.rows

/-! ### identity matching: a positive diagonal gives a positive permanent -/

theorem permC_nil : permC ([] : Mat) = 1 := rfl

theorem entry_minor_lt (N : Mat) (m k : Nat) (hk : k < m) (hm : m < N.length) :
    entry (minor N m m) k k = entry N k k := by
  unfold entry minor
  have hk' : k < (N.eraseIdx m).length := by rw [List.length_eraseIdx, if_pos hm]; omega
  rw [List.getD_eq_getElem?_getD (l := List.map _ _), List.getElem?_map,
    List.getElem?_eq_getElem hk']
  simp only [Option.map_some, Option.getD_some]
  rw [getD_eraseIdx, if_pos hk, List.getElem_eraseIdx_of_lt hk' hk]
  rw [List.getD_eq_getElem?_getD (l := N), List.getElem?_eq_getElem (by omega)]
  rfl

/-- **identity matching**: a non-negative square matrix with a positive diagonal has a positive
    permanent -/
theorem permC_pos_of_diag : ∀ (m : Nat) (N : Mat), N.length = m → NonNegM N →
    (∀ k, k < m → 0 < entry N k k) → 0 < permC N := by
  intro m
  induction m with
  | zero =>
    intro N hlen _ _
    have : N = [] := List.eq_nil_of_length_eq_zero hlen
    subst this
    rw [permC_nil]; exact zero_lt_one
  | succ m ih =>
    intro N hlen hnn hdiag
    have hge := permC_ge_term N hnn m m (by omega) (by omega)
    have hmin : 0 < permC (minor N m m) := by
      apply ih
      · rw [length_minor N m m (by omega)]; omega
      · exact hnn.minor m m
      · intro k hk
        rw [entry_minor_lt N m k hk (by omega)]
        exact hdiag k (by omega)
    exact lt_of_lt_of_le (mul_pos (hdiag m (by omega)) hmin) hge

/-- positive diagonal on the idle slots ⇒ the idle block has a positive permanent -/
theorem idle_perm_pos_of_diag (n : Nat) (W : Mat) (locks : List Bool) (hlenW : W.length = n)
    (hlenL : locks.length = n) (hghost : locks[n - 1]? = some true)
    (rows : ∀ i, i < n - 1 → RowOk n i (W.getD i []))
    (hdiag : ∀ i : Nat, locks[i]? = some false → entry W i i ≠ 0) : 0 < permC (idle W locks) := by
  have hWL : W.length = locks.length := by rw [hlenW, hlenL]
  have hnn := rows_nonneg n W locks hlenL hghost rows
  apply permC_pos_of_diag (nIdle locks) _ (idle_length W locks hWL) hnn
  intro k hk
  obtain ⟨i, hi, rfl⟩ := exists_idle_of_lt_nIdle locks k hk
  rw [idle_entry W locks i i hWL hi hi]
  have h1 := getElem?_lt_of_some _ _ _ hi
  have hlt : i < n - 1 := by
    by_cases heq : i = n - 1
    · rw [heq, hghost] at hi; exact absurd hi (by simp)
    · omega
  have h0 : 0 ≤ entry W i i := by
    unfold entry
    rw [List.getD_eq_getElem?_getD (l := W.getD i [])]
    cases hx : (W.getD i [])[i]? with
    | none => simp
    | some x => exact (rows i hlt).nonneg x (List.mem_of_getElem? hx)
  exact lt_of_le_of_ne h0 (Ne.symm (hdiag i hi))

/-- while recorded jobs of a restart file are still to be re-issued (`toinitiate ≥ 0`,
    `locked0 ≠ []`) every idle slot still holds a path with non-zero weight in its own ensemble:
    no pick has swapped anything yet -/
def DiagR (s : St) : Prop :=
  0 ≤ s.toinitiate → s.locked0 ≠ [] → ∀ i : Nat, s.locks[i]? = some false → entryM s.W i i ≠ 0

theorem DiagR.of_fresh {s : St} (h : s.toinitiate < 0 ∨ s.locked0 = []) : DiagR s := by
  intro h0 hne
  rcases h with h | h
  · omega
  · exact absurd h hne

/-! ### swapping two slots -/

/-- the transposition of slots `t` and `e` -/
def tr (t e k : Nat) : Nat := if k = e then t else if k = t then e else k

theorem tr_lt {t e k m : Nat} (ht : t < m) (he : e < m) (hk : k < m) : tr t e k < m := by
  unfold tr; split
  · exact ht
  · split
    · exact he
    · exact hk

theorem tr_zero_iff {t e k : Nat} (h0 : t = 0 ↔ e = 0) : k = 0 ↔ tr t e k = 0 := by
  unfold tr
  split
  · rename_i h; subst h; exact h0.symm
  · split
    · rename_i _ h; subst h; exact h0
    · exact Iff.rfl

theorem swap_W_getD (s : St) (t e k : Nat) (ht : t < s.W.length) (he : e < s.W.length) :
    (swap s t e).W.getD k [] = s.W.getD (tr t e k) [] := by
  show (swapList s.W t e).getD k [] = _
  simp only [List.getD_eq_getElem?_getD, swapList_getElem? _ _ _ _ ht he, tr]
  split
  · rfl
  · split <;> rfl

theorem swap_trajs_get (s : St) (t e k : Nat) (ht : t < s.trajs.length) (he : e < s.trajs.length) :
    (swap s t e).trajs[k]? = s.trajs[tr t e k]? := by
  show (swapList s.trajs t e)[k]? = _
  simp only [swapList_getElem? _ _ _ _ ht he, tr]
  split
  · rfl
  · split <;> rfl

/-- rows and recorded weights follow a swap of two slots that are both `0` or both plus slots -/
theorem swap_rows_wts {s : St} {tn : Nat} (hf : Fam s tn) (hlenW : s.W.length = s.n)
    (hlenT : s.trajs.length = s.n) (t e : Nat) (ht : t < s.n - 1) (he : e < s.n - 1)
    (h0 : t = 0 ↔ e = 0) :
    (∀ i, i < s.n - 1 → RowOk s.n i ((swap s t e).W.getD i [])) ∧
    (∀ i pn, i < s.n - 1 → (swap s t e).trajs[i]? = some (some pn) →
      ∃ w, s.wts.lookup pn = some w ∧ padValid s ((i : Int) - 1) w = (swap s t e).W.getD i []) := by
  have htW : t < s.W.length := by omega
  have heW : e < s.W.length := by omega
  have htT : t < s.trajs.length := by omega
  have heT : e < s.trajs.length := by omega
  constructor
  · intro i hi
    rw [swap_W_getD s t e i htW heW]
    exact (hf.rows _ (tr_lt ht he hi)).congr_idx (tr_zero_iff h0)
  · intro i pn hi htr
    rw [swap_trajs_get s t e i htT heT] at htr
    obtain ⟨w, hw1, hw2⟩ := hf.wts _ pn (tr_lt ht he hi) htr
    refine ⟨w, hw1, ?_⟩
    rw [swap_W_getD s t e i htW heW, ← hw2]
    exact padValid_idx rfl (tr_zero_iff h0) w

/-- a non-zero weight of the row in slot `t` in column `e` forces both to be `0` or both plus slots -/
theorem zero_iff_of_entry_ne {s : St} {tn : Nat} (hf : Fam s tn) (t e : Nat) (ht : t < s.n - 1)
    (he : e < s.n - 1) (hw : entryM s.W t e ≠ 0) : t = 0 ↔ e = 0 := by
  have hrow := hf.rows t ht
  constructor
  · intro h
    subst h
    obtain ⟨_, _, hz⟩ := hrow.1 rfl
    by_contra hne
    exact hw (hz e (by omega) (by omega))
  · intro h
    subst h
    by_contra hne
    obtain ⟨cnt, ⟨_, _, hz, _, _⟩, _⟩ := hrow.2 (by omega)
    exact hw (hz 0 (by omega))

/-! ### one pick step: `swap(t, e)`, `lock(e)` for a positive-probability `(t, e)` -/

theorem lockStep_fam {s s2 : St} {H : List (Nat × Nat)} {tn tn' : Nat} (hc : CoreR s H tn')
    (hf : Fam s tn) (t e : Nat) (hpos : 0 < entryM (prob s) t e)
    (hl : lock (swap s t e) e = .ok s2) : Fam s2 tn := by
  obtain ⟨ht, he, hw⟩ := prob_posR hc t e hpos
  have ht' := hc.unlocked_lt t ht
  have he' := hc.unlocked_lt e he
  have h0 := zero_iff_of_entry_ne hf t e ht' he' hw
  obtain ⟨hr, hwt⟩ := swap_rows_wts hf hc.lenW hc.lenT t e ht' he' h0
  obtain ⟨_, hs2⟩ := lock_ok hl
  subst hs2
  have hWL : s.W.length = s.locks.length := by rw [hc.lenW, hc.lenL]
  refine ⟨hr, ?_, hwt, hf.wkeys, hf.fkeys, hf.rkeys⟩
  show 0 < permC (idle (swapList s.W t e) (s.locks.set e true))
  rw [permC_perm (idle_pick_perm s.W s.locks t e hWL ht he)]
  have hp : 0 < pSpec (idle s.W s.locks) (rank s.locks t) (rank s.locks e) := by
    rw [← probMatrix_idle s.W s.locks hWL t e ht he]
    exact hpos
  exact (pSpec_pos _ (hf.nonneg hc) hf.perm _ _ hp).2

/-! ### `pick()` and `pick_lock()` and `prep_md_items` -/

theorem pickCore_fam {s s' : St} {H : List (Nat × Nat)} {tn tn' : Nat} (hc : CoreR s H tn')
    (hf : Fam s tn) (o : PickOutcome) (pairs : List (Int × Option Nat)) (ds : List Draw)
    (hp : pickCore s o = .ok (s', pairs, ds)) (hfresh : s.toinitiate < 0 ∨ s.locked0 = []) :
    Fam s' tn := by
  unfold pickCore at hp
  simp only [] at hp
  split at hp
  · exact absurd hp (by simp)
  rename_i hpos
  have hpos : 0 < entryM (prob s) o.t o.e := Classical.not_not.mp hpos
  split at hp
  · exact absurd hp (by simp)
  rename_i s2 hl
  have hf2 := lockStep_fam hc hf o.t o.e hpos hl
  obtain ⟨pn, _, hc2, ha2, _⟩ := lockStep_coreR hc o.t o.e hpos hl hfresh
  split at hp
  · by_cases he1 : (o.e == off) = true
    · simp only [he1, ↓reduceIte] at hp
      split at hp
      · exact absurd hp (by simp)
      rename_i hpos2
      rw [col_getD] at hpos2
      have hpos2 := Classical.not_not.mp hpos2
      split at hp
      · exact absurd hp (by simp)
      rename_i s4 hl4
      simp only [Except.ok.injEq, Prod.mk.injEq] at hp
      obtain ⟨rfl, _, _⟩ := hp
      exact lockStep_fam hc2 hf2 _ _ hpos2 hl4
    · have he1f : (o.e == off) = false := by simpa using he1
      simp only [he1f, Bool.false_eq_true, ↓reduceIte] at hp
      split at hp
      · exact absurd hp (by simp)
      rename_i hpos2
      rw [col_getD] at hpos2
      have hpos2 := Classical.not_not.mp hpos2
      split at hp
      · exact absurd hp (by simp)
      rename_i s4 hl4
      simp only [Except.ok.injEq, Prod.mk.injEq] at hp
      obtain ⟨rfl, _, _⟩ := hp
      exact lockStep_fam hc2 hf2 _ _ hpos2 hl4
  · simp only [Except.ok.injEq, Prod.mk.injEq] at hp
    obtain ⟨rfl, _, _⟩ := hp
    exact hf2

theorem pick_fam {s s' : St} {H : List (Nat × Nat)} {tn tn' : Nat} (hc : CoreR s H tn')
    (hf : Fam s tn) (o : PickOutcome) (ps : List Picked) (ds : List Draw)
    (hp : pick s o = .ok (s', ps, ds)) (hfresh : s.toinitiate < 0 ∨ s.locked0 = []) : Fam s' tn := by
  unfold pick at hp
  split at hp
  · exact absurd hp (by simp)
  rename_i s1 pairs ds1 hpc
  split at hp
  · exact absurd hp (by simp)
  simp only [Except.ok.injEq, Prod.mk.injEq] at hp
  obtain ⟨rfl, _, _⟩ := hp
  exact (pickCore_fam hc hf o pairs ds1 hpc hfresh).congr ⟨rfl, rfl, rfl, rfl, rfl, rfl, rfl⟩

theorem restoreStreamOnce_famEq (s : St) (d : Nat) : FamEq s (restoreStreamOnce s d) := by
  unfold restoreStreamOnce
  split <;> exact ⟨rfl, rfl, rfl, rfl, rfl, rfl, rfl⟩

/-- the re-issue loop only sets locks: everything `Fam` reads besides the locks is unchanged, and
    no slot becomes idle -/
theorem reissueGo_shape : ∀ (l : List (Nat × Nat)) {s s' : St} {H : List (Nat × Nat)} {tn : Nat}
    {pairs : List (Int × Option Nat)},
    CoreR s H tn → 0 ≤ s.toinitiate → (l.map Prod.fst).Nodup →
    (∀ e pn, (e, pn) ∈ l →
      s.locks[e]? = some false ∧ s.trajs[e]? = some (some pn) ∧ entryM s.W e e ≠ 0) →
    (∀ e pn, (e, pn) ∈ l → e ∉ (held0 s.locked0).map Prod.fst) →
    reissue.go s l = .ok (s', pairs) →
    s'.n = s.n ∧ s'.W = s.W ∧ s'.trajs = s.trajs ∧ s'.wts = s.wts ∧ s'.frac = s.frac ∧
      s'.rows = s.rows ∧ (∀ i : Nat, s'.locks[i]? = some false → s.locks[i]? = some false) := by
  intro l
  induction l with
  | nil =>
    intro s s' H tn pairs _ _ _ _ _ hg
    simp only [reissue.go, Except.ok.injEq, Prod.mk.injEq] at hg
    obtain ⟨rfl, _⟩ := hg
    exact ⟨rfl, rfl, rfl, rfl, rfl, rfl, fun _ h => h⟩
  | cons x rest ih =>
    intro s s' H tn pairs h h0 hnd hok hnot hg
    obtain ⟨e, tr⟩ := x
    obtain ⟨hle, hte, hwe⟩ := hok e tr (List.mem_cons_self ..)
    have he := h.unlocked_lt e hle
    simp only [List.map_cons, List.nodup_cons] at hnd
    unfold reissue.go at hg
    rw [findIdx_live h e tr he hte] at hg
    simp only [swap_self] at hg
    split at hg
    · exact absurd hg (by simp)
    rename_i s2 hl
    obtain ⟨_, hs2⟩ := lock_ok hl
    subst hs2
    split at hg
    · exact absurd hg (by simp)
    rename_i s3 ps hrec
    simp only [Except.ok.injEq, Prod.mk.injEq] at hg
    obtain ⟨rfl, _⟩ := hg
    have hc2 : CoreR { s with locks := s.locks.set e true } ((e, tr) :: H) tn :=
      lock_coreR h e tr hle hte hwe rfl rfl rfl rfl
        (fun h00 => (h.resv h00).lockOther e (hnot e tr (List.mem_cons_self ..)) rfl rfl rfl rfl)
    obtain ⟨h1, h2, h3, h4, h5, h6, h7⟩ := ih (s := { s with locks := s.locks.set e true }) hc2 h0 hnd.2
      (by
        intro e' pn' hm
        obtain ⟨g1, g2, g3⟩ := hok e' pn' (List.mem_cons_of_mem _ hm)
        have hne : e ≠ e' := by
          intro heq
          exact hnd.1 (List.mem_map.mpr ⟨(e', pn'), hm, heq.symm⟩)
        exact ⟨by show (s.locks.set e true)[e']? = _; rw [List.getElem?_set_ne hne]; exact g1, g2, g3⟩)
      (fun e' pn' hm => hnot e' pn' (List.mem_cons_of_mem _ hm)) hrec
    refine ⟨h1, h2, h3, h4, h5, h6, ?_⟩
    intro i hi
    have := h7 i hi
    change (s.locks.set e true)[i]? = some false at this
    by_cases hie : e = i
    · subst hie
      rw [List.getElem?_set_self (by rw [h.lenL]; omega)] at this
      exact absurd this (by simp)
    · rw [List.getElem?_set_ne hie] at this
      exact this

/-- **`pick_lock()`**: a fresh pick, or the re-issue of a recorded job (which only re-locks slots
    whose paths still sit in their own ensembles) -/
theorem pickLock_fam {s s' : St} {H : List (Nat × Nat)} {tn tn' : Nat} (hc : CoreR s H tn')
    (hf : Fam s tn) (hd : DiagR s) (h0 : 0 ≤ s.toinitiate) (o : PickOutcome) (d : Nat)
    (ps : List Picked) (ds : List Draw)
    (hp : pickLock s o d = .ok (s', ps, ds)) : Fam s' tn ∧ DiagR s' := by
  obtain ⟨hc', ha', _, _, _, _, _⟩ := pickLock_coreR hc h0 o d ps ds hp
  unfold pickLock at hp
  split at hp
  · rename_i hnil
    have hfr : (restoreStreamOnce s d).toinitiate < 0 ∨ (restoreStreamOnce s d).locked0 = [] :=
      Or.inr (by rw [(restoreStreamOnce_coreEqR s d).locked0]; exact hnil)
    refine ⟨pick_fam (hc.congr (restoreStreamOnce_coreEqR s d))
      (hf.congr (restoreStreamOnce_famEq s d)) o ps ds hp hfr, ?_⟩
    obtain ⟨_, ha, _⟩ := pick_coreR (hc.congr (restoreStreamOnce_coreEqR s d)) o ps ds hp hfr
    apply DiagR.of_fresh
    right
    rw [ha.locked0, (restoreStreamOnce_coreEqR s d).locked0]
    exact hnil
  · rename_i enss0 trajs0 rest hcons
    split at hp
    · exact absurd hp (by simp)
    rename_i s1 pairs hre
    split at hp
    · exact absurd hp (by simp)
    simp only [Except.ok.injEq, Prod.mk.injEq] at hp
    obtain ⟨rfl, _, _⟩ := hp
    have hR := hc.resv h0
    have hnd := hR.nodup
    rw [hcons, held0_cons, List.map_append, List.nodup_append] at hnd
    have hok : ∀ e pn, (e, pn) ∈ enss0.zip trajs0 →
        s.locks[e]? = some false ∧ s.trajs[e]? = some (some pn) ∧ entryM s.W e e ≠ 0 := by
      intro e pn hm
      apply hR.ok
      rw [hcons, held0_cons]
      exact List.mem_append_left _ hm
    have hc0 : CoreR { s with locked0 := rest, locked0Ord := s.locked0Ord.tail } H tn' := by
      refine { hc with resv := ?_ }
      intro _
      constructor
      · intro en hen
        exact hR.shape en (by rw [hcons]; exact List.mem_cons_of_mem _ hen)
      · exact hnd.2.1
      · intro e pn hm
        apply hR.ok
        rw [hcons, held0_cons]
        exact List.mem_append_right _ hm
    unfold reissue at hre
    obtain ⟨h1, h2, h3, h4, h5, h6, h7⟩ := reissueGo_shape (enss0.zip trajs0) hc0 h0 hnd.1 hok
      (by
        intro e pn hm hin
        exact hnd.2.2 e (List.mem_map.mpr ⟨(e, pn), hm, rfl⟩) e hin rfl)
      hre
    -- every idle slot of the old state has a non-zero diagonal; the new idle slots are among them
    have hdiag : ∀ i : Nat, s1.locks[i]? = some false → entryM s1.W i i ≠ 0 := by
      intro i hi
      rw [h2]
      exact hd h0 (by rw [hcons]; simp) i (h7 i hi)
    have hrows : ∀ i, i < s1.n - 1 → RowOk s1.n i (s1.W.getD i []) := by
      rw [h1, h2]; exact hf.rows
    have hfam : Fam (reissued s s1 enss0 trajs0) tn := by
      refine ⟨hrows, ?_, ?_, ?_, ?_, ?_⟩
      · show 0 < permC (idle s1.W s1.locks)
        exact idle_perm_pos_of_diag s1.n s1.W s1.locks hc'.lenW hc'.lenL hc'.ghost hrows hdiag
      · show ∀ i pn, i < s1.n - 1 → s1.trajs[i]? = some (some pn) →
          ∃ w, s1.wts.lookup pn = some w ∧ padValid (reissued s s1 enss0 trajs0) ((i : Int) - 1) w = s1.W.getD i []
        rw [h1, h2, h3, h4]
        intro i pn hi ht
        obtain ⟨w, hw1, hw2⟩ := hf.wts i pn hi ht
        exact ⟨w, hw1, by rw [padValid_n (s := s) (show (reissued s s1 enss0 trajs0).n = s.n from h1)]; exact hw2⟩
      · show ∀ k ∈ s1.wts.map Prod.fst, k < tn
        rw [h4]; exact hf.wkeys
      · show ∀ k ∈ s1.frac.map Prod.fst, k < tn
        rw [h5]; exact hf.fkeys
      · show ∀ x ∈ s1.rows, x.1 < tn
        rw [h6]; exact hf.rkeys
    exact ⟨hfam, fun _ _ i hi => hdiag i hi⟩

/-- `prep_md_items` keeps the family invariant; the job it returns records the picked paths -/
theorem prep_fam {s s' : St} {H : List (Nat × Nat)} {tn tn' : Nat} (hc : CoreR s H tn')
    (hf : Fam s tn) (hd : DiagR s) (prev : Option Nat) (o : PickOutcome) (saved : Nat) (job : Job)
    (ds : List Draw) (h : prep s prev o saved = .ok (s', job, ds)) :
    Fam s' tn ∧ DiagR s' ∧ job.pnumOld = job.picked.map (·.pn) := by
  unfold prep at h
  simp only [] at h
  generalize hpin : (if s.toinitiate ≥ 0 then some s.cworker else prev) = pin? at h
  split at h
  · exact absurd h (by simp)
  rename_i s1 ps ds1 hr
  have hf1 : Fam s1 tn ∧ DiagR s1 := by
    split at hr
    · rename_i h0
      exact pickLock_fam hc hf hd h0 o saved ps ds1 hr
    · rename_i h0
      have hfr : s.toinitiate < 0 ∨ s.locked0 = [] := Or.inl (by omega)
      refine ⟨pick_fam hc hf o ps ds1 hr hfr, ?_⟩
      obtain ⟨_, ha, _⟩ := pick_coreR hc o ps ds1 hr hfr
      exact DiagR.of_fresh (Or.inl (by rw [ha.toinitiate]; omega))
  split at h
  · exact absurd h (by simp)
  split at h
  · exact absurd h (by simp)
  split at h
  · exact absurd h (by simp)
  simp only [Except.ok.injEq, Prod.mk.injEq] at h
  obtain ⟨rfl, rfl, _⟩ := h
  exact ⟨hf1.1.congr ⟨rfl, rfl, rfl, rfl, rfl, rfl, rfl⟩, hf1.2, rfl⟩

end Infretis.Repex
