import Infretis.Lemmas.RepexC03Perm
import Infretis.Lemmas.PermBlock
import Mathlib.Data.List.Perm.Basic
/-!
# C05 — how the idle block changes under the sampler's elementary operations

`idle W locks` (rows and columns of the unlocked slots) under
* a swap of two idle rows                      (`idle_swap_perm`: a row permutation),
* `swap(t, e)` followed by `lock(e)`            (`idle_pick_perm`: the minor at `(rank t, rank e)` up to a row permutation),
* `add_traj` into a locked slot `e`             (`idle_unlock_minor`: the old block is the `(rank e, rank e)` minor of the new one),
and the Frobenius–König consequence used by the termination proof of `sort_trajstate`
(`no_gap`): if the permanent of the idle block is non-zero, the idle rows in slots `< z`
together with one more idle row cannot all vanish on the columns `≥ z`.

(`rank` facts are re-proved here under `Infretis.Perm.C05` because `PermFull` and `RepexC03Perm`
cannot be imported together: both declare `Infretis.Perm.keep_getD_rank`.)
-/
namespace Infretis.Perm.C05
open Infretis.Perm
open Infretis.Repex (swapList)

/-! ## `rank` -/

theorem rank_zero (locks : List Bool) : rank locks 0 = 0 := by simp [rank]

theorem rank_cons_succ (l : Bool) (ls : List Bool) (i : Nat) :
    rank (l :: ls) (i + 1) = (if l then 0 else 1) + rank ls i := by
  cases l <;> simp [rank, Nat.add_comm]

theorem nIdle_cons (l : Bool) (ls : List Bool) :
    nIdle (l :: ls) = (if l then 0 else 1) + nIdle ls := by
  cases l <;> simp [nIdle, Nat.add_comm]

theorem rank_succ_le (locks : List Bool) (i : Nat) :
    rank locks i ≤ rank locks (i + 1) ∧ rank locks (i + 1) ≤ rank locks i + 1 := by
  induction locks generalizing i with
  | nil => simp [rank]
  | cons l ls ih =>
    cases i with
    | zero => cases l <;> simp [rank]
    | succ i =>
      have := ih i
      rw [rank_cons_succ, rank_cons_succ]
      omega

theorem rank_mono (locks : List Bool) {i j : Nat} (h : i ≤ j) : rank locks i ≤ rank locks j := by
  induction j with
  | zero =>
    have : i = 0 := by omega
    subst this; exact Nat.le_refl _
  | succ j ih =>
    rcases Nat.lt_or_ge i (j + 1) with h' | h'
    · exact Nat.le_trans (ih (by omega)) (rank_succ_le locks j).1
    · have : i = j + 1 := by omega
      subst this; exact Nat.le_refl _

theorem rank_le_nIdle (locks : List Bool) (i : Nat) : rank locks i ≤ nIdle locks := by
  induction locks generalizing i with
  | nil => simp [rank, nIdle]
  | cons l ls ih =>
    cases i with
    | zero => simp [rank]
    | succ i =>
      have := ih i
      rw [rank_cons_succ, nIdle_cons]
      omega

theorem rank_succ_of_idle (locks : List Bool) (i : Nat) (h : locks[i]? = some false) :
    rank locks (i + 1) = rank locks i + 1 := by
  induction locks generalizing i with
  | nil => simp at h
  | cons l ls ih =>
    cases i with
    | zero =>
      simp only [List.getElem?_cons_zero, Option.some.injEq] at h
      subst h; simp [rank]
    | succ i =>
      simp only [List.getElem?_cons_succ] at h
      have := ih i h
      rw [rank_cons_succ, rank_cons_succ]
      omega

theorem rank_lt_of_idle_lt (locks : List Bool) {i j : Nat} (hi : locks[i]? = some false)
    (h : i < j) : rank locks i < rank locks j := by
  have h1 := rank_succ_of_idle locks i hi
  have h2 := rank_mono locks (i := i + 1) (j := j) h
  omega

theorem idle_lt_length (locks : List Bool) (i : Nat) (h : locks[i]? = some false) :
    i < locks.length := by
  rcases Nat.lt_or_ge i locks.length with h' | h'
  · exact h'
  · rw [List.getElem?_eq_none h'] at h
    exact absurd h (by simp)

/-- every position of the idle block is the rank of an idle slot -/
theorem exists_idle_of_lt_nIdle (locks : List Bool) (i : Nat) (h : i < nIdle locks) :
    ∃ j, locks[j]? = some false ∧ rank locks j = i := by
  induction locks generalizing i with
  | nil => simp [nIdle] at h
  | cons l ls ih =>
    cases l with
    | true =>
      have h' : i < nIdle ls := by simpa [nIdle] using h
      obtain ⟨j, hj, hr⟩ := ih i h'
      exact ⟨j + 1, by simpa using hj, by rw [rank_cons_succ]; simpa using hr⟩
    | false =>
      cases i with
      | zero => exact ⟨0, by simp, rank_zero _⟩
      | succ i =>
        have h' : i < nIdle ls := by
          have := h; rw [nIdle_cons] at this; simp at this; omega
        obtain ⟨j, hj, hr⟩ := ih i h'
        refine ⟨j + 1, by simpa using hj, ?_⟩
        rw [rank_cons_succ]; simp; omega

/-- the rank of a slot only looks at the locks before it -/
theorem rank_set_self (locks : List Bool) (e : Nat) (b : Bool) :
    rank (locks.set e b) e = rank locks e := by
  unfold rank
  rw [List.take_set_of_le (Nat.le_refl e)]

/-- row `rank locks s` of the idle block is row `s` of `W` without the busy columns -/
theorem idle_getD_rank (W : Mat) (locks : List Bool) (s : Nat) (hW : W.length = locks.length)
    (hs : locks[s]? = some false) :
    (idle W locks).getD (rank locks s) [] = keep locks (W.getD s []) := by
  have hlt : rank locks s < (keep locks W).length := by
    rw [keep_length locks W hW]; exact rank_lt locks s hs
  unfold idle
  rw [List.getD_eq_getElem?_getD, List.getElem?_map, List.getElem?_eq_getElem hlt]
  simp only [Option.map_some, Option.getD_some]
  have := keep_getD_rank_c03 ([] : Row) locks W s hs
  rw [List.getD_eq_getElem?_getD, List.getElem?_eq_getElem hlt] at this
  simp only [Option.getD_some] at this
  rw [this]

/-! ## `keep` under updates of the lists -/

theorem keep_nil {α : Type} (locks : List Bool) : keep locks ([] : List α) = [] := by
  cases locks <;> rfl

theorem keep_lock {α : Type} (locks : List Bool) (xs : List α) (e : Nat)
    (h : locks[e]? = some false) :
    keep (locks.set e true) xs = (keep locks xs).eraseIdx (rank locks e) := by
  induction locks generalizing xs e with
  | nil => simp at h
  | cons l ls ih =>
    cases xs with
    | nil => simp [keep_nil]
    | cons x xs =>
      cases e with
      | zero =>
        simp only [List.getElem?_cons_zero, Option.some.injEq] at h
        subst h
        simp [keep, rank]
      | succ e =>
        simp only [List.getElem?_cons_succ] at h
        rw [List.set_cons_succ, rank_cons_succ]
        cases l <;> simp [keep, ih xs e h, Nat.add_comm 1]

theorem keep_set_locked {α : Type} (locks : List Bool) (xs : List α) (i : Nat) (x : α)
    (h : locks[i]? = some true) : keep locks (xs.set i x) = keep locks xs := by
  induction locks generalizing xs i with
  | nil => simp at h
  | cons l ls ih =>
    cases xs with
    | nil => simp
    | cons y ys =>
      cases i with
      | zero =>
        simp only [List.getElem?_cons_zero, Option.some.injEq] at h
        subst h
        simp [keep]
      | succ i =>
        simp only [List.getElem?_cons_succ] at h
        rw [List.set_cons_succ]
        cases l <;> simp [keep, ih ys i h]

theorem keep_set_idle {α : Type} (locks : List Bool) (xs : List α) (i : Nat) (x : α)
    (h : locks[i]? = some false) :
    keep locks (xs.set i x) = (keep locks xs).set (rank locks i) x := by
  induction locks generalizing xs i with
  | nil => simp at h
  | cons l ls ih =>
    cases xs with
    | nil => simp [keep_nil]
    | cons y ys =>
      cases i with
      | zero =>
        simp only [List.getElem?_cons_zero, Option.some.injEq] at h
        subst h
        simp [keep, rank]
      | succ i =>
        simp only [List.getElem?_cons_succ] at h
        rw [List.set_cons_succ, rank_cons_succ]
        cases l <;> simp [keep, ih ys i h, Nat.add_comm 1]

theorem keep_getElem?_rank {α : Type} (locks : List Bool) (xs : List α) (i : Nat)
    (h : locks[i]? = some false) : (keep locks xs)[rank locks i]? = xs[i]? := by
  induction locks generalizing xs i with
  | nil => simp at h
  | cons l ls ih =>
    cases xs with
    | nil => simp [keep_nil]
    | cons y ys =>
      cases i with
      | zero =>
        simp only [List.getElem?_cons_zero, Option.some.injEq] at h
        subst h
        simp [keep, rank]
      | succ i =>
        simp only [List.getElem?_cons_succ] at h
        rw [rank_cons_succ]
        cases l <;> simp [keep, ih ys i h, Nat.add_comm 1]

/-- every element kept comes from an idle position -/
theorem mem_keep {α : Type} (locks : List Bool) (xs : List α) (x : α) (h : x ∈ keep locks xs) :
    ∃ i : Nat, locks[i]? = some false ∧ xs[i]? = some x := by
  induction locks generalizing xs with
  | nil => simp [keep] at h
  | cons l ls ih =>
    cases xs with
    | nil => simp [keep] at h
    | cons y ys =>
      cases l with
      | true =>
        simp only [keep, if_true] at h
        obtain ⟨i, h1, h2⟩ := ih ys h
        exact ⟨i + 1, by simpa using h1, by simpa using h2⟩
      | false =>
        simp only [keep, Bool.false_eq_true, if_false, List.mem_cons] at h
        rcases h with h | h
        · exact ⟨0, by simp, by simp [h]⟩
        · obtain ⟨i, h1, h2⟩ := ih ys h
          exact ⟨i + 1, by simpa using h1, by simpa using h2⟩

theorem swapList_eq_of_lt {α : Type} (l : List α) (i j : Nat) (hi : i < l.length)
    (hj : j < l.length) : swapList l i j = (l.set i l[j]).set j l[i] := by
  simp [swapList, List.getElem?_eq_getElem hi, List.getElem?_eq_getElem hj]

theorem swapList_length {α : Type} (l : List α) (i j : Nat) : (swapList l i j).length = l.length := by
  unfold swapList
  split <;> simp

theorem swapList_perm {α : Type} (l : List α) (i j : Nat) : (swapList l i j).Perm l := by
  classical
  unfold swapList
  split
  · rename_i a b hi hj
    obtain ⟨hil, rfl⟩ := List.getElem?_eq_some_iff.mp hi
    obtain ⟨hjl, rfl⟩ := List.getElem?_eq_some_iff.mp hj
    rw [List.perm_iff_count]
    intro c
    by_cases hij : i = j
    · subst hij
      rw [List.set_set, List.set_getElem_self]
    · rw [List.count_set (by simpa using hjl), List.count_set hil, List.getElem_set_ne hij]
      have h1 : l[i] == c → 0 < l.count c := fun h =>
        List.count_pos_iff.mpr (by rw [← eq_of_beq h]; exact List.getElem_mem hil)
      have h2 : l[j] == c → 0 < l.count c := fun h =>
        List.count_pos_iff.mpr (by rw [← eq_of_beq h]; exact List.getElem_mem hjl)
      by_cases e1 : (l[i] == c) = true <;> by_cases e2 : (l[j] == c) = true <;>
        simp only [e1, e2, if_true, if_false, Bool.false_eq_true] <;> [have := h1 e1; have := h1 e1; have := h2 e2; skip] <;> omega
  · exact List.Perm.refl _

theorem swapList_getD_right {α : Type} (l : List α) (i j : Nat) (hi : i < l.length)
    (hj : j < l.length) (d : α) : (swapList l i j).getD j d = l.getD i d := by
  rw [swapList_eq_of_lt l i j hi hj]
  simp [List.getD_eq_getElem?_getD, hi, hj]

theorem keep_swapList {α : Type} (locks : List Bool) (xs : List α) (i j : Nat)
    (hi : locks[i]? = some false) (hj : locks[j]? = some false) :
    keep locks (swapList xs i j) = swapList (keep locks xs) (rank locks i) (rank locks j) := by
  unfold swapList
  rw [keep_getElem?_rank locks xs i hi, keep_getElem?_rank locks xs j hj]
  cases xs[i]? with
  | none => rfl
  | some a =>
    cases xs[j]? with
    | none => rfl
    | some b =>
      simp only
      rw [keep_set_idle locks _ j a hj, keep_set_idle locks _ i b hi]

/-! ## the idle block under the sampler's operations -/

/-- swapping two idle rows permutes the rows of the idle block -/
theorem idle_swap_perm (W : Mat) (locks : List Bool) (i j : Nat) (hW : W.length = locks.length)
    (hi : locks[i]? = some false) (hj : locks[j]? = some false) :
    (idle (swapList W i j) locks).Perm (idle W locks) := by
  have _ := hW
  unfold idle
  rw [keep_swapList locks W i j hi hj]
  exact (swapList_perm _ _ _).map _

/-- `swap(t, e)` then `lock(e)`: what stays idle is the minor at `(rank t, rank e)`, up to the
    order of the rows -/
theorem idle_pick_perm (W : Mat) (locks : List Bool) (t e : Nat) (hW : W.length = locks.length)
    (ht : locks[t]? = some false) (he : locks[e]? = some false) :
    (idle (swapList W t e) (locks.set e true)).Perm
      (minor (idle W locks) (rank locks t) (rank locks e)) := by
  have hK : (keep locks W).length = nIdle locks := keep_length locks W hW
  have hrt : rank locks t < (keep locks W).length := by rw [hK]; exact rank_lt locks t ht
  have hre : rank locks e < (keep locks W).length := by rw [hK]; exact rank_lt locks e he
  have hcol : keep (locks.set e true) = fun r : Row => (keep locks r).eraseIdx (rank locks e) := by
    funext r; exact keep_lock locks r e he
  have hrows : ((swapList (keep locks W) (rank locks t) (rank locks e)).eraseIdx (rank locks e)).Perm
      ((keep locks W).eraseIdx (rank locks t)) :=
    eraseIdx_perm_of_perm (swapList_perm _ _ _) _ _ (by rw [swapList_length]; exact hre) hrt []
      (swapList_getD_right _ _ _ hrt hre [])
  unfold idle minor
  rw [keep_lock locks _ e he, keep_swapList locks W t e ht he, hcol, List.eraseIdx_map,
    List.map_map]
  exact hrows.map _

theorem locked_lt_length (locks : List Bool) (e : Nat) (he : locks[e]? = some true) :
    e < locks.length := by
  rcases Nat.lt_or_ge e locks.length with h' | h'
  · exact h'
  · rw [List.getElem?_eq_none h'] at he
    exact absurd he (by simp)

theorem set_false_getElem? (locks : List Bool) (e : Nat) (he : locks[e]? = some true) :
    (locks.set e false)[e]? = some false := by
  simp [locked_lt_length locks e he]

theorem set_false_set_true (locks : List Bool) (e : Nat) (he : locks[e]? = some true) :
    (locks.set e false).set e true = locks := by
  rw [List.set_set]
  apply List.ext_getElem?
  intro i
  rw [List.getElem?_set]
  by_cases h : e = i
  · subst h; rw [if_pos rfl, if_pos (locked_lt_length locks e he), he]
  · simp [h]

/-- `add_traj` into the locked slot `e`: removing the new row and column gives the old block -/
theorem idle_unlock_minor (W : Mat) (locks : List Bool) (e : Nat) (v : Row)
    (hW : W.length = locks.length) (he : locks[e]? = some true) :
    minor (idle (W.set e v) (locks.set e false)) (rank locks e) (rank locks e) = idle W locks := by
  have _ := hW
  have hcol : keep locks = fun r : Row =>
      (keep (locks.set e false) r).eraseIdx (rank locks e) := by
    funext r
    have := keep_lock (locks.set e false) r e (set_false_getElem? locks e he)
    rw [set_false_set_true locks e he, rank_set_self] at this
    exact this
  have hrow : keep locks W = (keep (locks.set e false) (W.set e v)).eraseIdx (rank locks e) := by
    have := keep_lock (locks.set e false) (W.set e v) e (set_false_getElem? locks e he)
    rw [set_false_set_true locks e he, rank_set_self, keep_set_locked locks W e v he] at this
    exact this
  unfold idle minor
  rw [List.eraseIdx_map, List.map_map, ← hrow]
  conv_rhs => rw [hcol]
  rfl

/-- … and the new diagonal entry of the block is the new row's weight in its own ensemble -/
theorem idle_unlock_entry (W : Mat) (locks : List Bool) (e : Nat) (v : Row)
    (hW : W.length = locks.length) (he : locks[e]? = some true) :
    entry (idle (W.set e v) (locks.set e false)) (rank locks e) (rank locks e) = v.getD e 0 := by
  have he' := set_false_getElem? locks e he
  have hlt : e < W.length := by rw [hW]; exact locked_lt_length locks e he
  have := idle_entry (W.set e v) (locks.set e false) e e (by simp [hW]) he' he'
  rw [rank_set_self] at this
  rw [this]
  simp [entry, List.getD_eq_getElem?_getD, hlt]

/-- the position of the re-opened slot lies inside the new block -/
theorem rank_lt_nIdle_unlock (locks : List Bool) (e : Nat) (he : locks[e]? = some true) :
    rank locks e < nIdle (locks.set e false) := by
  have := rank_lt (locks.set e false) e (set_false_getElem? locks e he)
  rw [rank_set_self] at this
  exact this

/-! ## Frobenius–König for nested rows -/

/-- an idle row that vanishes on the columns `≥ z` vanishes on the block columns `≥ rank z` -/
theorem idle_row_vanish (W : Mat) (locks : List Bool) (hW : W.length = locks.length) (s z : Nat)
    (hs : locks[s]? = some false) (hvan : ∀ c, z ≤ c → (W.getD s []).getD c 0 = 0)
    (c : Nat) (hc1 : rank locks z ≤ c) (hc2 : c < nIdle locks) :
    ((idle W locks).getD (rank locks s) []).getD c 0 = 0 := by
  obtain ⟨c0, hc0, hrc⟩ := exists_idle_of_lt_nIdle locks c hc2
  have hz : z ≤ c0 := by
    rcases Nat.lt_or_ge c0 z with h | h
    · have := rank_lt_of_idle_lt locks hc0 h; omega
    · exact h
  rw [idle_getD_rank W locks s hW hs, ← hrc, keep_getD_rank_c03 0 locks _ c0 hc0]
  exact hvan c0 hz

/-- If the permanent of the idle block is non-zero, then the idle rows sitting in slots `< z`
    together with the idle row of a slot `e ≥ z` cannot all vanish on the columns `≥ z`
    (they would be `rank z + 1` rows supported on `rank z` columns). -/
theorem no_gap (W : Mat) (locks : List Bool) (hW : W.length = locks.length)
    (hP : permC (idle W locks) ≠ 0) (e z : Nat) (he : locks[e]? = some false) (hze : z ≤ e)
    (hvan_e : ∀ c, z ≤ c → (W.getD e []).getD c 0 = 0)
    (hall : ∀ t, t < z → locks[t]? = some false → ∀ c, z ≤ c → (W.getD t []).getD c 0 = 0) :
    False := by
  have hN : (idle W locks).length = nIdle locks := idle_length W locks hW
  have hak : rank locks z ≤ rank locks e := rank_mono locks hze
  have hkm : rank locks e < nIdle locks := rank_lt locks e he
  -- bring the row of `e` next to the rows of the slots `< z`
  have hdl : rank locks e - rank locks z < ((idle W locks).drop (rank locks z)).length := by
    rw [List.length_drop, hN]; omega
  have hget : ((idle W locks).drop (rank locks z)).getD (rank locks e - rank locks z) []
      = (idle W locks).getD (rank locks e) [] := by
    rw [List.getD_eq_getElem?_getD, List.getElem?_drop, List.getD_eq_getElem?_getD]
    congr 3; omega
  have hperm : (idle W locks).Perm
      (((idle W locks).take (rank locks z) ++ [(idle W locks).getD (rank locks e) []])
        ++ ((idle W locks).drop (rank locks z)).eraseIdx (rank locks e - rank locks z)) := by
    have h1 := perm_getD_cons_eraseIdx ((idle W locks).drop (rank locks z))
      (rank locks e - rank locks z) hdl []
    rw [hget] at h1
    have h2 := List.Perm.append_left ((idle W locks).take (rank locks z)) h1
    rw [List.take_append_drop] at h2
    simpa using h2
  have hb : (((idle W locks).drop (rank locks z)).eraseIdx (rank locks e - rank locks z)).length
      = nIdle locks - rank locks z - 1 := by
    rw [List.length_eraseIdx, if_pos hdl, List.length_drop, hN]
  have hm : nIdle locks = rank locks z + 1 + (nIdle locks - rank locks z - 1) := by omega
  apply hP
  unfold permC
  rw [hN, permN_perm _ hperm, hm]
  apply permN_narrow_zero _ _ _ _ hb
  intro r hr c hc1 hc2
  rw [← hm] at hc2
  rw [List.mem_append, List.mem_singleton] at hr
  rcases hr with hr | hr
  · obtain ⟨i', hi', rfl⟩ := List.mem_take_iff_getElem.mp hr
    have hi'a : i' < rank locks z := by omega
    have hi'm : i' < nIdle locks := by omega
    obtain ⟨s, hs, hrs⟩ := exists_idle_of_lt_nIdle locks i' hi'm
    have hsz : s < z := by
      rcases Nat.lt_or_ge s z with h | h
      · exact h
      · have := rank_mono locks h; omega
    have := idle_row_vanish W locks hW s z hs (hall s hsz hs) c hc1 hc2
    rw [hrs, List.getD_eq_getElem?_getD (l := idle W locks),
      List.getElem?_eq_getElem (show i' < (idle W locks).length by omega)] at this
    exact this
  · rw [hr]
    exact idle_row_vanish W locks hW e z he hvan_e c hc1 hc2

end Infretis.Perm.C05
