import Infretis.Lemmas.RepexC03Perm
import Infretis.Lemmas.PermBlock
import Mathlib.Data.List.Perm.Basic
/-!
# C05 — how the idle block changes under the sampler's elementary operations

`idle W locks` (rows and columns of the unlocked slots) under
* a swap of two idle rows                      (`idle_swap_perm`: a row permutation),
* `swap(t, e)` followed by `lock(e)`            (`idle_pick_perm`: the minor at `(rank t, rank e)` up to a row permutation),
* `add_traj` into a locked slot `e`             (`idle_unlock_minor`: the old block is the `(rank e, rank e)` minor of the new one),
and the Frobenius–König consequence used by the termination proof of `sort_trajstate`
(`no_gap`): if the permanent of the idle block is non-zero, the idle rows in slots `< z`
together with one more idle row cannot all vanish on the columns `≥ z`.

(`rank` facts are re-proved here under `Infretis.Perm.C05` because `PermFull` and `RepexC03Perm`
cannot be imported together: both declare `Infretis.Perm.keep_getD_rank`.)
-/
namespace Infretis.Perm.C05
open Infretis.Perm
open Infretis.Repex (swapList)

/-! ## `rank` -/

theorem rank_zero (locks : List Bool) : rank locks 0 = 0 := by simp [rank]

theorem rank_cons_succ (l : Bool) (ls : List Bool) (i : Nat) :
    rank (l :: ls) (i + 1) = (if l then 0 else 1) + rank ls i := by
  cases l <;> simp [rank, Nat.add_comm]

theorem nIdle_cons (l : Bool) (ls : List Bool) :
    nIdle (l :: ls) = (if l then 0 else 1) + nIdle ls := by
  cases l <;> simp [nIdle, Nat.add_comm]

theorem rank_succ_le (locks : List Bool) (i : Nat) :
    rank locks i ≤ rank locks (i + 1) ∧ rank locks (i + 1) ≤ rank locks i + 1 := by
  induction locks generalizing i with
  | nil => simp [rank]
  | cons l ls ih =>
    cases i with
    | zero => cases l <;> simp [rank]
    | succ i =>
      have := ih i
      rw [rank_cons_succ, rank_cons_succ]
      omega

theorem rank_mono (locks : List Bool) {i j : Nat} (h : i ≤ j) : rank locks i ≤ rank locks j := by
  induction j with
  | zero =>
    have : i = 0 := by omega
    subst this; exact Nat.le_refl _
  | succ j ih =>
    rcases Nat.lt_or_ge i (j + 1) with h' | h'
    · exact Nat.le_trans (ih (by omega)) (rank_succ_le locks j).1
    · have : i = j + 1 := by omega
      subst this; exact Nat.le_refl _

theorem rank_le_nIdle (locks : List Bool) (i : Nat) : rank locks i ≤ nIdle locks := by
  induction locks generalizing i with
  | nil => simp [rank, nIdle]
  | cons l ls ih =>
    cases i with
    | zero => simp [rank]
    | succ i =>
      have := ih i
      rw [rank_cons_succ, nIdle_cons]
      omega

theorem rank_succ_of_idle (locks : List Bool) (i : Nat) (h : locks[i]? = some false) :
    rank locks (i + 1) = rank locks i + 1 := by
  induction locks generalizing i with
  | nil => simp at h
  | cons l ls ih =>
    cases i with
    | zero =>
      simp only [List.getElem?_cons_zero, Option.some.injEq] at h
      subst h; simp [rank]
    | succ i =>
      simp only [List.getElem?_cons_succ] at h
      have := ih i h
      rw [rank_cons_succ, rank_cons_succ]
      omega

theorem rank_lt_of_idle_lt (locks : List Bool) {i j : Nat} (hi : locks[i]? = some false)
    (h : i < j) : rank locks i < rank locks j := by
  have h1 := rank_succ_of_idle locks i hi
  have h2 := rank_mono locks (i := i + 1) (j := j) h
  omega

theorem idle_lt_length (locks : List Bool) (i : Nat) (h : locks[i]? = some false) :
    i < locks.length := by
  rcases Nat.lt_or_ge i locks.length with h' | h'
  · exact h'
  · rw [List.getElem?_eq_none h'] at h
    exact absurd h (by simp)

/-- every position of the idle block is the rank of an idle slot -/
theorem exists_idle_of_lt_nIdle (locks : List Bool) (i : Nat) (h : i < nIdle locks) :
    ∃ j, locks[j]? = some false ∧ rank locks j = i := by
  induction locks generalizing i with
  | nil => simp [nIdle] at h
  | cons l ls ih =>
    cases l with
    | true =>
      have h' : i < nIdle ls := by simpa [nIdle] using h
      obtain ⟨j, hj, hr⟩ := ih i h'
      exact ⟨j + 1, by simpa using hj, by rw [rank_cons_succ]; simpa using hr⟩
    | false =>
      cases i with
      | zero => exact ⟨0, by simp, rank_zero _⟩
      | succ i =>
        have h' : i < nIdle ls := by
          have := h; rw [nIdle_cons] at this; simp at this; omega
        obtain ⟨j, hj, hr⟩ := ih i h'
        refine ⟨j + 1, by simpa using hj, ?_⟩
        rw [rank_cons_succ]; simp; omega

/-- the rank of a slot only looks at the locks before it -/
theorem rank_set_self (locks : List Bool) (e : Nat) (b : Bool) :
    rank (locks.set e b) e = rank locks e := by
  sorry

/-- row `rank locks s` of the idle block is row `s` of `W` without the busy columns -/
theorem idle_getD_rank (W : Mat) (locks : List Bool) (s : Nat) (hW : W.length = locks.length)
    (hs : locks[s]? = some false) :
    (idle W locks).getD (rank locks s) [] = keep locks (W.getD s []) := by
  sorry

/-! ## `keep` under updates of the lists -/

theorem keep_lock {α : Type} (locks : List Bool) (xs : List α) (e : Nat)
    (h : locks[e]? = some false) :
    keep (locks.set e true) xs = (keep locks xs).eraseIdx (rank locks e) := by
  sorry

theorem keep_set_locked {α : Type} (locks : List Bool) (xs : List α) (i : Nat) (x : α)
    (h : locks[i]? = some true) : keep locks (xs.set i x) = keep locks xs := by
  sorry

theorem keep_set_idle {α : Type} (locks : List Bool) (xs : List α) (i : Nat) (x : α)
    (h : locks[i]? = some false) :
    keep locks (xs.set i x) = (keep locks xs).set (rank locks i) x := by
  sorry

/-- every element kept comes from an idle position -/
theorem mem_keep {α : Type} (locks : List Bool) (xs : List α) (x : α) (h : x ∈ keep locks xs) :
    ∃ i : Nat, locks[i]? = some false ∧ xs[i]? = some x := by
  sorry

theorem swapList_perm {α : Type} (l : List α) (i j : Nat) : (swapList l i j).Perm l := by
  sorry

/-! ## the idle block under the sampler's operations -/

/-- swapping two idle rows permutes the rows of the idle block -/
theorem idle_swap_perm (W : Mat) (locks : List Bool) (i j : Nat) (hW : W.length = locks.length)
    (hi : locks[i]? = some false) (hj : locks[j]? = some false) :
    (idle (swapList W i j) locks).Perm (idle W locks) := by
  sorry

/-- `swap(t, e)` then `lock(e)`: what stays idle is the minor at `(rank t, rank e)`, up to the
    order of the rows -/
theorem idle_pick_perm (W : Mat) (locks : List Bool) (t e : Nat) (hW : W.length = locks.length)
    (ht : locks[t]? = some false) (he : locks[e]? = some false) :
    (idle (swapList W t e) (locks.set e true)).Perm
      (minor (idle W locks) (rank locks t) (rank locks e)) := by
  sorry

/-- `add_traj` into the locked slot `e`: removing the new row and column gives the old block -/
theorem idle_unlock_minor (W : Mat) (locks : List Bool) (e : Nat) (v : Row)
    (hW : W.length = locks.length) (he : locks[e]? = some true) :
    minor (idle (W.set e v) (locks.set e false)) (rank locks e) (rank locks e) = idle W locks := by
  sorry

/-- … and the new diagonal entry of the block is the new row's weight in its own ensemble -/
theorem idle_unlock_entry (W : Mat) (locks : List Bool) (e : Nat) (v : Row)
    (hW : W.length = locks.length) (he : locks[e]? = some true) :
    entry (idle (W.set e v) (locks.set e false)) (rank locks e) (rank locks e) = v.getD e 0 := by
  sorry

/-- the position of the re-opened slot lies inside the new block -/
theorem rank_lt_nIdle_unlock (locks : List Bool) (e : Nat) (he : locks[e]? = some true) :
    rank locks e < nIdle (locks.set e false) := by
  sorry

/-! ## Frobenius–König for nested rows -/

/-- If the permanent of the idle block is non-zero, then the idle rows sitting in slots `< z`
    together with the idle row of a slot `e ≥ z` cannot all vanish on the columns `≥ z`
    (they would be `rank z + 1` rows supported on `rank z` columns). -/
theorem no_gap (W : Mat) (locks : List Bool) (hW : W.length = locks.length)
    (hP : permC (idle W locks) ≠ 0) (e z : Nat) (he : locks[e]? = some false) (hze : z ≤ e)
    (hvan_e : ∀ c, z ≤ c → (W.getD e []).getD c 0 = 0)
    (hall : ∀ t, t < z → locks[t]? = some false → ∀ c, z ≤ c → (W.getD t []).getD c 0 = 0) :
    False := by
  sorry

end Infretis.Perm.C05
