import Infretis.Lemmas.RepexC05Init
import Mathlib.Data.List.Nodup
/-!
# C05 — `load_paths`: a fresh start from family paths gives `Init5`; the restart image of a state
with a non-zero diagonal loads
-/
namespace Infretis.Repex
open Infretis.Perm Infretis.Perm.C05

/-! ### what one `load_paths` step does -/

theorem loadOne_ok5 {s s' : St} {ens : Int} {pn : Nat} {valid fr : List Rat}
    (h : loadOne s ens pn valid fr = .ok s') :
    s.locks[(ens + 1).toNat]? = some true ∧ (padValid s ens valid).getD (ens + 1).toNat 0 ≠ 0 ∧
      s' = { s with trajs := s.trajs.set (ens + 1).toNat (some pn),
                    W := s.W.set (ens + 1).toNat (padValid s ens valid),
                    locks := s.locks.set (ens + 1).toNat false,
                    frac := s.frac ++ [(pn, fr)], wts := s.wts ++ [(pn, valid)] } := by
  unfold loadOne at h
  split at h
  · exact absurd h (by simp)
  rename_i s1 hadd
  obtain ⟨h1, h2, h3⟩ := addTraj_ok5 hadd
  subst h3
  simp only [Except.ok.injEq] at h
  exact ⟨h1, h2, h.symm⟩

/-- loading invariant of `load_paths` (independent of the order in which slots are filled): the
    recorded keys are `ks`, and every filled slot holds a family row with a non-zero diagonal
    entry whose un-padded weights are recorded under the slot's path number -/
structure Ld (n tn : Nat) (ks : List Nat) (s : St) : Prop where
  hn : s.n = n
  lenW : s.W.length = n
  lenL : s.locks.length = n
  htn : s.trajNum = tn
  rows : s.rows = []
  wk : s.wts.map Prod.fst = ks
  fk : s.frac.map Prod.fst = ks
  klt : ∀ k ∈ ks, k < tn
  slot : ∀ e pn, s.trajs[e]? = some (some pn) →
    RowOk n e (s.W.getD e []) ∧ entryM s.W e e ≠ 0 ∧
    ∃ w, s.wts.lookup pn = some w ∧ padN n ((e : Int) - 1) w = s.W.getD e []

theorem ld_blank (n workers tsteps cstep trajNum seed : Nat) (occ : List (List Int))
    (ensEng : List (List Nat)) (restarted : Bool) (l0 : List (List Nat × List Nat)) :
    Ld n trajNum [] (blank n workers tsteps cstep trajNum seed occ ensEng restarted l0) := by
  constructor
  · rfl
  · simp [blank]
  · simp [blank]
  · rfl
  · rfl
  · rfl
  · rfl
  · intro k hk; simp at hk
  · intro e pn he
    simp only [blank, List.getElem?_replicate] at he
    split at he <;> simp at he

theorem ld_step {n tn : Nat} {ks : List Nat} {s s' : St} {ens : Int} {pn : Nat} {w fr : List Rat}
    (h : Ld n tn ks s) (hens : -1 ≤ ens) (hnew : pn ∉ ks) (hlt : pn < tn) (hv : VecOk n ens w)
    (hl : loadOne s ens pn w fr = .ok s') : Ld n tn (ks ++ [pn]) s' := by
  obtain ⟨hlock, hd, hs⟩ := loadOne_ok5 hl
  rw [padValid_eq_padN, h.hn] at hd hs
  have he : (ens + 1).toNat < n := by
    have := getElem?_lt_of_some _ _ _ hlock
    rw [h.lenL] at this; exact this
  have heW : (ens + 1).toNat < s.W.length := by rw [h.lenW]; exact he
  subst hs
  constructor
  · rfl
  · show (s.W.set _ _).length = n
    rw [List.length_set]; exact h.lenW
  · show (s.locks.set _ _).length = n
    rw [List.length_set]; exact h.lenL
  · exact h.htn
  · exact h.rows
  · show (s.wts ++ [(pn, w)]).map Prod.fst = ks ++ [pn]
    rw [List.map_append, h.wk]; rfl
  · show (s.frac ++ [(pn, fr)]).map Prod.fst = ks ++ [pn]
    rw [List.map_append, h.fk]; rfl
  · intro k hk
    rcases List.mem_append.mp hk with hk | hk
    · exact h.klt k hk
    · simp only [List.mem_singleton] at hk
      rw [hk]; exact hlt
  · intro e q hq
    change (s.trajs.set (ens + 1).toNat (some pn))[e]? = some (some q) at hq
    show RowOk n e ((s.W.set (ens + 1).toNat (padN n ens w)).getD e []) ∧
      ((s.W.set (ens + 1).toNat (padN n ens w)).getD e []).getD e 0 ≠ 0 ∧
      ∃ w', (s.wts ++ [(pn, w)]).lookup q = some w' ∧
        padN n ((e : Int) - 1) w' = (s.W.set (ens + 1).toNat (padN n ens w)).getD e []
    rw [getD_set_W _ _ _ _ heW]
    by_cases hee : e = (ens + 1).toNat
    · rw [if_pos hee]
      have hq' : q = pn := by
        rw [hee, List.getElem?_set] at hq
        simp only [↓reduceIte] at hq
        split at hq
        · simpa using hq.symm
        · exact absurd hq (by simp)
      subst hq'
      refine ⟨by rw [hee]; exact hv, by rw [hee]; exact hd, w, ?_, ?_⟩
      · exact lookup_append_new _ _ _ (by rw [h.wk]; exact hnew)
      · have : (e : Int) - 1 = ens := by omega
        rw [this]
    · rw [if_neg hee]
      rw [List.getElem?_set_ne (fun h' => hee h'.symm)] at hq
      obtain ⟨h1, h2, w', h3, h4⟩ := h.slot e q hq
      exact ⟨h1, h2, w', lookup_append_of_some _ _ _ _ h3, h4⟩

theorem plus_ld {n tn : Nat} :
    ∀ (rest : List (Nat × List Rat × List Rat)) (s s' : St) (i : Nat) (ks : List Nat),
    Ld n tn ks s → (ks ++ rest.map (·.1)).Nodup → (∀ p ∈ rest, p.1 < tn) →
    (∀ j p, rest[j]? = some p → VecOk n ((i + j : Nat) : Int) p.2.1) →
    loadPaths.plus s i rest = .ok s' → Ld n tn (ks ++ rest.map (·.1)) s' := by
  intro rest
  induction rest with
  | nil =>
    intro s s' i ks h _ _ _ hp
    simp only [loadPaths.plus, Except.ok.injEq] at hp
    subst hp
    simpa using h
  | cons x rest ih =>
    intro s s' i ks h hnd hlt hv hp
    obtain ⟨pn, w, fr⟩ := x
    simp only [loadPaths.plus] at hp
    split at hp
    · exact absurd hp (by simp)
    rename_i s1 hl
    have hnd' : ((ks ++ [pn]) ++ rest.map (·.1)).Nodup := by
      simpa [List.append_assoc] using hnd
    have hnew : pn ∉ ks := by
      intro hm
      have := List.nodup_append.mp hnd
      exact this.2.2 pn hm pn (by simp) rfl
    have hv0 : VecOk n (i : Int) w := by
      have := hv 0 (pn, w, fr) (by simp)
      simpa using this
    have h1 := ld_step h (by omega) hnew (hlt _ (List.mem_cons_self ..)) hv0 hl
    have := ih s1 s' (i + 1) (ks ++ [pn]) h1 hnd'
      (fun p hp' => hlt p (List.mem_cons_of_mem _ hp'))
      (fun j p hj => by
        have := hv (j + 1) p (by simpa using hj)
        rw [show i + 1 + j = i + (j + 1) from by omega]
        exact this) hp
    simpa [List.append_assoc] using this

/-- what `load_paths` establishes besides C03's slot facts, from any blank start state -/
theorem loadPaths_fields {n tn : Nat} (s0 s : St) (paths : List (Nat × List Rat × List Rat))
    (h0 : Ld n tn [] s0) (hnd : (paths.map (·.1)).Nodup) (hlt : ∀ p ∈ paths, p.1 < tn)
    (hfam : ∀ (i : Nat) (hi : i < paths.length), VecOk n ((i : Int) - 1) (paths[i]).2.1)
    (h : loadPaths s0 paths = .ok s)
    (hlive : ∀ i, i < s.n - 1 → ∃ pn, s.trajs[i]? = some (some pn)) :
    (∀ i, i < s.n - 1 → RowOk s.n i (s.W.getD i [])) ∧
    (∀ i, i < s.n - 1 → entryM s.W i i ≠ 0) ∧
    (∀ i pn, i < s.n - 1 → s.trajs[i]? = some (some pn) →
      ∃ w, s.wts.lookup pn = some w ∧ padValid s ((i : Int) - 1) w = s.W.getD i []) ∧
    (∀ k ∈ s.wts.map Prod.fst, k < s.trajNum) ∧ (∀ k ∈ s.frac.map Prod.fst, k < s.trajNum) ∧
    (∀ x ∈ s.rows, x.1 < s.trajNum) := by
  unfold loadPaths at h
  split at h
  · exact absurd h (by simp)
  rename_i pn0 w0 fr0 rest
  split at h
  · exact absurd h (by simp)
  rename_i s1 hplus
  simp only [List.map_cons, List.nodup_cons] at hnd
  have hL1 := plus_ld (n := n) (tn := tn) rest _ s1 0 [] h0
    (by simpa using hnd.2) (fun p hp => hlt p (List.mem_cons_of_mem _ hp))
    (fun j p hj => by
      obtain ⟨hj', hp⟩ := List.getElem?_eq_some_iff.mp hj
      have := hfam (j + 1) (by simp only [List.length_cons]; omega)
      rw [show (((j + 1 : Nat) : Int) - 1) = ((0 + j : Nat) : Int) from by omega] at this
      simp only [List.getElem_cons_succ] at this
      rw [hp] at this
      exact this) hplus
  simp only [List.nil_append] at hL1
  have hv0 : VecOk n (-1) w0 := by
    have := hfam 0 (by simp)
    simpa using this
  have hL := ld_step hL1 (by omega) hnd.1 (hlt _ (List.mem_cons_self ..)) hv0 h
  have hsn : s.n = n := hL.hn
  refine ⟨?_, ?_, ?_, ?_, ?_, ?_⟩
  · intro i hi
    obtain ⟨pn, hpn⟩ := hlive i hi
    rw [hsn]
    exact (hL.slot i pn hpn).1
  · intro i hi
    obtain ⟨pn, hpn⟩ := hlive i hi
    exact (hL.slot i pn hpn).2.1
  · intro i pn hi hpn
    obtain ⟨_, _, w, hw1, hw2⟩ := hL.slot i pn hpn
    refine ⟨w, hw1, ?_⟩
    rw [padValid_eq_padN, hsn]; exact hw2
  · rw [hL.wk, hL.htn]; exact hL.klt
  · rw [hL.fk, hL.htn]; exact hL.klt
  · rw [hL.rows]; intro x hx; simp at hx

/-- **`Init5` is what `load_paths` leaves behind on a fresh start** from `n − 1` initial paths with
    pairwise distinct numbers below `trajNum` whose weight vectors are in C02's family
    (`paths[0]` is the `[0-]` path, `paths[i+1]` the path of ensemble `i`). -/
theorem init5_of_loadPaths (n workers tsteps cstep trajNum seed : Nat) (occ : List (List Int))
    (ensEng : List (List Nat)) (restarted : Bool) (paths : List (Nat × List Rat × List Rat)) (s : St)
    (hn : 2 ≤ n) (hlen : paths.length = n - 1) (hnd : (paths.map (·.1)).Nodup)
    (hlt : ∀ p ∈ paths, p.1 < trajNum)
    (hfam : ∀ (i : Nat) (hi : i < paths.length), VecOk n ((i : Int) - 1) (paths[i]).2.1)
    (h : loadPaths (blank n workers tsteps cstep trajNum seed occ ensEng restarted []) paths = .ok s) :
    Init5 { s := s, jobs := [] } := by
  have hinit := init_of_loadPaths n workers tsteps cstep trajNum seed occ ensEng restarted paths s
    hn hlen hnd hlt h
  obtain ⟨h1, h2, h3, h4, h5, h6⟩ := loadPaths_fields _ s paths
    (ld_blank n workers tsteps cstep trajNum seed occ ensEng restarted []) hnd hlt hfam h
    (fun i hi => by obtain ⟨pn, hpn, _⟩ := hinit.live i hi; exact ⟨pn, hpn⟩)
  exact ⟨hinit, h1, h2, h3, h4, h5, h6⟩

/-! ### `load_paths` succeeds -/

theorem addTraj_succeeds {s : St} {ens : Int} {pn : Nat} {valid : List Rat}
    (hl : s.locks[(ens + 1).toNat]? = some true)
    (hlen : (padValid s ens valid).length = s.n)
    (hx : (padValid s ens valid).getD (ens + 1).toNat 0 ≠ 0)
    (he : (ens + 1).toNat < s.trajs.length) :
    addTraj s ens pn valid = .ok
      { s with trajs := s.trajs.set (ens + 1).toNat (some pn),
               W := s.W.set (ens + 1).toNat (padValid s ens valid),
               locks := s.locks.set (ens + 1).toNat false } := by
  unfold addTraj
  simp only []
  have hoff : (ens + (off : Int)).toNat = (ens + 1).toNat := by simp [off]
  rw [hoff]
  rw [List.getD_eq_getElem?_getD] at hx
  cases hv : (padValid s ens valid)[(ens + 1).toNat]? with
  | none => rw [hv] at hx; exact absurd rfl hx
  | some x =>
    rw [hv] at hx
    simp only [Option.getD_some] at hx
    simp only [hx, ↓reduceIte, hlen, ne_eq, not_true_eq_false, ge_iff_le, Nat.not_le.mpr he]
    unfold unlock
    simp only [hl]

theorem loadOne_succeeds {s : St} {ens : Int} {pn : Nat} {valid fr : List Rat}
    (hl : s.locks[(ens + 1).toNat]? = some true)
    (hlen : (padValid s ens valid).length = s.n)
    (hx : (padValid s ens valid).getD (ens + 1).toNat 0 ≠ 0)
    (he : (ens + 1).toNat < s.trajs.length) :
    loadOne s ens pn valid fr = .ok
      { s with trajs := s.trajs.set (ens + 1).toNat (some pn),
               W := s.W.set (ens + 1).toNat (padValid s ens valid),
               locks := s.locks.set (ens + 1).toNat false,
               frac := s.frac ++ [(pn, fr)], wts := s.wts ++ [(pn, valid)] } := by
  unfold loadOne
  rw [addTraj_succeeds hl hlen hx he]

/-- what `load_paths` needs to go on after `i` plus paths: slot 0 and the slots above `i` are
    still locked (nothing is asked of `locked0`) -/
structure Rd (n : Nat) (s : St) (i : Nat) : Prop where
  hn : s.n = n
  lenT : s.trajs.length = n
  locks : ∀ e, e < n → (e = 0 ∨ i < e) → s.locks[e]? = some true

theorem rd_blank (n workers tsteps cstep trajNum seed : Nat) (occ : List (List Int))
    (ensEng : List (List Nat)) (restarted : Bool) (l0 : List (List Nat × List Nat)) :
    Rd n (blank n workers tsteps cstep trajNum seed occ ensEng restarted l0) 0 := by
  constructor
  · rfl
  · simp [blank]
  · intro e he _
    simp [blank, he]

theorem plus_succeeds {n : Nat} :
    ∀ (rest : List (Nat × List Rat × List Rat)) (s : St) (i : Nat), Rd n s i →
    (∀ j p, rest[j]? = some p → i + j + 1 < n ∧
      (padN n ((i + j : Nat) : Int) p.2.1).length = n ∧
      (padN n ((i + j : Nat) : Int) p.2.1).getD (i + j + 1) 0 ≠ 0) →
    ∃ s', loadPaths.plus s i rest = .ok s' ∧ Rd n s' (i + rest.length) := by
  intro rest
  induction rest with
  | nil =>
    intro s i h _
    exact ⟨s, rfl, by simpa using h⟩
  | cons x rest ih =>
    intro s i h hp
    obtain ⟨pn, w, fr⟩ := x
    obtain ⟨h1, h2, h3⟩ := hp 0 (pn, w, fr) (by simp)
    simp only [Nat.add_zero] at h1 h2 h3
    have hslot : ((i : Int) + 1).toNat = i + 1 := by omega
    have hone := loadOne_succeeds (s := s) (ens := (i : Int)) (pn := pn) (valid := w) (fr := fr)
      (by rw [hslot]; exact h.locks _ h1 (Or.inr (Nat.lt_succ_self i)))
      (by rw [padValid_eq_padN, h.hn]; exact h2)
      (by rw [padValid_eq_padN, h.hn, hslot]; exact h3)
      (by rw [hslot, h.lenT]; exact h1)
    simp only [loadPaths.plus, hone]
    rw [hslot]
    have hrd : Rd n
        { s with trajs := s.trajs.set (i + 1) (some pn),
                 W := s.W.set (i + 1) (padValid s (i : Int) w),
                 locks := s.locks.set (i + 1) false,
                 frac := s.frac ++ [(pn, fr)], wts := s.wts ++ [(pn, w)] } (i + 1) := by
      constructor
      · exact h.hn
      · show (s.trajs.set _ _).length = n
        rw [List.length_set]; exact h.lenT
      · intro e he hor
        show (s.locks.set (i + 1) false)[e]? = some true
        rw [List.getElem?_set_ne (by omega)]
        exact h.locks e he (by omega)
    obtain ⟨s', hs', hr'⟩ := ih _ (i + 1) hrd (fun j p hj => by
      have := hp (j + 1) p (by simpa using hj)
      rw [show i + 1 + j = i + (j + 1) from by omega]
      exact this)
    refine ⟨s', hs', ?_⟩
    rw [List.length_cons, show i + (rest.length + 1) = i + 1 + rest.length from by omega]
    exact hr'

/-- `load_paths` succeeds on a blank state when `paths[j]`, padded for slot `j`, has length `n`
    and a non-zero entry `j` -/
theorem loadPaths_succeeds {n : Nat} (s : St) (paths : List (Nat × List Rat × List Rat))
    (h : Rd n s 0) (hne : paths ≠ [])
    (hp : ∀ j p, paths[j]? = some p → j < n ∧
      (padN n ((j : Int) - 1) p.2.1).length = n ∧ (padN n ((j : Int) - 1) p.2.1).getD j 0 ≠ 0) :
    ∃ s', loadPaths s paths = .ok s' := by
  unfold loadPaths
  cases paths with
  | nil => exact absurd rfl hne
  | cons x rest =>
    obtain ⟨pn0, w0, fr0⟩ := x
    obtain ⟨s1, hs1, hr1⟩ := plus_succeeds (n := n) rest s 0 h (fun j p hj => by
      obtain ⟨h1, h2, h3⟩ := hp (j + 1) p (by simpa using hj)
      rw [show (((j + 1 : Nat) : Int) - 1) = ((0 + j : Nat) : Int) from by omega] at h2 h3
      exact ⟨by omega, h2, by rw [show 0 + j + 1 = j + 1 from by omega]; exact h3⟩)
    simp only [hs1]
    obtain ⟨h1, h2, h3⟩ := hp 0 (pn0, w0, fr0) (by simp)
    simp only [Nat.cast_zero, Int.zero_sub] at h2 h3
    have hslot : ((-1 : Int) + 1).toNat = 0 := by decide
    exact ⟨_, loadOne_succeeds (s := s1) (ens := -1) (pn := pn0) (valid := w0) (fr := fr0)
      (by rw [hslot]; exact hr1.locks 0 h1 (Or.inl rfl))
      (by rw [padValid_eq_padN, hr1.hn]; exact h2)
      (by rw [padValid_eq_padN, hr1.hn, hslot]; exact h3)
      (by rw [hslot, hr1.lenT]; exact h1)⟩

theorem filterMap_map_all_some {α : Type} (g : Nat → α) : ∀ (l : List (Option Nat)),
    (∀ o ∈ l, ∃ pn, o = some pn) →
    l.filterMap (fun o => o.map g) = l.map (fun o => g (o.getD 0)) := by
  intro l
  induction l with
  | nil => intro _; rfl
  | cons o l ih =>
    intro h
    obtain ⟨pn, rfl⟩ := h o (List.mem_cons_self ..)
    have ih' := ih (fun o ho => h o (List.mem_cons_of_mem _ ho))
    simp only [List.filterMap_cons, Option.map_some, List.map_cons, Option.getD_some, ih']

/-- **The restart image loads.**  For a state satisfying the invariants whose diagonal weights are
    all non-zero (what `sort_trajstate` establishes), `restore (persist s)` with the live paths'
    recorded weight vectors passes every assertion of `load_paths`. -/
theorem restore_loadsR {s : St} {H : List (Nat × Nat)} {tn tn' : Nat} (hc : CoreR s H tn') (hf : Fam s tn)
    (hdiag : ∀ i, i < s.n - 1 → entryM s.W i i ≠ 0) (workers tsteps : Nat) (occ : List (List Int))
    (ensEng : List (List Nat)) :
    ∃ s'', restore (persist s) s.n workers tsteps occ ensEng
      (fun pn => (s.wts.lookup pn).getD []) = .ok s'' := by
  unfold restore
  simp only []
  have hlive : ∀ o ∈ (persist s).active, ∃ pn, o = some pn := by
    intro o ho
    obtain ⟨j, hj⟩ := List.mem_iff_getElem?.mp ho
    change s.trajs.dropLast[j]? = some o at hj
    rw [List.getElem?_dropLast] at hj
    split at hj
    · rename_i hjl
      rw [hc.lenT] at hjl
      obtain ⟨pn, hpn, _⟩ := hc.live j hjl
      rw [hpn] at hj
      exact ⟨pn, by simpa using hj.symm⟩
    · exact absurd hj (by simp)
  rw [filterMap_map_all_some _ _ hlive]
  -- the restored start state agrees with `blank` on everything `load_paths` reads (n, trajs, locks)
  have hb := rd_blank s.n workers tsteps (persist s).cstep (persist s).trajNum (persist s).seed occ
    ensEng true (persist s).locked
  refine loadPaths_succeeds (n := s.n) _ _ ?_ ?_ ?_
  · exact ⟨hb.hn, hb.lenT, hb.locks⟩
  · intro hnil
    have := congrArg List.length hnil
    simp only [List.length_map, List.length_nil] at this
    change s.trajs.dropLast.length = 0 at this
    rw [List.length_dropLast, hc.lenT] at this
    have := hc.n2
    omega
  · intro j p hj
    rw [List.getElem?_map] at hj
    change (s.trajs.dropLast[j]?).map _ = some p at hj
    rw [List.getElem?_dropLast] at hj
    split at hj
    · rename_i hjl
      rw [hc.lenT] at hjl
      obtain ⟨pn, hpn, _⟩ := hc.live j hjl
      obtain ⟨w, hw1, hw2⟩ := hf.wts j pn hjl hpn
      rw [hpn] at hj
      simp only [Option.map_some, Option.getD_some, Option.some.injEq, hw1] at hj
      subst hj
      show j < s.n ∧ (padN s.n ((j : Int) - 1) w).length = s.n ∧
        (padN s.n ((j : Int) - 1) w).getD j 0 ≠ 0
      rw [← padValid_eq_padN, hw2]
      refine ⟨by omega, ?_, hdiag j hjl⟩
      have hrow := hf.rows j hjl
      rcases Nat.eq_zero_or_pos j with h0 | h0
      · exact (hrow.1 h0).1
      · obtain ⟨cnt, hplus, _⟩ := hrow.2 h0
        exact hplus.1
    · exact absurd hj (by simp)

/-- the same under C03's fresh-start invariant (kept under this name for other packages) -/
theorem restore_loads {s : St} {H : List (Nat × Nat)} {tn tn' : Nat} (hc : Core s H tn') (hf : Fam s tn)
    (hdiag : ∀ i, i < s.n - 1 → entryM s.W i i ≠ 0) (workers tsteps : Nat) (occ : List (List Int))
    (ensEng : List (List Nat)) :
    ∃ s'', restore (persist s) s.n workers tsteps occ ensEng
      (fun pn => (s.wts.lookup pn).getD []) = .ok s'' :=
  restore_loadsR hc.toR hf hdiag workers tsteps occ ensEng

/-! ### the restored state is a start state with the family invariant -/

/-- The state `scheduler()` starts from after a RESTART (C03's `InitR`: all slots idle, the jobs in
    flight at the stop recorded in `locked0` for re-issue) with paths from the weight family, each
    valid in its own ensemble, weights recorded, all recorded numbers below `traj_num`. -/
structure Init5R (y : Sys) : Prop where
  init : InitR y
  rows : ∀ i, i < y.s.n - 1 → RowOk y.s.n i (y.s.W.getD i [])
  diag : ∀ i, i < y.s.n - 1 → entryM y.s.W i i ≠ 0
  wts : ∀ i pn, i < y.s.n - 1 → y.s.trajs[i]? = some (some pn) →
    ∃ w, y.s.wts.lookup pn = some w ∧ padValid y.s ((i : Int) - 1) w = y.s.W.getD i []
  wkeys : ∀ k ∈ y.s.wts.map Prod.fst, k < y.s.trajNum
  fkeys : ∀ k ∈ y.s.frac.map Prod.fst, k < y.s.trajNum
  rkeys : ∀ x ∈ y.s.rows, x.1 < y.s.trajNum

theorem Init5R.inv5 {y : Sys} (h : Init5R y) : Inv5 y := by
  have hinv := h.init.inv
  refine ⟨hinv, ⟨h.rows, ?_, h.wts, h.wkeys, h.fkeys, h.rkeys⟩, ?_, ?_⟩
  · apply idle_perm_pos_of_diag y.s.n _ _ hinv.core.lenW hinv.core.lenL hinv.core.ghost h.rows
    intro i hi
    exact h.diag i (hinv.core.unlocked_lt i hi)
  · intro _ _ i hi
    exact h.diag i (hinv.core.unlocked_lt i hi)
  · intro j hj
    rw [h.init.jobs] at hj
    simp at hj

/-- a history starts from a fresh start or from a restart -/
def Start5 (y : Sys) : Prop := Init5 y ∨ Init5R y

theorem Start5.inv5 {y : Sys} (h : Start5 y) : Inv5 y := by
  rcases h with h | h
  · exact h.inv5
  · exact h.inv5

theorem Start5.start {y : Sys} (h : Start5 y) : Start y := by
  rcases h with h | h
  · exact Or.inl h.init
  · exact Or.inr h.init

/-- **the restored state carries the family invariant**: if `restore (persist s)` (with the live
    paths' recorded weight vectors) returns a state that is an `InitR` start state (C03:
    `restore_is_initR`), that state is an `Init5R` start state. -/
theorem restore_init5R {s s' : St} {H : List (Nat × Nat)} (hc : CoreR s H s.trajNum)
    (hf : Fam s s.trajNum) (workers tsteps : Nat) (occ : List (List Int)) (ensEng : List (List Nat))
    (h : restore (persist s) s.n workers tsteps occ ensEng
      (fun pn => (s.wts.lookup pn).getD []) = .ok s')
    (hinit : InitR { s := s', jobs := [] }) : Init5R { s := s', jobs := [] } := by
  unfold restore at h
  simp only [] at h
  have hlive : ∀ o ∈ (persist s).active, ∃ pn, o = some pn := by
    intro o ho
    obtain ⟨j, hj⟩ := List.mem_iff_getElem?.mp ho
    change s.trajs.dropLast[j]? = some o at hj
    rw [List.getElem?_dropLast] at hj
    split at hj
    · rename_i hjl
      rw [hc.lenT] at hjl
      obtain ⟨pn, hpn, _⟩ := hc.live j hjl
      rw [hpn] at hj
      exact ⟨pn, by simpa using hj.symm⟩
    · exact absurd hj (by simp)
  rw [filterMap_map_all_some _ _ hlive] at h
  have hb := ld_blank s.n workers tsteps (persist s).cstep (persist s).trajNum (persist s).seed occ
    ensEng true (persist s).locked
  -- what the j-th loaded path is
  have hget : ∀ (j : Nat) (p : Nat × List Rat × List Rat),
      (((persist s).active).map (fun o => ((o.getD 0), (s.wts.lookup (o.getD 0)).getD [],
        (((persist s).frac.lookup (o.getD 0)).getD (List.replicate s.n 0)))))[j]? = some p →
      j < s.n - 1 ∧ s.trajs[j]? = some (some p.1) ∧ p.1 < s.trajNum ∧
        s.wts.lookup p.1 = some p.2.1 := by
    intro j p hj
    rw [List.getElem?_map] at hj
    change (s.trajs.dropLast[j]?).map _ = some p at hj
    rw [List.getElem?_dropLast] at hj
    split at hj
    · rename_i hjl
      rw [hc.lenT] at hjl
      obtain ⟨pn, hpn, hlt⟩ := hc.live j hjl
      obtain ⟨w, hw1, _⟩ := hf.wts j pn hjl hpn
      rw [hpn] at hj
      simp only [Option.map_some, Option.getD_some, Option.some.injEq, hw1] at hj
      subst hj
      exact ⟨hjl, hpn, hlt, hw1⟩
    · exact absurd hj (by simp)
  obtain ⟨s0, hs0, h⟩ : ∃ s0, Ld s.n s.trajNum [] s0 ∧ loadPaths s0
      (((persist s).active).map (fun o => ((o.getD 0), (s.wts.lookup (o.getD 0)).getD [],
        (((persist s).frac.lookup (o.getD 0)).getD (List.replicate s.n 0))))) = .ok s' := by
    refine ⟨_, ?_, h⟩
    exact ⟨hb.hn, hb.lenW, hb.lenL, hb.htn, hb.rows, hb.wk, hb.fk, hb.klt, hb.slot⟩
  obtain ⟨h1, h2, h3, h4, h5, h6⟩ := loadPaths_fields (n := s.n) (tn := s.trajNum) s0 s' _ hs0
    (by
      rw [List.nodup_iff_injective_getElem]
      intro a b hab
      apply Fin.ext
      have ha := a.2
      have hb' := b.2
      simp only [List.length_map] at ha hb'
      obtain ⟨pa, hpa⟩ : ∃ pa, (((persist s).active).map (fun o => ((o.getD 0),
          (s.wts.lookup (o.getD 0)).getD [],
          (((persist s).frac.lookup (o.getD 0)).getD (List.replicate s.n 0)))))[a.1]? = some pa :=
        ⟨_, List.getElem?_eq_getElem (by simpa using ha)⟩
      obtain ⟨pb, hpb⟩ : ∃ pb, (((persist s).active).map (fun o => ((o.getD 0),
          (s.wts.lookup (o.getD 0)).getD [],
          (((persist s).frac.lookup (o.getD 0)).getD (List.replicate s.n 0)))))[b.1]? = some pb :=
        ⟨_, List.getElem?_eq_getElem (by simpa using hb')⟩
      obtain ⟨ga1, ga2, _, _⟩ := hget a.1 pa hpa
      obtain ⟨gb1, gb2, _, _⟩ := hget b.1 pb hpb
      have e1 : pa.1 = pb.1 := by
        have h1 := List.getElem?_eq_getElem a.2
        have h2 := List.getElem?_eq_getElem b.2
        rw [List.getElem?_map, hpa] at h1
        rw [List.getElem?_map, hpb] at h2
        simp only [Option.map_some, Option.some.injEq] at h1 h2
        rw [h1, h2]; exact hab
      rw [e1] at ga2
      exact hc.inj a.1 b.1 pb.1 ga1 gb1 ga2 gb2)
    (by
      intro p hp
      obtain ⟨j, hj⟩ := List.mem_iff_getElem?.mp hp
      exact (hget j p hj).2.2.1)
    (by
      intro i hi
      obtain ⟨g1, g2, _, g4⟩ := hget i _ (List.getElem?_eq_getElem hi)
      obtain ⟨w, hw1, hw2⟩ := hf.wts i _ g1 g2
      rw [g4] at hw1
      simp only [Option.some.injEq] at hw1
      rw [hw1]
      unfold VecOk
      have : (((i : Int) - 1) + 1).toNat = i := by omega
      rw [this, ← padValid_eq_padN, hw2]
      exact hf.rows i g1)
    h
    (fun i hi => by obtain ⟨pn, hpn, _⟩ := hinit.live i hi; exact ⟨pn, hpn⟩)
  exact ⟨hinit, h1, h2, h3, h4, h5, h6⟩

end Infretis.Repex
