import Infretis.Lemmas.RepexC05Init
/-!
# C05 — a job can always be drawn

With the invariants and at least one idle slot, the probability matrix has a positive entry, and
`pick()` with that outcome succeeds.
-/
namespace Infretis.Repex
open Infretis.Perm Infretis.Perm.C05

theorem exists_pos_of_sum_pos : ∀ (l : List Rat), 0 < l.sum → ∃ x ∈ l, 0 < x := by
  intro l
  induction l with
  | nil => intro h; simp at h
  | cons a t ih =>
    intro h
    rw [List.sum_cons] at h
    by_cases ha : 0 < a
    · exact ⟨a, List.mem_cons_self .., ha⟩
    · have : 0 < t.sum := by
        have : a ≤ 0 := not_lt.mp ha
        linarith
      obtain ⟨x, hx, hx0⟩ := ih this
      exact ⟨x, List.mem_cons_of_mem _ hx, hx0⟩

theorem nIdle_pos_of_idle (locks : List Bool) (i : Nat) (h : locks[i]? = some false) : 0 < nIdle locks :=
  Nat.lt_of_le_of_lt (Nat.zero_le _) (rank_lt locks i h)

/-- **the total of the probability matrix is the number of idle slots; entries are ≥ 0** -/
theorem prob_total {s : St} {H : List (Nat × Nat)} {tn tn' : Nat} (hc : CoreR s H tn') (hf : Fam s tn) :
    ((prob s).map List.sum).sum = (nIdle s.locks : Rat) ∧ ∀ i j, 0 ≤ entryM (prob s) i j := by
  have hWL : s.W.length = s.locks.length := by rw [hc.lenW, hc.lenL]
  exact ⟨probMatrix_total s.W s.locks hWL (ne_of_gt hf.perm),
    fun i j => probMatrix_nonneg s.W s.locks hWL (hf.nonneg hc) hf.perm i j⟩

/-- with an idle slot some `(t, e)` has positive probability -/
theorem exists_pos_entry {s : St} {H : List (Nat × Nat)} {tn tn' : Nat} (hc : CoreR s H tn') (hf : Fam s tn)
    (i : Nat) (hi : s.locks[i]? = some false) : ∃ t e, 0 < entryM (prob s) t e := by
  obtain ⟨htot, _⟩ := prob_total hc hf
  have hpos : 0 < ((prob s).map List.sum).sum := by
    rw [htot]
    exact_mod_cast nIdle_pos_of_idle s.locks i hi
  obtain ⟨x, hx, hx0⟩ := exists_pos_of_sum_pos _ hpos
  obtain ⟨row, hrow, rfl⟩ := List.mem_map.mp hx
  obtain ⟨y, hy, hy0⟩ := exists_pos_of_sum_pos _ hx0
  obtain ⟨t, ht, hrt⟩ := List.getElem_of_mem hrow
  obtain ⟨e, he, hye⟩ := List.getElem_of_mem hy
  refine ⟨t, e, ?_⟩
  have h1 : (prob s).getD t [] = row := by
    rw [List.getD_eq_getElem?_getD, List.getElem?_eq_getElem ht, hrt]; rfl
  have h2 : row.getD e 0 = y := by
    rw [List.getD_eq_getElem?_getD, List.getElem?_eq_getElem he, hye]; rfl
  show 0 < ((prob s).getD t []).getD e 0
  rw [h1, h2]; exact hy0

/-- **a job can always be drawn**: `pick()` succeeds for some outcome of positive probability -/
theorem pick_possible {s : St} {H : List (Nat × Nat)} {tn tn' : Nat} (hc : CoreR s H tn') (hf : Fam s tn)
    (i : Nat) (hi : s.locks[i]? = some false) :
    ∃ o, 0 < entryM (prob s) o.t o.e ∧ ∃ r, pick s o = .ok r := by
  obtain ⟨t, e, hpos⟩ := exists_pos_entry hc hf i hi
  obtain ⟨ht, he, hw⟩ := prob_posR hc t e hpos
  have hl : lock (swap s t e) e = .ok { swap s t e with locks := (swap s t e).locks.set e true } := by
    unfold lock
    have : (swap s t e).locks[e]? = some false := he
    rw [this]
  have hTe : ∃ pn, ({ swap s t e with locks := (swap s t e).locks.set e true } : St).trajs.getD e none = some pn := by
    obtain ⟨pn, hpn, _⟩ := hc.live t (hc.unlocked_lt t ht)
    refine ⟨pn, ?_⟩
    show (swapList s.trajs t e).getD e none = some pn
    rw [List.getD_eq_getElem?_getD, swapList_getElem? _ _ _ _ (by rw [hc.lenT]; have := hc.unlocked_lt t ht; omega) (by rw [hc.lenT]; have := hc.unlocked_lt e he; omega), if_pos rfl, hpn]
    rfl
  obtain ⟨pn, hpn⟩ := hTe
  refine ⟨{ t := t, e := e, coin := false }, hpos, ?_⟩
  have hpc : ∃ ds, pickCore s { t := t, e := e, coin := false } =
      .ok ({ swap s t e with locks := (swap s t e).locks.set e true }, [((e : Int) - (off : Int), some pn)], ds) := by
    unfold pickCore
    simp only [hpos, not_true_eq_false, ↓reduceIte, hl, Bool.and_false, Bool.false_eq_true, hpn]
    exact ⟨_, rfl⟩
  obtain ⟨ds, hpc⟩ := hpc
  unfold pick
  rw [hpc]
  simp only [mkPicked, mkPicked.go]
  exact ⟨_, rfl⟩

end Infretis.Repex
