import Infretis.Lemmas.RepexC05Keep
import Mathlib.Algebra.Order.BigOperators.Group.List
/-!
# C05 — positivity of the list permanent on non-negative matrices, and the totals of `probMatrix`

* `permC_nonneg`, `permC_ge_term`     a non-negative matrix has a non-negative permanent, bounded
                                     below by every single term of a Laplace expansion
* `pSpec_nonneg`, `pSpec_pos`         the permanent ratios are ≥ 0; a positive one means a positive
                                     entry whose minor has a positive permanent (the edge extends
                                     to a perfect matching)
* `probMatrix_total`, `probMatrix_nonneg`   Σ of all entries = number of idle slots, entries ≥ 0
* `PMatch`, `permN_pos_iff_pmatch`    combinatorial form: a perfect matching (a list of rows,
                                     one per column, each used once, with non-zero entries)
-/
namespace Infretis.Perm.C05
open Infretis.Perm

/-- all entries non-negative -/
def NonNegM (N : Mat) : Prop := ∀ r ∈ N, ∀ x ∈ r, (0 : Rat) ≤ x

theorem NonNegM.getD {N : Mat} (h : NonNegM N) (r : Row) (hr : r ∈ N) (c : Nat) : 0 ≤ r.getD c 0 := by
  rw [List.getD_eq_getElem?_getD]
  cases hc : r[c]? with
  | none => simp
  | some x => simpa using h r hr x (List.mem_of_getElem? hc)

theorem NonNegM.perm {N N' : Mat} (h : NonNegM N) (hp : N'.Perm N) : NonNegM N' :=
  fun r hr x hx => h r (hp.mem_iff.mp hr) x hx

theorem NonNegM.eraseIdx {N : Mat} (h : NonNegM N) (i : Nat) : NonNegM (N.eraseIdx i) :=
  fun r hr x hx => h r (List.mem_of_mem_eraseIdx hr) x hx

theorem NonNegM.minor {N : Mat} (h : NonNegM N) (i j : Nat) : NonNegM (minor N i j) := by
  intro r hr x hx
  simp only [Infretis.Perm.minor, List.mem_map] at hr
  obtain ⟨r0, hr0, rfl⟩ := hr
  exact h r0 (List.mem_of_mem_eraseIdx hr0) x (List.mem_of_mem_eraseIdx hx)

/-- the idle block of a matrix whose idle rows are non-negative is non-negative -/
theorem idle_nonneg (W : Mat) (locks : List Bool)
    (h : ∀ (i : Nat) (r : Row), locks[i]? = some false → W[i]? = some r → ∀ x ∈ r, (0 : Rat) ≤ x) :
    NonNegM (idle W locks) := by
  intro r hr x hx
  simp only [idle, List.mem_map] at hr
  obtain ⟨r0, hr0, rfl⟩ := hr
  obtain ⟨i, hi, hWi⟩ := mem_keep locks W r0 hr0
  obtain ⟨j, _, hxj⟩ := mem_keep locks r0 x hx
  exact h i r0 hi hWi x (List.mem_of_getElem? hxj)

theorem sumPick_nonneg {α : Type} (f : α → List α → Rat) (l : List α)
    (h : ∀ x xs, (x :: xs).Perm l → 0 ≤ f x xs) : 0 ≤ sumPick f l := by
  induction l generalizing f with
  | nil => simp [sumPick]
  | cons a t ih =>
    simp only [sumPick]
    apply add_nonneg (h a t (List.Perm.refl _))
    apply ih
    intro y ys hy
    apply h
    exact (List.Perm.swap a y ys).trans (List.Perm.cons a hy)

theorem permN_nonneg (m : Nat) (rows : Mat) (h : NonNegM rows) : 0 ≤ permN m rows := by
  induction m generalizing rows with
  | zero => simp [permN]
  | succ m ih =>
    simp only [permN]
    apply sumPick_nonneg
    intro x xs hp
    have hnn := h.perm hp
    apply mul_nonneg
    · exact hnn.getD x List.mem_cons_self m
    · exact ih xs (fun r hr => hnn r (List.mem_cons_of_mem _ hr))

theorem permC_nonneg (N : Mat) (h : NonNegM N) : 0 ≤ permC N := permN_nonneg _ _ h

theorem entry_nonneg (N : Mat) (h : NonNegM N) (i j : Nat) : 0 ≤ entry N i j := by
  unfold entry
  rw [List.getD_eq_getElem?_getD (l := N)]
  cases hi : N[i]? with
  | none => simp
  | some r => simpa using h.getD r (List.mem_of_getElem? hi) j

/-- every term of the Laplace expansion along a row is a lower bound -/
theorem permC_ge_term (N : Mat) (h : NonNegM N) (i j : Nat) (hi : i < N.length) (hj : j < N.length) :
    entry N i j * permC (minor N i j) ≤ permC N := by
  conv_rhs => rw [permC_row N i hi]
  apply List.single_le_sum
  · intro x hx
    simp only [List.mem_map] at hx
    obtain ⟨b, _, rfl⟩ := hx
    exact mul_nonneg (entry_nonneg N h i b) (permC_nonneg _ (h.minor i b))
  · exact List.mem_map.mpr ⟨j, List.mem_range.mpr hj, rfl⟩

theorem pSpec_nonneg (N : Mat) (h : NonNegM N) (hP : 0 < permC N) (i j : Nat) : 0 ≤ pSpec N i j := by
  unfold pSpec
  exact div_nonneg (mul_nonneg (entry_nonneg N h i j) (permC_nonneg _ (h.minor i j))) hP.le

/-- a positive permanent ratio: the entry is positive and the rest is still matchable -/
theorem pSpec_pos (N : Mat) (h : NonNegM N) (hP : 0 < permC N) (i j : Nat) (hpos : 0 < pSpec N i j) :
    0 < entry N i j ∧ 0 < permC (minor N i j) := by
  unfold pSpec at hpos
  have hm : 0 < entry N i j * permC (minor N i j) := by
    have := mul_pos hpos hP
    rwa [div_mul_cancel₀ _ hP.ne'] at this
  have he := entry_nonneg N h i j
  have hc := permC_nonneg _ (h.minor i j)
  rcases mul_pos_iff.mp hm with h1 | h1
  · exact h1
  · exact absurd h1.1 (not_lt.mpr he)

/-! ### totals of the embedded probability matrix -/

theorem reinsert_sum (locks : List Bool) (xs : List Rat) : (reinsert 0 locks xs).sum = xs.sum := by
  induction locks generalizing xs with
  | nil => rfl
  | cons l ls ih =>
    cases l with
    | true => simp [reinsert, ih]
    | false =>
      cases xs with
      | nil => simpa [reinsert] using ih []
      | cons x xs => simp [reinsert, ih]

theorem reinsert_rows_sum (z : Row) (hz : z.sum = 0) (locks : List Bool) (rows : Mat) :
    ((reinsert z locks rows).map List.sum).sum = (rows.map List.sum).sum := by
  induction locks generalizing rows with
  | nil => rfl
  | cons l ls ih =>
    cases l with
    | true => simp [reinsert, ih, hz]
    | false =>
      cases rows with
      | nil => simpa [reinsert] using ih []
      | cons x xs => simp [reinsert, ih]

/-- **Σ of all entries of `probMatrix` = number of idle slots** (each idle row sums to one) -/
theorem probMatrix_total (W : Mat) (locks : List Bool) (hW : W.length = locks.length)
    (hP : permC (idle W locks) ≠ 0) :
    ((probMatrix W locks).map List.sum).sum = (nIdle locks : Rat) := by
  have hl := idle_length W locks hW
  unfold probMatrix embed
  rw [reinsert_rows_sum _ (by simp), List.map_map]
  have h1 : (List.sum ∘ reinsert (0 : Rat) locks) = List.sum :=
    funext (fun xs => reinsert_sum locks xs)
  rw [h1]
  unfold specMat
  rw [List.map_map]
  have h2 : List.map (List.sum ∘ fun a => (List.range (idle W locks).length).map
        (fun b => pSpec (idle W locks) a b)) (List.range (idle W locks).length)
      = List.map (fun _ => (1 : Rat)) (List.range (idle W locks).length) :=
    List.map_congr_left (fun a ha => spec_row_sum _ a (List.mem_range.mp ha) hP)
  rw [h2, hl]
  simp

theorem entry_eq_zero_of_row_none (M : Mat) (i j : Nat) (h : M.length ≤ i) : entry M i j = 0 := by
  unfold entry
  rw [List.getD_eq_getElem?_getD (l := M), List.getElem?_eq_none h]
  rfl

/-- every entry of `probMatrix` is non-negative -/
theorem probMatrix_nonneg (W : Mat) (locks : List Bool) (hW : W.length = locks.length)
    (hnn : NonNegM (idle W locks)) (hP : 0 < permC (idle W locks)) (i j : Nat) :
    0 ≤ entry (probMatrix W locks) i j := by
  cases hi : locks[i]? with
  | none =>
    have hge : locks.length ≤ i := by
      rcases Nat.lt_or_ge i locks.length with h' | h'
      · simp [List.getElem?_eq_getElem h'] at hi
      · exact h'
    rw [entry_eq_zero_of_row_none _ _ _ (by rw [probMatrix_length W locks hW]; exact hge)]
  | some b =>
    cases b with
    | true => rw [probMatrix_busy W locks hW i j (Or.inl hi)]
    | false =>
      cases hj : locks[j]? with
      | none =>
        have hge : locks.length ≤ j := by
          rcases Nat.lt_or_ge j locks.length with h' | h'
          · simp [List.getElem?_eq_getElem h'] at hj
          · exact h'
        have htl : i < (probMatrix W locks).length := by
          rw [probMatrix_length W locks hW]
          exact idle_lt_length locks i hi
        have : entry (probMatrix W locks) i j = 0 := by
          unfold entry
          rw [List.getD_eq_getElem?_getD (l := probMatrix W locks), List.getElem?_eq_getElem htl]
          simp only [Option.getD_some]
          rw [List.getD_eq_getElem?_getD, List.getElem?_eq_none]
          · rfl
          · rw [probMatrix_row_length W locks hW _ (List.getElem_mem htl)]; exact hge
        rw [this]
      | some b =>
        cases b with
        | true => rw [probMatrix_busy W locks hW i j (Or.inr hj)]
        | false =>
          rw [probMatrix_idle W locks hW i j hi hj]
          exact pSpec_nonneg _ hnn hP _ _

/-! ### the combinatorial form: perfect matchings -/

/-- `PMatch m rows σ`: `σ` lists, for the columns `m-1, m-2, …, 0` in this order, the position of
    the row matched to it *in the list of rows still unmatched* (Lehmer-code form of an injective
    assignment), every matched entry being non-zero. -/
def PMatch : Nat → Mat → List Nat → Prop
  | 0, _, σ => σ = []
  | m + 1, rows, σ =>
    match σ with
    | [] => False
    | i :: σ' => i < rows.length ∧ (rows.getD i []).getD m 0 ≠ 0 ∧ PMatch m (rows.eraseIdx i) σ'

theorem exists_ne_zero_of_sum_ne_zero (l : List Nat) (f : Nat → Rat) (h : (l.map f).sum ≠ 0) :
    ∃ i ∈ l, f i ≠ 0 := by
  induction l with
  | nil => simp at h
  | cons a t ih =>
    simp only [List.map_cons, List.sum_cons] at h
    by_cases ha : f a = 0
    · rw [ha, zero_add] at h
      obtain ⟨i, hi, hfi⟩ := ih h
      exact ⟨i, List.mem_cons_of_mem _ hi, hfi⟩
    · exact ⟨a, List.mem_cons_self, ha⟩

/-- a non-zero permanent has a perfect matching (any entries) -/
theorem pmatch_of_permN_ne_zero (m : Nat) (rows : Mat) (h : permN m rows ≠ 0) :
    ∃ σ, PMatch m rows σ := by
  induction m generalizing rows with
  | zero => exact ⟨[], rfl⟩
  | succ m ih =>
    rw [permN, sumPick_eq_sum_range _ rows []] at h
    obtain ⟨i, hi, hne⟩ := exists_ne_zero_of_sum_ne_zero _ _ h
    have hi' := List.mem_range.mp hi
    have h1 : (rows.getD i []).getD m 0 ≠ 0 := left_ne_zero_of_mul hne
    have h2 : permN m (rows.eraseIdx i) ≠ 0 := right_ne_zero_of_mul hne
    obtain ⟨σ, hσ⟩ := ih _ h2
    exact ⟨i :: σ, hi', h1, hσ⟩

/-- a perfect matching of a non-negative matrix makes the permanent positive -/
theorem permN_pos_of_pmatch (m : Nat) (rows : Mat) (hnn : NonNegM rows) (σ : List Nat)
    (h : PMatch m rows σ) : 0 < permN m rows := by
  induction m generalizing rows σ with
  | zero => simp [permN]
  | succ m ih =>
    cases σ with
    | nil => exact absurd h (by simp [PMatch])
    | cons i σ' =>
      obtain ⟨hi, hne, hrest⟩ := h
      rw [permN, sumPick_eq_sum_range _ rows []]
      have hmem : ∀ k, k < rows.length → rows.getD k [] ∈ rows := by
        intro k hk
        rw [List.getD_eq_getElem?_getD, List.getElem?_eq_getElem hk]
        exact List.getElem_mem hk
      have hterm : 0 < (rows.getD i []).getD m 0 * permN m (rows.eraseIdx i) := by
        apply mul_pos
        · exact lt_of_le_of_ne (hnn.getD _ (hmem i hi) m) (Ne.symm hne)
        · exact ih _ (hnn.eraseIdx i) σ' hrest
      refine lt_of_lt_of_le hterm ?_
      apply List.single_le_sum
      · intro x hx
        simp only [List.mem_map, List.mem_range] at hx
        obtain ⟨k, hk, rfl⟩ := hx
        exact mul_nonneg (hnn.getD _ (hmem k hk) m) (permN_nonneg _ _ (hnn.eraseIdx k))
      · exact List.mem_map.mpr ⟨i, List.mem_range.mpr hi, rfl⟩

/-- **for non-negative matrices: permanent positive ⟺ a perfect matching exists** -/
theorem permC_pos_iff_pmatch (N : Mat) (hnn : NonNegM N) :
    0 < permC N ↔ ∃ σ, PMatch N.length N σ := by
  unfold permC
  constructor
  · exact fun h => pmatch_of_permN_ne_zero _ _ (ne_of_gt h)
  · rintro ⟨σ, h⟩
    exact permN_pos_of_pmatch _ _ hnn σ h

end Infretis.Perm.C05
