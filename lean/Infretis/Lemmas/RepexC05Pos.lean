import Infretis.Lemmas.RepexC05Keep
/-!
# C05 — positivity of the list permanent on non-negative matrices, and the totals of `probMatrix`

* `permC_nonneg`, `permC_ge_term`     a non-negative matrix has a non-negative permanent, bounded
                                     below by every single term of a Laplace expansion
* `pSpec_nonneg`, `pSpec_pos`         the permanent ratios are ≥ 0; a positive one means a positive
                                     entry whose minor has a positive permanent (the edge extends
                                     to a perfect matching)
* `probMatrix_total`, `probMatrix_nonneg`   Σ of all entries = number of idle slots, entries ≥ 0
* `PMatch`, `permN_pos_iff_pmatch`    combinatorial form: a perfect matching (a list of rows,
                                     one per column, each used once, with non-zero entries)
-/
namespace Infretis.Perm.C05
open Infretis.Perm

/-- all entries non-negative -/
def NonNegM (N : Mat) : Prop := ∀ r ∈ N, ∀ x ∈ r, (0 : Rat) ≤ x

theorem NonNegM.getD {N : Mat} (h : NonNegM N) (r : Row) (hr : r ∈ N) (c : Nat) : 0 ≤ r.getD c 0 := by
  sorry

theorem NonNegM.perm {N N' : Mat} (h : NonNegM N) (hp : N'.Perm N) : NonNegM N' :=
  fun r hr x hx => h r (hp.mem_iff.mp hr) x hx

theorem NonNegM.minor {N : Mat} (h : NonNegM N) (i j : Nat) : NonNegM (minor N i j) := by
  sorry

/-- the idle block of a matrix whose idle rows are non-negative is non-negative -/
theorem idle_nonneg (W : Mat) (locks : List Bool)
    (h : ∀ (i : Nat) (r : Row), locks[i]? = some false → W[i]? = some r → ∀ x ∈ r, (0 : Rat) ≤ x) :
    NonNegM (idle W locks) := by
  sorry

theorem permN_nonneg (m : Nat) (rows : Mat) (h : NonNegM rows) : 0 ≤ permN m rows := by
  sorry

theorem permC_nonneg (N : Mat) (h : NonNegM N) : 0 ≤ permC N := by
  sorry

/-- every term of the Laplace expansion along a row is a lower bound -/
theorem permC_ge_term (N : Mat) (h : NonNegM N) (i j : Nat) (hi : i < N.length) (hj : j < N.length) :
    entry N i j * permC (minor N i j) ≤ permC N := by
  sorry

theorem pSpec_nonneg (N : Mat) (h : NonNegM N) (hP : 0 < permC N) (i j : Nat) : 0 ≤ pSpec N i j := by
  sorry

/-- a positive permanent ratio: the entry is positive and the rest is still matchable -/
theorem pSpec_pos (N : Mat) (h : NonNegM N) (hP : 0 < permC N) (i j : Nat) (hpos : 0 < pSpec N i j) :
    0 < entry N i j ∧ 0 < permC (minor N i j) := by
  sorry

/-! ### totals of the embedded probability matrix -/

/-- **Σ of all entries of `probMatrix` = number of idle slots** (each idle row sums to one) -/
theorem probMatrix_total (W : Mat) (locks : List Bool) (hW : W.length = locks.length)
    (hP : permC (idle W locks) ≠ 0) :
    ((probMatrix W locks).map List.sum).sum = (nIdle locks : Rat) := by
  sorry

/-- every entry of `probMatrix` is non-negative -/
theorem probMatrix_nonneg (W : Mat) (locks : List Bool) (hW : W.length = locks.length)
    (hnn : NonNegM (idle W locks)) (hP : 0 < permC (idle W locks)) (i j : Nat) :
    0 ≤ entry (probMatrix W locks) i j := by
  sorry

/-! ### the combinatorial form: perfect matchings -/

/-- `PMatch m rows σ`: `σ` lists, for the columns `m-1, m-2, …, 0` in this order, the position of
    the row matched to it *in the list of rows still unmatched* (Lehmer-code form of an injective
    assignment), every matched entry being non-zero. -/
def PMatch : Nat → Mat → List Nat → Prop
  | 0, _, σ => σ = []
  | m + 1, rows, σ =>
    match σ with
    | [] => False
    | i :: σ' => i < rows.length ∧ (rows.getD i []).getD m 0 ≠ 0 ∧ PMatch m (rows.eraseIdx i) σ'

/-- a non-zero permanent has a perfect matching (any entries) -/
theorem pmatch_of_permN_ne_zero (m : Nat) (rows : Mat) (h : permN m rows ≠ 0) :
    ∃ σ, PMatch m rows σ := by
  sorry

/-- a perfect matching of a non-negative matrix makes the permanent positive -/
theorem permN_pos_of_pmatch (m : Nat) (rows : Mat) (hnn : NonNegM rows) (σ : List Nat)
    (h : PMatch m rows σ) : 0 < permN m rows := by
  sorry

/-- **for non-negative matrices: permanent positive ⟺ a perfect matching exists** -/
theorem permC_pos_iff_pmatch (N : Mat) (hnn : NonNegM N) :
    0 < permC N ↔ ∃ σ, PMatch N.length N σ := by
  sorry

end Infretis.Perm.C05
