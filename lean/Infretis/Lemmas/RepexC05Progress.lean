import Infretis.Lemmas.RepexC05Sys
/-!
# C05 — progress of the per-ensemble loop of `treat_output` (audit repair)

The step theorems of `Props/C05.lean` are stated for steps that return (`sysStep … = .ok`, `preSort … = .ok`).  This file
proves the part of "it returns" that the property names: **the assertions of `add_traj` (`valid[ens] != 0`) and of
`unlock` hold for every picked ensemble**, for every reachable state, every job in flight and every outcome whose new
weight vectors are non-zero in their own ensemble — the per-ensemble loop of `treat_output` returns.
What stays conditional: the `traj_data` look-ups of "record weights" and `write_to_pathens` (KeyError-freedom; C04's tables).
-/
namespace Infretis.Repex
open Infretis.Perm Infretis.Perm.C05

/-- `add_traj` returns when the padded vector is non-zero in its own column, has `n` entries, the slot exists and is locked -/
theorem addTraj_returns (s : St) (ens : Int) (pn : Nat) (valid : List Rat) (x : Rat)
    (hx : (padValid s ens valid)[(ens + 1).toNat]? = some x) (hx0 : x ≠ 0)
    (hlen : (padValid s ens valid).length = s.n) (he : (ens + 1).toNat < s.trajs.length)
    (hl : s.locks[(ens + 1).toNat]? = some true) :
    addTraj s ens pn valid = .ok { s with trajs := s.trajs.set (ens + 1).toNat (some pn),
                                          W := s.W.set (ens + 1).toNat (padValid s ens valid),
                                          locks := s.locks.set (ens + 1).toNat false } := by
  unfold addTraj
  have hoff : (ens + (off : Int)).toNat = (ens + 1).toNat := by simp [off]
  simp only [hoff, hx, hx0, ↓reduceIte, hlen, ne_eq, not_true_eq_false]
  rw [if_neg (by omega)]
  unfold unlock
  simp only [hl]

/-- the same with the facts the rest of the loop needs about the new state -/
theorem addTraj_returns' (s : St) (ens : Int) (pn : Nat) (valid : List Rat) (x : Rat)
    (hx : (padValid s ens valid)[(ens + 1).toNat]? = some x) (hx0 : x ≠ 0)
    (hlen : (padValid s ens valid).length = s.n) (he : (ens + 1).toNat < s.trajs.length)
    (hl : s.locks[(ens + 1).toNat]? = some true) :
    ∃ s3, addTraj s ens pn valid = .ok s3 ∧ s3.n = s.n ∧ s3.trajs.length = s.trajs.length ∧ s3.wts = s.wts ∧
      ∀ e', e' ≠ (ens + 1).toNat → s3.locks[e']? = s.locks[e']? :=
  ⟨_, addTraj_returns s ens pn valid x hx hx0 hlen he hl, rfl, by simp, rfl,
    fun e' hne => by simp only []; rw [List.getElem?_set_ne (Ne.symm hne)]⟩

/-- the state `add_traj` is called on in the accepted branch of the loop -/
def accState (s : St) (p : Picked) (tn : Nat) (w : List Rat) : St :=
  { { s with locked := popLocked p.pn s.locked.length 0 s.locked,
             lockedOrd := popLockedOrd p.pn s.locked.length 0 s.locked s.lockedOrd } with
    frac := s.frac ++ [(tn, List.replicate s.n 0)], wts := s.wts ++ [(tn, w)] }

/-- … and in the rejected branch -/
def rejState (s : St) (p : Picked) : St :=
  { s with locked := popLocked p.pn s.locked.length 0 s.locked,
           lockedOrd := popLockedOrd p.pn s.locked.length 0 s.locked s.lockedOrd }

theorem perEns_cons_acc (s : St) (tn : Nat) (p : Picked) (w : List Rat) (rest : List (Picked × List Rat)) :
    treatOutput.perEns .acc s tn ((p, w) :: rest) =
      match addTraj (accState s p tn w) p.ens tn w with
      | .error er => .error er
      | .ok s3 =>
        match treatOutput.perEns .acc s3 (tn + 1) rest with
        | .error er => .error er
        | .ok (s4, tn', pns) => .ok (s4, tn', tn :: pns) := by
  rw [treatOutput.perEns]
  simp only [↓reduceIte]
  rfl

theorem perEns_cons_rej (s : St) (tn : Nat) (p : Picked) (w : List Rat) (rest : List (Picked × List Rat)) :
    treatOutput.perEns .rej s tn ((p, w) :: rest) =
      match (rejState s p).wts.lookup p.pn with
      | none => .error .key
      | some wOld =>
        match addTraj (rejState s p) p.ens p.pn wOld with
        | .error er => .error er
        | .ok s3 =>
          match treatOutput.perEns .rej s3 tn rest with
          | .error er => .error er
          | .ok (s4, tn', pns) => .ok (s4, tn', p.pn :: pns) := by
  rw [treatOutput.perEns]
  simp only [reduceCtorEq, ↓reduceIte]
  rfl

/-- what the loop needs of one entry `(picked, new weights)` -/
def Ready (status : Status) (s : St) (pw : Picked × List Rat) : Prop :=
  s.locks[(pw.1.ens + 1).toNat]? = some true ∧ (pw.1.ens + 1).toNat < s.trajs.length ∧
  (status = .acc → ∃ x, (padN s.n pw.1.ens pw.2)[(pw.1.ens + 1).toNat]? = some x ∧ x ≠ 0 ∧
      (padN s.n pw.1.ens pw.2).length = s.n) ∧
  (status = .rej → ∃ wOld x, s.wts.lookup pw.1.pn = some wOld ∧
      (padN s.n pw.1.ens wOld)[(pw.1.ens + 1).toNat]? = some x ∧ x ≠ 0 ∧ (padN s.n pw.1.ens wOld).length = s.n)

theorem Ready.congr {status : Status} {s s' : St} {pw : Picked × List Rat} (h : Ready status s pw)
    (hn : s'.n = s.n) (hT : s'.trajs.length = s.trajs.length) (hw : status = .rej → s'.wts = s.wts)
    (hL : s'.locks[(pw.1.ens + 1).toNat]? = s.locks[(pw.1.ens + 1).toNat]?) : Ready status s' pw := by
  obtain ⟨h1, h2, h3, h4⟩ := h
  refine ⟨by rw [hL]; exact h1, by rw [hT]; exact h2, ?_, ?_⟩
  · intro ha; rw [hn]; exact h3 ha
  · intro hr; rw [hn, hw hr]; exact h4 hr

/-- **the per-ensemble loop of `treat_output` returns**: every entry ready, slots pairwise distinct -/
theorem perEns_returns (status : Status) : ∀ (l : List (Picked × List Rat)) (s : St) (tn : Nat),
    (∀ pw ∈ l, Ready status s pw) → (l.map (fun pw => (pw.1.ens + 1).toNat)).Nodup →
    ∃ r, treatOutput.perEns status s tn l = .ok r := by
  intro l
  induction l with
  | nil => intro s tn _ _; exact ⟨_, rfl⟩
  | cons pw rest ih =>
    intro s tn hall hnd
    obtain ⟨p, w⟩ := pw
    obtain ⟨hl, he, hacc, hrej⟩ := hall (p, w) (List.mem_cons_self ..)
    simp only [List.map_cons, List.nodup_cons] at hnd
    obtain ⟨hnotin, hnd'⟩ := hnd
    have hne : ∀ pw' ∈ rest, (pw'.1.ens + 1).toNat ≠ (p.ens + 1).toNat := by
      intro pw' hm heq
      exact hnotin (List.mem_map.mpr ⟨pw', hm, heq⟩)
    cases status with
    | acc =>
      obtain ⟨x, hx, hx0, hlen⟩ := hacc rfl
      obtain ⟨s3, hadd, hn3, hT3, _, hL3⟩ := addTraj_returns' (accState s p tn w) p.ens tn w x
        (by simpa [padValid_eq_padN, accState] using hx) hx0
        (by simpa [padValid_eq_padN, accState] using hlen) (by simpa [accState] using he)
        (by simpa [accState] using hl)
      obtain ⟨r, hr⟩ := ih s3 (tn + 1) (by
        intro pw' hm
        exact (hall pw' (List.mem_cons_of_mem _ hm)).congr (by rw [hn3]; rfl) (by rw [hT3]; rfl)
          (fun h => by cases h) (by rw [hL3 _ (hne pw' hm)]; rfl)) hnd'
      rw [perEns_cons_acc, hadd]
      simp only [hr]
      obtain ⟨s4, tn', pns⟩ := r
      exact ⟨_, rfl⟩
    | rej =>
      obtain ⟨wOld, x, hlook, hx, hx0, hlen⟩ := hrej rfl
      obtain ⟨s3, hadd, hn3, hT3, hw3, hL3⟩ := addTraj_returns' (rejState s p) p.ens p.pn wOld x
        (by simpa [padValid_eq_padN, rejState] using hx) hx0
        (by simpa [padValid_eq_padN, rejState] using hlen) (by simpa [rejState] using he)
        (by simpa [rejState] using hl)
      obtain ⟨r, hr⟩ := ih s3 tn (by
        intro pw' hm
        exact (hall pw' (List.mem_cons_of_mem _ hm)).congr (by rw [hn3]; rfl) (by rw [hT3]; rfl)
          (fun _ => by rw [hw3]; rfl) (by rw [hL3 _ (hne pw' hm)]; rfl)) hnd'
      have hlook' : (rejState s p).wts.lookup p.pn = some wOld := hlook
      rw [perEns_cons_rej]
      simp only [hlook', hadd, hr]
      obtain ⟨s4, tn', pns⟩ := r
      exact ⟨_, rfl⟩

theorem RowOk.length {n i : Nat} {r : Row} (h : RowOk n i r) : r.length = n := by
  rcases Nat.eq_zero_or_pos i with hi | hi
  · exact (h.1 hi).1
  · obtain ⟨_, hp, _⟩ := h.2 hi
    exact hp.1

/-- **the per-ensemble loop returns on every state with the scheduler invariants**: `CoreR` for the job's slots, `Fam`,
    new weight vectors (accepted move) in the family and non-zero in their own ensemble, one per picked ensemble -/
theorem perEns_returns_inv {s : St} {H : List (Nat × Nat)} (job : Job) (status : Status) (newW : List (List Rat))
    (hc : CoreR s (heldJob job ++ H) s.trajNum) (hf : Fam s s.trajNum)
    (hge : ∀ p ∈ job.picked, -1 ≤ p.ens)
    (hlen : status = .acc → newW.length = job.picked.length)
    (hvec : status = .acc → ∀ pw ∈ job.picked.zip newW, VecOk s.n pw.1.ens pw.2)
    (hown : status = .acc → ∀ pw ∈ job.picked.zip newW,
      ∃ x, (padN s.n pw.1.ens pw.2)[(pw.1.ens + 1).toNat]? = some x ∧ x ≠ 0) :
    ∃ r, treatOutput.perEns status s s.trajNum
      (job.picked.zip (if status = .acc then newW else job.picked.map (fun _ => []))) = .ok r := by
  have hwl : (if status = .acc then newW else job.picked.map (fun _ => ([] : List Rat))).length = job.picked.length := by
    split
    · rename_i ha; exact hlen ha
    · simp
  apply perEns_returns
  · intro pw hm
    have hp : pw.1 ∈ job.picked := (List.of_mem_zip hm).1
    have hmem : (slotOf pw.1, pw.1.pn) ∈ heldJob job ++ H :=
      List.mem_append_left _ (List.mem_map.mpr ⟨pw.1, hp, rfl⟩)
    obtain ⟨hlt, htr, hd⟩ := hc.heldOk _ _ hmem
    have hlock : s.locks[slotOf pw.1]? = some true :=
      (hc.busy _ hlt).mpr (List.mem_map.mpr ⟨_, hmem, rfl⟩)
    refine ⟨hlock, by rw [hc.lenT]; show slotOf pw.1 < s.n; omega, ?_, ?_⟩
    · intro ha
      rw [if_pos ha] at hm
      obtain ⟨x, hx, hx0⟩ := hown ha pw hm
      exact ⟨x, hx, hx0, (hvec ha pw hm).length⟩
    · intro hrj
      obtain ⟨wOld, hlook, hpad⟩ := hf.wts _ _ hlt htr
      have hens : ((slotOf pw.1 : Nat) : Int) - 1 = pw.1.ens := by
        have := hge _ hp
        unfold slotOf; omega
      rw [hens, padValid_eq_padN] at hpad
      have hrl : (s.W.getD (slotOf pw.1) []).length = s.n := (hf.rows _ hlt).length
      have hlt' : slotOf pw.1 < (s.W.getD (slotOf pw.1) []).length := by rw [hrl]; omega
      refine ⟨wOld, (s.W.getD (slotOf pw.1) [])[slotOf pw.1], hlook, ?_, ?_, by rw [hpad]; exact hrl⟩
      · rw [hpad]; exact List.getElem?_eq_getElem hlt'
      · intro h0
        apply hd
        unfold entryM
        rw [List.getD_eq_getElem?_getD (l := s.W.getD (slotOf pw.1) []), List.getElem?_eq_getElem hlt']
        simpa using h0
  · have hnd := hc.nodup
    rw [List.map_append, List.nodup_append] at hnd
    have h1 : (job.picked.zip (if status = .acc then newW else job.picked.map (fun _ => ([] : List Rat)))).map
        (fun pw => (pw.1.ens + 1).toNat) = job.picked.map slotOf := map_slotOf_zip _ _ hwl
    rw [h1]
    have h2 : (heldJob job).map Prod.fst = job.picked.map slotOf := by
      unfold heldJob; rw [List.map_map]; rfl
    rw [← h2]
    exact hnd.1

end Infretis.Repex
