import Infretis.Lemmas.RepexC05Treat
/-!
# C05 — `sort_trajstate` terminates (any number of workers) and leaves a non-zero diagonal

One iteration of the loop, from a state satisfying `Core` and `Fam`:
the first slot `e` with a zero diagonal is idle and holds a plus row with `cnt < e` positive
weights; the column the code looks at is `z = cnt + 1 ≤ e`; by Frobenius–König (`no_gap`) an idle
slot `t < z` whose row reaches `z` exists, so neither `.index` call fails and the slot `tj` the
code picks satisfies `tj < z`; after `swap(e, tj)` slot `tj` is good and slot `e` holds a row
with strictly more positive weights.  The measure `mu = Σ_slots (slot − #positive weights of its
row)` (truncated subtraction) strictly decreases and is at most `n²`.
-/
namespace Infretis.Repex
open Infretis.Perm Infretis.Perm.C05

/-! ### a position-weighted sum and its behaviour under `set` / `swapList` -/

def wsum {α : Type} (g : Nat → α → Nat) : Nat → List α → Nat
  | _, [] => 0
  | k, x :: xs => g k x + wsum g (k + 1) xs

theorem wsum_set {α : Type} (g : Nat → α → Nat) : ∀ (l : List α) (k i : Nat) (x : α) (hi : i < l.length),
    wsum g k (l.set i x) + g (k + i) l[i] = wsum g k l + g (k + i) x := by
  intro l
  induction l with
  | nil => intro k i x hi; simp at hi
  | cons a t ih =>
    intro k i x hi
    cases i with
    | zero => simp only [List.set_cons_zero, wsum, Nat.add_zero, List.getElem_cons_zero]; omega
    | succ i =>
      simp only [List.length_cons, Nat.add_lt_add_iff_right] at hi
      have := ih (k + 1) i x hi
      simp only [List.set_cons_succ, wsum, List.getElem_cons_succ]
      rw [show k + (i + 1) = k + 1 + i from by omega]
      omega

theorem wsum_swap {α : Type} (g : Nat → α → Nat) (l : List α) (i j : Nat) (hi : i < l.length)
    (hj : j < l.length) (hij : i ≠ j) :
    wsum g 0 (swapList l i j) + g i l[i] + g j l[j] = wsum g 0 l + g i l[j] + g j l[i] := by
  rw [Infretis.Perm.C05.swapList_eq_of_lt l i j hi hj]
  have h1 := wsum_set g l 0 i l[j] hi
  have hj' : j < (l.set i l[j]).length := by rw [List.length_set]; exact hj
  have h2 := wsum_set g (l.set i l[j]) 0 j l[i] hj'
  have h3 : (l.set i l[j])[j] = l[j] := by
    rw [List.getElem_set_ne hij]
  rw [h3] at h2
  simp only [Nat.zero_add] at h1 h2
  omega

theorem wsum_le {α : Type} (g : Nat → α → Nat) (hg : ∀ i x, g i x ≤ i) : ∀ (l : List α) (k : Nat),
    wsum g k l ≤ l.length * (k + l.length) := by
  intro l
  induction l with
  | nil => intro k; simp [wsum]
  | cons a t ih =>
    intro k
    have := ih (k + 1)
    have hga := hg k a
    simp only [wsum, List.length_cons]
    calc g k a + wsum g (k + 1) t ≤ k + t.length * (k + 1 + t.length) := by omega
      _ ≤ (t.length + 1) * (k + (t.length + 1)) := by
        rw [Nat.add_mul, Nat.one_mul]
        have : k + 1 + t.length = k + (t.length + 1) := by omega
        rw [this]
        omega

/-! ### the number of positive weights of a staircase row -/

/-- position of the first zero after column 0 = number of positive weights of a plus row -/
def lastOf (r : Row) : Nat := (r.drop 1).findIdx (· == 0)

theorem getD_eq_getElem {r : Row} {c : Nat} (hc : c < r.length) : r.getD c 0 = r[c] := by
  rw [List.getD_eq_getElem?_getD, List.getElem?_eq_getElem hc]; rfl

theorem lastOf_plus {n cnt : Nat} {r : Row} (h : IsPlusRow 1 n cnt r) (hc : 1 + cnt ≤ n - 1) :
    lastOf r = cnt := by
  obtain ⟨hlen, _, _, hp, hz⟩ := h
  unfold lastOf
  have hl : cnt < (r.drop 1).length := by rw [List.length_drop]; omega
  rw [List.findIdx_eq hl]
  constructor
  · rw [List.getElem_drop]
    have := hz (1 + cnt) (Nat.le_refl _) (by omega)
    rw [getD_eq_getElem (by omega)] at this
    simp [this]
  · intro j hj
    rw [List.getElem_drop]
    have := hp (1 + j) (by omega) (by omega)
    rw [getD_eq_getElem (by omega)] at this
    simp only [beq_eq_false_iff_ne, ne_eq]
    exact ne_of_gt this

/-- what the code computes: the first zero among the columns `1 … n-2` -/
theorem mid_findIdx_plus {n cnt : Nat} {r : Row} (h : IsPlusRow 1 n cnt r) (hc : cnt < n - 2) :
    ((r.drop 1).dropLast).findIdx (· == 0) = cnt ∧ cnt < ((r.drop 1).dropLast).length := by
  obtain ⟨hlen, _, _, hp, hz⟩ := h
  have hl : cnt < ((r.drop 1).dropLast).length := by
    rw [List.length_dropLast, List.length_drop]; omega
  refine ⟨?_, hl⟩
  rw [List.findIdx_eq hl]
  constructor
  · rw [List.getElem_dropLast, List.getElem_drop]
    have := hz (1 + cnt) (Nat.le_refl _) (by omega)
    rw [getD_eq_getElem (by omega)] at this
    simp [this]
  · intro j hj
    rw [List.getElem_dropLast, List.getElem_drop]
    have := hp (1 + j) (by omega) (by omega)
    rw [getD_eq_getElem (by omega)] at this
    simp only [beq_eq_false_iff_ne, ne_eq]
    exact ne_of_gt this

/-- the termination measure of `sort_trajstate` -/
def mu (s : St) : Nat := wsum (fun i r => i - lastOf r) 0 s.W

theorem mu_le (s : St) (hlen : s.W.length = s.n) : mu s ≤ s.n * s.n := by
  unfold mu
  have := wsum_le (fun i (r : Row) => i - lastOf r) (fun i x => Nat.sub_le _ _) s.W 0
  rw [hlen] at this
  simpa using this

/-! ### rows of the family vanish beyond their last positive weight -/

theorem rowOk_entry_zero_vanish {n i : Nat} {r : Row} (h : RowOk n i r) (z : Nat) (hz1 : 1 ≤ z)
    (hzero : r.getD z 0 = 0) : ∀ c, z ≤ c → r.getD c 0 = 0 := by
  intro c hc
  rcases Nat.eq_zero_or_pos i with hi | hi
  · obtain ⟨hlen, _, hz⟩ := h.1 hi
    rcases Nat.lt_or_ge c n with hcn | hcn
    · exact hz c (by omega) hcn
    · rw [List.getD_eq_getElem?_getD, List.getElem?_eq_none (by omega)]; rfl
  · obtain ⟨cnt, ⟨hlen, _, _, hp, hz'⟩, _⟩ := h.2 hi
    have hzc : 1 + cnt ≤ z := by
      by_contra hlt
      have := hp z hz1 (by omega)
      rw [hzero] at this
      exact lt_irrefl _ this
    rcases Nat.lt_or_ge c n with hcn | hcn
    · exact hz' c (by omega) hcn
    · rw [List.getD_eq_getElem?_getD, List.getElem?_eq_none (by omega)]; rfl

/-! ### locked paths -/

theorem mem_lockedPaths_iff_aux {s : St} (x : Option Nat) (hx : x ∈ lockedPaths s) :
    ∃ j, j < s.trajs.length - 1 ∧ s.trajs[j]? = some x ∧ s.locks[j]? = some true := by
  unfold lockedPaths at hx
  rw [List.mem_filterMap] at hx
  obtain ⟨⟨a, l⟩, hmem, hsome⟩ := hx
  obtain ⟨j, hj, hget⟩ := List.getElem_of_mem hmem
  have hj2 := hj
  rw [List.length_zip, List.length_dropLast, List.length_dropLast] at hj2
  have hz : ((s.trajs.dropLast).zip (s.locks.dropLast))[j]? = some (a, l) := by
    rw [List.getElem?_eq_getElem hj, hget]
  rw [List.getElem?_zip_eq_some] at hz
  obtain ⟨h1, h2⟩ := hz
  rw [List.getElem?_dropLast] at h1 h2
  have hl : l = true := by
    cases l with
    | true => rfl
    | false => simp at hsome
  subst hl
  simp only [↓reduceIte, Option.some.injEq] at hsome
  subst hsome
  split at h1
  · split at h2
    · exact ⟨j, by omega, h1, h2⟩
    · exact absurd h2 (by simp)
  · exact absurd h1 (by simp)

/-- the path of an idle slot is not a locked path -/
theorem idle_not_lockedPath {s : St} {H : List (Nat × Nat)} {tn : Nat} (hc : CoreR s H tn) (t : Nat)
    (ht : s.locks[t]? = some false) : s.trajs.getD t none ∉ lockedPaths s := by
  intro hm
  obtain ⟨j, hj, hjt, hjl⟩ := mem_lockedPaths_iff_aux _ hm
  have ht' := hc.unlocked_lt t ht
  rw [hc.lenT] at hj
  obtain ⟨pn, hpn, _⟩ := hc.live t ht'
  rw [List.getD_eq_getElem?_getD, hpn] at hjt
  simp only [Option.getD_some] at hjt
  have := hc.inj j t pn hj ht' hjt hpn
  subst this
  rw [ht] at hjl
  exact absurd hjl (by simp)

/-! ### one iteration -/

/-- shape of a successful iteration: two idle slots are swapped (C03's argument, with the slots
    made explicit) -/
theorem sortStep_some_spec {s s' : St} {H : List (Nat × Nat)} {tn : Nat} (h : CoreR s H tn)
    (hs : sortStep s = .ok (some s')) :
    ∃ e t, s' = swap s e t ∧ s.locks[e]? = some false ∧ s.locks[t]? = some false := by
  unfold sortStep at hs
  simp only [] at hs
  split at hs
  · exact absurd hs (by simp)
  rename_i hcond
  have hcond := Classical.not_not.mp hcond
  split at hs
  · exact absurd hs (by simp)
  split at hs
  · exact absurd hs (by simp)
  rename_i htj
  simp only [Except.ok.injEq, Option.some.injEq] at hs
  have hex : ∃ x, x ∈ needsToMove s ∧ (x == true) = true := by
    have := hcond.1
    rw [List.contains_iff_mem] at this
    exact ⟨true, this, rfl⟩
  have h1 : (needsToMove s).findIdx (· == true) < (needsToMove s).length :=
    List.findIdx_lt_length_of_exists hex
  have h1v := List.findIdx_getElem (w := h1)
  have hlen1 : (needsToMove s).length = s.n - 1 := by simp [needsToMove]
  have h1' : (needsToMove s).findIdx (· == true) < s.n - 1 := by rw [← hlen1]; exact h1
  have hz : entryM s.W ((needsToMove s).findIdx (· == true)) ((needsToMove s).findIdx (· == true)) = 0 := by
    simp only [needsToMove, List.getElem_map, List.getElem_range, beq_iff_eq] at h1v
    exact h1v
  have htjlt := Nat.lt_of_not_ge htj
  have hav : _ := List.findIdx_getElem (w := htjlt)
  simp only [List.length_map, List.length_range] at htjlt
  simp only [List.getElem_map, List.getElem_range, Bool.and_eq_true, Bool.not_eq_true',
    beq_iff_eq] at hav
  refine ⟨_, _, hs.symm, ?_, ?_⟩
  · apply unlocked_of_not_locked _ _ (by rw [h.lenL]; omega)
    intro hl
    have := (h.busy _ h1').mp hl
    obtain ⟨⟨e, pn⟩, hm, he⟩ := List.mem_map.mp this
    have he : e = _ := he
    have hne := (h.heldOk e pn hm).2.2
    rw [he] at hne
    exact hne hz
  · apply unlocked_of_not_locked _ _ (by rw [h.lenL]; omega)
    intro hl
    have hm := mem_lockedPathsR h _ htjlt hl
    rw [← List.contains_iff_mem] at hm
    rw [hm] at hav
    exact absurd hav.2 (by simp)

/-- **One iteration never fails, keeps the invariants and decreases the measure.** -/
theorem sortStep_progress {s : St} {H : List (Nat × Nat)} {tn tn' : Nat} (hc : CoreR s H tn')
    (hf : Fam s tn) :
    sortStep s = .ok none ∨
      ∃ s', sortStep s = .ok (some s') ∧ CoreR s' H tn' ∧ AuxEq s s' ∧ Fam s' tn ∧ mu s' < mu s := by
  by_cases hcond : (needsToMove s).contains true ∧ s.toinitiate = -1
  swap
  · left
    unfold sortStep
    simp only []
    rw [if_pos hcond]
  right
  -- the first slot with a zero diagonal
  have hex : ∃ x, x ∈ needsToMove s ∧ (x == true) = true := by
    have := hcond.1
    rw [List.contains_iff_mem] at this
    exact ⟨true, this, rfl⟩
  have h1 : (needsToMove s).findIdx (· == true) < (needsToMove s).length :=
    List.findIdx_lt_length_of_exists hex
  have h1v := List.findIdx_getElem (w := h1)
  have hlen1 : (needsToMove s).length = s.n - 1 := by simp [needsToMove]
  generalize he : (needsToMove s).findIdx (· == true) = e at h1 h1v
  have he' : e < s.n - 1 := by rw [← hlen1]; exact h1
  have hz : entryM s.W e e = 0 := by
    simp only [needsToMove, List.getElem_map, List.getElem_range, beq_iff_eq] at h1v
    exact h1v
  -- it is idle
  have heIdle : s.locks[e]? = some false := by
    apply unlocked_of_not_locked _ _ (by rw [hc.lenL]; omega)
    intro hl
    have := (hc.busy _ he').mp hl
    obtain ⟨⟨e0, pn⟩, hm, he0⟩ := List.mem_map.mp this
    have he0 : e0 = e := he0
    have hne := (hc.heldOk e0 pn hm).2.2
    rw [he0] at hne
    exact hne hz
  -- it is a plus slot
  have hrowe := hf.rows e he'
  have he1 : 1 ≤ e := by
    by_contra h0
    have h0 : e = 0 := by omega
    obtain ⟨_, hpos, _⟩ := hrowe.1 h0
    have hz' : (s.W.getD e []).getD 0 0 = 0 := by
      have := hz
      rw [h0] at this ⊢
      exact this
    rw [hz'] at hpos
    exact lt_irrefl _ hpos
  obtain ⟨cnt, hplus, hcnt⟩ := hrowe.2 he1
  have hz' : (s.W.getD e []).getD e 0 = 0 := hz
  have hcnte : 1 + cnt ≤ e := by
    by_contra hlt
    have := hplus.2.2.2.1 e he1 (by omega)
    rw [hz'] at this
    exact lt_irrefl _ this
  obtain ⟨hzi, hzilt⟩ := mid_findIdx_plus hplus (by omega)
  -- the rows reaching column z
  have hvan_e : ∀ c, cnt + 1 ≤ c → (s.W.getD e []).getD c 0 = 0 := by
    intro c hcge
    rcases Nat.lt_or_ge c s.n with hcn | hcn
    · exact hplus.2.2.2.2 c (by omega) hcn
    · rw [List.getD_eq_getElem?_getD, List.getElem?_eq_none (by rw [hplus.1]; omega)]; rfl
  have hWL : s.W.length = s.locks.length := by rw [hc.lenW, hc.lenL]
  have hreach : ∃ t, t < cnt + 1 ∧ s.locks[t]? = some false ∧ entryM s.W t (cnt + 1) ≠ 0 := by
    by_contra hno
    apply no_gap s.W s.locks hWL (ne_of_gt hf.perm) e (cnt + 1) heIdle (by omega) hvan_e
    intro t ht htI
    have hzero : (s.W.getD t []).getD (cnt + 1) 0 = 0 := by
      by_contra hne
      exact hno ⟨t, ht, htI, hne⟩
    exact rowOk_entry_zero_vanish (hf.rows t (hc.unlocked_lt t htI)) (cnt + 1) (by omega) hzero
  obtain ⟨t, htz, htI, htw⟩ := hreach
  have ht' := hc.unlocked_lt t htI
  -- the slot the code picks
  generalize hav : ((List.range (s.n - 1)).map (fun i =>
    (entryM s.W i (cnt + 1) != 0) && !((lockedPaths s).contains (s.trajs.getD i none)))) = avail
  have havlen : avail.length = s.n - 1 := by rw [← hav]; simp
  have havt : avail[t]'(by omega) = true := by
    subst hav
    simp only [List.getElem_map, List.getElem_range, Bool.and_eq_true, bne_iff_ne, ne_eq,
      Bool.not_eq_true']
    refine ⟨htw, ?_⟩
    have := idle_not_lockedPath hc t htI
    rw [← List.contains_iff_mem] at this
    simpa using this
  have htj_le : avail.findIdx (· == true) ≤ t := by
    by_contra hgt
    have := List.not_of_lt_findIdx (p := (· == true)) (xs := avail) (i := t) (by omega)
    rw [havt] at this
    exact absurd this (by simp)
  generalize htjdef : avail.findIdx (· == true) = tj at htj_le
  have htjlt : tj < avail.length := by omega
  have htjv : avail[tj] = true := by
    have := List.findIdx_getElem (p := (· == true)) (xs := avail) (w := by rw [htjdef]; exact htjlt)
    simp only [htjdef, beq_iff_eq] at this
    exact this
  have htj' : tj < s.n - 1 := by omega
  have htjw : entryM s.W tj (cnt + 1) ≠ 0 ∧ (lockedPaths s).contains (s.trajs.getD tj none) = false := by
    subst hav
    simp only [List.getElem_map, List.getElem_range, Bool.and_eq_true, bne_iff_ne, ne_eq,
      Bool.not_eq_true'] at htjv
    exact htjv
  have htjIdle : s.locks[tj]? = some false := by
    apply unlocked_of_not_locked _ _ (by rw [hc.lenL]; omega)
    intro hl
    have hm := mem_lockedPathsR hc _ htj' hl
    rw [← List.contains_iff_mem] at hm
    rw [hm] at htjw
    exact absurd htjw.2 (by simp)
  -- the row in slot tj is a plus row reaching z
  have hrowt := hf.rows tj htj'
  have htj1 : 1 ≤ tj := by
    by_contra h0
    have h0 : tj = 0 := by omega
    obtain ⟨_, _, hz0⟩ := hrowt.1 h0
    exact htjw.1 (hz0 (cnt + 1) (by omega) (by omega))
  obtain ⟨cntT, hplusT, hcntT⟩ := hrowt.2 htj1
  have hcntT' : cnt + 1 < 1 + cntT := by
    by_contra hge
    exact htjw.1 (hplusT.2.2.2.2 (cnt + 1) (by omega) (by omega))
  -- the step the code takes
  have hstep : sortStep s = .ok (some (swap s e tj)) := by
    unfold sortStep
    simp only []
    rw [if_neg (not_not.mpr hcond), he, hzi]
    rw [if_neg (by omega)]
    rw [hav, htjdef, if_neg (by omega)]
  refine ⟨swap s e tj, hstep, swap_coreR hc e tj heIdle htjIdle (Or.inl (by rw [hcond.2]; decide)), (AuxEqR.swap s e tj).toAux, ?_, ?_⟩
  · obtain ⟨hr, hwt⟩ := swap_rows_wts hf hc.lenW hc.lenT e tj he' htj' (by omega)
    refine ⟨hr, ?_, hwt, hf.wkeys, hf.fkeys, hf.rkeys⟩
    show 0 < permC (idle (swapList s.W e tj) s.locks)
    rw [permC_perm (idle_swap_perm s.W s.locks e tj hWL heIdle htjIdle)]
    exact hf.perm
  · -- the measure
    have heW : e < s.W.length := by rw [hc.lenW]; omega
    have htW : tj < s.W.length := by rw [hc.lenW]; omega
    have hsw := wsum_swap (fun i (r : Row) => i - lastOf r) s.W e tj heW htW (by omega)
    have hge : s.W[e] = s.W.getD e [] := by
      rw [List.getD_eq_getElem?_getD, List.getElem?_eq_getElem heW]; rfl
    have hgt : s.W[tj] = s.W.getD tj [] := by
      rw [List.getD_eq_getElem?_getD, List.getElem?_eq_getElem htW]; rfl
    have hle : lastOf s.W[e] = cnt := by rw [hge]; exact lastOf_plus hplus hcnt
    have hlt : lastOf s.W[tj] = cntT := by rw [hgt]; exact lastOf_plus hplusT hcntT
    simp only [hle, hlt] at hsw
    show wsum (fun i (r : Row) => i - lastOf r) 0 (swapList s.W e tj) < wsum _ 0 s.W
    omega

/-! ### the loop -/

/-- **`sort_trajstate` terminates**: with more fuel than the measure the loop ends, without an
    error, in a state where the loop condition is false. -/
theorem sortTrajstate_terminates : ∀ (fuel : Nat) {s : St} {H : List (Nat × Nat)} {tn tn' : Nat},
    CoreR s H tn' → Fam s tn → mu s < fuel →
    ∃ s' k, sortTrajstate fuel s = .ok (s', k) ∧ CoreR s' H tn' ∧ AuxEq s s' ∧ Fam s' tn ∧
      sortStep s' = .ok none := by
  intro fuel
  induction fuel with
  | zero => intro s H tn tn' _ _ h; omega
  | succ fuel ih =>
    intro s H tn tn' hc hf hmu
    rcases sortStep_progress hc hf with hnone | ⟨s1, hsome, hc1, ha1, hf1, hlt⟩
    · refine ⟨s, 0, ?_, hc, AuxEq.refl s, hf, hnone⟩
      unfold sortTrajstate
      rw [hnone]
    · obtain ⟨s2, k, hrec, hc2, ha2, hf2, hfix⟩ := ih hc1 hf1 (by omega)
      refine ⟨s2, k + 1, ?_, hc2, ha1.trans ha2, hf2, hfix⟩
      unfold sortTrajstate
      rw [hsome]
      simp only [hrec]

/-- whatever the loop returns is a state where the loop condition is false -/
theorem sortTrajstate_fix : ∀ (fuel : Nat) {s s' : St} {k : Nat},
    sortTrajstate fuel s = .ok (s', k) → sortStep s' = .ok none := by
  intro fuel
  induction fuel with
  | zero => intro s s' k h; simp [sortTrajstate] at h
  | succ fuel ih =>
    intro s s' k h
    unfold sortTrajstate at h
    split at h
    · exact absurd h (by simp)
    · rename_i hnone
      simp only [Except.ok.injEq, Prod.mk.injEq] at h
      obtain ⟨rfl, _⟩ := h
      exact hnone
    · split at h
      · exact absurd h (by simp)
      · rename_i s2 k2 hrec
        simp only [Except.ok.injEq, Prod.mk.injEq] at h
        obtain ⟨rfl, _⟩ := h
        exact ih hrec

/-- a state where the loop condition is false after the initiation phase has a non-zero diagonal -/
theorem diag_of_sortStep_none {s : St} (h : sortStep s = .ok none) (hto : s.toinitiate = -1) :
    ∀ i, i < s.n - 1 → entryM s.W i i ≠ 0 := by
  unfold sortStep at h
  simp only [] at h
  split at h
  · rename_i hcond
    intro i hi hzero
    apply hcond
    refine ⟨?_, hto⟩
    rw [List.contains_iff_mem]
    unfold needsToMove
    rw [List.mem_map]
    exact ⟨i, List.mem_range.mpr hi, by simp [hzero]⟩
  · split at h
    · exact absurd h (by simp)
    · split at h
      · exact absurd h (by simp)
      · simp at h

/-- the loop only permutes idle rows: locks unchanged, locked slots keep row and path, the rows
    and the live paths are permuted -/
theorem sortTrajstate_frame : ∀ (fuel : Nat) {s s' : St} {H : List (Nat × Nat)} {tn k : Nat},
    CoreR s H tn → sortTrajstate fuel s = .ok (s', k) →
    s'.locks = s.locks ∧ s'.W.Perm s.W ∧ s'.trajs.Perm s.trajs ∧
    (∀ i : Nat, s.locks[i]? = some true → s'.W[i]? = s.W[i]? ∧ s'.trajs[i]? = s.trajs[i]?) ∧
    s'.wts = s.wts ∧ s'.frac = s.frac ∧ s'.rows = s.rows := by
  intro fuel
  induction fuel with
  | zero => intro s s' H tn k _ h; simp [sortTrajstate] at h
  | succ fuel ih =>
    intro s s' H tn k hc h
    unfold sortTrajstate at h
    split at h
    · exact absurd h (by simp)
    · simp only [Except.ok.injEq, Prod.mk.injEq] at h
      obtain ⟨rfl, _⟩ := h
      exact ⟨rfl, List.Perm.refl _, List.Perm.refl _, fun _ _ => ⟨rfl, rfl⟩, rfl, rfl, rfl⟩
    · rename_i s1 hstep
      split at h
      · exact absurd h (by simp)
      · rename_i s2 k2 hrec
        simp only [Except.ok.injEq, Prod.mk.injEq] at h
        obtain ⟨rfl, _⟩ := h
        obtain ⟨e, t, hs1, heI, htI⟩ := sortStep_some_spec hc hstep
        obtain ⟨hc1, _⟩ := sortStep_coreR hc hstep
        obtain ⟨h1, h2, h3, h4, h5, h6, h7⟩ := ih hc1 hrec
        subst hs1
        have he' := hc.unlocked_lt e heI
        have ht' := hc.unlocked_lt t htI
        refine ⟨h1, h2.trans (Infretis.Perm.C05.swapList_perm _ _ _),
          h3.trans (Infretis.Perm.C05.swapList_perm _ _ _), ?_, h5, h6, h7⟩
        intro i hi
        have hie : i ≠ e := by intro hh; rw [hh, heI] at hi; exact absurd hi (by simp)
        have hit : i ≠ t := by intro hh; rw [hh, htI] at hi; exact absurd hi (by simp)
        obtain ⟨h41, h42⟩ := h4 i hi
        refine ⟨h41.trans ?_, h42.trans ?_⟩
        · show (swapList s.W e t)[i]? = _
          rw [swapList_getElem? _ _ _ _ (by rw [hc.lenW]; omega) (by rw [hc.lenW]; omega),
            if_neg hit, if_neg hie]
        · show (swapList s.trajs e t)[i]? = _
          rw [swapList_getElem? _ _ _ _ (by rw [hc.lenT]; omega) (by rw [hc.lenT]; omega),
            if_neg hit, if_neg hie]

end Infretis.Repex
