import Infretis.Lemmas.RepexC05Sort
/-!
# C05 — `treat_output` and the scheduler events preserve the family invariant

`preSort` is `treat_output` up to (not including) the call of `sort_trajstate`; `treatOutput_eq`
shows `treatOutput` = `preSort` followed by the sort, so "the sort does not fail on the state
`treat_output` hands it" can be stated exactly.
`Inv5 y` = C03's scheduler invariant `Inv y` + `Fam` + "every job records the paths it holds".
-/
namespace Infretis.Repex
open Infretis.Perm Infretis.Perm.C05

/-! ### `treat_output` = `preSort` ; `sort_trajstate` -/

/-- `treat_output` before the re-sorting: per-ensemble loop, "record weights", data rows -/
def preSort (s : St) (job : Job) (status : Status) (newW : List (List Rat)) :
    Except Err (St × Nat × List Nat) :=
  let ws := if status = .acc then newW else job.picked.map (fun _ => [])
  if ws.length ≠ job.picked.length then .error .index else
  match treatOutput.perEns status s s.trajNum (job.picked.zip ws) with
  | .error er => .error er
  | .ok (s1, tn, pnNews) =>
    match recordFrac s1 with
    | .error er => .error er
    | .ok s2 =>
      match (if status = .acc then writeRows s2 job.pnumOld else .ok s2) with
      | .error er => .error er
      | .ok s3 => .ok (s3, tn, pnNews)

theorem treatOutput_eq (s : St) (job : Job) (status : Status) (newW : List (List Rat)) (fuel : Nat) :
    treatOutput s job status newW fuel =
      match preSort s job status newW with
      | .error er => .error er
      | .ok (s3, tn, pnNews) =>
        match sortTrajstate fuel s3 with
        | .error er => .error er
        | .ok (s4, iters) => .ok ({ s4 with trajNum := tn, cworker := job.pin }, pnNews, iters) := by
  unfold treatOutput preSort
  simp only []
  generalize (if status = Status.acc then newW else job.picked.map (fun _ => [])) = ws
  by_cases hl : ws.length ≠ job.picked.length
  · rw [if_pos hl, if_pos hl]
  · rw [if_neg hl, if_neg hl]
    generalize treatOutput.perEns status s s.trajNum (job.picked.zip ws) = r1
    cases r1 with
    | error er => rfl
    | ok v =>
      obtain ⟨s1, tn, pn⟩ := v
      simp only []
      generalize recordFrac s1 = r2
      cases r2 with
      | error er => rfl
      | ok s2 =>
        simp only []
        generalize (if status = Status.acc then writeRows s2 job.pnumOld else Except.ok s2) = r3
        cases r3 with
        | error er => rfl
        | ok s3 => rfl

/-- numbers handed out by an accepted move are the old counter, the next one, … -/
theorem perEns_acc_pns : ∀ (l : List (Picked × List Rat)) {s s' : St} {tn tn' : Nat} {pns : List Nat},
    treatOutput.perEns .acc s tn l = .ok (s', tn', pns) →
    tn' = tn + l.length ∧ pns = List.range' tn l.length := by
  intro l
  induction l with
  | nil =>
    intro s s' tn tn' pns hp
    simp only [treatOutput.perEns, Except.ok.injEq, Prod.mk.injEq] at hp
    obtain ⟨_, rfl, rfl⟩ := hp
    simp
  | cons pw rest ih =>
    intro s s' tn tn' pns hp
    obtain ⟨p, w⟩ := pw
    unfold treatOutput.perEns at hp
    simp only [↓reduceIte] at hp
    split at hp
    · exact absurd hp (by simp)
    split at hp
    · exact absurd hp (by simp)
    rename_i s4 tn4 pns4 hrec
    simp only [Except.ok.injEq, Prod.mk.injEq] at hp
    obtain ⟨_, rfl, rfl⟩ := hp
    obtain ⟨h1, h2⟩ := ih hrec
    subst h1 h2
    refine ⟨by simp only [List.length_cons]; omega, ?_⟩
    simp [List.range'_succ]

theorem map_slotOf_zip (ps : List Picked) (ws : List (List Rat)) (h : ws.length = ps.length) :
    (ps.zip ws).map (fun pw => slotOf pw.1) = ps.map slotOf := by
  have : (ps.zip ws).map (fun pw => slotOf pw.1) = ((ps.zip ws).map Prod.fst).map slotOf := by
    rw [List.map_map]; rfl
  rw [this, List.map_fst_zip (by omega)]

/-- **`treat_output` up to the sort** releases the job's slots and keeps `Core` and `Fam` -/
theorem preSort_inv {s s3 : St} {H : List (Nat × Nat)} (job : Job) (status : Status)
    (newW : List (List Rat)) (tn : Nat) (pns : List Nat)
    (hc : CoreR s (heldJob job ++ H) s.trajNum) (hf : Fam s s.trajNum)
    (hge : ∀ p ∈ job.picked, -1 ≤ p.ens) (hold : job.pnumOld = job.picked.map (·.pn))
    (hvec : status = .acc → ∀ pw ∈ job.picked.zip newW, VecOk s.n pw.1.ens pw.2)
    (hp : preSort s job status newW = .ok (s3, tn, pns)) :
    CoreR s3 H tn ∧ Fam s3 tn ∧ AuxEqR s s3 ∧ s.trajNum ≤ tn ∧
      (status = .acc → ∀ q ∈ pns, s.trajNum ≤ q ∧ q < tn) := by
  unfold preSort at hp
  simp only [] at hp
  generalize hws : (if status = Status.acc then newW else job.picked.map (fun _ => [])) = ws at hp
  split at hp
  · exact absurd hp (by simp)
  rename_i hlen
  have hlen := Classical.not_not.mp hlen
  split at hp
  · exact absurd hp (by simp)
  rename_i s1 tn1 pnNews hper
  split at hp
  · exact absurd hp (by simp)
  rename_i s2 hrec
  split at hp
  · exact absurd hp (by simp)
  rename_i s3' hwr
  simp only [Except.ok.injEq, Prod.mk.injEq] at hp
  obtain ⟨rfl, rfl, rfl⟩ := hp
  have hfst : (job.picked.zip ws).map Prod.fst = job.picked := List.map_fst_zip (by omega)
  have h0 : CoreR s (heldPicked ((job.picked.zip ws).map Prod.fst) ++ H) s.trajNum := by
    rw [hfst]; exact hc
  obtain ⟨hc1, ha1⟩ := perEns_coreR status _ h0 hper
  have hvec' : status = .acc → ∀ pw ∈ job.picked.zip ws, VecOk s.n pw.1.ens pw.2 := by
    intro ha
    have : ws = newW := by rw [← hws, if_pos ha]
    rw [this]; exact hvec ha
  obtain ⟨hf1, hle⟩ := perEns_fam status _ h0 hf
    (fun pw hpw => hge pw.1 (by
      have := List.mem_map_of_mem (f := Prod.fst) hpw
      rw [hfst] at this; exact this))
    hvec' hper
  obtain ⟨hce2, ha2⟩ := recordFrac_frameR hrec
  have hc2 := hc1.congr hce2
  have hf2 := recordFrac_fam hf1 hrec
  by_cases hacc : status = .acc
  · rw [if_pos hacc] at hwr
    obtain ⟨hce3, ha3⟩ := writeRows_frameR _ hwr
    have hc3 := hc2.congr hce3
    subst hacc
    have hheld : ∀ p ∈ job.picked, slotOf p < s.n - 1 ∧ s.trajs[slotOf p]? = some (some p.pn) ∧
        p.pn < s.trajNum := by
      intro p hp
      have hm : (slotOf p, p.pn) ∈ heldJob job ++ H :=
        List.mem_append_left _ (List.mem_map.mpr ⟨p, hp, rfl⟩)
      obtain ⟨h1, h2, _⟩ := hc.heldOk _ _ hm
      obtain ⟨q, hq, hqlt⟩ := hc.live _ h1
      rw [h2] at hq
      have : q = p.pn := by simpa using hq.symm
      exact ⟨h1, h2, by omega⟩
    have hf3 : Fam s3' tn1 := by
      apply writeRows_fam job.pnumOld hf2 _ _ hwr
      · intro pn hpn
        rw [hold] at hpn
        obtain ⟨p, hp, rfl⟩ := List.mem_map.mp hpn
        have := (hheld p hp).2.2
        omega
      · intro i q hi hq hmem
        rw [hold] at hmem
        obtain ⟨p, hp, hpq⟩ := List.mem_map.mp hmem
        obtain ⟨h1, h2, h3⟩ := hheld p hp
        rw [hce2.trajs] at hq
        rcases perEns_acc_trajs _ hper i q hq with hq1 | ⟨hq1, hq2⟩
        · omega
        · rw [← hpq] at hq1
          rw [hce2.n, ha1.n] at hi
          have := hc.inj i (slotOf p) p.pn hi h1 hq1 h2
          apply hq2
          rw [map_slotOf_zip _ _ hlen, this]
          exact List.mem_map.mpr ⟨p, hp, rfl⟩
    refine ⟨hc3, hf3, (ha1.trans ha2).trans ha3, hle, ?_⟩
    intro _ q hq
    obtain ⟨h1, h2⟩ := perEns_acc_pns _ hper
    subst h2
    rw [List.mem_range'_1] at hq
    omega
  · rw [if_neg hacc] at hwr
    simp only [Except.ok.injEq] at hwr
    subst hwr
    exact ⟨hc2, hf2, ha1.trans ha2, hle, fun h => absurd h hacc⟩

/-- `preSort` keeps "idle slots have a non-zero diagonal while recorded jobs wait for re-issue" -/
theorem preSort_diagR {s s3 : St} {H : List (Nat × Nat)} {tn0 : Nat} (job : Job) (status : Status)
    (newW : List (List Rat)) (tn : Nat) (pns : List Nat) (hc : CoreR s H tn0) (hd : DiagR s)
    (hp : preSort s job status newW = .ok (s3, tn, pns)) : DiagR s3 := by
  unfold preSort at hp
  simp only [] at hp
  generalize (if status = Status.acc then newW else job.picked.map (fun _ => [])) = ws at hp
  split at hp
  · exact absurd hp (by simp)
  split at hp
  · exact absurd hp (by simp)
  rename_i s1 tn1 pnNews hper
  split at hp
  · exact absurd hp (by simp)
  rename_i s2 hrec
  split at hp
  · exact absurd hp (by simp)
  rename_i s3' hwr
  simp only [Except.ok.injEq, Prod.mk.injEq] at hp
  obtain ⟨rfl, _, _⟩ := hp
  obtain ⟨_, g2, g3, g4⟩ := perEns_idle status _ (by rw [hc.lenW, hc.lenL]) hper
  obtain ⟨hce2, _⟩ := recordFrac_frameR hrec
  have hce3 : CoreEqR s2 s3' := by
    split at hwr
    · exact (writeRows_frameR _ hwr).1
    · simp only [Except.ok.injEq] at hwr
      subst hwr; exact CoreEqR.refl _
  have hce := hce2.trans hce3
  intro h0 hne i hi
  rw [hce.toinitiate, g2] at h0
  rw [hce.locked0, g3] at hne
  rw [hce.locks] at hi
  rw [hce.W]
  rcases g4 i hi with ⟨h1, h2⟩ | h1
  · rw [entryM_congr _ _ _ _ h2]
    exact hd h0 hne i h1
  · exact h1

/-- during the initiation phase (`toinitiate ≠ -1`) `sort_trajstate` does nothing -/
theorem sortTrajstate_noop (fuel : Nat) {s s' : St} {k : Nat} (hto : s.toinitiate ≠ -1)
    (h : sortTrajstate fuel s = .ok (s', k)) : s' = s := by
  cases fuel with
  | zero => simp [sortTrajstate] at h
  | succ fuel =>
    have hnone : sortStep s = .ok none := by
      unfold sortStep
      simp only []
      rw [if_pos (fun hh => hto hh.2)]
    unfold sortTrajstate at h
    rw [hnone] at h
    simp only [Except.ok.injEq, Prod.mk.injEq] at h
    exact h.1.symm

/-- **the sort never fails on the state `treat_output` hands it** (any number of workers):
    with the scheduler's fuel `n² + 4` it ends, in a state with the invariants, where the loop
    condition is false -/
theorem sort_after_preSort {s3 : St} {H : List (Nat × Nat)} {tn : Nat} (fuel : Nat)
    (hc : CoreR s3 H tn) (hf : Fam s3 tn) (hfuel : s3.n * s3.n < fuel) :
    ∃ s4 k, sortTrajstate fuel s3 = .ok (s4, k) ∧ CoreR s4 H tn ∧ AuxEq s3 s4 ∧ Fam s4 tn ∧
      sortStep s4 = .ok none :=
  sortTrajstate_terminates fuel hc hf (Nat.lt_of_le_of_lt (mu_le s3 hc.lenW) hfuel)

/-- **`treat_output`** keeps the invariants; afterwards (initiation over) every diagonal weight is
    non-zero; numbers handed out by an accepted move were never used -/
theorem treatOutput_inv {s s' : St} {H : List (Nat × Nat)} (job : Job) (status : Status)
    (newW : List (List Rat)) (fuel : Nat) (pns : List Nat) (it : Nat)
    (hc : CoreR s (heldJob job ++ H) s.trajNum) (hf : Fam s s.trajNum) (hd : DiagR s)
    (hge : ∀ p ∈ job.picked, -1 ≤ p.ens) (hold : job.pnumOld = job.picked.map (·.pn))
    (hvec : status = .acc → ∀ pw ∈ job.picked.zip newW, VecOk s.n pw.1.ens pw.2)
    (ht : treatOutput s job status newW fuel = .ok (s', pns, it)) :
    Fam s' s'.trajNum ∧ s.trajNum ≤ s'.trajNum ∧
      (s.toinitiate = -1 → ∀ i, i < s'.n - 1 → entryM s'.W i i ≠ 0) ∧
      (status = .acc → ∀ q ∈ pns, s.trajNum ≤ q ∧ q < s'.trajNum) ∧ DiagR s' := by
  rw [treatOutput_eq] at ht
  split at ht
  · exact absurd ht (by simp)
  rename_i s3 tn pnNews hpre
  split at ht
  · exact absurd ht (by simp)
  rename_i s4 iters hsort
  simp only [Except.ok.injEq, Prod.mk.injEq] at ht
  obtain ⟨rfl, rfl, _⟩ := ht
  obtain ⟨hc3, hf3, ha3, hle, hfresh⟩ := preSort_inv job status newW tn pnNews hc hf hge hold hvec hpre
  obtain ⟨hc4, ha4⟩ := sortTrajstate_coreR fuel hc3 hsort
  have hfix := sortTrajstate_fix fuel hsort
  -- Fam after the sort: re-run the loop with enough fuel and compare
  have hf4 : Fam s4 tn := by
    obtain ⟨s4', k', hrun, _, _, hf4', _⟩ := sortTrajstate_terminates (mu s3 + 1) hc3 hf3 (by omega)
    -- the loop is deterministic: more fuel gives the same result
    have hmono : ∀ (f1 f2 : Nat) (x x1 x2 : St) (k1 k2 : Nat), sortTrajstate f1 x = .ok (x1, k1) →
        sortTrajstate f2 x = .ok (x2, k2) → x1 = x2 := by
      intro f1
      induction f1 with
      | zero => intro f2 x x1 x2 k1 k2 h1; simp [sortTrajstate] at h1
      | succ f1 ih =>
        intro f2 x x1 x2 k1 k2 h1 h2
        cases f2 with
        | zero => simp [sortTrajstate] at h2
        | succ f2 =>
          unfold sortTrajstate at h1 h2
          cases hst : sortStep x with
          | error er => rw [hst] at h1; simp at h1
          | ok o =>
            cases o with
            | none =>
              rw [hst] at h1 h2
              simp only [Except.ok.injEq, Prod.mk.injEq] at h1 h2
              rw [← h1.1, ← h2.1]
            | some x' =>
              rw [hst] at h1 h2
              simp only [] at h1 h2
              cases hr1 : sortTrajstate f1 x' with
              | error er => rw [hr1] at h1; simp at h1
              | ok r1 =>
                cases hr2 : sortTrajstate f2 x' with
                | error er => rw [hr2] at h2; simp at h2
                | ok r2 =>
                  rw [hr1] at h1; rw [hr2] at h2
                  simp only [Except.ok.injEq, Prod.mk.injEq] at h1 h2
                  rw [← h1.1, ← h2.1]
                  exact ih f2 x' r1.1 r2.1 r1.2 r2.2 hr1 hr2
    have := hmono _ _ _ _ _ _ _ hrun hsort
    subst this
    exact hf4'
  have hd3 := preSort_diagR job status newW tn pnNews hc hd hpre
  refine ⟨hf4.congr ⟨rfl, rfl, rfl, rfl, rfl, rfl, rfl⟩, hle, ?_, hfresh, ?_⟩
  · intro hto i hi
    have hto4 : s4.toinitiate = -1 := by rw [ha4.toinitiate, ha3.toinitiate]; exact hto
    exact diag_of_sortStep_none hfix hto4 i hi
  · intro h0
    have h03 : s3.toinitiate ≠ -1 := by
      have : s4.toinitiate = s3.toinitiate := ha4.toinitiate
      have h0' : 0 ≤ s4.toinitiate := h0
      omega
    have := sortTrajstate_noop fuel h03 hsort
    subst this
    exact hd3 h0

/-! ### the scheduler invariant -/

structure Inv5 (y : Sys) : Prop where
  inv : InvR y
  fam : Fam y.s y.s.trajNum
  diagR : DiagR y.s
  pnum : ∀ j ∈ y.jobs, j.pnumOld = j.picked.map (·.pn)

/-- the outcomes an event brings in are in C02's weight family: for an accepted move, the new
    weight vector of every picked ensemble -/
def EvOk (y : Sys) : Ev → Prop
  | .step k status newW _ => status = .acc → ∀ job, y.jobs[k]? = some job →
      ∀ pw ∈ job.picked.zip newW, VecOk y.s.n pw.1.ens pw.2
  | _ => True

/-- `initiate()` touches `cworker` and `toinitiate` only, and never switches the re-issue phase on -/
theorem initiate_frame (s : St) : (initiate s).1.n = s.n ∧ (initiate s).1.W = s.W ∧
    (initiate s).1.trajs = s.trajs ∧ (initiate s).1.locks = s.locks ∧
    (initiate s).1.locked0 = s.locked0 ∧ (0 ≤ (initiate s).1.toinitiate → 0 ≤ s.toinitiate) ∧
    FamEq s (initiate s).1 ∧ (initiate s).1.trajNum = s.trajNum := by
  unfold initiate
  split
  · exact ⟨rfl, rfl, rfl, rfl, rfl, fun h => h, FamEq.refl s, rfl⟩
  · refine ⟨rfl, rfl, rfl, rfl, rfl, ?_, ⟨rfl, rfl, rfl, rfl, rfl, rfl, rfl⟩, rfl⟩
    simp only []
    intro h
    split at h <;> omega

theorem loop_frame (s : St) : CoreEqR s (loop s).1 ∧ FamEq s (loop s).1 ∧
    (loop s).1.trajNum = s.trajNum ∧ (loop s).1.toinitiate = s.toinitiate := by
  unfold loop
  split
  · exact ⟨CoreEqR.refl s, FamEq.refl s, rfl, rfl⟩
  · exact ⟨⟨rfl, rfl, rfl, rfl, rfl, rfl⟩, ⟨rfl, rfl, rfl, rfl, rfl, rfl, rfl⟩, rfl, rfl⟩

theorem DiagR.congr {s s' : St} (h : DiagR s) (hW : s'.W = s.W) (hL : s'.locks = s.locks)
    (h0 : s'.locked0 = s.locked0) (hto : 0 ≤ s'.toinitiate → 0 ≤ s.toinitiate) : DiagR s' := by
  intro h1 h2 i hi
  rw [hW]
  exact h (hto h1) (by rw [← h0]; exact h2) i (by rw [← hL]; exact hi)

theorem prep_trajNum {s s' : St} {H : List (Nat × Nat)} (prev : Option Nat) (o : PickOutcome) (saved : Nat)
    (job : Job) (ds : List Draw) (hc : CoreR s H s.trajNum)
    (h : prep s prev o saved = .ok (s', job, ds)) : s'.trajNum = s.trajNum := by
  unfold prep at h
  simp only [] at h
  generalize hpin : (if s.toinitiate ≥ 0 then some s.cworker else prev) = pin? at h
  split at h
  · exact absurd h (by simp)
  rename_i s1 ps ds1 hr
  have ha : AuxEq s s1 := by
    split at hr
    · rename_i h0
      exact (pickLock_coreR hc h0 o saved ps ds1 hr).2.1
    · rename_i h0
      exact (pick_coreR hc o ps ds1 hr (Or.inl (by omega))).2.1.toAux
  split at h
  · exact absurd h (by simp)
  split at h
  · exact absurd h (by simp)
  split at h
  · exact absurd h (by simp)
  simp only [Except.ok.injEq, Prod.mk.injEq] at h
  obtain ⟨rfl, _, _⟩ := h
  exact ha.trajNum

theorem start_preserves5 {y y' : Sys} (o : PickOutcome) (saved : Nat) (hi : Inv5 y)
    (h : sysStep y (.start o saved) = .ok y') : Inv5 y' ∧ y'.s.trajNum = y.s.trajNum := by
  have hinv := start_preservesR o saved hi.inv h
  unfold sysStep at h
  obtain ⟨e1, e2, e3, e4, e5, e6, hfe, htn⟩ := initiate_frame y.s
  generalize hin : initiate y.s = r at h e1 e2 e3 e4 e5 e6 hfe htn
  obtain ⟨s1, go⟩ := r
  simp only [] at h e1 e2 e3 e4 e5 e6 hfe htn
  split at h
  · exact absurd h (by simp)
  split at h
  · exact absurd h (by simp)
  rename_i s2 job ds hprep
  simp only [Except.ok.injEq] at h
  subst h
  have hc1 : CoreR s1 (held y.jobs) s1.trajNum := by
    rw [htn]; exact hi.inv.core.congrTo e1 e2 e3 e4 e5 e6
  have hf1 : Fam s1 s1.trajNum := by rw [htn]; exact hi.fam.congr hfe
  have hd1 : DiagR s1 := hi.diagR.congr e2 e4 e5 e6
  obtain ⟨hf2, hd2, hpn⟩ := prep_fam hc1 hf1 hd1 none o saved job ds hprep
  have htn2 := prep_trajNum none o saved job ds hc1 hprep
  refine ⟨⟨hinv, ?_, hd2, ?_⟩, ?_⟩
  · show Fam s2 s2.trajNum
    rw [htn2]; exact hf2
  · intro j hj
    rcases List.mem_append.mp hj with hj | hj
    · exact hi.pnum j hj
    · simp only [List.mem_singleton] at hj
      subst hj; exact hpn
  · show s2.trajNum = y.s.trajNum
    rw [htn2, htn]

theorem initDone_preserves5 {y y' : Sys} (hi : Inv5 y) (h : sysStep y .initDone = .ok y') :
    Inv5 y' ∧ y'.s.trajNum = y.s.trajNum := by
  have hinv := initDone_preservesR hi.inv h
  unfold sysStep at h
  obtain ⟨e1, e2, e3, e4, e5, e6, hfe, htn⟩ := initiate_frame y.s
  generalize hin : initiate y.s = r at h e1 e2 e3 e4 e5 e6 hfe htn
  obtain ⟨s1, go⟩ := r
  simp only [] at h e1 e2 e3 e4 e5 e6 hfe htn
  split at h
  · exact absurd h (by simp)
  simp only [Except.ok.injEq] at h
  subst h
  refine ⟨⟨hinv, ?_, hi.diagR.congr e2 e4 e5 e6, hi.pnum⟩, htn⟩
  show Fam s1 s1.trajNum
  rw [htn]; exact hi.fam.congr hfe

theorem step_preserves5 {y y' : Sys} (k : Nat) (status : Status) (newW : List (List Rat))
    (o : PickOutcome) (hi : Inv5 y) (hev : EvOk y (.step k status newW o))
    (h : sysStep y (.step k status newW o) = .ok y') :
    Inv5 y' ∧ y.s.trajNum ≤ y'.s.trajNum ∧
    ∃ (s2 : St) (job : Job) (pns : List Nat) (it : Nat),
      y.jobs[k]? = some job ∧
      treatOutput (loop y.s).1 job status newW (sortFuel (loop y.s).1) = .ok (s2, pns, it) ∧
      CoreR s2 (held (y.jobs.eraseIdx k)) s2.trajNum ∧ Fam s2 s2.trajNum ∧
      s2.trajNum = y'.s.trajNum ∧
      (y.s.toinitiate = -1 → ∀ i, i < s2.n - 1 → entryM s2.W i i ≠ 0) ∧
      (status = .acc → ∀ q ∈ pns, y.s.trajNum ≤ q ∧ q < s2.trajNum) ∧
      (∃ i : Nat, s2.locks[i]? = some false) ∧
      (if s2.cstep + s2.workers ≤ s2.tsteps then
          ∃ job' ds, prep s2 (some job.pin) o = .ok (y'.s, job', ds)
        else y'.s = s2) := by
  have hinv := step_preservesR k status newW o hi.inv h
  unfold sysStep at h
  obtain ⟨hce, hfe, htn, hto⟩ := loop_frame y.s
  generalize hloop : loop y.s = r at h hce hfe htn hto
  obtain ⟨s1, go⟩ := r
  simp only [] at h hce hfe htn hto
  split at h
  · exact absurd h (by simp)
  split at h
  · exact absurd h (by simp)
  rename_i job hjob
  split at h
  · exact absurd h (by simp)
  rename_i s2 pns it htreat
  have hperm := held_perm_erase y.jobs k job hjob
  have hc1 : CoreR s1 (heldJob job ++ held (y.jobs.eraseIdx k)) s1.trajNum := by
    rw [htn]
    exact (hi.inv.core.congr hce).perm hperm
  have hf1 : Fam s1 s1.trajNum := by rw [htn]; exact hi.fam.congr hfe
  have hd1 : DiagR s1 := hi.diagR.congr hce.W hce.locks hce.locked0 (by rw [hce.toinitiate]; exact fun h => h)
  have hjmem : job ∈ y.jobs := List.mem_of_getElem? hjob
  have hjok := hi.inv.jobs job hjmem
  have hvec : status = .acc → ∀ pw ∈ job.picked.zip newW, VecOk s1.n pw.1.ens pw.2 := by
    intro ha
    rw [hce.n]
    exact hev ha job hjob
  obtain ⟨hc2, _, _, _, _, _, hn2, _, _, _⟩ := treatOutput_coreR job status newW _ pns it hc1 htreat
  have hidle : ∃ i : Nat, s2.locks[i]? = some false := by
    have hne : job.picked ≠ [] := by
      rcases hjok.shape with h1 | h1
      · intro h0; rw [h0] at h1; simp at h1
      · intro h0; rw [h0] at h1; simp at h1
    obtain ⟨p, hp⟩ := List.exists_mem_of_ne_nil _ hne
    have hm : (slotOf p, p.pn) ∈ heldJob job ++ held (y.jobs.eraseIdx k) :=
      List.mem_append_left _ (List.mem_map.mpr ⟨p, hp, rfl⟩)
    have hlt := (hc1.heldOk _ _ hm).1
    have hnd := hc1.nodup
    rw [List.map_append, List.nodup_append] at hnd
    have hnot : slotOf p ∉ (held (y.jobs.eraseIdx k)).map Prod.fst := by
      intro hmem
      exact hnd.2.2 (slotOf p)
        (List.mem_map.mpr ⟨(slotOf p, p.pn), List.mem_map.mpr ⟨p, hp, rfl⟩, rfl⟩) (slotOf p) hmem rfl
    refine ⟨slotOf p, unlocked_of_not_locked _ _ (by rw [hc2.lenL, hn2]; omega) ?_⟩
    intro hl
    exact hnot ((hc2.busy (slotOf p) (by rw [hn2]; exact hlt)).mp hl)
  obtain ⟨hf2, hle, hdiag, hfresh, hd2⟩ := treatOutput_inv job status newW _ pns it hc1 hf1 hd1
    hjok.ensGe (hi.pnum job hjmem) hvec htreat
  rw [htn] at hle hfresh
  rw [hto] at hdiag
  have hrest : ∀ j ∈ y.jobs.eraseIdx k, j ∈ y.jobs := fun j hj => List.mem_of_mem_eraseIdx hj
  split at h
  · rename_i hcont
    split at h
    · exact absurd h (by simp)
    rename_i s3 job' ds hprep
    simp only [Except.ok.injEq] at h
    subst h
    obtain ⟨hf3, hd3, hpn⟩ := prep_fam hc2 hf2 hd2 (some job.pin) o 0 job' ds hprep
    have htn3 := prep_trajNum (some job.pin) o 0 job' ds hc2 hprep
    refine ⟨⟨hinv, ?_, hd3, ?_⟩, ?_, s2, job, pns, it, hjob, htreat, hc2, hf2, htn3.symm, hdiag, hfresh, hidle, ?_⟩
    · show Fam s3 s3.trajNum
      rw [htn3]; exact hf3
    · intro j hj
      rcases List.mem_append.mp hj with hj | hj
      · exact hi.pnum j (hrest j hj)
      · simp only [List.mem_singleton] at hj
        subst hj; exact hpn
    · show y.s.trajNum ≤ s3.trajNum
      rw [htn3]; exact hle
    · rw [if_pos hcont]
      exact ⟨job', ds, hprep⟩
  · rename_i hcont
    simp only [Except.ok.injEq] at h
    subst h
    refine ⟨⟨hinv, hf2, hd2, fun j hj => hi.pnum j (hrest j hj)⟩, hle, s2, job, pns, it, hjob, htreat, hc2,
      hf2, rfl, hdiag, hfresh, hidle, ?_⟩
    rw [if_neg hcont]

theorem sysStep_preserves5 {y y' : Sys} (ev : Ev) (hi : Inv5 y) (hev : EvOk y ev)
    (h : sysStep y ev = .ok y') : Inv5 y' ∧ y.s.trajNum ≤ y'.s.trajNum := by
  cases ev with
  | start o saved =>
    obtain ⟨h1, h2⟩ := start_preserves5 o saved hi h
    exact ⟨h1, by omega⟩
  | step k status newW o =>
    obtain ⟨h1, h2, _⟩ := step_preserves5 k status newW o hi hev h
    exact ⟨h1, h2⟩
  | initDone =>
    obtain ⟨h1, h2⟩ := initDone_preserves5 hi h
    exact ⟨h1, by omega⟩

/-- a history whose outcomes stay in the weight family (checked along the run) -/
def HistOk : Sys → List Ev → Prop
  | _, [] => True
  | y, ev :: rest => EvOk y ev ∧ ∀ y', sysStep y ev = .ok y' → HistOk y' rest

theorem run_preserves5 : ∀ (evs : List Ev) {y y' : Sys}, Inv5 y → HistOk y evs → run y evs = .ok y' →
    Inv5 y' ∧ y.s.trajNum ≤ y'.s.trajNum := by
  intro evs
  induction evs with
  | nil =>
    intro y y' hi _ h
    simp only [run, Except.ok.injEq] at h
    subst h; exact ⟨hi, Nat.le_refl _⟩
  | cons ev rest ih =>
    intro y y' hi hh h
    unfold run at h
    split at h
    · exact absurd h (by simp)
    · rename_i y1 hstep
      obtain ⟨h1, h2⟩ := sysStep_preserves5 ev hi hh.1 hstep
      obtain ⟨h3, h4⟩ := ih h1 (hh.2 y1 hstep) h
      exact ⟨h3, by omega⟩

end Infretis.Repex
