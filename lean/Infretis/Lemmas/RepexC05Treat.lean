import Infretis.Lemmas.RepexC05Inv
/-!
# C05 — `add_traj`, the per-ensemble loop of `treat_output`, "record weights" and
`write_to_pathens` preserve the family invariant `Fam`
-/
namespace Infretis.Repex
open Infretis.Perm Infretis.Perm.C05

/-- `padValid` without the state: `ens ≥ 0` gets a leading zero (the `[0-]` column), `[0-]` gets
    `n - 1` trailing zeros -/
def padN (n : Nat) (ens : Int) (valid : List Rat) : List Rat :=
  if ens ≥ 0 then List.replicate off 0 ++ valid else valid ++ List.replicate (n - off) 0

theorem padValid_eq_padN (s : St) (ens : Int) (valid : List Rat) :
    padValid s ens valid = padN s.n ens valid := rfl

/-- an outcome weight vector (un-padded `path.weights`) for ensemble `ens` of an `n`-slot state
    is in C02's family -/
def VecOk (n : Nat) (ens : Int) (w : List Rat) : Prop := RowOk n (ens + 1).toNat (padN n ens w)

/-! ### add_traj -/

theorem addTraj_ok5 {s s' : St} {ens : Int} {pn : Nat} {valid : List Rat}
    (h : addTraj s ens pn valid = .ok s') :
    s.locks[(ens + 1).toNat]? = some true ∧ (padValid s ens valid).getD (ens + 1).toNat 0 ≠ 0 ∧
      s' = { s with trajs := s.trajs.set (ens + 1).toNat (some pn),
                    W := s.W.set (ens + 1).toNat (padValid s ens valid),
                    locks := s.locks.set (ens + 1).toNat false } := by
  unfold addTraj at h
  simp only [] at h
  have hoff : (ens + (off : Int)).toNat = (ens + 1).toNat := by simp [off]
  rw [hoff] at h
  split at h
  · exact absurd h (by simp)
  rename_i x hx
  split at h
  · exact absurd h (by simp)
  rename_i hx0
  split at h
  · exact absurd h (by simp)
  split at h
  · exact absurd h (by simp)
  obtain ⟨hl, hs⟩ := unlock_ok h
  refine ⟨hl, ?_, hs⟩
  rw [List.getD_eq_getElem?_getD, hx]
  exact hx0

theorem getD_set_W (W : Mat) (e i : Nat) (v : Row) (he : e < W.length) :
    (W.set e v).getD i [] = if i = e then v else W.getD i [] := by
  simp only [List.getD_eq_getElem?_getD, List.getElem?_set]
  by_cases h : e = i
  · subst h; simp [he]
  · rw [if_neg h, if_neg (fun h' => h h'.symm)]

/-- **`add_traj`** of a family row with recorded weights into the locked slot `e` -/
theorem addTraj_fam {s s' : St} {H : List (Nat × Nat)} {tn tn0 : Nat} (e pnOld pn : Nat)
    (ens : Int) (valid : List Rat)
    (hc : CoreR s ((e, pnOld) :: H) tn0) (hf : Fam s tn) (ha : addTraj s ens pn valid = .ok s')
    (he : (ens + 1).toNat = e) (hens : -1 ≤ ens)
    (hrow : RowOk s.n e (padValid s ens valid)) (hlook : s.wts.lookup pn = some valid) :
    Fam s' tn := by
  obtain ⟨hl, hv, hs⟩ := addTraj_ok5 ha
  rw [he] at hl hv hs
  have he' : e < s.n - 1 := (hc.heldOk e pnOld (List.mem_cons_self ..)).1
  have heW : e < s.W.length := by rw [hc.lenW]; omega
  have heT : e < s.trajs.length := by rw [hc.lenT]; omega
  have heL : e < s.locks.length := by rw [hc.lenL]; omega
  subst hs
  have hrows : ∀ i, i < s.n - 1 → RowOk s.n i ((s.W.set e (padValid s ens valid)).getD i []) := by
    intro i hi
    rw [getD_set_W _ _ _ _ heW]
    split
    · rename_i hie; subst hie; exact hrow
    · exact hf.rows i hi
  refine ⟨hrows, ?_, ?_, hf.wkeys, hf.fkeys, hf.rkeys⟩
  · -- the idle block grows by a row and column with a positive diagonal entry
    show 0 < permC (idle (s.W.set e (padValid s ens valid)) (s.locks.set e false))
    have hWL : s.W.length = s.locks.length := by rw [hc.lenW, hc.lenL]
    have hnn : NonNegM (idle (s.W.set e (padValid s ens valid)) (s.locks.set e false)) := by
      apply rows_nonneg s.n
      · show (s.locks.set e false).length = s.n
        rw [List.length_set]; exact hc.lenL
      · show (s.locks.set e false)[s.n - 1]? = some true
        rw [List.getElem?_set_ne (by omega)]; exact hc.ghost
      · exact hrows
    have hlen : (idle (s.W.set e (padValid s ens valid)) (s.locks.set e false)).length
        = nIdle (s.locks.set e false) := idle_length _ _ (by simp [hWL])
    have hr := rank_lt_nIdle_unlock s.locks e hl
    have hge := permC_ge_term _ hnn (rank s.locks e) (rank s.locks e) (by rw [hlen]; exact hr)
      (by rw [hlen]; exact hr)
    rw [idle_unlock_minor s.W s.locks e _ hWL hl, idle_unlock_entry s.W s.locks e _ hWL hl] at hge
    have hv0 : 0 ≤ (padValid s ens valid).getD e 0 := by
      rw [List.getD_eq_getElem?_getD]
      cases hx : (padValid s ens valid)[e]? with
      | none => simp
      | some x => exact hrow.nonneg x (List.mem_of_getElem? hx)
    have hvpos : 0 < (padValid s ens valid).getD e 0 := lt_of_le_of_ne hv0 (Ne.symm hv)
    exact lt_of_lt_of_le (mul_pos hvpos hf.perm) hge
  · intro i q hi hq
    change (s.trajs.set e (some pn))[i]? = some (some q) at hq
    show ∃ w, s.wts.lookup q = some w ∧ _ = (s.W.set e (padValid s ens valid)).getD i []
    rw [getD_set_W _ _ _ _ heW]
    by_cases hie : i = e
    · subst hie
      rw [List.getElem?_set_self heT] at hq
      have : q = pn := by simpa using hq.symm
      subst this
      refine ⟨valid, hlook, ?_⟩
      rw [if_pos rfl]
      have : ((i : Int) - 1) = ens := by omega
      rw [this]
      rfl
    · rw [List.getElem?_set_ne (fun h => hie h.symm)] at hq
      rw [if_neg hie]
      exact hf.wts i q hi hq

/-! ### association lists -/

theorem lookup_append_of_some {β : Type} (l₁ l₂ : List (Nat × β)) (k : Nat) (v : β)
    (h : l₁.lookup k = some v) : (l₁ ++ l₂).lookup k = some v := by
  rw [List.lookup_append, h]; rfl

theorem lookup_eq_none_of_not_mem {β : Type} (l : List (Nat × β)) (k : Nat)
    (h : k ∉ l.map Prod.fst) : l.lookup k = none := by
  induction l with
  | nil => rfl
  | cons x l ih =>
    obtain ⟨a, b⟩ := x
    simp only [List.map_cons, List.mem_cons, not_or] at h
    rw [List.lookup_cons]
    have : (k == a) = false := by simpa using h.1
    rw [this]
    exact ih h.2

theorem lookup_append_new {β : Type} (l : List (Nat × β)) (k : Nat) (v : β)
    (h : k ∉ l.map Prod.fst) : (l ++ [(k, v)]).lookup k = some v := by
  rw [List.lookup_append, lookup_eq_none_of_not_mem l k h]
  simp

theorem lookup_filter_ne {β : Type} (l : List (Nat × β)) (pn k : Nat) (h : k ≠ pn) :
    (l.filter (fun x => x.1 != pn)).lookup k = l.lookup k := by
  induction l with
  | nil => rfl
  | cons x l ih =>
    obtain ⟨a, b⟩ := x
    rw [List.filter_cons]
    by_cases hap : a = pn
    · subst hap
      have hka : (k == a) = false := by simpa using h
      simp only [bne_self_eq_false, Bool.false_eq_true, ↓reduceIte, List.lookup_cons, hka]
      exact ih
    · have : (a != pn) = true := by simpa using hap
      simp only [this, ↓reduceIte, List.lookup_cons]
      rw [ih]

theorem keys_filter_subset {β : Type} (l : List (Nat × β)) (p : Nat × β → Bool) (k : Nat)
    (h : k ∈ (l.filter p).map Prod.fst) : k ∈ l.map Prod.fst := by
  obtain ⟨x, hx, rfl⟩ := List.mem_map.mp h
  exact List.mem_map.mpr ⟨x, (List.mem_filter.mp hx).1, rfl⟩

/-! ### the per-ensemble loop of `treat_output` -/

theorem perEns_fam (status : Status) : ∀ (l : List (Picked × List Rat)) {s s' : St}
    {H : List (Nat × Nat)} {tn tn' : Nat} {pns : List Nat},
    CoreR s (heldPicked (l.map Prod.fst) ++ H) tn → Fam s tn →
    (∀ pw ∈ l, -1 ≤ pw.1.ens) →
    (status = .acc → ∀ pw ∈ l, VecOk s.n pw.1.ens pw.2) →
    treatOutput.perEns status s tn l = .ok (s', tn', pns) →
    Fam s' tn' ∧ tn ≤ tn' := by
  intro l
  induction l with
  | nil =>
    intro s s' H tn tn' pns _ hf _ _ hp
    simp only [treatOutput.perEns, Except.ok.injEq, Prod.mk.injEq] at hp
    obtain ⟨rfl, rfl, _⟩ := hp
    exact ⟨hf, Nat.le_refl _⟩
  | cons pw rest ih =>
    intro s s' H tn tn' pns h hf hge hvec hp
    obtain ⟨p, w⟩ := pw
    have h : CoreR s ((slotOf p, p.pn) :: (heldPicked (rest.map Prod.fst) ++ H)) tn := by
      simpa [heldPicked] using h
    obtain ⟨hlt, htr, _⟩ := h.heldOk (slotOf p) p.pn (List.mem_cons_self ..)
    have hpe : -1 ≤ p.ens := hge (p, w) (List.mem_cons_self ..)
    unfold treatOutput.perEns at hp
    simp only [] at hp
    split at hp
    · -- accepted
      rename_i hacc
      split at hp
      · exact absurd hp (by simp)
      rename_i s3 hadd
      split at hp
      · exact absurd hp (by simp)
      rename_i s4 tn4 pns4 hrec
      simp only [Except.ok.injEq, Prod.mk.injEq] at hp
      obtain ⟨rfl, rfl, _⟩ := hp
      have hc2 := h.congr (s' := { { s with locked := popLocked p.pn s.locked.length 0 s.locked, lockedOrd := popLockedOrd p.pn s.locked.length 0 s.locked s.lockedOrd } with
          frac := s.frac ++ [(tn, List.replicate s.n 0)], wts := s.wts ++ [(tn, w)] })
        ⟨rfl, rfl, rfl, rfl, rfl, rfl⟩
      have hnew : tn ∉ s.wts.map Prod.fst := fun hm => Nat.lt_irrefl _ (hf.wkeys tn hm)
      have hf2 : Fam { { s with locked := popLocked p.pn s.locked.length 0 s.locked, lockedOrd := popLockedOrd p.pn s.locked.length 0 s.locked s.lockedOrd } with
          frac := s.frac ++ [(tn, List.replicate s.n 0)], wts := s.wts ++ [(tn, w)] } (tn + 1) := by
        refine ⟨hf.rows, hf.perm, ?_, ?_, ?_, ?_⟩
        · intro i q hi hq
          obtain ⟨w', hw1, hw2⟩ := hf.wts i q hi hq
          exact ⟨w', lookup_append_of_some _ _ _ _ hw1, hw2⟩
        · intro k hk
          simp only [List.map_append, List.map_cons, List.map_nil, List.mem_append,
            List.mem_singleton] at hk
          rcases hk with hk | hk
          · have := hf.wkeys k hk; omega
          · omega
        · intro k hk
          simp only [List.map_append, List.map_cons, List.map_nil, List.mem_append,
            List.mem_singleton] at hk
          rcases hk with hk | hk
          · have := hf.fkeys k hk; omega
          · omega
        · intro x hx
          have := hf.rkeys x hx; omega
      have hvw := hvec hacc (p, w) (List.mem_cons_self ..)
      have hf3 := addTraj_fam (slotOf p) p.pn tn p.ens w hc2 hf2 hadd rfl hpe hvw
        (lookup_append_new _ _ _ hnew)
      obtain ⟨hc3, ha3⟩ := addTraj_coreR (tn' := tn + 1) (slotOf p) p.pn tn p.ens w hc2 hadd rfl
        (by
          intro b hb _ hcontra
          obtain ⟨q, hq, hqlt⟩ := h.live b hb
          change s.trajs[b]? = some (some tn) at hcontra
          rw [hq] at hcontra
          simp only [Option.some.injEq] at hcontra
          omega)
        (by omega) (by omega)
      have hn3 : s3.n = s.n := ha3.n
      obtain ⟨hf4, hle⟩ := ih hc3 hf3 (fun pw hpw => hge pw (List.mem_cons_of_mem _ hpw))
        (fun ha pw hpw => by rw [hn3]; exact hvec ha pw (List.mem_cons_of_mem _ hpw)) hrec
      exact ⟨hf4, by omega⟩
    · -- rejected: the old path goes back with its recorded weights
      rename_i hrej
      split at hp
      · exact absurd hp (by simp)
      rename_i wOld hlook
      split at hp
      · exact absurd hp (by simp)
      rename_i s3 hadd
      split at hp
      · exact absurd hp (by simp)
      rename_i s4 tn4 pns4 hrec
      simp only [Except.ok.injEq, Prod.mk.injEq] at hp
      obtain ⟨rfl, rfl, _⟩ := hp
      have hc2 := h.congr (s' := { s with locked := popLocked p.pn s.locked.length 0 s.locked, lockedOrd := popLockedOrd p.pn s.locked.length 0 s.locked s.lockedOrd })
        ⟨rfl, rfl, rfl, rfl, rfl, rfl⟩
      have hf2 : Fam { s with locked := popLocked p.pn s.locked.length 0 s.locked, lockedOrd := popLockedOrd p.pn s.locked.length 0 s.locked s.lockedOrd } tn :=
        hf.congr ⟨rfl, rfl, rfl, rfl, rfl, rfl, rfl⟩
      obtain ⟨w', hw1, hw2⟩ := hf.wts (slotOf p) p.pn hlt htr
      have hlook' : s.wts.lookup p.pn = some wOld := hlook
      have hww : w' = wOld := by rw [hw1] at hlook'; simpa using hlook'
      subst hww
      have hslot : ((slotOf p : Nat) : Int) - 1 = p.ens := by unfold slotOf; omega
      have hrow : RowOk s.n (slotOf p) (padValid s p.ens w') := by
        rw [hslot] at hw2
        rw [hw2]
        exact hf.rows (slotOf p) hlt
      have hf3 := addTraj_fam (slotOf p) p.pn p.pn p.ens w' hc2 hf2 hadd rfl hpe hrow hlook
      obtain ⟨hc3, ha3⟩ := addTraj_coreR (tn' := tn) (slotOf p) p.pn p.pn p.ens w' hc2 hadd rfl
        (by
          intro b hb hne hcontra
          exact hne (h.inj b (slotOf p) p.pn hb hlt hcontra htr))
        (by
          obtain ⟨q, hq, hqlt⟩ := h.live (slotOf p) hlt
          rw [htr] at hq
          have : q = p.pn := by simpa using hq.symm
          omega) (Nat.le_refl _)
      have hn3 : s3.n = s.n := ha3.n
      exact ih hc3 hf3 (fun pw hpw => hge pw (List.mem_cons_of_mem _ hpw))
        (fun ha pw hpw => by rw [hn3]; exact hvec ha pw (List.mem_cons_of_mem _ hpw)) hrec

/-- after an accepted move no live path carries a number of the replaced paths: a live number
    is new (`≥ tn`) or sits where it sat before, outside the job's slots -/
theorem perEns_acc_trajs : ∀ (l : List (Picked × List Rat)) {s s' : St} {tn tn' : Nat} {pns : List Nat},
    treatOutput.perEns .acc s tn l = .ok (s', tn', pns) →
    ∀ i q, s'.trajs[i]? = some (some q) →
      tn ≤ q ∨ (s.trajs[i]? = some (some q) ∧ i ∉ l.map (fun pw => slotOf pw.1)) := by
  intro l
  induction l with
  | nil =>
    intro s s' tn tn' pns hp i q hq
    simp only [treatOutput.perEns, Except.ok.injEq, Prod.mk.injEq] at hp
    obtain ⟨rfl, _, _⟩ := hp
    exact Or.inr ⟨hq, by simp⟩
  | cons pw rest ih =>
    intro s s' tn tn' pns hp i q hq
    obtain ⟨p, w⟩ := pw
    unfold treatOutput.perEns at hp
    simp only [↓reduceIte] at hp
    split at hp
    · exact absurd hp (by simp)
    rename_i s3 hadd
    split at hp
    · exact absurd hp (by simp)
    rename_i s4 tn4 pns4 hrec
    simp only [Except.ok.injEq, Prod.mk.injEq] at hp
    obtain ⟨rfl, _, _⟩ := hp
    obtain ⟨_, _, hs3⟩ := addTraj_ok5 hadd
    rcases ih hrec i q hq with h1 | ⟨h1, h2⟩
    · exact Or.inl (by omega)
    · subst hs3
      change (s.trajs.set (p.ens + 1).toNat (some tn))[i]? = some (some q) at h1
      rw [List.getElem?_set] at h1
      by_cases hie : (p.ens + 1).toNat = i
      · rw [if_pos hie] at h1
        split at h1
        · have : q = tn := by simpa using h1.symm
          exact Or.inl (by omega)
        · exact absurd h1 (by simp)
      · rw [if_neg hie] at h1
        refine Or.inr ⟨h1, ?_⟩
        simp only [List.map_cons, List.mem_cons, not_or]
        exact ⟨fun h => hie (by unfold slotOf at h; exact h.symm), h2⟩

/-- after the per-ensemble loop an idle slot was idle before and kept its row, or it was released
    by the loop and then has a non-zero weight in its own ensemble -/
theorem perEns_idle (status : Status) : ∀ (l : List (Picked × List Rat)) {s s' : St} {tn tn' : Nat}
    {pns : List Nat}, s.W.length = s.locks.length →
    treatOutput.perEns status s tn l = .ok (s', tn', pns) →
    s'.W.length = s'.locks.length ∧ s'.toinitiate = s.toinitiate ∧ s'.locked0 = s.locked0 ∧
    ∀ i : Nat, s'.locks[i]? = some false →
      (s.locks[i]? = some false ∧ s'.W[i]? = s.W[i]?) ∨ entryM s'.W i i ≠ 0 := by
  intro l
  induction l with
  | nil =>
    intro s s' tn tn' pns hlen hp
    simp only [treatOutput.perEns, Except.ok.injEq, Prod.mk.injEq] at hp
    obtain ⟨rfl, _, _⟩ := hp
    exact ⟨hlen, rfl, rfl, fun i hi => Or.inl ⟨hi, rfl⟩⟩
  | cons pw rest ih =>
    intro s s' tn tn' pns hlen hp
    obtain ⟨p, w⟩ := pw
    -- both branches: some state `s2` with the same W / locks / toinitiate / locked0, then add_traj
    have key : ∀ (s2 s3 : St) (pn : Nat) (v : List Rat) (tnn : Nat) (pns4 : List Nat),
        s2.W = s.W → s2.locks = s.locks → s2.toinitiate = s.toinitiate → s2.locked0 = s.locked0 →
        addTraj s2 p.ens pn v = .ok s3 →
        treatOutput.perEns status s3 tnn rest = .ok (s', tn', pns4) →
        s'.W.length = s'.locks.length ∧ s'.toinitiate = s.toinitiate ∧ s'.locked0 = s.locked0 ∧
        ∀ i : Nat, s'.locks[i]? = some false →
          (s.locks[i]? = some false ∧ s'.W[i]? = s.W[i]?) ∨ entryM s'.W i i ≠ 0 := by
      intro s2 s3 pn v tnn pns4 hW hL hto hl0 hadd hrec
      obtain ⟨hlk, hv, hs3⟩ := addTraj_ok5 hadd
      subst hs3
      have he : (p.ens + 1).toNat < s.locks.length := by
        rw [← hL]; exact getElem?_lt_of_some _ _ _ hlk
      obtain ⟨g1, g2, g3, g4⟩ := ih (by
        show (s2.W.set _ _).length = (s2.locks.set _ _).length
        rw [List.length_set, List.length_set, hW, hL]; exact hlen) hrec
      refine ⟨g1, g2.trans hto, g3.trans hl0, ?_⟩
      intro i hi
      rcases g4 i hi with ⟨h1, h2⟩ | h1
      · change (s2.locks.set (p.ens + 1).toNat false)[i]? = some false at h1
        change s'.W[i]? = (s2.W.set (p.ens + 1).toNat (padValid s2 p.ens v))[i]? at h2
        by_cases hie : (p.ens + 1).toNat = i
        · right
          subst hie
          rw [entryM_congr _ _ _ _ h2]
          unfold entryM
          rw [List.getD_eq_getElem?_getD (l := List.set _ _ _),
            List.getElem?_set_self (by rw [hW, hlen]; exact he)]
          exact hv
        · left
          rw [List.getElem?_set_ne hie, hL] at h1
          rw [List.getElem?_set_ne hie, hW] at h2
          exact ⟨h1, h2⟩
      · exact Or.inr h1
    unfold treatOutput.perEns at hp
    simp only [] at hp
    split at hp
    · split at hp
      · exact absurd hp (by simp)
      rename_i s3 hadd
      split at hp
      · exact absurd hp (by simp)
      rename_i s4 tn4 pns4 hrec
      simp only [Except.ok.injEq, Prod.mk.injEq] at hp
      obtain ⟨rfl, rfl, _⟩ := hp
      refine key _ s3 tn w (tn + 1) pns4 ?_ ?_ ?_ ?_ hadd hrec <;> rfl
    · split at hp
      · exact absurd hp (by simp)
      rename_i wOld _
      split at hp
      · exact absurd hp (by simp)
      rename_i s3 hadd
      split at hp
      · exact absurd hp (by simp)
      rename_i s4 tn4 pns4 hrec
      simp only [Except.ok.injEq, Prod.mk.injEq] at hp
      obtain ⟨rfl, rfl, _⟩ := hp
      refine key _ s3 p.pn wOld tn pns4 ?_ ?_ ?_ ?_ hadd hrec <;> rfl

/-! ### "record weights" and `write_to_pathens` -/

theorem updFrac_keys {frac f' : List (Nat × List Rat)} {pn : Nat} {row : List Rat}
    (h : updFrac frac pn row = .ok f') : f'.map Prod.fst = frac.map Prod.fst := by
  unfold updFrac at h
  split at h
  · simp only [Except.ok.injEq] at h
    subst h
    rw [List.map_map]
    apply List.map_congr_left
    intro x _
    obtain ⟨k, v⟩ := x
    simp only [Function.comp]
    split <;> rfl
  · exact absurd h (by simp)

theorem recordFrac_go_keys (lockedPs : List (Option Nat)) (P : Mat) :
    ∀ (l : List (Nat × Option Nat)) (frac f : List (Nat × List Rat)),
    recordFrac.go lockedPs P frac l = .ok f → f.map Prod.fst = frac.map Prod.fst := by
  intro l
  induction l with
  | nil =>
    intro frac f h
    simp only [recordFrac.go, Except.ok.injEq] at h
    subst h; rfl
  | cons x rest ih =>
    intro frac f h
    obtain ⟨idx, live⟩ := x
    unfold recordFrac.go at h
    split at h
    · exact ih frac f h
    · split at h
      · exact absurd h (by simp)
      · split at h
        · exact absurd h (by simp)
        · rename_i f' hu
          rw [ih f' f h, updFrac_keys hu]

theorem recordFrac_fam {s s' : St} {tn : Nat} (hf : Fam s tn) (h : recordFrac s = .ok s') :
    Fam s' tn := by
  unfold recordFrac at h
  simp only [] at h
  split at h
  · exact absurd h (by simp)
  · rename_i f hgo
    simp only [Except.ok.injEq] at h
    subst h
    have hk := recordFrac_go_keys _ _ _ _ _ hgo
    exact { rows := hf.rows, perm := hf.perm, wts := hf.wts, wkeys := hf.wkeys,
            fkeys := by
              show ∀ k ∈ f.map Prod.fst, k < tn
              rw [hk]; exact hf.fkeys
            rkeys := hf.rkeys }

theorem writeRows_spec : ∀ (l : List Nat) {s s' : St}, writeRows s l = .ok s' →
    s'.n = s.n ∧ s'.W = s.W ∧ s'.trajs = s.trajs ∧ s'.locks = s.locks ∧
    (∀ x ∈ s'.rows, x ∈ s.rows ∨ x.1 ∈ l) ∧
    (∀ k ∈ s'.wts.map Prod.fst, k ∈ s.wts.map Prod.fst) ∧
    (∀ k ∈ s'.frac.map Prod.fst, k ∈ s.frac.map Prod.fst) ∧
    (∀ k, k ∉ l → s'.wts.lookup k = s.wts.lookup k) := by
  intro l
  induction l with
  | nil =>
    intro s s' h
    simp only [writeRows, Except.ok.injEq] at h
    subst h
    exact ⟨rfl, rfl, rfl, rfl, fun x hx => Or.inl hx, fun k hk => hk, fun k hk => hk, fun _ _ => rfl⟩
  | cons pn rest ih =>
    intro s s' h
    unfold writeRows at h
    split at h
    · rename_i f w _ _
      obtain ⟨h1, h2, h3, h4, h5, h6, h7, h8⟩ := ih h
      refine ⟨h1, h2, h3, h4, ?_, ?_, ?_, ?_⟩
      · intro x hx
        rcases h5 x hx with hx' | hx'
        · change x ∈ s.rows ++ [(pn, f, w)] at hx'
          rcases List.mem_append.mp hx' with hx'' | hx''
          · exact Or.inl hx''
          · simp only [List.mem_singleton] at hx''
            subst hx''
            exact Or.inr (List.mem_cons_self ..)
        · exact Or.inr (List.mem_cons_of_mem _ hx')
      · intro k hk
        exact keys_filter_subset _ _ _ (h6 k hk)
      · intro k hk
        exact keys_filter_subset _ _ _ (h7 k hk)
      · intro k hk
        simp only [List.mem_cons, not_or] at hk
        rw [h8 k hk.2]
        exact lookup_filter_ne _ _ _ hk.1
    · exact absurd h (by simp)

/-- `write_to_pathens` for path numbers below `tn` none of which is live any more -/
theorem writeRows_fam {s s' : St} {tn : Nat} (l : List Nat) (hf : Fam s tn)
    (hlt : ∀ pn ∈ l, pn < tn)
    (hdead : ∀ i q, i < s.n - 1 → s.trajs[i]? = some (some q) → q ∉ l)
    (h : writeRows s l = .ok s') : Fam s' tn := by
  obtain ⟨h1, h2, h3, h4, h5, h6, h7, h8⟩ := writeRows_spec l h
  constructor
  · rw [h1, h2]; exact hf.rows
  · rw [h2, h4]; exact hf.perm
  · rw [h1, h2, h3]
    intro i q hi hq
    obtain ⟨w, hw1, hw2⟩ := hf.wts i q hi hq
    refine ⟨w, ?_, by rw [padValid_n h1]; exact hw2⟩
    rw [h8 q (hdead i q hi hq)]
    exact hw1
  · exact fun k hk => hf.wkeys k (h6 k hk)
  · exact fun k hk => hf.fkeys k (h7 k hk)
  · intro x hx
    rcases h5 x hx with hx' | hx'
    · exact hf.rkeys x hx'
    · exact hlt _ hx'

end Infretis.Repex
