import Infretis.Lemmas.RepexC06Stop
/-
C06, part 9: chains of restarts.  A run with any number of restarts (each at the instant `treat_output` has written the
restart file, each followed by at least one more step) ends observationally equal to the uninterrupted run.
-/
namespace Infretis.Repex
open Infretis.Perm Infretis.Perm.C05

/-- composition of two restart relations: the middle run restarted with an empty row base -/
theorem ObsR.comp {t t' : Int} {ra rb' rc : List Row} {a b c : St}
    (h1 : ObsR True t ra [] a b) (h2 : ObsR True t' rb' rc b c) : ObsR True t (ra ++ rb') rc a c := by
  obtain ⟨r1, ha1, hb1⟩ := h1.rows
  obtain ⟨r2, hb2, hc2⟩ := h2.rows
  have hr : r1 = rb' ++ r2 := by
    simp only [List.nil_append] at hb1
    rw [← hb1, hb2]
  have ht : t' = t := by
    have e1 := (h1.toinitiate trivial).2
    have e2 := (h2.toinitiate trivial).1
    rw [← e2, e1]
  exact
    { n := h1.n.trans h2.n, W := h1.W.trans h2.W, trajs := h1.trajs.trans h2.trajs, locks := h1.locks.trans h2.locks,
      locked := h1.locked.trans h2.locked, locked0 := h1.locked0.trans h2.locked0,
      lockedOrd := h1.lockedOrd.trans h2.lockedOrd, locked0Ord := h1.locked0Ord.trans h2.locked0Ord,
      workers := h1.workers.trans h2.workers, cstep := h1.cstep.trans h2.cstep, tsteps := h1.tsteps.trans h2.tsteps,
      trajNum := h1.trajNum.trans h2.trajNum, frac := h1.frac.trans h2.frac, wts := h1.wts.trans h2.wts,
      ensEng := h1.ensEng.trans h2.ensEng, seed := h1.seed.trans h2.seed, entropy := h1.entropy.trans h2.entropy,
      spawned := h1.spawned.trans h2.spawned, mainDraws := h1.mainDraws.trans h2.mainDraws,
      toinitiate := fun _ => ⟨(h1.toinitiate trivial).1, by rw [← ht]; exact (h2.toinitiate trivial).2⟩,
      occ := fun _ => (h1.occ trivial).trans (h2.occ trivial),
      rows := ⟨r2, by rw [ha1, hr, List.append_assoc], hc2⟩ }

theorem evOk_transfer {t0 : Int} {ra rb : List Row} {x y : Sys} (h : RY t0 ra rb x y) (ev : Ev)
    (hx : EvOk x ev) : EvOk y ev := by
  cases ev with
  | start _ _ => trivial
  | initDone => trivial
  | step k st w o =>
    unfold EvOk at hx ⊢
    rw [← h.2, ← h.1.n]
    exact hx

/-- well-formedness of the outcomes transfers along observationally equal runs -/
theorem histOk_transfer {t0 : Int} {ra rb : List Row} (ht : t0 < 0) : ∀ (evs : List Ev) {x y : Sys}, StepsOnly evs →
    RY t0 ra rb x y → HistOk x evs → HistOk y evs := by
  intro evs
  induction evs with
  | nil => intro x y _ _ _; trivial
  | cons ev rest ih =>
    intro x y hs h hh
    cases ev with
    | start _ _ => exact hs.elim
    | initDone => exact hs.elim
    | step k st w o =>
      refine ⟨evOk_transfer h _ hh.1, ?_⟩
      intro y' hy'
      have hrel := sysStep_step_rel h ht k st w o
      rw [hy'] at hrel
      cases hx : sysStep x (.step k st w o) with
      | error e => rw [hx] at hrel; exact hrel.elim
      | ok x' =>
        rw [hx] at hrel
        exact ih hs hrel (hh.2 x' hx)

/-- a run with restarts: either the events are run as they are, or the run is stopped right after the
    `treat_output` of some `.step` that is not the last one, the state is rebuilt from the image with a released engine
    table, and the rest of the events is run — with further restarts — from there -/
inductive Restarts : Sys → List Ev → Sys → Prop
  | direct {y0 yN : Sys} {evs : List Ev} : run y0 evs = .ok yN → Restarts y0 evs yN
  | restart {y0 y yN : Sys} {o0 : PickOutcome} {sv0 : Nat} {steps1 : List Ev} {k : Nat} {st : Status}
      {w : List (List Rat)} {o : PickOutcome} {rest : List Ev} {r : St × Job × List Job} {s' : St} :
      StepsOnly steps1 → StepsOnly rest → rest ≠ [] →
      run y0 (.start o0 sv0 :: .initDone :: steps1) = .ok y → stepTreat y k st w = .ok r →
      restore (persist r.1) r.1.n r.1.workers r.1.tsteps (freeEngines r.1.occ 0) r.1.ensEng
        (fun pn => (r.1.wts.lookup pn).getD []) = .ok s' →
      Restarts { s := s', jobs := [] } (.start o (persist r.1).rngDraws :: .initDone :: rest) yN →
      Restarts y0 ((.start o0 sv0 :: .initDone :: steps1) ++ (.step k st w o :: rest)) yN

/-- **restart equivalence for any chain of restarts** (one worker, no hypothesis on any state): if the history runs
    uninterrupted from a one-worker start state to `yN` and, with any number of restarts, to `yN'`, then `yN` and `yN'`
    are observationally equal, hold the same jobs, and the rows of `yN'` (appended since its last restart) are a suffix
    of the rows of `yN`. -/
theorem restart_chain : ∀ {y0 : Sys} {evs : List Ev} {yN' : Sys}, Restarts y0 evs yN' →
    ∀ {yN : Sys}, Start1 y0 → HistOk y0 evs → run y0 evs = .ok yN →
    ∃ t ra rb, ObsR True t ra rb yN.s yN'.s ∧ yN.jobs = yN'.jobs ∧ ∃ pre, yN.s.rows = pre ++ yN'.s.rows := by
  intro y0 evs yN' hres
  induction hres with
  | direct hrun' =>
    intro yN _ _ hrun
    rw [hrun'] at hrun
    simp only [Except.ok.injEq] at hrun
    subst hrun
    exact ⟨_, _, _, ObsR.refl _, rfl, [], by simp⟩
  | @restart y0 y yN' o0 sv0 steps1 k st w o rest r s' hs1 hs2 hne hy hT hrestore _ ih =>
    intro yN h0 hh hrun
    obtain ⟨y2, r2, s2', yN1, hy2, hT2, hS, hlt, hc, hf, htd, hw1, hres2, hR, hrun1, hobs, hjobs, rws, hra, hrb⟩ :=
      restart_reachable h0 o0 sv0 steps1 k st w o rest hs1 hs2 hne hh hrun
    -- the same intermediate objects (everything is a function)
    rw [hy] at hy2
    simp only [Except.ok.injEq] at hy2
    subst hy2
    rw [hT] at hT2
    simp only [Except.ok.injEq] at hT2
    subst hT2
    rw [hrestore] at hres2
    simp only [Except.ok.injEq] at hres2
    subst hres2
    -- the rebuilt state is a start state, the remaining history is well formed there
    have hst : Start1 { s := s', jobs := [] } := restored_start1 hS hc hf htd hw1 hrestore hR
    have hhR : HistOk { s := s', jobs := [] } (.start o (persist r.1).rngDraws :: .initDone :: rest) := by
      -- the uninterrupted run after the split step
      obtain ⟨ym, hym, hyN⟩ := run_append_inv _ _ hrun
      rw [hy] at hym
      simp only [Except.ok.injEq] at hym
      subst hym
      have hhy : HistOk y (.step k st w o :: rest) := histOk_append _ _ hh hy
      unfold run at hyN
      split at hyN
      · exact absurd hyN (by simp)
      rename_i yU hstep
      have hhU : HistOk yU rest := hhy.2 yU hstep
      rw [sysStep_eq_halves, hT] at hstep
      simp only [] at hstep
      obtain ⟨y1, yR, e1, e2, hRY⟩ := restart_step r.2.1 r.2.2 o hR hw1
        (by
          have hr : Reach1 y := run_reach1 _ h0.reach (histOk_prefix _ _ hh) hy
          obtain ⟨_, _, c3, c4⟩ := ctr_eq (show ctr r.1 = ctr (loop y.s).1 from by
            unfold stepTreat at hT
            cases hl : loop y.s with
            | mk s1 go =>
            rw [hl] at hT
            simp only [] at hT
            split at hT
            · exact absurd hT (by simp)
            split at hT
            · exact absurd hT (by simp)
            split at hT
            · exact absurd hT (by simp)
            rename_i s2 pns it htreat
            simp only [Except.ok.injEq] at hT
            subst hT
            exact ctr_treatOutput htreat)
          have hl : (loop y.s).1.toinitiate = y.s.toinitiate := by unfold loop; split <;> rfl
          rw [c4, hl]
          have : (.start o0 sv0 :: .initDone :: steps1 : List Ev) = [.start o0 sv0, .initDone] ++ steps1 := rfl
          rw [this] at hy
          obtain ⟨ya, hya, hyb⟩ := run_append_inv _ _ hy
          rw [steps_toinit _ hs1 hyb]
          exact closed_after_init h0 hya)
        (by
          have hr : Reach1 y := run_reach1 _ h0.reach (histOk_prefix _ _ hh) hy
          obtain ⟨_, hjob, _⟩ := stepTreat_tidy hr.inv5.inv hr.tidy hT
          exact hr.one.pins _ (List.mem_of_getElem? hjob))
        hS.locked0 hlt (freeEngines_idem r.1.occ 0).symm hstep
      have hrj : r.2.2 = [] := by
        have hr : Reach1 y := run_reach1 _ h0.reach (histOk_prefix _ _ hh) hy
        obtain ⟨_, hjob, hrest⟩ := stepTreat_tidy hr.inv5.inv hr.tidy hT
        rw [hrest]
        have hklt : k < y.jobs.length := (List.getElem?_eq_some_iff.mp hjob).1
        have := hr.one.le
        apply List.eq_nil_of_length_eq_zero
        rw [List.length_eraseIdx_of_lt hklt]; omega
      rw [hrj] at e1
      refine ⟨trivial, fun ya hya => ⟨trivial, fun yb hyb => ?_⟩⟩
      have : (persist r.1).rngDraws = r.1.mainDraws := rfl
      rw [this, e1] at hya
      simp only [Except.ok.injEq] at hya
      subst hya
      rw [e2] at hyb
      simp only [Except.ok.injEq] at hyb
      subst hyb
      exact histOk_transfer (by omega) rest hs2 hRY hhU
    obtain ⟨t, rb1, rc, hobs2, hjobs2, pre2, hpre2⟩ := ih hst hhR hrun1
    refine ⟨-1, _, rc, hobs.comp hobs2, hjobs.trans hjobs2, r.1.rows ++ pre2, ?_⟩
    rw [hra, ← hrb, hpre2, List.append_assoc]

end Infretis.Repex
