import Infretis.Lemmas.RepexC06MultiEnd
/-
C06, part 18 (audit 2026-09-30): the graceful stop.  "Stopping after K steps" the repo's own way is a run of the same
configuration with `steps = K` (test_run_airetis_wf: run, raise `steps`, run again) — a DIFFERENT run from the long one
(`steps = N`), whose restart file is written by the K-th `treat_output` and once more by `loop()` when it answers False.
The restart theorems split the LONG run at its K-th `treat_output` (the file a kill leaves).  Here: with one worker the
short run goes through the very states of the long one up to the field `tsteps` (`setTS`/`nt`; `steps` is read by
`initiate()`, `loop()` and the `cstep + workers <= tsteps` test of `scheduler()` only, and these decide the same way while
a fresh job is due in both), issues no job after its K-th `treat_output`, and leaves the same image (`persist` has no
`steps`).  With several workers the short run is really another run (it stops issuing jobs W-1 steps earlier and drains):
the property asks of it only what `reissue_exact` / the chain theorems say.
-/
namespace Infretis.Repex
open Infretis.Perm

/-- override the step count of the configuration (`steps`) -/
def setTS (s : St) (d : Nat) : St := { s with tsteps := d }

theorem unlock_setTS (s : St) (e d : Nat) : unlock (setTS s d) e = (unlock s e).map (fun x => setTS x d) := by
  unfold unlock setTS
  simp only []
  split <;> rfl

theorem addTraj_setTS (s : St) (ens : Int) (pn : Nat) (valid : List Rat) (d : Nat) :
    addTraj (setTS s d) ens pn valid = (addTraj s ens pn valid).map (fun x => setTS x d) := by
  unfold addTraj
  have hv : padValid (setTS s d) ens valid = padValid s ens valid := rfl
  simp only [hv, show (setTS s d).n = s.n from rfl, show (setTS s d).trajs = s.trajs from rfl]
  split
  · rfl
  · split
    · rfl
    · split
      · rfl
      · split
        · rfl
        · exact unlock_setTS ({ s with trajs := s.trajs.set (ens + (off : Int)).toNat (some pn),
                                       W := s.W.set (ens + (off : Int)).toNat (padValid s ens valid) }) _ d

def map3T (d : Nat) (r : St × Nat × List Nat) : St × Nat × List Nat := (setTS r.1 d, r.2)

theorem perEns_setTS (status : Status) (d : Nat) : ∀ (l : List (Picked × List Rat)) (s : St) (tn : Nat),
    treatOutput.perEns status (setTS s d) tn l = (treatOutput.perEns status s tn l).map (map3T d) := by
  intro l
  induction l with
  | nil => intro s tn; rfl
  | cons x tl ih =>
    intro s tn
    obtain ⟨pk, w⟩ := x
    cases status with
    | acc =>
      rw [perEns_cons_acc, perEns_cons_acc]
      have h1 : addTraj (accSt (setTS s d) pk tn w) pk.ens tn w =
          (addTraj (accSt s pk tn w) pk.ens tn w).map (fun x => setTS x d) := addTraj_setTS (accSt s pk tn w) pk.ens tn w d
      rw [h1]
      cases addTraj (accSt s pk tn w) pk.ens tn w with
      | error e => rfl
      | ok s3 =>
        simp only [Except.map]
        rw [ih s3 (tn + 1)]
        cases treatOutput.perEns .acc s3 (tn + 1) tl with
        | error e => rfl
        | ok r => rfl
    | rej =>
      rw [perEns_cons_rej, perEns_cons_rej]
      have hw : (rejSt (setTS s d) pk).wts = (rejSt s pk).wts := rfl
      rw [hw]
      cases (rejSt s pk).wts.lookup pk.pn with
      | none => rfl
      | some wOld =>
        simp only []
        have h1 : addTraj (rejSt (setTS s d) pk) pk.ens pk.pn wOld =
            (addTraj (rejSt s pk) pk.ens pk.pn wOld).map (fun x => setTS x d) :=
          addTraj_setTS (rejSt s pk) pk.ens pk.pn wOld d
        rw [h1]
        cases addTraj (rejSt s pk) pk.ens pk.pn wOld with
        | error e => rfl
        | ok s3 =>
          simp only [Except.map]
          rw [ih s3 tn]
          cases treatOutput.perEns .rej s3 tn tl with
          | error e => rfl
          | ok r => rfl

theorem recordFrac_setTS (s : St) (d : Nat) : recordFrac (setTS s d) = (recordFrac s).map (fun x => setTS x d) := by
  unfold recordFrac
  simp only []
  have e1 : lockedPaths (setTS s d) = lockedPaths s := rfl
  have e2 : prob (setTS s d) = prob s := rfl
  have e3 : livePaths (setTS s d) = livePaths s := rfl
  have e4 : (setTS s d).frac = s.frac := rfl
  rw [e1, e2, e3, e4]
  split <;> rfl

theorem writeRows_setTS (d : Nat) : ∀ (l : List Nat) (s : St),
    writeRows (setTS s d) l = (writeRows s l).map (fun x => setTS x d) := by
  intro l
  induction l with
  | nil => intro s; rfl
  | cons pn rest ih =>
    intro s
    simp only [writeRows]
    have e1 : (setTS s d).frac = s.frac := rfl
    have e2 : (setTS s d).wts = s.wts := rfl
    rw [e1, e2]
    split
    · rename_i f w _ _
      exact ih { s with rows := s.rows ++ [(pn, f, w)], frac := s.frac.filter (·.1 != pn),
                        wts := s.wts.filter (·.1 != pn) }
    · rfl

theorem sortStep_setTS (s : St) (d : Nat) :
    sortStep (setTS s d) = (sortStep s).map (fun o => o.map (fun x => setTS x d)) := by
  unfold sortStep
  have e1 : needsToMove (setTS s d) = needsToMove s := rfl
  have e2 : lockedPaths (setTS s d) = lockedPaths s := rfl
  simp only [e1, e2, show (setTS s d).toinitiate = s.toinitiate from rfl, show (setTS s d).W = s.W from rfl,
    show (setTS s d).n = s.n from rfl, show (setTS s d).trajs = s.trajs from rfl]
  split
  · rfl
  · split
    · rfl
    · split
      · rfl
      · rfl

def map2T (d : Nat) (r : St × Nat) : St × Nat := (setTS r.1 d, r.2)

theorem sortTrajstate_setTS (d : Nat) : ∀ (fuel : Nat) (s : St),
    sortTrajstate fuel (setTS s d) = (sortTrajstate fuel s).map (map2T d) := by
  intro fuel
  induction fuel with
  | zero => intro s; rfl
  | succ k ih =>
    intro s
    simp only [sortTrajstate]
    rw [sortStep_setTS]
    cases sortStep s with
    | error e => rfl
    | ok o =>
      cases o with
      | none => rfl
      | some s' =>
        simp only [Except.map, Option.map]
        rw [ih s']
        cases sortTrajstate k s' with
        | error e => rfl
        | ok r => rfl

def mapTT (d : Nat) (r : St × List Nat × Nat) : St × List Nat × Nat := (setTS r.1 d, r.2)

theorem treatOutput_setTS (s : St) (job : Job) (status : Status) (newW : List (List Rat)) (fuel d : Nat) :
    treatOutput (setTS s d) job status newW fuel = (treatOutput s job status newW fuel).map (mapTT d) := by
  unfold treatOutput
  simp only []
  generalize (if status = .acc then newW else job.picked.map (fun _ => ([] : List Rat))) = ws
  split
  · rfl
  · have e0 : (setTS s d).trajNum = s.trajNum := rfl
    rw [e0, perEns_setTS]
    cases treatOutput.perEns status s s.trajNum (job.picked.zip ws) with
    | error e => rfl
    | ok r1 =>
      obtain ⟨s1, tn, pns⟩ := r1
      simp only [Except.map, map3T]
      rw [recordFrac_setTS]
      cases recordFrac s1 with
      | error e => rfl
      | ok s2 =>
        simp only [Except.map]
        have h3 : (if status = .acc then writeRows (setTS s2 d) job.pnumOld else Except.ok (setTS s2 d)) =
            (if status = .acc then writeRows s2 job.pnumOld else Except.ok s2).map (fun x => setTS x d) := by
          split
          · exact writeRows_setTS d _ _
          · rfl
        rw [h3]
        cases (if status = .acc then writeRows s2 job.pnumOld else Except.ok s2) with
        | error e => rfl
        | ok s3 =>
          simp only [Except.map]
          rw [sortTrajstate_setTS]
          cases sortTrajstate fuel s3 with
          | error e => rfl
          | ok r4 => rfl


/-! ### picks and engine assignment do not read `steps` -/

theorem lock_setTS (s : St) (e d : Nat) : lock (setTS s d) e = (lock s e).map (fun x => setTS x d) := by
  unfold lock setTS
  simp only []
  split <;> rfl

def mapP (d : Nat) {β : Type} (r : St × β) : St × β := (setTS r.1 d, r.2)

theorem pickCore_setTS (s : St) (o : PickOutcome) (d : Nat) :
    pickCore (setTS s d) o = (pickCore s o).map (mapP d) := by
  unfold pickCore
  have e1 : prob (setTS s d) = prob s := rfl
  have e2 : swap (setTS s d) o.t o.e = setTS (swap s o.t o.e) d := rfl
  simp only [e1, e2, lock_setTS]
  split
  · rfl
  · cases lock (swap s o.t o.e) o.e with
    | error e => rfl
    | ok s2 =>
      simp only [Except.map]
      have e3 : (setTS s2 d).locks = s2.locks := rfl
      have e4 : (setTS s2 d).trajs = s2.trajs := rfl
      have e5 : prob (setTS s2 d) = prob s2 := rfl
      have e6 : ∀ a b, swap (setTS s2 d) a b = setTS (swap s2 a b) d := fun _ _ => rfl
      simp only [e3, e4, e5, e6, lock_setTS]
      split
      · split
        · split
          · rfl
          · cases lock (swap s2 o.partner (off - 1)) (off - 1) with
            | error e => rfl
            | ok s4 => rfl
        · split
          · rfl
          · cases lock (swap s2 o.partner off) off with
            | error e => rfl
            | ok s4 => rfl
      · rfl

theorem pick_setTS (s : St) (o : PickOutcome) (d : Nat) : pick (setTS s d) o = (pick s o).map (mapP d) := by
  unfold pick
  rw [pickCore_setTS]
  cases pickCore s o with
  | error e => rfl
  | ok r =>
    obtain ⟨s1, pairs, ds⟩ := r
    simp only [Except.map, mapP]
    have hm : mkPicked (setTS s1 d) pairs = mkPicked s1 pairs := rfl
    rw [hm]
    cases mkPicked s1 pairs with
    | error e => rfl
    | ok ps => rfl

theorem prep_setTS (s : St) (prev : Option Nat) (o : PickOutcome) (sv d : Nat) (h : s.toinitiate < 0) :
    prep (setTS s d) prev o sv = (prep s prev o sv).map (mapP d) := by
  unfold prep
  have hti : (setTS s d).toinitiate = s.toinitiate := rfl
  have hn : ¬ s.toinitiate ≥ 0 := by omega
  simp only [hti, if_neg hn, pick_setTS]
  cases pick s o with
  | error e => rfl
  | ok r =>
    obtain ⟨s1, ps, ds⟩ := r
    simp only [Except.map, mapP]
    cases prev with
    | none => rfl
    | some pin =>
      simp only [show (setTS s1 d).ensEng = s1.ensEng from rfl, show (setTS s1 d).occ = s1.occ from rfl]
      cases assignEngines s1.occ
          (dedup (List.map (fun p => s1.ensEng.getD (p.ens + 1).toNat []) ps).flatten) pin with
      | error e => rfl
      | ok r2 =>
        obtain ⟨occ', idx⟩ := r2
        simp only []
        split <;> rfl

/-! ### the scheduler level -/

def nt (d : Nat) (y : Sys) : Sys := { y with s := setTS y.s d }

def mapRT (d : Nat) (r : St × Job × List Job) : St × Job × List Job := (setTS r.1 d, r.2)

theorem loop_setTS (s : St) (d : Nat) (h1 : s.cstep < s.tsteps) (h2 : s.cstep < d) :
    loop (setTS s d) = (setTS (loop s).1 d, true) ∧ (loop s).2 = true := by
  unfold loop
  have e1 : (setTS s d).cstep = s.cstep := rfl
  have e2 : (setTS s d).tsteps = d := rfl
  rw [e1, e2, if_neg (by omega), if_neg (by omega)]
  refine ⟨?_, by simp only [decide_eq_true_eq]; omega⟩
  simp only [Prod.mk.injEq, decide_eq_true_eq]
  exact ⟨rfl, by omega⟩

theorem stepTreat_nt (y : Sys) (d k : Nat) (st : Status) (w : List (List Rat))
    (h1 : y.s.cstep < y.s.tsteps) (h2 : y.s.cstep < d) :
    stepTreat (nt d y) k st w = (stepTreat y k st w).map (mapRT d) := by
  obtain ⟨hl, hg⟩ := loop_setTS y.s d h1 h2
  have hl2 : loop y.s = ((loop y.s).1, true) := by rw [← hg]
  simp only [stepTreat, nt, hl]
  rw [hl2]
  simp only [not_true_eq_false, if_false]
  cases y.jobs[k]? with
  | none => rfl
  | some job =>
    simp only []
    have hf : sortFuel (setTS (loop y.s).1 d) = sortFuel (loop y.s).1 := rfl
    rw [hf, treatOutput_setTS]
    cases treatOutput (loop y.s).1 job st w (sortFuel (loop y.s).1) with
    | error e => rfl
    | ok r => rfl

theorem stepTreat_ti {y : Sys} {k : Nat} {st : Status} {w : List (List Rat)} {r : St × Job × List Job}
    (h : stepTreat y k st w = .ok r) : r.1.toinitiate = y.s.toinitiate := by
  simp only [stepTreat] at h
  split at h
  · exact absurd h (by simp)
  · cases hj : y.jobs[k]? with
    | none => rw [hj] at h; exact absurd h (by simp)
    | some job =>
      rw [hj] at h
      simp only [] at h
      cases ht : treatOutput (loop y.s).1 job st w (sortFuel (loop y.s).1) with
      | error e => rw [ht] at h; exact absurd h (by simp)
      | ok r2 =>
        obtain ⟨s2, pns, it⟩ := r2
        rw [ht] at h
        simp only [Except.ok.injEq] at h
        subst h
        have := ctr_ti (ctr_treatOutput ht)
        rw [this]
        unfold loop
        split <;> rfl

/-- a `.step` of the main phase (a fresh job is due in both runs) does not read `steps` -/
theorem sysStep_nt_main (y : Sys) (d k : Nat) (st : Status) (w : List (List Rat)) (o : PickOutcome)
    (hti : y.s.toinitiate = -1) (h1 : y.s.cstep + 1 + y.s.workers ≤ y.s.tsteps) (h2 : y.s.cstep + 1 + y.s.workers ≤ d) :
    sysStep (nt d y) (.step k st w o) = (sysStep y (.step k st w o)).map (nt d) := by
  rw [sysStep_eq_halves, sysStep_eq_halves, stepTreat_nt y d k st w (by omega) (by omega)]
  cases hT : stepTreat y k st w with
  | error e => rfl
  | ok r =>
    obtain ⟨c1, c2, c3⟩ := stepTreat_ctr hT
    have ht := stepTreat_ti hT
    have hyes : r.1.cstep + r.1.workers ≤ r.1.tsteps := by rw [c1, c2, c3]; omega
    have hyes' : (mapRT d r).1.cstep + (mapRT d r).1.workers ≤ (mapRT d r).1.tsteps := by
      show r.1.cstep + r.1.workers ≤ d
      rw [c1, c2]; omega
    simp only [Except.map, stepPrep, if_pos hyes, if_pos hyes']
    have hp := prep_setTS r.1 (some r.2.1.pin) o 0 d (by rw [ht, hti]; omega)
    show (match prep (setTS r.1 d) (some r.2.1.pin) o with
      | Except.error er => (Except.error er : Except Err Sys)
      | Except.ok (s3, job', _) => Except.ok { s := s3, jobs := r.2.2 ++ [job'] }) = _
    rw [hp]
    cases prep r.1 (some r.2.1.pin) o with
    | error e => rfl
    | ok r3 => rfl

/-- the counters after a `.step` of the main phase -/
theorem sysStep_step_ctr {y y' : Sys} {k : Nat} {st : Status} {w : List (List Rat)} {o : PickOutcome}
    (h : sysStep y (.step k st w o) = .ok y') :
    y'.s.cstep = y.s.cstep + 1 ∧ y'.s.workers = y.s.workers ∧ y'.s.tsteps = y.s.tsteps ∧
      y'.s.toinitiate = y.s.toinitiate := by
  rw [sysStep_eq_halves] at h
  cases hT : stepTreat y k st w with
  | error e => rw [hT] at h; exact absurd h (by simp)
  | ok r =>
    rw [hT] at h
    simp only [] at h
    obtain ⟨c1, c2, c3⟩ := stepTreat_ctr hT
    have c4 := stepTreat_ti hT
    simp only [stepPrep] at h
    split at h
    · cases hp : prep r.1 (some r.2.1.pin) o with
      | error e => rw [hp] at h; exact absurd h (by simp)
      | ok r3 =>
        obtain ⟨s3, job', ds⟩ := r3
        rw [hp] at h
        simp only [Except.ok.injEq] at h
        subst h
        have hc := ctr_prep hp
        unfold ctr at hc
        simp only [Ctr.mk.injEq] at hc
        exact ⟨by show s3.cstep = _; rw [hc.1, c1], by show s3.workers = _; rw [hc.2.2.1, c2],
               by show s3.tsteps = _; rw [hc.2.1, c3], by show s3.toinitiate = _; rw [hc.2.2.2, c4]⟩
    · simp only [Except.ok.injEq] at h
      subst h
      exact ⟨c1, c2, c3, c4⟩

/-- a run of main-phase steps does not read `steps`: the run with `steps = d` goes through the same states -/
theorem run_nt_main (d : Nat) : ∀ (evs : List Ev) (y : Sys), StepsOnly evs → y.s.toinitiate = -1 →
    y.s.cstep + evs.length + y.s.workers ≤ y.s.tsteps → y.s.cstep + evs.length + y.s.workers ≤ d →
    run (nt d y) evs = (run y evs).map (nt d) := by
  intro evs
  induction evs with
  | nil => intro y _ _ _ _; rfl
  | cons ev rest ih =>
    intro y hs hti h1 h2
    cases ev with
    | start o sv => exact hs.elim
    | initDone => exact hs.elim
    | step k st w o =>
      simp only [List.length_cons] at h1 h2
      have hst := sysStep_nt_main y d k st w o hti (by omega) (by omega)
      simp only [run]
      rw [hst]
      cases hy : sysStep y (.step k st w o) with
      | error e => rfl
      | ok y' =>
        simp only [Except.map]
        obtain ⟨c1, c2, c3, c4⟩ := sysStep_step_ctr hy
        exact ih y' hs (by rw [c4]; exact hti) (by rw [c1, c2, c3]; omega) (by rw [c1, c2]; omega)

/-- **graceful stop = kill, one worker.**  The long run (`steps = N`) is at `y` (initiation closed), runs the `.step`
    events `steps1` to `y1`, and `treat_output` of one more step leaves `r` with `r.1.cstep = K < N`.  The SHORT run —
    the same configuration with `steps = K`, the repo's own way of "stopping after K steps" — goes through the same
    states (up to `steps`), its K-th `treat_output` leaves `setTS r.1 K`, it issues no further job, its next `loop()`
    answers False (and writes the restart file once more, from the same state): the file it leaves is the file a kill
    of the long run leaves after step K. -/
theorem graceful_stop_image {y y1 : Sys} (hw : y.s.workers = 1) (hti : y.s.toinitiate = -1) (steps1 : List Ev)
    (hs : StepsOnly steps1) (k : Nat) (st : Status) (w : List (List Rat)) {r : St × Job × List Job}
    (h1 : run y steps1 = .ok y1) (hT : stepTreat y1 k st w = .ok r) (hK : r.1.cstep < r.1.tsteps) :
    run (nt r.1.cstep y) steps1 = .ok (nt r.1.cstep y1) ∧
      stepTreat (nt r.1.cstep y1) k st w = .ok (setTS r.1 r.1.cstep, r.2) ∧
      persist (setTS r.1 r.1.cstep) = persist r.1 ∧
      ¬ ((setTS r.1 r.1.cstep).cstep + (setTS r.1 r.1.cstep).workers ≤ (setTS r.1 r.1.cstep).tsteps) ∧
      (loop (setTS r.1 r.1.cstep)).2 = false := by
  obtain ⟨c1, c2, c3⟩ := stepTreat_ctr hT
  -- counters of y1
  have hrun : ∀ (evs : List Ev) (a b : Sys), StepsOnly evs → run a evs = .ok b →
      b.s.cstep = a.s.cstep + evs.length ∧ b.s.workers = a.s.workers ∧ b.s.tsteps = a.s.tsteps ∧
        b.s.toinitiate = a.s.toinitiate := by
    intro evs
    induction evs with
    | nil => intro a b _ h; simp only [run, Except.ok.injEq] at h; subst h; exact ⟨rfl, rfl, rfl, rfl⟩
    | cons ev rest ih =>
      intro a b hs h
      cases ev with
      | start o sv => exact hs.elim
      | initDone => exact hs.elim
      | step k st w o =>
        simp only [run] at h
        cases hy : sysStep a (.step k st w o) with
        | error e => rw [hy] at h; exact absurd h (by simp)
        | ok a' =>
          rw [hy] at h
          obtain ⟨d1, d2, d3, d4⟩ := sysStep_step_ctr hy
          obtain ⟨e1, e2, e3, e4⟩ := ih a' b hs h
          exact ⟨by rw [e1, d1, List.length_cons]; omega, by rw [e2, d2], by rw [e3, d3], by rw [e4, d4]⟩
  obtain ⟨f1, f2, f3, f4⟩ := hrun steps1 y y1 hs h1
  have hK' : r.1.cstep = y.s.cstep + steps1.length + 1 := by rw [c1, f1]
  have hN : y.s.cstep + steps1.length + 1 < y.s.tsteps := by rw [← hK', ← f3, ← c3]; exact hK
  have hr := run_nt_main r.1.cstep steps1 y hs hti (by rw [hw]; omega) (by rw [hw, hK'])
  rw [h1] at hr
  have hst := stepTreat_nt y1 r.1.cstep k st w (by rw [f1, f3]; omega) (by rw [hK', f1]; omega)
  rw [hT] at hst
  refine ⟨hr, hst, rfl, ?_, ?_⟩
  · show ¬ (r.1.cstep + r.1.workers ≤ r.1.cstep)
    rw [c2, f2, hw]; omega
  · unfold loop
    rw [if_pos (by show (setTS r.1 r.1.cstep).cstep ≥ (setTS r.1 r.1.cstep).tsteps; exact Nat.le_refl _)]

/-! ### the start-up of a fresh or restarted one-worker run with nothing on record does not read `steps` either -/

theorem initiate_setTS (s : St) (d : Nat) (h1 : (s.cstep : Int) + ((s.workers : Int) - s.toinitiate) < (s.tsteps : Int) ∨ s.toinitiate ≤ 0)
    (h2 : (s.cstep : Int) + ((s.workers : Int) - s.toinitiate) < (d : Int) ∨ s.toinitiate ≤ 0)
    (h3 : s.cstep < s.tsteps) (h4 : s.cstep < d) :
    initiate (setTS s d) = (setTS (initiate s).1 d, (initiate s).2) := by
  unfold initiate
  have e1 : (setTS s d).cstep = s.cstep := rfl
  have e2 : (setTS s d).tsteps = d := rfl
  have e3 : (setTS s d).toinitiate = s.toinitiate := rfl
  have e4 : (setTS s d).workers = s.workers := rfl
  rw [e1, e2, e3, e4]
  rw [if_neg (show ¬ ¬ s.cstep < d by omega), if_neg (show ¬ ¬ s.cstep < s.tsteps by omega)]
  have c1 : ¬ (s.toinitiate > 0 ∧ (s.cstep : Int) + ((s.workers : Int) - s.toinitiate) ≥ (d : Int)) := by omega
  have c2 : ¬ (s.toinitiate > 0 ∧ (s.cstep : Int) + ((s.workers : Int) - s.toinitiate) ≥ (s.tsteps : Int)) := by omega
  simp only [c1, c2, if_false]
  rfl

theorem prep_setTS_fresh (s : St) (prev : Option Nat) (o : PickOutcome) (sv d : Nat) (h : s.locked0 = []) :
    prep (setTS s d) prev o sv = (prep s prev o sv).map (mapP d) := by
  by_cases hti : s.toinitiate < 0
  · exact prep_setTS s prev o sv d hti
  · unfold prep
    have e0 : (setTS s d).toinitiate = s.toinitiate := rfl
    have hge : s.toinitiate ≥ 0 := by omega
    have hpl : pickLock (setTS s d) o sv = (pickLock s o sv).map (mapP d) := by
      unfold pickLock
      have e1 : (setTS s d).locked0 = s.locked0 := rfl
      rw [e1, h]
      simp only []
      have e2 : restoreStreamOnce (setTS s d) sv = setTS (restoreStreamOnce s sv) d := by
        unfold restoreStreamOnce
        simp only [show (setTS s d).restarted = s.restarted from rfl, show (setTS s d).rgenRestored = s.rgenRestored from rfl]
        split <;> rfl
      rw [e2]
      exact pick_setTS _ o d
    simp only [e0, if_pos hge, hpl]
    cases pickLock s o sv with
    | error e => rfl
    | ok r =>
      obtain ⟨s1, ps, ds⟩ := r
      simp only [Except.map, mapP]
      have ec : (setTS s d).cworker = s.cworker := rfl
      simp only [ec, show (setTS s1 d).ensEng = s1.ensEng from rfl, show (setTS s1 d).occ = s1.occ from rfl]
      cases assignEngines s1.occ
          (dedup (List.map (fun p => s1.ensEng.getD (p.ens + 1).toNat []) ps).flatten) s.cworker with
      | error e => rfl
      | ok r2 =>
        obtain ⟨occ', idx⟩ := r2
        simp only []
        split <;> rfl

/-- the start-up `.start o sv`, `.initDone` of a one-worker run with nothing on record, `steps = d ≥ cstep + 1` -/
theorem startup_nt (y : Sys) (d : Nat) (o : PickOutcome) (sv : Nat) (hw : y.s.workers = 1) (hti : y.s.toinitiate = 1)
    (hl0 : y.s.locked0 = []) (h3 : y.s.cstep < y.s.tsteps) (h4 : y.s.cstep < d) :
    run (nt d y) [.start o sv, .initDone] = (run y [.start o sv, .initDone]).map (nt d) := by
  have hi := initiate_setTS y.s d (by rw [hw, hti]; left; omega) (by rw [hw, hti]; left; omega) h3 h4
  have hi1 : (initiate y.s).1.locked0 = [] := by
    unfold initiate
    split
    · exact hl0
    · exact hl0
  simp only [run, sysStep, nt, hi]
  cases hgo : (initiate y.s).2 with
  | false => rfl
  | true =>
    simp only [not_true_eq_false, if_false]
    rw [prep_setTS_fresh _ none o sv d hi1]
    cases hp : prep (initiate y.s).1 none o sv with
    | error e => rfl
    | ok r =>
      obtain ⟨s2, job, ds⟩ := r
      simp only [Except.map, mapP]
      -- the closing initiate(): counters of s2 = those of (initiate y.s).1
      have hc := ctr_prep hp
      unfold ctr at hc
      simp only [Ctr.mk.injEq] at hc
      have hti2 : s2.toinitiate = 0 := by
        rw [hc.2.2.2]
        unfold initiate
        rw [if_neg (by omega)]
        have c2 : ¬ (y.s.toinitiate > 0 ∧ (y.s.cstep : Int) + ((y.s.workers : Int) - y.s.toinitiate) ≥ (y.s.tsteps : Int)) := by
          rw [hw, hti]; omega
        simp only [c2, if_false]
        show y.s.toinitiate - 1 = 0
        rw [hti]; rfl
      have hcs : s2.cstep = y.s.cstep := by
        rw [hc.1]; unfold initiate; split <;> rfl
      have hts : s2.tsteps = y.s.tsteps := by
        rw [hc.2.1]; unfold initiate; split <;> rfl
      have hi2 := initiate_setTS s2 d (by right; omega) (by right; omega) (by rw [hcs, hts]; exact h3) (by rw [hcs]; exact h4)
      rw [hi2]
      cases (initiate s2).2 <;> rfl

/-- after the start-up of a one-worker run the initiation is closed and the counters are where they were -/
theorem initiate_ctr3 (s : St) : (initiate s).1.cstep = s.cstep ∧ (initiate s).1.tsteps = s.tsteps ∧
    (initiate s).1.workers = s.workers := by
  unfold initiate
  split <;> exact ⟨rfl, rfl, rfl⟩

theorem initiate_ti6 (s : St) (h1 : s.cstep < s.tsteps)
    (h2 : ¬ (s.toinitiate > 0 ∧ (s.cstep : Int) + ((s.workers : Int) - s.toinitiate) ≥ (s.tsteps : Int))) :
    (initiate s).1.toinitiate = s.toinitiate - 1 := by
  unfold initiate
  rw [if_neg (show ¬ ¬ s.cstep < s.tsteps by omega)]
  simp only [h2, if_false]

theorem startup_facts {y ya : Sys} {o : PickOutcome} {sv : Nat} (hw : y.s.workers = 1) (hti : y.s.toinitiate = 1)
    (h : run y [.start o sv, .initDone] = .ok ya) :
    ya.s.toinitiate = -1 ∧ ya.s.workers = 1 ∧ ya.s.cstep = y.s.cstep ∧ ya.s.tsteps = y.s.tsteps := by
  have hlt : y.s.cstep < y.s.tsteps := by
    by_contra hn
    simp only [run, sysStep] at h
    have : (initiate y.s).2 = false := by
      unfold initiate
      rw [if_pos hn]
    rw [this] at h
    simp at h
  simp only [run, sysStep] at h
  cases hgo : (initiate y.s).2 with
  | false => rw [hgo] at h; simp at h
  | true =>
    rw [hgo] at h
    simp only [not_true_eq_false, if_false] at h
    cases hp : prep (initiate y.s).1 none o sv with
    | error e => rw [hp] at h; simp at h
    | ok r =>
      obtain ⟨s2, job, ds⟩ := r
      rw [hp] at h
      simp only [] at h
      have hc := ctr_prep hp
      unfold ctr at hc
      simp only [Ctr.mk.injEq] at hc
      obtain ⟨i1, i2, i3⟩ := initiate_ctr3 y.s
      have i4 := initiate_ti6 y.s hlt (by rw [hw, hti]; omega)
      have g1 : s2.toinitiate = 0 := by rw [hc.2.2.2, i4, hti]; rfl
      have g2 : s2.cstep = y.s.cstep := by rw [hc.1, i1]
      have g3 : s2.tsteps = y.s.tsteps := by rw [hc.2.1, i2]
      have g4 : s2.workers = 1 := by rw [hc.2.2.1, i3, hw]
      cases hg2 : (initiate s2).2 with
      | true => rw [hg2] at h; simp at h
      | false =>
        rw [hg2] at h
        simp only [Bool.false_eq_true, if_false, Except.ok.injEq] at h
        rw [← h]
        obtain ⟨j1, j2, j3⟩ := initiate_ctr3 s2
        have j4 := initiate_ti6 s2 (by rw [g2, g3]; exact hlt) (by rw [g1]; omega)
        exact ⟨by show (initiate s2).1.toinitiate = -1; rw [j4, g1]; rfl,
               by show (initiate s2).1.workers = 1; rw [j3, g4],
               by show (initiate s2).1.cstep = y.s.cstep; rw [j1, g2],
               by show (initiate s2).1.tsteps = y.s.tsteps; rw [j2, g3]⟩

/-- **graceful stop = kill, one worker, from the start state**: the short run (`steps = K`) of the same configuration,
    seed and outcomes goes through the states of the long one (up to `steps`), its K-th `treat_output` leaves the state of
    the long run's with `steps = K`, no further job is issued, `loop()` answers False — and the restart file it leaves
    (written by that `treat_output` and once more by `loop()`, from the same state) is `persist r.1`. -/
theorem graceful_stop_from_start {y0 y : Sys} (hw : y0.s.workers = 1) (hti : y0.s.toinitiate = 1)
    (hl0 : y0.s.locked0 = []) (o0 : PickOutcome) (sv0 : Nat) (steps1 : List Ev) (hs : StepsOnly steps1)
    (k : Nat) (st : Status) (w : List (List Rat)) {r : St × Job × List Job}
    (h1 : run y0 (.start o0 sv0 :: .initDone :: steps1) = .ok y) (hT : stepTreat y k st w = .ok r)
    (hK : r.1.cstep < r.1.tsteps) :
    run (nt r.1.cstep y0) (.start o0 sv0 :: .initDone :: steps1) = .ok (nt r.1.cstep y) ∧
      stepTreat (nt r.1.cstep y) k st w = .ok (setTS r.1 r.1.cstep, r.2) ∧
      persist (setTS r.1 r.1.cstep) = persist r.1 ∧
      ¬ ((setTS r.1 r.1.cstep).cstep + (setTS r.1 r.1.cstep).workers ≤ (setTS r.1 r.1.cstep).tsteps) ∧
      (loop (setTS r.1 r.1.cstep)).2 = false := by
  have hsplit : (Ev.start o0 sv0 :: Ev.initDone :: steps1) = [Ev.start o0 sv0, Ev.initDone] ++ steps1 := rfl
  rw [hsplit] at h1 ⊢
  obtain ⟨ya, ha, hb⟩ := run_append_inv _ _ h1
  obtain ⟨a1, a2, a3, a4⟩ := startup_facts hw hti ha
  obtain ⟨c1, _, c3⟩ := stepTreat_ctr hT
  obtain ⟨g1, g2, g3, g4, g5⟩ := graceful_stop_image a2 a1 steps1 hs k st w hb hT hK
  refine ⟨?_, g2, g3, g4, g5⟩
  -- counters: K > cstep of y0
  have hcnt : ∀ (evs : List Ev) (a b : Sys), StepsOnly evs → run a evs = .ok b → b.s.cstep = a.s.cstep + evs.length ∧
      b.s.tsteps = a.s.tsteps := by
    intro evs
    induction evs with
    | nil => intro a b _ h; simp only [run, Except.ok.injEq] at h; subst h; exact ⟨rfl, rfl⟩
    | cons ev rest ih =>
      intro a b hs h
      cases ev with
      | start o sv => exact hs.elim
      | initDone => exact hs.elim
      | step k st w o =>
        simp only [run] at h
        cases hy : sysStep a (.step k st w o) with
        | error e => rw [hy] at h; exact absurd h (by simp)
        | ok a' =>
          rw [hy] at h
          obtain ⟨d1, _, d3, _⟩ := sysStep_step_ctr hy
          obtain ⟨e1, e3⟩ := ih a' b hs h
          exact ⟨by rw [e1, d1, List.length_cons]; omega, by rw [e3, d3]⟩
  obtain ⟨f1, f3⟩ := hcnt steps1 ya y hs hb
  have hKgt : y0.s.cstep < r.1.cstep := by rw [c1, f1, a3]; omega
  have hlt0 : y0.s.cstep < y0.s.tsteps := by
    have : r.1.tsteps = y0.s.tsteps := by rw [c3, f3, a4]
    omega
  have hst := startup_nt y0 r.1.cstep o0 sv0 hw hti hl0 hlt0 hKgt
  rw [ha] at hst
  have : run (nt r.1.cstep y0) ([Ev.start o0 sv0, Ev.initDone] ++ steps1) =
      (match run (nt r.1.cstep y0) [Ev.start o0 sv0, Ev.initDone] with
       | Except.error e => Except.error e
       | Except.ok ym => run ym steps1) := by
    simp only [List.cons_append, List.nil_append, run]
    cases sysStep (nt r.1.cstep y0) (Ev.start o0 sv0) with
    | error e => rfl
    | ok y1 =>
      simp only []
      cases sysStep y1 Ev.initDone with
      | error e => rfl
      | ok y2 => rfl
  rw [this, hst]
  exact g1

end Infretis.Repex
