import Infretis.Lemmas.RepexC06Reissue
import Infretis.Lemmas.RepexCtr
/-
C06, part 8: several workers.  Two scheduler states that agree on everything the sampler reads — up to WHICH worker
(pin / work folder / engine instance) holds which job — stay so under the same completions.

After a restart with W > 1 workers the recorded jobs are re-issued to the workers 0, 1, … in recorded order, so the
pins (and with them `cworker`, the engine table `occ` and the `engIdx` of the jobs) differ from those of the
uninterrupted run.  Nothing the sampler decides depends on them: `RM` relates two systems by `ObsR False` (all of
`ObsR` except `occ`/`toinitiate`), both initiations closed, and the jobs in flight equal position by position in
what `treat_output` and the workers read of them (`jobKey`: per picked ensemble the ensemble number, the path and
the two stream identities; the list of old path numbers).
-/
namespace Infretis.Repex
open Infretis.Perm

variable {p : Prop} {t0 : Int} {ra rb : List Row} {a b : St}

/-- what a job is, apart from the worker it runs on: (ensemble, path, move stream, engine stream) per picked
    ensemble, and the old path numbers -/
def jobKey (j : Job) : List (Int × Nat × Stream × Stream) × List Nat := (j.picked.map pkFull, j.pnumOld)

/-- position by position the same jobs, up to pins and engine slots -/
def JobsEq (xs ys : List Job) : Prop := xs.map jobKey = ys.map jobKey

/-- two scheduler states, equal up to who runs what -/
structure RM (ra rb : List Row) (x y : Sys) : Prop where
  obs : ObsR False 0 ra rb x.s y.s
  tx : x.s.toinitiate = -1
  ty : y.s.toinitiate = -1
  jobs : JobsEq x.jobs y.jobs

theorem JobsEq.get {xs ys : List Job} (h : JobsEq xs ys) {k : Nat} {j : Job} (hk : xs[k]? = some j) :
    ∃ j', ys[k]? = some j' ∧ jobKey j = jobKey j' := by
  have h1 : (xs.map jobKey)[k]? = (ys.map jobKey)[k]? := by rw [h]
  rw [List.getElem?_map, List.getElem?_map, hk] at h1
  cases hy : ys[k]? with
  | none => rw [hy] at h1; simp at h1
  | some j' => rw [hy] at h1; simp only [Option.map_some, Option.some.injEq] at h1; exact ⟨j', rfl, h1⟩

theorem map_eraseIdx6 {α β : Type} (f : α → β) : ∀ (l : List α) (k : Nat), (l.eraseIdx k).map f = (l.map f).eraseIdx k
  | [], _ => rfl
  | _ :: _, 0 => rfl
  | x :: t, k + 1 => by simp only [List.eraseIdx_cons_succ, List.map_cons, map_eraseIdx6 f t k]

theorem JobsEq.eraseIdx {xs ys : List Job} (h : JobsEq xs ys) (k : Nat) : JobsEq (xs.eraseIdx k) (ys.eraseIdx k) := by
  unfold JobsEq at h ⊢
  rw [map_eraseIdx6, map_eraseIdx6, h]

theorem ctr_ti {s s' : St} (h : ctr s' = ctr s) : s'.toinitiate = s.toinitiate := by
  unfold ctr at h
  simp only [Ctr.mk.injEq] at h
  exact h.2.2.2

theorem JobsEq.append {xs ys : List Job} (h : JobsEq xs ys) {j j' : Job} (hj : jobKey j = jobKey j') :
    JobsEq (xs ++ [j]) (ys ++ [j']) := by
  unfold JobsEq at h ⊢
  rw [List.map_append, List.map_append, h]
  simp [hj]

/-! ### `treat_output` reads of a job only the ensembles, the paths and `pnum_old` -/

def nrm1 (q : Picked) : Picked := { ens := q.ens, pn := q.pn, rgen := ⟨0, []⟩, rgenEng := ⟨0, []⟩, engIdx := [] }

def nrmP (x : Picked × List Rat) : Picked × List Rat := (nrm1 x.1, x.2)

theorem perEns_nrm (status : Status) : ∀ (l : List (Picked × List Rat)) (s : St) (tn : Nat),
    treatOutput.perEns status s tn (l.map nrmP) = treatOutput.perEns status s tn l := by
  intro l
  induction l with
  | nil => intro s tn; rfl
  | cons x tl ih =>
    intro s tn
    obtain ⟨pk, w⟩ := x
    simp only [List.map_cons, nrmP, nrm1, treatOutput.perEns, ih]

theorem nrm_of_key {l l' : List Picked} (h : l.map pkFull = l'.map pkFull) : l.map nrm1 = l'.map nrm1 := by
  have : ∀ (m : List Picked), m.map nrm1 = (m.map pkFull).map
      (fun q => ({ ens := q.1, pn := q.2.1, rgen := ⟨0, []⟩, rgenEng := ⟨0, []⟩, engIdx := [] } : Picked)) := by
    intro m
    rw [List.map_map]
    rfl
  rw [this l, this l', h]

theorem zip_nrm (l : List Picked) (ws : List (List Rat)) : (l.zip ws).map nrmP = (l.map nrm1).zip ws := by
  induction l generalizing ws with
  | nil => rfl
  | cons x tl ih =>
    cases ws with
    | nil => rfl
    | cons w ws => simp only [List.zip_cons_cons, List.map_cons, ih]; rfl

theorem loop_toinit (s : St) : (loop s).1.toinitiate = s.toinitiate := by
  unfold loop
  split <;> rfl

theorem sortStep_relT (h : ObsR p t0 ra rb a b) (hta : a.toinitiate = b.toinitiate) :
    RelE (fun x y => match x, y with
                     | none, none => True
                     | some x, some y => ObsR p t0 ra rb x y
                     | _, _ => False) (sortStep a) (sortStep b) := by
  unfold sortStep needsToMove
  simp only []
  rw [lockedPaths_eq h, h.n, h.W, hta, h.trajs]
  split
  · simp [RelE]
  · split
    · simp [RelE]
    · split
      · simp [RelE]
      · simp only [RelE]
        exact swap_rel h _ _

theorem sortTrajstate_relT : ∀ (fuel : Nat) {a b : St}, ObsR p t0 ra rb a b → a.toinitiate = b.toinitiate →
    RelE (RS p t0 ra rb) (sortTrajstate fuel a) (sortTrajstate fuel b) := by
  intro fuel
  induction fuel with
  | zero => intro a b h _; simp [sortTrajstate, RelE]
  | succ k ih =>
    intro a b h hta
    simp only [sortTrajstate]
    have h1 := sortStep_relT h hta
    cases ha : sortStep a with
    | error e => rw [ha] at h1; rw [h1.error_left]; simp [RelE]
    | ok oa =>
      rw [ha] at h1
      obtain ⟨ob, hb, h2⟩ := h1.ok_left
      rw [hb]
      cases oa with
      | none =>
        cases ob with
        | none => simp only [RelE, RS, and_true]; exact h
        | some _ => exact h2.elim
      | some a' =>
        cases ob with
        | none => exact h2.elim
        | some b' =>
          simp only []
          have hta' : a'.toinitiate = b'.toinitiate := by
            rw [(ctr_ti (ctr_sortStep ha)), (ctr_ti (ctr_sortStep hb))]; exact hta
          have h3 := ih (a := a') (b := b') h2 hta'
          cases ha3 : sortTrajstate k a' with
          | error e => rw [ha3] at h3; rw [h3.error_left]; simp [RelE]
          | ok r =>
            rw [ha3] at h3
            obtain ⟨r', hb3, h4, h4'⟩ := h3.ok_left
            rw [hb3]
            obtain ⟨a4, it⟩ := r
            obtain ⟨b4, it'⟩ := r'
            simp only [] at h4'
            subst h4'
            simp only [RelE, RS, and_true]
            exact h4

/-- `treat_output` on observationally equal samplers (engine tables may differ) for two jobs with the same key:
    same error, or observationally equal results and the same new path numbers / sort iterations -/
theorem treatOutput_relJ (h : ObsR p t0 ra rb a b) (hta : a.toinitiate = b.toinitiate)
    {j j' : Job} (hj : jobKey j = jobKey j') (status : Status) (newW : List (List Rat)) (fuel : Nat) :
    RelE (RS p t0 ra rb) (treatOutput a j status newW fuel) (treatOutput b j' status newW fuel) := by
  simp only [jobKey, Prod.mk.injEq] at hj
  obtain ⟨hpk, hpo⟩ := hj
  have hlen : j.picked.length = j'.picked.length := by
    have := congrArg List.length hpk
    simpa using this
  have hws : (if status = .acc then newW else j.picked.map (fun _ => ([] : List Rat))) =
      (if status = .acc then newW else j'.picked.map (fun _ => ([] : List Rat))) := by
    split
    · rfl
    · apply List.ext_getElem
      · simp [hlen]
      · intro i h1 h2; simp
  unfold treatOutput
  simp only []
  rw [hws, hlen, hpo]
  generalize (if status = .acc then newW else j'.picked.map (fun _ => [])) = ws
  split
  · simp [RelE]
  · rw [h.trajNum]
    rw [← perEns_nrm status (j.picked.zip ws), ← perEns_nrm status (j'.picked.zip ws), zip_nrm, zip_nrm, nrm_of_key hpk]
    have h1 := perEns_rel status ((j'.picked.map nrm1).zip ws) b.trajNum h
    cases ha1 : treatOutput.perEns status a b.trajNum ((j'.picked.map nrm1).zip ws) with
    | error e => rw [ha1] at h1; rw [h1.error_left]; simp [RelE]
    | ok r1 =>
      rw [ha1] at h1
      obtain ⟨r1', hb1, h2, h2'⟩ := h1.ok_left
      rw [hb1]
      obtain ⟨a1, tn, pns⟩ := r1
      obtain ⟨b1, tn', pns'⟩ := r1'
      simp only [Prod.mk.injEq] at h2'
      obtain ⟨rfl, rfl⟩ := h2'
      simp only [] at h2 ⊢
      have h3 := recordFrac_rel h2
      cases ha2 : recordFrac a1 with
      | error e => rw [ha2] at h3; rw [h3.error_left]; simp [RelE]
      | ok a2 =>
        rw [ha2] at h3
        obtain ⟨b2, hb2, h4⟩ := h3.ok_left
        rw [hb2]
        simp only []
        have h5 : RelE (ObsR p t0 ra rb) (if status = .acc then writeRows a2 j'.pnumOld else .ok a2)
            (if status = .acc then writeRows b2 j'.pnumOld else .ok b2) := by
          split
          · exact writeRows_rel _ h4
          · exact h4
        cases ha3 : (if status = .acc then writeRows a2 j'.pnumOld else Except.ok a2) with
        | error e => rw [ha3] at h5; rw [h5.error_left]; simp [RelE]
        | ok a3 =>
          rw [ha3] at h5
          obtain ⟨b3, hb3, h6⟩ := h5.ok_left
          rw [hb3]
          simp only []
          have hta3 : a3.toinitiate = b3.toinitiate := by
            have e1 := (ctr_ti (ctr_perEns status _ ha1))
            have e1' := (ctr_ti (ctr_perEns status _ hb1))
            have e2 := (ctr_ti (ctr_recordFrac ha2))
            have e2' := (ctr_ti (ctr_recordFrac hb2))
            have e3 : a3.toinitiate = a2.toinitiate := by
              split at ha3
              · exact (ctr_ti (ctr_writeRows _ ha3))
              · simp only [Except.ok.injEq] at ha3; rw [ha3]
            have e3' : b3.toinitiate = b2.toinitiate := by
              split at hb3
              · exact (ctr_ti (ctr_writeRows _ hb3))
              · simp only [Except.ok.injEq] at hb3; rw [hb3]
            rw [e3, e2, e1, e3', e2', e1', hta]
          have h7 := sortTrajstate_relT fuel h6 hta3
          cases ha4 : sortTrajstate fuel a3 with
          | error e => rw [ha4] at h7; rw [h7.error_left]; simp [RelE]
          | ok r4 =>
            rw [ha4] at h7
            obtain ⟨r4', hb4, h8, h8'⟩ := h7.ok_left
            rw [hb4]
            obtain ⟨a4, it⟩ := r4
            obtain ⟨b4, it'⟩ := r4'
            simp only [] at h8'
            subst h8'
            simp only [RelE, RS, and_true]
            exact { h8 with trajNum := rfl }

/-! ### the two halves of a `.step` -/

/-- what the two sides hold between `treat_output` and the next pick -/
structure RMid (ra rb : List Row) (rx ry : St × Job × List Job) : Prop where
  obs : ObsR False 0 ra rb rx.1 ry.1
  tx : rx.1.toinitiate = -1
  ty : ry.1.toinitiate = -1
  done : jobKey rx.2.1 = jobKey ry.2.1
  jobs : JobsEq rx.2.2 ry.2.2

theorem stepTreat_relM {x y : Sys} (h : RM ra rb x y) (k : Nat) (st : Status) (w : List (List Rat))
    {rx : St × Job × List Job} (hx : stepTreat x k st w = .ok rx) :
    ∃ ry, stepTreat y k st w = .ok ry ∧ RMid ra rb rx ry := by
  obtain ⟨hs, htx, hty, hj⟩ := h
  obtain ⟨hl, hgo⟩ := loop_rel hs
  simp only [stepTreat] at hx ⊢
  rw [← hgo]
  split at hx
  · exact absurd hx (by simp)
  · rename_i hgo1
    rw [if_neg hgo1]
    cases hkx : x.jobs[k]? with
    | none => rw [hkx] at hx; exact absurd hx (by simp)
    | some jx =>
      obtain ⟨jy, hky, hjj⟩ := hj.get hkx
      rw [hkx] at hx
      rw [hky]
      simp only [] at hx ⊢
      have hf : sortFuel (loop x.s).1 = sortFuel (loop y.s).1 := by unfold sortFuel; rw [hl.n]
      rw [hf] at hx
      have hlt : (loop x.s).1.toinitiate = (loop y.s).1.toinitiate := by
        rw [loop_toinit, loop_toinit, htx, hty]
      have h1 := treatOutput_relJ hl hlt hjj st w (sortFuel (loop y.s).1)
      cases ha : treatOutput (loop x.s).1 jx st w (sortFuel (loop y.s).1) with
      | error e => rw [ha] at hx; exact absurd hx (by simp)
      | ok r =>
        rw [ha] at h1 hx
        obtain ⟨r', hb, h2, _⟩ := h1.ok_left
        rw [hb]
        obtain ⟨a2, pns, it⟩ := r
        obtain ⟨b2, pns', it'⟩ := r'
        simp only [Except.ok.injEq] at hx
        subst hx
        refine ⟨_, rfl, h2, ?_, ?_, hjj, hj.eraseIdx k⟩
        · show a2.toinitiate = -1
          rw [(ctr_ti (ctr_treatOutput ha)), loop_toinit]; exact htx
        · show b2.toinitiate = -1
          rw [(ctr_ti (ctr_treatOutput hb)), loop_toinit]; exact hty

theorem prepTail_pnum {s1 s' : St} {ps : List Picked} {ds ds' : List Draw} {pin? : Option Nat} {job : Job}
    (h : prepTail s1 ps ds pin? = .ok (s', job, ds')) : job.pnumOld = ps.map (·.pn) := by
  unfold prepTail at h
  split at h
  · exact absurd h (by simp)
  · simp only [] at h
    split at h
    · exact absurd h (by simp)
    · split at h
      · exact absurd h (by simp)
      · simp only [Except.ok.injEq, Prod.mk.injEq] at h
        obtain ⟨_, h2, _⟩ := h
        subst h2
        simp [List.map_map, Function.comp_def]

theorem prepTail_key {s1 s1' s2 s2' : St} {ps : List Picked} {ds d1 d2 : List Draw} {pa pb : Option Nat} {ja jb : Job}
    (ha : prepTail s1 ps ds pa = .ok (s2, ja, d1)) (hb : prepTail s1' ps ds pb = .ok (s2', jb, d2)) :
    jobKey ja = jobKey jb := by
  simp only [jobKey, Prod.mk.injEq]
  exact ⟨(prepTail_ok ha).2.trans (prepTail_ok hb).2.symm, (prepTail_pnum ha).trans (prepTail_pnum hb).symm⟩

/-- the restarted side stops in the engine assignment of `prep_md_items` (no free engine instance for the worker) -/
def EngFail (r : Except Err Sys) : Prop :=
  ∃ s1 ps ds pin e, prepTail s1 ps ds (some pin) = .error e ∧ r = .error e

/-- relation between the samplers after a pick and the engine assignment: everything but the engine table -/
theorem prepTail_obs {a1 b1 a3 b3 : St} (h : ObsR False t0 ra rb a1 b1) {ps : List Picked} {ds d1 d2 : List Draw}
    {pa pb : Option Nat} {ja jb : Job}
    (ha : prepTail a1 ps ds pa = .ok (a3, ja, d1)) (hb : prepTail b1 ps ds pb = .ok (b3, jb, d2)) :
    ObsR False t0 ra rb a3 b3 := by
  obtain ⟨⟨oa, hoa⟩, _⟩ := prepTail_ok ha
  obtain ⟨⟨ob, hob⟩, _⟩ := prepTail_ok hb
  subst hoa; subst hob
  exact { h with toinitiate := fun f => f.elim, occ := fun f => f.elim }

theorem stepPrep_relM {rx ry : St × Job × List Job} (h : RMid ra rb rx ry) (o : PickOutcome) {x' : Sys}
    (hx : stepPrep rx o = .ok x') :
    (∃ y', stepPrep ry o = .ok y' ∧ RM ra rb x' y') ∨ EngFail (stepPrep ry o) := by
  obtain ⟨hs, htx, hty, hd, hj⟩ := h
  simp only [stepPrep] at hx ⊢
  rw [← hs.cstep, ← hs.workers, ← hs.tsteps]
  split at hx
  · rename_i hle
    rw [if_pos hle]
    rw [prep_eq_tail] at hx ⊢
    have hna : ¬ rx.1.toinitiate ≥ 0 := by omega
    have hnb : ¬ ry.1.toinitiate ≥ 0 := by omega
    simp only [hna, hnb, if_false] at hx ⊢
    have h1 := pick_rel hs o
    cases ha : pick rx.1 o with
    | error e => rw [ha] at hx; exact absurd hx (by simp)
    | ok r =>
      rw [ha] at h1 hx
      obtain ⟨r', hb, h2, h2'⟩ := h1.ok_left
      rw [hb]
      obtain ⟨a1, ps, ds⟩ := r
      obtain ⟨b1, ps', ds'⟩ := r'
      simp only [Prod.mk.injEq] at h2'
      obtain ⟨rfl, rfl⟩ := h2'
      simp only [] at h2 hx ⊢
      cases ha3 : prepTail a1 ps ds (some rx.2.1.pin) with
      | error e => rw [ha3] at hx; exact absurd hx (by simp)
      | ok r3 =>
        rw [ha3] at hx
        obtain ⟨a3, jobU, dsU⟩ := r3
        simp only [Except.ok.injEq] at hx
        subst hx
        cases hb3 : prepTail b1 ps ds (some ry.2.1.pin) with
        | error e => right; exact ⟨b1, ps, ds, ry.2.1.pin, e, hb3, rfl⟩
        | ok r3' =>
          left
          obtain ⟨b3, jobR, dsR⟩ := r3'
          refine ⟨_, rfl, prepTail_obs h2 ha3 hb3, ?_, ?_, hj.append (prepTail_key ha3 hb3)⟩
          · show a3.toinitiate = -1
            rw [(prepTail_frame ha3).2.2.2, (pick_frame ha).toinitiate]; exact htx
          · show b3.toinitiate = -1
            rw [(prepTail_frame hb3).2.2.2, (pick_frame hb).toinitiate]; exact hty
  · rename_i hle
    rw [if_neg hle]
    simp only [Except.ok.injEq] at hx
    subst hx
    left
    exact ⟨_, rfl, hs, htx, hty, hj⟩

/-- **one scheduler step, several workers**: if the uninterrupted side performs the step, the other side performs
    it too and the two stay related — unless the other side has no free engine instance for the worker (C03 proves
    that this does not happen when every engine type has as many instances as workers can use). -/
theorem sysStep_step_relM {x y x' : Sys} (h : RM ra rb x y) (k : Nat) (st : Status) (w : List (List Rat))
    (o : PickOutcome) (hx : sysStep x (.step k st w o) = .ok x') :
    (∃ y', sysStep y (.step k st w o) = .ok y' ∧ RM ra rb x' y') ∨ EngFail (sysStep y (.step k st w o)) := by
  rw [sysStep_eq_halves] at hx ⊢
  cases hT : stepTreat x k st w with
  | error e => rw [hT] at hx; exact absurd hx (by simp)
  | ok rx =>
    rw [hT] at hx
    obtain ⟨ry, hTy, hmid⟩ := stepTreat_relM h k st w hT
    rw [hTy]
    exact stepPrep_relM hmid o hx

theorem engFail_not_ok {r : Except Err Sys} {y : Sys} (h : EngFail r) (hr : r = .ok y) : False := by
  obtain ⟨_, _, _, _, e, _, he⟩ := h
  rw [he] at hr
  exact absurd hr (by simp)

/-- a whole run of `.step` events, both sides completing -/
theorem run_steps_relM : ∀ (evs : List Ev) {x y xN yN : Sys}, StepsOnly evs → RM ra rb x y →
    run x evs = .ok xN → run y evs = .ok yN → RM ra rb xN yN := by
  intro evs
  induction evs with
  | nil =>
    intro x y xN yN _ h hx hy
    simp only [run, Except.ok.injEq] at hx hy
    subst hx; subst hy
    exact h
  | cons ev rest ih =>
    intro x y xN yN hs h hx hy
    cases ev with
    | start o sv => exact hs.elim
    | initDone => exact hs.elim
    | step k st w o =>
      simp only [run] at hx hy
      cases hx1 : sysStep x (.step k st w o) with
      | error e => rw [hx1] at hx; exact absurd hx (by simp)
      | ok x1 =>
        rw [hx1] at hx
        cases hy1 : sysStep y (.step k st w o) with
        | error e => rw [hy1] at hy; exact absurd hy (by simp)
        | ok y1 =>
          rw [hy1] at hy
          rcases sysStep_step_relM h k st w o hx1 with ⟨y1', h1, h2⟩ | hf
          · rw [hy1] at h1
            simp only [Except.ok.injEq] at h1
            subst h1
            exact ih hs h2 hx hy
          · exact (engFail_not_ok hf hy1).elim

end Infretis.Repex
