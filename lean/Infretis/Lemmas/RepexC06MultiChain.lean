import Infretis.Lemmas.RepexC06MultiRestart
import Infretis.Lemmas.RepexC06Chain
/-
C06, part 10: restart equivalence with several workers — one restart, and chains of restarts by induction.
-/
namespace Infretis.Repex
open Infretis.Perm

/-- composition of two `ObsR False` relations, the middle run restarted with an empty row base -/
theorem ObsR.compF {t t' : Int} {ra rb' rc : List Row} {a b c : St}
    (h1 : ObsR False t ra [] a b) (h2 : ObsR False t' rb' rc b c) : ObsR False t (ra ++ rb') rc a c := by
  obtain ⟨r1, ha1, hb1⟩ := h1.rows
  obtain ⟨r2, hb2, hc2⟩ := h2.rows
  have hr : r1 = rb' ++ r2 := by
    simp only [List.nil_append] at hb1
    rw [← hb1, hb2]
  exact
    { n := h1.n.trans h2.n, W := h1.W.trans h2.W, trajs := h1.trajs.trans h2.trajs, locks := h1.locks.trans h2.locks,
      locked := h1.locked.trans h2.locked, locked0 := h1.locked0.trans h2.locked0,
      lockedOrd := h1.lockedOrd.trans h2.lockedOrd, locked0Ord := h1.locked0Ord.trans h2.locked0Ord,
      workers := h1.workers.trans h2.workers, cstep := h1.cstep.trans h2.cstep, tsteps := h1.tsteps.trans h2.tsteps,
      trajNum := h1.trajNum.trans h2.trajNum, frac := h1.frac.trans h2.frac, wts := h1.wts.trans h2.wts,
      ensEng := h1.ensEng.trans h2.ensEng, seed := h1.seed.trans h2.seed, entropy := h1.entropy.trans h2.entropy,
      spawned := h1.spawned.trans h2.spawned, mainDraws := h1.mainDraws.trans h2.mainDraws,
      toinitiate := fun f => f.elim, occ := fun f => f.elim,
      rows := ⟨r2, by rw [ha1, hr, List.append_assoc], hc2⟩ }

/-- **restart equivalence, several workers, one restart.**  The uninterrupted run is at `y` and executes
    `.step k st w o` followed by `.step` events `rest`, reaching `yN`.  Split the first step where the restart file is
    written: `stepTreat` leaves `r = (sampler, completed job, jobs still in flight)`, a fresh job being due
    (`cstep + workers ≤ tsteps`).  `s'` is what the restart rebuilds from the file (`RestoreRelM`), `recs` the recorded
    jobs with their ordinals (`StopM`: they are the jobs in flight, each path in its recorded slot).  The restarted run
    — `|recs|` initiation iterations (re-issues), one more with the saved stream position, the closing `.initDone`, the
    same `rest` (same completion positions = same job ordinals, same outcomes) — if it completes, ends equal to `yN`
    up to who runs what: same W, slots, locks, records and their ordinals, counters, stream position, spawn ordinal,
    tables; jobs in flight with the same (ensemble, path, stream identities), position by position; the same rows
    appended after the stop. -/
theorem restart_run_multi {occ : List (List Int)} {recs : List ((List Nat × List Nat) × Nat)} {y : Sys} {s' : St}
    (k : Nat) (st : Status) (w : List (List Rat)) (o : PickOutcome) (rest : List Ev) (r : St × Job × List Job)
    (hT : stepTreat y k st w = .ok r) (hR : RestoreRelM occ recs r.1 s') (hS : StopM recs r.1 r.2.2)
    (hmore : r.1.cstep + r.1.workers ≤ r.1.tsteps) (hsteps : StepsOnly rest)
    {yN : Sys} (hrun : run y (.step k st w o :: rest) = .ok yN)
    (starts : List (PickOutcome × Nat)) (hlen : starts.length = recs.length) {yN' : Sys}
    (hrun' : run { s := s', jobs := [] }
      (starts.map (fun x => Ev.start x.1 x.2) ++ (.start o r.1.mainDraws :: .initDone :: rest)) = .ok yN') :
    RM r.1.rows [] yN yN' := by
  obtain ⟨s2, job, restJobs⟩ := r
  simp only [] at hR hS hmore hrun' ⊢
  simp only [run, sysStep_eq_halves, hT] at hrun
  cases hU : stepPrep (s2, job, restJobs) o with
  | error e => rw [hU] at hrun; exact absurd hrun (by simp)
  | ok yU =>
    rw [hU] at hrun
    simp only [] at hrun
    obtain ⟨y1, h1, h1'⟩ := run_append_inv _ _ hrun'
    simp only [run] at h1'
    split at h1'
    · exact absurd h1' (by simp)
    · rename_i y2 h2
      split at h1'
      · exact absurd h1' (by simp)
      · rename_i yR h3
        have hrm := restart_step_multi job restJobs o hR hS hU hmore starts hlen h1 h2 h3
        exact run_steps_relM rest hsteps hrm hrun h1'

/-- a run of several workers with restarts: run as is, or stopped right after the `treat_output` of some `.step` with a
    fresh job due, rebuilt from the image, the record re-issued, continued — with further restarts — from there.  The
    premises at each restart are facts about the restarted run itself: what the restart rebuilt (`RestoreRelM`), that the
    jobs in flight were on record (`StopM`), and that the continuation also completes without further restarts. -/
inductive RestartsM : Sys → List Ev → Sys → Prop
  | direct {y0 yN : Sys} {evs : List Ev} : run y0 evs = .ok yN → RestartsM y0 evs yN
  | restart {y0 y yMid yN : Sys} {pre : List Ev} {k : Nat} {st : Status} {w : List (List Rat)} {o : PickOutcome}
      {rest : List Ev} {r : St × Job × List Job} {s' : St} {occ : List (List Int)}
      {recs : List ((List Nat × List Nat) × Nat)} {starts : List (PickOutcome × Nat)} :
      StepsOnly rest → run y0 pre = .ok y → stepTreat y k st w = .ok r →
      RestoreRelM occ recs r.1 s' → StopM recs r.1 r.2.2 → r.1.cstep + r.1.workers ≤ r.1.tsteps →
      starts.length = recs.length →
      run { s := s', jobs := [] }
        (starts.map (fun x => Ev.start x.1 x.2) ++ (.start o r.1.mainDraws :: .initDone :: rest)) = .ok yMid →
      RestartsM { s := s', jobs := [] }
        (starts.map (fun x => Ev.start x.1 x.2) ++ (.start o r.1.mainDraws :: .initDone :: rest)) yN →
      RestartsM y0 (pre ++ (.step k st w o :: rest)) yN

/-- **any chain of restarts, several workers**: if the history also runs uninterrupted to `yN`, then `yN` and the end
    `yN'` of the run with restarts agree on everything the sampler reads (all of `ObsR` but the engine table), hold the
    same jobs up to pins, and the rows `yN'` wrote since its last restart are the tail of the rows of `yN`. -/
theorem restart_chain_multi : ∀ {y0 : Sys} {evs : List Ev} {yN' : Sys}, RestartsM y0 evs yN' →
    ∀ {yN : Sys}, run y0 evs = .ok yN →
    ∃ ra rb, ObsR False 0 ra rb yN.s yN'.s ∧ JobsEq yN.jobs yN'.jobs ∧ ∃ pre, yN.s.rows = pre ++ yN'.s.rows := by
  intro y0 evs yN' hres
  induction hres with
  | @direct y0 yE evs hrun' =>
    intro yN hrun
    rw [hrun'] at hrun
    simp only [Except.ok.injEq] at hrun
    subst hrun
    have h0 := ObsR.refl yE.s
    exact ⟨yE.s.rows, yE.s.rows, { h0 with toinitiate := fun f => f.elim, occ := fun f => f.elim }, rfl, [], by simp⟩
  | @restart y0 y yMid yN' pre k st w o rest r s' occ recs starts hs hy hT hR hS hmore hlen hmid _ ih =>
    intro yN hrun
    obtain ⟨y', hy', hrun2⟩ := run_append_inv _ _ hrun
    rw [hy] at hy'
    simp only [Except.ok.injEq] at hy'
    subst hy'
    have h1 := restart_run_multi k st w o rest r hT hR hS hmore hs hrun2 starts hlen hmid
    obtain ⟨ra', rb', h2, hj2, pre2, hp2⟩ := ih hmid
    obtain ⟨r1, hra, hrb⟩ := h1.obs.rows
    refine ⟨_, _, h1.obs.compF h2, ?_, r.1.rows ++ pre2, ?_⟩
    · unfold JobsEq at hj2 ⊢
      exact h1.jobs.trans hj2
    · rw [hra, List.append_assoc, ← hp2]
      simp only [List.nil_append] at hrb
      rw [hrb]

/-- distinct live paths: each sits in one slot -/
theorem UniqLive.of_nodup {tr : List (Option Nat)} (h : tr.dropLast.Nodup) : UniqLive tr := by
  intro i j q hi hj
  have hlt : i < tr.dropLast.length := (List.getElem?_eq_some_iff.mp hi).1
  exact (List.getElem?_inj hlt h).mp (hi.trans hj.symm)

end Infretis.Repex
