import Infretis.Lemmas.RepexC06MultiStop
/-
C06, part 16: chains of restarts with several workers — no hypothesis on any state of the restarted runs.

`StopStateM`, `StopM` and `RestoreRelM` only speak about fields that `ObsR False` relates (tables as finite maps) and,
for the jobs, about `jobKey`.  So they transfer from the uninterrupted run — where they are proved for every reachable
state — to a run that has already been restarted and is related to it by `RM`; the induction over the chain keeps the
uninterrupted run on the left all along.
-/
namespace Infretis.Repex
open Infretis.Perm Infretis.Perm.C05

theorem StopM.transfer {recs : List ((List Nat × List Nat) × Nat)} {a b : St} {ja jb : List Job} {t0 : Int}
    {ra rb : List Row} (h : StopM recs a ja) (ho : ObsR False t0 ra rb a b) (hti : b.toinitiate = -1)
    (hj : JobsEq ja jb) : StopM recs b jb :=
  ⟨ho.locked ▸ h.locked, ho.lockedOrd ▸ h.lockedOrd, ho.locked0 ▸ h.locked0, ho.locked0Ord ▸ h.locked0Ord, hti,
   ho.trajs ▸ h.inplace, ho.trajs ▸ h.uniq, by
     have := h.onRecord
     unfold JobsEq at hj
     rw [← hj, ← ho.entropy]; exact this⟩

theorem RestoreRelM.transfer {occ : List (List Int)} {recs : List ((List Nat × List Nat) × Nat)} {a b s' : St}
    {t0 : Int} {ra rb : List Row} (h : RestoreRelM occ recs b s') (ho : ObsR False t0 ra rb a b) :
    RestoreRelM occ recs a s' :=
  { n := h.n.trans ho.n.symm, W := h.W.trans ho.W.symm, trajs := h.trajs.trans ho.trajs.symm,
    locks := h.locks.trans ho.locks.symm, locked := h.locked, lockedOrd := h.lockedOrd, locked0 := h.locked0,
    locked0Ord := h.locked0Ord, workers := h.workers.trans ho.workers.symm, cstep := h.cstep.trans ho.cstep.symm,
    tsteps := h.tsteps.trans ho.tsteps.symm, trajNum := h.trajNum.trans ho.trajNum.symm,
    frac := ho.frac.trans h.frac, wts := ho.wts.trans h.wts, ensEng := h.ensEng.trans ho.ensEng.symm,
    seed := h.seed.trans ho.seed.symm, entropy := h.entropy.trans ho.entropy.symm,
    spawned := h.spawned.trans ho.spawned.symm, toinitiate := h.toinitiate, restarted := h.restarted,
    rgenRestored := h.rgenRestored, occ := h.occ, rows := h.rows }

theorem StopStateM.transfer {pns : List Nat} {recs : List ((List Nat × List Nat) × Nat)} {a b : St} {t0 : Int}
    {ra rb : List Row} (h : StopStateM a pns recs) (ho : ObsR False t0 ra rb a b) : StopStateM b pns recs := by
  have hpad : ∀ (e : Int) (w : List Rat), padValid b e w = padValid a e w := fun e w => padValid_congr ho.n.symm e w
  refine ⟨ho.n ▸ h.n2, by rw [← ho.W, ← ho.n]; exact h.lenW, by rw [← ho.trajs, ← ho.n]; exact h.lenT,
    by rw [← ho.locks, ← ho.n]; exact h.lenL, by rw [← ho.n]; exact h.pnsLen, ?_,
    by rw [← ho.trajs, ← ho.n]; exact h.ghostT, by rw [← ho.W, ← ho.n]; exact h.ghostW, ?_, ?_,
    ho.locked ▸ h.locked, ho.lockedOrd ▸ h.lockedOrd, by rw [← ho.locks, ← ho.n]; exact h.locksRec,
    ho.locked0 ▸ h.locked0, ho.locked0Ord ▸ h.locked0Ord, by rw [← ho.entropy, ← ho.seed]; exact h.entropy⟩
  · intro e pn hp
    obtain ⟨a1, w, c, d, e1, e2, f, hf⟩ := h.slot e pn hp
    refine ⟨ho.trajs ▸ a1, w, by rw [← ho.wts pn]; exact c, ?_, ?_, ?_, f, by rw [← ho.frac pn]; exact hf⟩
    · rw [← ho.W, hpad]; exact d
    · rw [hpad, ← ho.n]; exact e1
    · rw [hpad]; exact e2
  · intro q hq
    apply h.fracKeys q
    obtain ⟨v, hv⟩ := (mem_keys_iff_lookup b.frac q).mp hq
    exact (mem_keys_iff_lookup a.frac q).mpr ⟨v, by rw [ho.frac q]; exact hv⟩
  · intro q hq
    apply h.wtsKeys q
    obtain ⟨v, hv⟩ := (mem_keys_iff_lookup b.wts q).mp hq
    exact (mem_keys_iff_lookup a.wts q).mpr ⟨v, by rw [ho.wts q]; exact hv⟩

theorem RM.refl {y : Sys} (h : y.s.toinitiate = -1) : RM y.s.rows y.s.rows y y := by
  have h0 := ObsR.refl y.s
  exact ⟨{ h0 with toinitiate := fun f => f.elim, occ := fun f => f.elim }, h, h, rfl⟩

/-- a run of several workers with restarts, described by what the processes do and nothing else: run `.step` events,
    stop right after the `treat_output` of a `.step` at which a fresh job is due, rebuild the sampler from the image with
    some engine table, run as many initiation iterations as jobs were in flight, one more with the saved stream position,
    close the initiation, go on — with further restarts — from there -/
inductive ChainM : Sys → List Ev → Sys → Prop
  | done {y yN : Sys} {evs : List Ev} : run y evs = .ok yN → ChainM y evs yN
  | restart {y y1 yR yN : Sys} {steps1 rest : List Ev} {k : Nat} {st : Status} {w : List (List Rat)} {o : PickOutcome}
      {r : St × Job × List Job} {s' : St} {occ : List (List Int)} {starts : List (PickOutcome × Nat)} :
      run y steps1 = .ok y1 → stepTreat y1 k st w = .ok r → r.1.cstep + r.1.workers ≤ r.1.tsteps →
      restore (persist r.1) r.1.n r.1.workers r.1.tsteps occ r.1.ensEng (fun pn => (r.1.wts.lookup pn).getD []) = .ok s' →
      starts.length = r.2.2.length →
      run { s := s', jobs := [] }
        (starts.map (fun x => Ev.start x.1 x.2) ++ [.start o (persist r.1).rngDraws, .initDone]) = .ok yR →
      ChainM yR rest yN →
      ChainM y (steps1 ++ (.step k st w o :: rest)) yN

theorem stepsOnly_append : ∀ (a b : List Ev), StepsOnly (a ++ b) → StepsOnly a ∧ StepsOnly b := by
  intro a
  induction a with
  | nil => intro b h; exact ⟨trivial, h⟩
  | cons ev rest ih =>
    intro b h
    cases ev with
    | start o sv => exact h.elim
    | initDone => exact h.elim
    | step k st w o => exact ih b h

/-- **any chain of restarts, several workers, no state hypothesis**: `x` a reachable scheduler state (`ReachM`) with
    the initiation closed, from which the `.step` history `evs` (well formed) runs uninterrupted to `xN`; `y` related to
    `x` (`RM`; e.g. `y = x`).  Every chain of restarts `ChainM y evs yN'` — restarts at stops where a fresh job is due —
    ends equal to `xN` up to who runs what. -/
theorem restart_chain_multi_unconditional : ∀ {y : Sys} {evs : List Ev} {yN' : Sys}, ChainM y evs yN' →
    ∀ {x xN : Sys} {ra rb : List Row}, ReachM x → HistOk x evs → RM ra rb x y → StepsOnly evs → run x evs = .ok xN →
    ∃ ra' rb', RM ra' rb' xN yN' := by
  intro y evs yN' hc
  induction hc with
  | @done y yN evs hrun' =>
    intro x xN ra rb _ _ hrm hs hrun
    exact ⟨ra, rb, run_steps_relM evs hs hrm hrun hrun'⟩
  | @restart y y1 yR yN steps1 rest k st w o r s' occ starts hy1 hT hmore hres hlen hinit _ ih =>
    intro x xN ra rb hx hh hrm hs hrun
    obtain ⟨hs1, hs2⟩ := stepsOnly_append steps1 _ hs
    have hsrest : StepsOnly rest := hs2
    obtain ⟨x1, hx1, hrun1⟩ := run_append_inv _ _ hrun
    have hrm1 := run_steps_relM steps1 hs1 hrm hx1 hy1
    have hx1r := run_reachM steps1 hx (histOk_prefix steps1 _ hh) hx1
    have hh1 := histOk_append steps1 _ hh hx1
    have hev : EvOk x1 (.step k st w o) := hh1.1
    have hrun1' := hrun1
    simp only [run] at hrun1
    cases hstep : sysStep x1 (.step k st w o) with
    | error e => rw [hstep] at hrun1; exact absurd hrun1 (by simp)
    | ok x2 =>
      rw [hstep] at hrun1
      simp only [] at hrun1
      have hhalf := hstep
      rw [sysStep_eq_halves] at hhalf
      cases hTx : stepTreat x1 k st w with
      | error e => rw [hTx] at hhalf; exact absurd hhalf (by simp)
      | ok rx =>
        rw [hTx] at hhalf
        simp only [] at hhalf
        obtain ⟨hSSx, hSx⟩ := stopStateM_of_reach hx1r hrm1.tx k st w o hev hstep hTx
        obtain ⟨ry, hTy, hmid⟩ := stepTreat_relM hrm1 k st w hTx
        rw [hT] at hTy
        simp only [Except.ok.injEq] at hTy
        subst hTy
        -- the restarted side's stop is a stop state too (transfer), so its image loads into a `RestoreRelM` state
        have hSSy := hSSx.transfer hmid.obs
        obtain ⟨s'', hres'', hR''⟩ := restore_persist_multi hSSy occ
        rw [hres] at hres''
        simp only [Except.ok.injEq] at hres''
        subst hres''
        have hRx := hR''.transfer hmid.obs
        have hmorex : rx.1.cstep + rx.1.workers ≤ rx.1.tsteps := by
          rw [hmid.obs.cstep, hmid.obs.workers, hmid.obs.tsteps]; exact hmore
        have hlenx : starts.length = (recsOf rx.2.2 rx.1.lockedOrd).length := by
          have h3 := congrArg List.length hSx.onRecord
          simp only [List.length_map] at h3
          rw [← h3, hlen]
          have h4 := congrArg List.length hmid.jobs
          simp only [List.length_map] at h4
          exact h4.symm
        obtain ⟨ya, ha, hb⟩ := run_append_inv _ _ hinit
        simp only [run] at hb
        split at hb
        · exact absurd hb (by simp)
        · rename_i yb hb2
          split at hb
          · exact absurd hb (by simp)
          · rename_i yc hb3
            simp only [Except.ok.injEq] at hb
            subst hb
            have hsv : (persist r.1).rngDraws = rx.1.mainDraws := hmid.obs.mainDraws.symm
            rw [hsv] at hb2
            have hrm2 := restart_step_multi rx.2.1 rx.2.2 o hRx hSx hhalf hmorex starts hlenx ha hb2 hb3
            exact ih (sysStep_reachM _ hx1r hev hstep) (hh1.2 x2 hstep) hrm2 hsrest hrun1

end Infretis.Repex
