import Infretis.Lemmas.RepexC06MultiStop
/-
C06, part 15: several workers, a stop in the final phase of a run (fewer steps left than workers: the worker that
completes a step gets no new job).  The restart re-issues the record and closes the initiation; no pick follows, so the
position of the scheduler stream is never read again.  The model's `restore` leaves that position at 0 until the first
fresh pick (the code restores it in `set_rgen` already), so the equivalence is stated up to that field (`setMD`):
`treat_output` neither reads nor writes it (`treatOutput_setMD`).
-/
namespace Infretis.Repex
open Infretis.Perm

/-- override the stream position -/
def setMD (s : St) (d : Nat) : St := { s with mainDraws := d }

theorem unlock_setMD (s : St) (e d : Nat) : unlock (setMD s d) e = (unlock s e).map (fun x => setMD x d) := by
  unfold unlock setMD
  simp only []
  split <;> rfl

theorem addTraj_setMD (s : St) (ens : Int) (pn : Nat) (valid : List Rat) (d : Nat) :
    addTraj (setMD s d) ens pn valid = (addTraj s ens pn valid).map (fun x => setMD x d) := by
  unfold addTraj
  have hv : padValid (setMD s d) ens valid = padValid s ens valid := rfl
  simp only [hv, show (setMD s d).n = s.n from rfl, show (setMD s d).trajs = s.trajs from rfl]
  split
  · rfl
  · split
    · rfl
    · split
      · rfl
      · split
        · rfl
        · exact unlock_setMD ({ s with trajs := s.trajs.set (ens + (off : Int)).toNat (some pn),
                                       W := s.W.set (ens + (off : Int)).toNat (padValid s ens valid) }) _ d

def map3 (d : Nat) (r : St × Nat × List Nat) : St × Nat × List Nat := (setMD r.1 d, r.2)

def accSt (t : St) (pk : Picked) (tn : Nat) (w : List Rat) : St :=
  { t with locked := popLocked pk.pn t.locked.length 0 t.locked,
           lockedOrd := popLockedOrd pk.pn t.locked.length 0 t.locked t.lockedOrd,
           frac := t.frac ++ [(tn, List.replicate t.n 0)], wts := t.wts ++ [(tn, w)] }

def rejSt (t : St) (pk : Picked) : St :=
  { t with locked := popLocked pk.pn t.locked.length 0 t.locked,
           lockedOrd := popLockedOrd pk.pn t.locked.length 0 t.locked t.lockedOrd }

theorem perEns_cons_acc (t : St) (pk : Picked) (w : List Rat) (tl : List (Picked × List Rat)) (tn : Nat) :
    treatOutput.perEns .acc t tn ((pk, w) :: tl) =
      match addTraj (accSt t pk tn w) pk.ens tn w with
      | Except.error er => Except.error er
      | Except.ok s3 =>
        match treatOutput.perEns .acc s3 (tn + 1) tl with
        | Except.error er => Except.error er
        | Except.ok (s4, tn', pns) => Except.ok (s4, tn', tn :: pns) := by
  simp only [treatOutput.perEns, accSt, ↓reduceIte]
  rfl

theorem perEns_cons_rej (t : St) (pk : Picked) (w : List Rat) (tl : List (Picked × List Rat)) (tn : Nat) :
    treatOutput.perEns .rej t tn ((pk, w) :: tl) =
      match (rejSt t pk).wts.lookup pk.pn with
      | none => Except.error Err.key
      | some wOld =>
        match addTraj (rejSt t pk) pk.ens pk.pn wOld with
        | Except.error er => Except.error er
        | Except.ok s3 =>
          match treatOutput.perEns .rej s3 tn tl with
          | Except.error er => Except.error er
          | Except.ok (s4, tn', pns) => Except.ok (s4, tn', pk.pn :: pns) := by
  simp only [treatOutput.perEns, rejSt, reduceCtorEq, ↓reduceIte]
  rfl

theorem perEns_setMD (status : Status) (d : Nat) : ∀ (l : List (Picked × List Rat)) (s : St) (tn : Nat),
    treatOutput.perEns status (setMD s d) tn l = (treatOutput.perEns status s tn l).map (map3 d) := by
  intro l
  induction l with
  | nil => intro s tn; rfl
  | cons x tl ih =>
    intro s tn
    obtain ⟨pk, w⟩ := x
    cases status with
    | acc =>
      rw [perEns_cons_acc, perEns_cons_acc]
      have h1 : addTraj (accSt (setMD s d) pk tn w) pk.ens tn w =
          (addTraj (accSt s pk tn w) pk.ens tn w).map (fun x => setMD x d) := addTraj_setMD (accSt s pk tn w) pk.ens tn w d
      rw [h1]
      cases addTraj (accSt s pk tn w) pk.ens tn w with
      | error e => rfl
      | ok s3 =>
        simp only [Except.map]
        rw [ih s3 (tn + 1)]
        cases treatOutput.perEns .acc s3 (tn + 1) tl with
        | error e => rfl
        | ok r => rfl
    | rej =>
      rw [perEns_cons_rej, perEns_cons_rej]
      have hw : (rejSt (setMD s d) pk).wts = (rejSt s pk).wts := rfl
      rw [hw]
      cases (rejSt s pk).wts.lookup pk.pn with
      | none => rfl
      | some wOld =>
        simp only []
        have h1 : addTraj (rejSt (setMD s d) pk) pk.ens pk.pn wOld =
            (addTraj (rejSt s pk) pk.ens pk.pn wOld).map (fun x => setMD x d) :=
          addTraj_setMD (rejSt s pk) pk.ens pk.pn wOld d
        rw [h1]
        cases addTraj (rejSt s pk) pk.ens pk.pn wOld with
        | error e => rfl
        | ok s3 =>
          simp only [Except.map]
          rw [ih s3 tn]
          cases treatOutput.perEns .rej s3 tn tl with
          | error e => rfl
          | ok r => rfl

theorem recordFrac_setMD (s : St) (d : Nat) : recordFrac (setMD s d) = (recordFrac s).map (fun x => setMD x d) := by
  unfold recordFrac
  simp only []
  have e1 : lockedPaths (setMD s d) = lockedPaths s := rfl
  have e2 : prob (setMD s d) = prob s := rfl
  have e3 : livePaths (setMD s d) = livePaths s := rfl
  have e4 : (setMD s d).frac = s.frac := rfl
  rw [e1, e2, e3, e4]
  split <;> rfl

theorem writeRows_setMD (d : Nat) : ∀ (l : List Nat) (s : St),
    writeRows (setMD s d) l = (writeRows s l).map (fun x => setMD x d) := by
  intro l
  induction l with
  | nil => intro s; rfl
  | cons pn rest ih =>
    intro s
    simp only [writeRows]
    have e1 : (setMD s d).frac = s.frac := rfl
    have e2 : (setMD s d).wts = s.wts := rfl
    rw [e1, e2]
    split
    · rename_i f w _ _
      exact ih { s with rows := s.rows ++ [(pn, f, w)], frac := s.frac.filter (·.1 != pn),
                        wts := s.wts.filter (·.1 != pn) }
    · rfl

theorem sortStep_setMD (s : St) (d : Nat) :
    sortStep (setMD s d) = (sortStep s).map (fun o => o.map (fun x => setMD x d)) := by
  unfold sortStep
  have e1 : needsToMove (setMD s d) = needsToMove s := rfl
  have e2 : lockedPaths (setMD s d) = lockedPaths s := rfl
  simp only [e1, e2, show (setMD s d).toinitiate = s.toinitiate from rfl, show (setMD s d).W = s.W from rfl,
    show (setMD s d).n = s.n from rfl, show (setMD s d).trajs = s.trajs from rfl]
  split
  · rfl
  · split
    · rfl
    · split
      · rfl
      · rfl

def map2 (d : Nat) (r : St × Nat) : St × Nat := (setMD r.1 d, r.2)

theorem sortTrajstate_setMD (d : Nat) : ∀ (fuel : Nat) (s : St),
    sortTrajstate fuel (setMD s d) = (sortTrajstate fuel s).map (map2 d) := by
  intro fuel
  induction fuel with
  | zero => intro s; rfl
  | succ k ih =>
    intro s
    simp only [sortTrajstate]
    rw [sortStep_setMD]
    cases sortStep s with
    | error e => rfl
    | ok o =>
      cases o with
      | none => rfl
      | some s' =>
        simp only [Except.map, Option.map]
        rw [ih s']
        cases sortTrajstate k s' with
        | error e => rfl
        | ok r => rfl

def mapT (d : Nat) (r : St × List Nat × Nat) : St × List Nat × Nat := (setMD r.1 d, r.2)

theorem treatOutput_setMD (s : St) (job : Job) (status : Status) (newW : List (List Rat)) (fuel d : Nat) :
    treatOutput (setMD s d) job status newW fuel = (treatOutput s job status newW fuel).map (mapT d) := by
  unfold treatOutput
  simp only []
  generalize (if status = .acc then newW else job.picked.map (fun _ => ([] : List Rat))) = ws
  split
  · rfl
  · have e0 : (setMD s d).trajNum = s.trajNum := rfl
    rw [e0, perEns_setMD]
    cases treatOutput.perEns status s s.trajNum (job.picked.zip ws) with
    | error e => rfl
    | ok r1 =>
      obtain ⟨s1, tn, pns⟩ := r1
      simp only [Except.map, map3]
      rw [recordFrac_setMD]
      cases recordFrac s1 with
      | error e => rfl
      | ok s2 =>
        simp only [Except.map]
        have h3 : (if status = .acc then writeRows (setMD s2 d) job.pnumOld else Except.ok (setMD s2 d)) =
            (if status = .acc then writeRows s2 job.pnumOld else Except.ok s2).map (fun x => setMD x d) := by
          split
          · exact writeRows_setMD d _ _
          · rfl
        rw [h3]
        cases (if status = .acc then writeRows s2 job.pnumOld else Except.ok s2) with
        | error e => rfl
        | ok s3 =>
          simp only [Except.map]
          rw [sortTrajstate_setMD]
          cases sortTrajstate fuel s3 with
          | error e => rfl
          | ok r4 => rfl

/-! ### the scheduler level -/

def nm (d : Nat) (y : Sys) : Sys := { y with s := setMD y.s d }

def mapR (d : Nat) (r : St × Job × List Job) : St × Job × List Job := (setMD r.1 d, r.2)

theorem loop_setMD (s : St) (d : Nat) : loop (setMD s d) = (setMD (loop s).1 d, (loop s).2) := by
  unfold loop
  simp only [show (setMD s d).cstep = s.cstep from rfl, show (setMD s d).tsteps = s.tsteps from rfl]
  split <;> rfl

theorem stepTreat_nm (y : Sys) (d k : Nat) (st : Status) (w : List (List Rat)) :
    stepTreat (nm d y) k st w = (stepTreat y k st w).map (mapR d) := by
  simp only [stepTreat, nm, loop_setMD]
  split
  · rfl
  · cases y.jobs[k]? with
    | none => rfl
    | some job =>
      simp only []
      have hf : sortFuel (setMD (loop y.s).1 d) = sortFuel (loop y.s).1 := rfl
      rw [hf, treatOutput_setMD]
      cases treatOutput (loop y.s).1 job st w (sortFuel (loop y.s).1) with
      | error e => rfl
      | ok r => rfl

theorem stepTreat_ctr {y : Sys} {k : Nat} {st : Status} {w : List (List Rat)} {r : St × Job × List Job}
    (h : stepTreat y k st w = .ok r) :
    r.1.cstep = y.s.cstep + 1 ∧ r.1.workers = y.s.workers ∧ r.1.tsteps = y.s.tsteps := by
  obtain ⟨hmid, _⟩ := stepTreat_midState h
  obtain ⟨_, _, _, _, _, hc, _, _, _, _⟩ := midState_spec hmid
  unfold midState at hmid
  simp only [] at hmid
  split at hmid
  · exact absurd hmid (by simp)
  · split at hmid
    · exact absurd hmid (by simp)
    · rename_i s2 pns it ht
      simp only [Except.ok.injEq] at hmid
      subst hmid
      have hctr := ctr_treatOutput ht
      unfold ctr at hctr
      simp only [Ctr.mk.injEq] at hctr
      exact ⟨hc, hctr.2.2.1, hctr.2.1⟩

/-- fewer steps left than workers: the worker that completes a step gets no new job -/
def EndPhase (y : Sys) : Prop := y.s.tsteps < y.s.cstep + 1 + y.s.workers

theorem sysStep_nm_end (y : Sys) (d k : Nat) (st : Status) (w : List (List Rat)) (o : PickOutcome)
    (hend : EndPhase y) :
    sysStep (nm d y) (.step k st w o) = (sysStep y (.step k st w o)).map (nm d) ∧
      ∀ y', sysStep y (.step k st w o) = .ok y' → EndPhase y' := by
  rw [sysStep_eq_halves, sysStep_eq_halves, stepTreat_nm]
  cases hT : stepTreat y k st w with
  | error e => exact ⟨rfl, fun y' h => absurd h (by simp)⟩
  | ok r =>
    obtain ⟨c1, c2, c3⟩ := stepTreat_ctr hT
    have hno : ¬ (r.1.cstep + r.1.workers ≤ r.1.tsteps) := by
      rw [c1, c2, c3]; unfold EndPhase at hend; omega
    have hno' : ¬ ((mapR d r).1.cstep + (mapR d r).1.workers ≤ (mapR d r).1.tsteps) := hno
    simp only [Except.map, stepPrep, if_neg hno, if_neg hno']
    refine ⟨rfl, ?_⟩
    intro y' hy'
    simp only [Except.ok.injEq] at hy'
    subst hy'
    unfold EndPhase at hend ⊢
    show r.1.tsteps < r.1.cstep + 1 + r.1.workers
    rw [c1, c2, c3]; omega

theorem run_nm_end (d : Nat) : ∀ (evs : List Ev) (y : Sys), StepsOnly evs → EndPhase y →
    run (nm d y) evs = (run y evs).map (nm d) := by
  intro evs
  induction evs with
  | nil => intro y _ _; rfl
  | cons ev rest ih =>
    intro y hs hend
    cases ev with
    | start o sv => exact hs.elim
    | initDone => exact hs.elim
    | step k st w o =>
      obtain ⟨h1, h2⟩ := sysStep_nm_end y d k st w o hend
      simp only [run]
      rw [h1]
      cases hy : sysStep y (.step k st w o) with
      | error e => rfl
      | ok y' =>
        simp only [Except.map]
        exact ih y' hs (h2 y' hy)

/-- **the restart step in the final phase** (no fresh job due): the record is re-issued, the initiation closes; up to
    the stream position (never read again) the state is the stopped one with its jobs in flight -/
theorem restart_step_multi_end {occ : List (List Int)} {recs : List ((List Nat × List Nat) × Nat)} {s2 s' : St}
    (restJobs : List Job) (hR : RestoreRelM occ recs s2 s') (hS : StopM recs s2 restJobs)
    (hlt : s2.cstep < s2.tsteps) (hmW : recs.length ≤ s2.workers)
    (starts : List (PickOutcome × Nat)) (hlen : starts.length = recs.length)
    {y1 yR : Sys} (h1 : run { s := s', jobs := [] } (starts.map (fun x => Ev.start x.1 x.2)) = .ok y1)
    (h3 : sysStep y1 .initDone = .ok yR) :
    RM s2.rows [] { s := s2, jobs := restJobs } (nm s2.mainDraws yR) ∧ yR.s.cstep = s2.cstep ∧
      yR.s.workers = s2.workers ∧ yR.s.tsteps = s2.tsteps := by
  obtain ⟨jobs, occ1, cw1, hj1, hk1, hs1⟩ := reissue_run_state recs starts _ y1 [] [] hlen
    (by simp [hR.locked0]) (by simp [hR.locked0Ord])
    (by intro x hx; show s'.trajs[x.1]? = _ ∧ x.1 + 1 < s'.trajs.length; rw [hR.trajs]; exact hS.inplace x hx)
    (by show UniqLive s'.trajs; rw [hR.trajs]; exact hS.uniq) h1
  simp only [List.nil_append] at hj1
  simp only [] at hs1 hk1
  simp only [sysStep] at h3
  split at h3
  · exact absurd h3 (by simp)
  · rename_i hnogo
    simp only [Bool.not_eq_true] at hnogo
    simp only [Except.ok.injEq] at h3
    subst h3
    have hc1 : y1.s.cstep < y1.s.tsteps := by
      rw [hs1]; show s'.cstep < s'.tsteps; rw [hR.cstep, hR.tsteps]; exact hlt
    have ht1 : 0 ≤ y1.s.toinitiate := by
      rw [hs1]
      show 0 ≤ s'.toinitiate - (recs.length : Int)
      rw [hR.toinitiate, hR.workers]
      omega
    obtain ⟨c, hc⟩ := initiate_nogo_eq hnogo hc1 ht1
    refine ⟨⟨?_, hS.toinitiate, ?_, ?_⟩, ?_, ?_, ?_⟩
    · show ObsR False 0 s2.rows [] s2 (setMD (initiate y1.s).1 s2.mainDraws)
      rw [hc, hs1]
      exact ⟨hR.n.symm, hR.W.symm, hR.trajs.symm, hR.locks.symm,
        by simp only [setMD, reState, hR.locked, List.nil_append]; exact hS.locked,
        hS.locked0,
        by simp only [setMD, reState, hR.lockedOrd, List.nil_append]; exact hS.lockedOrd,
        hS.locked0Ord, hR.workers.symm, hR.cstep.symm, hR.tsteps.symm, hR.trajNum.symm, hR.frac, hR.wts,
        hR.ensEng.symm, hR.seed.symm, hR.entropy.symm, hR.spawned.symm, rfl, fun f => f.elim, fun f => f.elim,
        ⟨[], by simp, by simp [setMD, reState, hR.rows]⟩⟩
    · show (setMD (initiate y1.s).1 s2.mainDraws).toinitiate = -1
      rw [hc]; rfl
    · show JobsEq restJobs y1.jobs
      unfold JobsEq
      rw [hS.onRecord, hj1, hk1, hR.entropy]
    · show (initiate y1.s).1.cstep = s2.cstep
      rw [hc, hs1]; exact hR.cstep
    · show (initiate y1.s).1.workers = s2.workers
      rw [hc, hs1]; exact hR.workers
    · show (initiate y1.s).1.tsteps = s2.tsteps
      rw [hc, hs1]; exact hR.tsteps

/-- **restart equivalence, several workers, a stop in the final phase** (fewer steps left than workers, at least one
    step left): the restarted run — the record re-issued, `.initDone`, the same remaining completions — ends equal to the
    uninterrupted one up to who runs what and up to the position of the scheduler stream, from which nothing is drawn
    any more (the model's `restore` puts it to 0 until the first fresh pick; the code's `set_rgen` restores it at once). -/
theorem restart_run_multi_end {occ : List (List Int)} {recs : List ((List Nat × List Nat) × Nat)} {y : Sys} {s' : St}
    (k : Nat) (st : Status) (w : List (List Rat)) (o : PickOutcome) (rest : List Ev) (r : St × Job × List Job)
    (hT : stepTreat y k st w = .ok r) (hR : RestoreRelM occ recs r.1 s') (hS : StopM recs r.1 r.2.2)
    (hend : ¬ (r.1.cstep + r.1.workers ≤ r.1.tsteps)) (hlt : r.1.cstep < r.1.tsteps)
    (hmW : recs.length ≤ r.1.workers) (hsteps : StepsOnly rest)
    {yN : Sys} (hrun : run y (.step k st w o :: rest) = .ok yN)
    (starts : List (PickOutcome × Nat)) (hlen : starts.length = recs.length) {yN' : Sys}
    (hrun' : run { s := s', jobs := [] } (starts.map (fun x => Ev.start x.1 x.2) ++ (.initDone :: rest)) = .ok yN') :
    RM r.1.rows [] yN (nm r.1.mainDraws yN') := by
  obtain ⟨s2, job, restJobs⟩ := r
  simp only [] at hR hS hend hlt hmW hrun' ⊢
  simp only [run, sysStep_eq_halves, hT, stepPrep, if_neg hend] at hrun
  obtain ⟨y1, h1, h1'⟩ := run_append_inv _ _ hrun'
  simp only [run] at h1'
  split at h1'
  · exact absurd h1' (by simp)
  · rename_i yR h3
    obtain ⟨hrm, e1, e2, e3⟩ := restart_step_multi_end restJobs hR hS hlt hmW starts hlen h1 h3
    have hendR : EndPhase yR := by
      unfold EndPhase
      rw [e1, e2, e3]; omega
    have h4 := run_nm_end s2.mainDraws rest yR hsteps hendR
    rw [h1'] at h4
    exact run_steps_relM rest hsteps hrm hrun h4

end Infretis.Repex
