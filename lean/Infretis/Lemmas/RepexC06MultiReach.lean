import Infretis.Lemmas.RepexC06MultiRestore
import Infretis.Lemmas.RepexC07Chain
/-
C06, part 12: the hypotheses of the several-workers restart theorem hold at every stop of every reachable history.

C07 proves, for every state `y` of every chain of runs and restarts (`ChainReach`), the invariant `NInv`, and for the
instant the restart file is written (`midState`: inside `treat_output` of the completing job) `MidInv s2 jobs`: C03's
slot invariant `Core s2 (held jobs)`, `locked = jobs.map jobRec`, one ordinal per job, each job carrying the streams of
its ordinal.  From it: `StopM` — the jobs in flight are the record, each recorded path sits in its recorded slot, no
path sits in two slots.
-/
namespace Infretis.Repex
open Infretis.Perm

/-- the record of the jobs in flight as the restart file holds it: (slots, paths) with the stream ordinal -/
def recsOf (jobs : List Job) (ords : List Nat) : List ((List Nat × List Nat) × Nat) := (jobs.map jobRec0).zip ords

theorem recPairs_jobRec0 (j : Job) : recPairs (jobRec0 j) = heldJob j := by
  unfold recPairs jobRec0 heldJob
  simp only [List.zip_map']

theorem recEntry_jobRec0 (j : Job) (h : ∀ p ∈ j.picked, -1 ≤ p.ens) : recEntry (jobRec0 j) = jobRec j :=
  recOf7_jobRec0 j h

theorem recsOf_fst {jobs : List Job} {ords : List Nat} (h : ords.length = jobs.length) :
    (recsOf jobs ords).map (·.1) = jobs.map jobRec0 := by
  unfold recsOf
  rw [List.map_fst_zip]
  simp [h]

theorem recsOf_snd {jobs : List Job} {ords : List Nat} (h : ords.length = jobs.length) :
    (recsOf jobs ords).map (·.2) = ords := by
  unfold recsOf
  rw [List.map_snd_zip]
  simp [h]

theorem recsOf_pairs {jobs : List Job} {ords : List Nat} (h : ords.length = jobs.length) :
    (recsOf jobs ords).flatMap (fun r => recPairs r.1) = held jobs := by
  have h1 : (recsOf jobs ords).flatMap (fun r => recPairs r.1) = ((recsOf jobs ords).map (·.1)).flatMap recPairs := by
    rw [List.flatMap_map]
  rw [h1, recsOf_fst h, List.flatMap_map]
  unfold held
  congr 1
  funext j
  exact recPairs_jobRec0 j

/-- a job that carries the streams of ordinal `o` is, for the restart, the record `(jobRec0 j, o)` -/
theorem jobKey_of_streams (ent o : Nat) (j : Job) (hs : StreamsAt ent o j.picked) (hge : ∀ p ∈ j.picked, -1 ≤ p.ens)
    (hpn : j.pnumOld = j.picked.map (·.pn)) :
    jobKey j = (recJobFull ent o (jobRec0 j), (recPairs (jobRec0 j)).map (·.2)) := by
  simp only [jobKey, Prod.mk.injEq]
  refine ⟨?_, ?_⟩
  · rw [recJobFull, recPairs_jobRec0]
    unfold heldJob
    apply List.ext_getElem?
    intro i
    simp only [List.getElem?_map, List.getElem?_zipIdx, List.zipIdx_map]
    cases hp : j.picked[i]? with
    | none => simp
    | some p =>
      obtain ⟨h1, h2⟩ := hs i p hp
      have hm : p ∈ j.picked := List.mem_of_getElem? hp
      have hg := hge p hm
      simp only [Option.map_some, Option.some.injEq, pkFull, Prod.mk.injEq, Prod.map, id]
      refine ⟨?_, trivial, ?_, ?_⟩
      · simp only [slotOf]; omega
      · rw [h1]; simp [moveStream]
      · rw [h2]; simp [engStream]
  · rw [hpn, recPairs_jobRec0]
    unfold heldJob
    rw [List.map_map]
    rfl

theorem onRecord_of (ent : Nat) : ∀ (jobs : List Job) (ords : List Nat), ords.length = jobs.length →
    (∀ jo ∈ jobs.zip ords, StreamsAt ent jo.2 jo.1.picked) →
    (∀ j ∈ jobs, (∀ p ∈ j.picked, -1 ≤ p.ens) ∧ j.pnumOld = j.picked.map (·.pn)) →
    jobs.map jobKey = (recsOf jobs ords).map (fun r => (recJobFull ent r.2 r.1, (recPairs r.1).map (·.2))) := by
  intro jobs
  induction jobs with
  | nil => intro ords _ _ _; rfl
  | cons j js ih =>
    intro ords hl hs hj
    cases ords with
    | nil => simp at hl
    | cons o os =>
      have h1 := jobKey_of_streams ent o j (hs (j, o) (by simp)) (hj j (by simp)).1 (hj j (by simp)).2
      have h2 := ih os (by simpa using hl)
        (fun jo hjo => hs jo (by simp only [List.zip_cons_cons, List.mem_cons]; exact Or.inr hjo))
        (fun j' hj' => hj j' (List.mem_cons_of_mem _ hj'))
      simp only [recsOf, List.map_cons, List.zip_cons_cons] at h2 ⊢
      rw [h1, h2]

/-- jobs as `prep_md_items` builds them: `pnum_old` lists the picked paths -/
def PnumOk (jobs : List Job) : Prop := ∀ j ∈ jobs, j.pnumOld = j.picked.map (·.pn)

/-- **`StopM` from C07's invariant at the write of the restart file** -/
theorem stopM_of_midInv {s2 : St} {jobs : List Job} (hm : MidInv s2 jobs) (hti : s2.toinitiate = -1)
    (hl0o : s2.locked0Ord = []) (hp : PnumOk jobs) : StopM (recsOf jobs s2.lockedOrd) s2 jobs := by
  have hc := hm.core
  have hl := hm.ordLen
  refine ⟨?_, ?_, hc.l0, hl0o, hti, ?_, ?_, ?_⟩
  · -- locked
    have : (recsOf jobs s2.lockedOrd).map (fun r => recEntry r.1) = ((recsOf jobs s2.lockedOrd).map (·.1)).map recEntry := by
      rw [List.map_map]; rfl
    rw [this, recsOf_fst hl, hm.recd, List.map_map]
    apply List.map_congr_left
    intro j hj
    exact (recEntry_jobRec0 j (hm.shape j hj).ensGe).symm
  · exact (recsOf_snd hl).symm
  · intro x hx
    rw [recsOf_pairs hl] at hx
    obtain ⟨h1, h2, _⟩ := hc.heldOk x.1 x.2 hx
    refine ⟨h2, ?_⟩
    rw [hc.lenT]
    omega
  · intro i j q hi hj
    have hlen : s2.trajs.dropLast.length = s2.n - 1 := by simp [hc.lenT]
    have hi' : i < s2.n - 1 := by rw [← hlen]; exact (List.getElem?_eq_some_iff.mp hi).1
    have hj' : j < s2.n - 1 := by rw [← hlen]; exact (List.getElem?_eq_some_iff.mp hj).1
    rw [List.getElem?_dropLast, if_pos (by rw [hc.lenT]; exact hi')] at hi
    rw [List.getElem?_dropLast, if_pos (by rw [hc.lenT]; exact hj')] at hj
    exact hc.inj i j q hi' hj' hi hj
  · exact onRecord_of s2.entropy jobs s2.lockedOrd hl hm.ordStreams
      (fun j hj => ⟨(hm.shape j hj).ensGe, hp j hj⟩)

/-- the split point of the restart theorems is C07's `midState` -/
theorem stepTreat_midState {y : Sys} {k : Nat} {st : Status} {w : List (List Rat)} {r : St × Job × List Job}
    (h : stepTreat y k st w = .ok r) : midState y k st w = .ok r.1 ∧ r.2.2 = y.jobs.eraseIdx k := by
  simp only [stepTreat] at h
  unfold midState
  split at h
  · exact absurd h (by simp)
  · rename_i hgo
    have hl : (loop y.s).1 = { y.s with cstep := y.s.cstep + 1 } := by
      unfold loop at hgo ⊢
      split
      · rename_i hge
        simp [hge] at hgo
      · rfl
    rw [hl] at h
    simp only []
    cases hk : y.jobs[k]? with
    | none => rw [hk] at h; exact absurd h (by simp)
    | some job =>
      rw [hk] at h
      simp only [] at h ⊢
      cases ht : treatOutput { y.s with cstep := y.s.cstep + 1 } job st w (sortFuel { y.s with cstep := y.s.cstep + 1 }) with
      | error e => rw [ht] at h; exact absurd h (by simp)
      | ok r2 =>
        rw [ht] at h
        obtain ⟨s2, pns, it⟩ := r2
        simp only [Except.ok.injEq] at h
        subst h
        exact ⟨rfl, rfl⟩

theorem PnumOk.eraseIdx {jobs : List Job} (h : PnumOk jobs) (k : Nat) : PnumOk (jobs.eraseIdx k) :=
  fun j hj => h j (List.mem_of_mem_eraseIdx hj)

/-- **every stop of every reachable chain satisfies `StopM`**: `y` reached by any chain of runs and restarts
    (`ChainReach`, C07), initiation closed, no ordinal left to re-issue, jobs built by `prep_md_items` (`PnumOk`); the state `treat_output` leaves at
    a `.step` has its jobs in flight on record, in place. -/
theorem stopM_of_reachable {seed : Nat} {y : Sys} {log : List Entry} (h : ChainReach seed y log)
    (hti : y.s.toinitiate = -1) (hl0 : y.s.locked0Ord = []) (hp : PnumOk y.jobs) {k : Nat} {st : Status}
    {w : List (List Rat)} {r : St × Job × List Job} (hT : stepTreat y k st w = .ok r) :
    StopM (recsOf r.2.2 r.1.lockedOrd) r.1 r.2.2 := by
  obtain ⟨hmid, hjobs⟩ := stepTreat_midState hT
  have hi := h.inv
  obtain ⟨hm, _, _, _⟩ := midState_inv hi.ninv hmid
  obtain ⟨job, _, _, _, _, _, _, hl0o, _, _⟩ := midState_spec hmid
  have hti2 : r.1.toinitiate = -1 := by
    unfold midState at hmid
    simp only [] at hmid
    split at hmid
    · exact absurd hmid (by simp)
    · split at hmid
      · exact absurd hmid (by simp)
      · rename_i s2 pns it ht
        simp only [Except.ok.injEq] at hmid
        subst hmid
        rw [ctr_ti (ctr_treatOutput ht)]
        exact hti
  rw [hjobs]
  refine stopM_of_midInv hm hti2 ?_ (hp.eraseIdx k)
  rw [hl0o]
  exact hl0

theorem prep_pnum {s s' : St} {prev : Option Nat} {o : PickOutcome} {sv : Nat} {job : Job} {ds : List Draw}
    (h : prep s prev o sv = .ok (s', job, ds)) : job.pnumOld = job.picked.map (·.pn) := by
  rw [prep_eq_tail] at h
  split at h
  · exact absurd h (by simp)
  · rename_i s1 ps ds1 _
    have h1 := prepTail_pnum h
    have h2 := (prepTail_ok h).2
    have e : ∀ (l : List Picked), l.map (·.pn) = (l.map pkFull).map (fun q => q.2.1) := by
      intro l; rw [List.map_map]; rfl
    rw [h1, e ps, e job.picked, h2]

theorem PnumOk.append {jobs : List Job} (h : PnumOk jobs) {j : Job} (hj : j.pnumOld = j.picked.map (·.pn)) :
    PnumOk (jobs ++ [j]) := by
  intro x hx
  rw [List.mem_append] at hx
  rcases hx with hx | hx
  · exact h x hx
  · simp only [List.mem_singleton] at hx; subst hx; exact hj

/-- every job the scheduler holds was built by `prep_md_items` -/
theorem sysStep_pnumOk {y y' : Sys} (ev : Ev) (hp : PnumOk y.jobs) (h : sysStep y ev = .ok y') : PnumOk y'.jobs := by
  cases ev with
  | start o sv =>
    simp only [sysStep] at h
    split at h
    · exact absurd h (by simp)
    · split at h
      · exact absurd h (by simp)
      · rename_i s2 job ds hprep
        simp only [Except.ok.injEq] at h
        subst h
        exact hp.append (prep_pnum hprep)
  | initDone =>
    simp only [sysStep] at h
    split at h
    · exact absurd h (by simp)
    · simp only [Except.ok.injEq] at h
      subst h
      exact hp
  | step k st w o =>
    rw [sysStep_eq_halves] at h
    cases hT : stepTreat y k st w with
    | error e => rw [hT] at h; exact absurd h (by simp)
    | ok r =>
      rw [hT] at h
      obtain ⟨_, hj⟩ := stepTreat_midState hT
      simp only [stepPrep] at h
      split at h
      · split at h
        · exact absurd h (by simp)
        · rename_i s3 job' ds hprep
          simp only [Except.ok.injEq] at h
          subst h
          show PnumOk (r.2.2 ++ [job'])
          rw [hj]
          exact (hp.eraseIdx k).append (prep_pnum hprep)
      · simp only [Except.ok.injEq] at h
        subst h
        show PnumOk r.2.2
        rw [hj]
        exact hp.eraseIdx k

theorem run_pnumOk : ∀ (evs : List Ev) {y y' : Sys}, PnumOk y.jobs → run y evs = .ok y' → PnumOk y'.jobs := by
  intro evs
  induction evs with
  | nil => intro y y' hp h; simp only [run, Except.ok.injEq] at h; subst h; exact hp
  | cons ev rest ih =>
    intro y y' hp h
    simp only [run] at h
    split at h
    · exact absurd h (by simp)
    · rename_i y1 h1
      exact ih (sysStep_pnumOk ev hp h1) h

end Infretis.Repex
