import Infretis.Lemmas.RepexC06Multi
/-
C06, part 9: the restart step with several workers.

At a stop with W > 1 workers the restart file lists the jobs still in flight (`locked`, with the ordinals of their
streams).  The restarted process loads the active paths into their slots (all unlocked), then its initiation loop
re-issues the recorded jobs one after the other (`pick_lock`: find the path, swap it into the recorded slot — it is
there already —, lock the slot, derive the streams from the recorded ordinal), then picks one fresh job from the
restored stream position, and closes.  The state reached is the one the uninterrupted run has after it handed the
freed worker its next job — up to which worker holds which job (`RM`).
-/
namespace Infretis.Repex
open Infretis.Perm

/-- the locks after `pick_lock` has re-locked the recorded (slot, path) pairs -/
def lockAll (l : List (Nat × Nat)) (locks : List Bool) : List Bool := l.foldl (fun lk x => lk.set x.1 true) locks

theorem lockAll_append (l1 l2 : List (Nat × Nat)) (lk : List Bool) :
    lockAll (l1 ++ l2) lk = lockAll l2 (lockAll l1 lk) := by
  unfold lockAll
  rw [List.foldl_append]

/-- a path sits in at most one real slot -/
def UniqLive (tr : List (Option Nat)) : Prop :=
  ∀ (i j q : Nat), tr.dropLast[i]? = some (some q) → tr.dropLast[j]? = some (some q) → i = j

theorem swapList_self {α : Type} (l : List α) (i : Nat) : swapList l i i = l := by
  unfold swapList
  cases h : l[i]? with
  | none => rfl
  | some a =>
    simp only []
    apply List.ext_getElem?
    intro k
    rw [List.getElem?_set, List.getElem?_set]
    split
    · rename_i hik
      subst hik
      split
      · exact h.symm
      · rename_i hlt
        simp only [List.length_set] at hlt
        rw [List.getElem?_eq_none (by omega)] at h
        exact absurd h (by simp)
    · rfl

/-- the re-issue loop of `pick_lock` when every recorded path already sits in its recorded slot (as it does after
    `load_paths` from the restart file of the same run): no path moves, the slots get locked -/
theorem reissue_go_inplace : ∀ (l : List (Nat × Nat)) (s s' : St) (pairs : List (Int × Option Nat)),
    (∀ x ∈ l, s.trajs[x.1]? = some (some x.2) ∧ x.1 + 1 < s.trajs.length) → UniqLive s.trajs →
    reissue.go s l = .ok (s', pairs) →
    s' = { s with locks := lockAll l s.locks } ∧ pairs = l.map (fun x => ((x.1 : Int) - (off : Int), some x.2)) := by
  intro l
  induction l with
  | nil =>
    intro s s' pairs _ _ h
    simp only [reissue.go, Except.ok.injEq, Prod.mk.injEq] at h
    obtain ⟨rfl, rfl⟩ := h
    exact ⟨rfl, rfl⟩
  | cons x rest ih =>
    intro s s' pairs hin hu h
    obtain ⟨e, tr⟩ := x
    simp only [reissue.go] at h
    split at h
    · exact absurd h (by simp)
    · rename_i ti hfi
      obtain ⟨hte, hlt⟩ := hin (e, tr) (by simp)
      have hti : s.trajs.dropLast[ti]? = some (some tr) := findIdx?_some hfi
      have hee : s.trajs.dropLast[e]? = some (some tr) := by
        rw [List.getElem?_dropLast, if_pos (by omega)]; exact hte
      have hte' : ti = e := hu ti e tr hti hee
      subst hte'
      have hsw : swap s ti ti = s := by
        simp only [swap, swapList_self]
      rw [hsw] at h
      split at h
      · exact absurd h (by simp)
      · rename_i s2 hl2
        split at h
        · exact absurd h (by simp)
        · rename_i s3 ps hgo
          simp only [Except.ok.injEq, Prod.mk.injEq] at h
          obtain ⟨rfl, rfl⟩ := h
          obtain ⟨_, hs2⟩ := lock_ok' hl2
          subst hs2
          obtain ⟨h3, hp⟩ := ih { s with locks := s.locks.set ti true } s3 ps
            (fun x hx => hin x (List.mem_cons_of_mem _ hx)) hu hgo
          refine ⟨?_, ?_⟩
          · rw [h3]; rfl
          · rw [hp]
            simp only [List.map_cons, List.cons.injEq, and_true, Prod.mk.injEq, true_and]
            rw [List.getD_eq_getElem?_getD, hte]; rfl

/-- the sampler after the initiation loop has re-issued recorded jobs: only the locks, the two records, the engine
    table, the current worker and the initiation counter differ -/
def reState (s : St) (pairs : List (Nat × Nat)) (ents : List (List Int × List Nat)) (ords : List Nat)
    (rest : List (List Nat × List Nat)) (ordRest : List (Option Nat)) (occ' : List (List Int)) (cw : Nat) (k : Int) : St :=
  { s with locks := lockAll pairs s.locks, locked := s.locked ++ ents, lockedOrd := s.lockedOrd ++ ords,
           locked0 := rest, locked0Ord := ordRest, occ := occ', cworker := cw, toinitiate := s.toinitiate - k }

theorem reState_comp (s : St) (p1 p2 : List (Nat × Nat)) (e1 e2 : List (List Int × List Nat)) (o1 o2 : List Nat)
    (r1 r2 : List (List Nat × List Nat)) (or1 or2 : List (Option Nat)) (oc1 oc2 : List (List Int)) (c1 c2 : Nat)
    (k1 k2 : Int) :
    reState (reState s p1 e1 o1 r1 or1 oc1 c1 k1) p2 e2 o2 r2 or2 oc2 c2 k2 =
      reState s (p1 ++ p2) (e1 ++ e2) (o1 ++ o2) r2 or2 oc2 c2 (k1 + k2) := by
  simp only [reState, lockAll_append, List.append_assoc, Int.sub_sub]

theorem reState_id (s : St) : reState s [] [] [] s.locked0 s.locked0Ord s.occ s.cworker 0 = s := by
  cases s
  simp [reState, lockAll]

theorem initiate_go_eq {s : St} (h : (initiate s).2 = true) :
    (initiate s).1 = { s with cworker := ((s.workers : Int) - s.toinitiate).toNat, toinitiate := s.toinitiate - 1 } := by
  unfold initiate at h ⊢
  by_cases hc : s.cstep < s.tsteps
  · simp only [hc, not_true_eq_false, if_false] at h ⊢
    by_cases hz : s.toinitiate > 0 ∧ (s.cstep : Int) + ((s.workers : Int) - s.toinitiate) ≥ (s.tsteps : Int)
    · simp only [hz, and_self, if_true] at h
      simp at h
    · simp only [hz, if_false]
  · simp only [hc, not_false_eq_true, if_true] at h
    exact absurd h (by simp)

theorem initiate_nogo_eq {s : St} (h : (initiate s).2 = false) (hc : s.cstep < s.tsteps) (h0 : 0 ≤ s.toinitiate) :
    ∃ c, (initiate s).1 = { s with cworker := c, toinitiate := -1 } := by
  unfold initiate at h ⊢
  simp only [hc, not_true_eq_false, if_false] at h ⊢
  by_cases hz : s.toinitiate > 0 ∧ (s.cstep : Int) + ((s.workers : Int) - s.toinitiate) ≥ (s.tsteps : Int)
  · simp only [hz, and_self, if_true]
    exact ⟨_, rfl⟩
  · simp only [hz, if_false] at h ⊢
    simp only [decide_eq_false_iff_not] at h
    have : s.toinitiate = 0 := by omega
    rw [this]
    exact ⟨_, rfl⟩

theorem recJobFull_pns (ent ord : Nat) (r : List Nat × List Nat) :
    (recJobFull ent ord r).map (fun q => q.2.1) = (recPairs r).map (·.2) := by
  simp only [recJobFull, List.map_map]
  have : ((fun (q : Int × Nat × Stream × Stream) => q.2.1) ∘ fun (xi : (Nat × Nat) × Nat) =>
      ((xi.1.1 : Int) - 1, xi.1.2, ({ entropy := ent, key := [ord, xi.2] } : Stream),
       ({ entropy := ent, key := [ord, xi.2, 0] } : Stream))) = (fun xi => xi.1.2) := rfl
  rw [this]
  have h2 : (fun (xi : (Nat × Nat) × Nat) => xi.1.2) = (fun (x : Nat × Nat) => x.2) ∘ Prod.fst := rfl
  rw [h2, ← List.map_map, List.zipIdx_map_fst]

/-- **one iteration of the initiation loop after a restart, recorded path in its recorded slot**: the whole new
    sampler state, explicitly -/
theorem start_reissue_state {y y' : Sys} {o : PickOutcome} {sv : Nat}
    (es ts : List Nat) (rest : List (List Nat × List Nat)) (ord : Nat) (ordRest : List (Option Nat))
    (hl0 : y.s.locked0 = (es, ts) :: rest) (hord : y.s.locked0Ord = some ord :: ordRest)
    (hin : ∀ x ∈ es.zip ts, y.s.trajs[x.1]? = some (some x.2) ∧ x.1 + 1 < y.s.trajs.length)
    (hu : UniqLive y.s.trajs)
    (h : sysStep y (.start o sv) = .ok y') :
    ∃ job occ' cw, y'.jobs = y.jobs ++ [job] ∧
      jobKey job = (recJobFull y.s.entropy ord (es, ts), (es.zip ts).map (·.2)) ∧
      y'.s = reState y.s (es.zip ts) [recEntry (es, ts)] [ord] rest ordRest occ' cw 1 := by
  simp only [sysStep] at h
  split at h
  · exact absurd h (by simp)
  · rename_i hgo
    simp only [Bool.not_eq_true, Bool.not_eq_false] at hgo
    have hI := initiate_go_eq hgo
    have hti : (initiate y.s).1.toinitiate ≥ 0 := by
      have := initiate_go6 hgo
      omega
    rw [prep_eq_tail] at h
    simp only [hti, if_true] at h
    split at h
    · exact absurd h (by simp)
    · rename_i s3 job ds hprep
      simp only [Except.ok.injEq] at h
      subst h
      split at hprep
      · exact absurd hprep (by simp)
      · rename_i s2 ps ds2 hpl
        obtain ⟨⟨occ', hs3⟩, hjk⟩ := prepTail_ok hprep
        have hpn := prepTail_pnum hprep
        -- the re-issue branch of pick_lock
        unfold pickLock at hpl
        have hl0' : (initiate y.s).1.locked0 = (es, ts) :: rest := by rw [hI]; exact hl0
        have hord' : (initiate y.s).1.locked0Ord = some ord :: ordRest := by rw [hI]; exact hord
        rw [hl0'] at hpl
        simp only [] at hpl
        unfold reissue at hpl
        split at hpl
        · exact absurd hpl (by simp)
        · rename_i s1 pairs hre
          obtain ⟨hs1, hp⟩ := reissue_go_inplace _ _ _ _
            (by intro x hx; have := hin x hx; rw [hI]; exact this) (by rw [hI]; exact hu) hre
          have hro : reissueOrd (initiate y.s).1 s1 = ord := by simp [reissueOrd, hord']
          have hsome : (((initiate y.s).1.locked0Ord.head?).join).isSome = true := by simp [hord']
          rw [hro] at hpl
          split at hpl
          · exact absurd hpl (by simp)
          · rename_i ps' hmk
            simp only [Except.ok.injEq, Prod.mk.injEq] at hpl
            obtain ⟨rfl, rfl, rfl⟩ := hpl
            have hent : s1.entropy = y.s.entropy := by rw [hs1, hI]
            have hps : ps'.map pkFull = recJobFull y.s.entropy ord (es, ts) := by
              unfold mkPickedAt mkPicked at hmk
              rw [hp] at hmk
              have : (es.zip ts).map (fun x => ((x.1 : Int) - (off : Int), some x.2)) =
                  ((es.zip ts).map (fun x => ((x.1 : Int) - 1, x.2))).map (fun x => (x.1, some x.2)) := by
                simp [off]
              rw [this] at hmk
              have h1 := mkPicked_go_some _ _ _ _ hmk
              rw [h1]
              simp only [recJobFull, recPairs, List.zipIdx_map, List.map_map, mainStream, spawnStream, hent]
              apply List.map_congr_left
              intro xi _
              simp
            refine ⟨job, occ', ((y.s.workers : Int) - y.s.toinitiate).toNat, rfl, ?_, ?_⟩
            · simp only [jobKey, Prod.mk.injEq]
              refine ⟨by rw [hjk, hps], ?_⟩
              rw [hpn]
              have : ps'.map (·.pn) = (ps'.map pkFull).map (fun q => q.2.1) := by
                rw [List.map_map]; rfl
              rw [this, hps, recJobFull_pns]; rfl
            · show s3 = _
              rw [hs3]
              simp only [reissued, hsome, if_true, hro]
              rw [hs1, hord', hI]
              simp only [reState, recEntry, off, List.tail_cons]
              rfl

/-- **the re-issue chain, whole sampler state** -/
theorem reissue_run_state : ∀ (recs : List ((List Nat × List Nat) × Nat)) (starts : List (PickOutcome × Nat)) (y y' : Sys)
    (rest : List (List Nat × List Nat)) (ordRest : List (Option Nat)),
    starts.length = recs.length → y.s.locked0 = recs.map (·.1) ++ rest →
    y.s.locked0Ord = recs.map (fun r => some r.2) ++ ordRest →
    (∀ x ∈ recs.flatMap (fun r => recPairs r.1), y.s.trajs[x.1]? = some (some x.2) ∧ x.1 + 1 < y.s.trajs.length) →
    UniqLive y.s.trajs →
    run y (starts.map (fun x => Ev.start x.1 x.2)) = .ok y' →
    ∃ jobs occ' cw, y'.jobs = y.jobs ++ jobs ∧
      jobs.map jobKey = recs.map (fun r => (recJobFull y.s.entropy r.2 r.1, (recPairs r.1).map (·.2))) ∧
      y'.s = reState y.s (recs.flatMap (fun r => recPairs r.1)) (recs.map (fun r => recEntry r.1)) (recs.map (·.2))
               rest ordRest occ' cw (recs.length : Int) := by
  intro recs
  induction recs with
  | nil =>
    intro starts y y' rest ordRest hl h0 h0o _ _ hrun
    have : starts = [] := List.eq_nil_of_length_eq_zero (by simpa using hl)
    subst this
    simp only [List.map_nil, run, Except.ok.injEq] at hrun
    subst hrun
    refine ⟨[], y.s.occ, y.s.cworker, by simp, rfl, ?_⟩
    simp only [List.map_nil, List.nil_append] at h0 h0o
    rw [← h0, ← h0o]
    exact (reState_id y.s).symm
  | cons r recs ih =>
    intro starts y y' rest ordRest hl h0 h0o hin hu hrun
    cases starts with
    | nil => simp at hl
    | cons st starts =>
      obtain ⟨⟨es, ts⟩, ord⟩ := r
      simp only [List.map_cons, run] at hrun
      split at hrun
      · exact absurd hrun (by simp)
      · rename_i y1 hstep
        have hin1 : ∀ x ∈ es.zip ts, y.s.trajs[x.1]? = some (some x.2) ∧ x.1 + 1 < y.s.trajs.length := by
          intro x hx
          apply hin x
          simp only [List.flatMap_cons, recPairs, List.mem_append]
          exact Or.inl hx
        obtain ⟨job, occ1, cw1, hj1, hk1, hs1⟩ :=
          start_reissue_state es ts (recs.map (·.1) ++ rest) ord (recs.map (fun r => some r.2) ++ ordRest)
            (by simpa using h0) (by simpa using h0o) hin1 hu hstep
        have htr : y1.s.trajs = y.s.trajs := by rw [hs1]; rfl
        have hen : y1.s.entropy = y.s.entropy := by rw [hs1]; rfl
        obtain ⟨jobs, occ2, cw2, k1, k2, k3⟩ :=
          ih starts y1 y' rest ordRest (by simpa using hl) (by rw [hs1]; rfl) (by rw [hs1]; rfl)
            (by
              intro x hx
              rw [htr]
              apply hin x
              simp only [List.flatMap_cons, List.mem_append]
              exact Or.inr hx)
            (by rw [htr]; exact hu) hrun
        refine ⟨job :: jobs, occ2, cw2, ?_, ?_, ?_⟩
        · rw [k1, hj1]; simp
        · simp only [List.map_cons, k2, hk1, hen, recPairs]
        · rw [k3, hs1, reState_comp]
          simp only [List.flatMap_cons, recPairs, List.map_cons, List.singleton_append, List.length_cons]
          congr 1
          omega

/-- what the restart rebuilds from the image of a stop with jobs in flight (`recs`: the recorded jobs with their
    ordinals): the slots as they were, all unlocked but the ghost — re-locking the recorded slots gives the locks of the
    stopped state —, the record to be re-issued, a full initiation due, fresh engine table, no rows -/
structure RestoreRelM (occ : List (List Int)) (recs : List ((List Nat × List Nat) × Nat)) (s s' : St) : Prop where
  n : s'.n = s.n
  W : s'.W = s.W
  trajs : s'.trajs = s.trajs
  locks : lockAll (recs.flatMap (fun r => recPairs r.1)) s'.locks = s.locks
  locked : s'.locked = []
  lockedOrd : s'.lockedOrd = []
  locked0 : s'.locked0 = recs.map (·.1)
  locked0Ord : s'.locked0Ord = recs.map (fun r => some r.2)
  workers : s'.workers = s.workers
  cstep : s'.cstep = s.cstep
  tsteps : s'.tsteps = s.tsteps
  trajNum : s'.trajNum = s.trajNum
  frac : FEq s.frac s'.frac
  wts : FEq s.wts s'.wts
  ensEng : s'.ensEng = s.ensEng
  seed : s'.seed = s.seed
  entropy : s'.entropy = s.entropy
  spawned : s'.spawned = s.spawned
  toinitiate : s'.toinitiate = (s'.workers : Int)
  restarted : s'.restarted = true
  rgenRestored : s'.rgenRestored = false
  occ : s'.occ = occ
  rows : s'.rows = []

/-- the stopped sampler (right after `treat_output`) and the jobs still in flight: they are on record with their
    ordinals, each recorded path sits in its recorded slot, no path sits in two slots, the initiation is closed -/
structure StopM (recs : List ((List Nat × List Nat) × Nat)) (s : St) (jobs : List Job) : Prop where
  locked : s.locked = recs.map (fun r => recEntry r.1)
  lockedOrd : s.lockedOrd = recs.map (·.2)
  locked0 : s.locked0 = []
  locked0Ord : s.locked0Ord = []
  toinitiate : s.toinitiate = -1
  inplace : ∀ x ∈ recs.flatMap (fun r => recPairs r.1), s.trajs[x.1]? = some (some x.2) ∧ x.1 + 1 < s.trajs.length
  uniq : UniqLive s.trajs
  onRecord : jobs.map jobKey = recs.map (fun r => (recJobFull s.entropy r.2 r.1, (recPairs r.1).map (·.2)))

/-- **the heart of restart equivalence, several workers**: after `treat_output` left `s2` with the jobs `restJobs`
    in flight and a fresh job due, (a) continuing — prep via `pick` for the freed worker — and (b) restarting from the
    image — `|recs|` iterations of the initiation loop re-issue the record, one more picks the fresh job from the saved
    stream position, the closing `.initDone` — give scheduler states equal up to who runs what. -/
theorem restart_step_multi {occ : List (List Int)} {recs : List ((List Nat × List Nat) × Nat)} {s2 s' : St}
    (job : Job) (restJobs : List Job) (o : PickOutcome)
    (hR : RestoreRelM occ recs s2 s') (hS : StopM recs s2 restJobs)
    {yU : Sys} (hU : stepPrep (s2, job, restJobs) o = .ok yU) (hmore : s2.cstep + s2.workers ≤ s2.tsteps)
    (starts : List (PickOutcome × Nat)) (hlen : starts.length = recs.length)
    {y1 y2 yR : Sys} (h1 : run { s := s', jobs := [] } (starts.map (fun x => Ev.start x.1 x.2)) = .ok y1)
    (h2 : sysStep y1 (.start o s2.mainDraws) = .ok y2) (h3 : sysStep y2 .initDone = .ok yR) :
    RM s2.rows [] yU yR := by
  obtain ⟨jobs, occ1, cw1, hj1, hk1, hs1⟩ := reissue_run_state recs starts _ y1 [] [] hlen
    (by simp [hR.locked0]) (by simp [hR.locked0Ord])
    (by intro x hx; show s'.trajs[x.1]? = _ ∧ x.1 + 1 < s'.trajs.length; rw [hR.trajs]; exact hS.inplace x hx)
    (by show UniqLive s'.trajs; rw [hR.trajs]; exact hS.uniq) h1
  simp only [List.nil_append] at hj1
  simp only [] at hs1 hk1
  -- the uninterrupted side
  simp only [stepPrep] at hU
  rw [if_pos hmore, prep_eq_tail] at hU
  have hneg : ¬ s2.toinitiate ≥ 0 := by rw [hS.toinitiate]; omega
  simp only [hneg, if_false] at hU
  -- the restarted side: the fresh start
  simp only [sysStep] at h2
  split at h2
  · exact absurd h2 (by simp)
  · rename_i hgo
    simp only [Bool.not_eq_true, Bool.not_eq_false] at hgo
    have hI := initiate_go_eq hgo
    obtain ⟨hpos, hroom, _⟩ := initiate_go6 hgo
    have hti : (initiate y1.s).1.toinitiate ≥ 0 := by rw [hI]; show y1.s.toinitiate - 1 ≥ 0; omega
    rw [prep_eq_tail] at h2
    simp only [hti, if_true] at h2
    generalize hz : (initiate y1.s).1 = z at h2 hI hti
    have hzl0 : z.locked0 = [] := by rw [hI, hs1]; rfl
    have hzr : z.restarted = true := by rw [hI, hs1]; exact hR.restarted
    have hzg : z.rgenRestored = false := by rw [hI, hs1]; exact hR.rgenRestored
    have hpl : pickLock z o s2.mainDraws = pick { z with mainDraws := s2.mainDraws, rgenRestored := true } o := by
      unfold pickLock restoreStreamOnce
      simp only [hzl0, hzr, hzg, and_self, if_true]
    rw [hpl] at h2
    have hb0 : ObsR False 0 s2.rows [] s2 { z with mainDraws := s2.mainDraws, rgenRestored := true } := by
      rw [hI, hs1]
      exact ⟨hR.n.symm, hR.W.symm, hR.trajs.symm, hR.locks.symm,
        by simp only [reState, hR.locked, List.nil_append]; exact hS.locked,
        hS.locked0,
        by simp only [reState, hR.lockedOrd, List.nil_append]; exact hS.lockedOrd,
        hS.locked0Ord, hR.workers.symm, hR.cstep.symm, hR.tsteps.symm, hR.trajNum.symm, hR.frac, hR.wts,
        hR.ensEng.symm, hR.seed.symm, hR.entropy.symm, hR.spawned.symm, rfl, fun f => f.elim, fun f => f.elim,
        ⟨[], by simp, by simp [reState, hR.rows]⟩⟩
    have hp1 := pick_rel hb0 o
    cases ha : pick s2 o with
    | error e => rw [ha] at hU; exact absurd hU (by simp)
    | ok r =>
      rw [ha] at hp1 hU
      obtain ⟨r', hb, hq, hq'⟩ := hp1.ok_left
      obtain ⟨a1, ps, ds⟩ := r
      obtain ⟨b1, ps', ds'⟩ := r'
      simp only [Prod.mk.injEq] at hq'
      obtain ⟨rfl, rfl⟩ := hq'
      rw [hb] at h2
      simp only [] at hq hU h2
      cases ha3 : prepTail a1 ps ds (some job.pin) with
      | error e => rw [ha3] at hU; exact absurd hU (by simp)
      | ok r3 =>
        rw [ha3] at hU
        obtain ⟨a3, jobU, dsU⟩ := r3
        simp only [Except.ok.injEq] at hU
        subst hU
        split at h2
        · exact absurd h2 (by simp)
        · rename_i b3 jobR dsR hb3
          simp only [Except.ok.injEq] at h2
          subst h2
          have hobs3 := prepTail_obs hq ha3 hb3
          have hkey := prepTail_key ha3 hb3
          have fa := pick_frame ha
          have fb := pick_frame hb
          have fa3 := prepTail_frame ha3
          have fb3 := prepTail_frame hb3
          have ha3i : a3.toinitiate = -1 := by rw [fa3.2.2.2, fa.toinitiate]; exact hS.toinitiate
          have hb3i : b3.toinitiate ≥ 0 := by rw [fb3.2.2.2, fb.toinitiate]; exact hti
          have hb3c : b3.cstep < b3.tsteps := by
            rw [fb3.1, fb3.2.1, fb.cstep, fb.tsteps]
            show z.cstep < z.tsteps
            rw [hI, hs1]
            show s'.cstep < s'.tsteps
            rw [hR.cstep, hR.tsteps]
            have := hR.workers
            have h5 : 0 < y1.s.toinitiate := hpos
            rw [hs1] at h5 hroom
            simp only [reState] at h5 hroom
            rw [hR.toinitiate, hR.workers] at h5
            rw [hR.cstep, hR.tsteps, hR.workers, hR.toinitiate, hR.workers] at hroom
            omega
          -- the closing initiate
          simp only [sysStep] at h3
          split at h3
          · exact absurd h3 (by simp)
          · rename_i hnogo
            simp only [Bool.not_eq_true] at hnogo
            simp only [Except.ok.injEq] at h3
            subst h3
            obtain ⟨c, hc⟩ := initiate_nogo_eq hnogo hb3c hb3i
            refine ⟨?_, ha3i, ?_, ?_⟩
            · show ObsR False 0 s2.rows [] a3 (initiate b3).1
              rw [hc]
              exact { hobs3 with toinitiate := fun f => f.elim, occ := fun f => f.elim }
            · show (initiate b3).1.toinitiate = -1
              rw [hc]
            · show JobsEq (restJobs ++ [jobU]) (y1.jobs ++ [jobR])
              apply JobsEq.append _ hkey
              unfold JobsEq
              rw [hS.onRecord, hj1, hk1, hR.entropy]

end Infretis.Repex
