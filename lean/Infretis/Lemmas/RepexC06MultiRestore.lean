import Infretis.Lemmas.RepexC06MultiChain
/-
C06, part 11: `restore ∘ persist` at a stop with jobs in flight (several workers).

`load_paths` reads neither the record of in-flight jobs nor the spawn counter, so the image of a stop with jobs in
flight loads exactly as the image of the same sampler with all slots free and nothing on record (`freed`) — for which
`restore_persist_full` applies — and the record (`locked` → `locked0`, with ordinals) and the spawn counter ride along.
-/
namespace Infretis.Repex
open Infretis.Perm

/-- override the fields `load_paths` never touches: the record to re-issue and the spawn counter -/
def setRec (s : St) (l0 : List (List Nat × List Nat)) (l0o : List (Option Nat)) (sp : Nat) : St :=
  { s with locked0 := l0, locked0Ord := l0o, spawned := sp }

theorem unlock_setRec (s : St) (e : Nat) (a : List (List Nat × List Nat)) (b : List (Option Nat)) (c : Nat) :
    unlock (setRec s a b c) e = (unlock s e).map (fun x => setRec x a b c) := by
  unfold unlock setRec
  simp only []
  split <;> rfl

theorem addTraj_setRec (s : St) (ens : Int) (pn : Nat) (valid : List Rat) (a : List (List Nat × List Nat))
    (b : List (Option Nat)) (c : Nat) :
    addTraj (setRec s a b c) ens pn valid = (addTraj s ens pn valid).map (fun x => setRec x a b c) := by
  unfold addTraj
  have hv : padValid (setRec s a b c) ens valid = padValid s ens valid := rfl
  simp only [hv, show (setRec s a b c).n = s.n from rfl, show (setRec s a b c).trajs = s.trajs from rfl]
  split
  · rfl
  · split
    · rfl
    · split
      · rfl
      · split
        · rfl
        · exact unlock_setRec ({ s with trajs := s.trajs.set (ens + (off : Int)).toNat (some pn),
                                         W := s.W.set (ens + (off : Int)).toNat (padValid s ens valid) }) _ a b c

theorem loadOne_setRec (s : St) (ens : Int) (pn : Nat) (valid fr : List Rat) (a : List (List Nat × List Nat))
    (b : List (Option Nat)) (c : Nat) :
    loadOne (setRec s a b c) ens pn valid fr = (loadOne s ens pn valid fr).map (fun x => setRec x a b c) := by
  unfold loadOne
  rw [addTraj_setRec]
  cases addTraj s ens pn valid with
  | error e => rfl
  | ok s1 => rfl

theorem plus_setRec (a : List (List Nat × List Nat)) (b : List (Option Nat)) (c : Nat) :
    ∀ (l : List (Nat × List Rat × List Rat)) (s : St) (i : Nat),
      loadPaths.plus (setRec s a b c) i l = (loadPaths.plus s i l).map (fun x => setRec x a b c) := by
  intro l
  induction l with
  | nil => intro s i; rfl
  | cons x rest ih =>
    intro s i
    obtain ⟨pn, w, fr⟩ := x
    simp only [loadPaths.plus]
    rw [loadOne_setRec]
    cases loadOne s (i : Int) pn w fr with
    | error e => rfl
    | ok s1 => exact ih s1 (i + 1)

theorem loadPaths_setRec (s : St) (paths : List (Nat × List Rat × List Rat)) (a : List (List Nat × List Nat))
    (b : List (Option Nat)) (c : Nat) :
    loadPaths (setRec s a b c) paths = (loadPaths s paths).map (fun x => setRec x a b c) := by
  cases paths with
  | nil => rfl
  | cons x rest =>
    obtain ⟨pn0, w0, fr0⟩ := x
    simp only [loadPaths]
    rw [plus_setRec]
    cases loadPaths.plus s 0 rest with
    | error e => rfl
    | ok s1 => exact loadOne_setRec s1 (-1) pn0 w0 fr0 a b c

/-- the stopped sampler with every real slot free and nothing on record -/
def freed (s : St) : St :=
  { s with locks := List.replicate (s.n - 1) false ++ [true], locked := [], lockedOrd := [], spawned := s.cstep }

/-- a stop state with jobs in flight: as `StopState`, but the real slots may be locked (exactly the recorded ones:
    `locksRec`), the record `recs` is `locked`/`lockedOrd`, and the spawn counter is whatever it is -/
structure StopStateM (s : St) (pns : List Nat) (recs : List ((List Nat × List Nat) × Nat)) : Prop where
  n2 : 2 ≤ s.n
  lenW : s.W.length = s.n
  lenT : s.trajs.length = s.n
  lenL : s.locks.length = s.n
  pnsLen : pns.length = s.n - 1
  slot : ∀ (e pn : Nat), pns[e]? = some pn → s.trajs[e]? = some (some pn) ∧
    ∃ w, s.wts.lookup pn = some w ∧ s.W[e]? = some (padValid s ((e : Int) - 1) w) ∧
      (padValid s ((e : Int) - 1) w).length = s.n ∧ (padValid s ((e : Int) - 1) w).getD e 0 ≠ 0 ∧
      ∃ f, s.frac.lookup pn = some f
  ghostT : s.trajs[s.n - 1]? = some none
  ghostW : s.W[s.n - 1]? = some (List.replicate s.n 0)
  fracKeys : ∀ q ∈ s.frac.map (·.1), q ∈ pns
  wtsKeys : ∀ q ∈ s.wts.map (·.1), q ∈ pns
  locked : s.locked = recs.map (fun r => recEntry r.1)
  lockedOrd : s.lockedOrd = recs.map (·.2)
  locksRec : lockAll (recs.flatMap (fun r => recPairs r.1)) (List.replicate (s.n - 1) false ++ [true]) = s.locks
  locked0 : s.locked0 = []
  locked0Ord : s.locked0Ord = []
  entropy : s.entropy = s.seed

theorem StopStateM.freed {s : St} {pns : List Nat} {recs : List ((List Nat × List Nat) × Nat)}
    (h : StopStateM s pns recs) : StopState (freed s) pns := by
  have hn : (Infretis.Repex.freed s).n = s.n := rfl
  refine ⟨h.n2, h.lenW, h.lenT, ?_, h.pnsLen, ?_, h.ghostT, h.ghostW, ?_, h.fracKeys, h.wtsKeys, rfl, h.locked0, rfl,
    h.locked0Ord, h.entropy, rfl⟩
  · show (List.replicate (s.n - 1) false ++ [true]).length = s.n
    have := h.n2
    simp only [List.length_append, List.length_replicate, List.length_cons, List.length_nil]
    omega
  · intro e pn hp
    obtain ⟨a, w, c, d, e1, e2, f, hf⟩ := h.slot e pn hp
    have he : e < s.n - 1 := by
      have := (List.getElem?_eq_some_iff.mp hp).1
      rw [h.pnsLen] at this
      exact this
    refine ⟨a, ?_, w, c, ?_, ?_, ?_, f, hf⟩
    · show (List.replicate (s.n - 1) false ++ [true])[e]? = some false
      rw [List.getElem?_append_left (by simpa using he), List.getElem?_replicate]
      simp [he]
    · rw [padValid_congr hn]; exact d
    · rw [padValid_congr hn]; exact e1
    · rw [padValid_congr hn]; exact e2
  · show (List.replicate (s.n - 1) false ++ [true])[s.n - 1]? = some true
    rw [List.getElem?_append_right (by simp)]
    simp

/-- **`restore (persist s)` at a stop with jobs in flight**: the image loads, and the rebuilt state stands in
    `RestoreRelM` to `s` — slots as they were and all free (re-locking the record gives the locks of `s`), the record
    waiting in `locked0` with its ordinals, counters / seed / entropy / spawn counter / tables as in `s`, a full
    initiation due, fresh engine table, no rows. -/
theorem restore_persist_multi {s : St} {pns : List Nat} {recs : List ((List Nat × List Nat) × Nat)}
    (h : StopStateM s pns recs) (occ : List (List Int)) :
    ∃ s', restore (persist s) s.n s.workers s.tsteps occ s.ensEng (fun pn => (s.wts.lookup pn).getD []) = .ok s' ∧
      RestoreRelM occ recs s s' := by
  obtain ⟨s0, hres0, hR0⟩ := restore_persist_full h.freed occ
  have hlk : (persist s).locked = recs.map (·.1) := by
    simp only [persist, h.locked]
    have := persist_locked_recEntry (recs.map (·.1))
    simpa [List.map_map] using this
  have hlo : (persist s).lockedOrd = recs.map (·.2) := by simp only [persist, h.lockedOrd]
  -- the image of `s` loads like the image of `freed s`, the record and the spawn counter riding along
  have hres : restore (persist s) s.n s.workers s.tsteps occ s.ensEng (fun pn => (s.wts.lookup pn).getD []) =
      .ok (setRec s0 (persist s).locked ((persist s).lockedOrd.map some)
        ((persist s).spawnedRec.getD ((persist s).cstep + (persist s).locked.length))) := by
    have hfree : restore (persist (freed s)) s.n s.workers s.tsteps occ s.ensEng
        (fun pn => (s.wts.lookup pn).getD []) = .ok s0 := hres0
    unfold restore at hfree ⊢
    simp only [] at hfree ⊢
    have hsame : ({ blank s.n s.workers s.tsteps (persist s).cstep (persist s).trajNum (persist s).seed occ s.ensEng true
          (persist s).locked with
          locked0Ord := (persist s).lockedOrd.map some,
          spawned := (persist s).spawnedRec.getD ((persist s).cstep + (persist s).locked.length) } : St) =
        setRec ({ blank s.n s.workers s.tsteps (persist (freed s)).cstep (persist (freed s)).trajNum
            (persist (freed s)).seed occ s.ensEng true (persist (freed s)).locked with
            locked0Ord := (persist (freed s)).lockedOrd.map some,
            spawned := (persist (freed s)).spawnedRec.getD
              ((persist (freed s)).cstep + (persist (freed s)).locked.length) } : St)
          (persist s).locked ((persist s).lockedOrd.map some)
          ((persist s).spawnedRec.getD ((persist s).cstep + (persist s).locked.length)) := rfl
    rw [hsame, loadPaths_setRec]
    have hpaths : (persist s).active = (persist (freed s)).active := rfl
    have hfrac : (persist s).frac = (persist (freed s)).frac := rfl
    rw [hpaths, hfrac, hfree]
    rfl
  refine ⟨_, hres, ?_⟩
  have o := hR0.obs
  have hsp := restore_spawned hres
  exact
    { n := o.n.symm, W := o.W.symm, trajs := o.trajs.symm,
      locks := by
        show lockAll _ s0.locks = s.locks
        have : s0.locks = List.replicate (s.n - 1) false ++ [true] := o.locks.symm
        rw [this]; exact h.locksRec
      locked := o.locked.symm, lockedOrd := o.lockedOrd.symm,
      locked0 := hlk, locked0Ord := by show (persist s).lockedOrd.map some = _; rw [hlo, List.map_map]; rfl
      workers := o.workers.symm, cstep := o.cstep.symm, tsteps := o.tsteps.symm, trajNum := o.trajNum.symm,
      frac := o.frac, wts := o.wts, ensEng := o.ensEng.symm, seed := o.seed.symm, entropy := o.entropy.symm,
      spawned := hsp, toinitiate := hR0.toinitiate, restarted := hR0.restarted, rgenRestored := hR0.rgenRestored,
      occ := hR0.occ,
      rows := by
        obtain ⟨r, hr1, hr2⟩ := o.rows
        have : r = [] := by
          have h1 : (freed s).rows = s.rows := rfl
          rw [h1] at hr1
          have := congrArg List.length hr1
          simp at this
          exact this
        show s0.rows = []
        simpa [this] using hr2 }

end Infretis.Repex
