import Infretis.Lemmas.RepexC06MultiReach
/-
C06, part 13: `StopStateM` and `StopM` hold at every stop of every reachable history, for any number of workers.
The bundle carried along a history is the one-worker bundle `Reach1` without `One`, plus `PnumOk`.
-/
namespace Infretis.Repex
open Infretis.Perm Infretis.Perm.C05

structure ReachM (y : Sys) : Prop where
  inv5 : Inv5 y
  tidy : TidyY y
  ninv : NInv y
  ent : Ent y.s
  pnum : PnumOk y.jobs

theorem sysStep_reachM {y y' : Sys} (ev : Ev) (hr : ReachM y) (hev : EvOk y ev) (h : sysStep y ev = .ok y') :
    ReachM y' := by
  obtain ⟨oj, hj⟩ := sysStepJ_of_sys h
  exact ⟨(sysStep_preserves5 ev hr.inv5 hev h).1, sysStep_tidy ev hr.inv5.inv hr.tidy h, sysStepJ_ninv hr.ninv hj,
    sysStep_ent ev hr.ent h, sysStep_pnumOk ev hr.pnum h⟩

theorem run_reachM : ∀ (evs : List Ev) {y y' : Sys}, ReachM y → HistOk y evs → run y evs = .ok y' → ReachM y' := by
  intro evs
  induction evs with
  | nil => intro y y' hr _ h; simp only [run, Except.ok.injEq] at h; subst h; exact hr
  | cons ev rest ih =>
    intro y y' hr hh h
    unfold run at h
    split at h
    · exact absurd h (by simp)
    · rename_i y1 h1
      exact ih (sysStep_reachM ev hr hh.1 h1) (hh.2 y1 h1) h

/-- a start state with any number of workers, fresh (`Init5`) or rebuilt from a restart image without record -/
structure StartM (y : Sys) : Prop where
  s5 : Start5 y
  tidy : Tidy y.s
  locked : y.s.locked = []
  lockedOrd : y.s.lockedOrd = []
  ent : Ent y.s
  sp : y.s.spawned = y.s.cstep

theorem StartM.init {y : Sys} (h : StartM y) : Init y := by
  rcases h.s5 with h5 | h5
  · exact h5.init
  · have hi := h5.init
    exact ⟨hi.jobs, hi.n2, hi.lenW, hi.lenT, hi.locks, hi.live, hi.inj, h.ent.l0, hi.toinit⟩

theorem StartM.reach {y : Sys} (h : StartM y) : ReachM y := by
  have hi := h.init
  exact ⟨h.s5.inv5, ⟨h.tidy, by rw [hi.jobs]; intro j hj; simp at hj⟩,
    ninv_of_init hi h.locked h.lockedOrd h.sp, h.ent, by rw [hi.jobs]; intro j hj; simp at hj⟩

/-- pointwise description of `lockAll` -/
theorem lockAll_get : ∀ (l : List (Nat × Nat)) (lk : List Bool) (e : Nat),
    (lockAll l lk)[e]? = if e ∈ l.map Prod.fst ∧ e < lk.length then some true else lk[e]? := by
  intro l
  induction l with
  | nil => intro lk e; simp [lockAll]
  | cons x rest ih =>
    intro lk e
    have hcons : lockAll (x :: rest) lk = lockAll rest (lk.set x.1 true) := rfl
    rw [hcons, ih]
    simp only [List.length_set, List.map_cons, List.mem_cons]
    by_cases hlt : e < lk.length
    · by_cases hr : e ∈ rest.map Prod.fst
      · simp [hr, hlt]
      · by_cases hx : e = x.1
        · subst hx
          simp [hr, hlt]
        · simp only [hr, hx, false_and, or_self, if_false]
          rw [List.getElem?_set_ne (Ne.symm hx)]
    · simp only [hlt, and_false, if_false]
      rw [List.getElem?_set]
      split
      · rename_i hxe
        subst hxe
        simp [hlt]
      · rfl

theorem lockAll_length (l : List (Nat × Nat)) (lk : List Bool) : (lockAll l lk).length = lk.length := by
  induction l generalizing lk with
  | nil => rfl
  | cons x rest ih =>
    have hcons : lockAll (x :: rest) lk = lockAll rest (lk.set x.1 true) := rfl
    rw [hcons, ih]; simp

/-- the locks of a state with slot invariant `CoreR s H` are the free locks with the held slots locked -/
theorem locks_of_core {s : St} {H : List (Nat × Nat)} {tn : Nat} (hc : CoreR s H tn) :
    lockAll H (List.replicate (s.n - 1) false ++ [true]) = s.locks := by
  have hn2 := hc.n2
  have hfl : (List.replicate (s.n - 1) false ++ [true]).length = s.n := by
    simp only [List.length_append, List.length_replicate, List.length_cons, List.length_nil]; omega
  apply List.ext_getElem?
  intro e
  rw [lockAll_get, hfl]
  by_cases he : e < s.n
  · by_cases he1 : e < s.n - 1
    · have hb := hc.busy e he1
      have hlt : e < s.locks.length := by rw [hc.lenL]; exact he
      by_cases hm : e ∈ H.map Prod.fst
      · rw [if_pos ⟨hm, he⟩, hb.mpr hm]
      · rw [if_neg (fun hh => hm hh.1)]
        rw [List.getElem?_append_left (by simpa using he1), List.getElem?_replicate, if_pos he1]
        cases hv : s.locks[e] with
        | true =>
          have : s.locks[e]? = some true := by rw [List.getElem?_eq_getElem hlt, hv]
          exact absurd (hb.mp this) hm
        | false => rw [List.getElem?_eq_getElem hlt, hv]
    · have hen : e = s.n - 1 := by omega
      subst hen
      have hg : (List.replicate (s.n - 1) false ++ [true])[s.n - 1]? = some true := by
        rw [List.getElem?_append_right (by simp)]; simp
      rw [hc.ghost]
      split
      · rfl
      · exact hg
  · rw [if_neg (fun hh => he hh.2), List.getElem?_eq_none (by rw [hfl]; omega),
        List.getElem?_eq_none (by rw [hc.lenL]; omega)]

/-- **`StopStateM` and `StopM` hold of every reachable state, any number of workers, at the instant `treat_output`
    has written the restart file** (initiation closed): C03 gives the slot structure and the locks, C05 the weight table
    and the sorted diagonal, C07 the record with its ordinals and streams, `TidyY` the ghost slot and the table keys. -/
theorem stopStateM_of_reach {y y' : Sys} (hr : ReachM y) (hti : y.s.toinitiate = -1)
    (k : Nat) (st : Status) (w : List (List Rat)) (o : PickOutcome) (hev : EvOk y (.step k st w o))
    (h : sysStep y (.step k st w o) = .ok y') {r : St × Job × List Job} (hT : stepTreat y k st w = .ok r) :
    StopStateM r.1 (livePns r.1) (recsOf r.2.2 r.1.lockedOrd) ∧ StopM (recsOf r.2.2 r.1.lockedOrd) r.1 r.2.2 := by
  obtain ⟨_, _, s2, job, pns, it, hjob, htreat, hc2, hf2, _, hdiag, _, _, _⟩ :=
    step_preserves5 k st w o hr.inv5 hev h
  obtain ⟨t2, hjob', hrest⟩ := stepTreat_tidy hr.inv5.inv hr.tidy hT
  obtain ⟨hmid0, hjobs⟩ := stepTreat_midState hT
  -- identify the pieces of `stepTreat`
  unfold stepTreat at hT
  cases hl : loop y.s with
  | mk s1 go =>
  rw [hl] at hT htreat
  simp only [] at hT htreat
  split at hT
  · exact absurd hT (by simp)
  rename_i hgo
  have hgo : go = true := by simpa using hgo
  subst hgo
  rw [hjob] at hT
  simp only [htreat, Except.ok.injEq] at hT
  subst hT
  simp only [] at t2 hmid0 hjobs ⊢
  have hs1 := loop_true hl
  have hc := hc2
  -- the record and the counters (C07)
  obtain ⟨hm, _, _, _⟩ := midState_inv hr.ninv hmid0
  obtain ⟨_, _, m2, m3, _, m5, m6, m7, _, _⟩ := midState_spec hmid0
  have hent : Ent s2 :=
    ⟨by rw [m3, m2]; exact hr.ent.ent, by rw [m6]; exact hr.ent.l0, by rw [m7]; exact hr.ent.l0o⟩
  have hti2 : s2.toinitiate = -1 := by
    rw [ctr_ti (ctr_treatOutput htreat), hs1]; exact hti
  have hS : StopM (recsOf (y.jobs.eraseIdx k) s2.lockedOrd) s2 (y.jobs.eraseIdx k) :=
    stopM_of_midInv hm hti2 hent.l0o (hr.pnum.eraseIdx k)
  refine ⟨?_, hS⟩
  have hghost := ghost_none_of hc t2.hasNone
  have hd := hdiag hti
  -- every real slot
  have hslot : ∀ (e pn : Nat), (livePns s2)[e]? = some pn → s2.trajs[e]? = some (some pn) ∧
      ∃ w, s2.wts.lookup pn = some w ∧ s2.W[e]? = some (padValid s2 ((e : Int) - 1) w) ∧
        (padValid s2 ((e : Int) - 1) w).length = s2.n ∧ (padValid s2 ((e : Int) - 1) w).getD e 0 ≠ 0 ∧
        ∃ f, s2.frac.lookup pn = some f := by
    intro e pn hp
    obtain ⟨he, htr⟩ := livePns_get hc hp
    obtain ⟨w', hw1', hw2⟩ := hf2.wts e pn he htr
    have hWe : s2.W[e]? = some (s2.W.getD e []) := by
      have hlt : e < s2.W.length := by rw [hc.lenW]; omega
      rw [List.getD_eq_getElem?_getD, List.getElem?_eq_getElem hlt]; rfl
    have hrow := hf2.rows e he
    have hlen : (s2.W.getD e []).length = s2.n := by
      rcases Nat.eq_zero_or_pos e with h0 | h0
      · exact (hrow.1 h0).1
      · obtain ⟨cnt, hplus, _⟩ := hrow.2 h0
        exact hplus.1
    have hkey : pn ∈ s2.frac.map Prod.fst := by
      rw [t2.sameKeys, t2.keysLive pn]
      exact List.mem_iff_getElem?.mpr ⟨e, htr⟩
    refine ⟨htr, w', hw1', by rw [hw2]; exact hWe, by rw [hw2]; exact hlen, ?_, lookup_some_of_key _ _ hkey⟩
    rw [hw2]
    exact hd e he
  -- table keys are live paths
  have hkeys : ∀ q, some q ∈ s2.trajs → q ∈ livePns s2 := by
    intro q hq
    obtain ⟨i, hi⟩ := List.mem_iff_getElem?.mp hq
    have hil : i < s2.trajs.length := (List.getElem?_eq_some_iff.mp hi).1
    rw [hc.lenT] at hil
    by_cases hi1 : i < s2.n - 1
    · exact livePns_mem hc hi1 hi
    · have : i = s2.n - 1 := by omega
      rw [this, hghost] at hi; simp at hi
  -- the zero row is the ghost row
  have hghostW : s2.W[s2.n - 1]? = some (List.replicate s2.n 0) := by
    obtain ⟨i, hi⟩ := List.mem_iff_getElem?.mp t2.hasZero
    have hil : i < s2.W.length := (List.getElem?_eq_some_iff.mp hi).1
    rw [hc.lenW] at hil
    by_cases hi1 : i < s2.n - 1
    · exfalso
      apply hd i hi1
      unfold entryM
      simp only [List.getD_eq_getElem?_getD, hi, Option.getD_some, List.getElem?_replicate]
      split <;> rfl
    · have : i = s2.n - 1 := by omega
      rw [← this]; exact hi
  refine ⟨hc.n2, hc.lenW, hc.lenT, hc.lenL, by simp [livePns], hslot, hghost, hghostW, ?_, ?_, hS.locked, hS.lockedOrd,
    ?_, hent.l0, hent.l0o, hent.ent⟩
  · intro q hq
    rw [t2.sameKeys, t2.keysLive q] at hq
    exact hkeys q hq
  · intro q hq
    rw [t2.keysLive q] at hq
    exact hkeys q hq
  · rw [recsOf_pairs hm.ordLen]
    exact locks_of_core hc

end Infretis.Repex
