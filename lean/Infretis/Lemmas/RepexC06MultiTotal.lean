import Infretis.Lemmas.RepexC06Multi
/-
C06, part 14: along a run of `.step` events the second of two related systems (several workers, equal up to pins)
either completes too, or stops at some step in the engine assignment of `prep_md_items` — never elsewhere.
-/
namespace Infretis.Repex
open Infretis.Perm

variable {ra rb : List Row}

/-- the run of `evs` from `y` stops at some event in the engine assignment, everything before having gone through -/
def EngFailRun (y : Sys) (evs : List Ev) : Prop :=
  ∃ pre ev post y1, evs = pre ++ ev :: post ∧ run y pre = .ok y1 ∧ EngFail (sysStep y1 ev)

theorem run_steps_relM_total : ∀ (evs : List Ev) {x y xN : Sys}, StepsOnly evs → RM ra rb x y →
    run x evs = .ok xN → (∃ yN, run y evs = .ok yN ∧ RM ra rb xN yN) ∨ EngFailRun y evs := by
  intro evs
  induction evs with
  | nil =>
    intro x y xN _ h hx
    simp only [run, Except.ok.injEq] at hx
    subst hx
    exact Or.inl ⟨y, rfl, h⟩
  | cons ev rest ih =>
    intro x y xN hs h hx
    cases ev with
    | start o sv => exact hs.elim
    | initDone => exact hs.elim
    | step k st w o =>
      simp only [run] at hx
      cases hx1 : sysStep x (.step k st w o) with
      | error e => rw [hx1] at hx; exact absurd hx (by simp)
      | ok x1 =>
        rw [hx1] at hx
        rcases sysStep_step_relM h k st w o hx1 with ⟨y1, h1, h2⟩ | hf
        · rcases ih hs h2 hx with ⟨yN, h3, h4⟩ | ⟨pre, ev, post, ym, e1, e2, e3⟩
          · left
            refine ⟨yN, ?_, h4⟩
            simp only [run, h1]
            exact h3
          · right
            refine ⟨.step k st w o :: pre, ev, post, ym, by rw [e1]; rfl, ?_, e3⟩
            simp only [run, h1]
            exact e2
        · right
          exact ⟨[], .step k st w o, rest, y, rfl, rfl, hf⟩

end Infretis.Repex
