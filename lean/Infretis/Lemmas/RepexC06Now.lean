import Infretis.Model.RepexRestartNow
import Infretis.Lemmas.RepexC06MultiChainU
import Infretis.Lemmas.RepexC06MultiEnd
import Infretis.Lemmas.RepexC06MultiRestore
/-
C06, part 17 (audit 2026-09-30): restarts from the file that is on disk, with the stream position put back at once
(`restoreNow` = what `set_rgen()` does inside `REPEX_state.__init__`).

* `RestoreRelM` does not mention the stream position, so everything proved from it applies to `restoreNow` as well.
* A stop in the final phase (fewer steps left than workers): the restarted run never picks, `restoreStreamOnce` never
  fires; with `restoreNow` the position is the saved one all along, so the equivalence is exact — no `setMD` left — and
  the images (`persist`) of the two runs agree on the stream position at every later stop.
* `ChainN`: chains of restarts at BOTH kinds of stop.  A process that dies anywhere between the `write_toml` ending the
  `treat_output` of step k and the next one leaves the file `persist r.1` (`r = stepTreat …`) — the job issued after the
  write, if any, is not in it — so these are all the files a kill can leave; the end-of-run write of `loop()` is
  `persist` of the same kind of state (nothing drawn, nothing issued since the last `treat_output`).
-/
namespace Infretis.Repex
open Infretis.Perm Infretis.Perm.C05

theorem restoreNow_ok {im : Image} {n workers tsteps : Nat} {occ : List (List Int)} {ensEng : List (List Nat)}
    {weightOf : Nat → List Rat} {s' : St} (h : restoreNow im n workers tsteps occ ensEng weightOf = .ok s') :
    ∃ s0, restore im n workers tsteps occ ensEng weightOf = .ok s0 ∧ s' = setMD s0 im.rngDraws := by
  unfold restoreNow at h
  split at h
  · exact absurd h (by simp)
  · rename_i s0 h0
    simp only [Except.ok.injEq] at h
    exact ⟨s0, h0, h.symm⟩

theorem RestoreRelM.setMD {occ : List (List Int)} {recs : List ((List Nat × List Nat) × Nat)} {s s' : St}
    (h : RestoreRelM occ recs s s') (d : Nat) : RestoreRelM occ recs s (setMD s' d) :=
  ⟨h.n, h.W, h.trajs, h.locks, h.locked, h.lockedOrd, h.locked0, h.locked0Ord, h.workers, h.cstep, h.tsteps, h.trajNum,
   h.frac, h.wts, h.ensEng, h.seed, h.entropy, h.spawned, h.toinitiate, h.restarted, h.rgenRestored, h.occ, h.rows⟩

theorem nm_self {y : Sys} {d : Nat} (h : y.s.mainDraws = d) : nm d y = y := by
  cases y with
  | mk s jobs =>
    cases s
    simp only [nm, setMD] at *
    subst h
    rfl


theorem initiate_mainDraws (s : St) : (initiate s).1.mainDraws = s.mainDraws := by
  unfold initiate
  split <;> rfl

/-- re-issuing a record and closing the initiation leaves the scheduler stream where the restart put it -/
theorem reissue_close_mainDraws {occ : List (List Int)} {recs : List ((List Nat × List Nat) × Nat)} {s2 s' : St}
    {restJobs : List Job} (hR : RestoreRelM occ recs s2 s') (hS : StopM recs s2 restJobs)
    (starts : List (PickOutcome × Nat)) (hlen : starts.length = recs.length)
    {y1 yR : Sys} (h1 : run { s := s', jobs := [] } (starts.map (fun x => Ev.start x.1 x.2)) = .ok y1)
    (h3 : sysStep y1 .initDone = .ok yR) : yR.s.mainDraws = s'.mainDraws := by
  obtain ⟨jobs, occ1, cw1, _, _, hs1⟩ := reissue_run_state recs starts _ y1 [] [] hlen
    (by simp [hR.locked0]) (by simp [hR.locked0Ord])
    (by intro x hx; show s'.trajs[x.1]? = _ ∧ x.1 + 1 < s'.trajs.length; rw [hR.trajs]; exact hS.inplace x hx)
    (by show UniqLive s'.trajs; rw [hR.trajs]; exact hS.uniq) h1
  simp only [sysStep] at h3
  split at h3
  · exact absurd h3 (by simp)
  · simp only [Except.ok.injEq] at h3
    subst h3
    show (initiate y1.s).1.mainDraws = s'.mainDraws
    rw [initiate_mainDraws, hs1]
    rfl

/-- in the final phase nothing is drawn from the scheduler stream -/
theorem run_end_mainDraws (evs : List Ev) {y yN : Sys} (hs : StepsOnly evs) (hend : EndPhase y)
    (h : run y evs = .ok yN) : yN.s.mainDraws = y.s.mainDraws := by
  have h4 := run_nm_end y.s.mainDraws evs y hs hend
  rw [nm_self rfl, h] at h4
  simp only [Except.map, Except.ok.injEq] at h4
  have : (nm y.s.mainDraws yN).s.mainDraws = y.s.mainDraws := rfl
  rw [← h4] at this
  exact this

/-- **final-phase restart, exact**: when the rebuilt state carries the saved stream position (what `set_rgen` does
    at `__init__`: `restoreNow`), the restarted run ends equal to the uninterrupted one up to who runs what — the
    stream position included -/
theorem restart_run_multi_end_exact {occ : List (List Int)} {recs : List ((List Nat × List Nat) × Nat)} {y : Sys}
    {s' : St} (k : Nat) (st : Status) (w : List (List Rat)) (o : PickOutcome) (rest : List Ev) (r : St × Job × List Job)
    (hT : stepTreat y k st w = .ok r) (hR : RestoreRelM occ recs r.1 s') (hS : StopM recs r.1 r.2.2)
    (hmd : s'.mainDraws = r.1.mainDraws)
    (hend : ¬ (r.1.cstep + r.1.workers ≤ r.1.tsteps)) (hlt : r.1.cstep < r.1.tsteps)
    (hmW : recs.length ≤ r.1.workers) (hsteps : StepsOnly rest)
    {yN : Sys} (hrun : run y (.step k st w o :: rest) = .ok yN)
    (starts : List (PickOutcome × Nat)) (hlen : starts.length = recs.length) {yN' : Sys}
    (hrun' : run { s := s', jobs := [] } (starts.map (fun x => Ev.start x.1 x.2) ++ (.initDone :: rest)) = .ok yN') :
    RM r.1.rows [] yN yN' := by
  have hrm := restart_run_multi_end k st w o rest r hT hR hS hend hlt hmW hsteps hrun starts hlen hrun'
  obtain ⟨y1, h1, h1'⟩ := run_append_inv _ _ hrun'
  simp only [run] at h1'
  split at h1'
  · exact absurd h1' (by simp)
  · rename_i yR h3
    obtain ⟨_, e1, e2, e3⟩ := restart_step_multi_end r.2.2 hR hS hlt hmW starts hlen h1 h3
    have hendR : EndPhase yR := by
      unfold EndPhase
      rw [e1, e2, e3]; omega
    have hm1 := reissue_close_mainDraws hR hS starts hlen h1 h3
    have hm2 := run_end_mainDraws rest hsteps hendR h1'
    rw [nm_self (by rw [hm2, hm1, hmd])] at hrm
    exact hrm

/-- `restoreNow (persist s)` at a stop with jobs in flight: as `restore_persist_multi`, and the stream position is
    the stopped one -/
theorem restoreNow_persist_multi {s : St} {pns : List Nat} {recs : List ((List Nat × List Nat) × Nat)}
    (h : StopStateM s pns recs) (occ : List (List Int)) :
    ∃ s', restoreNow (persist s) s.n s.workers s.tsteps occ s.ensEng (fun pn => (s.wts.lookup pn).getD []) = .ok s' ∧
      RestoreRelM occ recs s s' ∧ s'.mainDraws = s.mainDraws := by
  obtain ⟨s0, h0, hR⟩ := restore_persist_multi h occ
  refine ⟨setMD s0 s.mainDraws, ?_, hR.setMD _, rfl⟩
  unfold restoreNow
  rw [h0]
  rfl


/-- a run of several workers with restarts FROM THE FILE ON DISK, at every kind of stop: run `.step` events; the
    process dies anywhere between the `write_toml` that ends the `treat_output` of a `.step` and the next one (the job
    issued in between, if any, is lost with the process: the file does not know it); `restoreNow` the image (`set_rgen`
    puts the stream position back at `__init__`); as many initiation iterations as jobs are on record; then — a fresh
    job due (`restart`): one more iteration, which picks it from the saved stream position; or the final phase
    (`restartEnd`: fewer steps left than workers): none; `.initDone`; go on -/
inductive ChainN : Sys → List Ev → Sys → Prop
  | done {y yN : Sys} {evs : List Ev} : run y evs = .ok yN → ChainN y evs yN
  | restart {y y1 yR yN : Sys} {steps1 rest : List Ev} {k : Nat} {st : Status} {w : List (List Rat)} {o : PickOutcome}
      {r : St × Job × List Job} {s' : St} {occ : List (List Int)} {starts : List (PickOutcome × Nat)} :
      run y steps1 = .ok y1 → stepTreat y1 k st w = .ok r → r.1.cstep + r.1.workers ≤ r.1.tsteps →
      restoreNow (persist r.1) r.1.n r.1.workers r.1.tsteps occ r.1.ensEng (fun pn => (r.1.wts.lookup pn).getD []) = .ok s' →
      starts.length = r.2.2.length →
      run { s := s', jobs := [] }
        (starts.map (fun x => Ev.start x.1 x.2) ++ [.start o (persist r.1).rngDraws, .initDone]) = .ok yR →
      ChainN yR rest yN →
      ChainN y (steps1 ++ (.step k st w o :: rest)) yN
  | restartEnd {y y1 yR yN : Sys} {steps1 rest : List Ev} {k : Nat} {st : Status} {w : List (List Rat)}
      {o : PickOutcome} {r : St × Job × List Job} {s' : St} {occ : List (List Int)}
      {starts : List (PickOutcome × Nat)} :
      run y steps1 = .ok y1 → stepTreat y1 k st w = .ok r →
      ¬ (r.1.cstep + r.1.workers ≤ r.1.tsteps) → r.1.cstep < r.1.tsteps → r.2.2.length ≤ r.1.workers →
      restoreNow (persist r.1) r.1.n r.1.workers r.1.tsteps occ r.1.ensEng (fun pn => (r.1.wts.lookup pn).getD []) = .ok s' →
      starts.length = r.2.2.length →
      run { s := s', jobs := [] } (starts.map (fun x => Ev.start x.1 x.2) ++ [.initDone]) = .ok yR →
      ChainN yR rest yN →
      ChainN y (steps1 ++ (.step k st w o :: rest)) yN

/-- **any chain of restarts from the files on disk, several workers, every kind of stop, no state hypothesis** -/
theorem restart_chain_now : ∀ {y : Sys} {evs : List Ev} {yN' : Sys}, ChainN y evs yN' →
    ∀ {x xN : Sys} {ra rb : List Row}, ReachM x → HistOk x evs → RM ra rb x y → StepsOnly evs → run x evs = .ok xN →
    ∃ ra' rb', RM ra' rb' xN yN' := by
  intro y evs yN' hc
  induction hc with
  | @done y yN evs hrun' =>
    intro x xN ra rb _ _ hrm hs hrun
    exact ⟨ra, rb, run_steps_relM evs hs hrm hrun hrun'⟩
  | @restart y y1 yR yN steps1 rest k st w o r s' occ starts hy1 hT hmore hres hlen hinit _ ih =>
    intro x xN ra rb hx hh hrm hs hrun
    obtain ⟨hs1, hs2⟩ := stepsOnly_append steps1 _ hs
    have hsrest : StepsOnly rest := hs2
    obtain ⟨x1, hx1, hrun1⟩ := run_append_inv _ _ hrun
    have hrm1 := run_steps_relM steps1 hs1 hrm hx1 hy1
    have hx1r := run_reachM steps1 hx (histOk_prefix steps1 _ hh) hx1
    have hh1 := histOk_append steps1 _ hh hx1
    have hev : EvOk x1 (.step k st w o) := hh1.1
    simp only [run] at hrun1
    cases hstep : sysStep x1 (.step k st w o) with
    | error e => rw [hstep] at hrun1; exact absurd hrun1 (by simp)
    | ok x2 =>
      rw [hstep] at hrun1
      simp only [] at hrun1
      have hhalf := hstep
      rw [sysStep_eq_halves] at hhalf
      cases hTx : stepTreat x1 k st w with
      | error e => rw [hTx] at hhalf; exact absurd hhalf (by simp)
      | ok rx =>
        rw [hTx] at hhalf
        simp only [] at hhalf
        obtain ⟨hSSx, hSx⟩ := stopStateM_of_reach hx1r hrm1.tx k st w o hev hstep hTx
        obtain ⟨ry, hTy, hmid⟩ := stepTreat_relM hrm1 k st w hTx
        rw [hT] at hTy
        simp only [Except.ok.injEq] at hTy
        subst hTy
        have hSSy := hSSx.transfer hmid.obs
        obtain ⟨s'', hres'', hR''⟩ := restore_persist_multi hSSy occ
        obtain ⟨s0, hres0, hs'⟩ := restoreNow_ok hres
        rw [hres0] at hres''
        simp only [Except.ok.injEq] at hres''
        subst hres''
        subst hs'
        have hRx := (hR''.transfer hmid.obs).setMD (persist r.1).rngDraws
        have hmorex : rx.1.cstep + rx.1.workers ≤ rx.1.tsteps := by
          rw [hmid.obs.cstep, hmid.obs.workers, hmid.obs.tsteps]; exact hmore
        have hlenx : starts.length = (recsOf rx.2.2 rx.1.lockedOrd).length := by
          have h3 := congrArg List.length hSx.onRecord
          simp only [List.length_map] at h3
          rw [← h3, hlen]
          have h4 := congrArg List.length hmid.jobs
          simp only [List.length_map] at h4
          exact h4.symm
        obtain ⟨ya, ha, hb⟩ := run_append_inv _ _ hinit
        simp only [run] at hb
        split at hb
        · exact absurd hb (by simp)
        · rename_i yb hb2
          split at hb
          · exact absurd hb (by simp)
          · rename_i yc hb3
            simp only [Except.ok.injEq] at hb
            subst hb
            have hsv : (persist r.1).rngDraws = rx.1.mainDraws := hmid.obs.mainDraws.symm
            rw [hsv] at hb2
            have hrm2 := restart_step_multi rx.2.1 rx.2.2 o hRx hSx hhalf hmorex starts hlenx ha hb2 hb3
            exact ih (sysStep_reachM _ hx1r hev hstep) (hh1.2 x2 hstep) hrm2 hsrest hrun1
  | @restartEnd y y1 yR yN steps1 rest k st w o r s' occ starts hy1 hT hend hlt hmW hres hlen hinit _ ih =>
    intro x xN ra rb hx hh hrm hs hrun
    obtain ⟨hs1, hs2⟩ := stepsOnly_append steps1 _ hs
    have hsrest : StepsOnly rest := hs2
    obtain ⟨x1, hx1, hrun1⟩ := run_append_inv _ _ hrun
    have hrm1 := run_steps_relM steps1 hs1 hrm hx1 hy1
    have hx1r := run_reachM steps1 hx (histOk_prefix steps1 _ hh) hx1
    have hh1 := histOk_append steps1 _ hh hx1
    have hev : EvOk x1 (.step k st w o) := hh1.1
    simp only [run] at hrun1
    cases hstep : sysStep x1 (.step k st w o) with
    | error e => rw [hstep] at hrun1; exact absurd hrun1 (by simp)
    | ok x2 =>
      rw [hstep] at hrun1
      simp only [] at hrun1
      have hhalf := hstep
      rw [sysStep_eq_halves] at hhalf
      cases hTx : stepTreat x1 k st w with
      | error e => rw [hTx] at hhalf; exact absurd hhalf (by simp)
      | ok rx =>
        rw [hTx] at hhalf
        simp only [] at hhalf
        obtain ⟨hSSx, hSx⟩ := stopStateM_of_reach hx1r hrm1.tx k st w o hev hstep hTx
        obtain ⟨ry, hTy, hmid⟩ := stepTreat_relM hrm1 k st w hTx
        rw [hT] at hTy
        simp only [Except.ok.injEq] at hTy
        subst hTy
        have hSSy := hSSx.transfer hmid.obs
        obtain ⟨s'', hres'', hR''⟩ := restore_persist_multi hSSy occ
        obtain ⟨s0, hres0, hs'⟩ := restoreNow_ok hres
        rw [hres0] at hres''
        simp only [Except.ok.injEq] at hres''
        subst hres''
        subst hs'
        have hRx := (hR''.transfer hmid.obs).setMD (persist r.1).rngDraws
        have hendx : ¬ (rx.1.cstep + rx.1.workers ≤ rx.1.tsteps) := by
          rw [hmid.obs.cstep, hmid.obs.workers, hmid.obs.tsteps]; exact hend
        have hltx : rx.1.cstep < rx.1.tsteps := by
          rw [hmid.obs.cstep, hmid.obs.tsteps]; exact hlt
        have hjl : rx.2.2.length = r.2.2.length := by
          have h4 := congrArg List.length hmid.jobs
          simp only [List.length_map] at h4
          exact h4
        have hrl : (recsOf rx.2.2 rx.1.lockedOrd).length = rx.2.2.length := by
          have h3 := congrArg List.length hSx.onRecord
          simp only [List.length_map] at h3
          exact h3.symm
        have hlenx : starts.length = (recsOf rx.2.2 rx.1.lockedOrd).length := by rw [hrl, hjl]; exact hlen
        have hmWx : (recsOf rx.2.2 rx.1.lockedOrd).length ≤ rx.1.workers := by
          rw [hrl, hjl, hmid.obs.workers]; exact hmW
        simp only [stepPrep, if_neg hendx, Except.ok.injEq] at hhalf
        obtain ⟨ya, ha, hb⟩ := run_append_inv _ _ hinit
        simp only [run] at hb
        split at hb
        · exact absurd hb (by simp)
        · rename_i yb hb3
          simp only [Except.ok.injEq] at hb
          subst hb
          obtain ⟨hrm2, _, _, _⟩ := restart_step_multi_end rx.2.2 hRx hSx hltx hmWx starts hlenx ha hb3
          have hm1 := reissue_close_mainDraws hRx hSx starts hlenx ha hb3
          have hmd : yb.s.mainDraws = rx.1.mainDraws := by
            rw [hm1]; exact hmid.obs.mainDraws.symm
          rw [nm_self hmd, hhalf] at hrm2
          exact ih (sysStep_reachM _ hx1r hev hstep) (hh1.2 x2 hstep) hrm2 hsrest hrun1

end Infretis.Repex
