import Infretis.Model.Repex
/-
C06, part 1: observational equality of sampler states and the congruence of every operation of the
replica-exchange state machine with respect to it.

`ObsR strict t0 ra rb a b` relates two states that agree on everything the operations read:
  n, W, trajs, locks, locked, locked0, lockedOrd, locked0Ord (the stream ordinals on record), workers, cstep, tsteps, trajNum, ensEng, seed, entropy, spawned,
  mainDraws; `frac` and `wts` as finite maps (same `lookup` for every key — the restored state holds the
  same entries in another order); with `strict` also occ and toinitiate (both equal to `t0`: no operation
  changes it, so the index keeps track of "the initiation is closed" along a run for free).
NOT compared (differences that remain by design after a restart): cworker, restarted, rgenRestored, and
`rows` (the rows live in the data file, not in the restart image) — for `rows` the relation records that
both sides appended the same rows to their respective bases `ra`, `rb`.
-/
namespace Infretis.Repex
open Infretis.Perm

abbrev AL := List (Nat × List Rat)
abbrev Row := Nat × List Rat × List Rat

/-- equality as finite maps -/
def FEq (f g : AL) : Prop := ∀ q, f.lookup q = g.lookup q

theorem FEq.refl (f : AL) : FEq f f := fun _ => rfl
theorem FEq.symm {f g : AL} (h : FEq f g) : FEq g f := fun q => (h q).symm
theorem FEq.trans {f g k : AL} (h1 : FEq f g) (h2 : FEq g k) : FEq f k := fun q => (h1 q).trans (h2 q)

structure ObsR (strict : Prop) (t0 : Int) (ra rb : List Row) (a b : St) : Prop where
  n : a.n = b.n
  W : a.W = b.W
  trajs : a.trajs = b.trajs
  locks : a.locks = b.locks
  locked : a.locked = b.locked
  locked0 : a.locked0 = b.locked0
  lockedOrd : a.lockedOrd = b.lockedOrd
  locked0Ord : a.locked0Ord = b.locked0Ord
  workers : a.workers = b.workers
  cstep : a.cstep = b.cstep
  tsteps : a.tsteps = b.tsteps
  trajNum : a.trajNum = b.trajNum
  frac : FEq a.frac b.frac
  wts : FEq a.wts b.wts
  ensEng : a.ensEng = b.ensEng
  seed : a.seed = b.seed
  entropy : a.entropy = b.entropy
  spawned : a.spawned = b.spawned
  mainDraws : a.mainDraws = b.mainDraws
  toinitiate : strict → a.toinitiate = t0 ∧ b.toinitiate = t0
  occ : strict → a.occ = b.occ
  rows : ∃ r, a.rows = ra ++ r ∧ b.rows = rb ++ r

/-- everything `sysStep` reads agrees -/
def ObsEq (a b : St) : Prop := ObsR True a.toinitiate a.rows b.rows a b

theorem ObsR.refl (s : St) : ObsR True s.toinitiate s.rows s.rows s s :=
  ⟨rfl, rfl, rfl, rfl, rfl, rfl, rfl, rfl, rfl, rfl, rfl, rfl, FEq.refl _, FEq.refl _, rfl, rfl, rfl, rfl, rfl,
   fun _ => ⟨rfl, rfl⟩, fun _ => rfl, ⟨[], by simp, by simp⟩⟩

theorem ObsR.weaken {p : Prop} {t0 : Int} {ra rb : List Row} {a b : St} (h : ObsR True t0 ra rb a b) : ObsR p t0 ra rb a b :=
  { h with toinitiate := fun _ => h.toinitiate trivial, occ := fun _ => h.occ trivial }

/-- results of fallible operations: same error, or related values -/
def RelE {α : Type} (R : α → α → Prop) : Except Err α → Except Err α → Prop
  | .ok x, .ok y => R x y
  | .error e, .error e' => e = e'
  | _, _ => False

theorem RelE.ok_left {α : Type} {R : α → α → Prop} {x : α} {rb : Except Err α}
    (h : RelE R (.ok x) rb) : ∃ y, rb = .ok y ∧ R x y := by
  cases rb with
  | ok y => exact ⟨y, rfl, h⟩
  | error e => exact h.elim

theorem RelE.error_left {α : Type} {R : α → α → Prop} {e : Err} {rb : Except Err α}
    (h : RelE R (.error e) rb) : rb = .error e := by
  cases rb with
  | ok y => exact h.elim
  | error e' => cases h; rfl

/-! ### finite-map lemmas -/

theorem lookup_append_single (l : AL) (k : Nat) (v : List Rat) (q : Nat) :
    (l ++ [(k, v)]).lookup q = match l.lookup q with | some x => some x | none => if q == k then some v else none := by
  induction l with
  | nil => simp [List.lookup]; split <;> simp_all
  | cons hd tl ih =>
    obtain ⟨k', v'⟩ := hd
    simp only [List.cons_append, List.lookup]
    cases hq : q == k' <;> simp [ih]

theorem FEq.append {f g : AL} (h : FEq f g) (k : Nat) (v : List Rat) : FEq (f ++ [(k, v)]) (g ++ [(k, v)]) := by
  intro q; rw [lookup_append_single, lookup_append_single, h q]

theorem lookup_filter_ne6 (l : AL) (pn q : Nat) :
    (l.filter (·.1 != pn)).lookup q = if q == pn then none else l.lookup q := by
  induction l with
  | nil => simp [List.lookup]
  | cons hd tl ih =>
    obtain ⟨k', v'⟩ := hd
    by_cases hk : k' = pn
    · subst hk
      simp only [List.filter, bne_self_eq_false, ih, List.lookup]
      by_cases hq : q = k'
      · subst hq; simp
      · have : (q == k') = false := by simpa using hq
        simp [this]
    · have hne : (k' != pn) = true := by simpa using hk
      simp only [List.filter, hne, List.lookup, ih]
      by_cases hq : q = k'
      · subst hq
        have : (q == pn) = false := by simpa using hk
        simp [this]
      · have : (q == k') = false := by simpa using hq
        simp [this]

theorem FEq.filter {f g : AL} (h : FEq f g) (pn : Nat) : FEq (f.filter (·.1 != pn)) (g.filter (·.1 != pn)) := by
  intro q; rw [lookup_filter_ne6, lookup_filter_ne6, h q]

theorem lookup_map_upd (l : AL) (pn : Nat) (row : List Rat) (q : Nat) :
    (l.map (fun (k, v) => if k == pn then (k, addVec v row) else (k, v))).lookup q =
      (l.lookup q).map (fun v => if q == pn then addVec v row else v) := by
  induction l with
  | nil => simp [List.lookup]
  | cons hd tl ih =>
    obtain ⟨k', v'⟩ := hd
    cases hkp : k' == pn <;> cases hq : q == k' <;>
      simp only [List.map_cons, List.lookup_cons, hkp, hq, ih, if_true, if_false, Bool.false_eq_true,
        Option.map_some]
    · have : q = k' := by simpa using hq
      subst this; simp [hkp]
    · have : q = k' := by simpa using hq
      subst this; simp [hkp]

theorem any_key_iff (l : AL) (pn : Nat) : l.any (·.1 == pn) = (l.lookup pn).isSome := by
  induction l with
  | nil => simp [List.lookup]
  | cons hd tl ih =>
    obtain ⟨k', v'⟩ := hd
    by_cases hk : pn = k'
    · subst hk; simp [List.lookup]
    · have h1 : (pn == k') = false := by simpa using hk
      have h2 : (k' == pn) = false := by simpa using (fun h => hk (Eq.symm h))
      simp [List.lookup, h1, h2, ih]

theorem updFrac_rel {f g : AL} (h : FEq f g) (pn : Nat) (row : List Rat) :
    RelE FEq (updFrac f pn row) (updFrac g pn row) := by
  unfold updFrac
  rw [any_key_iff, any_key_iff, h pn]
  cases hs : (g.lookup pn).isSome
  · simp [RelE]
  · simp only [if_true, RelE]
    intro q
    rw [lookup_map_upd, lookup_map_upd, h q]

end Infretis.Repex
