import Infretis.Lemmas.RepexC06Restart
/-
C06, part 4: what `pick_lock` re-issues after a restart.
-/
namespace Infretis.Repex
open Infretis.Perm

theorem swapList_length' {α : Type} (l : List α) (i j : Nat) : (swapList l i j).length = l.length := by
  unfold swapList
  split <;> simp

theorem swapList_get_right {α : Type} (l : List α) (i j : Nat) (a : α) (hi : l[i]? = some a) (hj : j < l.length) :
    (swapList l i j)[j]? = some a := by
  unfold swapList
  have : ∃ b, l[j]? = some b := ⟨l[j], by simp [hj]⟩
  obtain ⟨b, hb⟩ := this
  simp only [hi, hb]
  rw [List.getElem?_set_self (by simpa using hj)]

theorem swapList_get_other {α : Type} (l : List α) (i j k : Nat) (hki : k ≠ i) (hkj : k ≠ j) :
    (swapList l i j)[k]? = l[k]? := by
  unfold swapList
  split
  · rw [List.getElem?_set_ne (Ne.symm hkj), List.getElem?_set_ne (Ne.symm hki)]
  · rfl

theorem findIdx?_some {l : List (Option Nat)} {x : Option Nat} {i : Nat} (h : findIdx? l x = some i) :
    l[i]? = some x := by
  unfold findIdx? at h
  simp only [] at h
  split at h
  · rename_i hlt
    simp only [Option.some.injEq] at h
    subst h
    have := List.findIdx_getElem (w := hlt)
    rw [List.getElem?_eq_getElem hlt]
    simp only [beq_iff_eq] at this
    rw [this]
  · exact absurd h (by simp)

theorem getElem?_dropLast_some {α : Type} {l : List α} {i : Nat} {a : α} (h : l.dropLast[i]? = some a) :
    l[i]? = some a := by
  rw [List.getElem?_dropLast] at h
  split at h
  · exact h
  · exact absurd h (by simp)

theorem lock_ok' {s s' : St} {e : Nat} (h : lock s e = .ok s') :
    s.locks[e]? = some false ∧ s' = { s with locks := s.locks.set e true } := by
  unfold lock at h
  split at h
  · rename_i hl
    simp only [Except.ok.injEq] at h
    exact ⟨hl, h.symm⟩
  · exact absurd h (by simp)
  · exact absurd h (by simp)

/-- slots held with their paths -/
def Held (s : St) (H : List (Nat × Nat)) : Prop :=
  ∀ x ∈ H, s.locks[x.1]? = some true ∧ s.trajs[x.1]? = some (some x.2)

/-- the re-issue loop of `pick_lock` on the recorded `(ensemble slot, path)` pairs `l`: it hands out exactly these
    pairs, in order; afterwards every one of them (and everything held before, `H`) sits locked in its slot with
    its path — provided the recorded paths are pairwise distinct and distinct from those already held. -/
theorem reissue_go_spec6 : ∀ (l : List (Nat × Nat)) (s s' : St) (pairs : List (Int × Option Nat)) (H : List (Nat × Nat)),
    s.trajs.length = s.locks.length → Held s H → ((H ++ l).map (·.2)).Nodup →
    reissue.go s l = .ok (s', pairs) →
    pairs = l.map (fun x => ((x.1 : Int) - (off : Int), some x.2)) ∧ Held s' (H ++ l) ∧
      s'.trajs.length = s'.locks.length ∧
      { s' with W := s.W, trajs := s.trajs, locks := s.locks } = s := by
  intro l
  induction l with
  | nil =>
    intro s s' pairs H hl hH _ h
    simp only [reissue.go, Except.ok.injEq, Prod.mk.injEq] at h
    obtain ⟨rfl, rfl⟩ := h
    simp only [List.map_nil, List.append_nil, true_and]
    exact ⟨hH, hl, trivial⟩
  | cons x rest ih =>
    intro s s' pairs H hlen hH hnd h
    obtain ⟨e, tr⟩ := x
    simp only [reissue.go] at h
    split at h
    · exact absurd h (by simp)
    · rename_i ti hfi
      split at h
      · exact absurd h (by simp)
      · rename_i s2 hl2
        split at h
        · exact absurd h (by simp)
        · rename_i s3 ps hgo
          simp only [Except.ok.injEq, Prod.mk.injEq] at h
          obtain ⟨rfl, rfl⟩ := h
          obtain ⟨hle, hs2⟩ := lock_ok' hl2
          have hti : s.trajs[ti]? = some (some tr) := getElem?_dropLast_some (findIdx?_some hfi)
          have helt : e < s.trajs.length := by
            obtain ⟨this, _⟩ := List.getElem?_eq_some_iff.mp hle
            simp only [swap] at this
            omega
          have htr2 : s2.trajs[e]? = some (some tr) := by
            rw [hs2]; simp only [swap]
            exact swapList_get_right _ _ _ _ hti helt
          -- the slots held before are untouched
          have hH2 : Held s2 (H ++ [(e, tr)]) := by
            intro y hy
            rw [List.mem_append] at hy
            rcases hy with hy | hy
            · obtain ⟨hyl, hyt⟩ := hH y hy
              have hne : y.1 ≠ e := by
                intro hc
                simp only [swap] at hle
                rw [hc] at hyl; rw [hyl] at hle; exact absurd hle (by simp)
              have hnt : y.1 ≠ ti := by
                intro hc
                rw [hc, hti] at hyt
                simp only [Option.some.injEq] at hyt
                have : y.2 ∈ (H.map (·.2)) := List.mem_map_of_mem hy
                rw [List.map_append, List.nodup_append] at hnd
                exact hnd.2.2 y.2 this tr (by simp) hyt.symm
              rw [hs2]
              simp only [swap]
              exact ⟨by rw [List.getElem?_set_ne (Ne.symm hne)]; exact hyl,
                     by rw [swapList_get_other _ _ _ _ hnt hne]; exact hyt⟩
            · simp only [List.mem_singleton] at hy
              subst hy
              refine ⟨?_, htr2⟩
              rw [hs2]
              simp only [swap]
              rw [List.getElem?_set_self]
              have : e < s.locks.length := by omega
              simpa [swap] using this
          have hlen2 : s2.trajs.length = s2.locks.length := by
            rw [hs2]; simp only [swap, swapList_length', List.length_set]; exact hlen
          have hnd2 : (((H ++ [(e, tr)]) ++ rest).map (·.2)).Nodup := by
            rw [List.append_assoc]; exact hnd
          obtain ⟨hp, hH3, hlen3, hfr⟩ := ih s2 s3 ps (H ++ [(e, tr)]) hlen2 hH2 hnd2 hgo
          refine ⟨?_, ?_, hlen3, ?_⟩
          · rw [hp]
            simp only [List.map_cons, List.cons.injEq, Prod.mk.injEq, true_and, and_true]
            have := htr2
            rw [List.getD_eq_getElem?_getD, this]; rfl
          · rw [List.append_assoc] at hH3; exact hH3
          · rw [hs2] at hfr
            simp only [swap] at hfr
            cases s
            cases s3
            simp only [St.mk.injEq] at hfr ⊢
            simp_all


/-- full description of a picked entry: ensemble, path, move stream, engine stream -/
def pkFull (p : Picked) : Int × Nat × Stream × Stream := (p.ens, p.pn, p.rgen, p.rgenEng)

/-- `mkPicked.go` on pairs that all carry a path: entry `i` gets the grandchild `j + i` of the job's child stream
    and, as engine stream, that grandchild's child 0 -/
theorem mkPicked_go_some (child : Stream) : ∀ (l : List (Int × Nat)) (j : Nat) (ps : List Picked),
    mkPicked.go child j (l.map (fun x => (x.1, some x.2))) = .ok ps →
    ps.map pkFull = (l.zipIdx j).map (fun xi =>
      (xi.1.1, xi.1.2, spawnStream child xi.2, spawnStream (spawnStream child xi.2) 0)) := by
  intro l
  induction l with
  | nil => intro j ps h; simp only [List.map_nil, mkPicked.go, Except.ok.injEq] at h; subst h; rfl
  | cons x rest ih =>
    intro j ps h
    obtain ⟨e, pn⟩ := x
    simp only [List.map_cons, mkPicked.go] at h
    split at h
    · exact absurd h (by simp)
    · rename_i ps' hgo
      simp only [Except.ok.injEq] at h
      subst h
      simp only [List.map_cons, List.zipIdx_cons, List.cons.injEq]
      exact ⟨rfl, ih _ _ hgo⟩

/-- the (slot, path) pairs of a recorded job -/
def recPairs (r : List Nat × List Nat) : List (Nat × Nat) := r.1.zip r.2
/-- the (ensemble, path) pairs of the job `pick_lock` must hand out for it -/
def recJob (r : List Nat × List Nat) : List (Int × Nat) := (recPairs r).map (fun x => ((x.1 : Int) - 1, x.2))
/-- the same with the streams of the job whose child stream has ordinal `ord` under entropy `ent`:
    move stream `SeedSequence(ent, (ord, j))`, engine stream `SeedSequence(ent, (ord, j, 0))` -/
def recJobFull (ent ord : Nat) (r : List Nat × List Nat) : List (Int × Nat × Stream × Stream) :=
  (recPairs r).zipIdx.map (fun xi =>
    ((xi.1.1 : Int) - 1, xi.1.2, ({ entropy := ent, key := [ord, xi.2] } : Stream),
     ({ entropy := ent, key := [ord, xi.2, 0] } : Stream)))
/-- the entry appended to `locked` for it -/
def recEntry (r : List Nat × List Nat) : List Int × List Nat := (r.1.map (fun (e : Nat) => (e : Int) - 1), r.2)

/-- one call of `pick_lock` while recorded jobs (with ordinals) are left: the job handed out is the first recorded
    one (its ensembles and paths, in order) **with the streams of the recorded ordinal**, no random draw is made,
    the record is consumed, the job is put on record again with the same ordinal, the spawn counter is untouched,
    and its slots are locked with its paths. -/
theorem pickLock_reissue6 {s s' : St} {o : PickOutcome} {sv : Nat} {ps : List Picked} {ds : List Draw}
    (es ts : List Nat) (rest : List (List Nat × List Nat)) (ord : Nat) (ordRest : List (Option Nat))
    (H : List (Nat × Nat))
    (hl0 : s.locked0 = (es, ts) :: rest) (hord : s.locked0Ord = some ord :: ordRest)
    (hlen : s.trajs.length = s.locks.length) (hH : Held s H)
    (hnd : ((H ++ es.zip ts).map (·.2)).Nodup)
    (h : pickLock s o sv = .ok (s', ps, ds)) :
    ps.map pkFull = recJobFull s.entropy ord (es, ts) ∧ ds = [] ∧
      s'.locked0 = rest ∧ s'.locked0Ord = ordRest ∧
      s'.locked = s.locked ++ [recEntry (es, ts)] ∧ s'.lockedOrd = s.lockedOrd ++ [ord] ∧
      s'.spawned = s.spawned ∧ s'.mainDraws = s.mainDraws ∧ s'.entropy = s.entropy ∧
      Held s' (H ++ es.zip ts) ∧ s'.trajs.length = s'.locks.length := by
  unfold pickLock at h
  rw [hl0] at h
  simp only [] at h
  unfold reissue at h
  split at h
  · exact absurd h (by simp)
  · rename_i s1 pairs hre
    have hspec := reissue_go_spec6 (es.zip ts) { s with locked0 := rest, locked0Ord := s.locked0Ord.tail } s1 pairs H
      hlen hH hnd hre
    obtain ⟨hp, hH1, hlen1, hfr⟩ := hspec
    have hro : reissueOrd s s1 = ord := by simp [reissueOrd, hord]
    have hsome : ((s.locked0Ord.head?).join).isSome = true := by simp [hord]
    rw [hro] at h
    split at h
    · exact absurd h (by simp)
    · rename_i ps' hmk
      simp only [Except.ok.injEq, Prod.mk.injEq] at h
      obtain ⟨rfl, rfl, rfl⟩ := h
      have hfields : s1.locked = s.locked ∧ s1.spawned = s.spawned ∧ s1.mainDraws = s.mainDraws ∧
          s1.locked0 = rest ∧ s1.entropy = s.entropy ∧ s1.lockedOrd = s.lockedOrd ∧
          s1.locked0Ord = s.locked0Ord.tail := by
        cases s1; cases s
        simp only [St.mk.injEq] at hfr
        simp_all
      obtain ⟨hk, hsp, hmd, hl0', hent, hlo, hl0o⟩ := hfields
      have hps : ps'.map pkFull = recJobFull s.entropy ord (es, ts) := by
        unfold mkPickedAt mkPicked at hmk
        rw [hp] at hmk
        have : (es.zip ts).map (fun x => ((x.1 : Int) - (off : Int), some x.2)) =
            ((es.zip ts).map (fun x => ((x.1 : Int) - 1, x.2))).map (fun x => (x.1, some x.2)) := by
          simp [off]
        rw [this] at hmk
        have h1 := mkPicked_go_some _ _ _ _ hmk
        rw [h1]
        simp only [recJobFull, recPairs, List.zipIdx_map, List.map_map, mainStream, spawnStream, hent]
        apply List.map_congr_left
        intro xi _
        simp
      refine ⟨hps, rfl, ?_, ?_, ?_, ?_, ?_, ?_, ?_, ?_, ?_⟩
      · simp only [reissued]; exact hl0'
      · simp only [reissued]; rw [hl0o, hord]; rfl
      · simp only [reissued, hk, recEntry, off]
        rfl
      · simp only [reissued, hlo, hro]
      · simp only [reissued, hsome, if_true]; exact hsp
      · simp only [reissued]; exact hmd
      · simp only [reissued]; exact hent
      · intro x hx; simp only [reissued]; exact hH1 x hx
      · simp only [reissued]; exact hlen1

theorem prepTail_ok {s1 s' : St} {ps : List Picked} {ds ds' : List Draw} {pin? : Option Nat} {job : Job}
    (h : prepTail s1 ps ds pin? = .ok (s', job, ds')) :
    (∃ occ', s' = { s1 with occ := occ' }) ∧ job.picked.map pkFull = ps.map pkFull := by
  unfold prepTail at h
  split at h
  · exact absurd h (by simp)
  · simp only [] at h
    split at h
    · exact absurd h (by simp)
    · rename_i occ' idx _
      split at h
      · exact absurd h (by simp)
      · simp only [Except.ok.injEq, Prod.mk.injEq] at h
        obtain ⟨h1, h2, _⟩ := h
        subst h1; subst h2
        refine ⟨⟨occ', rfl⟩, ?_⟩
        simp [List.map_map, Function.comp_def, pkFull]

theorem initiate_fields (s : St) :
    (initiate s).1.locked0 = s.locked0 ∧ (initiate s).1.locked = s.locked ∧ (initiate s).1.trajs = s.trajs ∧
      (initiate s).1.locks = s.locks ∧ (initiate s).1.locked0Ord = s.locked0Ord ∧
      (initiate s).1.lockedOrd = s.lockedOrd ∧ (initiate s).1.spawned = s.spawned ∧
      (initiate s).1.entropy = s.entropy := by
  unfold initiate
  split <;> simp

/-- `initiate()` answers True only while a worker slot and a step are left; it then uses up one slot.  Hence at most
    `min(workers, tsteps − cstep)` jobs are started by the initiation loop (and so re-issued after a restart). -/
theorem initiate_go6 {s : St} (h : (initiate s).2 = true) :
    0 < s.toinitiate ∧ (s.cstep : Int) + ((s.workers : Int) - s.toinitiate) < (s.tsteps : Int) ∧
      (initiate s).1.toinitiate = s.toinitiate - 1 := by
  unfold initiate at h ⊢
  by_cases hc : s.cstep < s.tsteps
  · simp only [hc, not_true_eq_false, if_false] at h ⊢
    by_cases hz : s.toinitiate > 0 ∧ (s.cstep : Int) + ((s.workers : Int) - s.toinitiate) ≥ (s.tsteps : Int)
    · simp only [hz, and_self, if_true] at h
      simp at h
    · simp only [hz, if_false] at h ⊢
      simp only [decide_eq_true_eq] at h
      have hb : ¬ ((s.cstep : Int) + ((s.workers : Int) - s.toinitiate) ≥ (s.tsteps : Int)) :=
        fun hb => hz ⟨by omega, hb⟩
      exact ⟨by omega, by omega, trivial⟩
  · simp only [hc, not_false_eq_true, if_true] at h
    exact absurd h (by simp)

/-- **one iteration of the initiation loop after a restart, while recorded jobs are left** -/
theorem start_reissue {y y' : Sys} {o : PickOutcome} {sv : Nat}
    (es ts : List Nat) (rest : List (List Nat × List Nat)) (ord : Nat) (ordRest : List (Option Nat))
    (H : List (Nat × Nat))
    (hl0 : y.s.locked0 = (es, ts) :: rest) (hord : y.s.locked0Ord = some ord :: ordRest)
    (hlen : y.s.trajs.length = y.s.locks.length) (hH : Held y.s H)
    (hnd : ((H ++ es.zip ts).map (·.2)).Nodup)
    (h : sysStep y (.start o sv) = .ok y') :
    ∃ job, y'.jobs = y.jobs ++ [job] ∧
      job.picked.map pkFull = recJobFull y.s.entropy ord (es, ts) ∧
      y'.s.locked0 = rest ∧ y'.s.locked0Ord = ordRest ∧
      y'.s.locked = y.s.locked ++ [recEntry (es, ts)] ∧ y'.s.lockedOrd = y.s.lockedOrd ++ [ord] ∧
      y'.s.spawned = y.s.spawned ∧ y'.s.entropy = y.s.entropy ∧
      Held y'.s (H ++ es.zip ts) ∧ y'.s.trajs.length = y'.s.locks.length := by
  simp only [sysStep] at h
  split at h
  · exact absurd h (by simp)
  · rename_i hgo
    simp only [Bool.not_eq_true, Bool.not_eq_false] at hgo
    obtain ⟨f0, fl, ft, fk, f0o, flo, fsp, fen⟩ := initiate_fields y.s
    rw [prep_eq_tail] at h
    have hti : (initiate y.s).1.toinitiate ≥ 0 := by
      have := initiate_go6 hgo
      omega
    simp only [hti, if_true] at h
    split at h
    · exact absurd h (by simp)
    · rename_i s3 job ds hprep
      simp only [Except.ok.injEq] at h
      subst h
      split at hprep
      · exact absurd hprep (by simp)
      · rename_i s2 ps ds2 hpl
        have hH0 : Held (initiate y.s).1 H := by
          intro x hx; rw [fk, ft]; exact hH x hx
        obtain ⟨h1, _, h3, h3o, h4, h4o, h5, _, h6, h7, h8⟩ := pickLock_reissue6 es ts rest ord ordRest H
          (by rw [f0]; exact hl0) (by rw [f0o]; exact hord) (by rw [ft, fk]; exact hlen) hH0 hnd hpl
        obtain ⟨⟨occ', hs3⟩, hj⟩ := prepTail_ok hprep
        refine ⟨job, rfl, ?_, ?_, ?_, ?_, ?_, ?_, ?_, ?_, ?_⟩
        · rw [hj, h1, fen]
        · simp only [hs3]; exact h3
        · simp only [hs3]; exact h3o
        · simp only [hs3]; rw [h4, fl]
        · simp only [hs3]; rw [h4o, flo]
        · simp only [hs3]; rw [h5, fsp]
        · simp only [hs3]; rw [h6, fen]
        · intro x hx; simp only [hs3]; exact h7 x hx
        · simp only [hs3]; exact h8

/-- **the re-issue chain**: `recs` = recorded jobs with their ordinals, in recorded order -/
theorem reissue_run : ∀ (recs : List ((List Nat × List Nat) × Nat)) (starts : List (PickOutcome × Nat)) (y y' : Sys)
    (rest : List (List Nat × List Nat)) (ordRest : List (Option Nat)) (H : List (Nat × Nat)),
    starts.length = recs.length → y.s.locked0 = recs.map (·.1) ++ rest →
    y.s.locked0Ord = recs.map (fun r => some r.2) ++ ordRest →
    y.s.trajs.length = y.s.locks.length → Held y.s H →
    ((H ++ recs.flatMap (fun r => recPairs r.1)).map (·.2)).Nodup →
    run y (starts.map (fun x => Ev.start x.1 x.2)) = .ok y' →
    ∃ jobs, y'.jobs = y.jobs ++ jobs ∧
      jobs.map (fun j => j.picked.map pkFull) = recs.map (fun r => recJobFull y.s.entropy r.2 r.1) ∧
      y'.s.locked0 = rest ∧ y'.s.locked0Ord = ordRest ∧
      y'.s.locked = y.s.locked ++ recs.map (fun r => recEntry r.1) ∧
      y'.s.lockedOrd = y.s.lockedOrd ++ recs.map (·.2) ∧
      y'.s.spawned = y.s.spawned ∧ y'.s.entropy = y.s.entropy ∧
      Held y'.s (H ++ recs.flatMap (fun r => recPairs r.1)) := by
  intro recs
  induction recs with
  | nil =>
    intro starts y y' rest ordRest H hl h0 h0o _ hH _ hrun
    have : starts = [] := List.eq_nil_of_length_eq_zero (by simpa using hl)
    subst this
    simp only [List.map_nil, run, Except.ok.injEq] at hrun
    subst hrun
    exact ⟨[], by simp, rfl, by simpa using h0, by simpa using h0o, by simp, by simp, rfl, rfl, by simpa using hH⟩
  | cons r recs ih =>
    intro starts y y' rest ordRest H hl h0 h0o hlen hH hnd hrun
    cases starts with
    | nil => simp at hl
    | cons st starts =>
      obtain ⟨⟨es, ts⟩, ord⟩ := r
      simp only [List.map_cons, run] at hrun
      split at hrun
      · exact absurd hrun (by simp)
      · rename_i y1 hstep
        have hnd1 : ((H ++ es.zip ts).map (·.2)).Nodup := by
          simp only [List.flatMap_cons, recPairs] at hnd
          rw [← List.append_assoc, List.map_append] at hnd
          exact (List.nodup_append.mp hnd).1
        obtain ⟨job, hj1, hj2, hj3, hj3o, hj4, hj4o, hj5, hj6, hj7, hj8⟩ :=
          start_reissue es ts (recs.map (·.1) ++ rest) ord (recs.map (fun r => some r.2) ++ ordRest) H
            (by simpa using h0) (by simpa using h0o) hlen hH hnd1 hstep
        have hnd2 : (((H ++ es.zip ts) ++ recs.flatMap (fun r => recPairs r.1)).map (·.2)).Nodup := by
          simp only [List.flatMap_cons, recPairs] at hnd
          rw [List.append_assoc]
          exact hnd
        obtain ⟨jobs, k1, k2, k3, k3o, k4, k4o, k5, k6, k7⟩ :=
          ih starts y1 y' rest ordRest (H ++ es.zip ts) (by simpa using hl) hj3 hj3o hj8 hj7 hnd2 hrun
        refine ⟨job :: jobs, ?_, ?_, k3, k3o, ?_, ?_, ?_, ?_, ?_⟩
        · rw [k1, hj1]; simp
        · simp only [List.map_cons, k2, hj2, hj6]
        · rw [k4, hj4]; simp
        · rw [k4o, hj4o]; simp
        · rw [k5, hj5]
        · rw [k6, hj6]
        · simp only [List.flatMap_cons, recPairs]
          rw [← List.append_assoc]
          exact k7

theorem persist_locked_recEntry (rec : List (List Nat × List Nat)) :
    (rec.map recEntry).map (fun (x : List Int × List Nat) => (x.1.map (fun e => (e + (off : Int)).toNat), x.2)) = rec := by
  induction rec with
  | nil => rfl
  | cons r rec ih =>
    simp only [List.map_cons, List.cons.injEq]
    refine ⟨?_, ih⟩
    obtain ⟨es, ts⟩ := r
    simp only [recEntry, List.map_map, Prod.mk.injEq, and_true]
    have : ∀ e ∈ es, ((fun e => (e + (off : Int)).toNat) ∘ fun (e : Nat) => (e : Int) - 1) e = e := by
      intro e _
      simp only [Function.comp, off]
      omega
    rw [List.map_congr_left this]
    simp

end Infretis.Repex
