import Infretis.Lemmas.RepexC06Step
/-
C06, part 3: the restart step.  What the scheduler does after a restart (initiate → prep through
`pick_lock` with nothing recorded → one-time restore of the stream position → `pick`, then the closing
`initiate`) issues the same job, from the same stream position, with the same spawn ordinal, as the
uninterrupted run does when it continues after `treat_output` (prep through `pick`).
-/
namespace Infretis.Repex
open Infretis.Perm

/-- the first half of a `.step` iteration: `loop()`, the `k`-th job completes, `treat_output` (which ends by
    writing the restart file: `persist` of the state returned here is what is on disk) -/
def stepTreat (y : Sys) (k : Nat) (status : Status) (newW : List (List Rat)) : Except Err (St × Job × List Job) :=
  let (s1, go) := loop y.s
  if ¬ go then .error .value else
  match y.jobs[k]? with
  | none => .error .index
  | some job =>
    match treatOutput s1 job status newW (sortFuel s1) with
    | .error er => .error er
    | .ok (s2, _, _) => .ok (s2, job, y.jobs.eraseIdx k)

/-- the second half: the worker that just finished is given a new job (if steps remain) -/
def stepPrep (r : St × Job × List Job) (o : PickOutcome) : Except Err Sys :=
  if r.1.cstep + r.1.workers ≤ r.1.tsteps then
    match prep r.1 (some r.2.1.pin) o with
    | .error er => .error er
    | .ok (s3, job', _) => .ok { s := s3, jobs := r.2.2 ++ [job'] }
  else .ok { s := r.1, jobs := r.2.2 }

theorem sysStep_eq_halves (y : Sys) (k : Nat) (status : Status) (newW : List (List Rat)) (o : PickOutcome) :
    sysStep y (.step k status newW o) =
      match stepTreat y k status newW with
      | .error er => .error er
      | .ok r => stepPrep r o := by
  simp only [sysStep, stepTreat, stepPrep]
  split
  · rfl
  · cases y.jobs[k]? with
    | none => rfl
    | some job =>
      simp only []
      cases treatOutput (loop y.s).1 job status newW (sortFuel (loop y.s).1) with
      | error e => rfl
      | ok r => rfl

/-- what `restore (persist s)` guarantees about the rebuilt state `s'` (proved in RepexC06Restore): everything
    observable agrees except, by design, `toinitiate` (a full initiation is due), `mainDraws` (the stream
    position is restored at the first pick), the engine table (fresh), `restarted`, and `rows` (on disk) -/
structure RestoreRel (occ : List (List Int)) (s s' : St) : Prop where
  obs : ObsR False 0 s.rows [] s { s' with mainDraws := s.mainDraws }
  toinitiate : s'.toinitiate = (s'.workers : Int)
  restarted : s'.restarted = true
  rgenRestored : s'.rgenRestored = false
  occ : s'.occ = occ

theorem assignEngines_free (occ1 occ2 : List (List Int)) (names : List Nat) (pin : Nat)
    (h : freeEngines occ1 pin = freeEngines occ2 pin) :
    assignEngines occ1 names pin = assignEngines occ2 names pin := by
  unfold assignEngines
  simp only []
  rw [h]

/-- fields no pick touches -/
structure Frame (s s' : St) : Prop where
  cstep : s'.cstep = s.cstep
  tsteps : s'.tsteps = s.tsteps
  workers : s'.workers = s.workers
  toinitiate : s'.toinitiate = s.toinitiate
  occ : s'.occ = s.occ

theorem Frame.trans {a b c : St} (h1 : Frame a b) (h2 : Frame b c) : Frame a c :=
  ⟨h2.cstep.trans h1.cstep, h2.tsteps.trans h1.tsteps, h2.workers.trans h1.workers,
   h2.toinitiate.trans h1.toinitiate, h2.occ.trans h1.occ⟩

theorem lock_frame {s s' : St} {e : Nat} (h : lock s e = .ok s') : Frame s s' := by
  unfold lock at h
  split at h
  · simp only [Except.ok.injEq] at h; subst h; exact ⟨rfl, rfl, rfl, rfl, rfl⟩
  · exact absurd h (by simp)
  · exact absurd h (by simp)

theorem swap_frame (s : St) (t e : Nat) : Frame s (swap s t e) := ⟨rfl, rfl, rfl, rfl, rfl⟩

theorem pickCore_frame {s s' : St} {o : PickOutcome} {r : List (Int × Option Nat) × List Draw}
    (h : pickCore s o = .ok (s', r)) : Frame s s' := by
  unfold pickCore at h
  simp only [] at h
  generalize (if o.e == off then off - 1 else off) = other at h
  split at h
  · exact absurd h (by simp)
  · split at h
    · exact absurd h (by simp)
    · rename_i s2 hl2
      have h2 : Frame s s2 := (swap_frame s _ _).trans (lock_frame hl2)
      split at h
      · split at h
        · exact absurd h (by simp)
        · split at h
          · exact absurd h (by simp)
          · rename_i s4 hl4
            simp only [Except.ok.injEq, Prod.mk.injEq] at h
            rw [← h.1]
            exact h2.trans ((swap_frame s2 _ _).trans (lock_frame hl4))
      · simp only [Except.ok.injEq, Prod.mk.injEq] at h
        rw [← h.1]; exact h2

theorem pick_frame {s s' : St} {o : PickOutcome} {r : List Picked × List Draw}
    (h : pick s o = .ok (s', r)) : Frame s s' := by
  unfold pick at h
  split at h
  · exact absurd h (by simp)
  · rename_i s1 pairs ds hc
    split at h
    · exact absurd h (by simp)
    · simp only [Except.ok.injEq, Prod.mk.injEq] at h
      rw [← h.1]
      have := pickCore_frame hc
      exact ⟨this.cstep, this.tsteps, this.workers, this.toinitiate, this.occ⟩

theorem prepTail_frame {s1 s' : St} {ps : List Picked} {ds : List Draw} {pin? : Option Nat} {r : Job × List Draw}
    (h : prepTail s1 ps ds pin? = .ok (s', r)) :
    s'.cstep = s1.cstep ∧ s'.tsteps = s1.tsteps ∧ s'.workers = s1.workers ∧ s'.toinitiate = s1.toinitiate := by
  unfold prepTail at h
  split at h
  · exact absurd h (by simp)
  · simp only [] at h
    split at h
    · exact absurd h (by simp)
    · split at h
      · exact absurd h (by simp)
      · simp only [Except.ok.injEq, Prod.mk.injEq] at h
        rw [← h.1]
        exact ⟨rfl, rfl, rfl, rfl⟩

/-- **the heart of restart equivalence** (one worker): after `treat_output` left the state `s2` with steps to go,
    continuing (prep via `pick`) and restarting from the image (`.start` with the saved stream position, then the
    closing `.initDone`) give observationally equal scheduler states with the same job in flight. -/
theorem restart_step {occ : List (List Int)} {s2 s' : St} (job : Job) (rest : List Job) (o : PickOutcome)
    (hR : RestoreRel occ s2 s') (hw : s2.workers = 1) (hti : s2.toinitiate = -1) (hpin : job.pin = 0)
    (hl0 : s2.locked0 = [])
    (hlt : s2.cstep < s2.tsteps) (hocc : freeEngines s2.occ 0 = freeEngines occ 0)
    {yU : Sys} (hU : stepPrep (s2, job, rest) o = .ok yU) :
    ∃ y1 yR, sysStep { s := s', jobs := rest } (.start o s2.mainDraws) = .ok y1 ∧ sysStep y1 .initDone = .ok yR ∧
      RY (-1) s2.rows [] yU yR := by
  have hw' : s'.workers = 1 := by have := hR.obs.workers; simp only [] at this; omega
  have hcs : s'.cstep = s2.cstep := by have := hR.obs.cstep; simp only [] at this; omega
  have hts : s'.tsteps = s2.tsteps := by have := hR.obs.tsteps; simp only [] at this; omega
  have hl0' : s'.locked0 = [] := by have := hR.obs.locked0; simp only [] at this; rw [← this]; exact hl0
  -- the uninterrupted side
  simp only [stepPrep] at hU
  have hle : s2.cstep + s2.workers ≤ s2.tsteps := by omega
  rw [if_pos hle, prep_eq_tail] at hU
  have hneg : ¬ s2.toinitiate ≥ 0 := by omega
  simp only [hneg, if_false, hpin] at hU
  -- the restarted side: initiate
  have hinit : initiate s' = ({ s' with cworker := 0, toinitiate := 0 }, true) := by
    unfold initiate
    have h1 : s'.cstep < s'.tsteps := by omega
    simp only [h1, not_true_eq_false, if_false, hR.toinitiate, hw']
    have h3 : ¬ s'.tsteps ≤ s'.cstep := by omega
    simp [h3]
  -- its first pick: nothing recorded, the stream position is restored once, then `pick`
  have hpl : pickLock { s' with cworker := 0, toinitiate := 0 } o s2.mainDraws =
      pick { s' with cworker := 0, toinitiate := 0, mainDraws := s2.mainDraws, rgenRestored := true } o := by
    unfold pickLock restoreStreamOnce
    simp only [hl0', hR.restarted, hR.rgenRestored, and_self, if_true]
  have hb0 : ObsR False 0 s2.rows [] s2
      { s' with cworker := 0, toinitiate := 0, mainDraws := s2.mainDraws, rgenRestored := true } :=
    { hR.obs with toinitiate := fun f => f.elim, occ := fun f => f.elim }
  have h1 := pick_rel hb0 o
  cases ha : pick s2 o with
  | error e => rw [ha] at hU; exact absurd hU (by simp)
  | ok r =>
    rw [ha] at h1 hU
    obtain ⟨r', hb, h2, h2'⟩ := h1.ok_left
    obtain ⟨a1, ps, ds⟩ := r
    obtain ⟨b1, ps', ds'⟩ := r'
    simp only [Prod.mk.injEq] at h2'
    obtain ⟨rfl, rfl⟩ := h2'
    simp only [] at h2 hU
    have hoa : a1.occ = s2.occ := (pick_frame ha).occ
    have hob : b1.occ = occ := (pick_frame hb).occ.trans hR.occ
    have h3 := prepTail_rel h2 ps ds (some 0) (fun pin hp names => by
      simp only [Option.some.injEq] at hp
      subst hp
      apply assignEngines_free
      rw [hoa, hob, hocc])
    cases ha3 : prepTail a1 ps ds (some 0) with
    | error e => rw [ha3] at hU; exact absurd hU (by simp)
    | ok r3 =>
      rw [ha3] at h3 hU
      obtain ⟨r3', hb3, h4, ho4, hta, htb, _, _, hj⟩ := h3.ok_left
      obtain ⟨a3, jobU, dsU⟩ := r3
      obtain ⟨b3, jobR, dsR⟩ := r3'
      simp only [Prod.mk.injEq] at hj
      obtain ⟨rfl, rfl⟩ := hj
      simp only [Except.ok.injEq] at hU
      subst hU
      simp only [] at h4 ho4 hta htb
      have fa := pick_frame ha
      have fb := pick_frame hb
      have fa3 := prepTail_frame ha3
      have fb3 := prepTail_frame hb3
      have hb3c : b3.cstep = s2.cstep := by rw [fb3.1, fb.cstep]; exact hcs
      have hb3t : b3.tsteps = s2.tsteps := by rw [fb3.2.1, fb.tsteps]; exact hts
      have hb3w : b3.workers = 1 := by rw [fb3.2.2.1, fb.workers]; exact hw'
      have hb3i : b3.toinitiate = 0 := by rw [fb3.2.2.2, fb.toinitiate]
      have ha3i : a3.toinitiate = -1 := by rw [fa3.2.2.2, fa.toinitiate]; exact hti
      refine ⟨{ s := b3, jobs := rest ++ [jobU] },
              { s := { b3 with cworker := 1, toinitiate := -1 }, jobs := rest ++ [jobU] }, ?_, ?_, ?_⟩
      · simp only [sysStep, hinit, not_true_eq_false, if_false]
        rw [prep_eq_tail]
        simp only [ge_iff_le, Int.le_refl, if_true, hpl, hb, hb3]
      · simp only [sysStep]
        have hinit2 : initiate b3 = ({ b3 with cworker := 1, toinitiate := -1 }, false) := by
          unfold initiate
          have h1 : b3.cstep < b3.tsteps := by omega
          simp only [h1, not_true_eq_false, if_false, hb3i, hb3w]
          simp
        rw [hinit2]
        simp
      · refine ⟨?_, rfl⟩
        exact { h4 with toinitiate := fun _ => ⟨ha3i, rfl⟩, occ := fun _ => ho4 }


/-- the whole continuation: uninterrupted run from the step that is split, against restore + `.start` +
    `.initDone` + the same remaining `.step` events -/
theorem restart_run {occ : List (List Int)} {y : Sys} {s' : St} (k : Nat) (st : Status) (w : List (List Rat))
    (o : PickOutcome) (rest : List Ev) (r : St × Job × List Job)
    (hT : stepTreat y k st w = .ok r) (hR : RestoreRel occ r.1 s') (hw : r.1.workers = 1)
    (hti : r.1.toinitiate = -1) (hpin : r.2.1.pin = 0) (hl0 : r.1.locked0 = [])
    (hlt : r.1.cstep < r.1.tsteps) (hocc : freeEngines r.1.occ 0 = freeEngines occ 0)
    (hsteps : StepsOnly rest) {yN : Sys} (hrun : run y (.step k st w o :: rest) = .ok yN) :
    ∃ yN', run { s := s', jobs := r.2.2 } (.start o r.1.mainDraws :: .initDone :: rest) = .ok yN' ∧
      RY (-1) r.1.rows [] yN yN' := by
  obtain ⟨s2, job, restJobs⟩ := r
  simp only [] at hR hw hti hpin hl0 hlt hocc ⊢
  simp only [run, sysStep_eq_halves, hT] at hrun
  cases hU : stepPrep (s2, job, restJobs) o with
  | error e => rw [hU] at hrun; exact absurd hrun (by simp)
  | ok yU =>
    rw [hU] at hrun
    simp only [] at hrun
    obtain ⟨y1, yR, h1, h2, h3⟩ := restart_step job restJobs o hR hw hti hpin hl0 hlt hocc hU
    have h4 := run_steps_rel rest hsteps h3 (by omega)
    rw [hrun] at h4
    obtain ⟨yN', h5, h6⟩ := h4.ok_left
    refine ⟨yN', ?_, h6⟩
    simp only [run, h1, h2]
    exact h5

end Infretis.Repex
