import Infretis.Lemmas.RepexC06Reissue
/-
C06, part 5: `restore (persist s)`.  The scalar part of the rebuilt state is derived here from the code of
`blank`/`loadPaths`; the slot contents (W rows, paths, locks, fractions, weights) are what `load_paths` recomputes
from the stored paths and asserts on (sorted diagonal, C05) — they enter as the hypothesis `hslots`.
-/
namespace Infretis.Repex
open Infretis.Perm

/-- `s'` differs from `s` at most in the slot contents and the per-path tables -/
def SameScalars (s s' : St) : Prop :=
  { s' with W := s.W, trajs := s.trajs, locks := s.locks, frac := s.frac, wts := s.wts } = s

theorem SameScalars.trans {a b c : St} (h1 : SameScalars a b) (h2 : SameScalars b c) : SameScalars a c := by
  unfold SameScalars at *
  cases a; cases b; cases c
  simp only [St.mk.injEq] at h1 h2 ⊢
  simp_all

theorem unlock_scalars {s s' : St} {e : Nat} (h : unlock s e = .ok s') : SameScalars s s' := by
  unfold unlock at h
  split at h
  · simp only [Except.ok.injEq] at h; subst h; rfl
  · exact absurd h (by simp)
  · exact absurd h (by simp)

theorem addTraj_scalars {s s' : St} {ens : Int} {pn : Nat} {valid : List Rat}
    (h : addTraj s ens pn valid = .ok s') : SameScalars s s' := by
  unfold addTraj at h
  simp only [] at h
  split at h
  · exact absurd h (by simp)
  · split at h
    · exact absurd h (by simp)
    · split at h
      · exact absurd h (by simp)
      · split at h
        · exact absurd h (by simp)
        · have := unlock_scalars h
          unfold SameScalars at this ⊢
          cases s; cases s'
          simp only [St.mk.injEq] at this ⊢
          simp_all

theorem loadOne_scalars {s s' : St} {ens : Int} {pn : Nat} {valid fr : List Rat}
    (h : loadOne s ens pn valid fr = .ok s') : SameScalars s s' := by
  unfold loadOne at h
  split at h
  · exact absurd h (by simp)
  · rename_i s1 h1
    simp only [Except.ok.injEq] at h
    subst h
    have := addTraj_scalars h1
    unfold SameScalars at this ⊢
    cases s; cases s1
    simp only [St.mk.injEq] at this ⊢
    simp_all

theorem plus_scalars : ∀ (l : List (Nat × List Rat × List Rat)) (s s' : St) (i : Nat),
    loadPaths.plus s i l = .ok s' → SameScalars s s' := by
  intro l
  induction l with
  | nil => intro s s' i h; simp only [loadPaths.plus, Except.ok.injEq] at h; subst h; rfl
  | cons x rest ih =>
    intro s s' i h
    obtain ⟨pn, w, fr⟩ := x
    simp only [loadPaths.plus] at h
    split at h
    · exact absurd h (by simp)
    · rename_i s1 h1
      exact (loadOne_scalars h1).trans (ih _ _ _ h)

theorem loadPaths_scalars {s s' : St} {paths : List (Nat × List Rat × List Rat)}
    (h : loadPaths s paths = .ok s') : SameScalars s s' := by
  unfold loadPaths at h
  split at h
  · exact absurd h (by simp)
  · split at h
    · exact absurd h (by simp)
    · rename_i s1 h1
      exact (plus_scalars _ _ _ _ h1).trans (loadOne_scalars h)

/-- `restore (persist s)` for a stop state `s` (nothing in flight, nothing recorded; entropy = seed and spawn counter =
    steps done, as in every one-worker state right after `treat_output`): if the load goes through and reproduces the
    slot contents, the rebuilt state stands in `RestoreRel` to `s`. -/
theorem restore_persist_rel {s s' : St} (occ : List (List Int)) (weightOf : Nat → List Rat)
    (h : restore (persist s) s.n s.workers s.tsteps occ s.ensEng weightOf = .ok s')
    (hslots : s'.W = s.W ∧ s'.trajs = s.trajs ∧ s'.locks = s.locks ∧ FEq s.frac s'.frac ∧ FEq s.wts s'.wts)
    (hlk : s.locked = []) (hl0 : s.locked0 = []) (hlo : s.lockedOrd = []) (hl0o : s.locked0Ord = [])
    (hent : s.entropy = s.seed) (hsp : s.spawned = s.cstep) :
    RestoreRel occ s s' := by
  unfold restore at h
  have hsc := loadPaths_scalars h
  obtain ⟨hW, hT, hL, hF, hWt⟩ := hslots
  have hpl : (persist s).locked = [] := by simp [persist, hlk]
  have hplo : (persist s).lockedOrd = [] := by simp [persist, hlo]
  have hps : (persist s).spawnedRec = none := by simp [persist, spawnedKey, hlk, hsp]
  unfold SameScalars blank at hsc
  rw [hpl, hplo, hps] at hsc
  cases s'
  simp only [St.mk.injEq, persist] at hsc
  obtain ⟨h1, h2, h3, h4, h5, h6, h7, h8, h9, h10, h11, h12, h13, h14, h15, h16, h17, h18, h19, h20, h21, h22, h23, h24, h25⟩ := hsc
  simp only [] at hW hT hL hF hWt
  subst_vars
  refine ⟨⟨rfl, rfl, rfl, rfl, hlk, hl0, hlo, hl0o, rfl, rfl, rfl, rfl, hF, hWt, rfl, rfl, hent, ?_, rfl,
          fun f => f.elim, fun f => f.elim, ⟨[], by simp, rfl⟩⟩, rfl, rfl, rfl, rfl⟩
  simp [hsp]


/-- **the spawn counter round-trips through the restart file, for EVERY state**: `write_toml` stores `current.spawned`
    exactly when it is not `cstep + len(locked)` (after a restart that could not re-issue every recorded job), and
    `set_rgen` uses the key when present, the formula otherwise. -/
theorem restore_spawned {s s' : St} {n workers tsteps : Nat} {occ : List (List Int)} {ensEng : List (List Nat)}
    {weightOf : Nat → List Rat} (h : restore (persist s) n workers tsteps occ ensEng weightOf = .ok s') :
    s'.spawned = s.spawned := by
  unfold restore at h
  have hsc := loadPaths_scalars h
  unfold SameScalars at hsc
  have := congrArg St.spawned hsc
  simp only [blank] at this
  rw [this]
  simp only [persist, spawnedKey, List.length_map]
  split
  · rename_i he; simp [he]
  · simp

theorem lookup_none_of_not_key (l : AL) (q : Nat) (h : q ∉ l.map (·.1)) : l.lookup q = none := by
  induction l with
  | nil => rfl
  | cons hd tl ih =>
    obtain ⟨k, v⟩ := hd
    simp only [List.map_cons, List.mem_cons, not_or] at h
    have : (q == k) = false := by simpa using h.1
    simp only [List.lookup, this]
    exact ih h.2

/-- finite-map equality is decided on the keys that occur -/
theorem FEq_of_keys (f g : AL) (h : ∀ q ∈ f.map (·.1) ++ g.map (·.1), f.lookup q = g.lookup q) : FEq f g := by
  intro q
  by_cases hq : q ∈ f.map (·.1) ++ g.map (·.1)
  · exact h q hq
  · rw [List.mem_append, not_or] at hq
    rw [lookup_none_of_not_key f q hq.1, lookup_none_of_not_key g q hq.2]

/-- boolean test "the result is `.ok x`" (for `decide` on concrete systems) -/
def okEq {α : Type} [DecidableEq α] (r : Except Err α) (x : α) : Bool :=
  match r with
  | .ok y => decide (y = x)
  | .error _ => false

theorem eq_ok_of_okEq {α : Type} [DecidableEq α] {r : Except Err α} {x : α} (h : okEq r x = true) : r = .ok x := by
  unfold okEq at h
  split at h
  · simp only [decide_eq_true_eq] at h; rw [h]
  · exact absurd h (by simp)

end Infretis.Repex
