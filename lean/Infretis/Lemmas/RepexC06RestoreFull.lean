import Infretis.Lemmas.RepexC06Restore
/-
C06, part 6: the full `restore (persist s)` theorem — slot-by-slot induction over `loadPaths.plus`.
For a stop state (`StopState`: what a one-worker state right after `treat_output` looks like, including the sorted
diagonal that C05 proves) the load goes through and rebuilds W, the slot order, the locks and — as finite maps —
the fraction and weight tables.
-/
namespace Infretis.Repex
open Infretis.Perm

theorem padValid_congr {s s' : St} (h : s'.n = s.n) (ens : Int) (v : List Rat) : padValid s' ens v = padValid s ens v := by
  unfold padValid; rw [h]

theorem loadOne_eq {s : St} {ens : Int} {pn : Nat} {valid fr : List Rat}
    (hl : s.locks[(ens + 1).toNat]? = some true)
    (hlen : (padValid s ens valid).length = s.n)
    (hx : (padValid s ens valid).getD (ens + 1).toNat 0 ≠ 0)
    (he : (ens + 1).toNat < s.trajs.length) :
    loadOne s ens pn valid fr = .ok
      { s with trajs := s.trajs.set (ens + 1).toNat (some pn),
               W := s.W.set (ens + 1).toNat (padValid s ens valid),
               locks := s.locks.set (ens + 1).toNat false,
               frac := s.frac ++ [(pn, fr)], wts := s.wts ++ [(pn, valid)] } := by
  unfold loadOne addTraj
  simp only []
  have hoff : (ens + (off : Int)).toNat = (ens + 1).toNat := by simp [off]
  rw [hoff]
  rw [List.getD_eq_getElem?_getD] at hx
  cases hv : (padValid s ens valid)[(ens + 1).toNat]? with
  | none => rw [hv] at hx; exact absurd rfl hx
  | some x =>
    rw [hv] at hx
    simp only [Option.getD_some] at hx
    simp only [hx, ↓reduceIte, hlen, ne_eq, not_true_eq_false, ge_iff_le, Nat.not_le.mpr he]
    unfold unlock
    simp only [hl]

/-- the three per-slot tables agree at index `e` -/
def SlotEq (a b : St) (e : Nat) : Prop := a.W[e]? = b.W[e]? ∧ a.trajs[e]? = b.trajs[e]? ∧ a.locks[e]? = b.locks[e]?

theorem plus_spec (wOf fOf : Nat → List Rat) : ∀ (l : List Nat) (cur : St) (i : Nat),
    cur.trajs.length = cur.n → cur.locks.length = cur.n → cur.W.length = cur.n →
    i + l.length < cur.n →
    (∀ e, i < e → e ≤ i + l.length → cur.locks[e]? = some true) →
    (∀ j pn, l[j]? = some pn → (padValid cur ((i + j : Nat) : Int) (wOf pn)).length = cur.n ∧
      (padValid cur ((i + j : Nat) : Int) (wOf pn)).getD (i + j + 1) 0 ≠ 0) →
    ∃ s', loadPaths.plus cur i (l.map (fun pn => (pn, wOf pn, fOf pn))) = .ok s' ∧ SameScalars cur s' ∧
      s'.frac = cur.frac ++ l.map (fun pn => (pn, fOf pn)) ∧ s'.wts = cur.wts ++ l.map (fun pn => (pn, wOf pn)) ∧
      s'.trajs.length = cur.n ∧ s'.locks.length = cur.n ∧ s'.W.length = cur.n ∧
      (∀ e, (e ≤ i ∨ i + l.length < e) → SlotEq s' cur e) ∧
      (∀ j pn, l[j]? = some pn → s'.W[i + j + 1]? = some (padValid cur ((i + j : Nat) : Int) (wOf pn)) ∧
        s'.trajs[i + j + 1]? = some (some pn) ∧ s'.locks[i + j + 1]? = some false) := by
  intro l
  induction l with
  | nil =>
    intro cur i hT hL hW _ _ _
    refine ⟨cur, rfl, rfl, by simp, by simp, hT, hL, hW, fun e _ => ⟨rfl, rfl, rfl⟩, ?_⟩
    intro j pn hj; simp at hj
  | cons pn rest ih =>
    intro cur i hT hL hW hlt hlocks hpad
    have hslot : (((i : Nat) : Int) + 1).toNat = i + 1 := by omega
    obtain ⟨hp1, hp2⟩ := hpad 0 pn (by simp)
    simp only [Nat.add_zero] at hp1 hp2
    simp only [List.length_cons] at hlt
    have hone := loadOne_eq (s := cur) (ens := (i : Int)) (pn := pn) (valid := wOf pn) (fr := fOf pn)
      (by rw [hslot]; exact hlocks (i + 1) (by omega) (by simp))
      hp1 (by rw [hslot]; exact hp2) (by rw [hslot, hT]; omega)
    rw [hslot] at hone
    simp only [List.map_cons, loadPaths.plus, hone]
    -- the state after this slot
    obtain ⟨s', h1, h2, h3, h4, h5, h6, h7, h8, h9⟩ := ih
      { cur with trajs := cur.trajs.set (i + 1) (some pn), W := cur.W.set (i + 1) (padValid cur (i : Int) (wOf pn)),
                 locks := cur.locks.set (i + 1) false, frac := cur.frac ++ [(pn, fOf pn)],
                 wts := cur.wts ++ [(pn, wOf pn)] } (i + 1)
      (by simp only [List.length_set]; exact hT) (by simp only [List.length_set]; exact hL)
      (by simp only [List.length_set]; exact hW) (by simp only []; omega)
      (by
        intro e he1 he2
        simp only []
        rw [List.getElem?_set_ne (by omega)]
        exact hlocks e (by omega) (by simp only [List.length_cons]; omega))
      (by
        intro j q hj
        have := hpad (j + 1) q (by simpa using hj)
        rw [padValid_congr (s := cur) rfl]
        rw [show i + 1 + j = i + (j + 1) from by omega]
        exact this)
    refine ⟨s', h1, ?_, ?_, ?_, h5, h6, h7, ?_, ?_⟩
    · refine SameScalars.trans ?_ h2
      rfl
    · rw [h3]; simp
    · rw [h4]; simp
    · intro e he
      obtain ⟨a1, a2, a3⟩ := h8 e (by simp only [List.length_cons] at he; omega)
      simp only [List.length_cons] at he
      refine ⟨?_, ?_, ?_⟩
      · rw [a1]; simp only []; rw [List.getElem?_set_ne (by omega)]
      · rw [a2]; simp only []; rw [List.getElem?_set_ne (by omega)]
      · rw [a3]; simp only []; rw [List.getElem?_set_ne (by omega)]
    · intro j q hj
      cases j with
      | zero =>
        simp only [List.getElem?_cons_zero, Option.some.injEq] at hj
        subst hj
        obtain ⟨a1, a2, a3⟩ := h8 (i + 1) (Or.inl (Nat.le_refl _))
        simp only [Nat.add_zero]
        refine ⟨?_, ?_, ?_⟩
        · rw [a1]; simp only []; rw [List.getElem?_set_self (by rw [hW]; omega)]
        · rw [a2]; simp only []; rw [List.getElem?_set_self (by rw [hT]; omega)]
        · rw [a3]; simp only []; rw [List.getElem?_set_self (by rw [hL]; omega)]
      | succ j =>
        have := h9 j q (by simpa using hj)
        rw [padValid_congr (s := cur) rfl] at this
        rw [show i + 1 + j + 1 = i + (j + 1) + 1 from by omega, show i + 1 + j = i + (j + 1) from by omega] at this
        exact this


theorem lookup_map_keyed (l : List Nat) (h : Nat → List Rat) (q : Nat) :
    (l.map (fun pn => (pn, h pn))).lookup q = if q ∈ l then some (h q) else none := by
  induction l with
  | nil => simp [List.lookup]
  | cons x rest ih =>
    simp only [List.map_cons, List.lookup_cons, List.mem_cons]
    by_cases hq : q = x
    · subst hq; simp
    · have : (q == x) = false := by simpa using hq
      simp only [this, ih, hq, false_or]

theorem mem_rot (q pn0 : Nat) (rest : List Nat) : q ∈ rest ++ [pn0] ↔ q ∈ pn0 :: rest := by
  simp [or_comm]

/-- a one-worker state right after `treat_output` ("stop state"), `pns` = its live path numbers in slot order:
    shapes; every real slot idle, holding a path whose padded weight vector is its W row, of full length, with a
    non-zero entry on the diagonal (the sorted-diagonal invariant, C05), and with a fraction entry; the ghost slot
    empty, zero and locked; no table entries for dead paths; nothing in flight or on record; entropy = seed and
    spawn counter = steps done. -/
structure StopState (s : St) (pns : List Nat) : Prop where
  n2 : 2 ≤ s.n
  lenW : s.W.length = s.n
  lenT : s.trajs.length = s.n
  lenL : s.locks.length = s.n
  pnsLen : pns.length = s.n - 1
  slot : ∀ (e pn : Nat), pns[e]? = some pn → s.trajs[e]? = some (some pn) ∧ s.locks[e]? = some false ∧
    ∃ w, s.wts.lookup pn = some w ∧ s.W[e]? = some (padValid s ((e : Int) - 1) w) ∧
      (padValid s ((e : Int) - 1) w).length = s.n ∧ (padValid s ((e : Int) - 1) w).getD e 0 ≠ 0 ∧
      ∃ f, s.frac.lookup pn = some f
  ghostT : s.trajs[s.n - 1]? = some none
  ghostW : s.W[s.n - 1]? = some (List.replicate s.n 0)
  ghostL : s.locks[s.n - 1]? = some true
  fracKeys : ∀ q ∈ s.frac.map (·.1), q ∈ pns
  wtsKeys : ∀ q ∈ s.wts.map (·.1), q ∈ pns
  locked : s.locked = []
  locked0 : s.locked0 = []
  lockedOrd : s.lockedOrd = []
  locked0Ord : s.locked0Ord = []
  entropy : s.entropy = s.seed
  spawned : s.spawned = s.cstep

theorem StopState.live {s : St} {pns : List Nat} (h : StopState s pns) : livePaths s = pns.map some := by
  apply List.ext_getElem?
  intro e
  unfold livePaths
  rw [List.getElem?_dropLast, List.getElem?_map]
  by_cases he : e < s.n - 1
  · have : e < pns.length := by rw [h.pnsLen]; exact he
    rw [if_pos (by rw [h.lenT]; exact he)]
    have hp : pns[e]? = some pns[e] := List.getElem?_eq_getElem this
    rw [(h.slot e _ hp).1, hp]; rfl
  · rw [if_neg (by rw [h.lenT]; exact he)]
    have : pns[e]? = none := List.getElem?_eq_none (by rw [h.pnsLen]; omega)
    rw [this]; rfl

/-- **`restore (persist s)` is observationally `s`** (full): for a stop state the load goes through and the rebuilt
    state stands in `RestoreRel` to `s` — same W, slot order, locks, counters, seed, entropy, spawn counter, fractions
    and weights as finite maps; by design a full initiation is due, the stream position is restored at the first pick,
    the engine table is fresh, `restarted` is set, and the rows stay in the data file.  `weightOf` = the weight
    vector stored for the path. -/
theorem restore_persist_full {s : St} {pns : List Nat} (h : StopState s pns) (occ : List (List Int)) :
    ∃ s', restore (persist s) s.n s.workers s.tsteps occ s.ensEng (fun pn => (s.wts.lookup pn).getD []) = .ok s' ∧
      RestoreRel occ s s' := by
  -- the list of paths handed to load_paths
  cases hpns : pns with
  | nil => have := h.pnsLen; have := h.n2; rw [hpns] at *; simp at *; omega
  | cons pn0 rest =>
  have hrl : rest.length + 1 = s.n - 1 := by have := h.pnsLen; rw [hpns] at this; simpa using this
  let wOf : Nat → List Rat := fun pn => (s.wts.lookup pn).getD []
  let fOf : Nat → List Rat := fun pn => ((persist s).frac.lookup pn).getD (List.replicate s.n 0)
  have hpaths : (persist s).active.filterMap (fun o => o.map (fun pn => (pn, wOf pn, fOf pn))) =
      (pn0, wOf pn0, fOf pn0) :: rest.map (fun pn => (pn, wOf pn, fOf pn)) := by
    show (livePaths s).filterMap _ = _
    rw [h.live, hpns]
    simp [List.filterMap_map, Function.comp_def]
  -- facts about each slot in terms of wOf
  have hslot : ∀ (e pn : Nat), pns[e]? = some pn → s.trajs[e]? = some (some pn) ∧ s.locks[e]? = some false ∧
      s.W[e]? = some (padValid s ((e : Int) - 1) (wOf pn)) ∧ (padValid s ((e : Int) - 1) (wOf pn)).length = s.n ∧
      (padValid s ((e : Int) - 1) (wOf pn)).getD e 0 ≠ 0 := by
    intro e pn hp
    obtain ⟨a, b, w, c, d, e1, e2, _⟩ := h.slot e pn hp
    have : wOf pn = w := by simp only [wOf, c, Option.getD_some]
    rw [this]
    exact ⟨a, b, d, e1, e2⟩
  -- the start state
  let b0 : St := blank s.n s.workers s.tsteps (persist s).cstep (persist s).trajNum (persist s).seed occ s.ensEng true
    (persist s).locked
  let s0 : St := { b0 with
    locked0Ord := (persist s).lockedOrd.map some
    spawned := (persist s).spawnedRec.getD ((persist s).cstep + (persist s).locked.length) }
  have hs0n : s0.n = s.n := rfl
  obtain ⟨s1, p1, p2, p3, p4, p5, p6, p7, p8, p9⟩ := plus_spec wOf fOf rest s0 0
    (by simp [s0, b0, blank]) (by simp [s0, b0, blank]) (by simp [s0, b0, blank])
    (by show 0 + rest.length < s.n; omega)
    (by intro e _ he; simp only [s0, b0, blank]; rw [List.getElem?_replicate]; simp; omega)
    (by
      intro j pn hj
      have hp : pns[j + 1]? = some pn := by rw [hpns]; simpa using hj
      obtain ⟨_, _, _, e1, e2⟩ := hslot (j + 1) pn hp
      rw [padValid_congr hs0n]
      have hc : (((0 + j : Nat) : Int)) = ((j + 1 : Nat) : Int) - 1 := by omega
      rw [hc, show 0 + j + 1 = j + 1 from by omega]
      exact ⟨e1, e2⟩)
  have hn1 : s1.n = s.n := by
    have := p2; unfold SameScalars at this
    have h' := congrArg St.n this
    exact h'
  obtain ⟨t0, l0, w0, e01, e02⟩ := hslot 0 pn0 (by rw [hpns]; rfl)
  have hz : ((-1 : Int) + 1).toNat = 0 := by decide
  obtain ⟨z1, z2, z3⟩ := p8 0 (Or.inl (Nat.le_refl _))
  have hlast := loadOne_eq (s := s1) (ens := -1) (pn := pn0) (valid := wOf pn0) (fr := fOf pn0)
    (by rw [hz, z3]; simp only [s0, b0, blank]; rw [List.getElem?_replicate]; simp; omega)
    (by rw [padValid_congr hn1, hn1]; simpa using e01)
    (by rw [padValid_congr hn1, hz]; simpa using e02)
    (by rw [hz, p5]; show 0 < s.n; omega)
  rw [hz] at hlast
  have hload : restore (persist s) s.n s.workers s.tsteps occ s.ensEng wOf = .ok
      { s1 with trajs := s1.trajs.set 0 (some pn0), W := s1.W.set 0 (padValid s1 (-1) (wOf pn0)),
                locks := s1.locks.set 0 false, frac := s1.frac ++ [(pn0, fOf pn0)],
                wts := s1.wts ++ [(pn0, wOf pn0)] } := by
    unfold restore
    simp only []
    rw [hpaths]
    simp only [loadPaths]
    show (match loadPaths.plus s0 0 (rest.map (fun pn => (pn, wOf pn, fOf pn))) with
          | Except.error er => Except.error er
          | Except.ok s1 => loadOne s1 (-1) pn0 (wOf pn0) (fOf pn0)) = _
    rw [p1]
    exact hlast
  refine ⟨_, hload, ?_⟩
  apply restore_persist_rel occ wOf hload ?_ h.locked h.locked0 h.lockedOrd h.locked0Ord h.entropy h.spawned
  simp only []
  -- slot tables
  have hidx : ∀ e, e < s.n → (e = 0 ∨ (∃ j, e = j + 1 ∧ j < rest.length) ∨ e = s.n - 1) := by
    intro e he
    rcases Nat.eq_zero_or_pos e with h0 | h0
    · exact Or.inl h0
    · by_cases hl : e = s.n - 1
      · exact Or.inr (Or.inr hl)
      · exact Or.inr (Or.inl ⟨e - 1, by omega, by omega⟩)
  refine ⟨?_, ?_, ?_, ?_, ?_⟩
  · -- W
    apply List.ext_getElem?
    intro e
    by_cases he : e < s.n
    · rcases hidx e he with h0 | ⟨j, hj, hjl⟩ | hl
      · subst h0
        rw [List.getElem?_set_self (by rw [p7]; show 0 < s.n; omega), w0, padValid_congr hn1]
        simp
      · subst hj
        rw [List.getElem?_set_ne (by omega)]
        have hq : rest[j]? = some rest[j] := List.getElem?_eq_getElem hjl
        obtain ⟨a, _, _⟩ := p9 j _ hq
        have hp : pns[j + 1]? = some rest[j] := by rw [hpns]; simp [hq]
        obtain ⟨_, _, c, _, _⟩ := hslot (j + 1) _ hp
        rw [show 0 + j + 1 = j + 1 from by omega] at a
        rw [a, c, padValid_congr hs0n]
        congr 2
        omega
      · subst hl
        rw [List.getElem?_set_ne (by omega)]
        obtain ⟨a, _, _⟩ := p8 (s.n - 1) (Or.inr (by show 0 + rest.length < s.n - 1; omega))
        rw [a, h.ghostW]
        simp only [s0, b0, blank]
        rw [List.getElem?_replicate]; simp; omega
    · rw [List.getElem?_eq_none (by simp only [List.length_set]; rw [p7]; show s.n ≤ e; omega),
          List.getElem?_eq_none (by rw [h.lenW]; omega)]
  · -- trajs
    apply List.ext_getElem?
    intro e
    by_cases he : e < s.n
    · rcases hidx e he with h0 | ⟨j, hj, hjl⟩ | hl
      · subst h0
        rw [List.getElem?_set_self (by rw [p5]; show 0 < s.n; omega), t0]
      · subst hj
        rw [List.getElem?_set_ne (by omega)]
        have hq : rest[j]? = some rest[j] := List.getElem?_eq_getElem hjl
        obtain ⟨_, a, _⟩ := p9 j _ hq
        have hp : pns[j + 1]? = some rest[j] := by rw [hpns]; simp [hq]
        obtain ⟨c, _, _, _, _⟩ := hslot (j + 1) _ hp
        rw [show 0 + j + 1 = j + 1 from by omega] at a
        rw [a, c]
      · subst hl
        rw [List.getElem?_set_ne (by omega)]
        obtain ⟨_, a, _⟩ := p8 (s.n - 1) (Or.inr (by show 0 + rest.length < s.n - 1; omega))
        rw [a, h.ghostT]
        simp only [s0, b0, blank]
        rw [List.getElem?_replicate]; simp; omega
    · rw [List.getElem?_eq_none (by simp only [List.length_set]; rw [p5]; show s.n ≤ e; omega),
          List.getElem?_eq_none (by rw [h.lenT]; omega)]
  · -- locks
    apply List.ext_getElem?
    intro e
    by_cases he : e < s.n
    · rcases hidx e he with h0 | ⟨j, hj, hjl⟩ | hl
      · subst h0
        rw [List.getElem?_set_self (by rw [p6]; show 0 < s.n; omega), l0]
      · subst hj
        rw [List.getElem?_set_ne (by omega)]
        have hq : rest[j]? = some rest[j] := List.getElem?_eq_getElem hjl
        obtain ⟨_, _, a⟩ := p9 j _ hq
        have hp : pns[j + 1]? = some rest[j] := by rw [hpns]; simp [hq]
        obtain ⟨_, c, _, _, _⟩ := hslot (j + 1) _ hp
        rw [show 0 + j + 1 = j + 1 from by omega] at a
        rw [a, c]
      · subst hl
        rw [List.getElem?_set_ne (by omega)]
        obtain ⟨_, _, a⟩ := p8 (s.n - 1) (Or.inr (by show 0 + rest.length < s.n - 1; omega))
        rw [a, h.ghostL]
        simp only [s0, b0, blank]
        rw [List.getElem?_replicate]; simp; omega
    · rw [List.getElem?_eq_none (by simp only [List.length_set]; rw [p6]; show s.n ≤ e; omega),
          List.getElem?_eq_none (by rw [h.lenL]; omega)]
  · -- frac
    intro q
    rw [p3]
    show s.frac.lookup q = (([] : AL) ++ rest.map (fun pn => (pn, fOf pn)) ++ [(pn0, fOf pn0)]).lookup q
    have : ([] : AL) ++ rest.map (fun pn => (pn, fOf pn)) ++ [(pn0, fOf pn0)] =
        (rest ++ [pn0]).map (fun pn => (pn, fOf pn)) := by simp
    rw [this, lookup_map_keyed]
    by_cases hq : q ∈ pns
    · have hq' : q ∈ rest ++ [pn0] := by rw [hpns] at hq; exact (mem_rot q pn0 rest).mpr hq
      rw [if_pos hq']
      obtain ⟨e, he⟩ := List.mem_iff_getElem?.mp hq
      obtain ⟨_, _, w, _, _, _, _, f, hf⟩ := h.slot e q he
      simp only [fOf, persist, hf, Option.getD_some]
    · have hq' : q ∉ rest ++ [pn0] := by rw [hpns] at hq; exact fun hc => hq ((mem_rot q pn0 rest).mp hc)
      rw [if_neg hq']
      exact lookup_none_of_not_key _ _ (fun hk => hq (h.fracKeys q hk))
  · -- wts
    intro q
    rw [p4]
    show s.wts.lookup q = (([] : AL) ++ rest.map (fun pn => (pn, wOf pn)) ++ [(pn0, wOf pn0)]).lookup q
    have : ([] : AL) ++ rest.map (fun pn => (pn, wOf pn)) ++ [(pn0, wOf pn0)] =
        (rest ++ [pn0]).map (fun pn => (pn, wOf pn)) := by simp
    rw [this, lookup_map_keyed]
    by_cases hq : q ∈ pns
    · have hq' : q ∈ rest ++ [pn0] := by rw [hpns] at hq; exact (mem_rot q pn0 rest).mpr hq
      rw [if_pos hq']
      obtain ⟨e, he⟩ := List.mem_iff_getElem?.mp hq
      obtain ⟨_, _, w, hw, _⟩ := h.slot e q he
      simp only [wOf, hw, Option.getD_some]
    · have hq' : q ∉ rest ++ [pn0] := by rw [hpns] at hq; exact fun hc => hq ((mem_rot q pn0 rest).mp hc)
      rw [if_neg hq']
      exact lookup_none_of_not_key _ _ (fun hk => hq (h.wtsKeys q hk))

end Infretis.Repex
