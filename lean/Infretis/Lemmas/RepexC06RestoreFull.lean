import Infretis.Lemmas.RepexC06Restore
/-
C06, part 6: the full `restore (persist s)` theorem — slot-by-slot induction over `loadPaths.plus`.
For a stop state (`StopState`: what a one-worker state right after `treat_output` looks like, including the sorted
diagonal that C05 proves) the load goes through and rebuilds W, the slot order, the locks and — as finite maps —
the fraction and weight tables.
-/
namespace Infretis.Repex
open Infretis.Perm

theorem padValid_congr {s s' : St} (h : s'.n = s.n) (ens : Int) (v : List Rat) : padValid s' ens v = padValid s ens v := by
  unfold padValid; rw [h]

theorem loadOne_eq {s : St} {ens : Int} {pn : Nat} {valid fr : List Rat}
    (hl : s.locks[(ens + 1).toNat]? = some true)
    (hlen : (padValid s ens valid).length = s.n)
    (hx : (padValid s ens valid).getD (ens + 1).toNat 0 ≠ 0)
    (he : (ens + 1).toNat < s.trajs.length) :
    loadOne s ens pn valid fr = .ok
      { s with trajs := s.trajs.set (ens + 1).toNat (some pn),
               W := s.W.set (ens + 1).toNat (padValid s ens valid),
               locks := s.locks.set (ens + 1).toNat false,
               frac := s.frac ++ [(pn, fr)], wts := s.wts ++ [(pn, valid)] } := by
  unfold loadOne addTraj
  simp only []
  have hoff : (ens + (off : Int)).toNat = (ens + 1).toNat := by simp [off]
  rw [hoff]
  rw [List.getD_eq_getElem?_getD] at hx
  cases hv : (padValid s ens valid)[(ens + 1).toNat]? with
  | none => rw [hv] at hx; exact absurd rfl hx
  | some x =>
    rw [hv] at hx
    simp only [Option.getD_some] at hx
    simp only [hx, ↓reduceIte, hlen, ne_eq, not_true_eq_false, ge_iff_le, Nat.not_le.mpr he]
    unfold unlock
    simp only [hl]

/-- the three per-slot tables agree at index `e` -/
def SlotEq (a b : St) (e : Nat) : Prop := a.W[e]? = b.W[e]? ∧ a.trajs[e]? = b.trajs[e]? ∧ a.locks[e]? = b.locks[e]?

theorem plus_spec (wOf fOf : Nat → List Rat) : ∀ (l : List Nat) (cur : St) (i : Nat),
    cur.trajs.length = cur.n → cur.locks.length = cur.n → cur.W.length = cur.n →
    i + l.length < cur.n →
    (∀ e, i < e → e ≤ i + l.length → cur.locks[e]? = some true) →
    (∀ j pn, l[j]? = some pn → (padValid cur ((i + j : Nat) : Int) (wOf pn)).length = cur.n ∧
      (padValid cur ((i + j : Nat) : Int) (wOf pn)).getD (i + j + 1) 0 ≠ 0) →
    ∃ s', loadPaths.plus cur i (l.map (fun pn => (pn, wOf pn, fOf pn))) = .ok s' ∧ SameScalars cur s' ∧
      s'.frac = cur.frac ++ l.map (fun pn => (pn, fOf pn)) ∧ s'.wts = cur.wts ++ l.map (fun pn => (pn, wOf pn)) ∧
      s'.trajs.length = cur.n ∧ s'.locks.length = cur.n ∧ s'.W.length = cur.n ∧
      (∀ e, (e ≤ i ∨ i + l.length < e) → SlotEq s' cur e) ∧
      (∀ j pn, l[j]? = some pn → s'.W[i + j + 1]? = some (padValid cur ((i + j : Nat) : Int) (wOf pn)) ∧
        s'.trajs[i + j + 1]? = some (some pn) ∧ s'.locks[i + j + 1]? = some false) := by
  intro l
  induction l with
  | nil =>
    intro cur i hT hL hW _ _ _
    refine ⟨cur, rfl, rfl, by simp, by simp, hT, hL, hW, fun e _ => ⟨rfl, rfl, rfl⟩, ?_⟩
    intro j pn hj; simp at hj
  | cons pn rest ih =>
    intro cur i hT hL hW hlt hlocks hpad
    have hslot : (((i : Nat) : Int) + 1).toNat = i + 1 := by omega
    obtain ⟨hp1, hp2⟩ := hpad 0 pn (by simp)
    simp only [Nat.add_zero] at hp1 hp2
    simp only [List.length_cons] at hlt
    have hone := loadOne_eq (s := cur) (ens := (i : Int)) (pn := pn) (valid := wOf pn) (fr := fOf pn)
      (by rw [hslot]; exact hlocks (i + 1) (by omega) (by simp))
      hp1 (by rw [hslot]; exact hp2) (by rw [hslot, hT]; omega)
    rw [hslot] at hone
    simp only [List.map_cons, loadPaths.plus, hone]
    -- the state after this slot
    obtain ⟨s', h1, h2, h3, h4, h5, h6, h7, h8, h9⟩ := ih
      { cur with trajs := cur.trajs.set (i + 1) (some pn), W := cur.W.set (i + 1) (padValid cur (i : Int) (wOf pn)),
                 locks := cur.locks.set (i + 1) false, frac := cur.frac ++ [(pn, fOf pn)],
                 wts := cur.wts ++ [(pn, wOf pn)] } (i + 1)
      (by simp only [List.length_set]; exact hT) (by simp only [List.length_set]; exact hL)
      (by simp only [List.length_set]; exact hW) (by simp only []; omega)
      (by
        intro e he1 he2
        simp only []
        rw [List.getElem?_set_ne (by omega)]
        exact hlocks e (by omega) (by simp only [List.length_cons]; omega))
      (by
        intro j q hj
        have := hpad (j + 1) q (by simpa using hj)
        rw [padValid_congr (s := cur) rfl]
        rw [show i + 1 + j = i + (j + 1) from by omega]
        exact this)
    refine ⟨s', h1, ?_, ?_, ?_, h5, h6, h7, ?_, ?_⟩
    · refine SameScalars.trans ?_ h2
      rfl
    · rw [h3]; simp
    · rw [h4]; simp
    · intro e he
      obtain ⟨a1, a2, a3⟩ := h8 e (by simp only [List.length_cons] at he; omega)
      simp only [List.length_cons] at he
      refine ⟨?_, ?_, ?_⟩
      · rw [a1]; simp only []; rw [List.getElem?_set_ne (by omega)]
      · rw [a2]; simp only []; rw [List.getElem?_set_ne (by omega)]
      · rw [a3]; simp only []; rw [List.getElem?_set_ne (by omega)]
    · intro j q hj
      cases j with
      | zero =>
        simp only [List.getElem?_cons_zero, Option.some.injEq] at hj
        subst hj
        obtain ⟨a1, a2, a3⟩ := h8 (i + 1) (Or.inl (Nat.le_refl _))
        simp only [Nat.add_zero]
        refine ⟨?_, ?_, ?_⟩
        · rw [a1]; simp only []; rw [List.getElem?_set_self (by rw [hW]; omega)]
        · rw [a2]; simp only []; rw [List.getElem?_set_self (by rw [hT]; omega)]
        · rw [a3]; simp only []; rw [List.getElem?_set_self (by rw [hL]; omega)]
      | succ j =>
        have := h9 j q (by simpa using hj)
        rw [padValid_congr (s := cur) rfl] at this
        rw [show i + 1 + j + 1 = i + (j + 1) + 1 from by omega, show i + 1 + j = i + (j + 1) from by omega] at this
        exact this

end Infretis.Repex
