import Infretis.Lemmas.RepexC06Obs
/-
C06, part 2: every operation of the state machine respects `ObsR`.
-/
namespace Infretis.Repex
open Infretis.Perm

variable {p : Prop} {ra rb : List Row} {a b : St}

theorem swap_rel (h : ObsR p ra rb a b) (t e : Nat) : ObsR p ra rb (swap a t e) (swap b t e) :=
  { h with W := by simp only [swap]; rw [h.W], trajs := by simp only [swap]; rw [h.trajs] }

theorem lock_rel (h : ObsR p ra rb a b) (e : Nat) : RelE (ObsR p ra rb) (lock a e) (lock b e) := by
  unfold lock
  rw [h.locks]
  cases hb : b.locks[e]? with
  | none => simp [RelE]
  | some v =>
    cases v
    · simp only [RelE]
      exact { h with locks := by simp only [] }
    · simp [RelE]

theorem unlock_rel (h : ObsR p ra rb a b) (e : Nat) : RelE (ObsR p ra rb) (unlock a e) (unlock b e) := by
  unfold unlock
  rw [h.locks]
  cases hb : b.locks[e]? with
  | none => simp [RelE]
  | some v =>
    cases v
    · simp [RelE]
    · simp only [RelE]
      exact { h with locks := by simp only [] }

theorem prob_eq (h : ObsR p ra rb a b) : prob a = prob b := by
  unfold prob; rw [h.W, h.locks]

theorem lockedPaths_eq (h : ObsR p ra rb a b) : lockedPaths a = lockedPaths b := by
  unfold lockedPaths; rw [h.trajs, h.locks]

theorem livePaths_eq (h : ObsR p ra rb a b) : livePaths a = livePaths b := by
  unfold livePaths; rw [h.trajs]


/-- relation on results that carry a state first and plain data after it -/
def RS (p : Prop) (ra rb : List Row) {β : Type} (x y : St × β) : Prop := ObsR p ra rb x.1 y.1 ∧ x.2 = y.2

theorem pickCore_rel (h : ObsR p ra rb a b) (o : PickOutcome) :
    RelE (RS p ra rb) (pickCore a o) (pickCore b o) := by
  unfold pickCore
  simp only []
  rw [prob_eq h]
  by_cases hc : 0 < entryM (prob b) o.t o.e
  · simp only [hc, not_true_eq_false, if_false]
    have h1 := lock_rel (swap_rel h o.t o.e) o.e
    cases ha : lock (swap a o.t o.e) o.e with
    | error e => rw [ha] at h1; rw [h1.error_left]; simp [RelE]
    | ok a2 =>
      rw [ha] at h1
      obtain ⟨b2, hb, h2⟩ := h1.ok_left
      rw [hb]
      simp only []
      rw [h2.trajs, h2.locks, prob_eq h2]
      generalize (if o.e == off then off - 1 else off) = other
      split
      · split
        · simp [RelE]
        · have h3 := lock_rel (swap_rel h2 o.partner other) other
          cases ha3 : lock (swap a2 o.partner other) other with
          | error e => rw [ha3] at h3; rw [h3.error_left]; simp [RelE]
          | ok a4 =>
            rw [ha3] at h3
            obtain ⟨b4, hb4, h4⟩ := h3.ok_left
            rw [hb4]
            simp only [RelE, RS]
            rw [h4.trajs]
            exact ⟨h4, rfl⟩
      · simp only [RelE, RS, and_true]
        exact h2
  · simp [hc, RelE]


theorem mkPicked_eq (h : ObsR p ra rb a b) (pairs : List (Int × Option Nat)) : mkPicked a pairs = mkPicked b pairs := by
  unfold mkPicked mainStream
  rw [h.entropy, h.spawned]

theorem pick_rel (h : ObsR p ra rb a b) (o : PickOutcome) : RelE (RS p ra rb) (pick a o) (pick b o) := by
  unfold pick
  have h1 := pickCore_rel h o
  cases ha : pickCore a o with
  | error e => rw [ha] at h1; rw [h1.error_left]; simp [RelE]
  | ok ra1 =>
    rw [ha] at h1
    obtain ⟨rb1, hb, h2, h2'⟩ := h1.ok_left
    rw [hb]
    obtain ⟨a1, pairs, ds⟩ := ra1
    obtain ⟨b1, pairs', ds'⟩ := rb1
    simp only [Prod.mk.injEq] at h2'
    obtain ⟨rfl, rfl⟩ := h2'
    simp only [] at h2 ⊢
    rw [mkPicked_eq h2]
    cases hm : mkPicked b1 pairs with
    | error e => simp [RelE]
    | ok ps =>
      simp only [RelE, RS, and_true]
      exact { h2 with locked := by simp only []; rw [h2.locked], spawned := by simp only []; rw [h2.spawned],
                      mainDraws := by simp only []; rw [h2.mainDraws] }


theorem ObsR.strengthen (h : ObsR False ra rb a b) (ht : a.toinitiate = b.toinitiate) (ho : a.occ = b.occ) :
    ObsR True ra rb a b :=
  { h with toinitiate := fun _ => ht, occ := fun _ => ho }

/-- the part of `prep_md_items` after the pick: pin, engines, the job record -/
def prepTail (s1 : St) (ps : List Picked) (ds : List Draw) (pin? : Option Nat) : Except Err (St × Job × List Draw) :=
  match pin? with
  | none => .error .key
  | some pin =>
    let engNames := dedup ((ps.map (fun p => s1.ensEng.getD (p.ens + 1).toNat [])).flatten)
    match assignEngines s1.occ engNames pin with
    | .error er => .error er
    | .ok (occ', idx) =>
      let missing := ps.any (fun p => (s1.ensEng.getD (p.ens + 1).toNat []).any
                                (fun k => (idx.lookup k).isNone))
      if missing then .error .key else
      let ps' := ps.map (fun p => { p with engIdx :=
          (s1.ensEng.getD (p.ens + 1).toNat []).map (fun k => (k, (idx.lookup k).getD 0)) })
      .ok ({ s1 with occ := occ' },
           { pin := pin, wfolder := pin, picked := ps', pnumOld := ps'.map (·.pn) }, ds)

theorem prep_eq_tail (s : St) (prev : Option Nat) (o : PickOutcome) (sv : Nat) :
    prep s prev o sv =
      match (if s.toinitiate ≥ 0 then pickLock s o sv else pick s o) with
      | .error er => .error er
      | .ok (s1, ps, ds) => prepTail s1 ps ds (if s.toinitiate ≥ 0 then some s.cworker else prev) := by
  unfold prep prepTail
  rfl

/-- relation after `prepTail`: observational equality except `toinitiate`, which both sides keep -/
def RT (ra rb : List Row) (a1 b1 : St) (x y : St × Job × List Draw) : Prop :=
  ObsR False ra rb x.1 y.1 ∧ x.1.occ = y.1.occ ∧ x.1.toinitiate = a1.toinitiate ∧ y.1.toinitiate = b1.toinitiate ∧
    x.1.cworker = a1.cworker ∧ y.1.cworker = b1.cworker ∧ x.2 = y.2

theorem prepTail_rel {a1 b1 : St} (h : ObsR False ra rb a1 b1)
    (hocc : ∀ names pin, assignEngines a1.occ names pin = assignEngines b1.occ names pin)
    (ps : List Picked) (ds : List Draw) (pin? : Option Nat) :
    RelE (RT ra rb a1 b1) (prepTail a1 ps ds pin?) (prepTail b1 ps ds pin?) := by
  unfold prepTail
  cases pin? with
  | none => simp [RelE]
  | some pin =>
    simp only []
    rw [h.ensEng, hocc]
    cases hae : assignEngines b1.occ (dedup ((ps.map (fun p => b1.ensEng.getD (p.ens + 1).toNat [])).flatten)) pin with
    | error e => simp [RelE]
    | ok r =>
      obtain ⟨occ', idx⟩ := r
      simp only []
      split
      · simp [RelE]
      · simp only [RelE, RT, and_true]
        exact { h with ensEng := rfl, occ := fun _ => rfl }


theorem addTraj_rel (h : ObsR p ra rb a b) (ens : Int) (pn : Nat) (valid : List Rat) :
    RelE (ObsR p ra rb) (addTraj a ens pn valid) (addTraj b ens pn valid) := by
  unfold addTraj
  have hv : padValid a ens valid = padValid b ens valid := by unfold padValid; rw [h.n]
  simp only []
  rw [hv, h.n, h.trajs, h.W]
  generalize padValid b ens valid = v
  split
  · simp [RelE]
  · split
    · simp [RelE]
    · split
      · simp [RelE]
      · split
        · simp [RelE]
        · exact unlock_rel { h with trajs := rfl, W := rfl } _

end Infretis.Repex
