import Infretis.Lemmas.RepexC06Obs
/-
C06, part 2: every operation of the state machine respects `ObsR`.
-/
namespace Infretis.Repex
open Infretis.Perm

variable {p : Prop} {t0 : Int} {ra rb : List Row} {a b : St}

theorem swap_rel (h : ObsR p t0 ra rb a b) (t e : Nat) : ObsR p t0 ra rb (swap a t e) (swap b t e) :=
  { h with W := by simp only [swap]; rw [h.W], trajs := by simp only [swap]; rw [h.trajs] }

theorem lock_rel (h : ObsR p t0 ra rb a b) (e : Nat) : RelE (ObsR p t0 ra rb) (lock a e) (lock b e) := by
  unfold lock
  rw [h.locks]
  cases hb : b.locks[e]? with
  | none => simp [RelE]
  | some v =>
    cases v
    · simp only [RelE]
      exact { h with locks := by simp only [] }
    · simp [RelE]

theorem unlock_rel (h : ObsR p t0 ra rb a b) (e : Nat) : RelE (ObsR p t0 ra rb) (unlock a e) (unlock b e) := by
  unfold unlock
  rw [h.locks]
  cases hb : b.locks[e]? with
  | none => simp [RelE]
  | some v =>
    cases v
    · simp [RelE]
    · simp only [RelE]
      exact { h with locks := by simp only [] }

theorem prob_eq (h : ObsR p t0 ra rb a b) : prob a = prob b := by
  unfold prob; rw [h.W, h.locks]

theorem lockedPaths_eq (h : ObsR p t0 ra rb a b) : lockedPaths a = lockedPaths b := by
  unfold lockedPaths; rw [h.trajs, h.locks]

theorem livePaths_eq (h : ObsR p t0 ra rb a b) : livePaths a = livePaths b := by
  unfold livePaths; rw [h.trajs]


/-- relation on results that carry a state first and plain data after it -/
def RS (p : Prop) (t0 : Int) (ra rb : List Row) {β : Type} (x y : St × β) : Prop := ObsR p t0 ra rb x.1 y.1 ∧ x.2 = y.2

theorem pickCore_rel (h : ObsR p t0 ra rb a b) (o : PickOutcome) :
    RelE (RS p t0 ra rb) (pickCore a o) (pickCore b o) := by
  unfold pickCore
  simp only []
  rw [prob_eq h]
  by_cases hc : 0 < entryM (prob b) o.t o.e
  · simp only [hc, not_true_eq_false, if_false]
    have h1 := lock_rel (swap_rel h o.t o.e) o.e
    cases ha : lock (swap a o.t o.e) o.e with
    | error e => rw [ha] at h1; rw [h1.error_left]; simp [RelE]
    | ok a2 =>
      rw [ha] at h1
      obtain ⟨b2, hb, h2⟩ := h1.ok_left
      rw [hb]
      simp only []
      rw [h2.trajs, h2.locks, prob_eq h2]
      generalize (if o.e == off then off - 1 else off) = other
      split
      · split
        · simp [RelE]
        · have h3 := lock_rel (swap_rel h2 o.partner other) other
          cases ha3 : lock (swap a2 o.partner other) other with
          | error e => rw [ha3] at h3; rw [h3.error_left]; simp [RelE]
          | ok a4 =>
            rw [ha3] at h3
            obtain ⟨b4, hb4, h4⟩ := h3.ok_left
            rw [hb4]
            simp only [RelE, RS]
            rw [h4.trajs]
            exact ⟨h4, rfl⟩
      · simp only [RelE, RS, and_true]
        exact h2
  · simp [hc, RelE]


theorem mkPicked_eq (h : ObsR p t0 ra rb a b) (pairs : List (Int × Option Nat)) : mkPicked a pairs = mkPicked b pairs := by
  unfold mkPicked mainStream
  rw [h.entropy, h.spawned]

theorem pick_rel (h : ObsR p t0 ra rb a b) (o : PickOutcome) : RelE (RS p t0 ra rb) (pick a o) (pick b o) := by
  unfold pick
  have h1 := pickCore_rel h o
  cases ha : pickCore a o with
  | error e => rw [ha] at h1; rw [h1.error_left]; simp [RelE]
  | ok ra1 =>
    rw [ha] at h1
    obtain ⟨rb1, hb, h2, h2'⟩ := h1.ok_left
    rw [hb]
    obtain ⟨a1, pairs, ds⟩ := ra1
    obtain ⟨b1, pairs', ds'⟩ := rb1
    simp only [Prod.mk.injEq] at h2'
    obtain ⟨rfl, rfl⟩ := h2'
    simp only [] at h2 ⊢
    rw [mkPicked_eq h2]
    cases hm : mkPicked b1 pairs with
    | error e => simp [RelE]
    | ok ps =>
      simp only [RelE, RS, and_true]
      exact { h2 with locked := by simp only []; rw [h2.locked], spawned := by simp only []; rw [h2.spawned],
                      lockedOrd := by simp only []; rw [h2.lockedOrd, h2.spawned],
                      mainDraws := by simp only []; rw [h2.mainDraws] }


theorem ObsR.strengthen {t1 : Int} (h : ObsR False t0 ra rb a b) (ht : a.toinitiate = t1) (ht' : b.toinitiate = t1)
    (ho : a.occ = b.occ) :
    ObsR True t1 ra rb a b :=
  { h with toinitiate := fun _ => ⟨ht, ht'⟩, occ := fun _ => ho }

/-- the part of `prep_md_items` after the pick: pin, engines, the job record -/
def prepTail (s1 : St) (ps : List Picked) (ds : List Draw) (pin? : Option Nat) : Except Err (St × Job × List Draw) :=
  match pin? with
  | none => .error .key
  | some pin =>
    let engNames := dedup ((ps.map (fun p => s1.ensEng.getD (p.ens + 1).toNat [])).flatten)
    match assignEngines s1.occ engNames pin with
    | .error er => .error er
    | .ok (occ', idx) =>
      let missing := ps.any (fun p => (s1.ensEng.getD (p.ens + 1).toNat []).any
                                (fun k => (idx.lookup k).isNone))
      if missing then .error .key else
      let ps' := ps.map (fun p => { p with engIdx :=
          (s1.ensEng.getD (p.ens + 1).toNat []).map (fun k => (k, (idx.lookup k).getD 0)) })
      .ok ({ s1 with occ := occ' },
           { pin := pin, wfolder := pin, picked := ps', pnumOld := ps'.map (·.pn) }, ds)

theorem prep_eq_tail (s : St) (prev : Option Nat) (o : PickOutcome) (sv : Nat) :
    prep s prev o sv =
      match (if s.toinitiate ≥ 0 then pickLock s o sv else pick s o) with
      | .error er => .error er
      | .ok (s1, ps, ds) => prepTail s1 ps ds (if s.toinitiate ≥ 0 then some s.cworker else prev) := by
  unfold prep prepTail
  rfl

/-- relation after `prepTail`: observational equality except `toinitiate`, which both sides keep -/
def RT (t0 : Int) (ra rb : List Row) (a1 b1 : St) (x y : St × Job × List Draw) : Prop :=
  ObsR False t0 ra rb x.1 y.1 ∧ x.1.occ = y.1.occ ∧ x.1.toinitiate = a1.toinitiate ∧ y.1.toinitiate = b1.toinitiate ∧
    x.1.cworker = a1.cworker ∧ y.1.cworker = b1.cworker ∧ x.2 = y.2

theorem prepTail_rel {a1 b1 : St} (h : ObsR False t0 ra rb a1 b1)
    (ps : List Picked) (ds : List Draw) (pin? : Option Nat)
    (hocc : ∀ pin, pin? = some pin → ∀ names, assignEngines a1.occ names pin = assignEngines b1.occ names pin) :
    RelE (RT t0 ra rb a1 b1) (prepTail a1 ps ds pin?) (prepTail b1 ps ds pin?) := by
  unfold prepTail
  cases pin? with
  | none => simp [RelE]
  | some pin =>
    simp only []
    rw [h.ensEng, hocc pin rfl]
    cases hae : assignEngines b1.occ (dedup ((ps.map (fun p => b1.ensEng.getD (p.ens + 1).toNat [])).flatten)) pin with
    | error e => simp [RelE]
    | ok r =>
      obtain ⟨occ', idx⟩ := r
      simp only []
      split
      · simp [RelE]
      · simp only [RelE, RT, and_true]
        exact { h with ensEng := rfl, occ := fun _ => rfl }


theorem addTraj_rel (h : ObsR p t0 ra rb a b) (ens : Int) (pn : Nat) (valid : List Rat) :
    RelE (ObsR p t0 ra rb) (addTraj a ens pn valid) (addTraj b ens pn valid) := by
  unfold addTraj
  have hv : padValid a ens valid = padValid b ens valid := by unfold padValid; rw [h.n]
  simp only []
  rw [hv, h.n, h.trajs, h.W]
  generalize padValid b ens valid = v
  split
  · simp [RelE]
  · split
    · simp [RelE]
    · split
      · simp [RelE]
      · split
        · simp [RelE]
        · apply unlock_rel
          exact { h with trajs := rfl, W := rfl, n := rfl }


theorem perEns_rel (status : Status) : ∀ (l : List (Picked × List Rat)) (tn : Nat) {a b : St},
    ObsR p t0 ra rb a b → RelE (RS p t0 ra rb) (treatOutput.perEns status a tn l) (treatOutput.perEns status b tn l) := by
  intro l
  induction l with
  | nil => intro tn a b h; simp only [treatOutput.perEns, RelE, RS, and_true]; exact h
  | cons hd tl ih =>
    intro tn a b h
    obtain ⟨pk, w⟩ := hd
    simp only [treatOutput.perEns]
    have h1 : ObsR p t0 ra rb
        { a with locked := popLocked pk.pn a.locked.length 0 a.locked,
                 lockedOrd := popLockedOrd pk.pn a.locked.length 0 a.locked a.lockedOrd }
        { b with locked := popLocked pk.pn b.locked.length 0 b.locked,
                 lockedOrd := popLockedOrd pk.pn b.locked.length 0 b.locked b.lockedOrd } :=
      { h with locked := by simp only []; rw [h.locked],
               lockedOrd := by simp only []; rw [h.locked, h.lockedOrd] }
    split
    · -- accepted
      have h2 : ObsR p t0 ra rb
          { a with locked := popLocked pk.pn a.locked.length 0 a.locked,
                   lockedOrd := popLockedOrd pk.pn a.locked.length 0 a.locked a.lockedOrd,
                   frac := a.frac ++ [(tn, List.replicate a.n 0)], wts := a.wts ++ [(tn, w)] }
          { b with locked := popLocked pk.pn b.locked.length 0 b.locked,
                   lockedOrd := popLockedOrd pk.pn b.locked.length 0 b.locked b.lockedOrd,
                   frac := b.frac ++ [(tn, List.replicate b.n 0)], wts := b.wts ++ [(tn, w)] } :=
        { h with locked := by simp only []; rw [h.locked],
                 lockedOrd := by simp only []; rw [h.locked, h.lockedOrd],
                 frac := by simp only []; rw [h.n]; exact h.frac.append _ _, wts := h.wts.append _ _ }
      have h3 := addTraj_rel h2 pk.ens tn w
      cases ha : addTraj _ pk.ens tn w with
      | error e => rw [ha] at h3; rw [h3.error_left]; simp [RelE]
      | ok a3 =>
        rw [ha] at h3
        obtain ⟨b3, hb, h4⟩ := h3.ok_left
        rw [hb]
        simp only []
        have h5 := ih (tn + 1) h4
        cases ha5 : treatOutput.perEns status a3 (tn + 1) tl with
        | error e => rw [ha5] at h5; rw [h5.error_left]; simp [RelE]
        | ok r =>
          rw [ha5] at h5
          obtain ⟨r', hb5, h6, h6'⟩ := h5.ok_left
          rw [hb5]
          obtain ⟨a4, tn', pns⟩ := r
          obtain ⟨b4, tn'', pns'⟩ := r'
          simp only [Prod.mk.injEq] at h6'
          obtain ⟨rfl, rfl⟩ := h6'
          simp only [RelE, RS, and_true]
          exact h6
    · -- rejected
      rw [h.wts pk.pn]
      cases hw : b.wts.lookup pk.pn with
      | none => simp [RelE]
      | some wOld =>
        simp only []
        have h3 := addTraj_rel h1 pk.ens pk.pn wOld
        cases ha : addTraj _ pk.ens pk.pn wOld with
        | error e => rw [ha] at h3; rw [h3.error_left]; simp [RelE]
        | ok a3 =>
          rw [ha] at h3
          obtain ⟨b3, hb, h4⟩ := h3.ok_left
          rw [hb]
          simp only []
          have h5 := ih tn h4
          cases ha5 : treatOutput.perEns status a3 tn tl with
          | error e => rw [ha5] at h5; rw [h5.error_left]; simp [RelE]
          | ok r =>
            rw [ha5] at h5
            obtain ⟨r', hb5, h6, h6'⟩ := h5.ok_left
            rw [hb5]
            obtain ⟨a4, tn', pns⟩ := r
            obtain ⟨b4, tn'', pns'⟩ := r'
            simp only [Prod.mk.injEq] at h6'
            obtain ⟨rfl, rfl⟩ := h6'
            simp only [RelE, RS, and_true]
            exact h6


theorem recordFrac_go_rel (lp : List (Option Nat)) (P : Mat) : ∀ (l : List (Nat × Option Nat)) {f g : AL},
    FEq f g → RelE FEq (recordFrac.go lp P f l) (recordFrac.go lp P g l) := by
  intro l
  induction l with
  | nil => intro f g h; simpa [recordFrac.go, RelE] using h
  | cons hd tl ih =>
    intro f g h
    obtain ⟨idx, live⟩ := hd
    simp only [recordFrac.go]
    split
    · exact ih h
    · cases live with
      | none => simp [RelE]
      | some pn =>
        simp only []
        have h1 := updFrac_rel h pn (P.getD idx [])
        cases hu : updFrac f pn (P.getD idx []) with
        | error e => rw [hu] at h1; rw [h1.error_left]; simp [RelE]
        | ok f' =>
          rw [hu] at h1
          obtain ⟨g', hg, h2⟩ := h1.ok_left
          rw [hg]
          exact ih h2

theorem recordFrac_rel (h : ObsR p t0 ra rb a b) : RelE (ObsR p t0 ra rb) (recordFrac a) (recordFrac b) := by
  unfold recordFrac
  simp only []
  rw [lockedPaths_eq h, prob_eq h, livePaths_eq h]
  have h1 := recordFrac_go_rel (lockedPaths b) (prob b) ((List.range (livePaths b).length).zip (livePaths b)) h.frac
  cases hu : recordFrac.go (lockedPaths b) (prob b) a.frac ((List.range (livePaths b).length).zip (livePaths b)) with
  | error e => rw [hu] at h1; rw [h1.error_left]; simp [RelE]
  | ok f' =>
    rw [hu] at h1
    obtain ⟨g', hg, h2⟩ := h1.ok_left
    rw [hg]
    simp only [RelE]
    exact { h with frac := h2 }

theorem writeRows_rel : ∀ (pns : List Nat) {a b : St}, ObsR p t0 ra rb a b →
    RelE (ObsR p t0 ra rb) (writeRows a pns) (writeRows b pns) := by
  intro pns
  induction pns with
  | nil => intro a b h; simpa [writeRows, RelE] using h
  | cons pn tl ih =>
    intro a b h
    simp only [writeRows]
    rw [h.frac pn, h.wts pn]
    cases hf : b.frac.lookup pn with
    | none => simp [RelE]
    | some f =>
      cases hw : b.wts.lookup pn with
      | none => simp [RelE]
      | some w =>
        simp only []
        apply ih
        obtain ⟨r, hra, hrb⟩ := h.rows
        exact { h with frac := h.frac.filter pn, wts := h.wts.filter pn,
                       rows := ⟨r ++ [(pn, f, w)], by simp only []; rw [hra, List.append_assoc],
                                by simp only []; rw [hrb, List.append_assoc]⟩ }

theorem sortStep_rel (h : ObsR True t0 ra rb a b) :
    RelE (fun x y => match x, y with
                     | none, none => True
                     | some x, some y => ObsR True t0 ra rb x y
                     | _, _ => False) (sortStep a) (sortStep b) := by
  unfold sortStep needsToMove
  simp only []
  rw [lockedPaths_eq h, h.n, h.W, (h.toinitiate trivial).1, (h.toinitiate trivial).2, h.trajs]
  split
  · simp [RelE]
  · split
    · simp [RelE]
    · split
      · simp [RelE]
      · simp only [RelE]
        exact swap_rel h _ _

theorem sortTrajstate_rel : ∀ (fuel : Nat) {a b : St}, ObsR True t0 ra rb a b →
    RelE (RS True t0 ra rb) (sortTrajstate fuel a) (sortTrajstate fuel b) := by
  intro fuel
  induction fuel with
  | zero => intro a b h; simp [sortTrajstate, RelE]
  | succ k ih =>
    intro a b h
    simp only [sortTrajstate]
    have h1 := sortStep_rel h
    cases ha : sortStep a with
    | error e => rw [ha] at h1; rw [h1.error_left]; simp [RelE]
    | ok oa =>
      rw [ha] at h1
      obtain ⟨ob, hb, h2⟩ := h1.ok_left
      rw [hb]
      cases oa with
      | none =>
        cases ob with
        | none => simp only [RelE, RS, and_true]; exact h
        | some _ => exact h2.elim
      | some a' =>
        cases ob with
        | none => exact h2.elim
        | some b' =>
          simp only []
          have h3 := ih (a := a') (b := b') h2
          cases ha3 : sortTrajstate k a' with
          | error e => rw [ha3] at h3; rw [h3.error_left]; simp [RelE]
          | ok r =>
            rw [ha3] at h3
            obtain ⟨r', hb3, h4, h4'⟩ := h3.ok_left
            rw [hb3]
            obtain ⟨a4, it⟩ := r
            obtain ⟨b4, it'⟩ := r'
            simp only [] at h4'
            subst h4'
            simp only [RelE, RS, and_true]
            exact h4


theorem treatOutput_rel (h : ObsR True t0 ra rb a b) (job : Job) (status : Status) (newW : List (List Rat)) (fuel : Nat) :
    RelE (RS True t0 ra rb) (treatOutput a job status newW fuel) (treatOutput b job status newW fuel) := by
  unfold treatOutput
  simp only []
  generalize (if status = .acc then newW else job.picked.map (fun _ => [])) = ws
  split
  · simp [RelE]
  · rw [h.trajNum]
    have h1 := perEns_rel status (job.picked.zip ws) b.trajNum h
    cases ha1 : treatOutput.perEns status a b.trajNum (job.picked.zip ws) with
    | error e => rw [ha1] at h1; rw [h1.error_left]; simp [RelE]
    | ok r1 =>
      rw [ha1] at h1
      obtain ⟨r1', hb1, h2, h2'⟩ := h1.ok_left
      rw [hb1]
      obtain ⟨a1, tn, pns⟩ := r1
      obtain ⟨b1, tn', pns'⟩ := r1'
      simp only [Prod.mk.injEq] at h2'
      obtain ⟨rfl, rfl⟩ := h2'
      simp only [] at h2 ⊢
      have h3 := recordFrac_rel h2
      cases ha2 : recordFrac a1 with
      | error e => rw [ha2] at h3; rw [h3.error_left]; simp [RelE]
      | ok a2 =>
        rw [ha2] at h3
        obtain ⟨b2, hb2, h4⟩ := h3.ok_left
        rw [hb2]
        simp only []
        have h5 : RelE (ObsR True t0 ra rb) (if status = .acc then writeRows a2 job.pnumOld else .ok a2)
            (if status = .acc then writeRows b2 job.pnumOld else .ok b2) := by
          split
          · exact writeRows_rel _ h4
          · exact h4
        cases ha3 : (if status = .acc then writeRows a2 job.pnumOld else Except.ok a2) with
        | error e => rw [ha3] at h5; rw [h5.error_left]; simp [RelE]
        | ok a3 =>
          rw [ha3] at h5
          obtain ⟨b3, hb3, h6⟩ := h5.ok_left
          rw [hb3]
          simp only []
          have h7 := sortTrajstate_rel fuel h6
          cases ha4 : sortTrajstate fuel a3 with
          | error e => rw [ha4] at h7; rw [h7.error_left]; simp [RelE]
          | ok r4 =>
            rw [ha4] at h7
            obtain ⟨r4', hb4, h8, h8'⟩ := h7.ok_left
            rw [hb4]
            obtain ⟨a4, it⟩ := r4
            obtain ⟨b4, it'⟩ := r4'
            simp only [] at h8'
            subst h8'
            simp only [RelE, RS, and_true]
            exact { h8 with trajNum := rfl }

theorem loop_rel (h : ObsR p t0 ra rb a b) : ObsR p t0 ra rb (loop a).1 (loop b).1 ∧ (loop a).2 = (loop b).2 := by
  unfold loop
  rw [h.cstep, h.tsteps]
  split
  · exact ⟨h, rfl⟩
  · exact ⟨{ h with cstep := rfl, tsteps := rfl }, rfl⟩


theorem prepTail_rel_strict {a1 b1 : St} (h : ObsR True t0 ra rb a1 b1)
    (ps : List Picked) (ds : List Draw) (pin? : Option Nat) :
    RelE (RS True t0 ra rb) (prepTail a1 ps ds pin?) (prepTail b1 ps ds pin?) := by
  have h1 := prepTail_rel (h.weaken (p := False)) ps ds pin? (fun pin _ names => by rw [h.occ trivial])
  cases ha : prepTail a1 ps ds pin? with
  | error e => rw [ha] at h1; rw [h1.error_left]; simp [RelE]
  | ok r =>
    rw [ha] at h1
    obtain ⟨r', hb, h2, ho, hta, htb, _, _, hj⟩ := h1.ok_left
    rw [hb]
    simp only [RelE, RS]
    exact ⟨h2.strengthen (hta.trans (h.toinitiate trivial).1) (htb.trans (h.toinitiate trivial).2) ho, hj⟩

/-- `prep_md_items` once the initiation is closed (`toinitiate = -1`): the plain `pick` branch -/
theorem prep_closed_rel (h : ObsR True t0 ra rb a b) (ht : t0 < 0) (prev : Option Nat) (o : PickOutcome) (sv : Nat) :
    RelE (RS True t0 ra rb) (prep a prev o sv) (prep b prev o sv) := by
  rw [prep_eq_tail, prep_eq_tail]
  have hta : ¬ a.toinitiate ≥ 0 := by rw [(h.toinitiate trivial).1]; omega
  have htb : ¬ b.toinitiate ≥ 0 := by rw [(h.toinitiate trivial).2]; omega
  simp only [hta, htb, if_false]
  have h1 := pick_rel h o
  cases ha : pick a o with
  | error e => rw [ha] at h1; rw [h1.error_left]; simp [RelE]
  | ok r =>
    rw [ha] at h1
    obtain ⟨r', hb, h2, h2'⟩ := h1.ok_left
    rw [hb]
    obtain ⟨a1, ps, ds⟩ := r
    obtain ⟨b1, ps', ds'⟩ := r'
    simp only [Prod.mk.injEq] at h2'
    obtain ⟨rfl, rfl⟩ := h2'
    exact prepTail_rel_strict h2 ps ds prev

/-- two scheduler states: related samplers, the same jobs in flight -/
def RY (t0 : Int) (ra rb : List Row) (x y : Sys) : Prop := ObsR True t0 ra rb x.s y.s ∧ x.jobs = y.jobs

theorem sysStep_step_rel {x y : Sys} (h : RY t0 ra rb x y) (ht : t0 < 0)
    (k : Nat) (status : Status) (newW : List (List Rat)) (o : PickOutcome) :
    RelE (RY t0 ra rb) (sysStep x (.step k status newW o)) (sysStep y (.step k status newW o)) := by
  obtain ⟨hs, hj⟩ := h
  simp only [sysStep]
  obtain ⟨hl, hgo⟩ := loop_rel hs
  rw [hgo, hj]
  split
  · simp [RelE]
  · cases hk : y.jobs[k]? with
    | none => simp [RelE]
    | some job =>
      simp only []
      have hf : sortFuel (loop x.s).1 = sortFuel (loop y.s).1 := by unfold sortFuel; rw [hl.n]
      rw [hf]
      have h1 := treatOutput_rel hl job status newW (sortFuel (loop y.s).1)
      cases ha : treatOutput (loop x.s).1 job status newW (sortFuel (loop y.s).1) with
      | error e => rw [ha] at h1; rw [h1.error_left]; simp [RelE]
      | ok r =>
        rw [ha] at h1
        obtain ⟨r', hb, h2, _⟩ := h1.ok_left
        rw [hb]
        obtain ⟨a2, pns, it⟩ := r
        obtain ⟨b2, pns', it'⟩ := r'
        simp only [] at h2 ⊢
        rw [h2.cstep, h2.workers, h2.tsteps]
        split
        · have h3 := prep_closed_rel h2 ht (some job.pin) o 0
          cases ha3 : prep a2 (some job.pin) o with
          | error e => rw [ha3] at h3; rw [h3.error_left]; simp [RelE]
          | ok r3 =>
            rw [ha3] at h3
            obtain ⟨r3', hb3, h4, h4'⟩ := h3.ok_left
            rw [hb3]
            obtain ⟨a3, job3, ds⟩ := r3
            obtain ⟨b3, job3', ds'⟩ := r3'
            simp only [Prod.mk.injEq] at h4'
            obtain ⟨rfl, rfl⟩ := h4'
            simp only [RelE, RY, and_true]
            exact h4
        · simp only [RelE, RY, and_true]
          exact h2

/-- a whole run of `.step` events -/
def StepsOnly : List Ev → Prop
  | [] => True
  | .step _ _ _ _ :: rest => StepsOnly rest
  | _ :: _ => False

theorem run_steps_rel : ∀ (evs : List Ev) {x y : Sys}, StepsOnly evs → RY t0 ra rb x y → t0 < 0 →
    RelE (RY t0 ra rb) (run x evs) (run y evs) := by
  intro evs
  induction evs with
  | nil => intro x y _ h _; simpa [run, RelE] using h
  | cons ev rest ih =>
    intro x y hs h ht
    cases ev with
    | start o sv => exact hs.elim
    | initDone => exact hs.elim
    | step k st w o =>
      simp only [run]
      have h1 := sysStep_step_rel h ht k st w o
      cases ha : sysStep x (.step k st w o) with
      | error e => rw [ha] at h1; rw [h1.error_left]; simp [RelE]
      | ok x' =>
        rw [ha] at h1
        obtain ⟨y', hb, h2⟩ := h1.ok_left
        rw [hb]
        exact ih hs h2 ht

end Infretis.Repex
