import Infretis.Lemmas.RepexC06Tidy
import Infretis.Lemmas.RepexC05Load
import Infretis.Lemmas.RepexC07Count
import Infretis.Lemmas.RepexCtr
/-
C06, part 8 (integration): `StopState` DERIVED for reachable one-worker states.
  C03  InvR / CoreR      live paths distinct and < trajNum, locks ⇔ held, shapes
  C05  Inv5 / Fam        weight table = slot rows, rows of full length; non-zero diagonal after a step (`step_preserves5`)
  C07  NInv / midState   `locked`, `lockedOrd` are the jobs in flight; spawned = cstep + |locked|
  C06  TidyY (Tidy file) ghost slot empty/zero, tables keyed by the live paths
  here One               one-worker bookkeeping (at most one job in flight, every pin 0), entropy = seed
-/
namespace Infretis.Repex
open Infretis.Perm Infretis.Perm.C05

/-! ### one-worker bookkeeping -/

structure One (y : Sys) : Prop where
  w1 : y.s.workers = 1
  pins : ∀ j ∈ y.jobs, j.pin = 0
  le : y.jobs.length ≤ 1
  init : 0 ≤ y.s.toinitiate → (y.jobs.length : Int) + y.s.toinitiate ≤ 1
  cw : y.jobs ≠ [] → y.s.toinitiate < 1

theorem prep_pin {s s' : St} {prev : Option Nat} {o : PickOutcome} {sv : Nat} {job : Job} {ds : List Draw}
    (h : prep s prev o sv = .ok (s', job, ds)) :
    some job.pin = (if s.toinitiate ≥ 0 then some s.cworker else prev) := by
  rw [prep_eq_tail] at h
  split at h
  · exact absurd h (by simp)
  · unfold prepTail at h
    split at h
    · exact absurd h (by simp)
    · rename_i pin hpin
      simp only [] at h
      split at h
      · exact absurd h (by simp)
      · split at h
        · exact absurd h (by simp)
        · simp only [Except.ok.injEq, Prod.mk.injEq] at h
          obtain ⟨_, hb, _⟩ := h
          subst hb
          exact hpin.symm

theorem ctr_eq {s s' : St} (h : ctr s' = ctr s) :
    s'.cstep = s.cstep ∧ s'.tsteps = s.tsteps ∧ s'.workers = s.workers ∧ s'.toinitiate = s.toinitiate := by
  unfold ctr at h
  simp only [Ctr.mk.injEq] at h
  exact h

theorem initiate_cases6 (s : St) :
    ((initiate s).2 = true ∧ 0 < s.toinitiate ∧ (initiate s).1.toinitiate = s.toinitiate - 1 ∧
        (initiate s).1.cworker = ((s.workers : Int) - s.toinitiate).toNat ∧ (initiate s).1.workers = s.workers) ∨
    ((initiate s).2 = false ∧ (initiate s).1.workers = s.workers ∧
        ((initiate s).1 = s ∨ (initiate s).1.toinitiate < 0)) := by
  by_cases hc : s.cstep < s.tsteps
  · by_cases hz : s.toinitiate > 0 ∧ (s.cstep : Int) + ((s.workers : Int) - s.toinitiate) ≥ (s.tsteps : Int)
    · right
      refine ⟨?_, ?_, Or.inr ?_⟩ <;> simp [initiate, hc, hz]
    · by_cases hp : 0 < s.toinitiate
      · left
        refine ⟨?_, hp, ?_, ?_, ?_⟩ <;> simp [initiate, hc, hz]
        omega
      · right
        refine ⟨?_, ?_, Or.inr ?_⟩ <;> simp [initiate, hc, hz] <;> omega
  · right
    refine ⟨?_, ?_, Or.inl ?_⟩ <;> simp [initiate, hc]

theorem sysStep_one {y y' : Sys} (ev : Ev) (hi : InvR y) (h1 : One y) (h : sysStep y ev = .ok y') : One y' := by
  cases ev with
  | start o sv =>
    simp only [sysStep] at h
    split at h
    · exact absurd h (by simp)
    · rename_i hgo
      simp only [Bool.not_eq_true, Bool.not_eq_false] at hgo
      split at h
      · exact absurd h (by simp)
      · rename_i s2 job ds hprep
        simp only [Except.ok.injEq] at h
        subst h
        rcases initiate_cases6 y.s with ⟨_, hpos, hti, hcw, hw⟩ | ⟨hf, _⟩
        · obtain ⟨_, _, c3, c4⟩ := ctr_eq (ctr_prep hprep)
          have hlen0 : y.jobs = [] := by
            have := h1.init (by omega)
            have hl : y.jobs.length = 0 := by omega
            exact List.eq_nil_of_length_eq_zero hl
          have hti1 : y.s.toinitiate = 1 := by
            have := h1.init (by omega); omega
          have hp := prep_pin hprep
          rw [if_pos (by rw [hti]; omega), hcw, h1.w1, hti1] at hp
          simp only [Option.some.injEq] at hp
          refine ⟨by rw [c3, hw]; exact h1.w1, ?_, by rw [hlen0]; simp, ?_, ?_⟩
          · intro j hj
            rw [hlen0] at hj
            simp only [List.nil_append, List.mem_singleton] at hj
            subst hj; simpa using hp
          · intro _
            rw [hlen0, c4, hti, hti1]; simp
          · intro _; rw [c4, hti, hti1]; omega
        · rw [hf] at hgo; exact absurd hgo (by simp)
  | initDone =>
    simp only [sysStep] at h
    split at h
    · exact absurd h (by simp)
    · simp only [Except.ok.injEq] at h
      subst h
      rcases initiate_cases6 y.s with ⟨_, hpos, hti, _, hw⟩ | ⟨_, hw, hs | hneg⟩
      · refine ⟨by show (initiate y.s).1.workers = 1; rw [hw]; exact h1.w1, h1.pins, h1.le, ?_, ?_⟩
        · intro h0
          show (y.jobs.length : Int) + (initiate y.s).1.toinitiate ≤ 1
          have := h1.init (by omega); rw [hti]; omega
        · intro hne
          show (initiate y.s).1.toinitiate < 1
          have := h1.cw hne; rw [hti]; omega
      · show One { s := (initiate y.s).1, jobs := y.jobs }
        rw [hs]; exact h1
      · refine ⟨by show (initiate y.s).1.workers = 1; rw [hw]; exact h1.w1, h1.pins, h1.le, ?_, ?_⟩
        · intro h0
          have h0' : 0 ≤ (initiate y.s).1.toinitiate := h0
          omega
        · intro _
          show (initiate y.s).1.toinitiate < 1
          omega
  | step k status newW o =>
    rw [sysStep_eq_halves] at h
    split at h
    · exact absurd h (by simp)
    · rename_i r hT
      -- the first half
      unfold stepTreat at hT
      obtain ⟨hle, hltn, _, _, _⟩ := loop_coreEqR y.s
      generalize hloop : loop y.s = rl at hT hle hltn
      obtain ⟨s1, go⟩ := rl
      simp only [] at hT hle hltn
      split at hT
      · exact absurd hT (by simp)
      split at hT
      · exact absurd hT (by simp)
      rename_i job hjob
      split at hT
      · exact absurd hT (by simp)
      rename_i s2 pns it htreat
      simp only [Except.ok.injEq] at hT
      subst hT
      have hl1 : s1.workers = y.s.workers ∧ s1.toinitiate = y.s.toinitiate := by
        have hl : loop y.s = (s1, go) := hloop
        unfold loop at hl
        split at hl
        · simp only [Prod.mk.injEq] at hl; rw [← hl.1]; exact ⟨rfl, rfl⟩
        · simp only [Prod.mk.injEq] at hl; rw [← hl.1]; exact ⟨rfl, rfl⟩
      obtain ⟨_, _, t3, t4⟩ := ctr_eq (ctr_treatOutput htreat)
      have hperm := held_perm_erase y.jobs k job hjob
      have hc1 : CoreR s1 (heldJob job ++ held (y.jobs.eraseIdx k)) s1.trajNum := by
        rw [hltn]; exact (hi.core.congr hle).perm hperm
      obtain ⟨_, hcw, _⟩ := treatOutput_coreR job status newW _ pns it hc1 htreat
      have hklt : k < y.jobs.length := (List.getElem?_eq_some_iff.mp hjob).1
      have hlen1 : y.jobs.length = 1 := by have := h1.le; omega
      have herase : y.jobs.eraseIdx k = [] := by
        apply List.eq_nil_of_length_eq_zero
        rw [List.length_eraseIdx_of_lt hklt]; omega
      have hpin0 : job.pin = 0 := h1.pins job (List.mem_of_getElem? hjob)
      have hne : y.jobs ≠ [] := by intro hc; rw [hc] at hklt; simp at hklt
      unfold stepPrep at h
      simp only [] at h
      split at h
      · split at h
        · exact absurd h (by simp)
        · rename_i s3 job' ds hprep
          simp only [Except.ok.injEq] at h
          subst h
          obtain ⟨_, _, c3, c4⟩ := ctr_eq (ctr_prep hprep)
          have hp := prep_pin hprep
          have hpin' : job'.pin = 0 := by
            split at hp
            · rw [hcw, hpin0] at hp; simpa using hp
            · rw [hpin0] at hp; simpa using hp
          refine ⟨by rw [c3, t3, hl1.1]; exact h1.w1, ?_, by rw [herase]; simp, ?_, ?_⟩
          · intro j hj
            rw [herase] at hj
            simp only [List.nil_append, List.mem_singleton] at hj
            subst hj; exact hpin'
          · intro h0
            rw [herase, c4, t4, hl1.2] at *
            have := h1.cw hne
            simp only [List.nil_append, List.length_singleton]
            omega
          · intro _
            rw [c4, t4, hl1.2]; exact h1.cw hne
      · simp only [Except.ok.injEq] at h
        subst h
        refine ⟨by rw [t3, hl1.1]; exact h1.w1, ?_, by rw [herase]; simp, ?_, ?_⟩
        · intro j hj; rw [herase] at hj; simp at hj
        · intro h0
          rw [herase, t4, hl1.2] at *
          have := h1.cw hne
          simp only [List.length_nil]
          omega
        · intro hc; rw [herase] at hc; exact absurd rfl hc


/-! ### entropy = seed, nothing recorded -/

structure Ent (s : St) : Prop where
  ent : s.entropy = s.seed
  l0 : s.locked0 = []
  l0o : s.locked0Ord = []

theorem prep_ent {s s' : St} {prev : Option Nat} {o : PickOutcome} {sv : Nat} {job : Job} {ds : List Draw}
    (he : Ent s) (h : prep s prev o sv = .ok (s', job, ds)) : Ent s' := by
  rw [prep_eq_tail] at h
  split at h
  · exact absurd h (by simp)
  · rename_i s1 ps ds1 hpick
    have h1 : Ent s1 := by
      have key : ∀ (sa : St), Ent sa → pick sa o = .ok (s1, ps, ds1) → Ent s1 := by
        intro sa hsa hp
        obtain ⟨iss, _, _, hl0, hl0o, _, _⟩ := pick_issue hp
        exact ⟨by rw [iss.entropy, iss.seed]; exact hsa.ent, by rw [hl0]; exact hsa.l0, by rw [hl0o]; exact hsa.l0o⟩
      split at hpick
      · unfold pickLock at hpick
        rw [he.l0] at hpick
        simp only [] at hpick
        apply key _ ?_ hpick
        unfold restoreStreamOnce
        split
        · exact ⟨he.ent, he.l0, he.l0o⟩
        · exact he
      · exact key s he hpick
    obtain ⟨⟨occ', hs'⟩, _⟩ := prepTail_ok h
    rw [hs']
    exact ⟨h1.ent, h1.l0, h1.l0o⟩

theorem sysStep_ent {y y' : Sys} (ev : Ev) (he : Ent y.s) (h : sysStep y ev = .ok y') : Ent y'.s := by
  have hinit : Ent (initiate y.s).1 := by
    obtain ⟨q, _, _⟩ := initiate_quiet y.s
    exact ⟨by rw [q.entropy, q.seed]; exact he.ent, by rw [q.locked0]; exact he.l0, by rw [q.locked0Ord]; exact he.l0o⟩
  cases ev with
  | start o sv =>
    simp only [sysStep] at h
    split at h
    · exact absurd h (by simp)
    · split at h
      · exact absurd h (by simp)
      · rename_i s2 job ds hprep
        simp only [Except.ok.injEq] at h
        subst h
        exact prep_ent hinit hprep
  | initDone =>
    simp only [sysStep] at h
    split at h
    · exact absurd h (by simp)
    · simp only [Except.ok.injEq] at h
      subst h
      exact hinit
  | step k status newW o =>
    simp only [sysStep] at h
    split at h
    · exact absurd h (by simp)
    · split at h
      · exact absurd h (by simp)
      · rename_i job hjob
        split at h
        · exact absurd h (by simp)
        · rename_i s2 pns it htreat
          have hl : Ent (loop y.s).1 := by
            unfold loop
            split
            · exact he
            · exact ⟨he.ent, he.l0, he.l0o⟩
          obtain ⟨q, _⟩ := treatOutput_quiet job status newW _ pns it htreat
          have h2 : Ent s2 :=
            ⟨by rw [q.entropy, q.seed]; exact hl.ent, by rw [q.locked0]; exact hl.l0, by rw [q.locked0Ord]; exact hl.l0o⟩
          split at h
          · split at h
            · exact absurd h (by simp)
            · rename_i s3 job' ds hprep
              simp only [Except.ok.injEq] at h
              subst h
              exact prep_ent h2 hprep
          · simp only [Except.ok.injEq] at h
            subst h
            exact h2


/-! ### the bundle carried along a one-worker history -/

structure Reach1 (y : Sys) : Prop where
  inv5 : Inv5 y
  tidy : TidyY y
  ninv : NInv y
  one : One y
  ent : Ent y.s

theorem sysStep_reach1 {y y' : Sys} (ev : Ev) (hr : Reach1 y) (hev : EvOk y ev) (h : sysStep y ev = .ok y') :
    Reach1 y' := by
  obtain ⟨oj, hj⟩ := sysStepJ_of_sys h
  exact ⟨(sysStep_preserves5 ev hr.inv5 hev h).1, sysStep_tidy ev hr.inv5.inv hr.tidy h, sysStepJ_ninv hr.ninv hj,
    sysStep_one ev hr.inv5.inv hr.one h, sysStep_ent ev hr.ent h⟩

theorem run_reach1 : ∀ (evs : List Ev) {y y' : Sys}, Reach1 y → HistOk y evs → run y evs = .ok y' → Reach1 y' := by
  intro evs
  induction evs with
  | nil => intro y y' hr _ h; simp only [run, Except.ok.injEq] at h; subst h; exact hr
  | cons ev rest ih =>
    intro y y' hr hh h
    unfold run at h
    split at h
    · exact absurd h (by simp)
    · rename_i y1 h1
      exact ih (sysStep_reach1 ev hr hh.1 h1) (hh.2 y1 h1) h

/-- a one-worker start state, fresh (`Init5`) or rebuilt from a restart image (`Init5R`) -/
structure Start1 (y : Sys) : Prop where
  s5 : Start5 y
  tidy : Tidy y.s
  w1 : y.s.workers = 1
  locked : y.s.locked = []
  lockedOrd : y.s.lockedOrd = []
  ent : Ent y.s
  sp : y.s.spawned = y.s.cstep

theorem lookup_some_of_key (l : AL) (q : Nat) (h : q ∈ l.map Prod.fst) : ∃ v, l.lookup q = some v := by
  cases hl : l.lookup q with
  | some v => exact ⟨v, rfl⟩
  | none =>
    exfalso
    induction l with
    | nil => simp at h
    | cons hd tl ih =>
      obtain ⟨k, v⟩ := hd
      simp only [List.map_cons, List.mem_cons] at h
      simp only [List.lookup_cons] at hl
      by_cases hq : q = k
      · subst hq; simp at hl
      · have hb : (q == k) = false := by simpa using hq
        rw [hb] at hl
        exact ih (h.resolve_left hq) hl

theorem Start1.init {y : Sys} (h : Start1 y) : Init y := by
  rcases h.s5 with h5 | h5
  · exact h5.init
  · have hi := h5.init
    exact ⟨hi.jobs, hi.n2, hi.lenW, hi.lenT, hi.locks, hi.live, hi.inj, h.ent.l0, hi.toinit⟩

theorem Start1.reach {y : Sys} (h : Start1 y) : Reach1 y := by
  have hi := h.init
  refine ⟨h.s5.inv5, ⟨h.tidy, by rw [hi.jobs]; intro j hj; simp at hj⟩,
    ninv_of_init hi h.locked h.lockedOrd h.sp, ?_, h.ent⟩
  refine ⟨h.w1, by rw [hi.jobs]; intro j hj; simp at hj, by rw [hi.jobs]; simp, ?_, fun hne => absurd hi.jobs hne⟩
  intro _
  rw [hi.jobs, hi.toinit, h.w1]; simp


/-! ### the stop state -/

/-- the live path numbers in slot order -/
def livePns (s : St) : List Nat := (List.range (s.n - 1)).map (fun e => ((s.trajs.getD e none).getD 0))

theorem livePns_get {s : St} {H : List (Nat × Nat)} {tn : Nat} (hc : CoreR s H tn) {e pn : Nat}
    (h : (livePns s)[e]? = some pn) : e < s.n - 1 ∧ s.trajs[e]? = some (some pn) := by
  unfold livePns at h
  rw [List.getElem?_map] at h
  have he : e < s.n - 1 := by
    by_contra hc'
    rw [List.getElem?_eq_none (by simp; omega)] at h
    simp at h
  rw [List.getElem?_range he] at h
  simp only [Option.map_some, Option.some.injEq] at h
  obtain ⟨q, hq, _⟩ := hc.live e he
  refine ⟨he, ?_⟩
  rw [hq]
  rw [List.getD_eq_getElem?_getD, hq] at h
  simp only [Option.getD_some] at h
  rw [h]

theorem livePns_mem {s : St} {H : List (Nat × Nat)} {tn : Nat} (hc : CoreR s H tn) {e q : Nat}
    (he : e < s.n - 1) (h : s.trajs[e]? = some (some q)) : q ∈ livePns s := by
  apply List.mem_iff_getElem?.mpr
  refine ⟨e, ?_⟩
  unfold livePns
  rw [List.getElem?_map, List.getElem?_range he]
  simp only [Option.map_some, Option.some.injEq]
  rw [List.getD_eq_getElem?_getD, h]
  rfl

/-- **`StopState` holds of every reachable one-worker state at the instant `treat_output` has written the restart
    file** (initiation closed).  Nothing is assumed about the state: C03 gives the slot structure, C05 the weight
    table and the sorted diagonal, C07 the record and the counters, `TidyY` the ghost slot and the table keys. -/
theorem stopState_of_reach {y y' : Sys} (hr : Reach1 y) (hti : y.s.toinitiate = -1)
    (k : Nat) (st : Status) (w : List (List Rat)) (o : PickOutcome) (hev : EvOk y (.step k st w o))
    (h : sysStep y (.step k st w o) = .ok y') {r : St × Job × List Job} (hT : stepTreat y k st w = .ok r) :
    StopState r.1 (livePns r.1) ∧ r.1.workers = 1 ∧ r.1.toinitiate = -1 ∧ r.2.1.pin = 0 ∧ r.2.2 = [] ∧
      CoreR r.1 [] r.1.trajNum ∧ Fam r.1 r.1.trajNum ∧ Tidy r.1 ∧ Ent r.1 := by
  obtain ⟨_, _, s2, job, pns, it, hjob, htreat, hc2, hf2, _, hdiag, _, _, _⟩ :=
    step_preserves5 k st w o hr.inv5 hev h
  obtain ⟨t2, hjob', hrest⟩ := stepTreat_tidy hr.inv5.inv hr.tidy hT
  -- identify the pieces of `stepTreat`
  have hT0 := hT
  unfold stepTreat at hT
  cases hl : loop y.s with
  | mk s1 go =>
  rw [hl] at hT htreat
  simp only [] at hT htreat
  split at hT
  · exact absurd hT (by simp)
  rename_i hgo
  have hgo : go = true := by simpa using hgo
  subst hgo
  rw [hjob] at hT
  simp only [htreat, Except.ok.injEq] at hT
  subst hT
  simp only [] at t2 ⊢
  have hs1 := loop_true hl
  -- one job in flight
  have hklt : k < y.jobs.length := (List.getElem?_eq_some_iff.mp hjob).1
  have hlen1 : y.jobs.length = 1 := by have := hr.one.le; omega
  have herase : y.jobs.eraseIdx k = [] := by
    apply List.eq_nil_of_length_eq_zero
    rw [List.length_eraseIdx_of_lt hklt]; omega
  rw [herase] at hc2
  have hc : CoreR s2 [] s2.trajNum := by simpa [held] using hc2
  -- the record and the counters (C07)
  have hmid : midState y k st w = .ok s2 := by
    unfold midState
    simp only [hjob]
    rw [← hs1, htreat]
  obtain ⟨hm, _, _, _⟩ := midState_inv hr.ninv hmid
  rw [herase] at hm
  obtain ⟨_, _, m2, m3, _, m5, m6, m7, _, _⟩ := midState_spec hmid
  have hlk : s2.locked = [] := by rw [hm.recd]; rfl
  have hlo : s2.lockedOrd = [] := List.eq_nil_of_length_eq_zero (by rw [hm.ordLen]; rfl)
  have hsp : s2.spawned = s2.cstep := by rw [hm.count, hlk]; simp
  have hent : Ent s2 :=
    ⟨by rw [m3, m2]; exact hr.ent.ent, by rw [m6]; exact hr.ent.l0, by rw [m7]; exact hr.ent.l0o⟩
  -- counters of the scheduler
  obtain ⟨_, _, c3, c4⟩ := ctr_eq (ctr_treatOutput htreat)
  have hw1 : s2.workers = 1 := by rw [c3, hs1]; exact hr.one.w1
  have hti2 : s2.toinitiate = -1 := by rw [c4, hs1]; exact hti
  have hghost := ghost_none_of hc t2.hasNone
  have hd := hdiag hti
  -- every real slot
  have hslot : ∀ (e pn : Nat), (livePns s2)[e]? = some pn → s2.trajs[e]? = some (some pn) ∧
      s2.locks[e]? = some false ∧
      ∃ w, s2.wts.lookup pn = some w ∧ s2.W[e]? = some (padValid s2 ((e : Int) - 1) w) ∧
        (padValid s2 ((e : Int) - 1) w).length = s2.n ∧ (padValid s2 ((e : Int) - 1) w).getD e 0 ≠ 0 ∧
        ∃ f, s2.frac.lookup pn = some f := by
    intro e pn hp
    obtain ⟨he, htr⟩ := livePns_get hc hp
    have hlock : s2.locks[e]? = some false := by
      have hlt : e < s2.locks.length := by rw [hc.lenL]; omega
      have hb := hc.busy e he
      cases hv : s2.locks[e] with
      | true =>
        have : s2.locks[e]? = some true := by rw [List.getElem?_eq_getElem hlt, hv]
        have := hb.mp this
        simp at this
      | false => rw [List.getElem?_eq_getElem hlt, hv]
    obtain ⟨w', hw1', hw2⟩ := hf2.wts e pn he htr
    have hWe : s2.W[e]? = some (s2.W.getD e []) := by
      have hlt : e < s2.W.length := by rw [hc.lenW]; omega
      rw [List.getD_eq_getElem?_getD, List.getElem?_eq_getElem hlt]; rfl
    have hrow := hf2.rows e he
    have hlen : (s2.W.getD e []).length = s2.n := by
      rcases Nat.eq_zero_or_pos e with h0 | h0
      · exact (hrow.1 h0).1
      · obtain ⟨cnt, hplus, _⟩ := hrow.2 h0
        exact hplus.1
    have hkey : pn ∈ s2.frac.map Prod.fst := by
      rw [t2.sameKeys, t2.keysLive pn]
      exact List.mem_iff_getElem?.mpr ⟨e, htr⟩
    refine ⟨htr, hlock, w', hw1', by rw [hw2]; exact hWe, by rw [hw2]; exact hlen, ?_, lookup_some_of_key _ _ hkey⟩
    rw [hw2]
    exact hd e he
  -- table keys are live paths
  have hkeys : ∀ q, some q ∈ s2.trajs → q ∈ livePns s2 := by
    intro q hq
    obtain ⟨i, hi⟩ := List.mem_iff_getElem?.mp hq
    have hil : i < s2.trajs.length := (List.getElem?_eq_some_iff.mp hi).1
    rw [hc.lenT] at hil
    by_cases hi1 : i < s2.n - 1
    · exact livePns_mem hc hi1 hi
    · have : i = s2.n - 1 := by omega
      rw [this, hghost] at hi; simp at hi
  -- the zero row is the ghost row
  have hghostW : s2.W[s2.n - 1]? = some (List.replicate s2.n 0) := by
    obtain ⟨i, hi⟩ := List.mem_iff_getElem?.mp t2.hasZero
    have hil : i < s2.W.length := (List.getElem?_eq_some_iff.mp hi).1
    rw [hc.lenW] at hil
    by_cases hi1 : i < s2.n - 1
    · exfalso
      apply hd i hi1
      unfold entryM
      simp only [List.getD_eq_getElem?_getD, hi, Option.getD_some, List.getElem?_replicate]
      split <;> rfl
    · have : i = s2.n - 1 := by omega
      rw [← this]; exact hi
  refine ⟨⟨hc.n2, hc.lenW, hc.lenT, hc.lenL, by simp [livePns], hslot, hghost, hghostW, hc.ghost, ?_, ?_,
    hlk, hent.l0, hlo, hent.l0o, hent.ent, hsp⟩, hw1, hti2, hr.one.pins job (List.mem_of_getElem? hjob), herase,
    hc, hf2, t2, hent⟩
  · intro q hq
    rw [t2.sameKeys, t2.keysLive q] at hq
    exact hkeys q hq
  · intro q hq
    rw [t2.keysLive q] at hq
    exact hkeys q hq


/-! ### histories -/

theorem run_append_inv : ∀ (a b : List Ev) {y yN : Sys}, run y (a ++ b) = .ok yN →
    ∃ ym, run y a = .ok ym ∧ run ym b = .ok yN := by
  intro a
  induction a with
  | nil => intro b y yN h; exact ⟨y, rfl, h⟩
  | cons ev rest ih =>
    intro b y yN h
    simp only [List.cons_append, run] at h ⊢
    split at h
    · exact absurd h (by simp)
    · rename_i y1 h1
      obtain ⟨ym, hm1, hm2⟩ := ih b h
      exact ⟨ym, hm1, hm2⟩

theorem histOk_append : ∀ (a b : List Ev) {y ym : Sys}, HistOk y (a ++ b) → run y a = .ok ym → HistOk ym b := by
  intro a
  induction a with
  | nil => intro b y ym h hr; simp only [run, Except.ok.injEq] at hr; subst hr; exact h
  | cons ev rest ih =>
    intro b y ym h hr
    simp only [List.cons_append] at h
    unfold run at hr
    split at hr
    · exact absurd hr (by simp)
    · rename_i y1 h1
      exact ih b (h.2 y1 h1) hr

theorem histOk_prefix : ∀ (a b : List Ev) {y : Sys}, HistOk y (a ++ b) → HistOk y a := by
  intro a
  induction a with
  | nil => intro b y _; trivial
  | cons ev rest ih =>
    intro b y h
    simp only [List.cons_append] at h
    exact ⟨h.1, fun y' hy' => ih b (h.2 y' hy')⟩

/-- a `.step` event leaves `toinitiate` alone -/
theorem step_toinit {y y' : Sys} {k : Nat} {st : Status} {w : List (List Rat)} {o : PickOutcome}
    (h : sysStep y (.step k st w o) = .ok y') : y'.s.toinitiate = y.s.toinitiate := by
  simp only [sysStep] at h
  split at h
  · exact absurd h (by simp)
  · split at h
    · exact absurd h (by simp)
    · split at h
      · exact absurd h (by simp)
      · rename_i s2 pns it htreat
        obtain ⟨_, _, _, t4⟩ := ctr_eq (ctr_treatOutput htreat)
        have hl : (loop y.s).1.toinitiate = y.s.toinitiate := by
          unfold loop; split <;> rfl
        split at h
        · split at h
          · exact absurd h (by simp)
          · rename_i s3 job' ds hprep
            simp only [Except.ok.injEq] at h
            subst h
            obtain ⟨_, _, _, c4⟩ := ctr_eq (ctr_prep hprep)
            rw [c4, t4, hl]
        · simp only [Except.ok.injEq] at h
          subst h
          rw [t4, hl]

theorem steps_toinit : ∀ (evs : List Ev) {y y' : Sys}, StepsOnly evs → run y evs = .ok y' →
    y'.s.toinitiate = y.s.toinitiate := by
  intro evs
  induction evs with
  | nil => intro y y' _ h; simp only [run, Except.ok.injEq] at h; subst h; rfl
  | cons ev rest ih =>
    intro y y' hs h
    cases ev with
    | start o sv => exact hs.elim
    | initDone => exact hs.elim
    | step k st w o =>
      unfold run at h
      split at h
      · exact absurd h (by simp)
      · rename_i y1 h1
        rw [ih hs h, step_toinit h1]

/-- after the initiation loop of a one-worker start (`.start`, `.initDone`) the initiation is closed -/
theorem closed_after_init {y0 y1 : Sys} (h0 : Start1 y0) {o : PickOutcome} {sv : Nat}
    (h : run y0 [.start o sv, .initDone] = .ok y1) : y1.s.toinitiate = -1 := by
  have hi := h0.init
  simp only [run] at h
  split at h
  · exact absurd h (by simp)
  · rename_i ya ha
    split at h
    · exact absurd h (by simp)
    · rename_i yb hb
      simp only [Except.ok.injEq] at h
      subst h
      -- the start
      simp only [sysStep] at ha
      split at ha
      · exact absurd ha (by simp)
      · rename_i hgo
        simp only [Bool.not_eq_true, Bool.not_eq_false] at hgo
        split at ha
        · exact absurd ha (by simp)
        · rename_i s2 job ds hprep
          simp only [Except.ok.injEq] at ha
          subst ha
          obtain ⟨c1, c2, _, c4⟩ := ctr_eq (ctr_prep hprep)
          rcases initiate_cases6 y0.s with ⟨_, hpos, hti, _, _⟩ | ⟨hf, _⟩
          · have hti0 : s2.toinitiate = 0 := by rw [c4, hti, hi.toinit, h0.w1]; rfl
            have hlt : s2.cstep < s2.tsteps := by
              obtain ⟨_, hb2, _⟩ := initiate_go6 hgo
              have hq := initiate_quiet y0.s
              have e1 : (initiate y0.s).1.cstep = y0.s.cstep := hq.1.cstep
              have e2 : (initiate y0.s).1.tsteps = y0.s.tsteps := hq.1.tsteps
              rw [c1, c2, e1, e2]
              rw [hi.toinit, h0.w1] at hb2
              omega
            -- the closing initiate
            simp only [sysStep] at hb
            split at hb
            · exact absurd hb (by simp)
            · simp only [Except.ok.injEq] at hb
              subst hb
              show (initiate s2).1.toinitiate = -1
              unfold initiate
              simp [hlt, hti0]
          · rw [hf] at hgo; exact absurd hgo (by simp)


theorem freeEngines_idem (occ : List (List Int)) (pin : Nat) :
    freeEngines (freeEngines occ pin) pin = freeEngines occ pin := by
  unfold freeEngines
  rw [List.map_map]
  apply List.map_congr_left
  intro l _
  simp only [Function.comp, List.map_map]
  apply List.map_congr_left
  intro x _
  simp only [Function.comp]
  split
  · simp
  · rename_i hx; simp [hx]

/-- a successful `.step` starts below the step limit -/
theorem step_lt {y y' : Sys} {k : Nat} {st : Status} {w : List (List Rat)} {o : PickOutcome}
    (h : sysStep y (.step k st w o) = .ok y') : y.s.cstep < y.s.tsteps := by
  simp only [sysStep] at h
  split at h
  · exact absurd h (by simp)
  · rename_i hgo
    simp only [Bool.not_eq_true, Bool.not_eq_false] at hgo
    unfold loop at hgo
    split at hgo
    · exact absurd hgo (by simp)
    · omega

theorem stepPrep_ctr {r : St × Job × List Job} {o : PickOutcome} {y' : Sys} (h : stepPrep r o = .ok y') :
    y'.s.cstep = r.1.cstep ∧ y'.s.tsteps = r.1.tsteps := by
  unfold stepPrep at h
  split at h
  · split at h
    · exact absurd h (by simp)
    · rename_i s3 job' ds hprep
      simp only [Except.ok.injEq] at h
      subst h
      obtain ⟨c1, c2, _, _⟩ := ctr_eq (ctr_prep hprep)
      exact ⟨c1, c2⟩
  · simp only [Except.ok.injEq] at h
    subst h
    exact ⟨rfl, rfl⟩

/-- **restart equivalence for every one-worker history and every split point — no hypothesis on any state.**
    `y0` a one-worker start state (fresh or itself rebuilt from an image), the history `.start, .initDone,` steps…;
    split at any `.step` that is not the last one. -/
theorem restart_reachable {y0 yN : Sys} (h0 : Start1 y0) (o0 : PickOutcome) (sv0 : Nat) (steps1 : List Ev)
    (k : Nat) (st : Status) (w : List (List Rat)) (o : PickOutcome) (rest : List Ev)
    (hs1 : StepsOnly steps1) (hs2 : StepsOnly rest) (hne : rest ≠ [])
    (hh : HistOk y0 ((.start o0 sv0 :: .initDone :: steps1) ++ (.step k st w o :: rest)))
    (hrun : run y0 ((.start o0 sv0 :: .initDone :: steps1) ++ (.step k st w o :: rest)) = .ok yN) :
    ∃ y r s' yN', run y0 (.start o0 sv0 :: .initDone :: steps1) = .ok y ∧ stepTreat y k st w = .ok r ∧
      StopState r.1 (livePns r.1) ∧ r.1.cstep < r.1.tsteps ∧ CoreR r.1 [] r.1.trajNum ∧ Fam r.1 r.1.trajNum ∧
      Tidy r.1 ∧ r.1.workers = 1 ∧
      restore (persist r.1) r.1.n r.1.workers r.1.tsteps (freeEngines r.1.occ 0) r.1.ensEng
        (fun pn => (r.1.wts.lookup pn).getD []) = .ok s' ∧ RestoreRel (freeEngines r.1.occ 0) r.1 s' ∧
      run { s := s', jobs := [] } (.start o (persist r.1).rngDraws :: .initDone :: rest) = .ok yN' ∧
      ObsR True (-1) r.1.rows [] yN.s yN'.s ∧ yN.jobs = yN'.jobs ∧
      ∃ rws, yN.s.rows = r.1.rows ++ rws ∧ yN'.s.rows = rws := by
  obtain ⟨y, hy, hyN⟩ := run_append_inv _ _ hrun
  have hr : Reach1 y := run_reach1 _ h0.reach (histOk_prefix _ _ hh) hy
  have hhy : HistOk y (.step k st w o :: rest) := histOk_append _ _ hh hy
  -- the initiation is closed
  have hti : y.s.toinitiate = -1 := by
    have : (.start o0 sv0 :: .initDone :: steps1 : List Ev) = [.start o0 sv0, .initDone] ++ steps1 := rfl
    rw [this] at hy
    obtain ⟨y1, hy1, hy2⟩ := run_append_inv _ _ hy
    rw [steps_toinit _ hs1 hy2]
    exact closed_after_init h0 hy1
  -- the split step
  have hyN' := hyN
  unfold run at hyN'
  split at hyN'
  · exact absurd hyN' (by simp)
  rename_i y' hstep
  have hhalf := hstep
  rw [sysStep_eq_halves] at hhalf
  split at hhalf
  · exact absurd hhalf (by simp)
  rename_i r hT
  obtain ⟨hS, hw1, hti2, hpin, hrestj, hc, hf, ht, hent⟩ := stopState_of_reach hr hti k st w o hhy.1 hstep hT
  -- not the last step
  have hlt : r.1.cstep < r.1.tsteps := by
    obtain ⟨c1, c2⟩ := stepPrep_ctr hhalf
    cases rest with
    | nil => exact absurd rfl hne
    | cons ev2 rest2 =>
      cases ev2 with
      | start _ _ => exact hs2.elim
      | initDone => exact hs2.elim
      | step k2 st2 w2 o2 =>
        unfold run at hyN'
        split at hyN'
        · exact absurd hyN' (by simp)
        · rename_i y2 h2
          have := step_lt h2
          omega
  obtain ⟨s', hres, hR⟩ := restore_persist_full hS (freeEngines r.1.occ 0)
  obtain ⟨yN', hrunR, hobs⟩ := restart_run k st w o rest r hT hR hw1 hti2 hpin hS.locked0 hlt
    (freeEngines_idem r.1.occ 0).symm hs2 hyN
  rw [hrestj] at hrunR
  obtain ⟨rws, hra, hrb⟩ := hobs.1.rows
  exact ⟨y, r, s', yN', hy, hT, hS, hlt, hc, hf, ht, hw1, hres, hR, hrunR, hobs.1, hobs.2, rws, hra, by simpa using hrb⟩


/-! ### the restored state is again a one-worker start state -/

theorem loadOne_sameKeys {s s' : St} {ens : Int} {pn : Nat} {valid fr : List Rat}
    (h : loadOne s ens pn valid fr = .ok s') (hk : s.frac.map Prod.fst = s.wts.map Prod.fst) :
    s'.frac.map Prod.fst = s'.wts.map Prod.fst := by
  unfold loadOne at h
  split at h
  · exact absurd h (by simp)
  · rename_i s1 h1
    simp only [Except.ok.injEq] at h
    subst h
    obtain ⟨v, _, hs1⟩ := addTraj_ok h1
    have hf : s1.frac = s.frac := by rw [hs1]
    have hw : s1.wts = s.wts := by rw [hs1]
    simp only [List.map_append, hf, hw, hk]
    rfl

theorem plus_sameKeys : ∀ (l : List (Nat × List Rat × List Rat)) (s s' : St) (i : Nat),
    loadPaths.plus s i l = .ok s' → s.frac.map Prod.fst = s.wts.map Prod.fst →
    s'.frac.map Prod.fst = s'.wts.map Prod.fst := by
  intro l
  induction l with
  | nil => intro s s' i h hk; simp only [loadPaths.plus, Except.ok.injEq] at h; subst h; exact hk
  | cons x rest ih =>
    intro s s' i h hk
    obtain ⟨pn, w, fr⟩ := x
    simp only [loadPaths.plus] at h
    split at h
    · exact absurd h (by simp)
    · rename_i s1 h1
      exact ih _ _ _ h (loadOne_sameKeys h1 hk)

theorem loadPaths_sameKeys {s s' : St} {paths : List (Nat × List Rat × List Rat)}
    (h : loadPaths s paths = .ok s') (hk : s.frac.map Prod.fst = s.wts.map Prod.fst) :
    s'.frac.map Prod.fst = s'.wts.map Prod.fst := by
  unfold loadPaths at h
  split at h
  · exact absurd h (by simp)
  · split at h
    · exact absurd h (by simp)
    · rename_i s1 h1
      exact loadOne_sameKeys h (plus_sameKeys _ _ _ _ h1 hk)

theorem mem_keys_iff_lookup (l : AL) (q : Nat) : q ∈ l.map Prod.fst ↔ ∃ v, l.lookup q = some v := by
  constructor
  · exact lookup_some_of_key l q
  · intro ⟨v, hv⟩
    by_contra hc
    rw [lookup_none_of_not_key l q hc] at hv
    simp at hv

/-- **the state rebuilt from the image of a stop state is again a one-worker start state** (the induction step for
    chains of restarts) -/
theorem restored_start1 {s s' : St} {pns : List Nat} {occ : List (List Int)}
    (hS : StopState s pns) (hc : CoreR s [] s.trajNum) (hf : Fam s s.trajNum) (ht : Tidy s) (hw : s.workers = 1)
    (hres : restore (persist s) s.n s.workers s.tsteps occ s.ensEng (fun pn => (s.wts.lookup pn).getD []) = .ok s')
    (hR : RestoreRel occ s s') : Start1 { s := s', jobs := [] } := by
  have o := hR.obs
  have en : s.n = s'.n := o.n
  have eW : s.W = s'.W := o.W
  have eT : s.trajs = s'.trajs := o.trajs
  have eL : s.locks = s'.locks := o.locks
  have etn : s.trajNum = s'.trajNum := o.trajNum
  have el0 : s.locked0 = s'.locked0 := o.locked0
  have elk : s.locked = s'.locked := o.locked
  have elo : s.lockedOrd = s'.lockedOrd := o.lockedOrd
  have el0o : s.locked0Ord = s'.locked0Ord := o.locked0Ord
  have ewk : s.workers = s'.workers := o.workers
  have ecs : s.cstep = s'.cstep := o.cstep
  have esd : s.seed = s'.seed := o.seed
  have een : s.entropy = s'.entropy := o.entropy
  have esp : s.spawned = s'.spawned := o.spawned
  have hlocks : s'.locks = List.replicate (s'.n - 1) false ++ [true] := by
    rw [← eL, ← en]
    apply List.ext_getElem?
    intro e
    by_cases he : e < s.n - 1
    · have hlt : e < pns.length := by rw [hS.pnsLen]; exact he
      have hp : pns[e]? = some pns[e] := List.getElem?_eq_getElem hlt
      rw [(hS.slot e _ hp).2.1, List.getElem?_append_left (by simpa using he), List.getElem?_replicate]
      simp [he]
    · by_cases he2 : e = s.n - 1
      · rw [he2, hS.ghostL, List.getElem?_append_right (by simp)]
        simp
      · rw [List.getElem?_eq_none (by rw [hS.lenL]; omega), List.getElem?_eq_none (by simp; have := hS.n2; omega)]
  have hinitR : InitR { s := s', jobs := [] } := by
    refine ⟨rfl, by rw [← en]; exact hS.n2, by rw [← eW, ← en]; exact hS.lenW, by rw [← eT, ← en]; exact hS.lenT,
      hlocks, ?_, ?_, Resv.ofNil (by rw [← el0]; exact hS.locked0), by rw [← elk]; exact hS.locked, hR.toinitiate⟩
    · intro e he
      show ∃ pn, s'.trajs[e]? = some (some pn) ∧ pn < s'.trajNum
      rw [← eT, ← etn]; exact hc.live e (by rw [en]; exact he)
    · intro a b pn ha hb
      show s'.trajs[a]? = some (some pn) → s'.trajs[b]? = some (some pn) → a = b
      rw [← eT]; exact hc.inj a b pn (by rw [en]; exact ha) (by rw [en]; exact hb)
  have h5 : Init5R { s := s', jobs := [] } := restore_init5R hc hf s.workers s.tsteps occ s.ensEng hres hinitR
  have hsame : s'.frac.map Prod.fst = s'.wts.map Prod.fst := by
    unfold restore at hres
    exact loadPaths_sameKeys hres rfl
  have htidy : Tidy s' := by
    refine ⟨by rw [← eT]; exact ht.hasNone, by rw [← en, ← eW]; exact ht.hasZero, hsame, ?_⟩
    intro q
    rw [mem_keys_iff_lookup, ← eT, ← ht.keysLive q, mem_keys_iff_lookup]
    have hq : s.wts.lookup q = s'.wts.lookup q := o.wts q
    rw [hq]
  exact ⟨Or.inr h5, htidy, by rw [← ewk]; exact hw, by rw [← elk]; exact hS.locked, by rw [← elo]; exact hS.lockedOrd,
    ⟨by rw [← een, ← esd]; exact hS.entropy, by rw [← el0]; exact hS.locked0, by rw [← el0o]; exact hS.locked0Ord⟩,
    by rw [← esp, ← ecs]; exact hS.spawned⟩

end Infretis.Repex
