import Infretis.Lemmas.RepexC06RestoreFull
import Infretis.Lemmas.RepexC03RInit
/-
C06, part 7: two small invariants the other packages do not carry and `StopState` needs —
  * the ghost slot stays empty and its weight row zero  (tracked as `none ∈ trajs`, `zero row ∈ W`: together with
    C03's "every real slot holds a path" / C05's non-zero diagonal they pin the ghost slot down, and they are
    invariant under the permutations picking and sorting perform, so no index reasoning is needed);
  * the fraction and weight tables have exactly the live paths as keys (same key list in both tables).
-/
namespace Infretis.Repex
open Infretis.Perm

structure Tidy (s : St) : Prop where
  hasNone : none ∈ s.trajs
  hasZero : List.replicate s.n 0 ∈ s.W
  sameKeys : s.frac.map Prod.fst = s.wts.map Prod.fst
  keysLive : ∀ q, q ∈ s.wts.map Prod.fst ↔ some q ∈ s.trajs

theorem mem_set_of_ne {α : Type} (l : List α) (e : Nat) (x v : α) (hx : x ∈ l)
    (hne : ∀ y, l[e]? = some y → y ≠ x) : x ∈ l.set e v := by
  obtain ⟨i, hi⟩ := List.mem_iff_getElem?.mp hx
  have hie : i ≠ e := by
    intro h; subst h; exact hne x hi rfl
  apply List.mem_iff_getElem?.mpr
  exact ⟨i, by rw [List.getElem?_set_ne (Ne.symm hie)]; exact hi⟩

theorem mem_set_iff {α : Type} (l : List α) (e : Nat) (x y : α) (he : e < l.length) :
    y ∈ l.set e x ↔ y = x ∨ ∃ i, i ≠ e ∧ l[i]? = some y := by
  constructor
  · intro h
    obtain ⟨i, hi⟩ := List.mem_iff_getElem?.mp h
    by_cases hie : i = e
    · subst hie
      rw [List.getElem?_set_self he] at hi
      left; simpa using hi.symm
    · right
      rw [List.getElem?_set_ne (Ne.symm hie)] at hi
      exact ⟨i, hie, hi⟩
  · intro h
    apply List.mem_iff_getElem?.mpr
    rcases h with h | ⟨i, hie, hi⟩
    · exact ⟨e, by rw [List.getElem?_set_self he, h]⟩
    · exact ⟨i, by rw [List.getElem?_set_ne (Ne.symm hie)]; exact hi⟩

theorem zeroRow_ne_of_entry {n e : Nat} {r : List Rat} (h : r.getD e 0 ≠ 0) : r ≠ List.replicate n 0 := by
  intro hr
  apply h
  rw [hr, List.getD_eq_getElem?_getD, List.getElem?_replicate]
  split <;> rfl

/-- the ghost slot is empty: the table has an empty entry and no real slot is empty -/
theorem ghost_none_of {s : St} {H : List (Nat × Nat)} {tn : Nat} (hc : CoreR s H tn) (hn : none ∈ s.trajs) :
    s.trajs[s.n - 1]? = some none := by
  obtain ⟨i, hi⟩ := List.mem_iff_getElem?.mp hn
  have hil : i < s.trajs.length := (List.getElem?_eq_some_iff.mp hi).1
  rw [hc.lenT] at hil
  by_cases h : i < s.n - 1
  · obtain ⟨pn, hpn, _⟩ := hc.live i h
    rw [hpn] at hi; simp at hi
  · have : i = s.n - 1 := by omega
    rw [← this]; exact hi

/-- the per-ensemble loop of `treat_output`: `D` = paths already replaced (pending removal from the tables; none of
    them is live any more) -/
theorem perEns_tidy (status : Status) : ∀ (l : List (Picked × List Rat)) {s s' : St}
    {H : List (Nat × Nat)} {tn tn' : Nat} {pns : List Nat} (D : List Nat),
    CoreR s (heldPicked (l.map Prod.fst) ++ H) tn →
    treatOutput.perEns status s tn l = .ok (s', tn', pns) →
    (∀ q, q ∈ s.wts.map Prod.fst ↔ (some q ∈ s.trajs ∨ q ∈ D)) →
    (∀ q ∈ D, q < tn ∧ some q ∉ s.trajs) → none ∈ s.trajs →
    (∀ q, q ∈ s'.wts.map Prod.fst ↔
      (some q ∈ s'.trajs ∨ q ∈ D ∨ (status = .acc ∧ q ∈ l.map (fun pw => pw.1.pn)))) ∧
    (∀ q, (q ∈ D ∨ (status = .acc ∧ q ∈ l.map (fun pw => pw.1.pn))) → some q ∉ s'.trajs) ∧
    none ∈ s'.trajs ∧
    (List.replicate s.n 0 ∈ s.W → List.replicate s'.n 0 ∈ s'.W) ∧
    (s.frac.map Prod.fst = s.wts.map Prod.fst → s'.frac.map Prod.fst = s'.wts.map Prod.fst) := by
  intro l
  induction l with
  | nil =>
    intro s s' H tn tn' pns D _ hp hP hQ hN
    simp only [treatOutput.perEns, Except.ok.injEq, Prod.mk.injEq] at hp
    obtain ⟨rfl, _, _⟩ := hp
    refine ⟨?_, ?_, hN, id, id⟩
    · intro q; rw [hP q]; simp
    · intro q hq
      simp only [List.map_nil, List.not_mem_nil, and_false, or_false] at hq
      exact (hQ q hq).2
  | cons pw rest ih =>
    intro s s' H tn tn' pns D h hp hP hQ hN
    obtain ⟨p, w⟩ := pw
    have h : CoreR s ((slotOf p, p.pn) :: (heldPicked (rest.map Prod.fst) ++ H)) tn := by
      simpa [heldPicked] using h
    obtain ⟨hlt, htr, hdiag⟩ := h.heldOk (slotOf p) p.pn (List.mem_cons_self ..)
    have hghost := ghost_none_of h hN
    have hpnlt : p.pn < tn := by
      obtain ⟨q, hq, hqlt⟩ := h.live (slotOf p) hlt
      rw [htr] at hq; simp only [Option.some.injEq] at hq; omega
    have heT : slotOf p < s.trajs.length := by rw [h.lenT]; omega
    have hrow : ∀ y, s.W[slotOf p]? = some y → y ≠ List.replicate s.n 0 := by
      intro y hy
      apply zeroRow_ne_of_entry (e := slotOf p)
      have : entryM s.W (slotOf p) (slotOf p) = y.getD (slotOf p) 0 := by
        unfold entryM
        simp only [List.getD_eq_getElem?_getD, hy, Option.getD_some]
      rw [← this]; exact hdiag
    -- the old path occurs only in this slot
    have honly : ∀ i, s.trajs[i]? = some (some p.pn) → i = slotOf p := by
      intro i hi
      have hil : i < s.trajs.length := (List.getElem?_eq_some_iff.mp hi).1
      rw [h.lenT] at hil
      by_cases hi1 : i < s.n - 1
      · exact h.inj i (slotOf p) p.pn hi1 hlt hi htr
      · have : i = s.n - 1 := by omega
        rw [this, hghost] at hi; simp at hi
    unfold treatOutput.perEns at hp
    simp only [] at hp
    split at hp
    · -- accepted
      rename_i hacc
      split at hp
      · exact absurd hp (by simp)
      rename_i s3 hadd
      split at hp
      · exact absurd hp (by simp)
      rename_i s4 tn4 pns4 hrec
      simp only [Except.ok.injEq, Prod.mk.injEq] at hp
      obtain ⟨rfl, rfl, _⟩ := hp
      have hc2 := h.congr (s' := { { s with locked := popLocked p.pn s.locked.length 0 s.locked, lockedOrd := popLockedOrd p.pn s.locked.length 0 s.locked s.lockedOrd } with
          frac := s.frac ++ [(tn, List.replicate s.n 0)], wts := s.wts ++ [(tn, w)] })
        ⟨rfl, rfl, rfl, rfl, rfl, rfl⟩
      obtain ⟨hc3, _⟩ := addTraj_coreR (tn' := tn + 1) (slotOf p) p.pn tn p.ens w hc2 hadd rfl
        (by
          intro b hb _ hcontra
          obtain ⟨q, hq, hqlt⟩ := h.live b hb
          change s.trajs[b]? = some (some tn) at hcontra
          rw [hq] at hcontra
          simp only [Option.some.injEq] at hcontra
          omega)
        (by omega) (by omega)
      obtain ⟨v, _, hs3⟩ := addTraj_ok hadd
      have he : (p.ens + 1).toNat = slotOf p := rfl
      rw [he] at hs3
      have hmem3 : ∀ q, some q ∈ s3.trajs ↔ (q = tn ∨ ∃ i, i ≠ slotOf p ∧ s.trajs[i]? = some (some q)) := by
        intro q
        rw [hs3]
        simp only []
        rw [mem_set_iff _ _ _ _ heT]
        simp
      have hP3 : ∀ q, q ∈ s3.wts.map Prod.fst ↔ (some q ∈ s3.trajs ∨ q ∈ p.pn :: D) := by
        intro q
        rw [hmem3 q, hs3]
        simp only [List.map_append, List.map_cons, List.map_nil, List.mem_append, List.mem_cons,
          List.not_mem_nil, or_false]
        rw [hP q]
        constructor
        · rintro ((hq | hq) | hq)
          · obtain ⟨i, hi⟩ := List.mem_iff_getElem?.mp hq
            by_cases hie : i = slotOf p
            · subst hie
              rw [htr] at hi
              right; left
              simpa using hi.symm
            · left; right; exact ⟨i, hie, hi⟩
          · right; right; exact hq
          · left; left; exact hq
        · rintro ((hq | ⟨i, _, hi⟩) | hq | hq)
          · right; exact hq
          · left; left; exact List.mem_iff_getElem?.mpr ⟨i, hi⟩
          · left; left; rw [hq]; exact List.mem_iff_getElem?.mpr ⟨slotOf p, htr⟩
          · left; right; exact hq
      have hQ3 : ∀ q ∈ p.pn :: D, q < tn + 1 ∧ some q ∉ s3.trajs := by
        intro q hq
        rw [hmem3 q]
        rcases List.mem_cons.mp hq with hq | hq
        · subst hq
          refine ⟨by omega, ?_⟩
          rintro (hc | ⟨i, hie, hi⟩)
          · omega
          · exact hie (honly i hi)
        · obtain ⟨a, b⟩ := hQ q hq
          refine ⟨by omega, ?_⟩
          rintro (hc | ⟨i, _, hi⟩)
          · omega
          · exact b (List.mem_iff_getElem?.mpr ⟨i, hi⟩)
      have hN3 : none ∈ s3.trajs := by
        rw [hs3]
        exact mem_set_of_ne _ _ _ _ hN (by intro y hy; rw [htr] at hy; simp at hy; rw [← hy]; simp)
      obtain ⟨k1, k1', k2, k3, k4⟩ := ih (p.pn :: D) hc3 hrec hP3 hQ3 hN3
      refine ⟨?_, ?_, k2, ?_, ?_⟩
      · intro q
        rw [k1 q]
        simp only [List.mem_cons, List.map_cons, hacc, true_and]
        constructor
        · rintro (hq | (hq | hq) | hq)
          · left; exact hq
          · right; right; left; exact hq
          · right; left; exact hq
          · right; right; right; exact hq
        · rintro (hq | hq | hq | hq)
          · left; exact hq
          · right; left; right; exact hq
          · right; left; left; exact hq
          · right; right; exact hq
      · intro q hq
        apply k1' q
        simp only [List.mem_cons, List.map_cons, hacc, true_and] at hq ⊢
        rcases hq with hq | hq | hq
        · left; right; exact hq
        · left; left; exact hq
        · right; exact hq
      · intro hz
        apply k3
        rw [hs3]
        exact mem_set_of_ne _ _ _ _ hz hrow
      · intro hk
        apply k4
        rw [hs3]
        simp only [List.map_append, hk]
        rfl
    · -- rejected
      rename_i hrej
      split at hp
      · exact absurd hp (by simp)
      rename_i wOld _
      split at hp
      · exact absurd hp (by simp)
      rename_i s3 hadd
      split at hp
      · exact absurd hp (by simp)
      rename_i s4 tn4 pns4 hrec
      simp only [Except.ok.injEq, Prod.mk.injEq] at hp
      obtain ⟨rfl, rfl, _⟩ := hp
      have hc2 := h.congr (s' := { s with locked := popLocked p.pn s.locked.length 0 s.locked, lockedOrd := popLockedOrd p.pn s.locked.length 0 s.locked s.lockedOrd })
        ⟨rfl, rfl, rfl, rfl, rfl, rfl⟩
      obtain ⟨hc3, _⟩ := addTraj_coreR (tn' := tn) (slotOf p) p.pn p.pn p.ens wOld hc2 hadd rfl
        (by
          intro b hb hne hcontra
          exact hne (h.inj b (slotOf p) p.pn hb hlt hcontra htr))
        hpnlt (Nat.le_refl _)
      obtain ⟨v, _, hs3⟩ := addTraj_ok hadd
      have he : (p.ens + 1).toNat = slotOf p := rfl
      rw [he] at hs3
      have hsame : s.trajs.set (slotOf p) (some p.pn) = s.trajs := by
        apply List.ext_getElem?
        intro i
        by_cases hie : i = slotOf p
        · subst hie; rw [List.getElem?_set_self heT, htr]
        · rw [List.getElem?_set_ne (Ne.symm hie)]
      have hT3 : s3.trajs = s.trajs := by rw [hs3]; exact hsame
      have hP3 : ∀ q, q ∈ s3.wts.map Prod.fst ↔ (some q ∈ s3.trajs ∨ q ∈ D) := by
        intro q; rw [hT3, hs3]; exact hP q
      obtain ⟨k1, k1', k2, k3, k4⟩ := ih D hc3 hrec hP3 (by rw [hT3]; exact hQ) (by rw [hT3]; exact hN)
      refine ⟨?_, ?_, k2, ?_, ?_⟩
      · intro q
        rw [k1 q]
        simp only [hrej, false_and, or_false]
      · intro q hq
        apply k1' q
        simp only [hrej, false_and, or_false] at hq ⊢
        exact hq
      · intro hz
        apply k3
        rw [hs3]
        exact mem_set_of_ne _ _ _ _ hz hrow
      · intro hk
        apply k4
        rw [hs3]
        exact hk

theorem map_fst_filter_key (l : AL) (pn : Nat) :
    (l.filter (·.1 != pn)).map Prod.fst = (l.map Prod.fst).filter (· != pn) := by
  rw [List.filter_map]; rfl

theorem writeRows_tidy : ∀ (l : List Nat) {s s' : St}, writeRows s l = .ok s' →
    s'.W = s.W ∧ s'.trajs = s.trajs ∧ s'.n = s.n ∧
    (∀ q, q ∈ s'.wts.map Prod.fst ↔ (q ∈ s.wts.map Prod.fst ∧ q ∉ l)) ∧
    (s.frac.map Prod.fst = s.wts.map Prod.fst → s'.frac.map Prod.fst = s'.wts.map Prod.fst) := by
  intro l
  induction l with
  | nil =>
    intro s s' h
    simp only [writeRows, Except.ok.injEq] at h
    subst h
    exact ⟨rfl, rfl, rfl, by simp, id⟩
  | cons pn rest ih =>
    intro s s' h
    unfold writeRows at h
    split at h
    · obtain ⟨h1, h2, h3, h4, h5⟩ := ih h
      refine ⟨h1, h2, h3, ?_, ?_⟩
      · intro q
        rw [h4 q]
        simp only [map_fst_filter_key, List.mem_filter, bne_iff_ne, ne_eq, List.mem_cons, not_or]
        constructor
        · rintro ⟨⟨a, b⟩, c⟩; exact ⟨a, b, c⟩
        · rintro ⟨a, b, c⟩; exact ⟨⟨a, b⟩, c⟩
      · intro hk
        apply h5
        simp only [map_fst_filter_key, hk]
    · exact absurd h (by simp)


theorem updFrac_keys6 {frac f' : AL} {pn : Nat} {row : List Rat} (h : updFrac frac pn row = .ok f') :
    f'.map Prod.fst = frac.map Prod.fst := by
  unfold updFrac at h
  split at h
  · simp only [Except.ok.injEq] at h
    subst h
    rw [List.map_map]
    apply List.map_congr_left
    intro kv _
    obtain ⟨k, v⟩ := kv
    simp only [Function.comp]
    split <;> rfl
  · exact absurd h (by simp)

theorem recordFrac_go_keys6 (lp : List (Option Nat)) (P : Mat) : ∀ (l : List (Nat × Option Nat)) (frac f : AL),
    recordFrac.go lp P frac l = .ok f → f.map Prod.fst = frac.map Prod.fst := by
  intro l
  induction l with
  | nil => intro frac f h; simp only [recordFrac.go, Except.ok.injEq] at h; subst h; rfl
  | cons hd tl ih =>
    intro frac f h
    obtain ⟨idx, live⟩ := hd
    simp only [recordFrac.go] at h
    split at h
    · exact ih _ _ h
    · cases live with
      | none => simp at h
      | some pn =>
        simp only [] at h
        split at h
        · exact absurd h (by simp)
        · rename_i f' hu
          rw [ih _ _ h, updFrac_keys6 hu]

theorem recordFrac_keys6 {s s' : St} (h : recordFrac s = .ok s') :
    ∃ f, s' = { s with frac := f } ∧ f.map Prod.fst = s.frac.map Prod.fst := by
  unfold recordFrac at h
  simp only [] at h
  split at h
  · exact absurd h (by simp)
  · rename_i f hf
    simp only [Except.ok.injEq] at h
    exact ⟨f, h.symm, recordFrac_go_keys6 _ _ _ _ _ hf⟩

theorem swapList_perm6 {α : Type} (l : List α) (i j : Nat) : (swapList l i j).Perm l := by
  unfold swapList
  split
  · rename_i a b hi hj
    have hil : i < l.length := (List.getElem?_eq_some_iff.mp hi).1
    have hjl : j < l.length := (List.getElem?_eq_some_iff.mp hj).1
    rw [List.getElem?_eq_getElem hil, Option.some.injEq] at hi
    rw [List.getElem?_eq_getElem hjl, Option.some.injEq] at hj
    rw [← hi, ← hj]
    exact List.set_set_perm hil hjl
  · exact List.Perm.refl _

/-- what picking and sorting do to the tables: rows and slot contents are permuted, nothing else -/
structure PK (s s' : St) : Prop where
  W : s'.W.Perm s.W
  trajs : s'.trajs.Perm s.trajs
  frac : s'.frac = s.frac
  wts : s'.wts = s.wts
  n : s'.n = s.n

theorem PK.refl (s : St) : PK s s := ⟨List.Perm.refl _, List.Perm.refl _, rfl, rfl, rfl⟩
theorem PK.trans {a b c : St} (h1 : PK a b) (h2 : PK b c) : PK a c :=
  ⟨h2.W.trans h1.W, h2.trajs.trans h1.trajs, h2.frac.trans h1.frac, h2.wts.trans h1.wts, h2.n.trans h1.n⟩

theorem PK.tidy {s s' : St} (h : PK s s') (t : Tidy s) : Tidy s' :=
  ⟨h.trajs.mem_iff.mpr t.hasNone, by rw [h.n]; exact h.W.mem_iff.mpr t.hasZero, by rw [h.frac, h.wts]; exact t.sameKeys,
   fun q => by rw [h.wts, t.keysLive q]; exact h.trajs.mem_iff.symm⟩

theorem swap_pk (s : St) (t e : Nat) : PK s (swap s t e) :=
  ⟨swapList_perm6 _ _ _, swapList_perm6 _ _ _, rfl, rfl, rfl⟩

theorem lock_pk {s s' : St} {e : Nat} (h : lock s e = .ok s') : PK s s' := by
  obtain ⟨_, hs⟩ := lock_ok' h
  subst hs; exact ⟨List.Perm.refl _, List.Perm.refl _, rfl, rfl, rfl⟩

theorem sortStep_pk {s s' : St} (h : sortStep s = .ok (some s')) : PK s s' := by
  unfold sortStep at h
  simp only [] at h
  split at h
  · exact absurd h (by simp)
  · split at h
    · exact absurd h (by simp)
    · split at h
      · exact absurd h (by simp)
      · simp only [Except.ok.injEq, Option.some.injEq] at h
        subst h
        exact swap_pk _ _ _

theorem sortTrajstate_pk : ∀ (fuel : Nat) {s s' : St} {k : Nat}, sortTrajstate fuel s = .ok (s', k) → PK s s' := by
  intro fuel
  induction fuel with
  | zero => intro s s' k h; simp [sortTrajstate] at h
  | succ fuel ih =>
    intro s s' k h
    unfold sortTrajstate at h
    split at h
    · exact absurd h (by simp)
    · simp only [Except.ok.injEq, Prod.mk.injEq] at h
      obtain ⟨rfl, _⟩ := h
      exact PK.refl _
    · rename_i s1 hstep
      split at h
      · exact absurd h (by simp)
      · rename_i s2 k2 hrec
        simp only [Except.ok.injEq, Prod.mk.injEq] at h
        obtain ⟨rfl, _⟩ := h
        exact (sortStep_pk hstep).trans (ih hrec)

theorem pickCore_pk {s s' : St} {o : PickOutcome} {r : List (Int × Option Nat) × List Draw}
    (h : pickCore s o = .ok (s', r)) : PK s s' := by
  unfold pickCore at h
  simp only [] at h
  generalize (if o.e == off then off - 1 else off) = other at h
  split at h
  · exact absurd h (by simp)
  · split at h
    · exact absurd h (by simp)
    · rename_i s2 hl2
      have h2 : PK s s2 := (swap_pk s _ _).trans (lock_pk hl2)
      split at h
      · split at h
        · exact absurd h (by simp)
        · split at h
          · exact absurd h (by simp)
          · rename_i s4 hl4
            simp only [Except.ok.injEq, Prod.mk.injEq] at h
            rw [← h.1]
            exact h2.trans ((swap_pk s2 _ _).trans (lock_pk hl4))
      · simp only [Except.ok.injEq, Prod.mk.injEq] at h
        rw [← h.1]; exact h2

theorem pick_pk {s s' : St} {o : PickOutcome} {r : List Picked × List Draw}
    (h : pick s o = .ok (s', r)) : PK s s' := by
  unfold pick at h
  split at h
  · exact absurd h (by simp)
  · rename_i s1 pairs ds hc
    split at h
    · exact absurd h (by simp)
    · simp only [Except.ok.injEq, Prod.mk.injEq] at h
      rw [← h.1]
      have := pickCore_pk hc
      exact ⟨this.W, this.trajs, this.frac, this.wts, this.n⟩

theorem reissue_go_pk : ∀ (l : List (Nat × Nat)) {s s' : St} {ps : List (Int × Option Nat)},
    reissue.go s l = .ok (s', ps) → PK s s' := by
  intro l
  induction l with
  | nil => intro s s' ps h; simp only [reissue.go, Except.ok.injEq, Prod.mk.injEq] at h; rw [← h.1]; exact PK.refl _
  | cons x rest ih =>
    intro s s' ps h
    obtain ⟨e, tr⟩ := x
    simp only [reissue.go] at h
    split at h
    · exact absurd h (by simp)
    · split at h
      · exact absurd h (by simp)
      · rename_i s2 hl2
        split at h
        · exact absurd h (by simp)
        · rename_i s3 ps3 hgo
          simp only [Except.ok.injEq, Prod.mk.injEq] at h
          rw [← h.1]
          exact ((swap_pk s _ _).trans (lock_pk hl2)).trans (ih hgo)

theorem pickLock_pk {s s' : St} {o : PickOutcome} {sv : Nat} {r : List Picked × List Draw}
    (h : pickLock s o sv = .ok (s', r)) : PK s s' := by
  unfold pickLock at h
  split at h
  · have h1 := pick_pk h
    unfold restoreStreamOnce at h1
    split at h1
    · exact ⟨h1.W, h1.trajs, h1.frac, h1.wts, h1.n⟩
    · exact h1
  · unfold reissue at h
    split at h
    · exact absurd h (by simp)
    · rename_i s1 pairs hre
      split at h
      · exact absurd h (by simp)
      · simp only [Except.ok.injEq, Prod.mk.injEq] at h
        rw [← h.1]
        have := reissue_go_pk _ hre
        exact ⟨this.W, this.trajs, this.frac, this.wts, this.n⟩

theorem prep_pk {s s' : St} {prev : Option Nat} {o : PickOutcome} {sv : Nat} {job : Job} {ds : List Draw}
    (h : prep s prev o sv = .ok (s', job, ds)) : PK s s' ∧ job.pnumOld = job.picked.map (·.pn) := by
  rw [prep_eq_tail] at h
  split at h
  · exact absurd h (by simp)
  · rename_i s1 ps ds1 hpick
    have h1 : PK s s1 := by
      split at hpick
      · exact pickLock_pk hpick
      · exact pick_pk hpick
    unfold prepTail at h
    split at h
    · exact absurd h (by simp)
    · simp only [] at h
      split at h
      · exact absurd h (by simp)
      · split at h
        · exact absurd h (by simp)
        · simp only [Except.ok.injEq, Prod.mk.injEq] at h
          obtain ⟨ha, hb, _⟩ := h
          subst ha; subst hb
          exact ⟨⟨h1.W, h1.trajs, h1.frac, h1.wts, h1.n⟩, rfl⟩


/-- **`treat_output` keeps the tables tidy** -/
theorem treatOutput_tidy {s s' : St} {H : List (Nat × Nat)} (job : Job) (status : Status)
    (newW : List (List Rat)) (fuel : Nat) (pns : List Nat) (it : Nat)
    (ht0 : Tidy s) (h : CoreR s (heldJob job ++ H) s.trajNum) (hold : job.pnumOld = job.picked.map (·.pn))
    (ht : treatOutput s job status newW fuel = .ok (s', pns, it)) : Tidy s' := by
  unfold treatOutput at ht
  simp only [] at ht
  generalize hws : (if status = Status.acc then newW else job.picked.map (fun _ => [])) = ws at ht
  split at ht
  · exact absurd ht (by simp)
  rename_i hlen
  have hlen := Classical.not_not.mp hlen
  split at ht
  · exact absurd ht (by simp)
  rename_i s1 tn pnNews hper
  split at ht
  · exact absurd ht (by simp)
  rename_i s2 hrec
  split at ht
  · exact absurd ht (by simp)
  rename_i s3 hwr
  split at ht
  · exact absurd ht (by simp)
  rename_i s4 iters hsort
  simp only [Except.ok.injEq, Prod.mk.injEq] at ht
  obtain ⟨rfl, _, _⟩ := ht
  have hfst : (job.picked.zip ws).map Prod.fst = job.picked := List.map_fst_zip (by omega)
  have hpnl : (job.picked.zip ws).map (fun pw => pw.1.pn) = job.pnumOld := by
    calc (job.picked.zip ws).map (fun pw => pw.1.pn)
        = ((job.picked.zip ws).map Prod.fst).map (fun p => p.pn) := by rw [List.map_map]; rfl
      _ = job.pnumOld := by rw [hfst, hold]
  have h0 : CoreR s (heldPicked ((job.picked.zip ws).map Prod.fst) ++ H) s.trajNum := by
    rw [hfst]; exact h
  obtain ⟨t1, t1', t2, t3, t4⟩ := perEns_tidy status _ [] h0 hper
    (by intro q; rw [ht0.keysLive q]; simp) (by intro q hq; simp at hq) ht0.hasNone
  obtain ⟨f, hs2, hfk⟩ := recordFrac_keys6 hrec
  -- tidy after recording
  have k2 : (∀ q, q ∈ s2.wts.map Prod.fst ↔
      (some q ∈ s2.trajs ∨ (status = .acc ∧ q ∈ job.pnumOld))) ∧
      (∀ q, (status = .acc ∧ q ∈ job.pnumOld) → some q ∉ s2.trajs) ∧ none ∈ s2.trajs ∧
      List.replicate s2.n 0 ∈ s2.W ∧ s2.frac.map Prod.fst = s2.wts.map Prod.fst := by
    rw [hs2]
    refine ⟨?_, ?_, t2, t3 ht0.hasZero, ?_⟩
    · intro q
      have := t1 q
      simp only [List.not_mem_nil, false_or, hpnl] at this
      exact this
    · intro q hq
      apply t1' q
      simp only [List.not_mem_nil, false_or, hpnl]
      exact hq
    · show f.map Prod.fst = s1.wts.map Prod.fst
      rw [hfk]; exact t4 ht0.sameKeys
  -- after the data rows
  have k3 : (∀ q, q ∈ s3.wts.map Prod.fst ↔ some q ∈ s3.trajs) ∧ none ∈ s3.trajs ∧
      List.replicate s3.n 0 ∈ s3.W ∧ s3.frac.map Prod.fst = s3.wts.map Prod.fst := by
    obtain ⟨k21, k21', k22, k23, k24⟩ := k2
    split at hwr
    · rename_i hacc
      obtain ⟨w1, w2, w3, w4, w5⟩ := writeRows_tidy _ hwr
      refine ⟨?_, by rw [w2]; exact k22, by rw [w1, w3]; exact k23, w5 k24⟩
      intro q
      rw [w4 q, k21 q, w2]
      simp only [hacc, true_and]
      constructor
      · rintro ⟨hq | hq, hn⟩
        · exact hq
        · exact absurd hq hn
      · intro hq
        exact ⟨Or.inl hq, fun hqo => k21' q ⟨hacc, hqo⟩ hq⟩
    · rename_i hrej
      simp only [Except.ok.injEq] at hwr
      subst hwr
      refine ⟨?_, k22, k23, k24⟩
      intro q
      rw [k21 q]
      simp only [hrej, false_and, or_false]
  obtain ⟨k31, k32, k33, k34⟩ := k3
  have hpk := sortTrajstate_pk fuel hsort
  have t3' : Tidy s3 := ⟨k32, k33, k34, k31⟩
  have t4' := hpk.tidy t3'
  exact ⟨t4'.hasNone, t4'.hasZero, t4'.sameKeys, t4'.keysLive⟩

/-- the invariant carried along a run -/
structure TidyY (y : Sys) : Prop where
  tidy : Tidy y.s
  pnum : ∀ j ∈ y.jobs, j.pnumOld = j.picked.map (·.pn)

theorem initiate_tidy {s : St} (t : Tidy s) : Tidy (initiate s).1 := by
  unfold initiate
  split
  · exact t
  · exact ⟨t.hasNone, t.hasZero, t.sameKeys, t.keysLive⟩

/-- the state `treat_output` leaves behind when job `k` completes is tidy -/
theorem stepTreat_tidy {y : Sys} {k : Nat} {status : Status} {newW : List (List Rat)} {r : St × Job × List Job}
    (hi : InvR y) (ht : TidyY y) (h : stepTreat y k status newW = .ok r) :
    Tidy r.1 ∧ y.jobs[k]? = some r.2.1 ∧ r.2.2 = y.jobs.eraseIdx k := by
  unfold stepTreat at h
  obtain ⟨hle, hltn, _, _, _⟩ := loop_coreEqR y.s
  generalize hloop : loop y.s = rl at h hle hltn
  obtain ⟨s1, go⟩ := rl
  simp only [] at h hle hltn
  split at h
  · exact absurd h (by simp)
  split at h
  · exact absurd h (by simp)
  rename_i job hjob
  split at h
  · exact absurd h (by simp)
  rename_i s2 pns it htreat
  simp only [Except.ok.injEq] at h
  subst h
  have hperm := held_perm_erase y.jobs k job hjob
  have hc1 : CoreR s1 (heldJob job ++ held (y.jobs.eraseIdx k)) s1.trajNum := by
    rw [hltn]
    exact (hi.core.congr hle).perm hperm
  have t1 : Tidy s1 := by
    have := ht.tidy
    exact ⟨by rw [hle.trajs]; exact this.hasNone, by rw [hle.n, hle.W]; exact this.hasZero,
      by
        have hl : loop y.s = (s1, go) := hloop
        unfold loop at hl
        split at hl
        · simp only [Prod.mk.injEq] at hl; rw [← hl.1]; exact this.sameKeys
        · simp only [Prod.mk.injEq] at hl; rw [← hl.1]; exact this.sameKeys,
      by
        have hl : loop y.s = (s1, go) := hloop
        unfold loop at hl
        split at hl
        · simp only [Prod.mk.injEq] at hl; rw [← hl.1]; exact this.keysLive
        · simp only [Prod.mk.injEq] at hl; rw [← hl.1]; exact this.keysLive⟩
  exact ⟨treatOutput_tidy job status newW _ pns it t1 hc1 (ht.pnum job (List.mem_of_getElem? hjob)) htreat,
    hjob, rfl⟩

theorem sysStep_tidy {y y' : Sys} (ev : Ev) (hi : InvR y) (ht : TidyY y) (h : sysStep y ev = .ok y') : TidyY y' := by
  cases ev with
  | start o sv =>
    simp only [sysStep] at h
    split at h
    · exact absurd h (by simp)
    · split at h
      · exact absurd h (by simp)
      · rename_i s2 job ds hprep
        simp only [Except.ok.injEq] at h
        subst h
        obtain ⟨hpk, hjp⟩ := prep_pk hprep
        refine ⟨hpk.tidy (initiate_tidy ht.tidy), ?_⟩
        intro j hj
        rcases List.mem_append.mp hj with hj | hj
        · exact ht.pnum j hj
        · simp only [List.mem_singleton] at hj; subst hj; exact hjp
  | initDone =>
    simp only [sysStep] at h
    split at h
    · exact absurd h (by simp)
    · simp only [Except.ok.injEq] at h
      subst h
      exact ⟨initiate_tidy ht.tidy, ht.pnum⟩
  | step k status newW o =>
    rw [sysStep_eq_halves] at h
    split at h
    · exact absurd h (by simp)
    · rename_i r hT
      obtain ⟨t2, hjob, hrest⟩ := stepTreat_tidy hi ht hT
      unfold stepPrep at h
      have hsub : ∀ j ∈ r.2.2, j ∈ y.jobs := by
        rw [hrest]; exact fun j hj => List.mem_of_mem_eraseIdx hj
      split at h
      · split at h
        · exact absurd h (by simp)
        · rename_i s3 job' ds hprep
          simp only [Except.ok.injEq] at h
          subst h
          obtain ⟨hpk, hjp⟩ := prep_pk hprep
          refine ⟨hpk.tidy t2, ?_⟩
          intro j hj
          rcases List.mem_append.mp hj with hj | hj
          · exact ht.pnum j (hsub j hj)
          · simp only [List.mem_singleton] at hj; subst hj; exact hjp
      · simp only [Except.ok.injEq] at h
        subst h
        exact ⟨t2, fun j hj => ht.pnum j (hsub j hj)⟩

theorem run_tidy : ∀ (evs : List Ev) {y y' : Sys}, InvR y → TidyY y → run y evs = .ok y' → TidyY y' := by
  intro evs
  induction evs with
  | nil => intro y y' _ ht h; simp only [run, Except.ok.injEq] at h; subst h; exact ht
  | cons ev rest ih =>
    intro y y' hi ht h
    unfold run at h
    split at h
    · exact absurd h (by simp)
    · rename_i y1 h1
      exact ih (sysStep_preservesR ev hi h1) (sysStep_tidy ev hi ht h1) h

end Infretis.Repex
