import Infretis.Lemmas.RepexC07Issue
/-!
# C07 — historical record: the restart path before the repairs 96833bd / ec057e1 / 147c104

Before the repairs `set_rgen()` built `SeedSequence(entropy = 0, n_children_spawned = cstep)` and
`pick_lock()` called it on EVERY call once no recorded job was left to re-issue.  `setRgenAsIs` /
`pickLockAsIs` reproduce that behaviour on the model's state (they are not part of the model the
tie runs; the current model follows the repaired code).  Consequences proved here, for every state:
two consecutive `pick_lock()` calls after a restart hand out the SAME streams, and the streams carry
entropy 0 whatever the configured seed.
-/
namespace Infretis.Repex

/-- pre-fix `set_rgen()`: `SeedSequence(entropy=0, n_children_spawned=cstep)` + saved stream state -/
def setRgenAsIs (s : St) (savedDraws : Nat) : St :=
  { s with entropy := 0, spawned := s.cstep, mainDraws := savedDraws }

/-- pre-fix `pick_lock()`: `set_rgen()` on every call with nothing left to re-issue; a re-issued job
    was not put back on record -/
def pickLockAsIs (s : St) (o : PickOutcome) (savedDraws : Nat) :
    Except Err (St × List Picked × List Draw) :=
  match s.locked0 with
  | [] => pick (if s.restarted then setRgenAsIs s savedDraws else s) o
  | (enss0, trajs0) :: rest =>
    match reissue { s with locked0 := rest } enss0 trajs0 with
    | .error er => .error er
    | .ok (s1, pairs) =>
      match mkPicked s1 pairs with
      | .error er => .error er
      | .ok ps => .ok ({ s1 with spawned := s1.spawned + 1 }, ps, [])

/-- as-is: after a restart, a `pick_lock()` with nothing to re-issue hands out the streams of
    ordinal `cstep` in the entropy-0 sequence, whatever was handed out before -/
theorem pickLockAsIs_streams {s s' : St} {o : PickOutcome} {d : Nat} {ps : List Picked}
    {ds : List Draw} (h0 : s.locked0 = []) (hr : s.restarted = true)
    (hp : pickLockAsIs s o d = .ok (s', ps, ds)) :
    StreamsAt 0 s.cstep ps ∧
      s'.cstep = s.cstep ∧ s'.locked0 = [] ∧ s'.restarted = true := by
  unfold pickLockAsIs at hp
  rw [h0] at hp
  simp only [hr, ↓reduceIte] at hp
  obtain ⟨hi, _, _, hl0, _⟩ := pick_issue hp
  exact ⟨hi.streams, hi.cstep, by rw [hl0]; exact h0, by rw [hi.restarted]; exact hr⟩

/-- **as-is collision, for every state**: two consecutive `pick_lock()` calls after a restart (two
    workers being started) give their jobs the same move stream and the same engine stream, entry by
    entry. -/
theorem pickLockAsIs_collide {s s1 s2 : St} {o1 o2 : PickOutcome} {d1 d2 : Nat}
    {ps1 ps2 : List Picked} {ds1 ds2 : List Draw} (h0 : s.locked0 = []) (hr : s.restarted = true)
    (hp1 : pickLockAsIs s o1 d1 = .ok (s1, ps1, ds1))
    (hp2 : pickLockAsIs s1 o2 d2 = .ok (s2, ps2, ds2)) :
    ∀ (j : Nat) (p q : Picked), ps1[j]? = some p → ps2[j]? = some q →
      p.rgen = q.rgen ∧ p.rgenEng = q.rgenEng := by
  obtain ⟨a1, a2, a3, a4⟩ := pickLockAsIs_streams h0 hr hp1
  obtain ⟨b1, _⟩ := pickLockAsIs_streams a3 a4 hp2
  intro j p q hp hq
  obtain ⟨e1, e2⟩ := a1 j p hp
  obtain ⟨f1, f2⟩ := b1 j q hq
  rw [a2] at f1 f2
  exact ⟨e1.trans f1.symm, e2.trans f2.symm⟩

/-! ### between ec057e1 / 5ba2c24 and 147c104: a re-issued job took a FRESH ordinal -/

/-- the re-issue branch of `pick_lock()` as it was before 147c104: the recorded job gets a fresh
    child (the counter advances) and goes back on record, without its ordinal -/
def pickLockFreshOrd (s : St) (o : PickOutcome) (savedDraws : Nat) :
    Except Err (St × List Picked × List Draw) :=
  match s.locked0 with
  | [] => pick (restoreStreamOnce s savedDraws) o
  | (enss0, trajs0) :: rest =>
    match reissue { s with locked0 := rest } enss0 trajs0 with
    | .error er => .error er
    | .ok (s1, pairs) =>
      match mkPicked s1 pairs with
      | .error er => .error er
      | .ok ps =>
        let entry : List Int × List Nat := (enss0.map (fun (e : Nat) => ((e : Int) - (off : Int))), trajs0)
        .ok ({ s1 with spawned := s1.spawned + 1, locked := s1.locked ++ [entry] }, ps, [])

/-- **why the chain broke before 147c104, for every state**: a restart restores
    `spawned = cstep + #locked0`; each as-is re-issue advances the counter AND keeps the job on record,
    so the surplus `spawned − (cstep + #locked + #locked0)` grows by one per re-issued job — the next
    `set_rgen()` (`cstep + len(locked)`) under-counts by the number of re-issued jobs and ordinals
    are handed out twice. -/
theorem reissue_freshOrd_undercounts {s s' : St} {o : PickOutcome} {d : Nat} {ps : List Picked}
    {ds : List Draw} (hne : s.locked0 ≠ []) (hp : pickLockFreshOrd s o d = .ok (s', ps, ds)) :
    s'.spawned + (s.cstep + s.locked.length + s.locked0.length)
      = s.spawned + (s'.cstep + s'.locked.length + s'.locked0.length) + 1 ∧
    StreamsAt s.entropy s.spawned ps := by
  unfold pickLockFreshOrd at hp
  split at hp
  · rename_i h; exact absurd h hne
  rename_i enss0 trajs0 rest hl0
  split at hp
  · exact absurd hp (by simp)
  rename_i s1 pairs hre
  split at hp
  · exact absurd hp (by simp)
  rename_i ps1 hmk
  simp only [Except.ok.injEq, Prod.mk.injEq] at hp
  obtain ⟨rfl, rfl, _⟩ := hp
  obtain ⟨q, ql, _⟩ := reissue_quiet hre
  have hst := mkPicked_streams hmk
  refine ⟨?_, ?_⟩
  · show s1.spawned + 1 + _ = s.spawned + (s1.cstep + (s1.locked ++ _).length + s1.locked0.length) + 1
    rw [q.spawned, q.cstep, ql, q.locked0, hl0]
    simp only [List.length_append, List.length_cons, List.length_nil]
    omega
  · intro j p hp'
    have := hst j p hp'
    rw [q.entropy, q.spawned] at this
    exact this

/-! ### before 17a0342: the counter was always restored as `cstep + #records` -/

/-- the restart before 17a0342: `set_rgen()` ignores what `write_toml` knew about the counter -/
def restoreAsIs17 (im : Image) (n workers tsteps : Nat) (occ : List (List Int)) (ensEng : List (List Nat))
    (weightOf : Nat → List Rat) : Except Err St :=
  restore { im with spawnedRec := none } n workers tsteps occ ensEng weightOf

/-- as-is, for every image: the restored counter is `cstep + #records`, which is below the true
    counter as soon as a record was dropped (or re-issued under a fresh ordinal) before the stop -/
theorem restoreAsIs17_counter {im : Image} {n workers tsteps : Nat} {occ : List (List Int)}
    {ensEng : List (List Nat)} {weightOf : Nat → List Rat} {s' : St}
    (h : restoreAsIs17 im n workers tsteps occ ensEng weightOf = .ok s') :
    s'.spawned = im.cstep + im.locked.length := by
  unfold restoreAsIs17 at h
  exact (restore_spec h).2.2.1

end Infretis.Repex
