import Infretis.Lemmas.RepexC07Issue
/-!
# C07 — historical record: the restart path before the repairs 96833bd / ec057e1

Before the repairs `set_rgen()` built `SeedSequence(entropy = 0, n_children_spawned = cstep)` and
`pick_lock()` called it on EVERY call once no recorded job was left to re-issue.  `setRgenAsIs` /
`pickLockAsIs` reproduce that behaviour on the model's state (they are not part of the model the
tie runs; the current model follows the repaired code).  Consequences proved here, for every state:
two consecutive `pick_lock()` calls after a restart hand out the SAME streams, and the streams carry
entropy 0 whatever the configured seed.
-/
namespace Infretis.Repex

/-- pre-fix `set_rgen()`: `SeedSequence(entropy=0, n_children_spawned=cstep)` + saved stream state -/
def setRgenAsIs (s : St) (savedDraws : Nat) : St :=
  { s with entropy := 0, spawned := s.cstep, mainDraws := savedDraws }

/-- pre-fix `pick_lock()`: `set_rgen()` on every call with nothing left to re-issue; a re-issued job
    was not put back on record -/
def pickLockAsIs (s : St) (o : PickOutcome) (savedDraws : Nat) :
    Except Err (St × List Picked × List Draw) :=
  match s.locked0 with
  | [] => pick (if s.restarted then setRgenAsIs s savedDraws else s) o
  | (enss0, trajs0) :: rest =>
    match reissue { s with locked0 := rest } enss0 trajs0 with
    | .error er => .error er
    | .ok (s1, pairs) =>
      match mkPicked s1 pairs with
      | .error er => .error er
      | .ok ps => .ok ({ s1 with spawned := s1.spawned + 1 }, ps, [])

/-- as-is: after a restart, a `pick_lock()` with nothing to re-issue hands out the streams of
    ordinal `cstep` in the entropy-0 sequence, whatever was handed out before -/
theorem pickLockAsIs_streams {s s' : St} {o : PickOutcome} {d : Nat} {ps : List Picked}
    {ds : List Draw} (h0 : s.locked0 = []) (hr : s.restarted = true)
    (hp : pickLockAsIs s o d = .ok (s', ps, ds)) :
    (∀ j p, ps[j]? = some p → p.rgen = moveStream 0 s.cstep j ∧ p.rgenEng = engStream 0 s.cstep j) ∧
      s'.cstep = s.cstep ∧ s'.locked0 = [] ∧ s'.restarted = true := by
  unfold pickLockAsIs at hp
  rw [h0] at hp
  simp only [hr, ↓reduceIte] at hp
  obtain ⟨hi, _, _, hl0, _⟩ := pick_issue hp
  exact ⟨hi.streams, hi.cstep, by rw [hl0]; exact h0, by rw [hi.restarted]; exact hr⟩

/-- **as-is collision, for every state**: two consecutive `pick_lock()` calls after a restart (two
    workers being started) give their jobs the same move stream and the same engine stream, entry by
    entry. -/
theorem pickLockAsIs_collide {s s1 s2 : St} {o1 o2 : PickOutcome} {d1 d2 : Nat}
    {ps1 ps2 : List Picked} {ds1 ds2 : List Draw} (h0 : s.locked0 = []) (hr : s.restarted = true)
    (hp1 : pickLockAsIs s o1 d1 = .ok (s1, ps1, ds1))
    (hp2 : pickLockAsIs s1 o2 d2 = .ok (s2, ps2, ds2)) :
    ∀ (j : Nat) (p q : Picked), ps1[j]? = some p → ps2[j]? = some q →
      p.rgen = q.rgen ∧ p.rgenEng = q.rgenEng := by
  obtain ⟨a1, a2, a3, a4⟩ := pickLockAsIs_streams h0 hr hp1
  obtain ⟨b1, _⟩ := pickLockAsIs_streams a3 a4 hp2
  intro j p q hp hq
  obtain ⟨e1, e2⟩ := a1 j p hp
  obtain ⟨f1, f2⟩ := b1 j q hq
  rw [a2] at f1 f2
  exact ⟨e1.trans f1.symm, e2.trans f2.symm⟩

end Infretis.Repex
