import Infretis.Lemmas.RepexC07Reissue
/-!
# C07 — chains of restarts

`ChainReach seed y log`: the scheduler state `y` is reached from a fresh start with configured seed
`seed` through any number of rounds (run a history; stop; restart from the restart image; the
initiation loop re-issues the recorded jobs), and `log` are all `Entry`s — fresh jobs and re-issues —
over the whole chain, in issue order.

A restart image may be taken between two events (`restart`) or at the instant `treat_output` writes
`restart.toml`, i.e. before the next job is drawn (`restartMid`, where the code writes the file).
The restarted sampler has the same number of ensembles; workers, steps, engine table and the
recomputed weights are arbitrary.

Scope (stated, not hidden): each restart constructor contains the re-issue phase — as many `start`
events as there are recorded jobs, all of which succeed.  That is what `scheduler()` does first.  If
the restarted run has fewer workers or fewer remaining steps than recorded jobs, the un-re-issued
records are dropped by the code (they never complete; their results are never consumed) and their
ordinals may later be given to fresh jobs; such restarts are outside `ChainReach`.
-/
namespace Infretis.Repex

inductive ChainReach (seed : Nat) : Sys → List Entry → Prop
  | fresh {y0 : Sys} : Init y0 → y0.s.seed = seed → y0.s.entropy = seed → y0.s.spawned = 0 →
      y0.s.cstep = 0 → y0.s.locked = [] → y0.s.lockedOrd = [] → y0.s.locked0Ord = [] →
      ChainReach seed y0 []
  | run {y y' : Sys} {log : List Entry} {evs : List Ev} : ChainReach seed y log →
      run y evs = .ok y' → ChainReach seed y' (log ++ ghost y evs)
  | restart {y y' : Sys} {log : List Entry} {s' : St} {workers tsteps : Nat} {occ : List (List Int)}
      {ensEng : List (List Nat)} {weightOf : Nat → List Rat} {pre : List Ev} :
      ChainReach seed y log →
      restore (persist y.s) y.s.n workers tsteps occ ensEng weightOf = .ok s' →
      pre.length = y.s.locked.length → (∀ ev ∈ pre, ∃ o d, ev = Ev.start o d) →
      Infretis.Repex.run { s := s', jobs := [] } pre = .ok y' →
      ChainReach seed y' (log ++ ghost { s := s', jobs := [] } pre)
  | restartMid {y y' : Sys} {log : List Entry} {k : Nat} {status : Status} {newW : List (List Rat)}
      {s2 s' : St} {workers tsteps : Nat} {occ : List (List Int)} {ensEng : List (List Nat)}
      {weightOf : Nat → List Rat} {pre : List Ev} : ChainReach seed y log →
      midState y k status newW = .ok s2 →
      restore (persist s2) s2.n workers tsteps occ ensEng weightOf = .ok s' →
      pre.length = s2.locked.length → (∀ ev ∈ pre, ∃ o d, ev = Ev.start o d) →
      Infretis.Repex.run { s := s', jobs := [] } pre = .ok y' →
      ChainReach seed y' (log ++ ghost { s := s', jobs := [] } pre)

/-- what holds along every chain -/
structure ChainInv (seed : Nat) (y : Sys) (log : List Entry) : Prop where
  ninv : NInv y
  hseed : y.s.seed = seed
  hentropy : y.s.entropy = seed
  tagged : Tagged seed log
  /-- the `k`-th fresh (= distinct) job of the chain has ordinal `k`; the counter counts them -/
  fresh : freshOrds log = List.range y.s.spawned
  /-- every entry, re-issues included, carries the ordinal of a distinct job issued so far -/
  ordLt : ∀ e ∈ log, e.ord < y.s.spawned
  /-- every job in flight is in the log -/
  jobsLogged : ∀ job ∈ y.jobs, ∃ e ∈ log, e.job = job

/-- one restart, from a stop state that satisfies the invariant -/
theorem chain_restart_step {seed : Nat} {s s' : St} {jobs : List Job} {log : List Entry} {y' : Sys}
    {workers tsteps : Nat} {occ : List (List Int)} {ensEng : List (List Nat)}
    {weightOf : Nat → List Rat} {pre : List Ev}
    (hm : MidInv s jobs) (hseed : s.seed = seed) (htag : Tagged seed log)
    (hfo : freshOrds log = List.range s.spawned) (hlt : ∀ e ∈ log, e.ord < s.spawned)
    (hre : restore (persist s) s.n workers tsteps occ ensEng weightOf = .ok s')
    (hlen : pre.length = s.locked.length) (hst : ∀ ev ∈ pre, ∃ o d, ev = Ev.start o d)
    (hr : Infretis.Repex.run { s := s', jobs := [] } pre = .ok y') :
    ChainInv seed y' (log ++ ghost { s := s', jobs := [] } pre) := by
  obtain ⟨hp, hl0, p1, p2, p3, _, _, _, _⟩ := restart_pinv hm hre
  have hlen' : pre.length = s.lockedOrd.length := by
    rw [hlen, hm.ordLen, hm.recd, List.length_map]
  obtain ⟨g1, g2, g3, g4, _, _, g7, g8, _, _⟩ := phase_run s.lockedOrd pre hp hlen' hst hr
  have hsp : y'.s.spawned = s.spawned := g2.trans p3
  have hen : y'.s.entropy = seed := by rw [g4]; show s'.entropy = seed; rw [p2, hseed]
  have hgt : Tagged seed (ghost { s := s', jobs := [] } pre) := by
    have := (ghost_spec pre { s := s', jobs := [] }).1
    rw [show ({ s := s', jobs := [] } : Sys).s.entropy = s'.entropy from rfl, p2, hseed] at this
    exact this
  have hfr : ∀ e ∈ ghost { s := s', jobs := [] } pre, e.fresh = false ∧ e.ord ∈ s.lockedOrd := by
    intro e he
    have hm' : (e.ord, e.fresh) ∈ (ghost { s := s', jobs := [] } pre).map (fun e => (e.ord, e.fresh)) :=
      List.mem_map.mpr ⟨e, he, rfl⟩
    rw [g8] at hm'
    obtain ⟨o, ho, heq⟩ := List.mem_map.mp hm'
    simp only [Prod.mk.injEq] at heq
    exact ⟨heq.2.symm, by rw [← heq.1]; exact ho⟩
  refine ⟨g1, by rw [g3]; show s'.seed = seed; rw [p1, hseed], hen, htag.append hgt, ?_, ?_, ?_⟩
  · rw [freshOrds_append, hsp, hfo]
    have : freshOrds (ghost { s := s', jobs := [] } pre) = [] := by
      unfold freshOrds
      rw [List.filter_eq_nil_iff.mpr (fun e he => by rw [(hfr e he).1]; simp)]
      rfl
    rw [this, List.append_nil]
  · intro e he
    rw [hsp]
    rcases List.mem_append.mp he with he | he
    · exact hlt e he
    · exact hm.ordLt _ (hfr e he).2
  · intro job hj
    rw [g7] at hj
    simp only [List.nil_append] at hj
    obtain ⟨e, he, hej⟩ := List.mem_map.mp hj
    exact ⟨e, List.mem_append.mpr (Or.inr he), hej⟩

/-- **the chain invariant**: along any chain of restarts the invariant of `RepexC07Count` holds,
    every entry carries the streams `(seed, [ord, j])` / `(seed, [ord, j, 0])` of its ordinal, the
    `k`-th distinct job has ordinal `k`, and re-issues re-use ordinals of distinct jobs issued before. -/
theorem ChainReach.inv {seed : Nat} {y : Sys} {log : List Entry} (h : ChainReach seed y log) :
    ChainInv seed y log := by
  induction h with
  | fresh hi h1 h2 h3 h4 h5 h6 _ =>
    refine ⟨ninv_of_init hi h5 h6 (by rw [h3, h4]), h1, h2, by intro e he; simp at he, ?_,
      by intro e he; simp at he, ?_⟩
    · rw [h3]; rfl
    · intro job hj
      rw [hi.jobs] at hj
      simp at hj
  | @run y y' log evs _ hr ih =>
    obtain ⟨r1, r2, r3, _⟩ := run_spawned evs hr
    obtain ⟨s1, s2, s3⟩ := ghost_spec evs y
    rw [ih.hentropy] at s1
    have hfo : freshOrds (log ++ ghost y evs) = List.range y'.s.spawned := by
      rw [freshOrds_append, ih.fresh, s2, r3, List.range_eq_range', List.range_eq_range']
      have := @List.range'_append 0 y.s.spawned (freshOrds (ghost y evs)).length 1
      simpa using this
    refine ⟨run_ninv evs ih.ninv hr, r1.trans ih.hseed, r2.trans ih.hentropy, ih.tagged.append s1, hfo,
      ?_, ?_⟩
    · intro e he
      rcases List.mem_append.mp he with he | he
      · have := ih.ordLt e he; omega
      · by_cases hf : e.fresh = true
        · have hm : e.ord ∈ freshOrds (log ++ ghost y evs) := by
            rw [freshOrds_append]
            apply List.mem_append.mpr
            right
            unfold freshOrds
            exact List.mem_map.mpr ⟨e, List.mem_filter.mpr ⟨he, hf⟩, rfl⟩
          rw [hfo] at hm
          exact List.mem_range.mp hm
        · -- with nothing waiting to be re-issued every issue of a plain run is a fresh one
          exfalso
          exact hf (ghost_all_fresh evs ih.ninv.core.l0 e he)
    · intro job hj
      rcases jobs_subset_issued evs hr job hj with h | h
      · obtain ⟨e, he, hej⟩ := ih.jobsLogged job h
        exact ⟨e, List.mem_append.mpr (Or.inl he), hej⟩
      · obtain ⟨e, he, hej⟩ := List.mem_map.mp h
        exact ⟨e, List.mem_append.mpr (Or.inr he), hej⟩
  | restart _ hre hlen hst hr ih =>
    exact chain_restart_step ih.ninv.mid ih.hseed ih.tagged ih.fresh ih.ordLt hre hlen hst hr
  | @restartMid y y' log k status newW s2 s' _ _ _ _ _ pre _ hmid hre hlen hst hr ih =>
    obtain ⟨hm2, _, _, hsp⟩ := midState_inv ih.ninv hmid
    obtain ⟨_, _, m1, _, _⟩ := midState_spec hmid
    exact chain_restart_step hm2 (m1.trans ih.hseed) ih.tagged (by rw [hsp]; exact ih.fresh)
      (by rw [hsp]; exact ih.ordLt) hre hlen hst hr

/-- **`reissue_same_streams`**: stop in a state that satisfies the invariant (jobs `jobs` in flight,
    entropy = seed), restart, let the initiation loop re-issue the recorded jobs.  The `i`-th
    re-issued job is the `i`-th job that was in flight at the stop — same ensembles, same path
    numbers — it is re-issued under the ordinal recorded for that job, and it receives exactly the
    move and engine streams that job had before the stop, entry by entry. -/
theorem reissue_same_streams {s s' : St} {jobs : List Job} {y' : Sys} {workers tsteps : Nat}
    {occ : List (List Int)} {ensEng : List (List Nat)} {weightOf : Nat → List Rat} {pre : List Ev}
    (hm : MidInv s jobs) (hent : s.entropy = s.seed)
    (hre : restore (persist s) s.n workers tsteps occ ensEng weightOf = .ok s')
    (hlen : pre.length = s.locked.length) (hst : ∀ ev ∈ pre, ∃ o d, ev = Ev.start o d)
    (hr : Infretis.Repex.run { s := s', jobs := [] } pre = .ok y') :
    (ghost { s := s', jobs := [] } pre).length = jobs.length ∧ y'.s.spawned = s.spawned ∧
    ∀ (i : Nat) (e : Entry) (job : Job), (ghost { s := s', jobs := [] } pre)[i]? = some e →
      jobs[i]? = some job →
      e.fresh = false ∧ s.lockedOrd[i]? = some e.ord ∧ jobRec e.job = jobRec job ∧
      ∀ (j : Nat) (p q : Picked), e.job.picked[j]? = some p → job.picked[j]? = some q →
        p.rgen = q.rgen ∧ p.rgenEng = q.rgenEng := by
  obtain ⟨hp, hl0, _, p2, p3, _, _, _, _⟩ := restart_pinv hm hre
  have hlen' : pre.length = s.lockedOrd.length := by
    rw [hlen, hm.ordLen, hm.recd, List.length_map]
  obtain ⟨_, g2, _, _, _, _, _, g8, g9, _⟩ := phase_run s.lockedOrd pre hp hlen' hst hr
  have hgt := (ghost_spec pre { s := s', jobs := [] }).1
  rw [show ({ s := s', jobs := [] } : Sys).s.entropy = s'.entropy from rfl, p2] at hgt
  have hglen : (ghost { s := s', jobs := [] } pre).length = jobs.length := by
    have := congrArg List.length g8
    simp only [List.length_map] at this
    rw [this, hm.ordLen]
  refine ⟨hglen, g2.trans p3, ?_⟩
  intro i e job hei hji
  have h8 := congrArg (fun l => l[i]?) g8
  simp only [List.getElem?_map, hei, Option.map_some] at h8
  cases hoi : s.lockedOrd[i]? with
  | none => rw [hoi] at h8; simp at h8
  | some ord =>
    rw [hoi] at h8
    simp only [Option.map_some, Option.some.injEq, Prod.mk.injEq] at h8
    obtain ⟨ho, hf⟩ := h8
    have h9 := congrArg (fun l => l[i]?) g9
    rw [show ({ s := s', jobs := [] } : Sys).s.locked0 = s'.locked0 from rfl, hl0] at h9
    simp only [List.getElem?_map, hei, hji, Option.map_some, Option.some.injEq] at h9
    rw [recOf7_jobRec0 job (hm.shape job (List.mem_of_getElem? hji)).ensGe] at h9
    refine ⟨hf, by rw [ho], h9, ?_⟩
    intro j p q hp hq
    have hz : (job, ord) ∈ jobs.zip s.lockedOrd := by
      apply List.mem_of_getElem? (i := i)
      rw [List.getElem?_zip_eq_some]
      exact ⟨hji, hoi⟩
    have hs1 := hm.ordStreams (job, ord) hz j q hq
    have hs2 := hgt e (List.mem_of_getElem? hei) j p hp
    rw [hent] at hs1
    simp only at hs1
    rw [hs2.1, hs2.2, hs1.1, hs1.2, ho]
    exact ⟨rfl, rfl⟩

/-! ### chains without any scope restriction

Since /repo 17a0342 `write_toml` records the spawn counter whenever it is not `cstep + len(locked)`,
so a restart ALWAYS continues the counter (`restore_continues`).  That makes the stream statements
independent of the slot invariant: they hold for arbitrary event lists and arbitrary restarts —
fewer or more workers, fewer remaining steps than recorded jobs (records dropped), a different
number of ensembles, any interleaving the model allows.  What still needs the slot invariant (and
therefore the scope of `ChainReach`) is the ALIGNMENT of records and ordinals: that a re-issued job is
the recorded job and gets that job's ordinal (`reissue_same_streams`, `NInv`). -/

theorem popLockedOrd_subset (pn : Nat) : ∀ (fuel idx : Nat) (L : List (List Int × List Nat))
    (O : List Nat), ∀ x ∈ popLockedOrd pn fuel idx L O, x ∈ O := by
  intro fuel
  induction fuel with
  | zero => intro idx L O x hx; exact hx
  | succ fuel ih =>
    intro idx L O x hx
    unfold popLockedOrd at hx
    split at hx
    · exact hx
    · split at hx
      · exact List.mem_of_mem_eraseIdx (ih _ _ _ x hx)
      · exact ih _ _ _ x hx

theorem popAll_ord_subset : ∀ (ps : List Picked) (L : List (List Int × List Nat)) (O : List Nat),
    ∀ x ∈ (popAll ps (L, O)).2, x ∈ O := by
  intro ps
  induction ps with
  | nil => intro L O x hx; exact hx
  | cons p ps ih =>
    intro L O x hx
    unfold popAll at hx
    rw [List.foldl_cons] at hx
    have := ih _ _ x hx
    exact popLockedOrd_subset p.pn _ _ L O x this

/-- every ordinal on record — with a job in flight or waiting to be re-issued — is below the counter -/
def OrdsBelow (s : St) : Prop :=
  (∀ o ∈ s.lockedOrd, o < s.spawned) ∧ (∀ o, some o ∈ s.locked0Ord → o < s.spawned)

theorem Issue.ordsBelow {sb s' : St} {ps : List Picked} {ord : Nat} {fresh : Bool}
    (hi : Issue sb s' ps ord fresh) (hb : OrdsBelow sb) : OrdsBelow s' := by
  obtain ⟨b1, b2⟩ := hb
  rcases hi.kind with ⟨_, ho, hsp, hl⟩ | ⟨_, hsp, hl⟩
  · refine ⟨?_, ?_⟩
    · intro o hmem
      rw [hi.lockedOrd] at hmem
      rw [hsp]
      rcases List.mem_append.mp hmem with h | h
      · have := b1 o h; omega
      · simp only [List.mem_singleton] at h; omega
    · intro o hmem
      rw [hsp]
      have : some o ∈ sb.locked0Ord := by
        rcases hl with hl | hl
        · rw [hl] at hmem; exact hmem
        · rw [hl] at hmem; exact List.mem_of_mem_tail hmem
      have := b2 o this
      omega
  · have hord : ord < sb.spawned := b2 ord (by rw [hl]; exact List.mem_cons_self ..)
    refine ⟨?_, ?_⟩
    · intro o hmem
      rw [hi.lockedOrd] at hmem
      rw [hsp]
      rcases List.mem_append.mp hmem with h | h
      · exact b1 o h
      · simp only [List.mem_singleton] at h; omega
    · intro o hmem
      rw [hsp]
      exact b2 o (by rw [hl]; exact List.mem_cons_of_mem _ hmem)

theorem midState_ordsBelow {y : Sys} {k : Nat} {status : Status} {newW : List (List Rat)} {s2 : St}
    (hb : OrdsBelow y.s) (h : midState y k status newW = .ok s2) : OrdsBelow s2 := by
  obtain ⟨job, _, _, _, m3, _, _, m6, _, m8⟩ := midState_spec h
  have hO : s2.lockedOrd = (popAll job.picked (y.s.locked, y.s.lockedOrd)).2 := by rw [← m8]
  refine ⟨?_, ?_⟩
  · intro o ho
    rw [hO] at ho
    rw [m3]
    exact hb.1 o (popAll_ord_subset _ _ _ o ho)
  · intro o ho
    rw [m6] at ho
    rw [m3]
    exact hb.2 o ho

theorem sysStepJ_ordsBelow {y y' : Sys} {ev : Ev} {oj : Option (Job × List Draw)}
    (hb : OrdsBelow y.s) (h : sysStepJ y ev = .ok (y', oj)) : OrdsBelow y'.s := by
  cases ev with
  | start o saved =>
    obtain ⟨s1, job, ds, _, ⟨q, _, qo⟩, hprep, _, _, _⟩ := sysStepJ_start h
    obtain ⟨ord, fresh, hi⟩ := prep_issue hprep
    exact hi.ordsBelow ⟨by rw [qo, q.spawned]; exact hb.1, by rw [q.locked0Ord, q.spawned]; exact hb.2⟩
  | initDone =>
    obtain ⟨_, ⟨q, _, qo⟩, _, _⟩ := sysStepJ_initDone h
    exact ⟨by rw [qo, q.spawned]; exact hb.1, by rw [q.locked0Ord, q.spawned]; exact hb.2⟩
  | step k status newW o =>
    obtain ⟨job, s2, _, hmid, hrest⟩ := sysStepJ_step h
    have h2 := midState_ordsBelow hb hmid
    rcases hrest with ⟨job', ds, hprep, _, _⟩ | ⟨hs, _, _⟩
    · obtain ⟨ord, fresh, hi⟩ := prep_issue hprep
      exact hi.ordsBelow h2
    · rw [hs]; exact h2

theorem run_ordsBelow : ∀ (evs : List Ev) {y y' : Sys}, OrdsBelow y.s → run y evs = .ok y' →
    OrdsBelow y'.s := by
  intro evs
  induction evs with
  | nil =>
    intro y y' hb h
    simp only [run, Except.ok.injEq] at h
    subst h
    exact hb
  | cons ev rest ih =>
    intro y y' hb h
    obtain ⟨y1, oj, hj, hr⟩ := run_cons h
    exact ih (sysStepJ_ordsBelow hb hj) hr

theorem restore_ordsBelow {s s' : St} {n workers tsteps : Nat} {occ : List (List Int)}
    {ensEng : List (List Nat)} {weightOf : Nat → List Rat} (hb : OrdsBelow s)
    (h : restore (persist s) n workers tsteps occ ensEng weightOf = .ok s') : OrdsBelow s' := by
  obtain ⟨_, _, r3, _, r5, _, _, r8⟩ := restore_continues h
  refine ⟨by rw [r5]; intro o ho; simp at ho, ?_⟩
  intro o ho
  rw [r8] at ho
  rw [r3]
  obtain ⟨o', ho', heq⟩ := List.mem_map.mp ho
  simp only [Option.some.injEq] at heq
  rw [← heq]
  exact hb.1 o' ho'

/-- chains with NO scope restriction: a fresh start, any histories that run, any restarts (between
    events or from the file written inside `treat_output`), with any number of ensembles, workers,
    steps, any engine table; what the restarted sampler re-issues (everything, a prefix, nothing) is
    just part of the next history -/
inductive ChainAny (seed : Nat) : Sys → List Entry → Prop
  | fresh {y0 : Sys} : y0.s.seed = seed → y0.s.entropy = seed → y0.s.spawned = 0 →
      y0.s.lockedOrd = [] → y0.s.locked0Ord = [] → ChainAny seed y0 []
  | run {y y' : Sys} {log : List Entry} {evs : List Ev} : ChainAny seed y log →
      Infretis.Repex.run y evs = .ok y' → ChainAny seed y' (log ++ ghost y evs)
  | restart {y : Sys} {log : List Entry} {s' : St} {n workers tsteps : Nat} {occ : List (List Int)}
      {ensEng : List (List Nat)} {weightOf : Nat → List Rat} : ChainAny seed y log →
      restore (persist y.s) n workers tsteps occ ensEng weightOf = .ok s' →
      ChainAny seed { s := s', jobs := [] } log
  | restartMid {y : Sys} {log : List Entry} {k : Nat} {status : Status} {newW : List (List Rat)}
      {s2 s' : St} {n workers tsteps : Nat} {occ : List (List Int)} {ensEng : List (List Nat)}
      {weightOf : Nat → List Rat} : ChainAny seed y log →
      midState y k status newW = .ok s2 →
      restore (persist s2) n workers tsteps occ ensEng weightOf = .ok s' →
      ChainAny seed { s := s', jobs := [] } log

structure AnyInv (seed : Nat) (y : Sys) (log : List Entry) : Prop where
  hseed : y.s.seed = seed
  hentropy : y.s.entropy = seed
  tagged : Tagged seed log
  /-- the `k`-th fresh (= distinct) job of the chain has ordinal `k`; the counter counts them -/
  fresh : freshOrds log = List.range y.s.spawned
  /-- every entry, re-issues included, carries the ordinal of a distinct job issued so far -/
  ordLt : ∀ e ∈ log, e.ord < y.s.spawned
  below : OrdsBelow y.s

theorem ChainAny.inv {seed : Nat} {y : Sys} {log : List Entry} (h : ChainAny seed y log) :
    AnyInv seed y log := by
  induction h with
  | fresh h1 h2 h3 h4 h5 =>
    refine ⟨h1, h2, by intro e he; simp at he, by rw [h3]; rfl, by intro e he; simp at he, ?_, ?_⟩
    · rw [h4]; intro o ho; simp at ho
    · rw [h5]; intro o ho; simp at ho
  | @run y y' log evs _ hr ih =>
    obtain ⟨r1, r2, r3, _⟩ := run_spawned evs hr
    obtain ⟨s1, s2, s3⟩ := ghost_spec evs y
    rw [ih.hentropy] at s1
    have hfo : freshOrds (log ++ ghost y evs) = List.range y'.s.spawned := by
      rw [freshOrds_append, ih.fresh, s2, r3, List.range_eq_range', List.range_eq_range']
      have := @List.range'_append 0 y.s.spawned (freshOrds (ghost y evs)).length 1
      simpa using this
    refine ⟨r1.trans ih.hseed, r2.trans ih.hentropy, ih.tagged.append s1, hfo, ?_, run_ordsBelow evs ih.below hr⟩
    intro e he
    rcases List.mem_append.mp he with he | he
    · have := ih.ordLt e he; omega
    · cases hf : e.fresh with
      | true =>
        have hm : e.ord ∈ freshOrds (log ++ ghost y evs) := by
          rw [freshOrds_append]
          apply List.mem_append.mpr
          right
          unfold freshOrds
          exact List.mem_map.mpr ⟨e, List.mem_filter.mpr ⟨he, hf⟩, rfl⟩
        rw [hfo] at hm
        exact List.mem_range.mp hm
      | false =>
        have hm : some e.ord ∈ (reissueOrds (ghost y evs)).map some := by
          apply List.mem_map.mpr
          refine ⟨e.ord, ?_, rfl⟩
          unfold reissueOrds
          exact List.mem_map.mpr ⟨e, List.mem_filter.mpr ⟨he, by simp [hf]⟩, rfl⟩
        have := ih.below.2 e.ord (s3.subset hm)
        omega
  | restart _ hre ih =>
    obtain ⟨r1, r2, r3, _⟩ := restore_continues hre
    exact ⟨r1.trans ih.hseed, r2.trans ih.hseed, ih.tagged, by rw [r3]; exact ih.fresh,
      by rw [r3]; exact ih.ordLt, restore_ordsBelow ih.below hre⟩
  | restartMid _ hmid hre ih =>
    obtain ⟨_, _, m1, _, m3, _⟩ := midState_spec hmid
    obtain ⟨r1, r2, r3, _⟩ := restore_continues hre
    have hb2 := midState_ordsBelow ih.below hmid
    exact ⟨(r1.trans m1).trans ih.hseed, (r2.trans m1).trans ih.hseed, ih.tagged,
      by rw [r3, m3]; exact ih.fresh, by rw [r3, m3]; exact ih.ordLt, restore_ordsBelow hb2 hre⟩

/-- a chain in the restricted sense (every restart re-issues all records) is a chain -/
theorem ChainReach.toAny {seed : Nat} {y : Sys} {log : List Entry} (h : ChainReach seed y log) :
    ChainAny seed y log := by
  induction h with
  | fresh _ h1 h2 h3 _ _ h6 h7 => exact ChainAny.fresh h1 h2 h3 h6 h7
  | run _ hr ih => exact ChainAny.run ih hr
  | restart _ hre _ _ hr ih => exact ChainAny.run (ChainAny.restart ih hre) hr
  | restartMid _ hmid hre _ _ hr ih => exact ChainAny.run (ChainAny.restartMid ih hmid hre) hr

end Infretis.Repex
