import Infretis.Lemmas.RepexC07Count
/-!
# C07 — chains of restarts

`ChainReach seed y js`: the scheduler state `y` is reached from a fresh start with configured seed
`seed` through any number of rounds (run a history; stop; restart from the restart image), and `js`
are all jobs issued on the way, over the whole chain, in issue order.

A restart may be taken between two events (`restart`) or at the instant `treat_output` writes
`restart.toml`, i.e. before the next job is drawn (`restartMid`) — the latter is where the code
writes the file.  Both constructors carry the guard `spawned = cstep + #locked` for the state the
image is taken from ("the in-flight record is exact").  `RepexC07Count` proves the guard for every
state of a history that starts with an exact record and nothing to re-issue (a fresh start, or a
restart without in-flight jobs).  After a restart WITH in-flight jobs the guard is false in general
(re-issued jobs consume new ordinals but were already counted) — see the counterexample in
`Props/C07.lean`.
-/
namespace Infretis.Repex

inductive ChainReach (seed : Nat) : Sys → List Job → Prop
  | fresh {s0 : St} : s0.seed = seed → s0.entropy = seed → s0.spawned = 0 →
      ChainReach seed { s := s0, jobs := [] } []
  | run {y y' : Sys} {js : List Job} {evs : List Ev} : ChainReach seed y js → run y evs = .ok y' →
      ChainReach seed y' (js ++ issued y evs)
  | restart {y : Sys} {js : List Job} {s' : St} {n workers tsteps : Nat} {occ : List (List Int)}
      {ensEng : List (List Nat)} {weightOf : Nat → List Rat} : ChainReach seed y js →
      y.s.spawned = y.s.cstep + y.s.locked.length →
      restore (persist y.s) n workers tsteps occ ensEng weightOf = .ok s' →
      ChainReach seed { s := s', jobs := [] } js
  | restartMid {y : Sys} {js : List Job} {k : Nat} {status : Status} {newW : List (List Rat)}
      {s2 s' : St} {n workers tsteps : Nat} {occ : List (List Int)}
      {ensEng : List (List Nat)} {weightOf : Nat → List Rat} : ChainReach seed y js →
      midState y k status newW = .ok s2 →
      s2.spawned = s2.cstep + s2.locked.length →
      restore (persist s2) n workers tsteps occ ensEng weightOf = .ok s' →
      ChainReach seed { s := s', jobs := [] } js

/-- along a chain the seed sequence is the one of the configured seed, the spawn counter counts all
    jobs issued over the whole chain, and the `k`-th of them carries the streams of ordinal `k` -/
theorem ChainReach.streams {seed : Nat} {y : Sys} {js : List Job} (h : ChainReach seed y js) :
    y.s.seed = seed ∧ y.s.entropy = seed ∧ y.s.spawned = js.length ∧ StreamsFrom seed 0 js := by
  induction h with
  | fresh h1 h2 h3 => exact ⟨h1, h2, by simpa using h3, StreamsFrom.nil _ _⟩
  | @run y y' js evs _ hr ih =>
    obtain ⟨i1, i2, i3, i4⟩ := ih
    obtain ⟨r1, r2, r3⟩ := run_spawned evs hr
    refine ⟨r1.trans i1, r2.trans i2, by rw [r3, i3, List.length_append], ?_⟩
    apply StreamsFrom.append i4
    have := issued_streams evs y
    rw [i2, i3] at this
    rw [Nat.zero_add]
    exact this
  | restart _ hg hre ih =>
    obtain ⟨i1, i2, i3, i4⟩ := ih
    obtain ⟨r1, r2, r3, _⟩ := restore_continues hg hre
    exact ⟨r1.trans i1, r2.trans i1, r3.trans i3, i4⟩
  | restartMid _ hm hg hre ih =>
    obtain ⟨i1, i2, i3, i4⟩ := ih
    obtain ⟨_, _, m1, _, m3, _⟩ := midState_spec hm
    obtain ⟨r1, r2, r3, _⟩ := restore_continues hg hre
    exact ⟨(r1.trans m1).trans i1, (r2.trans m1).trans i1, (r3.trans m3).trans i3, i4⟩

end Infretis.Repex
