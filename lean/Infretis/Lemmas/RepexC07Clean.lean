import Infretis.Lemmas.RepexC07Chain
/-!
# C07 — a restart without jobs in flight starts a segment with an exact record

If the restart image is taken from a state that satisfies C03's slot invariant `Core` and has no job
on record (`locked = []`), the restarted sampler (same number of ensembles; any workers, steps,
engine table, recomputed weights) satisfies C03's `Init`, has nothing to re-issue and
`spawned = cstep`.  Hence (`run_count`) the in-flight record stays exact throughout the new segment,
which is the guard the chain theorem needs at the next restart.
-/
namespace Infretis.Repex
open Infretis.Perm

theorem filterMap_id_somes : ∀ (l : List (Option Nat)), (∀ x ∈ l, ∃ pn, x = some pn) →
    (l.filterMap id).map some = l := by
  intro l
  induction l with
  | nil => intro _; rfl
  | cons x l ih =>
    intro h
    obtain ⟨pn, rfl⟩ := h x (List.mem_cons_self ..)
    have e := ih (fun y hy => h y (List.mem_cons_of_mem _ hy))
    simp only [List.filterMap_cons, id_eq, List.map_cons]
    exact congrArg (some pn :: ·) e

theorem filterMap_map_some {β : Type} (g : Nat → β) (pns : List Nat) :
    (pns.map some).filterMap (fun o => o.map g) = pns.map g := by
  induction pns with
  | nil => rfl
  | cons x l ih => simp [ih]

theorem nodup_of_idx_inj {α : Type} (l : List α)
    (h : ∀ i j, i < l.length → j < l.length → l[i]? = l[j]? → i = j) : l.Nodup := by
  unfold List.Nodup
  rw [List.pairwise_iff_getElem]
  intro i j hi hj hij heq
  have := h i j hi hj (by rw [List.getElem?_eq_getElem hi, List.getElem?_eq_getElem hj, heq])
  omega

theorem clean_restart_is_init {s s' : St} {H : List (Nat × Nat)} (hc : Core s H s.trajNum)
    (hl : s.locked = []) {workers tsteps : Nat} {occ : List (List Int)} {ensEng : List (List Nat)}
    {weightOf : Nat → List Rat}
    (h : restore (persist s) s.n workers tsteps occ ensEng weightOf = .ok s') :
    Init { s := s', jobs := [] } ∧ s'.locked = [] ∧ s'.spawned = s'.cstep := by
  obtain ⟨_, _, r3, r4, r5, _⟩ := restore_spec h
  have hlk : (persist s).locked = [] := by simp [persist, hl]
  refine ⟨?_, r5, by rw [r3, r4, hlk]; rfl⟩
  unfold restore at h
  simp only [] at h
  rw [hlk] at h
  -- the live paths: n − 1 distinct numbers below trajNum
  have hact : (persist s).active = s.trajs.dropLast := rfl
  have hlen : (s.trajs.dropLast).length = s.n - 1 := by simp [hc.lenT]
  have hget : ∀ i, i < s.n - 1 → (s.trajs.dropLast)[i]? = s.trajs[i]? := by
    intro i hi
    rw [List.getElem?_dropLast, if_pos (by rw [hc.lenT]; exact hi)]
  have hsomes : ∀ x ∈ s.trajs.dropLast, ∃ pn, x = some pn ∧ pn < s.trajNum := by
    intro x hx
    obtain ⟨i, hi⟩ := List.mem_iff_getElem?.mp hx
    have hilt : i < s.n - 1 := by rw [← hlen]; exact getElem?_lt_of_some _ _ _ hi
    obtain ⟨pn, hpn, hlt⟩ := hc.live i hilt
    rw [hget i hilt, hpn] at hi
    exact ⟨pn, by simpa using hi.symm, hlt⟩
  have hmap := filterMap_id_somes (s.trajs.dropLast) (fun x hx => by
    obtain ⟨pn, h1, _⟩ := hsomes x hx; exact ⟨pn, h1⟩)
  generalize hp : (s.trajs.dropLast).filterMap id = pns at hmap
  have hndA : (s.trajs.dropLast).Nodup := by
    apply nodup_of_idx_inj
    intro i j hi hj hij
    rw [hlen] at hi hj
    obtain ⟨pn, hpn, _⟩ := hc.live i hi
    rw [hget i hi, hget j hj, hpn] at hij
    exact hc.inj i j pn hi hj hpn hij.symm
  rw [hact, ← hmap, filterMap_map_some] at h
  apply init_of_loadPaths s.n workers tsteps (persist s).cstep (persist s).trajNum (persist s).seed occ ensEng
    true _ s' hc.n2 ?_ ?_ ?_ h
  · rw [List.length_map, ← hlen, ← hmap, List.length_map]
  · rw [List.map_map]
    have : ((fun x : Nat × List Rat × List Rat => x.1) ∘ fun pn =>
        (pn, weightOf pn, (List.lookup pn (persist s).frac).getD (List.replicate s.n 0))) = id := rfl
    rw [this, List.map_id]
    rw [← hmap] at hndA
    exact List.Pairwise.of_map some
      (fun a b (hne : some a ≠ some b) (hab : a = b) => hne (congrArg some hab)) hndA
  · intro p hp'
    obtain ⟨pn, hpn, rfl⟩ := List.mem_map.mp hp'
    have : some pn ∈ s.trajs.dropLast := by
      rw [← hmap]; exact List.mem_map.mpr ⟨pn, hpn, rfl⟩
    obtain ⟨pn', h1, h2⟩ := hsomes _ this
    simp only [Option.some.injEq] at h1
    subst h1
    exact h2

/-- C03's slot invariant at the instant `treat_output` writes the restart file -/
theorem midState_core {y : Sys} {k : Nat} {status : Status} {newW : List (List Rat)} {s2 : St}
    (hi : Inv y) (h : midState y k status newW = .ok s2) :
    Core s2 (held (y.jobs.eraseIdx k)) s2.trajNum := by
  unfold midState at h
  simp only [] at h
  split at h
  · exact absurd h (by simp)
  rename_i job hjob
  split at h
  · exact absurd h (by simp)
  rename_i s2' pns it htreat
  simp only [Except.ok.injEq] at h
  subst h
  have hperm := held_perm_erase y.jobs k job hjob
  have hc1 : Core { y.s with cstep := y.s.cstep + 1 } (heldJob job ++ held (y.jobs.eraseIdx k))
      y.s.trajNum :=
    (hi.core.congr (s' := { y.s with cstep := y.s.cstep + 1 }) ⟨rfl, rfl, rfl, rfl, rfl⟩).perm hperm
  exact (treatOutput_core job status newW _ pns it hc1 htreat).1

end Infretis.Repex
