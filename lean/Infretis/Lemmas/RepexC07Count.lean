import Infretis.Lemmas.RepexC07Distinct
import Infretis.Lemmas.RepexC03Load
/-!
# C07 — the counting invariant behind the restart arithmetic

`set_rgen()` restores the spawn counter as `cstep + len(locked)`.  That is the number of distinct
jobs issued so far exactly when `locked` lists the jobs in flight, one record each:
`distinct jobs issued = completed steps + jobs in flight`.

`NInv y` (for states with nothing left to re-issue): C03's slot invariant `Core` for the jobs in
flight, `locked` lists exactly the (ensembles, path numbers) of the jobs in flight in order,
`lockedOrd` lists their ordinals (each job carries the streams of its recorded ordinal), the
ordinals are pairwise distinct and below the counter, and `spawned = cstep + #locked`.
It is kept by every event, at every instant between events and at the instant `treat_output`
writes the restart file (`midState`).  The delicate part is the pop-while-iterating loop of
`treat_output`, which removes exactly the completed job's record (and ordinal) because path numbers
of jobs in flight are pairwise distinct (C03).
-/
namespace Infretis.Repex
open Infretis.Perm

/-! ### popLocked / popLockedOrd -/

theorem popLocked_noop (pn : Nat) : ∀ (fuel idx : Nat) (L : List (List Int × List Nat)),
    (∀ e ∈ L, pn ∉ e.2) → popLocked pn fuel idx L = L := by
  intro fuel
  induction fuel with
  | zero => intro idx L _; rfl
  | succ fuel ih =>
    intro idx L h
    unfold popLocked
    split
    · rfl
    · rename_i entry he
      have hm := h entry (List.mem_of_getElem? he)
      have hc : entry.2.contains pn = false := by
        cases hcc : entry.2.contains pn with
        | false => rfl
        | true => exact absurd (List.contains_iff_mem.mp hcc) hm
      rw [hc]
      exact ih (idx + 1) L h

theorem popLocked_erase (pn : Nat) (L : List (List Int × List Nat)) (k : Nat)
    (e : List Int × List Nat) (hk : L[k]? = some e) (hin : pn ∈ e.2)
    (huniq : ∀ i e', L[i]? = some e' → pn ∈ e'.2 → i = k) :
    ∀ (fuel idx : Nat), idx ≤ k → k - idx < fuel → popLocked pn fuel idx L = L.eraseIdx k := by
  intro fuel
  induction fuel with
  | zero => intro idx _ h; omega
  | succ fuel ih =>
    intro idx hle hf
    unfold popLocked
    have hklt : k < L.length := getElem?_lt_of_some _ _ _ hk
    have hidx : idx < L.length := by omega
    rw [List.getElem?_eq_getElem hidx]
    simp only []
    by_cases hik : idx = k
    · subst hik
      have he : L[idx] = e := by
        rw [List.getElem?_eq_getElem hidx] at hk
        simpa using hk
      rw [he]
      have hc : e.2.contains pn = true := List.contains_iff_mem.mpr hin
      rw [hc]
      simp only [↓reduceIte]
      apply popLocked_noop
      intro e' he' hpn
      obtain ⟨i, hne, hi⟩ := List.mem_eraseIdx_iff_getElem?.mp he'
      exact hne (huniq i e' hi hpn)
    · have hc : (L[idx]).2.contains pn = false := by
        cases hcc : (L[idx]).2.contains pn with
        | false => rfl
        | true =>
          exfalso
          apply hik
          exact huniq idx L[idx] (List.getElem?_eq_getElem hidx) (List.contains_iff_mem.mp hcc)
      rw [hc]
      simp only [Bool.false_eq_true, ↓reduceIte]
      exact ih (idx + 1) (by omega) (by omega)

theorem popLockedOrd_noop (pn : Nat) : ∀ (fuel idx : Nat) (L : List (List Int × List Nat))
    (O : List Nat), (∀ e ∈ L, pn ∉ e.2) → popLockedOrd pn fuel idx L O = O := by
  intro fuel
  induction fuel with
  | zero => intro idx L O _; rfl
  | succ fuel ih =>
    intro idx L O h
    unfold popLockedOrd
    split
    · rfl
    · rename_i entry he
      have hm := h entry (List.mem_of_getElem? he)
      have hc : entry.2.contains pn = false := by
        cases hcc : entry.2.contains pn with
        | false => rfl
        | true => exact absurd (List.contains_iff_mem.mp hcc) hm
      rw [hc]
      exact ih (idx + 1) L O h

theorem popLockedOrd_erase (pn : Nat) (L : List (List Int × List Nat)) (O : List Nat) (k : Nat)
    (e : List Int × List Nat) (hk : L[k]? = some e) (hin : pn ∈ e.2)
    (huniq : ∀ i e', L[i]? = some e' → pn ∈ e'.2 → i = k) :
    ∀ (fuel idx : Nat), idx ≤ k → k - idx < fuel → popLockedOrd pn fuel idx L O = O.eraseIdx k := by
  intro fuel
  induction fuel with
  | zero => intro idx _ h; omega
  | succ fuel ih =>
    intro idx hle hf
    unfold popLockedOrd
    have hklt : k < L.length := getElem?_lt_of_some _ _ _ hk
    have hidx : idx < L.length := by omega
    rw [List.getElem?_eq_getElem hidx]
    simp only []
    by_cases hik : idx = k
    · subst hik
      have he : L[idx] = e := by
        rw [List.getElem?_eq_getElem hidx] at hk
        simpa using hk
      rw [he]
      have hc : e.2.contains pn = true := List.contains_iff_mem.mpr hin
      rw [hc]
      simp only [↓reduceIte]
      apply popLockedOrd_noop
      intro e' he' hpn
      obtain ⟨i, hne, hi⟩ := List.mem_eraseIdx_iff_getElem?.mp he'
      exact hne (huniq i e' hi hpn)
    · have hc : (L[idx]).2.contains pn = false := by
        cases hcc : (L[idx]).2.contains pn with
        | false => rfl
        | true =>
          exfalso
          apply hik
          exact huniq idx L[idx] (List.getElem?_eq_getElem hidx) (List.contains_iff_mem.mp hcc)
      rw [hc]
      simp only [Bool.false_eq_true, ↓reduceIte]
      exact ih (idx + 1) (by omega) (by omega)

theorem popAll_noop : ∀ (ps : List Picked) (L : List (List Int × List Nat)) (O : List Nat),
    (∀ p ∈ ps, ∀ e ∈ L, p.pn ∉ e.2) → popAll ps (L, O) = (L, O) := by
  intro ps
  induction ps with
  | nil => intro L O _; rfl
  | cons p ps ih =>
    intro L O h
    unfold popAll
    rw [List.foldl_cons]
    simp only []
    rw [popLocked_noop p.pn _ _ L (h p (List.mem_cons_self ..)),
      popLockedOrd_noop p.pn _ _ L O (h p (List.mem_cons_self ..))]
    exact ih L O (fun q hq => h q (List.mem_cons_of_mem _ hq))

/-- the pops of a completed job remove exactly its own record and its ordinal when its path numbers
    occur in no other record -/
theorem popAll_erase (ps : List Picked) (hne : ps ≠ []) (L : List (List Int × List Nat)) (O : List Nat)
    (k : Nat) (e : List Int × List Nat) (hk : L[k]? = some e) (he : e.2 = ps.map (·.pn))
    (huniq : ∀ p ∈ ps, ∀ i e', L[i]? = some e' → p.pn ∈ e'.2 → i = k) :
    popAll ps (L, O) = (L.eraseIdx k, O.eraseIdx k) := by
  cases ps with
  | nil => exact absurd rfl hne
  | cons p rest =>
    unfold popAll
    rw [List.foldl_cons]
    simp only []
    have hin : p.pn ∈ e.2 := by rw [he]; simp
    have hklt : k < L.length := getElem?_lt_of_some _ _ _ hk
    rw [popLocked_erase p.pn L k e hk hin (huniq p (List.mem_cons_self ..)) L.length 0
      (Nat.zero_le _) (by omega),
      popLockedOrd_erase p.pn L O k e hk hin (huniq p (List.mem_cons_self ..)) L.length 0
      (Nat.zero_le _) (by omega)]
    apply popAll_noop
    intro q hq e' he' hpn
    obtain ⟨i, hnei, hi⟩ := List.mem_eraseIdx_iff_getElem?.mp he'
    exact hnei (huniq q (List.mem_cons_of_mem _ hq) i e' hi hpn)

/-! ### list helpers -/

theorem map_eraseIdx {α β : Type} (f : α → β) : ∀ (l : List α) (k : Nat),
    (l.eraseIdx k).map f = (l.map f).eraseIdx k := by
  intro l
  induction l with
  | nil => intro k; simp
  | cons x l ih =>
    intro k
    cases k with
    | zero => simp
    | succ k => simp [ih k]

theorem flatten_nodup_unique {α : Type} : ∀ (LL : List (List α)) (i k : Nat) (a b : List α) (x : α),
    LL.flatten.Nodup → LL[i]? = some a → LL[k]? = some b → x ∈ a → x ∈ b → i = k := by
  intro LL
  induction LL with
  | nil => intro i k a b x _ hi; simp at hi
  | cons l0 rest ih =>
    intro i k a b x hn hi hk ha hb
    rw [List.flatten_cons, List.nodup_append] at hn
    obtain ⟨_, hnr, hdis⟩ := hn
    cases i with
    | zero =>
      cases k with
      | zero => rfl
      | succ k =>
        exfalso
        simp only [List.getElem?_cons_zero, Option.some.injEq] at hi
        simp only [List.getElem?_cons_succ] at hk
        subst hi
        exact hdis x ha x (List.mem_flatten.mpr ⟨b, List.mem_of_getElem? hk, hb⟩) rfl
    | succ i =>
      cases k with
      | zero =>
        exfalso
        simp only [List.getElem?_cons_zero, Option.some.injEq] at hk
        simp only [List.getElem?_cons_succ] at hi
        subst hk
        exact hdis x hb x (List.mem_flatten.mpr ⟨a, List.mem_of_getElem? hi, ha⟩) rfl
      | succ k =>
        simp only [List.getElem?_cons_succ] at hi hk
        rw [ih i k a b x hnr hi hk ha hb]

theorem zip_eraseIdx {α β : Type} : ∀ (l1 : List α) (l2 : List β) (k : Nat),
    (l1.eraseIdx k).zip (l2.eraseIdx k) = (l1.zip l2).eraseIdx k := by
  intro l1
  induction l1 with
  | nil => intro l2 k; simp
  | cons a l1 ih =>
    intro l2 k
    cases l2 with
    | nil => cases k <;> simp
    | cons b l2 =>
      cases k with
      | zero => simp
      | succ k => simp [ih l2 k]

/-! ### the invariant -/

/-- path numbers handed to a job -/
def jobPns (j : Job) : List Nat := j.picked.map (·.pn)

/-- the `locked` record of a job: ensemble numbers and path numbers -/
def jobRec (j : Job) : List Int × List Nat := (j.picked.map (·.ens), j.picked.map (·.pn))

/-- shape of an `md_items` in flight: one ensemble, or exactly `[0-]` and `[0+]` -/
structure JobShape (j : Job) : Prop where
  shape : j.picked.length = 1 ∨ j.picked.map (·.ens) = [-1, 0]
  ensGe : ∀ p ∈ j.picked, -1 ≤ p.ens

/-- the invariant of a sampler with nothing left to re-issue -/
structure NInv (y : Sys) : Prop where
  core : Core y.s (held y.jobs) y.s.trajNum
  shape : ∀ j ∈ y.jobs, JobShape j
  recd : y.s.locked = y.jobs.map jobRec
  ordLen : y.s.lockedOrd.length = y.jobs.length
  ordStreams : ∀ jo ∈ y.jobs.zip y.s.lockedOrd, StreamsAt y.s.entropy jo.2 jo.1.picked
  count : y.s.spawned = y.s.cstep + y.s.locked.length
  ordLt : ∀ o ∈ y.s.lockedOrd, o < y.s.spawned
  ordNodup : y.s.lockedOrd.Nodup

theorem NInv.len {y : Sys} (h : NInv y) : y.s.locked.length = y.jobs.length := by
  rw [h.recd, List.length_map]

theorem inflight_pns_nodup {s : St} {jobs : List Job} {tn : Nat} (hc : Core s (held jobs) tn) :
    (jobs.map jobPns).flatten.Nodup := by
  have hn := hc.nodup
  have e : ∀ jobs : List Job, (jobs.map jobPns).flatten = (held jobs).map Prod.snd := by
    intro jobs
    induction jobs with
    | nil => rfl
    | cons j js ih =>
      have hh : held (j :: js) = heldJob j ++ held js := by simp [held]
      rw [List.map_cons, List.flatten_cons, hh, List.map_append, ih]
      simp [jobPns, heldJob, List.map_map, Function.comp_def]
  rw [e]
  refine nodup_map_of_nodup_map Prod.fst Prod.snd _ hn ?_
  intro x hx z hz hxz
  obtain ⟨e1, p1⟩ := x
  obtain ⟨e2, p2⟩ := z
  simp only at hxz
  subst hxz
  obtain ⟨h1, h2, _⟩ := hc.heldOk e1 p1 hx
  obtain ⟨h3, h4, _⟩ := hc.heldOk e2 p1 hz
  exact hc.inj e1 e2 p1 h1 h3 h2 h4

theorem initiate_coreEq (s : St) : CoreEq s (initiate s).1 ∧ (initiate s).1.trajNum = s.trajNum := by
  rcases initiate_cases s with ⟨h, _⟩ | ⟨ti, _, h⟩
  · rw [h]; exact ⟨CoreEq.refl s, rfl⟩
  · rw [h]; exact ⟨⟨rfl, rfl, rfl, rfl, rfl⟩, rfl⟩

/-- C03's slot invariant at the instant `treat_output` writes the restart file -/
theorem midState_core {y : Sys} {k : Nat} {status : Status} {newW : List (List Rat)} {s2 : St}
    (hc : Core y.s (held y.jobs) y.s.trajNum) (h : midState y k status newW = .ok s2) :
    Core s2 (held (y.jobs.eraseIdx k)) s2.trajNum := by
  unfold midState at h
  simp only [] at h
  split at h
  · exact absurd h (by simp)
  rename_i job hjob
  split at h
  · exact absurd h (by simp)
  rename_i s2' pns it htreat
  simp only [Except.ok.injEq] at h
  subst h
  have hperm := held_perm_erase y.jobs k job hjob
  have hc1 : Core { y.s with cstep := y.s.cstep + 1 } (heldJob job ++ held (y.jobs.eraseIdx k))
      y.s.trajNum :=
    (hc.congr (s' := { y.s with cstep := y.s.cstep + 1 }) ⟨rfl, rfl, rfl, rfl, rfl⟩).perm hperm
  exact (treatOutput_core job status newW _ pns it hc1 htreat).1

/-- the invariant without the jobs list's last word: what holds of the state at the write of the
    restart file, for the jobs still in flight -/
structure MidInv (s2 : St) (jobs : List Job) : Prop where
  core : Core s2 (held jobs) s2.trajNum
  shape : ∀ j ∈ jobs, JobShape j
  recd : s2.locked = jobs.map jobRec
  ordLen : s2.lockedOrd.length = jobs.length
  ordStreams : ∀ jo ∈ jobs.zip s2.lockedOrd, StreamsAt s2.entropy jo.2 jo.1.picked
  count : s2.spawned = s2.cstep + s2.locked.length
  ordLt : ∀ o ∈ s2.lockedOrd, o < s2.spawned
  ordNodup : s2.lockedOrd.Nodup

theorem NInv.mid {y : Sys} (h : NInv y) : MidInv y.s y.jobs :=
  ⟨h.core, h.shape, h.recd, h.ordLen, h.ordStreams, h.count, h.ordLt, h.ordNodup⟩

theorem MidInv.ninv {s : St} {jobs : List Job} (h : MidInv s jobs) : NInv { s := s, jobs := jobs } :=
  ⟨h.core, h.shape, h.recd, h.ordLen, h.ordStreams, h.count, h.ordLt, h.ordNodup⟩

/-- **the restart file is written from an exact record**: when job `k` completes, `treat_output`
    removes exactly that job's record and ordinal; the invariant holds for the remaining jobs. -/
theorem midState_inv {y : Sys} {k : Nat} {status : Status} {newW : List (List Rat)} {s2 : St}
    (hi : NInv y) (h : midState y k status newW = .ok s2) :
    MidInv s2 (y.jobs.eraseIdx k) ∧ s2.locked = y.s.locked.eraseIdx k ∧
      s2.lockedOrd = y.s.lockedOrd.eraseIdx k ∧ s2.spawned = y.s.spawned := by
  have hcore := midState_core hi.core h
  obtain ⟨job, hjob, _, h2, h3, h4, _, _, _, h7⟩ := midState_spec h
  have hklt : k < y.jobs.length := getElem?_lt_of_some _ _ _ hjob
  have hlen := hi.len
  have hLk : k < y.s.locked.length := by omega
  have hentry : y.s.locked[k]? = some (jobRec job) := by
    rw [hi.recd, List.getElem?_map, hjob]; rfl
  have hne : job.picked ≠ [] := by
    intro hnil
    rcases (hi.shape job (List.mem_of_getElem? hjob)).shape with hs | hs
    · rw [hnil] at hs; simp at hs
    · rw [hnil] at hs; simp at hs
  have hnd := inflight_pns_nodup hi.core
  have hpop : popAll job.picked (y.s.locked, y.s.lockedOrd)
      = (y.s.locked.eraseIdx k, y.s.lockedOrd.eraseIdx k) := by
    apply popAll_erase job.picked hne y.s.locked y.s.lockedOrd k _ hentry rfl
    intro p hp i e' hi' hpn
    have hi2 : (y.jobs.map jobPns)[i]? = some e'.2 := by
      have := hi'
      rw [hi.recd, List.getElem?_map] at this
      rw [List.getElem?_map]
      cases hji : y.jobs[i]? with
      | none => rw [hji] at this; simp at this
      | some j =>
        rw [hji] at this
        simp only [Option.map_some, Option.some.injEq] at this
        rw [← this]; rfl
    have hk2 : (y.jobs.map jobPns)[k]? = some (jobPns job) := by
      rw [List.getElem?_map, hjob]; rfl
    exact flatten_nodup_unique _ i k e'.2 (jobPns job) p.pn hnd hi2 hk2 hpn
      (List.mem_map.mpr ⟨p, hp, rfl⟩)
  rw [hpop] at h7
  simp only [Prod.mk.injEq] at h7
  obtain ⟨hL, hO⟩ := h7
  have hOk : k < y.s.lockedOrd.length := by rw [hi.ordLen]; exact hklt
  refine ⟨⟨hcore, ?_, ?_, ?_, ?_, ?_, ?_, ?_⟩, hL, hO, h3⟩
  · exact fun j hj => hi.shape j (List.mem_of_mem_eraseIdx hj)
  · rw [hL, hi.recd, map_eraseIdx]
  · rw [hO, List.length_eraseIdx, if_pos hOk, List.length_eraseIdx, if_pos hklt, hi.ordLen]
  · intro jo hjo
    rw [hO, zip_eraseIdx] at hjo
    rw [h2]
    exact hi.ordStreams jo (List.mem_of_mem_eraseIdx hjo)
  · rw [h3, h4, hL, List.length_eraseIdx, if_pos hLk, hi.count]
    omega
  · intro o ho
    rw [hO] at ho
    rw [h3]
    exact hi.ordLt o (List.mem_of_mem_eraseIdx ho)
  · rw [hO]
    exact hi.ordNodup.sublist (List.eraseIdx_sublist ..)

/-- issuing a job from an exact record (nothing to re-issue) keeps the invariant -/
theorem prep_inv {s s' : St} {prev : Option Nat} {o : PickOutcome} {d : Nat} {job : Job}
    {ds : List Draw} {jobs : List Job} (hm : MidInv s jobs)
    (h : prep s prev o d = .ok (s', job, ds)) : MidInv s' (jobs ++ [job]) := by
  have h0 := hm.core.l0
  obtain ⟨hc2, hjob, _, _, _, _, _, _⟩ := prep_spec prev o d job ds hm.core h
  obtain ⟨hi, hl0, hlk⟩ := prep_fresh h h0
  rcases hi.kind with ⟨_, _, hsp, _⟩ | ⟨hf, _⟩
  swap
  · exact absurd hf (by simp)
  have hzip : (jobs ++ [job]).zip s'.lockedOrd = jobs.zip s.lockedOrd ++ [(job, s.spawned)] := by
    rw [hi.lockedOrd, List.zip_append (by rw [hm.ordLen])]
    rfl
  refine ⟨hc2.perm (held_append_perm jobs job), ?_, ?_, ?_, ?_, ?_, ?_, ?_⟩
  · intro j hj
    rcases List.mem_append.mp hj with hj | hj
    · exact hm.shape j hj
    · simp only [List.mem_singleton] at hj
      subst hj
      exact ⟨hjob.shape, hjob.ensGe⟩
  · rw [hlk, hm.recd, List.map_append]; rfl
  · rw [hi.lockedOrd, List.length_append, List.length_append, hm.ordLen]; rfl
  · intro jo hjo
    rw [hzip] at hjo
    rw [hi.entropy]
    rcases List.mem_append.mp hjo with hjo | hjo
    · exact hm.ordStreams jo hjo
    · simp only [List.mem_singleton] at hjo
      subst hjo
      exact hi.streams
  · rw [hsp, hi.cstep, hlk, List.length_append, hm.count]
    simp only [List.length_cons, List.length_nil]
    omega
  · intro o' ho'
    rw [hi.lockedOrd] at ho'
    rw [hsp]
    rcases List.mem_append.mp ho' with ho' | ho'
    · have := hm.ordLt o' ho'; omega
    · simp only [List.mem_singleton] at ho'; omega
  · rw [hi.lockedOrd, List.nodup_append]
    refine ⟨hm.ordNodup, by simp, ?_⟩
    intro a ha b hb hab
    simp only [List.mem_singleton] at hb
    have := hm.ordLt a ha
    omega

theorem sysStepJ_ninv {y y' : Sys} {ev : Ev} {oj : Option (Job × List Draw)} (hi : NInv y)
    (h : sysStepJ y ev = .ok (y', oj)) : NInv y' := by
  cases ev with
  | start o saved =>
    obtain ⟨s1, job, ds, hs1, ⟨q, ql, qo⟩, hprep, hjobs, _, _⟩ := sysStepJ_start h
    obtain ⟨hce, htn⟩ := initiate_coreEq y.s
    rw [← hs1] at hce htn
    have hm1 : MidInv s1 y.jobs := by
      refine ⟨?_, hi.shape, by rw [ql]; exact hi.recd, by rw [qo]; exact hi.ordLen, ?_, ?_, ?_, ?_⟩
      · rw [htn]; exact hi.core.congr hce
      · rw [qo, q.entropy]; exact hi.ordStreams
      · rw [q.spawned, q.cstep, ql]; exact hi.count
      · rw [qo, q.spawned]; exact hi.ordLt
      · rw [qo]; exact hi.ordNodup
    have := (prep_inv hm1 hprep).ninv
    rw [← hjobs] at this
    exact this
  | initDone =>
    obtain ⟨hs1, ⟨q, ql, qo⟩, hjobs, _⟩ := sysStepJ_initDone h
    obtain ⟨hce, htn⟩ := initiate_coreEq y.s
    rw [← hs1] at hce htn
    refine ⟨?_, by rw [hjobs]; exact hi.shape, by rw [ql, hjobs]; exact hi.recd,
      by rw [qo, hjobs]; exact hi.ordLen, ?_, ?_, ?_, ?_⟩
    · rw [htn, hjobs]; exact hi.core.congr hce
    · rw [qo, q.entropy, hjobs]; exact hi.ordStreams
    · rw [q.spawned, q.cstep, ql]; exact hi.count
    · rw [qo, q.spawned]; exact hi.ordLt
    · rw [qo]; exact hi.ordNodup
  | step k status newW o =>
    obtain ⟨job, s2, hjob, hmid, hrest⟩ := sysStepJ_step h
    obtain ⟨hm2, _, _, _⟩ := midState_inv hi hmid
    rcases hrest with ⟨job', ds, hprep, hjobs, _⟩ | ⟨hs, hjobs, _⟩
    · have := (prep_inv hm2 hprep).ninv
      rw [← hjobs] at this
      exact this
    · have := hm2.ninv
      rw [← hs, ← hjobs] at this
      exact this

/-- the invariant is kept along every history -/
theorem run_ninv : ∀ (evs : List Ev) {y y' : Sys}, NInv y → run y evs = .ok y' → NInv y' := by
  intro evs
  induction evs with
  | nil =>
    intro y y' hi h
    simp only [run, Except.ok.injEq] at h
    subst h
    exact hi
  | cons ev rest ih =>
    intro y y' hi h
    obtain ⟨y1, oj, hj, hr⟩ := run_cons h
    exact ih (sysStepJ_ninv hi hj) hr

/-- what `load_paths` leaves on a fresh start (`cstep = 0`, nothing recorded) or on a restart without
    recorded in-flight jobs satisfies the invariant -/
theorem ninv_of_init {y : Sys} (hi : Init y) (hl : y.s.locked = []) (ho : y.s.lockedOrd = [])
    (hc : y.s.spawned = y.s.cstep) : NInv y := by
  have hj := hi.jobs
  refine ⟨hi.inv.core, by rw [hj]; intro j h; simp at h, by rw [hl, hj]; rfl, by rw [ho, hj]; rfl,
    by rw [hj]; intro jo h; simp at h, by rw [hc, hl]; rfl, by rw [ho]; intro o h; simp at h,
    by rw [ho]; exact List.nodup_nil⟩

/-! ### with nothing to re-issue every issue is a fresh one -/

theorem sysStepJ_fresh {y y' : Sys} {ev : Ev} {oj : Option (Job × List Draw)}
    (h0 : y.s.locked0 = []) (h : sysStepJ y ev = .ok (y', oj)) :
    y'.s.locked0 = [] ∧ (oj ≠ none → (tagOf y.s y'.s).2 = true) := by
  have key : ∀ (sb : St) (job : Job), sb.spawned = y.s.spawned →
      Issue sb y'.s job.picked sb.spawned true → (tagOf y.s y'.s).2 = true := by
    intro sb job e1 hi
    rcases hi.kind with ⟨_, _, h3, _⟩ | ⟨hf, _⟩
    · unfold tagOf
      rw [h3, e1]
      simp
    · exact absurd hf (by simp)
  cases ev with
  | start o saved =>
    obtain ⟨s1, job, ds, _, ⟨q, _, _⟩, hprep, _, _, _⟩ := sysStepJ_start h
    obtain ⟨hi, hl, _⟩ := prep_fresh hprep (by rw [q.locked0, h0])
    exact ⟨hl, fun _ => key s1 job q.spawned hi⟩
  | initDone =>
    obtain ⟨_, ⟨q, _, _⟩, _, hoj⟩ := sysStepJ_initDone h
    exact ⟨by rw [q.locked0, h0], fun hne => absurd hoj hne⟩
  | step k status newW o =>
    obtain ⟨job, s2, _, hmid, hrest⟩ := sysStepJ_step h
    obtain ⟨_, _, _, _, m3, _, m5, _⟩ := midState_spec hmid
    rcases hrest with ⟨job', ds, hprep, _, _⟩ | ⟨hs, _, hoj⟩
    · obtain ⟨hi, hl, _⟩ := prep_fresh hprep (by rw [m5, h0])
      exact ⟨hl, fun _ => key s2 job' m3 hi⟩
    · exact ⟨by rw [hs, m5, h0], fun hne => absurd hoj hne⟩

theorem ghost_all_fresh : ∀ (evs : List Ev) {y : Sys}, y.s.locked0 = [] →
    ∀ e ∈ ghost y evs, e.fresh = true := by
  intro evs
  induction evs with
  | nil => intro y _ e he; simp [ghost] at he
  | cons ev rest ih =>
    intro y h0 e he
    simp only [ghost] at he
    split at he
    · simp at he
    rename_i y1 oj hj
    obtain ⟨hl, hf⟩ := sysStepJ_fresh h0 hj
    rcases List.mem_append.mp he with hm | hm
    · cases oj with
      | none => simp at hm
      | some jd =>
        simp only [Option.toList_some, List.map_cons, List.map_nil, List.mem_singleton] at hm
        rw [hm]
        exact hf (by simp)
    · exact ih hl e hm

end Infretis.Repex
