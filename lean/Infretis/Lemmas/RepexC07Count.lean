import Infretis.Lemmas.RepexC07Distinct
import Infretis.Lemmas.RepexC03Load
/-!
# C07 — the counting invariant behind the restart arithmetic

`set_rgen()` restores the spawn counter as `cstep + len(locked)`.  That is the number of jobs issued
so far exactly when `locked` lists the jobs in flight, one record each:
`jobs issued = completed steps + jobs in flight`.

Here: in every history from a state satisfying C03's `Init` with an exact record
(`CountInv`: `locked` lists the path numbers of the jobs in flight in order, and
`spawned = cstep + #locked`), the record stays exact — at every instant between events and at the
instant `treat_output` writes the restart file (`midState`).  The delicate part is the
pop-while-iterating loop of `treat_output`, which removes exactly the completed job's record because
path numbers of jobs in flight are pairwise distinct (C03).
-/
namespace Infretis.Repex
open Infretis.Perm

/-! ### popLocked -/

theorem popLocked_noop (pn : Nat) : ∀ (fuel idx : Nat) (L : List (List Int × List Nat)),
    (∀ e ∈ L, pn ∉ e.2) → popLocked pn fuel idx L = L := by
  intro fuel
  induction fuel with
  | zero => intro idx L _; rfl
  | succ fuel ih =>
    intro idx L h
    unfold popLocked
    split
    · rfl
    · rename_i entry he
      have hm := h entry (List.mem_of_getElem? he)
      have hc : entry.2.contains pn = false := by
        cases hcc : entry.2.contains pn with
        | false => rfl
        | true => exact absurd (List.contains_iff_mem.mp hcc) hm
      rw [hc]
      exact ih (idx + 1) L h

theorem popLocked_erase (pn : Nat) (L : List (List Int × List Nat)) (k : Nat)
    (e : List Int × List Nat) (hk : L[k]? = some e) (hin : pn ∈ e.2)
    (huniq : ∀ i e', L[i]? = some e' → pn ∈ e'.2 → i = k) :
    ∀ (fuel idx : Nat), idx ≤ k → k - idx < fuel → popLocked pn fuel idx L = L.eraseIdx k := by
  intro fuel
  induction fuel with
  | zero => intro idx _ h; omega
  | succ fuel ih =>
    intro idx hle hf
    unfold popLocked
    have hklt : k < L.length := getElem?_lt_of_some _ _ _ hk
    have hidx : idx < L.length := by omega
    rw [List.getElem?_eq_getElem hidx]
    simp only []
    by_cases hik : idx = k
    · subst hik
      have he : L[idx] = e := by
        rw [List.getElem?_eq_getElem hidx] at hk
        simpa using hk
      rw [he]
      have hc : e.2.contains pn = true := List.contains_iff_mem.mpr hin
      rw [hc]
      simp only [↓reduceIte]
      apply popLocked_noop
      intro e' he' hpn
      obtain ⟨i, hne, hi⟩ := List.mem_eraseIdx_iff_getElem?.mp he'
      exact hne (huniq i e' hi hpn)
    · have hc : (L[idx]).2.contains pn = false := by
        cases hcc : (L[idx]).2.contains pn with
        | false => rfl
        | true =>
          exfalso
          apply hik
          exact huniq idx L[idx] (List.getElem?_eq_getElem hidx) (List.contains_iff_mem.mp hcc)
      rw [hc]
      simp only [Bool.false_eq_true, ↓reduceIte]
      exact ih (idx + 1) (by omega) (by omega)

theorem popAll_noop : ∀ (ps : List Picked) (L : List (List Int × List Nat)),
    (∀ p ∈ ps, ∀ e ∈ L, p.pn ∉ e.2) → popAll ps L = L := by
  intro ps
  induction ps with
  | nil => intro L _; rfl
  | cons p ps ih =>
    intro L h
    unfold popAll
    rw [List.foldl_cons]
    rw [popLocked_noop p.pn _ _ L (h p (List.mem_cons_self ..))]
    exact ih L (fun q hq => h q (List.mem_cons_of_mem _ hq))

/-- the pops of a completed job remove exactly its own record when its path numbers occur in no
    other record -/
theorem popAll_erase (ps : List Picked) (hne : ps ≠ []) (L : List (List Int × List Nat)) (k : Nat)
    (e : List Int × List Nat) (hk : L[k]? = some e) (he : e.2 = ps.map (·.pn))
    (huniq : ∀ p ∈ ps, ∀ i e', L[i]? = some e' → p.pn ∈ e'.2 → i = k) :
    popAll ps L = L.eraseIdx k := by
  cases ps with
  | nil => exact absurd rfl hne
  | cons p rest =>
    unfold popAll
    rw [List.foldl_cons]
    have hin : p.pn ∈ e.2 := by rw [he]; simp
    have hklt : k < L.length := getElem?_lt_of_some _ _ _ hk
    rw [popLocked_erase p.pn L k e hk hin (huniq p (List.mem_cons_self ..)) L.length 0
      (Nat.zero_le _) (by omega)]
    apply popAll_noop
    intro q hq e' he' hpn
    obtain ⟨i, hnei, hi⟩ := List.mem_eraseIdx_iff_getElem?.mp he'
    exact hnei (huniq q (List.mem_cons_of_mem _ hq) i e' hi hpn)

/-! ### list helpers -/

theorem map_eraseIdx {α β : Type} (f : α → β) : ∀ (l : List α) (k : Nat),
    (l.eraseIdx k).map f = (l.map f).eraseIdx k := by
  intro l
  induction l with
  | nil => intro k; simp
  | cons x l ih =>
    intro k
    cases k with
    | zero => simp
    | succ k => simp [ih k]

theorem flatten_nodup_unique {α : Type} : ∀ (LL : List (List α)) (i k : Nat) (a b : List α) (x : α),
    LL.flatten.Nodup → LL[i]? = some a → LL[k]? = some b → x ∈ a → x ∈ b → i = k := by
  intro LL
  induction LL with
  | nil => intro i k a b x _ hi; simp at hi
  | cons l0 rest ih =>
    intro i k a b x hn hi hk ha hb
    rw [List.flatten_cons, List.nodup_append] at hn
    obtain ⟨_, hnr, hdis⟩ := hn
    cases i with
    | zero =>
      cases k with
      | zero => rfl
      | succ k =>
        exfalso
        simp only [List.getElem?_cons_zero, Option.some.injEq] at hi
        simp only [List.getElem?_cons_succ] at hk
        subst hi
        exact hdis x ha x (List.mem_flatten.mpr ⟨b, List.mem_of_getElem? hk, hb⟩) rfl
    | succ i =>
      cases k with
      | zero =>
        exfalso
        simp only [List.getElem?_cons_zero, Option.some.injEq] at hk
        simp only [List.getElem?_cons_succ] at hi
        subst hk
        exact hdis x hb x (List.mem_flatten.mpr ⟨a, List.mem_of_getElem? hi, ha⟩) rfl
      | succ k =>
        simp only [List.getElem?_cons_succ] at hi hk
        rw [ih i k a b x hnr hi hk ha hb]

/-! ### the invariant -/

/-- path numbers handed to a job -/
def jobPns (j : Job) : List Nat := j.picked.map (·.pn)

/-- the in-flight record is exact: one record per job in flight, in order, with the job's path
    numbers; and the spawn counter equals completed steps + jobs in flight -/
structure CountInv (y : Sys) : Prop where
  lockedPns : y.s.locked.map (·.2) = y.jobs.map jobPns
  count : y.s.spawned = y.s.cstep + y.s.locked.length

theorem CountInv.len {y : Sys} (h : CountInv y) : y.s.locked.length = y.jobs.length := by
  have := congrArg List.length h.lockedPns
  simpa using this

theorem inflight_pns_nodup {y : Sys} (hi : Inv y) : (y.jobs.map jobPns).flatten.Nodup := by
  have hc := hi.core
  have hn := hc.nodup
  have e : ∀ jobs : List Job, (jobs.map jobPns).flatten = (held jobs).map Prod.snd := by
    intro jobs
    induction jobs with
    | nil => rfl
    | cons j js ih =>
      have hh : held (j :: js) = heldJob j ++ held js := by simp [held]
      rw [List.map_cons, List.flatten_cons, hh, List.map_append, ih]
      simp [jobPns, heldJob, List.map_map, Function.comp_def]
  rw [e]
  refine nodup_map_of_nodup_map Prod.fst Prod.snd _ hn ?_
  intro x hx z hz hxz
  obtain ⟨e1, p1⟩ := x
  obtain ⟨e2, p2⟩ := z
  simp only at hxz
  subst hxz
  obtain ⟨h1, h2, _⟩ := hc.heldOk e1 p1 hx
  obtain ⟨h3, h4, _⟩ := hc.heldOk e2 p1 hz
  exact hc.inj e1 e2 p1 h1 h3 h2 h4

/-- **the restart file is written from an exact record**: when job `k` completes, `treat_output`
    removes exactly that job's record; at that instant `spawned = cstep + #locked` again. -/
theorem midState_count {y : Sys} {k : Nat} {status : Status} {newW : List (List Rat)} {s2 : St}
    (hi : Inv y) (hc : CountInv y) (h : midState y k status newW = .ok s2) :
    s2.locked = y.s.locked.eraseIdx k ∧ s2.spawned = s2.cstep + s2.locked.length ∧
      s2.seed = y.s.seed ∧ s2.entropy = y.s.entropy ∧ s2.spawned = y.s.spawned ∧
      s2.locked0 = y.s.locked0 := by
  obtain ⟨job, hjob, h1, h2, h3, h4, h5, _, h7⟩ := midState_spec h
  have hklt : k < y.jobs.length := getElem?_lt_of_some _ _ _ hjob
  have hlen := hc.len
  have hLk : k < y.s.locked.length := by omega
  have hentry : y.s.locked[k]? = some y.s.locked[k] := List.getElem?_eq_getElem hLk
  have he2 : (y.s.locked[k]).2 = job.picked.map (·.pn) := by
    have := congrArg (fun l => l[k]?) hc.lockedPns
    simp only [List.getElem?_map, hentry, hjob, Option.map_some, Option.some.injEq] at this
    exact this
  have hne : job.picked ≠ [] := by
    intro hnil
    rcases (hi.jobs job (List.mem_of_getElem? hjob)).shape with hs | hs
    · rw [hnil] at hs; simp at hs
    · rw [hnil] at hs; simp at hs
  have hnd := inflight_pns_nodup hi
  have hpop : popAll job.picked y.s.locked = y.s.locked.eraseIdx k := by
    apply popAll_erase job.picked hne y.s.locked k _ hentry he2
    intro p hp i e' hi' hpn
    have hi2 : (y.jobs.map jobPns)[i]? = some e'.2 := by
      rw [← hc.lockedPns, List.getElem?_map, hi']; rfl
    have hk2 : (y.jobs.map jobPns)[k]? = some (jobPns job) := by
      rw [List.getElem?_map, hjob]; rfl
    exact flatten_nodup_unique _ i k e'.2 (jobPns job) p.pn hnd hi2 hk2 hpn
      (List.mem_map.mpr ⟨p, hp, rfl⟩)
  rw [hpop] at h7
  refine ⟨h7, ?_, h1, h2, h3, h5⟩
  rw [h3, h4, h7, List.length_eraseIdx, if_pos hLk, hc.count]
  omega

/-- issuing a job from an exact record (nothing to re-issue) keeps the record exact -/
theorem prep_count {s s' : St} {prev : Option Nat} {o : PickOutcome} {d : Nat} {job : Job}
    {ds : List Draw} {jobs : List Job} (h : prep s prev o d = .ok (s', job, ds)) (h0 : s.locked0 = [])
    (hl : s.locked.map (·.2) = jobs.map jobPns) (hc : s.spawned = s.cstep + s.locked.length) :
    CountInv { s := s', jobs := jobs ++ [job] } := by
  obtain ⟨_, es, hlk⟩ := prep_locked h h0
  have hi := prep_issue h
  constructor
  · show s'.locked.map (·.2) = (jobs ++ [job]).map jobPns
    rw [hlk, List.map_append, List.map_append, hl]
    rfl
  · show s'.spawned = s'.cstep + s'.locked.length
    rw [hi.spawned, hi.cstep, hlk, List.length_append, hc]
    simp only [List.length_cons, List.length_nil]
    omega

theorem sysStepJ_count {y y' : Sys} {ev : Ev} {oj : Option (Job × List Draw)} (hi : Inv y)
    (hc : CountInv y) (h : sysStepJ y ev = .ok (y', oj)) : CountInv y' := by
  have hl0 := hi.core.l0
  cases ev with
  | start o saved =>
    obtain ⟨s1, job, ds, ⟨q, ql⟩, hprep, hjobs, _⟩ := sysStepJ_start h
    have := prep_count (jobs := y.jobs) hprep (by rw [q.locked0, hl0]) (by rw [ql]; exact hc.lockedPns)
      (by rw [q.spawned, q.cstep, ql]; exact hc.count)
    rw [← hjobs] at this
    exact this
  | initDone =>
    obtain ⟨⟨q, ql⟩, hjobs, _⟩ := sysStepJ_initDone h
    constructor
    · rw [ql, hjobs]; exact hc.lockedPns
    · rw [q.spawned, q.cstep, ql]; exact hc.count
  | step k status newW o =>
    obtain ⟨job, s2, hjob, hmid, hrest⟩ := sysStepJ_step h
    obtain ⟨m1, m2, _, _, _, m6⟩ := midState_count hi hc hmid
    have hl2 : s2.locked.map (·.2) = (y.jobs.eraseIdx k).map jobPns := by
      rw [m1, map_eraseIdx, map_eraseIdx, hc.lockedPns]
    rcases hrest with ⟨job', ds, hprep, hjobs, _⟩ | ⟨hs, hjobs, _⟩
    · have := prep_count (jobs := y.jobs.eraseIdx k) hprep (by rw [m6, hl0]) hl2 m2
      rw [← hjobs] at this
      exact this
    · constructor
      · rw [hs, hjobs]; exact hl2
      · rw [hs]; exact m2

/-- the exact record is kept along every history -/
theorem run_count : ∀ (evs : List Ev) {y y' : Sys}, Inv y → CountInv y → run y evs = .ok y' →
    Inv y' ∧ CountInv y' := by
  intro evs
  induction evs with
  | nil =>
    intro y y' hi hc h
    simp only [run, Except.ok.injEq] at h
    subst h
    exact ⟨hi, hc⟩
  | cons ev rest ih =>
    intro y y' hi hc h
    obtain ⟨y1, oj, hj, hr⟩ := run_cons h
    exact ih (sysStep_preserves ev hi (sysStep_of_J hj)) (sysStepJ_count hi hc hj) hr

/-- what `load_paths` leaves on a fresh start (`cstep = 0`, nothing recorded) or on a restart without
    recorded in-flight jobs has an exact record -/
theorem countInv_of_loadPaths {s0 s : St} {paths : List (Nat × List Rat × List Rat)}
    (h : loadPaths s0 paths = .ok s) (hl : s0.locked = []) (hc : s0.spawned = s0.cstep) :
    CountInv { s := s, jobs := [] } := by
  obtain ⟨q, ql⟩ := loadPaths_quiet h
  constructor
  · show s.locked.map (·.2) = [].map jobPns
    rw [ql, hl]; rfl
  · show s.spawned = s.cstep + s.locked.length
    rw [q.spawned, q.cstep, ql, hl, hc]; rfl

end Infretis.Repex
