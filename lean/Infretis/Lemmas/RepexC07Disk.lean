import Infretis.Model.RepexDisk
import Infretis.Lemmas.RepexC07Chain
/-!
# C07 — crash restarts from the file on disk

`ChainDisk seed p kept lost`: the scheduler process `p` (state + `./restart.toml`) is reached from a fresh
start with configured seed `seed` through any number of rounds (scheduler iterations; the process dies; a new
process is built from the image that is ON DISK at that moment — `restartFromDisk`).

* `kept` — the CONTINUED HISTORY: the entries of all jobs whose issue is reflected by the file on disk (every job
  issued before the last write: it has completed, or it is on record in the file and will be re-issued).
* `lost` — the entries of the jobs the running process issued AFTER the last write of the file: during the
  initiation loop all jobs of the process, afterwards exactly the one job `prep_md_items` drew after the last
  `treat_output`.  A crash discards them (their results are never consumed, no record of them exists).

Everything reduces to the unrestricted chains of `RepexC07Chain`: `ChainDisk.inv` shows that the state is a
`ChainAny` for `kept ++ lost`, and that the image on disk is one a `ChainAny` for `kept` alone can restart from
(`DiskWit`) — which is exactly why the crash re-uses the ordinals of `lost`.
-/
namespace Infretis.Repex

theorem writtenState_eq_midState (y : Sys) (k : Nat) (status : Status) (newW : List (List Rat)) :
    writtenState y k status newW = midState y k status newW := rfl

/-- one scheduler iteration as a one-event history -/
theorem run_single {y y' : Sys} {ev : Ev} (h : sysStep y ev = .ok y') : run y [ev] = .ok y' := by
  simp only [run, h]

theorem stepD_sys {p p' : Proc} {ev : Ev} (h : stepD p ev = .ok p') :
    sysStep p.y ev = .ok p'.y ∧ p'.disk = diskAfter p.y p.disk ev := by
  unfold stepD at h
  split at h
  · exact absurd h (by simp)
  · rename_i y' hy
    simp only [Except.ok.injEq] at h
    subst h
    exact ⟨hy, rfl⟩

/-- a completion that succeeds has written the file: the image of the state `treat_output` built -/
theorem stepD_step_disk {p p' : Proc} {k : Nat} {status : Status} {newW : List (List Rat)} {o : PickOutcome}
    (h : stepD p (.step k status newW o) = .ok p') :
    ∃ s2, midState p.y k status newW = .ok s2 ∧ p'.disk = some (persist s2) := by
  obtain ⟨hs, hd⟩ := stepD_sys h
  obtain ⟨oj, hj⟩ := sysStepJ_of_sys hs
  obtain ⟨_, s2, _, hmid, _⟩ := sysStepJ_step hj
  refine ⟨s2, hmid, ?_⟩
  rw [hd]
  simp only [diskAfter, writtenState_eq_midState, hmid]

theorem stepD_other_disk {p p' : Proc} {ev : Ev} (hns : ev.isStep = false) (h : stepD p ev = .ok p') :
    p'.disk = p.disk := by
  obtain ⟨_, hd⟩ := stepD_sys h
  rw [hd]
  cases ev with
  | step k st nw o => simp [Ev.isStep] at hns
  | start o d => rfl
  | initDone => rfl

/-- the image on disk is one from which a chain whose log is `kept` restarts: the file written inside a
    `treat_output` (left) or by the last `loop()` (right) -/
def DiskWit (seed : Nat) (kept : List Entry) (im : Image) : Prop :=
  (∃ (yw : Sys) (k : Nat) (st : Status) (nw : List (List Rat)) (s2 : St),
      ChainAny seed yw kept ∧ midState yw k st nw = .ok s2 ∧ im = persist s2) ∨
  (∃ yw : Sys, ChainAny seed yw kept ∧ im = persist yw.s)

inductive ChainDisk (seed : Nat) : Proc → List Entry → List Entry → Prop
  /-- a fresh start: no `restart.toml` yet -/
  | fresh {y0 : Sys} : y0.s.seed = seed → y0.s.entropy = seed → y0.s.spawned = 0 →
      y0.s.lockedOrd = [] → y0.s.locked0Ord = [] → ChainDisk seed { y := y0, disk := none } [] []
  /-- an iteration of the initiation loop (or its closing call): the file is not touched, the job is not on it -/
  | issue {p p' : Proc} {kept lost : List Entry} {ev : Ev} : ChainDisk seed p kept lost →
      ev.isStep = false → stepD p ev = .ok p' → ChainDisk seed p' kept (lost ++ ghost p.y [ev])
  /-- an iteration of the main loop: `treat_output` writes the file — every job issued so far is on it or has
      completed — and then the next job is drawn, which is not on the file -/
  | complete {p p' : Proc} {kept lost : List Entry} {k : Nat} {status : Status} {newW : List (List Rat)}
      {o : PickOutcome} : ChainDisk seed p kept lost → stepD p (.step k status newW o) = .ok p' →
      ChainDisk seed p' (kept ++ lost) (ghost p.y [.step k status newW o])
  /-- the final `loop()` of a run writes the file -/
  | finish {p : Proc} {kept lost : List Entry} : ChainDisk seed p kept lost → p.y.s.cstep ≥ p.y.s.tsteps →
      ChainDisk seed (endWrite p) (kept ++ lost) []
  /-- the process dies and a new one is built from the file on disk: the jobs in `lost` are gone -/
  | crash {p p' : Proc} {kept lost : List Entry} {n workers tsteps : Nat} {occ : List (List Int)}
      {ensEng : List (List Nat)} {weightOf : Nat → List Rat} : ChainDisk seed p kept lost →
      restartFromDisk p n workers tsteps occ ensEng weightOf = .ok p' → ChainDisk seed p' kept []

structure DiskInv (seed : Nat) (p : Proc) (kept lost : List Entry) : Prop where
  /-- the running process, with the jobs it issued since the last write, is an (unrestricted) chain -/
  any : ChainAny seed p.y (kept ++ lost)
  /-- the file on disk belongs to the continued history alone -/
  wit : ∀ im, p.disk = some im → DiskWit seed kept im
  /-- no file: nothing has been written, no history to continue -/
  nofile : p.disk = none → kept = []

theorem restartFromDisk_spec {p p' : Proc} {n workers tsteps : Nat} {occ : List (List Int)}
    {ensEng : List (List Nat)} {weightOf : Nat → List Rat}
    (h : restartFromDisk p n workers tsteps occ ensEng weightOf = .ok p') :
    ∃ im s', p.disk = some im ∧ restore im n workers tsteps occ ensEng weightOf = .ok s' ∧
      p' = { y := { s := s', jobs := [] }, disk := some im } := by
  unfold restartFromDisk at h
  split at h
  · exact absurd h (by simp)
  · rename_i im hd
    split at h
    · exact absurd h (by simp)
    · rename_i s' hre
      simp only [Except.ok.injEq] at h
      exact ⟨im, s', hd, hre, h.symm⟩

theorem DiskWit.restart {seed : Nat} {kept : List Entry} {im : Image} (hw : DiskWit seed kept im)
    {n workers tsteps : Nat} {occ : List (List Int)} {ensEng : List (List Nat)} {weightOf : Nat → List Rat}
    {s' : St} (hre : restore im n workers tsteps occ ensEng weightOf = .ok s') :
    ChainAny seed { s := s', jobs := [] } kept := by
  rcases hw with ⟨yw, k, st, nw, s2, hc, hmid, rfl⟩ | ⟨yw, hc, rfl⟩
  · exact ChainAny.restartMid hc hmid hre
  · exact ChainAny.restart hc hre

theorem ChainDisk.inv {seed : Nat} {p : Proc} {kept lost : List Entry} (h : ChainDisk seed p kept lost) :
    DiskInv seed p kept lost := by
  induction h with
  | fresh h1 h2 h3 h4 h5 =>
    exact ⟨ChainAny.fresh h1 h2 h3 h4 h5, by intro im him; simp at him, fun _ => rfl⟩
  | @issue p p' kept lost ev _ hns hst ih =>
    obtain ⟨hs, _⟩ := stepD_sys hst
    have hd := stepD_other_disk hns hst
    refine ⟨?_, ?_, ?_⟩
    · have := ChainAny.run ih.any (run_single hs)
      rwa [List.append_assoc] at this
    · intro im him; rw [hd] at him; exact ih.wit im him
    · intro hn; rw [hd] at hn; exact ih.nofile hn
  | @complete p p' kept lost k status newW o _ hst ih =>
    obtain ⟨hs, _⟩ := stepD_sys hst
    obtain ⟨s2, hmid, hd⟩ := stepD_step_disk hst
    refine ⟨ChainAny.run ih.any (run_single hs), ?_, ?_⟩
    · intro im him
      rw [hd] at him
      simp only [Option.some.injEq] at him
      exact Or.inl ⟨p.y, k, status, newW, s2, ih.any, hmid, him.symm⟩
    · intro hn; rw [hd] at hn; simp at hn
  | @finish p kept lost _ hge ih =>
    have he : endWrite p = { p with disk := some (persist p.y.s) } := by
      unfold endWrite; rw [if_pos hge]
    rw [he]
    refine ⟨by rw [List.append_nil]; exact ih.any, ?_, ?_⟩
    · intro im him
      simp only [Option.some.injEq] at him
      exact Or.inr ⟨p.y, ih.any, him.symm⟩
    · intro hn; simp at hn
  | @crash p p' kept lost _ _ _ _ _ _ _ hre ih =>
    obtain ⟨im, s', hd, hres, rfl⟩ := restartFromDisk_spec hre
    have hw := ih.wit im hd
    refine ⟨by rw [List.append_nil]; exact hw.restart hres, ?_, ?_⟩
    · intro im' him'
      simp only [Option.some.injEq] at him'
      rw [← him']; exact hw
    · intro hn; simp at hn

/-- position `L + m` of `range N` seen through a split `range N = a ++ b` with `a.length = L` -/
theorem range_split_get {a b : List Nat} {N m x : Nat} (h : a ++ b = List.range N)
    (hb : b[m]? = some x) : x = a.length + m := by
  have hlt : m < b.length := getElem?_lt_of_some _ _ _ hb
  have h1 : (a ++ b)[a.length + m]? = some x := by
    rw [List.getElem?_append_right (Nat.le_add_right _ _), Nat.add_sub_cancel_left]; exact hb
  rw [h] at h1
  have hlt2 : a.length + m < N := by
    have := congrArg List.length h
    simp only [List.length_append, List.length_range] at this
    omega
  rw [List.getElem?_range hlt2] at h1
  simpa using h1.symm

end Infretis.Repex
