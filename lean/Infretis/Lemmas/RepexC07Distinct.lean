import Infretis.Lemmas.RepexC07Issue
/-!
# C07 — streams numbered by (ordinal, entry) are pairwise distinct

Pure list reasoning: if the `k`-th job of a list carries, for its `j`-th picked entry, the streams
`(en, [base + k, j])` and `(en, [base + k, j, 0])`, then all these streams are pairwise distinct
(as `Stream` values, i.e. as `(entropy, spawn_key)` pairs) and none has the empty spawn key of the
scheduler's own stream.
-/
namespace Infretis.Repex

/-- the move-decision streams (`ens['rgen']`) of a list of jobs, in order -/
def moveStreams (jobs : List Job) : List Stream := jobs.flatMap (fun job => job.picked.map (·.rgen))

/-- the engine streams (`rgen-eng`) of a list of jobs, in order -/
def engStreams (jobs : List Job) : List Stream := jobs.flatMap (fun job => job.picked.map (·.rgenEng))

/-- all streams handed to a list of jobs -/
def allStreams (jobs : List Job) : List Stream := moveStreams jobs ++ engStreams jobs

theorem mem_flatMap_picked {f : Picked → Stream} {jobs : List Job} {x : Stream}
    (h : x ∈ jobs.flatMap (fun job => job.picked.map f)) :
    ∃ (k : Nat) (job : Job) (j : Nat) (p : Picked),
      jobs[k]? = some job ∧ job.picked[j]? = some p ∧ x = f p := by
  rw [List.mem_flatMap] at h
  obtain ⟨job, hjob, hx⟩ := h
  rw [List.mem_map] at hx
  obtain ⟨p, hp, rfl⟩ := hx
  obtain ⟨k, hk⟩ := List.mem_iff_getElem?.mp hjob
  obtain ⟨j, hj⟩ := List.mem_iff_getElem?.mp hp
  exact ⟨k, job, j, p, hk, hj, rfl⟩

/-- generic: a labelling `g (ordinal) (entry)` that is injective gives pairwise distinct values -/
theorem nodup_of_labelled (f : Picked → Stream) (g : Nat → Nat → Stream)
    (ginj : ∀ k j k' j', g k j = g k' j' → k = k' ∧ j = j') :
    ∀ (jobs : List Job) (base : Nat),
      (∀ k job, jobs[k]? = some job → ∀ j p, job.picked[j]? = some p → f p = g (base + k) j) →
      (jobs.flatMap (fun job => job.picked.map f)).Nodup := by
  have inner : ∀ (ps : List Picked) (b j0 : Nat),
      (∀ j p, ps[j]? = some p → f p = g b (j0 + j)) → (ps.map f).Nodup := by
    intro ps
    induction ps with
    | nil => intro b j0 _; simp
    | cons p ps ih =>
      intro b j0 h
      rw [List.map_cons, List.nodup_cons]
      constructor
      · intro hm
        rw [List.mem_map] at hm
        obtain ⟨q, hq, hfq⟩ := hm
        obtain ⟨i, hi⟩ := List.mem_iff_getElem?.mp hq
        have h0 := h 0 p (by simp)
        have h1 := h (i + 1) q (by simpa using hi)
        rw [hfq, h0] at h1
        have := (ginj _ _ _ _ h1).2
        omega
      · apply ih b (j0 + 1)
        intro j q hq
        have := h (j + 1) q (by simpa using hq)
        have e : j0 + 1 + j = j0 + (j + 1) := by omega
        rw [e]
        exact this
  intro jobs
  induction jobs with
  | nil => intro base _; simp
  | cons job rest ih =>
    intro base h
    rw [List.flatMap_cons, List.nodup_append]
    refine ⟨?_, ?_, ?_⟩
    · apply inner job.picked base 0
      intro j p hp
      have := h 0 job (by simp) j p hp
      simpa using this
    · apply ih (base + 1)
      intro k job' hk j p hp
      have := h (k + 1) job' (by simpa using hk) j p hp
      have e : base + 1 + k = base + (k + 1) := by omega
      rw [e]
      exact this
    · intro a ha b hb hab
      rw [List.mem_map] at ha
      obtain ⟨p, hp, rfl⟩ := ha
      obtain ⟨j, hj⟩ := List.mem_iff_getElem?.mp hp
      obtain ⟨k, job', j', p', hk, hj', rfl⟩ := mem_flatMap_picked hb
      have h0 := h 0 job (by simp) j p hj
      have h1 := h (k + 1) job' (by simpa using hk) j' p' hj'
      rw [hab, h1] at h0
      have := (ginj _ _ _ _ h0).1
      omega

theorem moveStream_inj (en k j k' j' : Nat) (h : moveStream en k j = moveStream en k' j') :
    k = k' ∧ j = j' := by
  simpa [moveStream] using h

theorem engStream_inj (en k j k' j' : Nat) (h : engStream en k j = engStream en k' j') :
    k = k' ∧ j = j' := by
  simpa [engStream] using h

/-- every stream of a numbered job list is `(en, [k, j])` or `(en, [k, j, 0])` with
    `base ≤ k < base + #jobs` -/
theorem StreamsFrom.mem_allStreams {en base : Nat} {jobs : List Job} (h : StreamsFrom en base jobs)
    {x : Stream} (hx : x ∈ allStreams jobs) :
    ∃ k j, base ≤ k ∧ k < base + jobs.length ∧ (x = moveStream en k j ∨ x = engStream en k j) := by
  unfold allStreams at hx
  rcases List.mem_append.mp hx with hm | hm
  · obtain ⟨k, job, j, p, hk, hj, rfl⟩ := mem_flatMap_picked hm
    have hlt : k < jobs.length := by
      rcases Nat.lt_or_ge k jobs.length with h' | h'
      · exact h'
      · rw [List.getElem?_eq_none h'] at hk; exact absurd hk (by simp)
    exact ⟨base + k, j, by omega, by omega, Or.inl (h k job hk j p hj).1⟩
  · obtain ⟨k, job, j, p, hk, hj, rfl⟩ := mem_flatMap_picked hm
    have hlt : k < jobs.length := by
      rcases Nat.lt_or_ge k jobs.length with h' | h'
      · exact h'
      · rw [List.getElem?_eq_none h'] at hk; exact absurd hk (by simp)
    exact ⟨base + k, j, by omega, by omega, Or.inr (h k job hk j p hj).2⟩

/-- **pairwise distinct**: all move and engine streams of a numbered job list -/
theorem StreamsFrom.nodup {en base : Nat} {jobs : List Job} (h : StreamsFrom en base jobs) :
    (allStreams jobs).Nodup := by
  unfold allStreams
  rw [List.nodup_append]
  refine ⟨?_, ?_, ?_⟩
  · exact nodup_of_labelled (·.rgen) (moveStream en) (moveStream_inj en) jobs base
      (fun k job hk j p hp => (h k job hk j p hp).1)
  · exact nodup_of_labelled (·.rgenEng) (engStream en) (engStream_inj en) jobs base
      (fun k job hk j p hp => (h k job hk j p hp).2)
  · intro a ha b hb hab
    obtain ⟨k, job, j, p, hk, hj, rfl⟩ := mem_flatMap_picked ha
    obtain ⟨k', job', j', p', hk', hj', rfl⟩ := mem_flatMap_picked hb
    rw [(h k job hk j p hj).1, (h k' job' hk' j' p' hj').2] at hab
    simp [moveStream, engStream] at hab

/-- none of them has the scheduler's (empty) spawn key -/
theorem StreamsFrom.key_ne_nil {en base : Nat} {jobs : List Job} (h : StreamsFrom en base jobs)
    {x : Stream} (hx : x ∈ allStreams jobs) : x.key ≠ [] := by
  obtain ⟨k, j, _, _, hx | hx⟩ := h.mem_allStreams hx <;> subst hx <;> simp [moveStream, engStream]

theorem allStreams_append (l1 l2 : List Job) :
    (allStreams (l1 ++ l2)).Perm (allStreams l1 ++ allStreams l2) := by
  unfold allStreams moveStreams engStreams
  rw [List.flatMap_append, List.flatMap_append]
  -- (a ++ b) ++ (c ++ d) ~ (a ++ c) ++ (b ++ d)
  rw [List.append_assoc, List.append_assoc]
  apply List.Perm.append_left
  rw [← List.append_assoc, ← List.append_assoc]
  apply List.Perm.append_right
  exact List.perm_append_comm

end Infretis.Repex
