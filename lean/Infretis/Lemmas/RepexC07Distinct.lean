import Infretis.Lemmas.RepexC07Issue
/-!
# C07 — streams tagged by (ordinal, entry) are distinct exactly when the ordinals are

Pure list reasoning: if every entry of a log carries, for its `j`-th picked ensemble, the streams
`(en, [ord, j])` and `(en, [ord, j, 0])` of its ordinal `ord`, then
* entries with different ordinals have no stream in common, entries with the same ordinal (a job and
  its re-issue) have the same streams entry by entry;
* if the ordinals of a log are pairwise distinct, all its streams are pairwise distinct
  (as `Stream` values, i.e. as `(entropy, spawn_key)` pairs);
* none has the empty spawn key of the scheduler's own stream.
-/
namespace Infretis.Repex

/-- the move-decision streams (`ens['rgen']`) of a list of jobs, in order -/
def moveStreams (jobs : List Job) : List Stream := jobs.flatMap (fun job => job.picked.map (·.rgen))

/-- the engine streams (`rgen-eng`) of a list of jobs, in order -/
def engStreams (jobs : List Job) : List Stream := jobs.flatMap (fun job => job.picked.map (·.rgenEng))

/-- all streams handed to a list of jobs -/
def allStreams (jobs : List Job) : List Stream := moveStreams jobs ++ engStreams jobs

theorem moveStream_inj (en k j k' j' : Nat) (h : moveStream en k j = moveStream en k' j') :
    k = k' ∧ j = j' := by
  simpa [moveStream] using h

theorem engStream_inj (en k j k' j' : Nat) (h : engStream en k j = engStream en k' j') :
    k = k' ∧ j = j' := by
  simpa [engStream] using h

theorem mem_flatMap_entries {f : Picked → Stream} {log : List Entry} {x : Stream}
    (h : x ∈ (log.map (·.job)).flatMap (fun job => job.picked.map f)) :
    ∃ (e : Entry) (j : Nat) (p : Picked), e ∈ log ∧ e.job.picked[j]? = some p ∧ x = f p := by
  rw [List.mem_flatMap] at h
  obtain ⟨job, hjob, hx⟩ := h
  rw [List.mem_map] at hjob hx
  obtain ⟨e, he, rfl⟩ := hjob
  obtain ⟨p, hp, rfl⟩ := hx
  obtain ⟨j, hj⟩ := List.mem_iff_getElem?.mp hp
  exact ⟨e, j, p, he, hj, rfl⟩

/-- generic: a labelling `g ord entry` that is injective gives pairwise distinct values over a log
    whose ordinals are pairwise distinct -/
theorem nodup_of_labelled (f : Picked → Stream) (g : Nat → Nat → Stream)
    (ginj : ∀ k j k' j', g k j = g k' j' → k = k' ∧ j = j') :
    ∀ (log : List Entry), (log.map (·.ord)).Nodup →
      (∀ e ∈ log, ∀ j p, e.job.picked[j]? = some p → f p = g e.ord j) →
      ((log.map (·.job)).flatMap (fun job => job.picked.map f)).Nodup := by
  have inner : ∀ (ps : List Picked) (b j0 : Nat),
      (∀ j p, ps[j]? = some p → f p = g b (j0 + j)) → (ps.map f).Nodup := by
    intro ps
    induction ps with
    | nil => intro b j0 _; simp
    | cons p ps ih =>
      intro b j0 h
      rw [List.map_cons, List.nodup_cons]
      constructor
      · intro hm
        rw [List.mem_map] at hm
        obtain ⟨q, hq, hfq⟩ := hm
        obtain ⟨i, hi⟩ := List.mem_iff_getElem?.mp hq
        have h0 := h 0 p (by simp)
        have h1 := h (i + 1) q (by simpa using hi)
        rw [hfq, h0] at h1
        have := (ginj _ _ _ _ h1).2
        omega
      · apply ih b (j0 + 1)
        intro j q hq
        have := h (j + 1) q (by simpa using hq)
        have e : j0 + 1 + j = j0 + (j + 1) := by omega
        rw [e]
        exact this
  intro log
  induction log with
  | nil => intro _ _; simp
  | cons e rest ih =>
    intro hn h
    rw [List.map_cons, List.nodup_cons] at hn
    rw [List.map_cons, List.flatMap_cons, List.nodup_append]
    refine ⟨?_, ?_, ?_⟩
    · apply inner e.job.picked e.ord 0
      intro j p hp
      have := h e (List.mem_cons_self ..) j p hp
      simpa using this
    · exact ih hn.2 (fun e' he' => h e' (List.mem_cons_of_mem _ he'))
    · intro a ha b hb hab
      rw [List.mem_map] at ha
      obtain ⟨p, hp, rfl⟩ := ha
      obtain ⟨j, hj⟩ := List.mem_iff_getElem?.mp hp
      obtain ⟨e', j', p', he', hj', rfl⟩ := mem_flatMap_entries hb
      have h0 := h e (List.mem_cons_self ..) j p hj
      have h1 := h e' (List.mem_cons_of_mem _ he') j' p' hj'
      rw [hab, h1] at h0
      have := (ginj _ _ _ _ h0).1
      exact hn.1 (List.mem_map.mpr ⟨e', he', this⟩)

/-- every stream of a tagged log is `(en, [ord, j])` or `(en, [ord, j, 0])` for an entry's ordinal -/
theorem Tagged.mem_allStreams {en : Nat} {log : List Entry} (h : Tagged en log) {x : Stream}
    (hx : x ∈ allStreams (log.map (·.job))) :
    ∃ e ∈ log, ∃ j, x = moveStream en e.ord j ∨ x = engStream en e.ord j := by
  unfold allStreams at hx
  rcases List.mem_append.mp hx with hm | hm
  · obtain ⟨e, j, p, he, hj, rfl⟩ := mem_flatMap_entries hm
    exact ⟨e, he, j, Or.inl (h e he j p hj).1⟩
  · obtain ⟨e, j, p, he, hj, rfl⟩ := mem_flatMap_entries hm
    exact ⟨e, he, j, Or.inr (h e he j p hj).2⟩

/-- **pairwise distinct**: all move and engine streams of a tagged log with pairwise distinct ordinals -/
theorem Tagged.nodup {en : Nat} {log : List Entry} (h : Tagged en log)
    (hn : (log.map (·.ord)).Nodup) : (allStreams (log.map (·.job))).Nodup := by
  unfold allStreams
  rw [List.nodup_append]
  refine ⟨?_, ?_, ?_⟩
  · exact nodup_of_labelled (·.rgen) (moveStream en) (moveStream_inj en) log hn
      (fun e he j p hp => (h e he j p hp).1)
  · exact nodup_of_labelled (·.rgenEng) (engStream en) (engStream_inj en) log hn
      (fun e he j p hp => (h e he j p hp).2)
  · intro a ha b hb hab
    obtain ⟨e, j, p, he, hj, rfl⟩ := mem_flatMap_entries ha
    obtain ⟨e', j', p', he', hj', rfl⟩ := mem_flatMap_entries hb
    rw [(h e he j p hj).1, (h e' he' j' p' hj').2] at hab
    simp [moveStream, engStream] at hab

/-- none of them has the scheduler's (empty) spawn key -/
theorem Tagged.key_ne_nil {en : Nat} {log : List Entry} (h : Tagged en log)
    {x : Stream} (hx : x ∈ allStreams (log.map (·.job))) : x.key ≠ [] := by
  obtain ⟨e, _, j, hx | hx⟩ := h.mem_allStreams hx <;> subst hx <;> simp [moveStream, engStream]

/-- two entries with different ordinals share no stream -/
theorem Tagged.disjoint {en : Nat} {log : List Entry} (h : Tagged en log) {e1 e2 : Entry}
    (h1 : e1 ∈ log) (h2 : e2 ∈ log) (hne : e1.ord ≠ e2.ord) :
    ∀ x ∈ allStreams [e1.job], x ∉ allStreams [e2.job] := by
  intro x hx1 hx2
  have t1 : Tagged en [e1] := by intro e he; simp only [List.mem_singleton] at he; subst he; exact h e h1
  have t2 : Tagged en [e2] := by intro e he; simp only [List.mem_singleton] at he; subst he; exact h e h2
  obtain ⟨a, ha, j, hxa⟩ := t1.mem_allStreams (log := [e1]) (by simpa using hx1)
  obtain ⟨b, hb, j', hxb⟩ := t2.mem_allStreams (log := [e2]) (by simpa using hx2)
  simp only [List.mem_singleton] at ha hb
  subst ha hb
  rcases hxa with hxa | hxa <;> rcases hxb with hxb | hxb <;> rw [hxa] at hxb
  · exact hne (moveStream_inj en _ _ _ _ hxb).1
  · simp [moveStream, engStream] at hxb
  · simp [moveStream, engStream] at hxb
  · exact hne (engStream_inj en _ _ _ _ hxb).1

/-- two entries with the same ordinal (a job and its re-issue) carry the same streams, entry by entry -/
theorem Tagged.same {en : Nat} {log : List Entry} (h : Tagged en log) {e1 e2 : Entry}
    (h1 : e1 ∈ log) (h2 : e2 ∈ log) (heq : e1.ord = e2.ord) (j : Nat) (p q : Picked)
    (hp : e1.job.picked[j]? = some p) (hq : e2.job.picked[j]? = some q) :
    p.rgen = q.rgen ∧ p.rgenEng = q.rgenEng := by
  obtain ⟨a1, a2⟩ := h e1 h1 j p hp
  obtain ⟨b1, b2⟩ := h e2 h2 j q hq
  rw [a1, a2, b1, b2, heq]
  exact ⟨rfl, rfl⟩

end Infretis.Repex
