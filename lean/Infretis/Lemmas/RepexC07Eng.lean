import Infretis.Model.EngSetup
import Infretis.Lemmas.RepexC07Frame
/-!
# C07 — the engine set-up of `select_shoot`: every engine object of a job holds a stream of that job

`assignEngineStreams tbl picked` (Model/EngSetup.lean) mirrors the loop that does
`engine.rgen = pens["rgen-eng"]` for every engine object of every picked ensemble.  After it:
* an engine object listed by a picked ensemble holds the engine stream of the LAST picked ensemble
  that lists it — in particular a stream of this job, and exactly its own ensemble's stream when no
  later ensemble of the job shares the object (zero swap with distinct engines for `[0-]` and `[0+]`);
* an engine object the job does not use is untouched.
-/
namespace Infretis.Repex

theorem engLookup_filter_ne (tbl : EngTbl) (e e' : EngObj) (h : e' ≠ e) :
    (tbl.filter (fun b => b.1 != e)).lookup e' = tbl.lookup e' := by
  induction tbl with
  | nil => rfl
  | cons b t ih =>
    obtain ⟨k, v⟩ := b
    by_cases hk : k = e
    · subst hk
      have h1 : (e' == k) = false := by simpa using h
      simp only [List.filter_cons, bne_self_eq_false, Bool.false_eq_true, ↓reduceIte, List.lookup_cons, h1]
      exact ih
    · have h2 : (k != e) = true := by simpa using hk
      simp only [List.filter_cons, h2, ↓reduceIte, List.lookup_cons]
      rw [ih]

theorem engRgen_set_self (tbl : EngTbl) (e : EngObj) (x : Stream) :
    engRgen (setEngRgen tbl e x) e = some x := by
  simp [engRgen, setEngRgen, List.lookup_cons]

theorem engRgen_set_ne (tbl : EngTbl) (e e' : EngObj) (x : Stream) (h : e' ≠ e) :
    engRgen (setEngRgen tbl e x) e' = engRgen tbl e' := by
  have h1 : (e' == e) = false := by simpa using h
  simp only [engRgen, setEngRgen, List.lookup_cons, h1]
  exact engLookup_filter_ne tbl e e' h

theorem assignList_spec (x : Stream) : ∀ (l : List EngObj) (tbl : EngTbl) (e : EngObj),
    engRgen (l.foldl (fun t e => setEngRgen t e x) tbl) e = if e ∈ l then some x else engRgen tbl e := by
  intro l
  induction l with
  | nil => intro tbl e; simp
  | cons a l ih =>
    intro tbl e
    rw [List.foldl_cons, ih]
    by_cases hl : e ∈ l
    · simp [hl]
    · by_cases ha : e = a
      · subst ha
        simp [hl, engRgen_set_self]
      · have : e ∉ a :: l := by simp [ha, hl]
        rw [if_neg hl, if_neg this, engRgen_set_ne _ _ _ _ ha]

/-- one picked ensemble: its engine objects get its stream, the others keep theirs -/
theorem assignOne_spec (tbl : EngTbl) (p : Picked) (e : EngObj) :
    engRgen (assignOne tbl p) e = if e ∈ p.engIdx then some p.rgenEng else engRgen tbl e :=
  assignList_spec p.rgenEng p.engIdx tbl e

/-- an engine object the job does not use keeps whatever `rgen` it had -/
theorem assign_untouched : ∀ (picked : List Picked) (tbl : EngTbl) (e : EngObj),
    (∀ p ∈ picked, e ∉ p.engIdx) → engRgen (assignEngineStreams tbl picked) e = engRgen tbl e := by
  intro picked
  induction picked with
  | nil => intro tbl e _; rfl
  | cons p rest ih =>
    intro tbl e h
    unfold assignEngineStreams
    rw [List.foldl_cons]
    have := ih (assignOne tbl p) e (fun q hq => h q (List.mem_cons_of_mem _ hq))
    unfold assignEngineStreams at this
    rw [this, assignOne_spec, if_neg (h p (List.mem_cons_self ..))]

/-- the engine objects of a picked ensemble hold that ensemble's engine stream unless a LATER picked
    ensemble of the same job shares the object -/
theorem assign_last (l1 l2 : List Picked) (p : Picked) (tbl : EngTbl) (e : EngObj)
    (he : e ∈ p.engIdx) (hl : ∀ q ∈ l2, e ∉ q.engIdx) :
    engRgen (assignEngineStreams tbl (l1 ++ p :: l2)) e = some p.rgenEng := by
  unfold assignEngineStreams
  rw [List.foldl_append, List.foldl_cons]
  have := assign_untouched l2 (assignOne (List.foldl assignOne tbl l1) p) e hl
  unfold assignEngineStreams at this
  rw [this, assignOne_spec, if_pos he]

/-- **every engine object used by a job holds an engine stream of that job** after the set-up,
    whatever it held before (a stale generator of an earlier job, or nothing) -/
theorem assign_job_stream : ∀ (picked : List Picked) (tbl : EngTbl) (e : EngObj),
    (∃ p ∈ picked, e ∈ p.engIdx) →
    ∃ q ∈ picked, e ∈ q.engIdx ∧ engRgen (assignEngineStreams tbl picked) e = some q.rgenEng := by
  intro picked
  induction picked with
  | nil => intro tbl e h; obtain ⟨p, hp, _⟩ := h; simp at hp
  | cons p rest ih =>
    intro tbl e h
    by_cases hr : ∃ q ∈ rest, e ∈ q.engIdx
    · obtain ⟨q, hq, he, hres⟩ := ih (assignOne tbl p) e hr
      refine ⟨q, List.mem_cons_of_mem _ hq, he, ?_⟩
      unfold assignEngineStreams at hres ⊢
      rw [List.foldl_cons]
      exact hres
    · have hnone : ∀ q ∈ rest, e ∉ q.engIdx := fun q hq he => hr ⟨q, hq, he⟩
      obtain ⟨p', hp', he'⟩ := h
      have hp : e ∈ p.engIdx := by
        rcases List.mem_cons.mp hp' with h1 | h1
        · rw [← h1]; exact he'
        · exact absurd he' (hnone p' h1)
      refine ⟨p, List.mem_cons_self .., hp, ?_⟩
      exact assign_last [] rest p tbl e hp hnone

/-- with the streams of ordinal `ord` (what `prep_md_items` hands out): every engine object used by
    the job holds `(en, [ord, j, 0])` for an entry `j` of that job that lists it -/
theorem assign_job_ordinal {en ord : Nat} {picked : List Picked} (hs : StreamsAt en ord picked)
    (tbl : EngTbl) (e : EngObj) (h : ∃ p ∈ picked, e ∈ p.engIdx) :
    ∃ j q, picked[j]? = some q ∧ e ∈ q.engIdx ∧
      engRgen (assignEngineStreams tbl picked) e = some (engStream en ord j) := by
  obtain ⟨q, hq, he, hres⟩ := assign_job_stream picked tbl e h
  obtain ⟨j, hj⟩ := List.mem_iff_getElem?.mp hq
  exact ⟨j, q, hj, he, by rw [hres, (hs j q hj).2]⟩

end Infretis.Repex
