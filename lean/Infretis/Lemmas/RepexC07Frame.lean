import Infretis.Model.Repex
/-!
# C07 — which operation of the sampler touches the scheduler's seed sequence

`RngEq s s'`: the fields that describe the scheduler's `SeedSequence` / bit generator and the
counters the restart arithmetic uses are unchanged.  Every operation of `REPEX_state` except
`pick` / `pick_lock` (and `loop` for `cstep`) satisfies it.  `pick` / `pick_lock` / `prep_md_items`
spawn exactly one child (`spawned + 1`), hand out the streams `(entropy, [spawned, j])` and
`(entropy, [spawned, j, 0])`, and advance the scheduler stream by exactly the returned draw requests.
Core Lean only (no Mathlib).
-/
namespace Infretis.Repex
open Infretis.Perm

/-- the random-stream fields (and the counters used by the restart arithmetic) are unchanged -/
structure RngEq (s s' : St) : Prop where
  seed : s'.seed = s.seed
  entropy : s'.entropy = s.entropy
  spawned : s'.spawned = s.spawned
  mainDraws : s'.mainDraws = s.mainDraws
  restarted : s'.restarted = s.restarted
  rgenRestored : s'.rgenRestored = s.rgenRestored
  locked0 : s'.locked0 = s.locked0
  cstep : s'.cstep = s.cstep
  workers : s'.workers = s.workers
  tsteps : s'.tsteps = s.tsteps

theorem RngEq.refl (s : St) : RngEq s s := ⟨rfl, rfl, rfl, rfl, rfl, rfl, rfl, rfl, rfl, rfl⟩

theorem RngEq.trans {a b c : St} (h1 : RngEq a b) (h2 : RngEq b c) : RngEq a c :=
  ⟨h2.seed.trans h1.seed, h2.entropy.trans h1.entropy, h2.spawned.trans h1.spawned,
   h2.mainDraws.trans h1.mainDraws, h2.restarted.trans h1.restarted,
   h2.rgenRestored.trans h1.rgenRestored, h2.locked0.trans h1.locked0, h2.cstep.trans h1.cstep,
   h2.workers.trans h1.workers, h2.tsteps.trans h1.tsteps⟩

/-- `RngEq` and the in-flight record `locked` unchanged -/
def Quiet (s s' : St) : Prop := RngEq s s' ∧ s'.locked = s.locked

theorem Quiet.refl (s : St) : Quiet s s := ⟨RngEq.refl s, rfl⟩

theorem Quiet.trans {a b c : St} (h1 : Quiet a b) (h2 : Quiet b c) : Quiet a c :=
  ⟨h1.1.trans h2.1, h2.2.trans h1.2⟩

/-! ### swap, lock, unlock, add_traj -/

theorem swap_quiet (s : St) (t e : Nat) : Quiet s (swap s t e) :=
  ⟨⟨rfl, rfl, rfl, rfl, rfl, rfl, rfl, rfl, rfl, rfl⟩, rfl⟩

theorem lock_quiet {s s' : St} {e : Nat} (h : lock s e = .ok s') : Quiet s s' := by
  unfold lock at h
  split at h
  · injection h with h
    subst h
    exact ⟨⟨rfl, rfl, rfl, rfl, rfl, rfl, rfl, rfl, rfl, rfl⟩, rfl⟩
  · exact absurd h (by simp)
  · exact absurd h (by simp)

theorem unlock_quiet {s s' : St} {e : Nat} (h : unlock s e = .ok s') : Quiet s s' := by
  unfold unlock at h
  split at h
  · injection h with h
    subst h
    exact ⟨⟨rfl, rfl, rfl, rfl, rfl, rfl, rfl, rfl, rfl, rfl⟩, rfl⟩
  · exact absurd h (by simp)
  · exact absurd h (by simp)

theorem addTraj_quiet {s s' : St} {ens : Int} {pn : Nat} {valid : List Rat}
    (h : addTraj s ens pn valid = .ok s') : Quiet s s' := by
  unfold addTraj at h
  simp only [] at h
  split at h
  · exact absurd h (by simp)
  split at h
  · exact absurd h (by simp)
  split at h
  · exact absurd h (by simp)
  split at h
  · exact absurd h (by simp)
  refine Quiet.trans ?_ (unlock_quiet h)
  exact ⟨⟨rfl, rfl, rfl, rfl, rfl, rfl, rfl, rfl, rfl, rfl⟩, rfl⟩

/-! ### sort_trajstate, recording -/

theorem sortStep_quiet {s s' : St} (h : sortStep s = .ok (some s')) : Quiet s s' := by
  unfold sortStep at h
  simp only [] at h
  split at h
  · exact absurd h (by simp)
  split at h
  · exact absurd h (by simp)
  split at h
  · exact absurd h (by simp)
  simp only [Except.ok.injEq, Option.some.injEq] at h
  subst h
  exact swap_quiet _ _ _

theorem sortTrajstate_quiet : ∀ (fuel : Nat) {s s' : St} {k : Nat},
    sortTrajstate fuel s = .ok (s', k) → Quiet s s' := by
  intro fuel
  induction fuel with
  | zero => intro s s' k hs; simp [sortTrajstate] at hs
  | succ fuel ih =>
    intro s s' k hs
    unfold sortTrajstate at hs
    split at hs
    · exact absurd hs (by simp)
    · simp only [Except.ok.injEq, Prod.mk.injEq] at hs
      obtain ⟨rfl, _⟩ := hs
      exact Quiet.refl s
    · rename_i s1 hstep
      split at hs
      · exact absurd hs (by simp)
      · rename_i s2 k2 hrec
        simp only [Except.ok.injEq, Prod.mk.injEq] at hs
        obtain ⟨rfl, _⟩ := hs
        exact (sortStep_quiet hstep).trans (ih hrec)

theorem recordFrac_quiet {s s' : St} (h : recordFrac s = .ok s') : Quiet s s' := by
  unfold recordFrac at h
  simp only [] at h
  split at h
  · exact absurd h (by simp)
  · simp only [Except.ok.injEq] at h
    subst h
    exact ⟨⟨rfl, rfl, rfl, rfl, rfl, rfl, rfl, rfl, rfl, rfl⟩, rfl⟩

theorem writeRows_quiet : ∀ (l : List Nat) {s s' : St}, writeRows s l = .ok s' → Quiet s s' := by
  intro l
  induction l with
  | nil =>
    intro s s' h
    simp only [writeRows, Except.ok.injEq] at h
    subst h
    exact Quiet.refl s
  | cons pn rest ih =>
    intro s s' h
    unfold writeRows at h
    split at h
    · refine Quiet.trans ?_ (ih h)
      exact ⟨⟨rfl, rfl, rfl, rfl, rfl, rfl, rfl, rfl, rfl, rfl⟩, rfl⟩
    · exact absurd h (by simp)

/-! ### treat_output: only `locked` changes, by the pops of the completed job's path numbers -/

/-- the pops of `treat_output`'s per-ensemble loop, in order -/
def popAll (ps : List Picked) (L : List (List Int × List Nat)) : List (List Int × List Nat) :=
  ps.foldl (fun L p => popLocked p.pn L.length 0 L) L

theorem perEns_quiet (status : Status) : ∀ (l : List (Picked × List Rat)) {s s' : St}
    {tn tn' : Nat} {pns : List Nat},
    treatOutput.perEns status s tn l = .ok (s', tn', pns) →
    RngEq s s' ∧ s'.locked = popAll (l.map Prod.fst) s.locked := by
  intro l
  induction l with
  | nil =>
    intro s s' tn tn' pns hp
    simp only [treatOutput.perEns, Except.ok.injEq, Prod.mk.injEq] at hp
    obtain ⟨rfl, _, _⟩ := hp
    exact ⟨RngEq.refl _, rfl⟩
  | cons pw rest ih =>
    intro s s' tn tn' pns hp
    obtain ⟨p, w⟩ := pw
    unfold treatOutput.perEns at hp
    simp only [] at hp
    split at hp
    · split at hp
      · exact absurd hp (by simp)
      rename_i s3 hadd
      split at hp
      · exact absurd hp (by simp)
      rename_i s4 tn4 pns4 hrec
      simp only [Except.ok.injEq, Prod.mk.injEq] at hp
      obtain ⟨rfl, _, _⟩ := hp
      obtain ⟨h3, hl3⟩ := addTraj_quiet hadd
      obtain ⟨h4, hl4⟩ := ih hrec
      refine ⟨(RngEq.trans (b := _) ?_ h3).trans h4, ?_⟩
      · exact ⟨rfl, rfl, rfl, rfl, rfl, rfl, rfl, rfl, rfl, rfl⟩
      rw [hl4, hl3]
      rfl
    · split at hp
      · exact absurd hp (by simp)
      split at hp
      · exact absurd hp (by simp)
      rename_i s3 hadd
      split at hp
      · exact absurd hp (by simp)
      rename_i s4 tn4 pns4 hrec
      simp only [Except.ok.injEq, Prod.mk.injEq] at hp
      obtain ⟨rfl, _, _⟩ := hp
      obtain ⟨h3, hl3⟩ := addTraj_quiet hadd
      obtain ⟨h4, hl4⟩ := ih hrec
      refine ⟨(RngEq.trans (b := _) ?_ h3).trans h4, ?_⟩
      · exact ⟨rfl, rfl, rfl, rfl, rfl, rfl, rfl, rfl, rfl, rfl⟩
      rw [hl4, hl3]
      rfl

/-- **`treat_output`** leaves the scheduler's seed sequence, spawn counter and stream position alone;
    `locked` loses what the pops of the job's path numbers remove. -/
theorem treatOutput_quiet {s s' : St} (job : Job) (status : Status) (newW : List (List Rat))
    (fuel : Nat) (pns : List Nat) (it : Nat)
    (ht : treatOutput s job status newW fuel = .ok (s', pns, it)) :
    RngEq s s' ∧ s'.locked = popAll job.picked s.locked := by
  unfold treatOutput at ht
  simp only [] at ht
  generalize hws : (if status = Status.acc then newW else job.picked.map (fun _ => [])) = ws at ht
  split at ht
  · exact absurd ht (by simp)
  rename_i hlen
  have hlen := Classical.not_not.mp hlen
  split at ht
  · exact absurd ht (by simp)
  rename_i s1 tn pnNews hper
  split at ht
  · exact absurd ht (by simp)
  rename_i s2 hrec
  split at ht
  · exact absurd ht (by simp)
  rename_i s3 hwr
  split at ht
  · exact absurd ht (by simp)
  rename_i s4 iters hsort
  simp only [Except.ok.injEq, Prod.mk.injEq] at ht
  obtain ⟨rfl, _, _⟩ := ht
  have hfst : (job.picked.zip ws).map Prod.fst = job.picked := List.map_fst_zip (by omega)
  obtain ⟨h1, hl1⟩ := perEns_quiet status _ hper
  rw [hfst] at hl1
  obtain ⟨h2, hl2⟩ := recordFrac_quiet hrec
  have h3 : Quiet s2 s3 := by
    split at hwr
    · exact writeRows_quiet _ hwr
    · simp only [Except.ok.injEq] at hwr
      subst hwr
      exact Quiet.refl _
  obtain ⟨h4, hl4⟩ := sortTrajstate_quiet fuel hsort
  refine ⟨RngEq.trans (((h1.trans h2).trans h3.1).trans h4) ?_, ?_⟩
  · exact ⟨rfl, rfl, rfl, rfl, rfl, rfl, rfl, rfl, rfl, rfl⟩
  show s4.locked = _
  rw [hl4, h3.2, hl2, hl1]

/-! ### counters -/

theorem initiate_quiet (s : St) : Quiet s (initiate s).1 := by
  unfold initiate
  split
  · exact Quiet.refl s
  · exact ⟨⟨rfl, rfl, rfl, rfl, rfl, rfl, rfl, rfl, rfl, rfl⟩, rfl⟩

theorem loop_true {s s1 : St} (h : loop s = (s1, true)) : s1 = { s with cstep := s.cstep + 1 } := by
  unfold loop at h
  split at h
  · simp at h
  · simp only [Prod.mk.injEq] at h
    exact h.1.symm

/-! ### load_paths -/

theorem loadOne_quiet {s s' : St} {ens : Int} {pn : Nat} {valid fr : List Rat}
    (h : loadOne s ens pn valid fr = .ok s') : Quiet s s' := by
  unfold loadOne at h
  split at h
  · exact absurd h (by simp)
  rename_i s1 hadd
  simp only [Except.ok.injEq] at h
  subst h
  refine (addTraj_quiet hadd).trans ?_
  exact ⟨⟨rfl, rfl, rfl, rfl, rfl, rfl, rfl, rfl, rfl, rfl⟩, rfl⟩

theorem loadPlus_quiet : ∀ (l : List (Nat × List Rat × List Rat)) {s s' : St} {i : Nat},
    loadPaths.plus s i l = .ok s' → Quiet s s' := by
  intro l
  induction l with
  | nil =>
    intro s s' i h
    simp only [loadPaths.plus, Except.ok.injEq] at h
    subst h
    exact Quiet.refl s
  | cons x rest ih =>
    intro s s' i h
    obtain ⟨pn, w, fr⟩ := x
    unfold loadPaths.plus at h
    split at h
    · exact absurd h (by simp)
    rename_i s1 h1
    exact (loadOne_quiet h1).trans (ih h)

theorem loadPaths_quiet {s s' : St} {paths : List (Nat × List Rat × List Rat)}
    (h : loadPaths s paths = .ok s') : Quiet s s' := by
  unfold loadPaths at h
  split at h
  · exact absurd h (by simp)
  rename_i pn0 w0 fr0 rest
  split at h
  · exact absurd h (by simp)
  rename_i s1 h1
  exact (loadPlus_quiet _ h1).trans (loadOne_quiet h)

/-! ### the streams handed out by `mkPicked` -/

/-- the move and engine streams of job ordinal `k`, picked entry `j`, in a sequence with entropy `en` -/
def moveStream (en k j : Nat) : Stream := { entropy := en, key := [k, j] }
def engStream (en k j : Nat) : Stream := { entropy := en, key := [k, j, 0] }

theorem mkPicked_go_streams (child : Stream) : ∀ (pairs : List (Int × Option Nat)) (j : Nat)
    (ps : List Picked), mkPicked.go child j pairs = .ok ps →
    ps.length = pairs.length ∧
    ∀ i p, ps[i]? = some p →
      p.rgen = spawnStream child (j + i) ∧ p.rgenEng = spawnStream (spawnStream child (j + i)) 0 := by
  intro pairs
  induction pairs with
  | nil =>
    intro j ps h
    simp only [mkPicked.go, Except.ok.injEq] at h
    subst h
    exact ⟨rfl, by intro i p hp; simp at hp⟩
  | cons x rest ih =>
    intro j ps h
    obtain ⟨e, opn⟩ := x
    cases opn with
    | none => simp [mkPicked.go] at h
    | some pn =>
      simp only [mkPicked.go] at h
      split at h
      · exact absurd h (by simp)
      · rename_i ps0 h0
        obtain ⟨hl, hs⟩ := ih (j + 1) ps0 h0
        simp only [Except.ok.injEq] at h
        subst h
        refine ⟨by simp [hl], ?_⟩
        intro i p hp
        cases i with
        | zero =>
          simp only [List.getElem?_cons_zero, Option.some.injEq] at hp
          subst hp
          exact ⟨rfl, rfl⟩
        | succ i =>
          simp only [List.getElem?_cons_succ] at hp
          have := hs i p hp
          have e1 : j + 1 + i = j + (i + 1) := by omega
          rw [e1] at this
          exact this

/-- **`mkPicked`**: entry `j` of the job gets `(entropy, [spawned, j])` and `(entropy, [spawned, j, 0])` -/
theorem mkPicked_streams {s : St} {pairs : List (Int × Option Nat)} {ps : List Picked}
    (h : mkPicked s pairs = .ok ps) :
    ∀ j p, ps[j]? = some p →
      p.rgen = moveStream s.entropy s.spawned j ∧ p.rgenEng = engStream s.entropy s.spawned j := by
  unfold mkPicked at h
  obtain ⟨_, hs⟩ := mkPicked_go_streams _ pairs 0 ps h
  intro j p hp
  obtain ⟨h1, h2⟩ := hs j p hp
  rw [Nat.zero_add] at h1 h2
  rw [h1, h2]
  exact ⟨rfl, rfl⟩

/-! ### pick, pick_lock, prep_md_items -/

/-- the shapes of the draw requests of one `pick()` on the scheduler stream -/
def DrawShape (ds : List Draw) : Prop :=
  (∃ P, ds = [Draw.choiceAll P]) ∨ (∃ P, ds = [Draw.choiceAll P, Draw.coin]) ∨
  (∃ P c col, ds = [Draw.choiceAll P, Draw.coin, Draw.choiceCol c col])

theorem pickCore_quiet {s s' : St} {o : PickOutcome} {pairs : List (Int × Option Nat)} {ds : List Draw}
    (hp : pickCore s o = .ok (s', pairs, ds)) : Quiet s s' ∧ DrawShape ds := by
  unfold pickCore at hp
  simp only [] at hp
  split at hp
  · exact absurd hp (by simp)
  split at hp
  · exact absurd hp (by simp)
  rename_i s2 hl
  have q2 : Quiet s s2 := (swap_quiet s o.t o.e).trans (lock_quiet hl)
  split at hp
  · by_cases he1 : (o.e == off) = true
    · simp only [he1, ↓reduceIte] at hp
      split at hp
      · exact absurd hp (by simp)
      split at hp
      · exact absurd hp (by simp)
      rename_i s4 hl4
      simp only [Except.ok.injEq, Prod.mk.injEq] at hp
      obtain ⟨rfl, _, rfl⟩ := hp
      exact ⟨q2.trans ((swap_quiet s2 _ _).trans (lock_quiet hl4)), Or.inr (Or.inr ⟨_, _, _, rfl⟩)⟩
    · have he1f : (o.e == off) = false := by simpa using he1
      simp only [he1f, Bool.false_eq_true, ↓reduceIte] at hp
      split at hp
      · exact absurd hp (by simp)
      split at hp
      · exact absurd hp (by simp)
      rename_i s4 hl4
      simp only [Except.ok.injEq, Prod.mk.injEq] at hp
      obtain ⟨rfl, _, rfl⟩ := hp
      exact ⟨q2.trans ((swap_quiet s2 _ _).trans (lock_quiet hl4)), Or.inr (Or.inr ⟨_, _, _, rfl⟩)⟩
  · simp only [Except.ok.injEq, Prod.mk.injEq] at hp
    obtain ⟨rfl, _, rfl⟩ := hp
    refine ⟨q2, ?_⟩
    split
    · exact Or.inr (Or.inl ⟨_, rfl⟩)
    · exact Or.inl ⟨_, rfl⟩

/-- what issuing one job does to the scheduler's seed sequence -/
structure Issue (s s' : St) (ps : List Picked) : Prop where
  seed : s'.seed = s.seed
  entropy : s'.entropy = s.entropy
  spawned : s'.spawned = s.spawned + 1
  restarted : s'.restarted = s.restarted
  cstep : s'.cstep = s.cstep
  workers : s'.workers = s.workers
  tsteps : s'.tsteps = s.tsteps
  streams : ∀ j p, ps[j]? = some p →
    p.rgen = moveStream s.entropy s.spawned j ∧ p.rgenEng = engStream s.entropy s.spawned j
  locked : ∃ entry, s'.locked = s.locked ++ [entry]

/-- **`pick()`**: one child spawned, streams `(entropy, [spawned, j])`, the scheduler stream advanced
    by exactly the returned requests, one record appended to `locked`. -/
theorem pick_issue {s s' : St} {o : PickOutcome} {ps : List Picked} {ds : List Draw}
    (hp : pick s o = .ok (s', ps, ds)) :
    Issue s s' ps ∧ s'.mainDraws = s.mainDraws + ds.length ∧ s'.rgenRestored = s.rgenRestored ∧
      s'.locked0 = s.locked0 ∧ DrawShape ds ∧
      ∃ es, s'.locked = s.locked ++ [(es, ps.map (·.pn))] := by
  unfold pick at hp
  split at hp
  · exact absurd hp (by simp)
  rename_i s1 pairs ds1 hpc
  obtain ⟨⟨q, ql⟩, hshape⟩ := pickCore_quiet hpc
  split at hp
  · exact absurd hp (by simp)
  rename_i ps1 hmk
  simp only [Except.ok.injEq, Prod.mk.injEq] at hp
  obtain ⟨rfl, rfl, rfl⟩ := hp
  have hst := mkPicked_streams hmk
  rw [q.entropy, q.spawned] at hst
  refine ⟨⟨q.seed, q.entropy, ?_, q.restarted, q.cstep, q.workers, q.tsteps, hst,
      ⟨(pairs.map (·.1), ps1.map (·.pn)), ?_⟩⟩, ?_,
    q.rgenRestored, q.locked0, hshape, ⟨pairs.map (·.1), ?_⟩⟩
  · show s1.spawned + 1 = s.spawned + 1
    rw [q.spawned]
  · show s1.locked ++ _ = s.locked ++ _
    rw [ql]
  · show s1.mainDraws + drawCount ds1 = s.mainDraws + ds1.length
    rw [q.mainDraws]
    rfl
  · show s1.locked ++ _ = s.locked ++ _
    rw [ql]

theorem reissue_go_quiet : ∀ (l : List (Nat × Nat)) {s s' : St} {pairs : List (Int × Option Nat)},
    reissue.go s l = .ok (s', pairs) → Quiet s s' := by
  intro l
  induction l with
  | nil =>
    intro s s' pairs h
    simp only [reissue.go, Except.ok.injEq, Prod.mk.injEq] at h
    obtain ⟨rfl, _⟩ := h
    exact Quiet.refl s
  | cons x rest ih =>
    intro s s' pairs h
    obtain ⟨e, tr⟩ := x
    unfold reissue.go at h
    split at h
    · exact absurd h (by simp)
    rename_i ti _
    simp only [] at h
    split at h
    · exact absurd h (by simp)
    rename_i s2 hl
    split at h
    · exact absurd h (by simp)
    rename_i s3 ps hrec
    simp only [Except.ok.injEq, Prod.mk.injEq] at h
    obtain ⟨rfl, _⟩ := h
    exact ((swap_quiet s ti e).trans (lock_quiet hl)).trans (ih hrec)

/-- the seed sequence (not the position of its bit generator) is unchanged -/
structure RngEqUpToDraws (s s' : St) : Prop where
  seed : s'.seed = s.seed
  entropy : s'.entropy = s.entropy
  spawned : s'.spawned = s.spawned
  restarted : s'.restarted = s.restarted
  cstep : s'.cstep = s.cstep
  workers : s'.workers = s.workers
  tsteps : s'.tsteps = s.tsteps
  locked : s'.locked = s.locked

theorem restoreStreamOnce_idle {s : St} (d : Nat) (h : s.restarted = false ∨ s.rgenRestored = true) :
    restoreStreamOnce s d = s := by
  unfold restoreStreamOnce
  split
  · rename_i hc
    rcases h with h | h
    · rw [h] at hc; exact absurd hc.1 (by simp)
    · rw [h] at hc; exact absurd hc.2 (by simp)
  · rfl

/-- **`pick_lock()`** (both branches: a fresh pick, or the re-issue of a job recorded in the restart
    file): one child spawned, streams `(entropy, [spawned, j])`. -/
theorem pickLock_issue {s s' : St} {o : PickOutcome} {d : Nat} {ps : List Picked} {ds : List Draw}
    (hp : pickLock s o d = .ok (s', ps, ds)) : Issue s s' ps := by
  unfold pickLock at hp
  split at hp
  · -- nothing left to re-issue: restore the stream position (once), then `pick()`
    obtain ⟨hi, _⟩ := pick_issue hp
    have hr : RngEqUpToDraws s (restoreStreamOnce s d) := by
      unfold restoreStreamOnce
      split
      · exact ⟨rfl, rfl, rfl, rfl, rfl, rfl, rfl, rfl⟩
      · exact ⟨rfl, rfl, rfl, rfl, rfl, rfl, rfl, rfl⟩
    exact ⟨hi.seed.trans hr.seed, hi.entropy.trans hr.entropy, by rw [hi.spawned, hr.spawned],
      hi.restarted.trans hr.restarted, hi.cstep.trans hr.cstep, hi.workers.trans hr.workers,
      hi.tsteps.trans hr.tsteps, by rw [← hr.entropy, ← hr.spawned]; exact hi.streams,
      by rw [← hr.locked]; exact hi.locked⟩
  · rename_i enss0 trajs0 rest hl0
    split at hp
    · exact absurd hp (by simp)
    rename_i s1 pairs hre
    split at hp
    · exact absurd hp (by simp)
    rename_i ps1 hmk
    simp only [Except.ok.injEq, Prod.mk.injEq] at hp
    obtain ⟨rfl, rfl, _⟩ := hp
    unfold reissue at hre
    obtain ⟨q, ql⟩ := reissue_go_quiet _ hre
    have hst := mkPicked_streams hmk
    exact ⟨q.seed, q.entropy, by show s1.spawned + 1 = _; rw [q.spawned], q.restarted, q.cstep,
      q.workers, q.tsteps, by rw [q.entropy, q.spawned] at hst; exact hst,
      ⟨_, by show s1.locked ++ _ = _; rw [ql]⟩⟩

end Infretis.Repex
