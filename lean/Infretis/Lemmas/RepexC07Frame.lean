import Infretis.Model.Repex
/-!
# C07 — which operation of the sampler touches the scheduler's seed sequence

`RngEq s s'`: the fields that describe the scheduler's `SeedSequence` / bit generator and the
counters the restart arithmetic uses are unchanged.  Every operation of `REPEX_state` except
`pick` / `pick_lock` (and `loop` for `cstep`) satisfies it.  `pick` / `pick_lock` / `prep_md_items`
spawn exactly one child (`spawned + 1`), hand out the streams `(entropy, [spawned, j])` and
`(entropy, [spawned, j, 0])`, and advance the scheduler stream by exactly the returned draw requests.
Core Lean only (no Mathlib).
-/
namespace Infretis.Repex
open Infretis.Perm

/-- the random-stream fields (and the counters used by the restart arithmetic) are unchanged -/
structure RngEq (s s' : St) : Prop where
  seed : s'.seed = s.seed
  entropy : s'.entropy = s.entropy
  spawned : s'.spawned = s.spawned
  mainDraws : s'.mainDraws = s.mainDraws
  restarted : s'.restarted = s.restarted
  rgenRestored : s'.rgenRestored = s.rgenRestored
  locked0 : s'.locked0 = s.locked0
  cstep : s'.cstep = s.cstep
  workers : s'.workers = s.workers
  tsteps : s'.tsteps = s.tsteps
  locked0Ord : s'.locked0Ord = s.locked0Ord

theorem RngEq.refl (s : St) : RngEq s s := ⟨rfl, rfl, rfl, rfl, rfl, rfl, rfl, rfl, rfl, rfl, rfl⟩

theorem RngEq.trans {a b c : St} (h1 : RngEq a b) (h2 : RngEq b c) : RngEq a c :=
  ⟨h2.seed.trans h1.seed, h2.entropy.trans h1.entropy, h2.spawned.trans h1.spawned,
   h2.mainDraws.trans h1.mainDraws, h2.restarted.trans h1.restarted,
   h2.rgenRestored.trans h1.rgenRestored, h2.locked0.trans h1.locked0, h2.cstep.trans h1.cstep,
   h2.workers.trans h1.workers, h2.tsteps.trans h1.tsteps, h2.locked0Ord.trans h1.locked0Ord⟩

/-- `RngEq` and the in-flight record `locked` unchanged -/
def Quiet (s s' : St) : Prop := RngEq s s' ∧ s'.locked = s.locked ∧ s'.lockedOrd = s.lockedOrd

theorem Quiet.refl (s : St) : Quiet s s := ⟨RngEq.refl s, rfl, rfl⟩

theorem Quiet.trans {a b c : St} (h1 : Quiet a b) (h2 : Quiet b c) : Quiet a c :=
  ⟨h1.1.trans h2.1, h2.2.1.trans h1.2.1, h2.2.2.trans h1.2.2⟩

/-! ### swap, lock, unlock, add_traj -/

theorem swap_quiet (s : St) (t e : Nat) : Quiet s (swap s t e) :=
  ⟨⟨rfl, rfl, rfl, rfl, rfl, rfl, rfl, rfl, rfl, rfl, rfl⟩, rfl, rfl⟩

theorem lock_quiet {s s' : St} {e : Nat} (h : lock s e = .ok s') : Quiet s s' := by
  unfold lock at h
  split at h
  · injection h with h
    subst h
    exact ⟨⟨rfl, rfl, rfl, rfl, rfl, rfl, rfl, rfl, rfl, rfl, rfl⟩, rfl, rfl⟩
  · exact absurd h (by simp)
  · exact absurd h (by simp)

theorem unlock_quiet {s s' : St} {e : Nat} (h : unlock s e = .ok s') : Quiet s s' := by
  unfold unlock at h
  split at h
  · injection h with h
    subst h
    exact ⟨⟨rfl, rfl, rfl, rfl, rfl, rfl, rfl, rfl, rfl, rfl, rfl⟩, rfl, rfl⟩
  · exact absurd h (by simp)
  · exact absurd h (by simp)

theorem addTraj_quiet {s s' : St} {ens : Int} {pn : Nat} {valid : List Rat}
    (h : addTraj s ens pn valid = .ok s') : Quiet s s' := by
  unfold addTraj at h
  simp only [] at h
  split at h
  · exact absurd h (by simp)
  split at h
  · exact absurd h (by simp)
  split at h
  · exact absurd h (by simp)
  split at h
  · exact absurd h (by simp)
  refine Quiet.trans ?_ (unlock_quiet h)
  exact ⟨⟨rfl, rfl, rfl, rfl, rfl, rfl, rfl, rfl, rfl, rfl, rfl⟩, rfl, rfl⟩

/-! ### sort_trajstate, recording -/

theorem sortStep_quiet {s s' : St} (h : sortStep s = .ok (some s')) : Quiet s s' := by
  unfold sortStep at h
  simp only [] at h
  split at h
  · exact absurd h (by simp)
  split at h
  · exact absurd h (by simp)
  split at h
  · exact absurd h (by simp)
  simp only [Except.ok.injEq, Option.some.injEq] at h
  subst h
  exact swap_quiet _ _ _

theorem sortTrajstate_quiet : ∀ (fuel : Nat) {s s' : St} {k : Nat},
    sortTrajstate fuel s = .ok (s', k) → Quiet s s' := by
  intro fuel
  induction fuel with
  | zero => intro s s' k hs; simp [sortTrajstate] at hs
  | succ fuel ih =>
    intro s s' k hs
    unfold sortTrajstate at hs
    split at hs
    · exact absurd hs (by simp)
    · simp only [Except.ok.injEq, Prod.mk.injEq] at hs
      obtain ⟨rfl, _⟩ := hs
      exact Quiet.refl s
    · rename_i s1 hstep
      split at hs
      · exact absurd hs (by simp)
      · rename_i s2 k2 hrec
        simp only [Except.ok.injEq, Prod.mk.injEq] at hs
        obtain ⟨rfl, _⟩ := hs
        exact (sortStep_quiet hstep).trans (ih hrec)

theorem recordFrac_quiet {s s' : St} (h : recordFrac s = .ok s') : Quiet s s' := by
  unfold recordFrac at h
  simp only [] at h
  split at h
  · exact absurd h (by simp)
  · simp only [Except.ok.injEq] at h
    subst h
    exact ⟨⟨rfl, rfl, rfl, rfl, rfl, rfl, rfl, rfl, rfl, rfl, rfl⟩, rfl, rfl⟩

theorem writeRows_quiet : ∀ (l : List Nat) {s s' : St}, writeRows s l = .ok s' → Quiet s s' := by
  intro l
  induction l with
  | nil =>
    intro s s' h
    simp only [writeRows, Except.ok.injEq] at h
    subst h
    exact Quiet.refl s
  | cons pn rest ih =>
    intro s s' h
    unfold writeRows at h
    split at h
    · refine Quiet.trans ?_ (ih h)
      exact ⟨⟨rfl, rfl, rfl, rfl, rfl, rfl, rfl, rfl, rfl, rfl, rfl⟩, rfl, rfl⟩
    · exact absurd h (by simp)

/-! ### treat_output: only `locked` / `lockedOrd` change, by the pops of the completed job -/

/-- the pops of `treat_output`'s per-ensemble loop, in order, on the records and on the ordinals
    riding with them -/
def popAll (ps : List Picked) (LO : List (List Int × List Nat) × List Nat) :
    List (List Int × List Nat) × List Nat :=
  ps.foldl (fun LO p => (popLocked p.pn LO.1.length 0 LO.1, popLockedOrd p.pn LO.1.length 0 LO.1 LO.2)) LO

theorem perEns_quiet (status : Status) : ∀ (l : List (Picked × List Rat)) {s s' : St}
    {tn tn' : Nat} {pns : List Nat},
    treatOutput.perEns status s tn l = .ok (s', tn', pns) →
    RngEq s s' ∧ (s'.locked, s'.lockedOrd) = popAll (l.map Prod.fst) (s.locked, s.lockedOrd) := by
  intro l
  induction l with
  | nil =>
    intro s s' tn tn' pns hp
    simp only [treatOutput.perEns, Except.ok.injEq, Prod.mk.injEq] at hp
    obtain ⟨rfl, _, _⟩ := hp
    exact ⟨RngEq.refl _, rfl⟩
  | cons pw rest ih =>
    intro s s' tn tn' pns hp
    obtain ⟨p, w⟩ := pw
    unfold treatOutput.perEns at hp
    simp only [] at hp
    split at hp
    · split at hp
      · exact absurd hp (by simp)
      rename_i s3 hadd
      split at hp
      · exact absurd hp (by simp)
      rename_i s4 tn4 pns4 hrec
      simp only [Except.ok.injEq, Prod.mk.injEq] at hp
      obtain ⟨rfl, _, _⟩ := hp
      obtain ⟨h3, hl3, ho3⟩ := addTraj_quiet hadd
      obtain ⟨h4, hl4⟩ := ih hrec
      refine ⟨(RngEq.trans (b := _) ?_ h3).trans h4, ?_⟩
      · exact ⟨rfl, rfl, rfl, rfl, rfl, rfl, rfl, rfl, rfl, rfl, rfl⟩
      rw [hl4, hl3, ho3]
      rfl
    · split at hp
      · exact absurd hp (by simp)
      split at hp
      · exact absurd hp (by simp)
      rename_i s3 hadd
      split at hp
      · exact absurd hp (by simp)
      rename_i s4 tn4 pns4 hrec
      simp only [Except.ok.injEq, Prod.mk.injEq] at hp
      obtain ⟨rfl, _, _⟩ := hp
      obtain ⟨h3, hl3, ho3⟩ := addTraj_quiet hadd
      obtain ⟨h4, hl4⟩ := ih hrec
      refine ⟨(RngEq.trans (b := _) ?_ h3).trans h4, ?_⟩
      · exact ⟨rfl, rfl, rfl, rfl, rfl, rfl, rfl, rfl, rfl, rfl, rfl⟩
      rw [hl4, hl3, ho3]
      rfl

/-- **`treat_output`** leaves the scheduler's seed sequence, spawn counter and stream position alone;
    `locked` (and the ordinals riding with it) lose what the pops of the job's path numbers remove. -/
theorem treatOutput_quiet {s s' : St} (job : Job) (status : Status) (newW : List (List Rat))
    (fuel : Nat) (pns : List Nat) (it : Nat)
    (ht : treatOutput s job status newW fuel = .ok (s', pns, it)) :
    RngEq s s' ∧ (s'.locked, s'.lockedOrd) = popAll job.picked (s.locked, s.lockedOrd) := by
  unfold treatOutput at ht
  simp only [] at ht
  generalize hws : (if status = Status.acc then newW else job.picked.map (fun _ => [])) = ws at ht
  split at ht
  · exact absurd ht (by simp)
  rename_i hlen
  have hlen := Classical.not_not.mp hlen
  split at ht
  · exact absurd ht (by simp)
  rename_i s1 tn pnNews hper
  split at ht
  · exact absurd ht (by simp)
  rename_i s2 hrec
  split at ht
  · exact absurd ht (by simp)
  rename_i s3 hwr
  split at ht
  · exact absurd ht (by simp)
  rename_i s4 iters hsort
  simp only [Except.ok.injEq, Prod.mk.injEq] at ht
  obtain ⟨rfl, _, _⟩ := ht
  have hfst : (job.picked.zip ws).map Prod.fst = job.picked := List.map_fst_zip (by omega)
  obtain ⟨h1, hl1⟩ := perEns_quiet status _ hper
  rw [hfst] at hl1
  obtain ⟨h2, hl2, ho2⟩ := recordFrac_quiet hrec
  have h3 : Quiet s2 s3 := by
    split at hwr
    · exact writeRows_quiet _ hwr
    · simp only [Except.ok.injEq] at hwr
      subst hwr
      exact Quiet.refl _
  obtain ⟨h4, hl4, ho4⟩ := sortTrajstate_quiet fuel hsort
  refine ⟨RngEq.trans (((h1.trans h2).trans h3.1).trans h4) ?_, ?_⟩
  · exact ⟨rfl, rfl, rfl, rfl, rfl, rfl, rfl, rfl, rfl, rfl, rfl⟩
  show (s4.locked, s4.lockedOrd) = _
  rw [hl4, ho4, h3.2.1, h3.2.2, hl2, ho2, hl1]

/-! ### counters -/

theorem initiate_quiet (s : St) : Quiet s (initiate s).1 := by
  unfold initiate
  split
  · exact Quiet.refl s
  · exact ⟨⟨rfl, rfl, rfl, rfl, rfl, rfl, rfl, rfl, rfl, rfl, rfl⟩, rfl, rfl⟩

theorem loop_true {s s1 : St} (h : loop s = (s1, true)) : s1 = { s with cstep := s.cstep + 1 } := by
  unfold loop at h
  split at h
  · simp at h
  · simp only [Prod.mk.injEq] at h
    exact h.1.symm

/-! ### load_paths -/

theorem loadOne_quiet {s s' : St} {ens : Int} {pn : Nat} {valid fr : List Rat}
    (h : loadOne s ens pn valid fr = .ok s') : Quiet s s' := by
  unfold loadOne at h
  split at h
  · exact absurd h (by simp)
  rename_i s1 hadd
  simp only [Except.ok.injEq] at h
  subst h
  refine (addTraj_quiet hadd).trans ?_
  exact ⟨⟨rfl, rfl, rfl, rfl, rfl, rfl, rfl, rfl, rfl, rfl, rfl⟩, rfl, rfl⟩

theorem loadPlus_quiet : ∀ (l : List (Nat × List Rat × List Rat)) {s s' : St} {i : Nat},
    loadPaths.plus s i l = .ok s' → Quiet s s' := by
  intro l
  induction l with
  | nil =>
    intro s s' i h
    simp only [loadPaths.plus, Except.ok.injEq] at h
    subst h
    exact Quiet.refl s
  | cons x rest ih =>
    intro s s' i h
    obtain ⟨pn, w, fr⟩ := x
    unfold loadPaths.plus at h
    split at h
    · exact absurd h (by simp)
    rename_i s1 h1
    exact (loadOne_quiet h1).trans (ih h)

theorem loadPaths_quiet {s s' : St} {paths : List (Nat × List Rat × List Rat)}
    (h : loadPaths s paths = .ok s') : Quiet s s' := by
  unfold loadPaths at h
  split at h
  · exact absurd h (by simp)
  rename_i pn0 w0 fr0 rest
  split at h
  · exact absurd h (by simp)
  rename_i s1 h1
  exact (loadPlus_quiet _ h1).trans (loadOne_quiet h)

/-! ### the streams handed out by `mkPicked` -/

/-- the move and engine streams of job ordinal `k`, picked entry `j`, in a sequence with entropy `en` -/
def moveStream (en k j : Nat) : Stream := { entropy := en, key := [k, j] }
def engStream (en k j : Nat) : Stream := { entropy := en, key := [k, j, 0] }

theorem mkPicked_go_streams (child : Stream) : ∀ (pairs : List (Int × Option Nat)) (j : Nat)
    (ps : List Picked), mkPicked.go child j pairs = .ok ps →
    ps.length = pairs.length ∧
    ∀ i p, ps[i]? = some p →
      p.rgen = spawnStream child (j + i) ∧ p.rgenEng = spawnStream (spawnStream child (j + i)) 0 := by
  intro pairs
  induction pairs with
  | nil =>
    intro j ps h
    simp only [mkPicked.go, Except.ok.injEq] at h
    subst h
    exact ⟨rfl, by intro i p hp; simp at hp⟩
  | cons x rest ih =>
    intro j ps h
    obtain ⟨e, opn⟩ := x
    cases opn with
    | none => simp [mkPicked.go] at h
    | some pn =>
      simp only [mkPicked.go] at h
      split at h
      · exact absurd h (by simp)
      · rename_i ps0 h0
        obtain ⟨hl, hs⟩ := ih (j + 1) ps0 h0
        simp only [Except.ok.injEq] at h
        subst h
        refine ⟨by simp [hl], ?_⟩
        intro i p hp
        cases i with
        | zero =>
          simp only [List.getElem?_cons_zero, Option.some.injEq] at hp
          subst hp
          exact ⟨rfl, rfl⟩
        | succ i =>
          simp only [List.getElem?_cons_succ] at hp
          have := hs i p hp
          have e1 : j + 1 + i = j + (i + 1) := by omega
          rw [e1] at this
          exact this

theorem mkPicked_go_ens (child : Stream) : ∀ (pairs : List (Int × Option Nat)) (j : Nat)
    (ps : List Picked), mkPicked.go child j pairs = .ok ps →
    ps.map (fun p => (p.ens, some p.pn)) = pairs := by
  intro pairs
  induction pairs with
  | nil =>
    intro j ps h
    simp only [mkPicked.go, Except.ok.injEq] at h
    subst h
    rfl
  | cons x rest ih =>
    intro j ps h
    obtain ⟨e, opn⟩ := x
    cases opn with
    | none => simp [mkPicked.go] at h
    | some pn =>
      simp only [mkPicked.go] at h
      split at h
      · exact absurd h (by simp)
      · rename_i ps0 h0
        simp only [Except.ok.injEq] at h
        subst h
        simp only [List.map_cons]
        rw [ih (j + 1) ps0 h0]

/-- the picked entries list exactly the (ensemble, path) pairs handed to `mkPicked` -/
theorem mkPicked_ens {s : St} {pairs : List (Int × Option Nat)} {ps : List Picked}
    (h : mkPicked s pairs = .ok ps) : ps.map (fun p => (p.ens, some p.pn)) = pairs := by
  unfold mkPicked at h
  exact mkPicked_go_ens _ pairs 0 ps h

/-- **`mkPicked`**: entry `j` of the job gets `(entropy, [spawned, j])` and `(entropy, [spawned, j, 0])` -/
theorem mkPicked_streams {s : St} {pairs : List (Int × Option Nat)} {ps : List Picked}
    (h : mkPicked s pairs = .ok ps) :
    ∀ j p, ps[j]? = some p →
      p.rgen = moveStream s.entropy s.spawned j ∧ p.rgenEng = engStream s.entropy s.spawned j := by
  unfold mkPicked at h
  obtain ⟨_, hs⟩ := mkPicked_go_streams _ pairs 0 ps h
  intro j p hp
  obtain ⟨h1, h2⟩ := hs j p hp
  rw [Nat.zero_add] at h1 h2
  rw [h1, h2]
  exact ⟨rfl, rfl⟩

/-! ### pick, pick_lock, prep_md_items -/

/-- the shapes of the draw requests of one `pick()` on the scheduler stream -/
def DrawShape (ds : List Draw) : Prop :=
  (∃ P, ds = [Draw.choiceAll P]) ∨ (∃ P, ds = [Draw.choiceAll P, Draw.coin]) ∨
  (∃ P c col, ds = [Draw.choiceAll P, Draw.coin, Draw.choiceCol c col])

theorem pickCore_quiet {s s' : St} {o : PickOutcome} {pairs : List (Int × Option Nat)} {ds : List Draw}
    (hp : pickCore s o = .ok (s', pairs, ds)) : Quiet s s' ∧ DrawShape ds := by
  unfold pickCore at hp
  simp only [] at hp
  split at hp
  · exact absurd hp (by simp)
  split at hp
  · exact absurd hp (by simp)
  rename_i s2 hl
  have q2 : Quiet s s2 := (swap_quiet s o.t o.e).trans (lock_quiet hl)
  split at hp
  · by_cases he1 : (o.e == off) = true
    · simp only [he1, ↓reduceIte] at hp
      split at hp
      · exact absurd hp (by simp)
      split at hp
      · exact absurd hp (by simp)
      rename_i s4 hl4
      simp only [Except.ok.injEq, Prod.mk.injEq] at hp
      obtain ⟨rfl, _, rfl⟩ := hp
      exact ⟨q2.trans ((swap_quiet s2 _ _).trans (lock_quiet hl4)), Or.inr (Or.inr ⟨_, _, _, rfl⟩)⟩
    · have he1f : (o.e == off) = false := by simpa using he1
      simp only [he1f, Bool.false_eq_true, ↓reduceIte] at hp
      split at hp
      · exact absurd hp (by simp)
      split at hp
      · exact absurd hp (by simp)
      rename_i s4 hl4
      simp only [Except.ok.injEq, Prod.mk.injEq] at hp
      obtain ⟨rfl, _, rfl⟩ := hp
      exact ⟨q2.trans ((swap_quiet s2 _ _).trans (lock_quiet hl4)), Or.inr (Or.inr ⟨_, _, _, rfl⟩)⟩
  · simp only [Except.ok.injEq, Prod.mk.injEq] at hp
    obtain ⟨rfl, _, rfl⟩ := hp
    refine ⟨q2, ?_⟩
    split
    · exact Or.inr (Or.inl ⟨_, rfl⟩)
    · exact Or.inl ⟨_, rfl⟩

/-- streams of ordinal `ord` in the seed sequence with entropy `en`, entry by entry -/
def StreamsAt (en ord : Nat) (ps : List Picked) : Prop :=
  ∀ j p, ps[j]? = some p → p.rgen = moveStream en ord j ∧ p.rgenEng = engStream en ord j

/-- what issuing one job does to the scheduler's seed sequence: the job carries the streams of the
    ordinal `ord` that is put on record with it; either `ord` is the next fresh ordinal and the
    counter advances (`fresh`), or the job is re-issued under the ordinal on record and the counter
    stays -/
structure Issue (s s' : St) (ps : List Picked) (ord : Nat) (fresh : Bool) : Prop where
  seed : s'.seed = s.seed
  entropy : s'.entropy = s.entropy
  restarted : s'.restarted = s.restarted
  cstep : s'.cstep = s.cstep
  workers : s'.workers = s.workers
  tsteps : s'.tsteps = s.tsteps
  streams : StreamsAt s.entropy ord ps
  locked : ∃ entry, s'.locked = s.locked ++ [entry]
  lockedOrd : s'.lockedOrd = s.lockedOrd ++ [ord]
  kind : (fresh = true ∧ ord = s.spawned ∧ s'.spawned = s.spawned + 1 ∧
           (s'.locked0Ord = s.locked0Ord ∨ s'.locked0Ord = s.locked0Ord.tail)) ∨
         (fresh = false ∧ s'.spawned = s.spawned ∧ s.locked0Ord = some ord :: s'.locked0Ord)

/-- **`pick()`**: one child spawned, streams `(entropy, [spawned, j])`, the scheduler stream advanced
    by exactly the returned requests, one record (with the ordinal) appended to `locked`. -/
theorem pick_issue {s s' : St} {o : PickOutcome} {ps : List Picked} {ds : List Draw}
    (hp : pick s o = .ok (s', ps, ds)) :
    Issue s s' ps s.spawned true ∧ s'.mainDraws = s.mainDraws + ds.length ∧
      s'.rgenRestored = s.rgenRestored ∧
      s'.locked0 = s.locked0 ∧ s'.locked0Ord = s.locked0Ord ∧ DrawShape ds ∧
      s'.locked = s.locked ++ [(ps.map (·.ens), ps.map (·.pn))] := by
  unfold pick at hp
  split at hp
  · exact absurd hp (by simp)
  rename_i s1 pairs ds1 hpc
  obtain ⟨⟨q, ql, qo⟩, hshape⟩ := pickCore_quiet hpc
  split at hp
  · exact absurd hp (by simp)
  rename_i ps1 hmk
  simp only [Except.ok.injEq, Prod.mk.injEq] at hp
  obtain ⟨rfl, rfl, rfl⟩ := hp
  have hst := mkPicked_streams hmk
  rw [q.entropy, q.spawned] at hst
  refine ⟨⟨q.seed, q.entropy, q.restarted, q.cstep, q.workers, q.tsteps, hst,
      ⟨(pairs.map (·.1), ps1.map (·.pn)), ?_⟩, ?_, Or.inl ⟨rfl, rfl, ?_, Or.inl q.locked0Ord⟩⟩, ?_,
    q.rgenRestored, q.locked0, q.locked0Ord, hshape, ?_⟩
  · show s1.locked ++ _ = s.locked ++ _
    rw [ql]
  · show s1.lockedOrd ++ [s1.spawned] = s.lockedOrd ++ [s.spawned]
    rw [qo, q.spawned]
  · show s1.spawned + 1 = s.spawned + 1
    rw [q.spawned]
  · show s1.mainDraws + drawCount ds1 = s.mainDraws + ds1.length
    rw [q.mainDraws]
    rfl
  · show s1.locked ++ [(pairs.map (·.1), ps1.map (·.pn))] = s.locked ++ _
    rw [ql]
    have := congrArg (List.map Prod.fst) (mkPicked_ens hmk)
    simp only [List.map_map, Function.comp_def] at this
    rw [← this]

theorem reissue_go_quiet : ∀ (l : List (Nat × Nat)) {s s' : St} {pairs : List (Int × Option Nat)},
    reissue.go s l = .ok (s', pairs) → Quiet s s' := by
  intro l
  induction l with
  | nil =>
    intro s s' pairs h
    simp only [reissue.go, Except.ok.injEq, Prod.mk.injEq] at h
    obtain ⟨rfl, _⟩ := h
    exact Quiet.refl s
  | cons x rest ih =>
    intro s s' pairs h
    obtain ⟨e, tr⟩ := x
    unfold reissue.go at h
    split at h
    · exact absurd h (by simp)
    rename_i ti _
    simp only [] at h
    split at h
    · exact absurd h (by simp)
    rename_i s2 hl
    split at h
    · exact absurd h (by simp)
    rename_i s3 ps hrec
    simp only [Except.ok.injEq, Prod.mk.injEq] at h
    obtain ⟨rfl, _⟩ := h
    exact ((swap_quiet s ti e).trans (lock_quiet hl)).trans (ih hrec)

/-- the seed sequence (not the position of its bit generator) is unchanged -/
structure RngEqUpToDraws (s s' : St) : Prop where
  seed : s'.seed = s.seed
  entropy : s'.entropy = s.entropy
  spawned : s'.spawned = s.spawned
  restarted : s'.restarted = s.restarted
  cstep : s'.cstep = s.cstep
  workers : s'.workers = s.workers
  tsteps : s'.tsteps = s.tsteps
  locked : s'.locked = s.locked
  lockedOrd : s'.lockedOrd = s.lockedOrd
  locked0 : s'.locked0 = s.locked0
  locked0Ord : s'.locked0Ord = s.locked0Ord

theorem restoreStreamOnce_idle {s : St} (d : Nat) (h : s.restarted = false ∨ s.rgenRestored = true) :
    restoreStreamOnce s d = s := by
  unfold restoreStreamOnce
  split
  · rename_i hc
    rcases h with h | h
    · rw [h] at hc; exact absurd hc.1 (by simp)
    · rw [h] at hc; exact absurd hc.2 (by simp)
  · rfl

theorem restoreStreamOnce_seq (s : St) (d : Nat) : RngEqUpToDraws s (restoreStreamOnce s d) := by
  unfold restoreStreamOnce
  split
  · exact ⟨rfl, rfl, rfl, rfl, rfl, rfl, rfl, rfl, rfl, rfl, rfl⟩
  · exact ⟨rfl, rfl, rfl, rfl, rfl, rfl, rfl, rfl, rfl, rfl, rfl⟩

/-- the re-issue branch of `pick_lock()`, spelled out -/
theorem pickLock_reissue {s s' : St} {o : PickOutcome} {d : Nat} {ps : List Picked} {ds : List Draw}
    {enss0 trajs0 : List Nat} {rest : List (List Nat × List Nat)}
    (hl0 : s.locked0 = (enss0, trajs0) :: rest) (hp : pickLock s o d = .ok (s', ps, ds)) :
    ∃ s1 pairs, reissue { s with locked0 := rest, locked0Ord := s.locked0Ord.tail } enss0 trajs0
        = .ok (s1, pairs) ∧
      mkPickedAt s1 (reissueOrd s s1) pairs = .ok ps ∧ s' = reissued s s1 enss0 trajs0 ∧ ds = [] := by
  unfold pickLock at hp
  rw [hl0] at hp
  simp only [] at hp
  split at hp
  · exact absurd hp (by simp)
  rename_i s1 pairs hre
  split at hp
  · exact absurd hp (by simp)
  rename_i ps1 hmk
  simp only [Except.ok.injEq, Prod.mk.injEq] at hp
  obtain ⟨rfl, rfl, rfl⟩ := hp
  exact ⟨s1, pairs, hre, hmk, rfl, rfl⟩

theorem reissue_quiet {s s1 : St} {enss0 trajs0 : List Nat} {pairs : List (Int × Option Nat)}
    (h : reissue s enss0 trajs0 = .ok (s1, pairs)) : Quiet s s1 := by
  unfold reissue at h
  exact reissue_go_quiet _ h

/-- **`pick_lock()`** (both branches): the job carries the streams of the ordinal put on record with
    it.  A fresh pick (or the re-issue of a record without ordinal) takes the next ordinal and
    advances the counter; the re-issue of a record with ordinal `ord` uses `ord` and leaves the
    counter alone. -/
theorem pickLock_issue {s s' : St} {o : PickOutcome} {d : Nat} {ps : List Picked} {ds : List Draw}
    (hp : pickLock s o d = .ok (s', ps, ds)) : ∃ ord fresh, Issue s s' ps ord fresh := by
  cases hl0 : s.locked0 with
  | nil =>
    unfold pickLock at hp
    rw [hl0] at hp
    simp only [] at hp
    obtain ⟨hi, _⟩ := pick_issue hp
    have hr := restoreStreamOnce_seq s d
    refine ⟨s.spawned, true, hi.seed.trans hr.seed, hi.entropy.trans hr.entropy,
      hi.restarted.trans hr.restarted, hi.cstep.trans hr.cstep, hi.workers.trans hr.workers,
      hi.tsteps.trans hr.tsteps, ?_, ?_, ?_, ?_⟩
    · have := hi.streams
      rw [hr.entropy, hr.spawned] at this
      exact this
    · rw [← hr.locked]; exact hi.locked
    · rw [← hr.lockedOrd, ← hr.spawned]; exact hi.lockedOrd
    · rcases hi.kind with ⟨_, _, h3, h4⟩ | ⟨h1, _⟩
      · refine Or.inl ⟨rfl, rfl, by rw [h3, hr.spawned], ?_⟩
        rcases h4 with h | h
        · exact Or.inl (h.trans hr.locked0Ord)
        · exact Or.inr (by rw [h, hr.locked0Ord])
      · exact absurd h1 (by simp)
  | cons r rest =>
    obtain ⟨enss0, trajs0⟩ := r
    obtain ⟨s1, pairs, hre, hmk, rfl, _⟩ := pickLock_reissue hl0 hp
    obtain ⟨q, ql, qo⟩ := reissue_quiet hre
    unfold mkPickedAt at hmk
    have hst := mkPicked_streams hmk
    have hst' : StreamsAt s.entropy (reissueOrd s s1) ps := by
      intro j p hp'
      have := hst j p hp'
      rw [← q.entropy]
      exact this
    cases hh : s.locked0Ord.head?.join with
    | none =>
      have hord : reissueOrd s s1 = s.spawned := by
        unfold reissueOrd; rw [hh]; exact q.spawned
      refine ⟨s.spawned, true, q.seed, q.entropy, q.restarted, q.cstep, q.workers, q.tsteps,
        by rw [← hord]; exact hst',
        ⟨(enss0.map (fun (e : Nat) => ((e : Int) - (off : Int))), trajs0), ?_⟩, ?_, Or.inl ⟨rfl, rfl, ?_, Or.inr q.locked0Ord⟩⟩
      · show s1.locked ++ _ = s.locked ++ _
        rw [ql]
      · show s1.lockedOrd ++ [reissueOrd s s1] = _
        rw [qo, hord]
      · show (if (s.locked0Ord.head?.join).isSome then s1.spawned else s1.spawned + 1) = _
        rw [hh, q.spawned]
        rfl
    | some ord =>
      have hord : reissueOrd s s1 = ord := by
        unfold reissueOrd; rw [hh]; rfl
      have hhead : s.locked0Ord.head? = some (some ord) := by
        cases h2 : s.locked0Ord.head? with
        | none => rw [h2] at hh; simp at hh
        | some x =>
          rw [h2] at hh
          simp only [Option.join_some] at hh
          rw [hh]
      refine ⟨ord, false, q.seed, q.entropy, q.restarted, q.cstep, q.workers, q.tsteps,
        by rw [← hord]; exact hst',
        ⟨(enss0.map (fun (e : Nat) => ((e : Int) - (off : Int))), trajs0), ?_⟩, ?_, Or.inr ⟨rfl, ?_, ?_⟩⟩
      rotate_left 3
      · show s.locked0Ord = some ord :: s1.locked0Ord
        rw [q.locked0Ord]
        show s.locked0Ord = some ord :: s.locked0Ord.tail
        cases hl : s.locked0Ord with
        | nil => rw [hl] at hhead; simp at hhead
        | cons x xs =>
          rw [hl] at hhead
          simp only [List.head?_cons, Option.some.injEq] at hhead
          rw [hhead]; rfl
      · show s1.locked ++ _ = s.locked ++ _
        rw [ql]
      · show s1.lockedOrd ++ [reissueOrd s s1] = _
        rw [qo, hord]
      · show (if (s.locked0Ord.head?.join).isSome then s1.spawned else s1.spawned + 1) = _
        rw [hh, q.spawned]
        rfl

end Infretis.Repex
