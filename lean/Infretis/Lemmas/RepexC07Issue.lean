import Infretis.Lemmas.RepexC07Frame
/-!
# C07 — the jobs issued along a scheduler history, and their streams

`sysStepJ` is `sysStep` with a ghost output: the job the event issued (if any) together with the
draw requests its `pick()` made on the scheduler stream.  `sysStepJ_sys` shows that it is `sysStep`
as far as the state goes.  `ghost y evs` collects these outputs along a history, `issued` are the
jobs in issue order, `schedDraws` the requests in order.

Main facts: the `k`-th job issued from a state with spawn counter `c` has the streams
`(entropy, [c + k, j])` / `(entropy, [c + k, j, 0])`; the counter afterwards is `c + #issued`;
the scheduler stream has advanced by exactly `#schedDraws`.
-/
namespace Infretis.Repex
open Infretis.Perm

/-! ### pick_lock and prep_md_items -/

/-- `restarted = false`, or the one-time restore of the stream position already happened -/
def NoRestore (s : St) : Prop := s.restarted = false ∨ s.rgenRestored = true

theorem pickLock_draws {s s' : St} {o : PickOutcome} {d : Nat} {ps : List Picked} {ds : List Draw}
    (hp : pickLock s o d = .ok (s', ps, ds)) (hr : NoRestore s) :
    s'.mainDraws = s.mainDraws + ds.length ∧ NoRestore s' ∧ (ds = [] ∨ DrawShape ds) := by
  unfold pickLock at hp
  split at hp
  · rw [restoreStreamOnce_idle d hr] at hp
    obtain ⟨hi, hm, hrr, _, hsh, _⟩ := pick_issue hp
    refine ⟨hm, ?_, Or.inr hsh⟩
    unfold NoRestore
    rw [hi.restarted, hrr]
    exact hr
  · rename_i enss0 trajs0 rest hl0
    split at hp
    · exact absurd hp (by simp)
    rename_i s1 pairs hre
    split at hp
    · exact absurd hp (by simp)
    rename_i ps1 hmk
    simp only [Except.ok.injEq, Prod.mk.injEq] at hp
    obtain ⟨rfl, _, rfl⟩ := hp
    unfold reissue at hre
    obtain ⟨q, _⟩ := reissue_go_quiet _ hre
    refine ⟨q.mainDraws, ?_, Or.inl rfl⟩
    unfold NoRestore
    show s1.restarted = false ∨ s1.rgenRestored = true
    rw [q.restarted, q.rgenRestored]
    exact hr

/-- the first fresh `pick_lock()` after a restart starts from the stream position of the restart file -/
theorem pickLock_draws_restored {s s' : St} {o : PickOutcome} {d : Nat} {ps : List Picked}
    {ds : List Draw} (hp : pickLock s o d = .ok (s', ps, ds)) (h0 : s.locked0 = [])
    (hr : s.restarted = true) (hn : s.rgenRestored = false) :
    s'.mainDraws = d + ds.length ∧ NoRestore s' := by
  unfold pickLock at hp
  rw [h0] at hp
  simp only [] at hp
  have : restoreStreamOnce s d = { s with mainDraws := d, rgenRestored := true } := by
    unfold restoreStreamOnce
    rw [if_pos ⟨hr, hn⟩]
  rw [this] at hp
  obtain ⟨_, hm, hrr, _⟩ := pick_issue hp
  exact ⟨hm, Or.inr hrr⟩

/-- `pick_lock()` with nothing to re-issue records the job it issues -/
theorem pickLock_locked {s s' : St} {o : PickOutcome} {d : Nat} {ps : List Picked} {ds : List Draw}
    (hp : pickLock s o d = .ok (s', ps, ds)) (h0 : s.locked0 = []) :
    s'.locked0 = [] ∧ ∃ es, s'.locked = s.locked ++ [(es, ps.map (·.pn))] := by
  unfold pickLock at hp
  rw [h0] at hp
  simp only [] at hp
  obtain ⟨_, _, _, hl0, _, es, hl⟩ := pick_issue hp
  have h1 : (restoreStreamOnce s d).locked0 = s.locked0 := by
    unfold restoreStreamOnce; split <;> rfl
  have h2 : (restoreStreamOnce s d).locked = s.locked := by
    unfold restoreStreamOnce; split <;> rfl
  exact ⟨by rw [hl0, h1, h0], es, by rw [hl, h2]⟩

/-- `prep_md_items` = `pick_lock()` / `pick()` + pin + engine assignment: the latter touch `occ` only
    and re-label `eng_idx` of the picked entries -/
theorem prep_decomp {s s' : St} {prev : Option Nat} {o : PickOutcome} {d : Nat} {job : Job}
    {ds : List Draw} (h : prep s prev o d = .ok (s', job, ds)) :
    ∃ s1 ps, (if s.toinitiate ≥ 0 then pickLock s o d else pick s o) = .ok (s1, ps, ds) ∧
      Quiet s1 s' ∧ (∃ f : Picked → List (Nat × Nat), job.picked = ps.map (fun p => { p with engIdx := f p })) ∧
      job.pnumOld = job.picked.map (·.pn) := by
  unfold prep at h
  simp only [] at h
  generalize hpin : (if s.toinitiate ≥ 0 then some s.cworker else prev) = pin? at h
  split at h
  · exact absurd h (by simp)
  rename_i s1 ps ds1 hr
  split at h
  · exact absurd h (by simp)
  rename_i pin
  split at h
  · exact absurd h (by simp)
  rename_i occ' idx hass
  split at h
  · exact absurd h (by simp)
  simp only [Except.ok.injEq, Prod.mk.injEq] at h
  obtain ⟨rfl, rfl, rfl⟩ := h
  exact ⟨s1, ps, hr, ⟨⟨rfl, rfl, rfl, rfl, rfl, rfl, rfl, rfl, rfl, rfl⟩, rfl⟩, ⟨_, rfl⟩, rfl⟩

theorem getElem?_map_engIdx {ps : List Picked} {f : Picked → List (Nat × Nat)} {j : Nat} {p' : Picked}
    (h : (ps.map (fun p => { p with engIdx := f p }))[j]? = some p') :
    ∃ p, ps[j]? = some p ∧ p'.rgen = p.rgen ∧ p'.rgenEng = p.rgenEng ∧ p'.pn = p.pn := by
  rw [List.getElem?_map] at h
  cases hp : ps[j]? with
  | none => rw [hp] at h; simp at h
  | some p =>
    rw [hp] at h
    simp only [Option.map_some, Option.some.injEq] at h
    subst h
    exact ⟨p, rfl, rfl, rfl, rfl⟩

theorem map_pn_map_engIdx (ps : List Picked) (f : Picked → List (Nat × Nat)) :
    (ps.map (fun p => { p with engIdx := f p })).map (·.pn) = ps.map (·.pn) := by
  simp [List.map_map, Function.comp_def]

/-- **`prep_md_items` issues one job**: one child spawned, the job's entry `j` carries
    `(entropy, [spawned, j])` / `(entropy, [spawned, j, 0])`. -/
theorem prep_issue {s s' : St} {prev : Option Nat} {o : PickOutcome} {d : Nat} {job : Job}
    {ds : List Draw} (h : prep s prev o d = .ok (s', job, ds)) : Issue s s' job.picked := by
  obtain ⟨s1, ps, hr, ⟨q, ql⟩, ⟨f, hf⟩, _⟩ := prep_decomp h
  have hi : Issue s s1 ps := by
    split at hr
    · exact pickLock_issue hr
    · exact (pick_issue hr).1
  refine ⟨q.seed.trans hi.seed, q.entropy.trans hi.entropy, q.spawned.trans hi.spawned,
    q.restarted.trans hi.restarted, q.cstep.trans hi.cstep, q.workers.trans hi.workers,
    q.tsteps.trans hi.tsteps, ?_, ?_⟩
  · intro j p' hp'
    rw [hf] at hp'
    obtain ⟨p, hp, e1, e2, _⟩ := getElem?_map_engIdx hp'
    rw [e1, e2]
    exact hi.streams j p hp
  · obtain ⟨entry, he⟩ := hi.locked
    exact ⟨entry, by rw [ql, he]⟩

theorem prep_draws {s s' : St} {prev : Option Nat} {o : PickOutcome} {d : Nat} {job : Job}
    {ds : List Draw} (h : prep s prev o d = .ok (s', job, ds)) (hn : NoRestore s) :
    s'.mainDraws = s.mainDraws + ds.length ∧ NoRestore s' ∧ (ds = [] ∨ DrawShape ds) := by
  obtain ⟨s1, ps, hr, ⟨q, _⟩, _, _⟩ := prep_decomp h
  have key : s1.mainDraws = s.mainDraws + ds.length ∧ NoRestore s1 ∧ (ds = [] ∨ DrawShape ds) := by
    split at hr
    · exact pickLock_draws hr hn
    · obtain ⟨hi, hm, hrr, _, hsh, _⟩ := pick_issue hr
      refine ⟨hm, ?_, Or.inr hsh⟩
      unfold NoRestore
      rw [hi.restarted, hrr]
      exact hn
  refine ⟨q.mainDraws.trans key.1, ?_, key.2.2⟩
  unfold NoRestore
  rw [q.restarted, q.rgenRestored]
  exact key.2.1

/-- with nothing to re-issue, `prep_md_items` records exactly the path numbers of the job it issues -/
theorem prep_locked {s s' : St} {prev : Option Nat} {o : PickOutcome} {d : Nat} {job : Job}
    {ds : List Draw} (h : prep s prev o d = .ok (s', job, ds)) (h0 : s.locked0 = []) :
    s'.locked0 = [] ∧ ∃ es, s'.locked = s.locked ++ [(es, job.picked.map (·.pn))] := by
  obtain ⟨s1, ps, hr, ⟨q, ql⟩, ⟨f, hf⟩, _⟩ := prep_decomp h
  have key : s1.locked0 = [] ∧ ∃ es, s1.locked = s.locked ++ [(es, ps.map (·.pn))] := by
    split at hr
    · exact pickLock_locked hr h0
    · obtain ⟨_, _, _, hl0, _, hl⟩ := pick_issue hr
      exact ⟨by rw [hl0, h0], hl⟩
  obtain ⟨k0, es, hl⟩ := key
  refine ⟨by rw [q.locked0, k0], es, ?_⟩
  rw [ql, hl, hf, map_pn_map_engIdx]

/-! ### the scheduler loop with a ghost log of issued jobs -/

/-- `sysStep` that also reports the job issued by the event (if any) and the draw requests made on
    the scheduler stream for it -/
def sysStepJ (y : Sys) : Ev → Except Err (Sys × Option (Job × List Draw))
  | .start o saved =>
    let (s1, go) := initiate y.s
    if ¬ go then .error .value else
    match prep s1 none o saved with
    | .error er => .error er
    | .ok (s2, job, ds) => .ok ({ s := s2, jobs := y.jobs ++ [job] }, some (job, ds))
  | .initDone =>
    let (s1, go) := initiate y.s
    if go then .error .value else .ok ({ y with s := s1 }, none)
  | .step k status newW o =>
    let (s1, go) := loop y.s
    if ¬ go then .error .value else
    match y.jobs[k]? with
    | none => .error .index
    | some job =>
      match treatOutput s1 job status newW (sortFuel s1) with
      | .error er => .error er
      | .ok (s2, _, _) =>
        let rest := y.jobs.eraseIdx k
        if s2.cstep + s2.workers ≤ s2.tsteps then
          match prep s2 (some job.pin) o with
          | .error er => .error er
          | .ok (s3, job', ds) => .ok ({ s := s3, jobs := rest ++ [job'] }, some (job', ds))
        else .ok ({ s := s2, jobs := rest }, none)

/-- `sysStepJ` is `sysStep` plus a ghost output -/
theorem sysStepJ_sys (y : Sys) (ev : Ev) :
    sysStep y ev = (match sysStepJ y ev with | .ok r => .ok r.1 | .error e => .error e) := by
  cases ev with
  | start o saved =>
    simp only [sysStep, sysStepJ]
    split
    · rfl
    · cases prep (initiate y.s).1 none o saved with
      | error er => rfl
      | ok r => obtain ⟨s2, job, ds⟩ := r; rfl
  | initDone =>
    simp only [sysStep, sysStepJ]
    split <;> rfl
  | step k status newW o =>
    simp only [sysStep, sysStepJ]
    split
    · rfl
    · cases y.jobs[k]? with
      | none => rfl
      | some job =>
        simp only []
        cases treatOutput (loop y.s).1 job status newW (sortFuel (loop y.s).1) with
        | error er => rfl
        | ok r =>
          obtain ⟨s2, a, b⟩ := r
          simp only []
          split
          · cases prep s2 (some job.pin) o with
            | error er => rfl
            | ok r => obtain ⟨s3, job', ds⟩ := r; rfl
          · rfl

theorem sysStep_of_J {y y' : Sys} {ev : Ev} {oj : Option (Job × List Draw)}
    (h : sysStepJ y ev = .ok (y', oj)) : sysStep y ev = .ok y' := by
  rw [sysStepJ_sys, h]

theorem sysStepJ_of_sys {y y' : Sys} {ev : Ev} (h : sysStep y ev = .ok y') :
    ∃ oj, sysStepJ y ev = .ok (y', oj) := by
  rw [sysStepJ_sys] at h
  split at h
  · rename_i r hr
    simp only [Except.ok.injEq] at h
    subst h
    exact ⟨r.2, hr⟩
  · exact absurd h (by simp)

/-- ghost log of a history: (job, its draw requests) per issuing event, in order; stops where the
    sampler raises -/
def ghost (y : Sys) : List Ev → List (Job × List Draw)
  | [] => []
  | ev :: rest =>
    match sysStepJ y ev with
    | .error _ => []
    | .ok (y', oj) => oj.toList ++ ghost y' rest

/-- the jobs issued along a history, in issue order -/
def issued (y : Sys) (evs : List Ev) : List Job := (ghost y evs).map (·.1)

/-- the draw requests made on the scheduler stream along a history, in order -/
def schedDraws (y : Sys) (evs : List Ev) : List Draw := (ghost y evs).flatMap (·.2)

theorem run_cons {y y' : Sys} {ev : Ev} {rest : List Ev} (h : run y (ev :: rest) = .ok y') :
    ∃ y1 oj, sysStepJ y ev = .ok (y1, oj) ∧ run y1 rest = .ok y' := by
  unfold run at h
  split at h
  · exact absurd h (by simp)
  rename_i y1 h1
  obtain ⟨oj, hj⟩ := sysStepJ_of_sys h1
  exact ⟨y1, oj, hj, h⟩

theorem ghost_append : ∀ (evs : List Ev) {y y1 : Sys} (evs' : List Ev), run y evs = .ok y1 →
    ghost y (evs ++ evs') = ghost y evs ++ ghost y1 evs' := by
  intro evs
  induction evs with
  | nil =>
    intro y y1 evs' h
    simp only [run, Except.ok.injEq] at h
    subst h
    simp [ghost]
  | cons ev rest ih =>
    intro y y1 evs' h
    obtain ⟨y2, oj, hj, hr⟩ := run_cons h
    simp only [List.cons_append, ghost, hj]
    rw [ih evs' hr, List.append_assoc]

theorem issued_append {y y1 : Sys} {evs : List Ev} (evs' : List Ev) (h : run y evs = .ok y1) :
    issued y (evs ++ evs') = issued y evs ++ issued y1 evs' := by
  unfold issued
  rw [ghost_append evs evs' h, List.map_append]

theorem run_append {y y1 y2 : Sys} : ∀ {evs : List Ev} {evs' : List Ev}, run y evs = .ok y1 →
    run y1 evs' = .ok y2 → run y (evs ++ evs') = .ok y2 := by
  intro evs
  induction evs generalizing y with
  | nil =>
    intro evs' h h'
    simp only [run, Except.ok.injEq] at h
    subst h
    exact h'
  | cons ev rest ih =>
    intro evs' h h'
    unfold run at h
    split at h
    · exact absurd h (by simp)
    rename_i y3 h3
    simp only [List.cons_append, run, h3]
    exact ih h h'

/-! ### one event -/

/-- what one event does to the seed sequence: the counter goes up by the number of jobs issued (0 or
    1) and the issued job carries `(entropy, [spawned, j])` / `(entropy, [spawned, j, 0])` -/
theorem sysStepJ_issue {y y' : Sys} {ev : Ev} {oj : Option (Job × List Draw)}
    (h : sysStepJ y ev = .ok (y', oj)) :
    y'.s.seed = y.s.seed ∧ y'.s.entropy = y.s.entropy ∧
    y'.s.spawned = y.s.spawned + oj.toList.length ∧
    ∀ job ds, oj = some (job, ds) → ∀ j p, job.picked[j]? = some p →
      p.rgen = moveStream y.s.entropy y.s.spawned j ∧ p.rgenEng = engStream y.s.entropy y.s.spawned j := by
  cases ev with
  | start o saved =>
    simp only [sysStepJ] at h
    have hq := (initiate_quiet y.s).1
    generalize initiate y.s = r at h hq
    obtain ⟨s1, go⟩ := r
    simp only [] at h hq
    split at h
    · exact absurd h (by simp)
    split at h
    · exact absurd h (by simp)
    rename_i s2 job ds hprep
    simp only [Except.ok.injEq, Prod.mk.injEq] at h
    obtain ⟨rfl, rfl⟩ := h
    have hi := prep_issue hprep
    refine ⟨hi.seed.trans hq.seed, hi.entropy.trans hq.entropy, ?_, ?_⟩
    · show s2.spawned = y.s.spawned + 1
      rw [hi.spawned, hq.spawned]
    · intro job' ds' he j p hp
      simp only [Option.some.injEq, Prod.mk.injEq] at he
      obtain ⟨rfl, _⟩ := he
      rw [← hq.entropy, ← hq.spawned]
      exact hi.streams j p hp
  | initDone =>
    simp only [sysStepJ] at h
    have hq := (initiate_quiet y.s).1
    generalize initiate y.s = r at h hq
    obtain ⟨s1, go⟩ := r
    simp only [] at h hq
    split at h
    · exact absurd h (by simp)
    simp only [Except.ok.injEq, Prod.mk.injEq] at h
    obtain ⟨rfl, rfl⟩ := h
    exact ⟨hq.seed, hq.entropy, hq.spawned, by intro _ _ he; simp at he⟩
  | step k status newW o =>
    simp only [sysStepJ] at h
    generalize hloop : loop y.s = r at h
    obtain ⟨s1, go⟩ := r
    simp only [] at h
    split at h
    · exact absurd h (by simp)
    rename_i hgo
    have hgo : go = true := by simpa using hgo
    subst hgo
    have hs1 := loop_true hloop
    split at h
    · exact absurd h (by simp)
    rename_i job hjob
    split at h
    · exact absurd h (by simp)
    rename_i s2 pns it htreat
    obtain ⟨hq, _⟩ := treatOutput_quiet job status newW _ pns it htreat
    have e1 : s2.seed = y.s.seed := by rw [hq.seed, hs1]
    have e2 : s2.entropy = y.s.entropy := by rw [hq.entropy, hs1]
    have e3 : s2.spawned = y.s.spawned := by rw [hq.spawned, hs1]
    split at h
    · split at h
      · exact absurd h (by simp)
      rename_i s3 job' ds hprep
      simp only [Except.ok.injEq, Prod.mk.injEq] at h
      obtain ⟨rfl, rfl⟩ := h
      have hi := prep_issue hprep
      refine ⟨hi.seed.trans e1, hi.entropy.trans e2, ?_, ?_⟩
      · show s3.spawned = y.s.spawned + 1
        rw [hi.spawned, e3]
      · intro job'' ds' he j p hp
        simp only [Option.some.injEq, Prod.mk.injEq] at he
        obtain ⟨rfl, _⟩ := he
        rw [← e2, ← e3]
        exact hi.streams j p hp
    · simp only [Except.ok.injEq, Prod.mk.injEq] at h
      obtain ⟨rfl, rfl⟩ := h
      exact ⟨e1, e2, e3, by intro _ _ he; simp at he⟩

/-- one event and the scheduler stream's position -/
theorem sysStepJ_draws {y y' : Sys} {ev : Ev} {oj : Option (Job × List Draw)}
    (h : sysStepJ y ev = .ok (y', oj)) (hn : NoRestore y.s) :
    NoRestore y'.s ∧ y'.s.mainDraws = y.s.mainDraws + (oj.toList.flatMap (·.2)).length ∧
      ∀ job ds, oj = some (job, ds) → ds = [] ∨ DrawShape ds := by
  cases ev with
  | start o saved =>
    simp only [sysStepJ] at h
    have hq := (initiate_quiet y.s).1
    generalize initiate y.s = r at h hq
    obtain ⟨s1, go⟩ := r
    simp only [] at h hq
    split at h
    · exact absurd h (by simp)
    split at h
    · exact absurd h (by simp)
    rename_i s2 job ds hprep
    simp only [Except.ok.injEq, Prod.mk.injEq] at h
    obtain ⟨rfl, rfl⟩ := h
    have hn1 : NoRestore s1 := by
      unfold NoRestore; rw [hq.restarted, hq.rgenRestored]; exact hn
    obtain ⟨hm, hn2, hsh⟩ := prep_draws hprep hn1
    refine ⟨hn2, ?_, ?_⟩
    · show s2.mainDraws = y.s.mainDraws + _
      rw [hm, hq.mainDraws]
      simp
    · intro job' ds' he
      simp only [Option.some.injEq, Prod.mk.injEq] at he
      obtain ⟨_, rfl⟩ := he
      exact hsh
  | initDone =>
    simp only [sysStepJ] at h
    have hq := (initiate_quiet y.s).1
    generalize initiate y.s = r at h hq
    obtain ⟨s1, go⟩ := r
    simp only [] at h hq
    split at h
    · exact absurd h (by simp)
    simp only [Except.ok.injEq, Prod.mk.injEq] at h
    obtain ⟨rfl, rfl⟩ := h
    refine ⟨?_, by simpa using hq.mainDraws, by intro _ _ he; simp at he⟩
    unfold NoRestore
    show s1.restarted = false ∨ s1.rgenRestored = true
    rw [hq.restarted, hq.rgenRestored]; exact hn
  | step k status newW o =>
    simp only [sysStepJ] at h
    generalize hloop : loop y.s = r at h
    obtain ⟨s1, go⟩ := r
    simp only [] at h
    split at h
    · exact absurd h (by simp)
    rename_i hgo
    have hgo : go = true := by simpa using hgo
    subst hgo
    have hs1 := loop_true hloop
    split at h
    · exact absurd h (by simp)
    rename_i job hjob
    split at h
    · exact absurd h (by simp)
    rename_i s2 pns it htreat
    obtain ⟨hq, _⟩ := treatOutput_quiet job status newW _ pns it htreat
    have e1 : s2.mainDraws = y.s.mainDraws := by rw [hq.mainDraws, hs1]
    have hn2 : NoRestore s2 := by
      unfold NoRestore; rw [hq.restarted, hq.rgenRestored, hs1]; exact hn
    split at h
    · split at h
      · exact absurd h (by simp)
      rename_i s3 job' ds hprep
      simp only [Except.ok.injEq, Prod.mk.injEq] at h
      obtain ⟨rfl, rfl⟩ := h
      obtain ⟨hm, hn3, hsh⟩ := prep_draws hprep hn2
      refine ⟨hn3, ?_, ?_⟩
      · show s3.mainDraws = y.s.mainDraws + _
        rw [hm, e1]
        simp
      · intro job'' ds' he
        simp only [Option.some.injEq, Prod.mk.injEq] at he
        obtain ⟨_, rfl⟩ := he
        exact hsh
    · simp only [Except.ok.injEq, Prod.mk.injEq] at h
      obtain ⟨rfl, rfl⟩ := h
      exact ⟨hn2, by simpa using e1, by intro _ _ he; simp at he⟩

/-! ### whole histories -/

/-- streams of a list of jobs numbered from ordinal `base` in a seed sequence with entropy `en` -/
def StreamsFrom (en base : Nat) (jobs : List Job) : Prop :=
  ∀ k job, jobs[k]? = some job → ∀ j p, job.picked[j]? = some p →
    p.rgen = moveStream en (base + k) j ∧ p.rgenEng = engStream en (base + k) j

theorem StreamsFrom.nil (en base : Nat) : StreamsFrom en base [] := by
  intro k job h; simp at h

theorem StreamsFrom.append {en base : Nat} {l1 l2 : List Job} (h1 : StreamsFrom en base l1)
    (h2 : StreamsFrom en (base + l1.length) l2) : StreamsFrom en base (l1 ++ l2) := by
  intro k job hk j p hp
  rcases Nat.lt_or_ge k l1.length with hlt | hge
  · rw [List.getElem?_append_left hlt] at hk
    exact h1 k job hk j p hp
  · rw [List.getElem?_append_right hge] at hk
    have := h2 (k - l1.length) job hk j p hp
    have e : base + l1.length + (k - l1.length) = base + k := by omega
    rw [e] at this
    exact this

/-- **the jobs issued along any history** (from any state, whether or not the history later raises):
    the `k`-th one carries the streams of ordinal `spawned + k` -/
theorem issued_streams : ∀ (evs : List Ev) (y : Sys),
    StreamsFrom y.s.entropy y.s.spawned (issued y evs) := by
  intro evs
  induction evs with
  | nil => intro y; exact StreamsFrom.nil _ _
  | cons ev rest ih =>
    intro y
    unfold issued
    simp only [ghost]
    split
    · exact StreamsFrom.nil _ _
    rename_i y1 oj hj
    obtain ⟨_, hen, hsp, hst⟩ := sysStepJ_issue hj
    rw [List.map_append]
    apply StreamsFrom.append
    · cases oj with
      | none => exact StreamsFrom.nil _ _
      | some jd =>
        obtain ⟨job, ds⟩ := jd
        intro k job' hk j p hp
        cases k with
        | zero =>
          simp only [Option.toList_some, List.map_cons, List.map_nil, List.getElem?_cons_zero,
            Option.some.injEq] at hk
          subst hk
          exact hst job ds rfl j p hp
        | succ k => simp at hk
    · have := ih y1
      rw [hen, hsp] at this
      simp only [List.length_map]
      exact this

/-- the seed and entropy never change along a history and the spawn counter counts the jobs issued -/
theorem run_spawned : ∀ (evs : List Ev) {y y' : Sys}, run y evs = .ok y' →
    y'.s.seed = y.s.seed ∧ y'.s.entropy = y.s.entropy ∧
      y'.s.spawned = y.s.spawned + (issued y evs).length := by
  intro evs
  induction evs with
  | nil =>
    intro y y' h
    simp only [run, Except.ok.injEq] at h
    subst h
    exact ⟨rfl, rfl, by simp [issued, ghost]⟩
  | cons ev rest ih =>
    intro y y' h
    obtain ⟨y1, oj, hj, hr⟩ := run_cons h
    obtain ⟨h1, h2, h3, _⟩ := sysStepJ_issue hj
    obtain ⟨g1, g2, g3⟩ := ih hr
    refine ⟨g1.trans h1, g2.trans h2, ?_⟩
    rw [g3, h3]
    simp only [issued, ghost, hj, List.map_append, List.length_append, List.length_map]
    omega

/-- the scheduler stream advances by exactly the draw requests of the picks -/
theorem run_mainDraws : ∀ (evs : List Ev) {y y' : Sys}, run y evs = .ok y' → NoRestore y.s →
    NoRestore y'.s ∧ y'.s.mainDraws = y.s.mainDraws + (schedDraws y evs).length := by
  intro evs
  induction evs with
  | nil =>
    intro y y' h hn
    simp only [run, Except.ok.injEq] at h
    subst h
    exact ⟨hn, by simp [schedDraws, ghost]⟩
  | cons ev rest ih =>
    intro y y' h hn
    obtain ⟨y1, oj, hj, hr⟩ := run_cons h
    obtain ⟨hn1, hm1, _⟩ := sysStepJ_draws hj hn
    obtain ⟨hn2, hm2⟩ := ih hr hn1
    refine ⟨hn2, ?_⟩
    rw [hm2, hm1]
    simp only [schedDraws, ghost, hj, List.flatMap_append, List.length_append]
    omega

/-- every group of requests in the ghost log has one of the three shapes of `pick()` (or is empty:
    a re-issued job draws nothing) -/
theorem ghost_drawShape : ∀ (evs : List Ev) (y : Sys), NoRestore y.s →
    ∀ jd ∈ ghost y evs, jd.2 = [] ∨ DrawShape jd.2 := by
  intro evs
  induction evs with
  | nil => intro y _ jd h; simp [ghost] at h
  | cons ev rest ih =>
    intro y hn jd hjd
    simp only [ghost] at hjd
    split at hjd
    · simp at hjd
    rename_i y1 oj hj
    obtain ⟨hn1, _, hsh⟩ := sysStepJ_draws hj hn
    rcases List.mem_append.mp hjd with hm | hm
    · cases oj with
      | none => simp at hm
      | some x =>
        simp only [Option.toList_some, List.mem_singleton] at hm
        subst hm
        exact hsh jd.1 jd.2 rfl
    · exact ih y1 hn1 jd hm

/-- every job in flight at the end was there at the beginning or was issued by the history -/
theorem jobs_subset_issued : ∀ (evs : List Ev) {y y' : Sys}, run y evs = .ok y' →
    ∀ job ∈ y'.jobs, job ∈ y.jobs ∨ job ∈ issued y evs := by
  intro evs
  induction evs with
  | nil =>
    intro y y' h job hm
    simp only [run, Except.ok.injEq] at h
    subst h
    exact Or.inl hm
  | cons ev rest ih =>
    intro y y' h job hm
    obtain ⟨y1, oj, hj, hr⟩ := run_cons h
    have hstep : ∀ job ∈ y1.jobs, job ∈ y.jobs ∨ job ∈ oj.toList.map (·.1) := by
      intro job hm1
      cases ev with
      | start o saved =>
        simp only [sysStepJ] at hj
        generalize initiate y.s = r at hj
        obtain ⟨s1, go⟩ := r
        simp only [] at hj
        split at hj
        · exact absurd hj (by simp)
        split at hj
        · exact absurd hj (by simp)
        simp only [Except.ok.injEq, Prod.mk.injEq] at hj
        obtain ⟨rfl, rfl⟩ := hj
        rcases List.mem_append.mp hm1 with h1 | h1
        · exact Or.inl h1
        · exact Or.inr (by simpa using h1)
      | initDone =>
        simp only [sysStepJ] at hj
        generalize initiate y.s = r at hj
        obtain ⟨s1, go⟩ := r
        simp only [] at hj
        split at hj
        · exact absurd hj (by simp)
        simp only [Except.ok.injEq, Prod.mk.injEq] at hj
        obtain ⟨rfl, rfl⟩ := hj
        exact Or.inl hm1
      | step k status newW o =>
        simp only [sysStepJ] at hj
        generalize loop y.s = r at hj
        obtain ⟨s1, go⟩ := r
        simp only [] at hj
        split at hj
        · exact absurd hj (by simp)
        split at hj
        · exact absurd hj (by simp)
        split at hj
        · exact absurd hj (by simp)
        split at hj
        · split at hj
          · exact absurd hj (by simp)
          simp only [Except.ok.injEq, Prod.mk.injEq] at hj
          obtain ⟨rfl, rfl⟩ := hj
          rcases List.mem_append.mp hm1 with h1 | h1
          · exact Or.inl (List.mem_of_mem_eraseIdx h1)
          · exact Or.inr (by simpa using h1)
        · simp only [Except.ok.injEq, Prod.mk.injEq] at hj
          obtain ⟨rfl, rfl⟩ := hj
          exact Or.inl (List.mem_of_mem_eraseIdx hm1)
    rcases ih hr job hm with h1 | h1
    · rcases hstep job h1 with h2 | h2
      · exact Or.inl h2
      · right
        simp only [issued, ghost, hj, List.map_append, List.mem_append]
        exact Or.inl h2
    · right
      simp only [issued, ghost, hj, List.map_append, List.mem_append]
      exact Or.inr h1

/-! ### the events, decomposed (used by the counting invariant) -/

/-- the state `treat_output` leaves behind when job `k` completes: the instant at which the code
    writes `restart.toml` (before the next `prep_md_items`) -/
def midState (y : Sys) (k : Nat) (status : Status) (newW : List (List Rat)) : Except Err St :=
  let s1 : St := { y.s with cstep := y.s.cstep + 1 }
  match y.jobs[k]? with
  | none => .error .index
  | some job =>
    match treatOutput s1 job status newW (sortFuel s1) with
    | .error er => .error er
    | .ok (s2, _, _) => .ok s2

theorem sysStepJ_start {y y' : Sys} {o : PickOutcome} {saved : Nat} {oj : Option (Job × List Draw)}
    (h : sysStepJ y (.start o saved) = .ok (y', oj)) :
    ∃ s1 job ds, Quiet y.s s1 ∧ prep s1 none o saved = .ok (y'.s, job, ds) ∧
      y'.jobs = y.jobs ++ [job] ∧ oj = some (job, ds) := by
  simp only [sysStepJ] at h
  have hq := initiate_quiet y.s
  generalize initiate y.s = r at h hq
  obtain ⟨s1, go⟩ := r
  simp only [] at h hq
  split at h
  · exact absurd h (by simp)
  split at h
  · exact absurd h (by simp)
  rename_i s2 job ds hprep
  simp only [Except.ok.injEq, Prod.mk.injEq] at h
  obtain ⟨rfl, rfl⟩ := h
  exact ⟨s1, job, ds, hq, hprep, rfl, rfl⟩

theorem sysStepJ_initDone {y y' : Sys} {oj : Option (Job × List Draw)}
    (h : sysStepJ y .initDone = .ok (y', oj)) : Quiet y.s y'.s ∧ y'.jobs = y.jobs ∧ oj = none := by
  simp only [sysStepJ] at h
  have hq := initiate_quiet y.s
  generalize initiate y.s = r at h hq
  obtain ⟨s1, go⟩ := r
  simp only [] at h hq
  split at h
  · exact absurd h (by simp)
  simp only [Except.ok.injEq, Prod.mk.injEq] at h
  obtain ⟨rfl, rfl⟩ := h
  exact ⟨hq, rfl, rfl⟩

theorem sysStepJ_step {y y' : Sys} {k : Nat} {status : Status} {newW : List (List Rat)}
    {o : PickOutcome} {oj : Option (Job × List Draw)}
    (h : sysStepJ y (.step k status newW o) = .ok (y', oj)) :
    ∃ job s2, y.jobs[k]? = some job ∧ midState y k status newW = .ok s2 ∧
      ((∃ job' ds, prep s2 (some job.pin) o = .ok (y'.s, job', ds) ∧
          y'.jobs = y.jobs.eraseIdx k ++ [job'] ∧ oj = some (job', ds)) ∨
       (y'.s = s2 ∧ y'.jobs = y.jobs.eraseIdx k ∧ oj = none)) := by
  simp only [sysStepJ] at h
  generalize hloop : loop y.s = r at h
  obtain ⟨s1, go⟩ := r
  simp only [] at h
  split at h
  · exact absurd h (by simp)
  rename_i hgo
  have hgo : go = true := by simpa using hgo
  subst hgo
  have hs1 := loop_true hloop
  subst hs1
  split at h
  · exact absurd h (by simp)
  rename_i job hjob
  split at h
  · exact absurd h (by simp)
  rename_i s2 pns it htreat
  refine ⟨job, s2, hjob, ?_, ?_⟩
  · simp only [midState, hjob, htreat]
  split at h
  · split at h
    · exact absurd h (by simp)
    rename_i s3 job' ds hprep
    simp only [Except.ok.injEq, Prod.mk.injEq] at h
    obtain ⟨rfl, rfl⟩ := h
    exact Or.inl ⟨job', ds, hprep, rfl, rfl⟩
  · simp only [Except.ok.injEq, Prod.mk.injEq] at h
    obtain ⟨rfl, rfl⟩ := h
    exact Or.inr ⟨rfl, rfl, rfl⟩

/-- `treat_output` at the completion of job `k`, in terms of the random-stream fields -/
theorem midState_spec {y : Sys} {k : Nat} {status : Status} {newW : List (List Rat)} {s2 : St}
    (h : midState y k status newW = .ok s2) :
    ∃ job, y.jobs[k]? = some job ∧ s2.seed = y.s.seed ∧ s2.entropy = y.s.entropy ∧
      s2.spawned = y.s.spawned ∧ s2.cstep = y.s.cstep + 1 ∧ s2.locked0 = y.s.locked0 ∧
      s2.mainDraws = y.s.mainDraws ∧ s2.locked = popAll job.picked y.s.locked := by
  unfold midState at h
  simp only [] at h
  split at h
  · exact absurd h (by simp)
  rename_i job hjob
  split at h
  · exact absurd h (by simp)
  rename_i s2' pns it htreat
  simp only [Except.ok.injEq] at h
  subst h
  obtain ⟨q, hl⟩ := treatOutput_quiet job status newW _ pns it htreat
  exact ⟨job, hjob, q.seed, q.entropy, q.spawned, q.cstep, q.locked0, q.mainDraws, hl⟩

/-! ### the restart image -/

/-- **what a restart rebuilds** (`setup_config` + `__init__` + `set_rgen` + `load_paths`): the seed
    sequence of the configured seed with spawn counter `cstep + #recorded in-flight jobs`. -/
theorem restore_spec {im : Image} {n workers tsteps : Nat} {occ : List (List Int)}
    {ensEng : List (List Nat)} {weightOf : Nat → List Rat} {s' : St}
    (h : restore im n workers tsteps occ ensEng weightOf = .ok s') :
    s'.seed = im.seed ∧ s'.entropy = im.seed ∧ s'.spawned = im.cstep + im.locked.length ∧
      s'.cstep = im.cstep ∧ s'.locked = [] ∧ s'.locked0 = im.locked ∧ s'.restarted = true ∧
      s'.rgenRestored = false := by
  unfold restore at h
  simp only [] at h
  obtain ⟨q, ql⟩ := loadPaths_quiet h
  refine ⟨q.seed, q.entropy, ?_, q.cstep, ql, q.locked0, q.restarted, q.rgenRestored⟩
  rw [q.spawned]
  simp [blank]

theorem persist_fields (s : St) : (persist s).seed = s.seed ∧ (persist s).cstep = s.cstep ∧
    (persist s).locked.length = s.locked.length ∧ (persist s).rngDraws = s.mainDraws := by
  simp [persist]

/-- **restart of a state whose record is exact**: if `spawned = cstep + #locked` and the entropy is
    the configured seed, the restarted sampler continues the same seed sequence at the same counter -/
theorem restore_continues {s s' : St} {n workers tsteps : Nat} {occ : List (List Int)}
    {ensEng : List (List Nat)} {weightOf : Nat → List Rat}
    (hc : s.spawned = s.cstep + s.locked.length)
    (h : restore (persist s) n workers tsteps occ ensEng weightOf = .ok s') :
    s'.seed = s.seed ∧ s'.entropy = s.seed ∧ s'.spawned = s.spawned ∧ s'.locked = [] ∧
      s'.locked0.length = s.locked.length ∧ s'.cstep = s.cstep := by
  obtain ⟨h1, h2, h3, h4, h5, h6, _, _⟩ := restore_spec h
  obtain ⟨p1, p2, p3, _⟩ := persist_fields s
  refine ⟨h1.trans p1, h2.trans p1, ?_, h5, by rw [h6, p3], h4.trans p2⟩
  rw [h3, p2, p3, hc]

end Infretis.Repex
