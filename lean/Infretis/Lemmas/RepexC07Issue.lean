import Infretis.Lemmas.RepexC07Frame
/-!
# C07 — the jobs issued along a scheduler history, their ordinals and their streams

`sysStepJ` is `sysStep` with a ghost output: the job the event issued (if any) together with the
draw requests its `pick()` made on the scheduler stream.  `sysStepJ_sys` shows that it is `sysStep`
as far as the state goes.  `ghost y evs` collects these outputs along a history as `Entry`s:
the job, the ordinal put on record with it (`lockedOrd`, third component of the `locked` entry),
whether it was a FRESH job (spawn counter advanced) or the RE-ISSUE of a job recorded in the restart
file under its ordinal, and the draw requests.

Main facts (from ANY state): every entry's job carries the streams `(entropy, [ord, j])` /
`(entropy, [ord, j, 0])` of its ordinal; the fresh entries have the ordinals
`spawned, spawned + 1, …` in order and the counter afterwards is `spawned + #fresh`; the re-issue
entries take, in order, ordinals on record in `locked0Ord`; the scheduler stream advances by exactly
the draw requests.
-/
namespace Infretis.Repex
open Infretis.Perm

/-! ### pick_lock and prep_md_items -/

/-- `restarted = false`, or the one-time restore of the stream position already happened -/
def NoRestore (s : St) : Prop := s.restarted = false ∨ s.rgenRestored = true

theorem pickLock_draws {s s' : St} {o : PickOutcome} {d : Nat} {ps : List Picked} {ds : List Draw}
    (hp : pickLock s o d = .ok (s', ps, ds)) (hr : NoRestore s) :
    s'.mainDraws = s.mainDraws + ds.length ∧ NoRestore s' ∧ (ds = [] ∨ DrawShape ds) := by
  cases hl0 : s.locked0 with
  | nil =>
    unfold pickLock at hp
    rw [hl0] at hp
    simp only [] at hp
    rw [restoreStreamOnce_idle d hr] at hp
    obtain ⟨hi, hm, hrr, _, _, hsh, _⟩ := pick_issue hp
    refine ⟨hm, ?_, Or.inr hsh⟩
    unfold NoRestore
    rw [hi.restarted, hrr]
    exact hr
  | cons r rest =>
    obtain ⟨enss0, trajs0⟩ := r
    obtain ⟨s1, pairs, hre, _, rfl, rfl⟩ := pickLock_reissue hl0 hp
    obtain ⟨q, _, _⟩ := reissue_quiet hre
    refine ⟨q.mainDraws, ?_, Or.inl rfl⟩
    unfold NoRestore
    show s1.restarted = false ∨ s1.rgenRestored = true
    rw [q.restarted, q.rgenRestored]
    exact hr

/-- the first fresh `pick_lock()` after a restart starts from the stream position of the restart file -/
theorem pickLock_draws_restored {s s' : St} {o : PickOutcome} {d : Nat} {ps : List Picked}
    {ds : List Draw} (hp : pickLock s o d = .ok (s', ps, ds)) (h0 : s.locked0 = [])
    (hr : s.restarted = true) (hn : s.rgenRestored = false) :
    s'.mainDraws = d + ds.length ∧ NoRestore s' := by
  unfold pickLock at hp
  rw [h0] at hp
  simp only [] at hp
  have : restoreStreamOnce s d = { s with mainDraws := d, rgenRestored := true } := by
    unfold restoreStreamOnce
    rw [if_pos ⟨hr, hn⟩]
  rw [this] at hp
  obtain ⟨_, hm, hrr, _⟩ := pick_issue hp
  exact ⟨hm, Or.inr hrr⟩

/-- `pick_lock()` with nothing to re-issue is a fresh pick that records the job it issues -/
theorem pickLock_fresh {s s' : St} {o : PickOutcome} {d : Nat} {ps : List Picked} {ds : List Draw}
    (hp : pickLock s o d = .ok (s', ps, ds)) (h0 : s.locked0 = []) :
    Issue s s' ps s.spawned true ∧ s'.locked0 = [] ∧
      s'.locked = s.locked ++ [(ps.map (·.ens), ps.map (·.pn))] := by
  unfold pickLock at hp
  rw [h0] at hp
  simp only [] at hp
  obtain ⟨hi, _, _, hl0, _, _, hl⟩ := pick_issue hp
  have hr := restoreStreamOnce_seq s d
  refine ⟨⟨hi.seed.trans hr.seed, hi.entropy.trans hr.entropy, hi.restarted.trans hr.restarted,
    hi.cstep.trans hr.cstep, hi.workers.trans hr.workers, hi.tsteps.trans hr.tsteps, ?_, ?_, ?_, ?_⟩,
    by rw [hl0, hr.locked0, h0], by rw [hl, hr.locked]⟩
  · have := hi.streams
    rw [hr.entropy, hr.spawned] at this
    exact this
  · rw [← hr.locked]; exact hi.locked
  · rw [← hr.lockedOrd, ← hr.spawned]; exact hi.lockedOrd
  · rcases hi.kind with ⟨_, _, h3, h4⟩ | ⟨h1, _⟩
    · refine Or.inl ⟨rfl, rfl, by rw [h3, hr.spawned], ?_⟩
      rcases h4 with h | h
      · exact Or.inl (h.trans hr.locked0Ord)
      · exact Or.inr (by rw [h, hr.locked0Ord])
    · exact absurd h1 (by simp)

/-- `prep_md_items` = `pick_lock()` / `pick()` + pin + engine assignment: the latter touch `occ` only
    and re-label `eng_idx` of the picked entries -/
theorem prep_decomp {s s' : St} {prev : Option Nat} {o : PickOutcome} {d : Nat} {job : Job}
    {ds : List Draw} (h : prep s prev o d = .ok (s', job, ds)) :
    ∃ s1 ps, (if s.toinitiate ≥ 0 then pickLock s o d else pick s o) = .ok (s1, ps, ds) ∧
      Quiet s1 s' ∧ (∃ f : Picked → List (Nat × Nat), job.picked = ps.map (fun p => { p with engIdx := f p })) ∧
      job.pnumOld = job.picked.map (·.pn) ∧ ∃ occ', s' = { s1 with occ := occ' } := by
  unfold prep at h
  simp only [] at h
  generalize hpin : (if s.toinitiate ≥ 0 then some s.cworker else prev) = pin? at h
  split at h
  · exact absurd h (by simp)
  rename_i s1 ps ds1 hr
  split at h
  · exact absurd h (by simp)
  rename_i pin
  split at h
  · exact absurd h (by simp)
  rename_i occ' idx hass
  split at h
  · exact absurd h (by simp)
  simp only [Except.ok.injEq, Prod.mk.injEq] at h
  obtain ⟨rfl, rfl, rfl⟩ := h
  exact ⟨s1, ps, hr, ⟨⟨rfl, rfl, rfl, rfl, rfl, rfl, rfl, rfl, rfl, rfl, rfl⟩, rfl, rfl⟩, ⟨_, rfl⟩, rfl, ⟨_, rfl⟩⟩

theorem getElem?_map_engIdx {ps : List Picked} {f : Picked → List (Nat × Nat)} {j : Nat} {p' : Picked}
    (h : (ps.map (fun p => { p with engIdx := f p }))[j]? = some p') :
    ∃ p, ps[j]? = some p ∧ p'.rgen = p.rgen ∧ p'.rgenEng = p.rgenEng ∧ p'.pn = p.pn := by
  rw [List.getElem?_map] at h
  cases hp : ps[j]? with
  | none => rw [hp] at h; simp at h
  | some p =>
    rw [hp] at h
    simp only [Option.map_some, Option.some.injEq] at h
    subst h
    exact ⟨p, rfl, rfl, rfl, rfl⟩

theorem map_pn_map_engIdx (ps : List Picked) (f : Picked → List (Nat × Nat)) :
    (ps.map (fun p => { p with engIdx := f p })).map (·.pn) = ps.map (·.pn) := by
  simp [List.map_map, Function.comp_def]


theorem map_ens_map_engIdx (ps : List Picked) (f : Picked → List (Nat × Nat)) :
    (ps.map (fun p => { p with engIdx := f p })).map (·.ens) = ps.map (·.ens) := by
  simp [List.map_map, Function.comp_def]

theorem StreamsAt.map_engIdx {en ord : Nat} {ps : List Picked} (h : StreamsAt en ord ps)
    (f : Picked → List (Nat × Nat)) : StreamsAt en ord (ps.map (fun p => { p with engIdx := f p })) := by
  intro j p' hp'
  obtain ⟨p, hp, e1, e2, _⟩ := getElem?_map_engIdx hp'
  rw [e1, e2]
  exact h j p hp

theorem Issue.of_quiet {s s1 s' : St} {ps : List Picked} {ord : Nat} {fresh : Bool}
    (hi : Issue s s1 ps ord fresh) (hq : Quiet s1 s') (f : Picked → List (Nat × Nat)) :
    Issue s s' (ps.map (fun p => { p with engIdx := f p })) ord fresh := by
  obtain ⟨q, ql, qo⟩ := hq
  refine ⟨q.seed.trans hi.seed, q.entropy.trans hi.entropy, q.restarted.trans hi.restarted,
    q.cstep.trans hi.cstep, q.workers.trans hi.workers, q.tsteps.trans hi.tsteps,
    hi.streams.map_engIdx f, ?_, by rw [qo, hi.lockedOrd], ?_⟩
  · obtain ⟨entry, he⟩ := hi.locked
    exact ⟨entry, by rw [ql, he]⟩
  · rw [q.spawned, q.locked0Ord]
    exact hi.kind

/-- **`prep_md_items` issues one job** carrying the streams of the ordinal put on record with it:
    the next fresh ordinal (counter advanced) or the ordinal on record of a re-issued job. -/
theorem prep_issue {s s' : St} {prev : Option Nat} {o : PickOutcome} {d : Nat} {job : Job}
    {ds : List Draw} (h : prep s prev o d = .ok (s', job, ds)) :
    ∃ ord fresh, Issue s s' job.picked ord fresh := by
  obtain ⟨s1, ps, hr, hq, ⟨f, hf⟩, _, _⟩ := prep_decomp h
  have hi : ∃ ord fresh, Issue s s1 ps ord fresh := by
    split at hr
    · exact pickLock_issue hr
    · exact ⟨_, _, (pick_issue hr).1⟩
  obtain ⟨ord, fresh, hi⟩ := hi
  rw [hf]
  exact ⟨ord, fresh, hi.of_quiet hq f⟩

theorem prep_draws {s s' : St} {prev : Option Nat} {o : PickOutcome} {d : Nat} {job : Job}
    {ds : List Draw} (h : prep s prev o d = .ok (s', job, ds)) (hn : NoRestore s) :
    s'.mainDraws = s.mainDraws + ds.length ∧ NoRestore s' ∧ (ds = [] ∨ DrawShape ds) := by
  obtain ⟨s1, ps, hr, ⟨q, _⟩, _, _, _⟩ := prep_decomp h
  have key : s1.mainDraws = s.mainDraws + ds.length ∧ NoRestore s1 ∧ (ds = [] ∨ DrawShape ds) := by
    split at hr
    · exact pickLock_draws hr hn
    · obtain ⟨hi, hm, hrr, _, _, hsh, _⟩ := pick_issue hr
      refine ⟨hm, ?_, Or.inr hsh⟩
      unfold NoRestore
      rw [hi.restarted, hrr]
      exact hn
  refine ⟨q.mainDraws.trans key.1, ?_, key.2.2⟩
  unfold NoRestore
  rw [q.restarted, q.rgenRestored]
  exact key.2.1

/-- with nothing to re-issue, `prep_md_items` is a fresh issue and records exactly the ensembles and
    path numbers of the job -/
theorem prep_fresh {s s' : St} {prev : Option Nat} {o : PickOutcome} {d : Nat} {job : Job}
    {ds : List Draw} (h : prep s prev o d = .ok (s', job, ds)) (h0 : s.locked0 = []) :
    Issue s s' job.picked s.spawned true ∧ s'.locked0 = [] ∧
      s'.locked = s.locked ++ [(job.picked.map (·.ens), job.picked.map (·.pn))] := by
  obtain ⟨s1, ps, hr, hq, ⟨f, hf⟩, _, _⟩ := prep_decomp h
  have key : Issue s s1 ps s.spawned true ∧ s1.locked0 = [] ∧
      s1.locked = s.locked ++ [(ps.map (·.ens), ps.map (·.pn))] := by
    split at hr
    · exact pickLock_fresh hr h0
    · obtain ⟨hi, _, _, hl0, _, _, hl⟩ := pick_issue hr
      exact ⟨hi, by rw [hl0, h0], hl⟩
  obtain ⟨hi, k0, hl⟩ := key
  rw [hf, map_pn_map_engIdx, map_ens_map_engIdx]
  exact ⟨hi.of_quiet hq f, by rw [hq.1.locked0, k0], by rw [hq.2.1, hl]⟩

/-! ### the scheduler loop with a ghost log of issued jobs -/

/-- `sysStep` that also reports the job issued by the event (if any) and the draw requests made on
    the scheduler stream for it -/
def sysStepJ (y : Sys) : Ev → Except Err (Sys × Option (Job × List Draw))
  | .start o saved =>
    let (s1, go) := initiate y.s
    if ¬ go then .error .value else
    match prep s1 none o saved with
    | .error er => .error er
    | .ok (s2, job, ds) => .ok ({ s := s2, jobs := y.jobs ++ [job] }, some (job, ds))
  | .initDone =>
    let (s1, go) := initiate y.s
    if go then .error .value else .ok ({ y with s := s1 }, none)
  | .step k status newW o =>
    let (s1, go) := loop y.s
    if ¬ go then .error .value else
    match y.jobs[k]? with
    | none => .error .index
    | some job =>
      match treatOutput s1 job status newW (sortFuel s1) with
      | .error er => .error er
      | .ok (s2, _, _) =>
        let rest := y.jobs.eraseIdx k
        if s2.cstep + s2.workers ≤ s2.tsteps then
          match prep s2 (some job.pin) o with
          | .error er => .error er
          | .ok (s3, job', ds) => .ok ({ s := s3, jobs := rest ++ [job'] }, some (job', ds))
        else .ok ({ s := s2, jobs := rest }, none)

/-- `sysStepJ` is `sysStep` plus a ghost output -/
theorem sysStepJ_sys (y : Sys) (ev : Ev) :
    sysStep y ev = (match sysStepJ y ev with | .ok r => .ok r.1 | .error e => .error e) := by
  cases ev with
  | start o saved =>
    simp only [sysStep, sysStepJ]
    split
    · rfl
    · cases prep (initiate y.s).1 none o saved with
      | error er => rfl
      | ok r => obtain ⟨s2, job, ds⟩ := r; rfl
  | initDone =>
    simp only [sysStep, sysStepJ]
    split <;> rfl
  | step k status newW o =>
    simp only [sysStep, sysStepJ]
    split
    · rfl
    · cases y.jobs[k]? with
      | none => rfl
      | some job =>
        simp only []
        cases treatOutput (loop y.s).1 job status newW (sortFuel (loop y.s).1) with
        | error er => rfl
        | ok r =>
          obtain ⟨s2, a, b⟩ := r
          simp only []
          split
          · cases prep s2 (some job.pin) o with
            | error er => rfl
            | ok r => obtain ⟨s3, job', ds⟩ := r; rfl
          · rfl

theorem sysStep_of_J {y y' : Sys} {ev : Ev} {oj : Option (Job × List Draw)}
    (h : sysStepJ y ev = .ok (y', oj)) : sysStep y ev = .ok y' := by
  rw [sysStepJ_sys, h]

theorem sysStepJ_of_sys {y y' : Sys} {ev : Ev} (h : sysStep y ev = .ok y') :
    ∃ oj, sysStepJ y ev = .ok (y', oj) := by
  rw [sysStepJ_sys] at h
  split at h
  · rename_i r hr
    simp only [Except.ok.injEq] at h
    subst h
    exact ⟨r.2, hr⟩
  · exact absurd h (by simp)

/-- one entry of the issue log -/
structure Entry where
  /-- the ordinal put on record with the job (third component of its `locked` entry) -/
  ord : Nat
  /-- `true`: a fresh job (spawn counter advanced); `false`: a recorded job re-issued under its ordinal -/
  fresh : Bool
  job : Job
  draws : List Draw

/-- the tag of the job issued between states `sb` (before) and `sa` (after): the last recorded
    ordinal, and whether the spawn counter moved -/
def tagOf (sb sa : St) : Nat × Bool := ((sa.lockedOrd.getLast?).getD 0, sa.spawned != sb.spawned)

/-- ghost log of a history: one `Entry` per issuing event, in order; stops where the sampler raises -/
def ghost (y : Sys) : List Ev → List Entry
  | [] => []
  | ev :: rest =>
    match sysStepJ y ev with
    | .error _ => []
    | .ok (y', oj) =>
      (oj.toList.map (fun jd =>
        { ord := (tagOf y.s y'.s).1, fresh := (tagOf y.s y'.s).2, job := jd.1, draws := jd.2 : Entry }))
        ++ ghost y' rest

/-- the jobs issued along a history (fresh and re-issued), in issue order -/
def issued (y : Sys) (evs : List Ev) : List Job := (ghost y evs).map (·.job)

/-- the draw requests made on the scheduler stream along a history, in order -/
def schedDraws (y : Sys) (evs : List Ev) : List Draw := (ghost y evs).flatMap (·.draws)

theorem run_cons {y y' : Sys} {ev : Ev} {rest : List Ev} (h : run y (ev :: rest) = .ok y') :
    ∃ y1 oj, sysStepJ y ev = .ok (y1, oj) ∧ run y1 rest = .ok y' := by
  unfold run at h
  split at h
  · exact absurd h (by simp)
  rename_i y1 h1
  obtain ⟨oj, hj⟩ := sysStepJ_of_sys h1
  exact ⟨y1, oj, hj, h⟩

theorem ghost_append : ∀ (evs : List Ev) {y y1 : Sys} (evs' : List Ev), run y evs = .ok y1 →
    ghost y (evs ++ evs') = ghost y evs ++ ghost y1 evs' := by
  intro evs
  induction evs with
  | nil =>
    intro y y1 evs' h
    simp only [run, Except.ok.injEq] at h
    subst h
    simp [ghost]
  | cons ev rest ih =>
    intro y y1 evs' h
    obtain ⟨y2, oj, hj, hr⟩ := run_cons h
    simp only [List.cons_append, ghost, hj]
    rw [ih evs' hr, List.append_assoc]

theorem run_append7 {y y1 y2 : Sys} : ∀ {evs : List Ev} {evs' : List Ev}, run y evs = .ok y1 →
    run y1 evs' = .ok y2 → run y (evs ++ evs') = .ok y2 := by
  intro evs
  induction evs generalizing y with
  | nil =>
    intro evs' h h'
    simp only [run, Except.ok.injEq] at h
    subst h
    exact h'
  | cons ev rest ih =>
    intro evs' h h'
    unfold run at h
    split at h
    · exact absurd h (by simp)
    rename_i y3 h3
    simp only [List.cons_append, run, h3]
    exact ih h h'

/-- the state `treat_output` leaves behind when job `k` completes: the instant at which the code
    writes `restart.toml` (before the next `prep_md_items`) -/
def midState (y : Sys) (k : Nat) (status : Status) (newW : List (List Rat)) : Except Err St :=
  let s1 : St := { y.s with cstep := y.s.cstep + 1 }
  match y.jobs[k]? with
  | none => .error .index
  | some job =>
    match treatOutput s1 job status newW (sortFuel s1) with
    | .error er => .error er
    | .ok (s2, _, _) => .ok s2

theorem sysStepJ_start {y y' : Sys} {o : PickOutcome} {saved : Nat} {oj : Option (Job × List Draw)}
    (h : sysStepJ y (.start o saved) = .ok (y', oj)) :
    ∃ s1 job ds, s1 = (initiate y.s).1 ∧ Quiet y.s s1 ∧ prep s1 none o saved = .ok (y'.s, job, ds) ∧
      y'.jobs = y.jobs ++ [job] ∧ oj = some (job, ds) ∧ (initiate y.s).2 = true := by
  simp only [sysStepJ] at h
  have hq := initiate_quiet y.s
  generalize hgen : initiate y.s = r at h hq
  obtain ⟨s1, go⟩ := r
  simp only [] at h hq
  split at h
  · exact absurd h (by simp)
  rename_i hgo
  split at h
  · exact absurd h (by simp)
  rename_i s2 job ds hprep
  simp only [Except.ok.injEq, Prod.mk.injEq] at h
  obtain ⟨rfl, rfl⟩ := h
  exact ⟨s1, job, ds, rfl, hq, hprep, rfl, rfl, by simpa using hgo⟩

theorem sysStepJ_initDone {y y' : Sys} {oj : Option (Job × List Draw)}
    (h : sysStepJ y .initDone = .ok (y', oj)) :
    y'.s = (initiate y.s).1 ∧ Quiet y.s y'.s ∧ y'.jobs = y.jobs ∧ oj = none := by
  simp only [sysStepJ] at h
  have hq := initiate_quiet y.s
  generalize hgen : initiate y.s = r at h hq
  obtain ⟨s1, go⟩ := r
  simp only [] at h hq
  split at h
  · exact absurd h (by simp)
  simp only [Except.ok.injEq, Prod.mk.injEq] at h
  obtain ⟨rfl, rfl⟩ := h
  exact ⟨rfl, hq, rfl, rfl⟩

theorem sysStepJ_step {y y' : Sys} {k : Nat} {status : Status} {newW : List (List Rat)}
    {o : PickOutcome} {oj : Option (Job × List Draw)}
    (h : sysStepJ y (.step k status newW o) = .ok (y', oj)) :
    ∃ job s2, y.jobs[k]? = some job ∧ midState y k status newW = .ok s2 ∧
      ((∃ job' ds, prep s2 (some job.pin) o = .ok (y'.s, job', ds) ∧
          y'.jobs = y.jobs.eraseIdx k ++ [job'] ∧ oj = some (job', ds)) ∨
       (y'.s = s2 ∧ y'.jobs = y.jobs.eraseIdx k ∧ oj = none)) := by
  simp only [sysStepJ] at h
  generalize hloop : loop y.s = r at h
  obtain ⟨s1, go⟩ := r
  simp only [] at h
  split at h
  · exact absurd h (by simp)
  rename_i hgo
  have hgo : go = true := by simpa using hgo
  subst hgo
  have hs1 := loop_true hloop
  subst hs1
  split at h
  · exact absurd h (by simp)
  rename_i job hjob
  split at h
  · exact absurd h (by simp)
  rename_i s2 pns it htreat
  refine ⟨job, s2, hjob, ?_, ?_⟩
  · simp only [midState, hjob, htreat]
  split at h
  · split at h
    · exact absurd h (by simp)
    rename_i s3 job' ds hprep
    simp only [Except.ok.injEq, Prod.mk.injEq] at h
    obtain ⟨rfl, rfl⟩ := h
    exact Or.inl ⟨job', ds, hprep, rfl, rfl⟩
  · simp only [Except.ok.injEq, Prod.mk.injEq] at h
    obtain ⟨rfl, rfl⟩ := h
    exact Or.inr ⟨rfl, rfl, rfl⟩

/-! ### one event -/

/-- what one event does to the seed sequence -/
theorem sysStepJ_issue {y y' : Sys} {ev : Ev} {oj : Option (Job × List Draw)}
    (h : sysStepJ y ev = .ok (y', oj)) :
    y'.s.seed = y.s.seed ∧ y'.s.entropy = y.s.entropy ∧
    (oj = none → y'.s.spawned = y.s.spawned ∧ y'.s.locked0Ord = y.s.locked0Ord) ∧
    ∀ job ds, oj = some (job, ds) → ∃ ord fresh, tagOf y.s y'.s = (ord, fresh) ∧
      StreamsAt y.s.entropy ord job.picked ∧
      ((fresh = true ∧ ord = y.s.spawned ∧ y'.s.spawned = y.s.spawned + 1 ∧
          (y'.s.locked0Ord = y.s.locked0Ord ∨ y'.s.locked0Ord = y.s.locked0Ord.tail)) ∨
       (fresh = false ∧ y'.s.spawned = y.s.spawned ∧ y.s.locked0Ord = some ord :: y'.s.locked0Ord)) := by
  -- the common part: an `Issue` from a state that agrees with `y.s` on the stream fields
  have key : ∀ (sb : St) (job : Job) (ord : Nat) (fresh : Bool), sb.entropy = y.s.entropy →
      sb.spawned = y.s.spawned → sb.locked0Ord = y.s.locked0Ord → Issue sb y'.s job.picked ord fresh →
      tagOf y.s y'.s = (ord, fresh) ∧ StreamsAt y.s.entropy ord job.picked ∧
      ((fresh = true ∧ ord = y.s.spawned ∧ y'.s.spawned = y.s.spawned + 1 ∧
          (y'.s.locked0Ord = y.s.locked0Ord ∨ y'.s.locked0Ord = y.s.locked0Ord.tail)) ∨
       (fresh = false ∧ y'.s.spawned = y.s.spawned ∧ y.s.locked0Ord = some ord :: y'.s.locked0Ord)) := by
    intro sb job ord fresh e1 e2 e3 hi
    have hk := hi.kind
    rw [e2, e3] at hk
    refine ⟨?_, by rw [← e1]; exact hi.streams, hk⟩
    unfold tagOf
    rw [hi.lockedOrd]
    simp only [List.getLast?_append, List.getLast?_singleton, Option.some_or, Option.getD_some]
    rcases hk with ⟨hf, _, h3, _⟩ | ⟨hf, h3, _⟩
    · rw [h3, hf]; simp
    · rw [h3, hf]; simp
  cases ev with
  | start o saved =>
    obtain ⟨s1, job, ds, _, ⟨q, _, _⟩, hprep, _, hoj, _⟩ := sysStepJ_start h
    obtain ⟨ord, fresh, hi⟩ := prep_issue hprep
    refine ⟨hi.seed.trans q.seed, hi.entropy.trans q.entropy, by intro hn; rw [hn] at hoj; simp at hoj, ?_⟩
    intro job' ds' he
    rw [hoj] at he
    simp only [Option.some.injEq, Prod.mk.injEq] at he
    obtain ⟨rfl, _⟩ := he
    exact ⟨ord, fresh, key s1 job ord fresh q.entropy q.spawned q.locked0Ord hi⟩
  | initDone =>
    obtain ⟨_, ⟨q, _, _⟩, _, hoj⟩ := sysStepJ_initDone h
    exact ⟨q.seed, q.entropy, fun _ => ⟨q.spawned, q.locked0Ord⟩, by intro _ _ he; rw [hoj] at he; simp at he⟩
  | step k status newW o =>
    obtain ⟨job, s2, hjob, hmid, hrest⟩ := sysStepJ_step h
    -- the mid state agrees with `y.s` on the stream fields
    have hm : s2.seed = y.s.seed ∧ s2.entropy = y.s.entropy ∧ s2.spawned = y.s.spawned ∧
        s2.locked0Ord = y.s.locked0Ord := by
      unfold midState at hmid
      simp only [hjob] at hmid
      split at hmid
      · exact absurd hmid (by simp)
      rename_i s2' pns it htreat
      simp only [Except.ok.injEq] at hmid
      subst hmid
      obtain ⟨q, _⟩ := treatOutput_quiet job status newW _ pns it htreat
      exact ⟨q.seed, q.entropy, q.spawned, q.locked0Ord⟩
    obtain ⟨m1, m2, m3, m4⟩ := hm
    rcases hrest with ⟨job', ds, hprep, _, hoj⟩ | ⟨hs, _, hoj⟩
    · obtain ⟨ord, fresh, hi⟩ := prep_issue hprep
      refine ⟨hi.seed.trans m1, hi.entropy.trans m2, by intro hn; rw [hn] at hoj; simp at hoj, ?_⟩
      intro job'' ds' he
      rw [hoj] at he
      simp only [Option.some.injEq, Prod.mk.injEq] at he
      obtain ⟨rfl, _⟩ := he
      exact ⟨ord, fresh, key s2 job' ord fresh m2 m3 m4 hi⟩
    · rw [hs]
      exact ⟨m1, m2, fun _ => ⟨m3, m4⟩, by intro _ _ he; rw [hoj] at he; simp at he⟩

/-- one event and the scheduler stream's position -/
theorem sysStepJ_draws {y y' : Sys} {ev : Ev} {oj : Option (Job × List Draw)}
    (h : sysStepJ y ev = .ok (y', oj)) (hn : NoRestore y.s) :
    NoRestore y'.s ∧ y'.s.mainDraws = y.s.mainDraws + (oj.toList.flatMap (·.2)).length ∧
      ∀ job ds, oj = some (job, ds) → ds = [] ∨ DrawShape ds := by
  cases ev with
  | start o saved =>
    obtain ⟨s1, job, ds, _, ⟨q, _, _⟩, hprep, _, hoj, _⟩ := sysStepJ_start h
    have hn1 : NoRestore s1 := by
      unfold NoRestore; rw [q.restarted, q.rgenRestored]; exact hn
    obtain ⟨hm, hn2, hsh⟩ := prep_draws hprep hn1
    subst hoj
    refine ⟨hn2, ?_, ?_⟩
    · rw [hm, q.mainDraws]; simp
    · intro job' ds' he
      simp only [Option.some.injEq, Prod.mk.injEq] at he
      obtain ⟨_, rfl⟩ := he
      exact hsh
  | initDone =>
    obtain ⟨_, ⟨q, _, _⟩, _, hoj⟩ := sysStepJ_initDone h
    subst hoj
    refine ⟨?_, by simpa using q.mainDraws, by intro _ _ he; simp at he⟩
    unfold NoRestore
    rw [q.restarted, q.rgenRestored]; exact hn
  | step k status newW o =>
    obtain ⟨job, s2, hjob, hmid, hrest⟩ := sysStepJ_step h
    have hm : s2.mainDraws = y.s.mainDraws ∧ NoRestore s2 := by
      unfold midState at hmid
      simp only [hjob] at hmid
      split at hmid
      · exact absurd hmid (by simp)
      rename_i s2' pns it htreat
      simp only [Except.ok.injEq] at hmid
      subst hmid
      obtain ⟨q, _⟩ := treatOutput_quiet job status newW _ pns it htreat
      refine ⟨q.mainDraws, ?_⟩
      unfold NoRestore; rw [q.restarted, q.rgenRestored]; exact hn
    obtain ⟨e1, hn2⟩ := hm
    rcases hrest with ⟨job', ds, hprep, _, hoj⟩ | ⟨hs, _, hoj⟩
    · obtain ⟨hm, hn3, hsh⟩ := prep_draws hprep hn2
      subst hoj
      refine ⟨hn3, ?_, ?_⟩
      · rw [hm, e1]; simp
      · intro job'' ds' he
        simp only [Option.some.injEq, Prod.mk.injEq] at he
        obtain ⟨_, rfl⟩ := he
        exact hsh
    · subst hoj
      rw [hs]
      exact ⟨hn2, by simpa using e1, by intro _ _ he; simp at he⟩

/-! ### whole histories -/

/-- every entry of the log carries the streams of its ordinal in the seed sequence of entropy `en` -/
def Tagged (en : Nat) (log : List Entry) : Prop := ∀ e ∈ log, StreamsAt en e.ord e.job.picked

theorem Tagged.append {en : Nat} {l1 l2 : List Entry} (h1 : Tagged en l1) (h2 : Tagged en l2) :
    Tagged en (l1 ++ l2) := by
  intro e he
  rcases List.mem_append.mp he with h | h
  · exact h1 e h
  · exact h2 e h

/-- the ordinals of the fresh entries of a log, in order -/
def freshOrds (log : List Entry) : List Nat := (log.filter (·.fresh)).map (·.ord)

/-- the ordinals of the re-issue entries of a log, in order -/
def reissueOrds (log : List Entry) : List Nat := (log.filter (fun e => !e.fresh)).map (·.ord)

theorem freshOrds_append (l1 l2 : List Entry) : freshOrds (l1 ++ l2) = freshOrds l1 ++ freshOrds l2 := by
  simp [freshOrds]

theorem reissueOrds_append (l1 l2 : List Entry) :
    reissueOrds (l1 ++ l2) = reissueOrds l1 ++ reissueOrds l2 := by
  simp [reissueOrds]

/-- **the log of any history from any state**: (a) every entry carries the streams of its ordinal;
    (b) the fresh entries have the ordinals `spawned, spawned+1, …`; (c) the re-issue entries take,
    in order, ordinals that are on record in `locked0Ord`. -/
theorem ghost_spec : ∀ (evs : List Ev) (y : Sys),
    Tagged y.s.entropy (ghost y evs) ∧
    freshOrds (ghost y evs) = List.range' y.s.spawned (freshOrds (ghost y evs)).length ∧
    ((reissueOrds (ghost y evs)).map some).Sublist y.s.locked0Ord := by
  intro evs
  induction evs with
  | nil => intro y; exact ⟨by intro e he; simp [ghost] at he, by simp [ghost, freshOrds], by simp [ghost, reissueOrds]⟩
  | cons ev rest ih =>
    intro y
    simp only [ghost]
    split
    · exact ⟨by intro e he; simp at he, by simp [freshOrds], by simp [reissueOrds]⟩
    rename_i y1 oj hj
    obtain ⟨_, hen, hnone, hsome⟩ := sysStepJ_issue hj
    obtain ⟨i1, i2, i3⟩ := ih y1
    rw [hen] at i1
    cases oj with
    | none =>
      obtain ⟨hsp, hl0⟩ := hnone rfl
      simp only [Option.toList_none, List.map_nil, List.nil_append]
      rw [hsp] at i2
      rw [hl0] at i3
      exact ⟨i1, i2, i3⟩
    | some jd =>
      obtain ⟨job, ds⟩ := jd
      obtain ⟨ord, fresh, htag, hst, hk⟩ := hsome job ds rfl
      simp only [Option.toList_some, List.map_cons, List.map_nil, htag]
      refine ⟨?_, ?_, ?_⟩
      · apply Tagged.append _ i1
        intro e he
        simp only [List.mem_singleton] at he
        subst he
        exact hst
      · rcases hk with ⟨hf, ho, hsp, _⟩ | ⟨hf, hsp, _⟩
        · subst hf
          rw [freshOrds_append]
          simp only [freshOrds, List.filter_cons, List.filter_nil, ↓reduceIte, List.map_cons,
            List.map_nil, List.singleton_append, List.length_cons]
          rw [ho, List.range'_succ]
          congr 1
          have := i2
          rw [hsp] at this
          simpa [freshOrds] using this
        · subst hf
          rw [freshOrds_append]
          simp only [freshOrds, List.filter_cons, List.filter_nil, Bool.false_eq_true, ↓reduceIte,
            List.map_nil, List.nil_append]
          have := i2
          rw [hsp] at this
          simpa [freshOrds] using this
      · rcases hk with ⟨hf, _, _, hl⟩ | ⟨hf, _, hl⟩
        · subst hf
          rw [reissueOrds_append]
          simp only [reissueOrds, List.filter_cons, List.filter_nil, Bool.not_true, Bool.false_eq_true,
            ↓reduceIte, List.map_nil, List.nil_append]
          rcases hl with hl | hl
          · rw [← hl]; exact i3
          · rw [hl] at i3
            exact i3.trans (List.tail_sublist _)
        · subst hf
          rw [reissueOrds_append, hl]
          simp only [reissueOrds, List.filter_cons, List.filter_nil, Bool.not_false, ↓reduceIte,
            List.map_cons, List.map_nil, List.singleton_append]
          exact List.Sublist.cons_cons _ i3

/-- with no ordinal on record (a fresh start) every entry is a fresh job and the `k`-th entry has the
    ordinal `spawned + k` -/
theorem ghost_ords_of_no_record (evs : List Ev) (y : Sys) (h0 : y.s.locked0Ord = []) :
    (∀ e ∈ ghost y evs, e.fresh = true) ∧
    (ghost y evs).map (·.ord) = List.range' y.s.spawned (ghost y evs).length := by
  obtain ⟨_, h2, h3⟩ := ghost_spec evs y
  rw [h0] at h3
  have hnil : reissueOrds (ghost y evs) = [] := by
    have := List.eq_nil_of_sublist_nil h3
    simpa using this
  have hall : ∀ e ∈ ghost y evs, e.fresh = true := by
    intro e he
    cases hf : e.fresh with
    | true => rfl
    | false =>
      exfalso
      have : e.ord ∈ reissueOrds (ghost y evs) := by
        unfold reissueOrds
        exact List.mem_map.mpr ⟨e, List.mem_filter.mpr ⟨he, by simp [hf]⟩, rfl⟩
      rw [hnil] at this
      simp at this
  have hfil : (ghost y evs).filter (·.fresh) = ghost y evs :=
    List.filter_eq_self.mpr hall
  refine ⟨hall, ?_⟩
  unfold freshOrds at h2
  rw [hfil] at h2
  rw [List.length_map] at h2
  exact h2

/-- the seed and entropy never change along a history; the spawn counter counts the fresh jobs -/
theorem run_spawned : ∀ (evs : List Ev) {y y' : Sys}, run y evs = .ok y' →
    y'.s.seed = y.s.seed ∧ y'.s.entropy = y.s.entropy ∧
      y'.s.spawned = y.s.spawned + (freshOrds (ghost y evs)).length ∧
      y'.s.locked0Ord.Sublist y.s.locked0Ord := by
  intro evs
  induction evs with
  | nil =>
    intro y y' h
    simp only [run, Except.ok.injEq] at h
    subst h
    exact ⟨rfl, rfl, by simp [ghost, freshOrds], List.Sublist.refl _⟩
  | cons ev rest ih =>
    intro y y' h
    obtain ⟨y1, oj, hj, hr⟩ := run_cons h
    obtain ⟨h1, h2, hnone, hsome⟩ := sysStepJ_issue hj
    obtain ⟨g1, g2, g3, g4⟩ := ih hr
    refine ⟨g1.trans h1, g2.trans h2, ?_, ?_⟩
    · rw [g3]
      simp only [ghost, hj, freshOrds_append, List.length_append]
      cases oj with
      | none =>
        rw [(hnone rfl).1]
        simp [freshOrds]
      | some jd =>
        obtain ⟨job, ds⟩ := jd
        obtain ⟨ord, fresh, htag, _, hk⟩ := hsome job ds rfl
        simp only [Option.toList_some, List.map_cons, List.map_nil, htag]
        rcases hk with ⟨hf, _, hsp, _⟩ | ⟨hf, hsp, _⟩
        · subst hf; rw [hsp]; simp [freshOrds]; omega
        · subst hf; rw [hsp]; simp [freshOrds]
    · refine g4.trans ?_
      cases oj with
      | none => rw [(hnone rfl).2]; exact List.Sublist.refl _
      | some jd =>
        obtain ⟨job, ds⟩ := jd
        obtain ⟨ord, fresh, _, _, hk⟩ := hsome job ds rfl
        rcases hk with ⟨_, _, _, hl⟩ | ⟨_, _, hl⟩
        · rcases hl with hl | hl
          · rw [hl]; exact List.Sublist.refl _
          · rw [hl]; exact List.tail_sublist _
        · rw [hl]; exact List.sublist_cons_self _ _

/-- the scheduler stream advances by exactly the draw requests of the picks -/
theorem run_mainDraws : ∀ (evs : List Ev) {y y' : Sys}, run y evs = .ok y' → NoRestore y.s →
    NoRestore y'.s ∧ y'.s.mainDraws = y.s.mainDraws + (schedDraws y evs).length := by
  intro evs
  induction evs with
  | nil =>
    intro y y' h hn
    simp only [run, Except.ok.injEq] at h
    subst h
    exact ⟨hn, by simp [schedDraws, ghost]⟩
  | cons ev rest ih =>
    intro y y' h hn
    obtain ⟨y1, oj, hj, hr⟩ := run_cons h
    obtain ⟨hn1, hm1, _⟩ := sysStepJ_draws hj hn
    obtain ⟨hn2, hm2⟩ := ih hr hn1
    refine ⟨hn2, ?_⟩
    rw [hm2, hm1]
    simp only [schedDraws, ghost, hj, List.flatMap_append, List.length_append]
    cases oj with
    | none => simp
    | some jd => simp; omega

/-- every group of requests in the ghost log has one of the three shapes of `pick()` (or is empty:
    a re-issued job draws nothing) -/
theorem ghost_drawShape : ∀ (evs : List Ev) (y : Sys), NoRestore y.s →
    ∀ e ∈ ghost y evs, e.draws = [] ∨ DrawShape e.draws := by
  intro evs
  induction evs with
  | nil => intro y _ e h; simp [ghost] at h
  | cons ev rest ih =>
    intro y hn e he
    simp only [ghost] at he
    split at he
    · simp at he
    rename_i y1 oj hj
    obtain ⟨hn1, _, hsh⟩ := sysStepJ_draws hj hn
    rcases List.mem_append.mp he with hm | hm
    · cases oj with
      | none => simp at hm
      | some x =>
        simp only [Option.toList_some, List.map_cons, List.map_nil, List.mem_singleton] at hm
        subst hm
        exact hsh x.1 x.2 rfl
    · exact ih y1 hn1 e hm

/-- every job in flight at the end was there at the beginning or was issued by the history -/
theorem jobs_subset_issued : ∀ (evs : List Ev) {y y' : Sys}, run y evs = .ok y' →
    ∀ job ∈ y'.jobs, job ∈ y.jobs ∨ job ∈ issued y evs := by
  intro evs
  induction evs with
  | nil =>
    intro y y' h job hm
    simp only [run, Except.ok.injEq] at h
    subst h
    exact Or.inl hm
  | cons ev rest ih =>
    intro y y' h job hm
    obtain ⟨y1, oj, hj, hr⟩ := run_cons h
    have hstep : ∀ job ∈ y1.jobs, job ∈ y.jobs ∨ job ∈ oj.toList.map (·.1) := by
      intro job hm1
      cases ev with
      | start o saved =>
        simp only [sysStepJ] at hj
        generalize initiate y.s = r at hj
        obtain ⟨s1, go⟩ := r
        simp only [] at hj
        split at hj
        · exact absurd hj (by simp)
        split at hj
        · exact absurd hj (by simp)
        simp only [Except.ok.injEq, Prod.mk.injEq] at hj
        obtain ⟨rfl, rfl⟩ := hj
        rcases List.mem_append.mp hm1 with h1 | h1
        · exact Or.inl h1
        · exact Or.inr (by simpa using h1)
      | initDone =>
        simp only [sysStepJ] at hj
        generalize initiate y.s = r at hj
        obtain ⟨s1, go⟩ := r
        simp only [] at hj
        split at hj
        · exact absurd hj (by simp)
        simp only [Except.ok.injEq, Prod.mk.injEq] at hj
        obtain ⟨rfl, rfl⟩ := hj
        exact Or.inl hm1
      | step k status newW o =>
        simp only [sysStepJ] at hj
        generalize loop y.s = r at hj
        obtain ⟨s1, go⟩ := r
        simp only [] at hj
        split at hj
        · exact absurd hj (by simp)
        split at hj
        · exact absurd hj (by simp)
        split at hj
        · exact absurd hj (by simp)
        split at hj
        · split at hj
          · exact absurd hj (by simp)
          simp only [Except.ok.injEq, Prod.mk.injEq] at hj
          obtain ⟨rfl, rfl⟩ := hj
          rcases List.mem_append.mp hm1 with h1 | h1
          · exact Or.inl (List.mem_of_mem_eraseIdx h1)
          · exact Or.inr (by simpa using h1)
        · simp only [Except.ok.injEq, Prod.mk.injEq] at hj
          obtain ⟨rfl, rfl⟩ := hj
          exact Or.inl (List.mem_of_mem_eraseIdx hm1)
    rcases ih hr job hm with h1 | h1
    · rcases hstep job h1 with h2 | h2
      · exact Or.inl h2
      · right
        simp only [issued, ghost, hj, List.map_append, List.mem_append, List.map_map]
        exact Or.inl h2
    · right
      simp only [issued, ghost, hj, List.map_append, List.mem_append]
      exact Or.inr h1


/-- `treat_output` at the completion of job `k`, in terms of the random-stream fields -/
theorem midState_spec {y : Sys} {k : Nat} {status : Status} {newW : List (List Rat)} {s2 : St}
    (h : midState y k status newW = .ok s2) :
    ∃ job, y.jobs[k]? = some job ∧ s2.seed = y.s.seed ∧ s2.entropy = y.s.entropy ∧
      s2.spawned = y.s.spawned ∧ s2.cstep = y.s.cstep + 1 ∧ s2.locked0 = y.s.locked0 ∧
      s2.locked0Ord = y.s.locked0Ord ∧ s2.mainDraws = y.s.mainDraws ∧
      (s2.locked, s2.lockedOrd) = popAll job.picked (y.s.locked, y.s.lockedOrd) := by
  unfold midState at h
  simp only [] at h
  split at h
  · exact absurd h (by simp)
  rename_i job hjob
  split at h
  · exact absurd h (by simp)
  rename_i s2' pns it htreat
  simp only [Except.ok.injEq] at h
  subst h
  obtain ⟨q, hl⟩ := treatOutput_quiet job status newW _ pns it htreat
  exact ⟨job, hjob, q.seed, q.entropy, q.spawned, q.cstep, q.locked0, q.locked0Ord, q.mainDraws, hl⟩

/-! ### the restart image -/

/-- **what a restart rebuilds** (`setup_config` + `__init__` + `set_rgen` + `load_paths`): the seed
    sequence of the configured seed with the spawn counter on record (`current.spawned`), or
    `cstep + #recorded in-flight jobs` when none is on record; the recorded jobs wait in `locked0`
    with their ordinals in `locked0Ord`. -/
theorem restore_spec {im : Image} {n workers tsteps : Nat} {occ : List (List Int)}
    {ensEng : List (List Nat)} {weightOf : Nat → List Rat} {s' : St}
    (h : restore im n workers tsteps occ ensEng weightOf = .ok s') :
    s'.seed = im.seed ∧ s'.entropy = im.seed ∧
      s'.spawned = im.spawnedRec.getD (im.cstep + im.locked.length) ∧
      s'.cstep = im.cstep ∧ s'.locked = [] ∧ s'.lockedOrd = [] ∧ s'.locked0 = im.locked ∧
      s'.locked0Ord = im.lockedOrd.map some ∧ s'.restarted = true ∧ s'.rgenRestored = false := by
  unfold restore at h
  simp only [] at h
  obtain ⟨q, ql, qo⟩ := loadPaths_quiet h
  exact ⟨q.seed, q.entropy, q.spawned, q.cstep, ql, qo, q.locked0, q.locked0Ord, q.restarted, q.rgenRestored⟩

theorem persist_fields (s : St) : (persist s).seed = s.seed ∧ (persist s).cstep = s.cstep ∧
    (persist s).locked.length = s.locked.length ∧ (persist s).rngDraws = s.mainDraws ∧
    (persist s).lockedOrd = s.lockedOrd ∧ (persist s).spawnedRec = spawnedKey s := by
  simp [persist]

/-- **a restart continues the spawn counter, always**: `write_toml` records the counter whenever it
    is not `cstep + #locked`, so the restarted sampler continues the same seed sequence at the same
    counter — whatever was or was not re-issued before the stop — and the ordinals on record wait in
    `locked0Ord` -/
theorem restore_continues {s s' : St} {n workers tsteps : Nat} {occ : List (List Int)}
    {ensEng : List (List Nat)} {weightOf : Nat → List Rat}
    (h : restore (persist s) n workers tsteps occ ensEng weightOf = .ok s') :
    s'.seed = s.seed ∧ s'.entropy = s.seed ∧ s'.spawned = s.spawned ∧ s'.locked = [] ∧
      s'.lockedOrd = [] ∧ s'.locked0.length = s.locked.length ∧ s'.cstep = s.cstep ∧
      s'.locked0Ord = s.lockedOrd.map some := by
  obtain ⟨h1, h2, h3, h4, h5, h5', h6, h7, _, _⟩ := restore_spec h
  obtain ⟨p1, p2, p3, _, p5, p6⟩ := persist_fields s
  refine ⟨h1.trans p1, h2.trans p1, ?_, h5, h5', by rw [h6, p3], h4.trans p2, by rw [h7, p5]⟩
  rw [h3, p2, p3, p6]
  unfold spawnedKey
  split
  · rename_i hc; simp [hc]
  · simp

end Infretis.Repex
