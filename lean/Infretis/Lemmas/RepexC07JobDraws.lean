import Infretis.Model.JobDraws
import Infretis.Lemmas.RepexC07Eng
/-!
# C07 — the draws of one job (Model/JobDraws.lean): helper lemmas

* the traced moves project onto the shared move models (`shootEvs_draws`, `wfJumpsT_spec`, `wfEvs_draws`);
* the request of C16's velocity model has the stream tag / method `velRequest` reads off (`velRequest_spec`);
* every resolved request of `runJob` is on a move stream or an engine stream of the job's own picked entries,
  or is gmx's own velocity generation (`runJob_src`); the job never fails for want of a generator
  (`runJob_ne_noRgen`); the trace does not depend on what the engine objects held before (`runJob_tbl_indep`);
* positions of requests on their sources are pairwise distinct (`positions_nodup`, `seedInputs_nodup`).
-/
namespace Infretis.JobDraws
open Infretis.Repex

/-! ### the velocity request of C16's model -/

theorem velRequest_spec (k : EngKind) (s : Vel.Setup) (hs : s.engine = k.velEngine) (src : Vel.Frame)
    (ek : Option Rat) (zm : Option Bool) (sig : List Rat) (z : List (List Rat)) :
    (Vel.modifyVelocities Vel.codeVariant Vel.codeVariant s src ek zm sig z).request.stream = (velRequest k).1 ∧
    (Vel.modifyVelocities Vel.codeVariant Vel.codeVariant s src ek zm sig z).request.method = (velRequest k).2 ∧
    (velRequest k).1 = Vel.Stream.engineRgen := by
  cases k <;>
    simp [velRequest, Vel.modifyVelocities, Vel.modifyAse, Vel.modifyNumpy, Vel.codeVariant, EngKind.velEngine, hs] <;>
    (simp [EngKind.velEngine] at hs; simp [hs])

theorem velRequest_method (k : EngKind) :
    (velRequest k).2 = (match k with | .ase _ => "standard_normal" | _ => "normal") := by
  cases k <;> rfl

/-! ### projection of the traced moves onto the move models -/

/-- the requests a list of events makes on move streams -/
def drawsOf (evs : List Ev) : List What :=
  evs.filterMap (fun ev => match ev with | .draw _ w => some w | .eng _ _ => none)

theorem drawsOf_append (a b : List Ev) : drawsOf (a ++ b) = drawsOf a ++ drawsOf b := by
  simp [drawsOf, List.filterMap_append]

theorem drawsOf_draws (ens : Int) (l : List Moves.Draw) :
    drawsOf (l.map (fun d => Ev.draw ens (ofMovesDraw d))) = l.map ofMovesDraw := by
  induction l with
  | nil => rfl
  | cons a t ih =>
    simp only [List.map_cons, drawsOf, List.filterMap_cons]
    exact congrArg _ ih

theorem shootEvs_draws (ens slot : Int) (o : Moves.ShootOut) :
    drawsOf (shootEvs ens slot o) = o.draws.map ofMovesDraw := by
  unfold shootEvs
  cases hd : o.draws with
  | nil => rfl
  | cons d1 rest =>
    simp only [drawsOf_append, drawsOf_draws]
    have e1 : drawsOf [Ev.draw ens (ofMovesDraw d1), Ev.eng slot .modvel] = [ofMovesDraw d1] := rfl
    have e2 : drawsOf (if o.usedB > 0 then [Ev.eng slot (.propagate true)] else []) = [] := by
      split <;> rfl
    have e3 : drawsOf (if o.usedF > 0 then [Ev.eng slot (.propagate false)] else []) = [] := by
      split <;> rfl
    rw [e1, e2, e3]
    simp

/-- every move-stream request of a shoot is an `integers` or a `random` -/
def PlainWhat (w : What) : Prop := w = .random ∨ ∃ lo hi, w = .integers lo hi

theorem ofMovesDraw_plain (d : Moves.Draw) : PlainWhat (ofMovesDraw d) := by
  cases d with
  | integers lo hi => exact Or.inr ⟨lo, hi, rfl⟩
  | random => exact Or.inl rfl

/-- all `draw` events of a list are plain requests -/
def PlainEvs (evs : List Ev) : Prop := ∀ ens w, Ev.draw ens w ∈ evs → PlainWhat w

theorem PlainEvs.append {a b : List Ev} (ha : PlainEvs a) (hb : PlainEvs b) : PlainEvs (a ++ b) := by
  intro ens w h
  rcases List.mem_append.mp h with h | h
  · exact ha ens w h
  · exact hb ens w h

theorem shootEvs_plain (ens slot : Int) (o : Moves.ShootOut) : PlainEvs (shootEvs ens slot o) := by
  intro e w h
  unfold shootEvs at h
  cases hd : o.draws with
  | nil => rw [hd] at h; simp at h
  | cons d1 rest =>
    rw [hd] at h
    dsimp only at h
    rcases List.mem_append.mp h with h | h
    · rcases List.mem_append.mp h with h | h
      · rcases List.mem_append.mp h with h | h
        · simp only [List.mem_cons, List.not_mem_nil, or_false] at h
          rcases h with h | h
          · injection h with _ h2; rw [h2]; exact ofMovesDraw_plain d1
          · cases h
        · obtain ⟨d, _, hd'⟩ := List.mem_map.mp h
          injection hd' with _ h2; rw [← h2]; exact ofMovesDraw_plain d
      · split at h <;> simp at h
    · split at h <;> simp at h

/-- `wfJumpsT` runs the recursion of `Moves.wfJumps`: same errors, same segment, and its move-stream requests are
    the draws `Moves.wfJumps` reports -/
theorem wfJumpsT_spec (v : Moves.Variant) (i : Moves.WfIn) (ens slot : Int) :
    ∀ (n : Nat) (js : List Moves.WfJump) (seg : List Int) (to : Int) (succ : Nat) (d : List Moves.Draw)
      (evs : List Ev), drawsOf evs = d.map ofMovesDraw → PlainEvs evs →
      match Moves.wfJumps v i n js seg to succ d with
      | .error e => wfJumpsT v i ens slot n js seg to succ evs = .error e
      | .ok (seg', to', succ', d') =>
        ∃ evs', wfJumpsT v i ens slot n js seg to succ evs = .ok (seg', to', succ', evs') ∧
          drawsOf evs' = d'.map ofMovesDraw ∧ PlainEvs evs' := by
  intro n
  induction n with
  | zero =>
    intro js seg to succ d evs h hp
    simp only [Moves.wfJumps, wfJumpsT]
    exact ⟨evs, rfl, h, hp⟩
  | succ n ih =>
    intro js seg to succ d evs h hp
    cases js with
    | nil => simp only [Moves.wfJumps, wfJumpsT]
    | cons j js =>
      simp only [Moves.wfJumps, wfJumpsT]
      cases hs : Moves.shoot v (Moves.subShootIn i seg to j) with
      | error e => simp only
      | ok o =>
        simp only
        have hd : drawsOf (evs ++ shootEvs ens slot o) = (d ++ o.draws).map ofMovesDraw := by
          rw [drawsOf_append, h, shootEvs_draws, List.map_append]
        have hp' : PlainEvs (evs ++ shootEvs ens slot o) := hp.append (shootEvs_plain ens slot o)
        by_cases ha : o.accept = true
        · rw [if_pos ha, if_pos ha]
          exact ih js o.trial o.timeOrigin (succ + 1) (d ++ o.draws) _ hd hp'
        · rw [if_neg ha, if_neg ha]
          exact ih js seg to succ (d ++ o.draws) _ hd hp'

theorem extenderEvs_draws (v : Moves.Variant) (i : Moves.WfIn) (slot : Int) (seg : List Int) :
    drawsOf (extenderEvs v i slot seg) = [] ∧ PlainEvs (extenderEvs v i slot seg) := by
  unfold extenderEvs
  cases seg.head? with
  | none => exact ⟨rfl, fun _ _ h => by simp at h⟩
  | some first =>
    simp only
    constructor
    · rw [drawsOf_append]
      have e1 : ∀ b : Bool, drawsOf (if b = true then [Ev.eng slot (.propagate true)] else []) = [] := by
        intro b; cases b <;> rfl
      rw [e1]
      split
      · rfl
      · split <;> rfl
    · intro e w h
      rcases List.mem_append.mp h with h | h
      · split at h <;> simp at h
      · split at h
        · simp at h
        · split at h <;> simp at h

/-- whenever `Moves.wireFencing` returns, `wfEvs` returns too, and its move-stream requests are exactly the
    draw list of the move model -/
theorem wfEvs_draws (v : Moves.Variant) (i : Moves.WfIn) (ens slot : Int) (o : Moves.WfOut)
    (h : Moves.wireFencing v i = .ok o) :
    ∃ evs, wfEvs v i ens slot = .ok evs ∧ drawsOf evs = o.draws.map ofMovesDraw ∧ PlainEvs evs := by
  unfold Moves.wireFencing at h
  unfold wfEvs
  simp only at h
  by_cases hw : WF.weight i.m (Moves.capOf i) i.old = 0
  · rw [if_pos hw] at h
    rw [if_pos hw]
    injection h with h
    exact ⟨[], rfl, by rw [← h]; rfl, fun _ _ hm => by simp at hm⟩
  · rw [if_neg hw] at h
    rw [if_neg hw]
    have hplain : PlainEvs [Ev.draw ens .random] := by
      intro e w hm
      simp only [List.mem_singleton] at hm
      injection hm with _ h2
      exact Or.inl h2
    have hspec := wfJumpsT_spec v i ens slot i.nJumps i.jumps (wfSeg0 i) i.oldTimeOrigin 0 [.random]
      [Ev.draw ens .random] rfl hplain
    split at h
    · cases h
    · rename_i seg segTO succ draws heq
      have hj : Moves.wfJumps v i i.nJumps i.jumps (wfSeg0 i) i.oldTimeOrigin 0 [.random]
          = .ok (seg, segTO, succ, draws) := heq
      rw [hj] at hspec
      obtain ⟨evs', he, hd, hp⟩ := hspec
      rw [he]
      simp only at h ⊢
      by_cases hs : succ = 0
      · rw [if_pos hs] at h
        rw [if_pos hs]
        injection h with h
        exact ⟨evs', rfl, by rw [← h]; exact hd, hp⟩
      · rw [if_neg hs] at h
        rw [if_neg hs]
        refine ⟨_, rfl, ?_, hp.append (extenderEvs_draws v i slot seg).2⟩
        rw [drawsOf_append, (extenderEvs_draws v i slot seg).1, List.append_nil, hd]
        -- every remaining branch returns `draws := draws`
        have : o.draws = draws := by
          repeat' split at h
          all_goals first
            | (injection h with h; rw [← h])
            | (exact absurd h (by simp))
        rw [this]

/-! ### resolution: which generator a request reaches -/

theorem pickedOf_mem {picked : List Picked} {ens : Int} {p : Picked} (h : pickedOf picked ens = some p) :
    p ∈ picked := List.mem_of_find?_eq_some h

theorem slotEntry_mem {picked : List Picked} {single : Bool} {slot : Int} {p : Picked}
    (h : slotEntry picked single slot = some p) : p ∈ picked := by
  unfold slotEntry at h
  split at h
  · split at h
    · exact List.mem_of_mem_head? h
    · cases h
  · exact pickedOf_mem h

/-- the draws of one engine call: on `engine.rgen`, or (ASE without it) on numpy's global state, or gmx's own -/
theorem engDraws_src {k : EngKind} {c : EngCall} {r : Option Stream} {ds : List TDraw}
    (h : engDraws k c r = .ok ds) {d : TDraw} (hd : d ∈ ds) :
    (∃ s, r = some s ∧ d.src = .stream s) ∨ (r = none ∧ d.src = .numpyGlobal) ∨
      (d.src = .external ∧ d.what = .genvel) := by
  rcases k with (_|_) | _ | _ | _ | (_|_) <;> rcases c with _ | _ | _ <;> rcases r with _ | s <;>
    simp only [engDraws, modvelDraws, propagateDraws] at h <;> cases h <;> simp at hd <;> subst hd <;> simp

/-- a seed is always drawn on `engine.rgen` -/
theorem engDraws_seed {k : EngKind} {c : EngCall} {r : Option Stream} {ds : List TDraw}
    (h : engDraws k c r = .ok ds) {d : TDraw} (hd : d ∈ ds) {hi : Int} (hw : d.what = .seed hi) :
    ∃ s, r = some s ∧ d.src = .stream s := by
  rcases k with (_|_) | _ | _ | _ | (_|_) <;> rcases c with _ | _ | _ <;> rcases r with _ | s <;>
    simp only [engDraws, modvelDraws, propagateDraws] at h <;> cases h <;> simp at hd <;> subst hd <;>
    first
      | (exact ⟨_, rfl, rfl⟩)
      | (exfalso; simp only [methodWhat] at hw; split at hw <;> cases hw)
      | (exfalso; cases hw)

/-- an engine call fails only for want of a generator, and only when the object has none -/
theorem engDraws_error {k : EngKind} {c : EngCall} {r : Option Stream} {e : Err}
    (h : engDraws k c r = .error e) : e = .noRgen ∧ r = none := by
  rcases k with (_|_) | _ | _ | _ | (_|_) <;> rcases c with _ | _ | _ <;> rcases r with _ | s <;>
    simp only [engDraws, modvelDraws, propagateDraws] at h <;> cases h <;> exact ⟨rfl, rfl⟩

theorem resolveEv_eng_ok {kinds : List EngKind} {tbl : EngTbl} {picked : List Picked} {single : Bool}
    {slot : Int} {c : EngCall} {ds : List TDraw}
    (h : resolveEv kinds tbl picked single (.eng slot c) = .ok ds) :
    ∃ p obj k, slotEntry picked single slot = some p ∧ p.engIdx.head? = some obj ∧ kinds[obj.1]? = some k ∧
      engDraws k c (engRgen tbl obj) = .ok ds := by
  simp only [resolveEv] at h
  cases hp : slotEntry picked single slot with
  | none => rw [hp] at h; cases h
  | some p =>
    rw [hp] at h
    dsimp only at h
    cases ho : p.engIdx.head? with
    | none => rw [ho] at h; cases h
    | some obj =>
      rw [ho] at h
      dsimp only at h
      cases hk : kinds[obj.1]? with
      | none => rw [hk] at h; cases h
      | some k =>
        rw [hk] at h
        exact ⟨p, obj, k, rfl, ho, hk, h⟩

theorem resolveEv_eng_noRgen {kinds : List EngKind} {tbl : EngTbl} {picked : List Picked} {single : Bool}
    {slot : Int} {c : EngCall}
    (h : resolveEv kinds tbl picked single (.eng slot c) = .error .noRgen) :
    ∃ p obj, slotEntry picked single slot = some p ∧ p.engIdx.head? = some obj ∧ engRgen tbl obj = none := by
  simp only [resolveEv] at h
  cases hp : slotEntry picked single slot with
  | none => rw [hp] at h; cases h
  | some p =>
    rw [hp] at h
    dsimp only at h
    cases ho : p.engIdx.head? with
    | none => rw [ho] at h; cases h
    | some obj =>
      rw [ho] at h
      dsimp only at h
      cases hk : kinds[obj.1]? with
      | none => rw [hk] at h; cases h
      | some k =>
        rw [hk] at h
        exact ⟨p, obj, rfl, ho, (engDraws_error h).2⟩

/-- what one resolved request can be, for an arbitrary engine table -/
theorem resolveEv_src {kinds : List EngKind} {tbl : EngTbl} {picked : List Picked} {single : Bool}
    {ev : Ev} {ds : List TDraw} (h : resolveEv kinds tbl picked single ev = .ok ds) {d : TDraw} (hd : d ∈ ds) :
    (∃ p ∈ picked, ∃ ens, ev = .draw ens d.what ∧ d.src = .stream p.rgen) ∨
    (∃ p ∈ picked, ∃ obj ∈ p.engIdx, ∃ slot c, ev = .eng slot c ∧
        ((∃ s, engRgen tbl obj = some s ∧ d.src = .stream s) ∨
         (engRgen tbl obj = none ∧ d.src = .numpyGlobal) ∨
         (d.src = .external ∧ d.what = .genvel))) := by
  cases ev with
  | draw ens w =>
    simp only [resolveEv] at h
    cases hp : pickedOf picked ens with
    | none => rw [hp] at h; cases h
    | some p =>
      rw [hp] at h
      cases h
      simp only [List.mem_singleton] at hd
      subst hd
      exact Or.inl ⟨p, pickedOf_mem hp, ens, rfl, rfl⟩
  | eng slot c =>
    obtain ⟨p, obj, k, hp, ho, _, he⟩ := resolveEv_eng_ok h
    exact Or.inr ⟨p, slotEntry_mem hp, obj, List.mem_of_mem_head? ho, slot, c, rfl, engDraws_src he hd⟩

/-- a seed request is made on `engine.rgen` of an engine object of the job -/
theorem resolveEv_seed {kinds : List EngKind} {tbl : EngTbl} {picked : List Picked} {single : Bool}
    {ev : Ev} {ds : List TDraw} (h : resolveEv kinds tbl picked single ev = .ok ds) {d : TDraw} (hd : d ∈ ds)
    (hpl : ∀ ens w, ev = .draw ens w → PlainWhat w) (hi : Int) (hw : d.what = .seed hi) :
    ∃ p ∈ picked, ∃ obj ∈ p.engIdx, ∃ s, engRgen tbl obj = some s ∧ d.src = .stream s := by
  cases ev with
  | draw ens w =>
    exfalso
    simp only [resolveEv] at h
    cases hp : pickedOf picked ens with
    | none => rw [hp] at h; cases h
    | some p =>
      rw [hp] at h
      cases h
      simp only [List.mem_singleton] at hd
      subst hd
      rcases hpl ens w rfl with h1 | ⟨_, _, h1⟩ <;> (dsimp only at hw; rw [h1] at hw; cases hw)
  | eng slot c =>
    obtain ⟨p, obj, k, hp, ho, _, he⟩ := resolveEv_eng_ok h
    obtain ⟨s, hs, hsrc⟩ := engDraws_seed he hd hw
    exact ⟨p, slotEntry_mem hp, obj, List.mem_of_mem_head? ho, s, hs, hsrc⟩

theorem resolveAll_mem {kinds : List EngKind} {tbl : EngTbl} {picked : List Picked} {single : Bool} :
    ∀ {evs : List Ev} {tr : List TDraw}, resolveAll kinds tbl picked single evs = .ok tr →
    ∀ d ∈ tr, ∃ ev ∈ evs, ∃ ds, resolveEv kinds tbl picked single ev = .ok ds ∧ d ∈ ds := by
  intro evs
  induction evs with
  | nil =>
    intro tr h d hd
    simp only [resolveAll] at h
    injection h with h
    rw [← h] at hd
    simp at hd
  | cons ev rest ih =>
    intro tr h d hd
    simp only [resolveAll] at h
    cases h1 : resolveEv kinds tbl picked single ev with
    | error e => rw [h1] at h; cases h
    | ok ds =>
      rw [h1] at h
      simp only at h
      cases h2 : resolveAll kinds tbl picked single rest with
      | error e => rw [h2] at h; cases h
      | ok r =>
        rw [h2] at h
        injection h with h
        rw [← h] at hd
        rcases List.mem_append.mp hd with hd | hd
        · exact ⟨ev, List.mem_cons_self .., ds, h1, hd⟩
        · obtain ⟨ev', hev', ds', hr', hd'⟩ := ih h2 d hd
          exact ⟨ev', List.mem_cons_of_mem _ hev', ds', hr', hd'⟩

/-- an error of `resolveAll` is the error of one of its events -/
theorem resolveAll_error {kinds : List EngKind} {tbl : EngTbl} {picked : List Picked} {single : Bool} :
    ∀ {evs : List Ev} {e : Err}, resolveAll kinds tbl picked single evs = .error e →
    ∃ ev ∈ evs, resolveEv kinds tbl picked single ev = .error e := by
  intro evs
  induction evs with
  | nil => intro e h; simp [resolveAll] at h
  | cons ev rest ih =>
    intro e h
    simp only [resolveAll] at h
    cases h1 : resolveEv kinds tbl picked single ev with
    | error e1 =>
      rw [h1] at h
      injection h with h
      exact ⟨ev, List.mem_cons_self .., by rw [h1, h]⟩
    | ok ds =>
      rw [h1] at h
      simp only at h
      cases h2 : resolveAll kinds tbl picked single rest with
      | error e2 =>
        rw [h2] at h
        injection h with h
        obtain ⟨ev', hev', hr'⟩ := ih h2
        exact ⟨ev', List.mem_cons_of_mem _ hev', by rw [hr', h]⟩
      | ok r => rw [h2] at h; cases h

/-- `resolveEv` fails for want of a generator only on an engine object of the job without `rgen` -/
theorem resolveEv_noRgen {kinds : List EngKind} {tbl : EngTbl} {picked : List Picked} {single : Bool} {ev : Ev}
    (h : resolveEv kinds tbl picked single ev = .error .noRgen) :
    ∃ p ∈ picked, ∃ obj ∈ p.engIdx, engRgen tbl obj = none := by
  cases ev with
  | draw ens w =>
    simp only [resolveEv] at h
    cases hp : pickedOf picked ens with
    | none => rw [hp] at h; cases h
    | some p => rw [hp] at h; cases h
  | eng slot c =>
    obtain ⟨p, obj, hp, ho, hn⟩ := resolveEv_eng_noRgen h
    exact ⟨p, slotEntry_mem hp, obj, List.mem_of_mem_head? ho, hn⟩

/-- the events of a move never carry the "no generator" error and only make plain requests on move streams -/
theorem moveEvs_spec {v : Moves.Variant} {picked : List Picked} {mv : MoveIn} :
    moveEvs v picked mv ≠ .error .noRgen ∧
    ∀ acc st evs, moveEvs v picked mv = .ok (acc, st, evs) → PlainEvs evs := by
  have hswap : ∀ n, PlainEvs (swapDraws n) := by
    intro n e w h
    simp only [swapDraws, List.mem_replicate] at h
    injection h.2 with _ h2
    exact Or.inl h2
  have hreq : ∀ l : List ZeroSwap.Req, PlainEvs (l.map reqEv) := by
    intro l e w h
    obtain ⟨r, _, hr⟩ := List.mem_map.mp h
    cases r <;> simp [reqEv] at hr
  constructor
  · intro h
    unfold moveEvs at h
    repeat' split at h
    all_goals simp at h
  · intro acc st evs h
    unfold moveEvs at h
    split at h
    · -- [p], sh
      split at h
      · cases h
      · injection h with h; injection h with _ h; injection h with _ h
        rw [← h]; exact shootEvs_plain _ _ _
    · -- [p], wf
      rename_i p i
      split at h
      · cases h
      · rename_i o ho
        obtain ⟨evs', he, _, hp⟩ := wfEvs_draws v i p.ens 0 o ho
        rw [he] at h
        injection h with h; injection h with _ h; injection h with _ h
        rw [← h]; exact hp
    · cases h
    · split at h
      · cases h
      · split at h
        · cases h
        · injection h with h; injection h with _ h; injection h with _ h
          rw [← h]; exact (hreq _).append (hswap _)
    · split at h
      · cases h
      · split at h
        · cases h
        · injection h with h; injection h with _ h; injection h with _ h
          rw [← h]; exact ((hreq _).append (hswap _)).append (hreq _)
    · cases h
    · cases h

/-! ### the job -/

/-- **every resolved request of a job** is made on a move stream or on an engine stream of the job's own picked
    entries (a move-stream request is an `integers` or a `random`), or is gmx's own velocity generation -/
theorem runJob_src {v : Moves.Variant} {kinds : List EngKind} {tbl : EngTbl} {picked : List Picked} {mv : MoveIn}
    {out : JobOut} (h : runJob v kinds tbl picked mv = .ok out) :
    ∀ d ∈ out.trace,
      (∃ p ∈ picked, d.src = .stream p.rgen ∧ PlainWhat d.what) ∨
      (∃ q ∈ picked, d.src = .stream q.rgenEng) ∨
      (d.src = .external ∧ d.what = .genvel) := by
  intro d hd
  unfold runJob at h
  simp only at h
  cases hm : moveEvs v picked mv with
  | error e => rw [hm] at h; cases h
  | ok r =>
    obtain ⟨acc, st, evs⟩ := r
    rw [hm] at h
    simp only at h
    cases hr : resolveAll kinds (assignEngineStreams tbl picked) picked (picked.length == 1) evs with
    | error e => rw [hr] at h; cases h
    | ok tr =>
      rw [hr] at h
      injection h with h
      rw [← h] at hd
      simp only at hd
      obtain ⟨ev, hev, ds, hres, hdd⟩ := resolveAll_mem hr d hd
      rcases resolveEv_src hres hdd with ⟨p, hp, ens, hev', hsrc⟩ | ⟨p, hp, obj, ho, slot, c, _, hc⟩
      · left
        refine ⟨p, hp, hsrc, ?_⟩
        rw [hev'] at hev
        exact (moveEvs_spec.2 acc st evs hm) ens d.what hev
      · obtain ⟨q, hq, _, hval⟩ := assign_job_stream picked tbl obj ⟨p, hp, ho⟩
        rcases hc with ⟨s, hs, hsrc⟩ | ⟨hn, _⟩ | hg
        · rw [hval] at hs
          injection hs with hs
          right; left
          exact ⟨q, hq, by rw [hsrc, hs]⟩
        · rw [hval] at hn; cases hn
        · right; right; exact hg

/-- the seeds handed to MD programs / integrators are drawn on ENGINE streams of the job -/
theorem runJob_seed {v : Moves.Variant} {kinds : List EngKind} {tbl : EngTbl} {picked : List Picked} {mv : MoveIn}
    {out : JobOut} (h : runJob v kinds tbl picked mv = .ok out) :
    ∀ d ∈ out.trace, ∀ hi, d.what = .seed hi → ∃ q ∈ picked, d.src = .stream q.rgenEng := by
  intro d hd hi hw
  unfold runJob at h
  simp only at h
  cases hm : moveEvs v picked mv with
  | error e => rw [hm] at h; cases h
  | ok r =>
    obtain ⟨acc, st, evs⟩ := r
    rw [hm] at h
    simp only at h
    cases hr : resolveAll kinds (assignEngineStreams tbl picked) picked (picked.length == 1) evs with
    | error e => rw [hr] at h; cases h
    | ok tr =>
      rw [hr] at h
      injection h with h
      rw [← h] at hd
      simp only at hd
      obtain ⟨ev, hev, ds, hres, hdd⟩ := resolveAll_mem hr d hd
      have hpl : ∀ ens w, ev = .draw ens w → PlainWhat w := by
        intro ens w he
        rw [he] at hev
        exact (moveEvs_spec.2 acc st evs hm) ens w hev
      obtain ⟨p, hp, obj, ho, s, hs, hsrc⟩ := resolveEv_seed hres hdd hpl hi hw
      obtain ⟨q, hq, _, hval⟩ := assign_job_stream picked tbl obj ⟨p, hp, ho⟩
      rw [hval] at hs
      injection hs with hs
      exact ⟨q, hq, by rw [hsrc, hs]⟩

/-- after the set-up of `select_shoot` **no job fails for want of a generator**, whatever the engine objects
    held before -/
theorem runJob_ne_noRgen (v : Moves.Variant) (kinds : List EngKind) (tbl : EngTbl) (picked : List Picked)
    (mv : MoveIn) : runJob v kinds tbl picked mv ≠ .error .noRgen := by
  intro h
  unfold runJob at h
  simp only at h
  cases hm : moveEvs v picked mv with
  | error e =>
    rw [hm] at h
    injection h with h
    rw [h] at hm
    exact moveEvs_spec.1 hm
  | ok r =>
    obtain ⟨acc, st, evs⟩ := r
    rw [hm] at h
    simp only at h
    cases hr : resolveAll kinds (assignEngineStreams tbl picked) picked (picked.length == 1) evs with
    | ok tr => rw [hr] at h; cases h
    | error e =>
      rw [hr] at h
      injection h with h
      rw [h] at hr
      obtain ⟨ev, _, hres⟩ := resolveAll_error hr
      obtain ⟨p, hp, obj, ho, hn⟩ := resolveEv_noRgen hres
      obtain ⟨q, _, _, hval⟩ := assign_job_stream picked tbl obj ⟨p, hp, ho⟩
      rw [hval] at hn
      cases hn

/-- what an engine object of the job holds after the set-up depends on the job only -/
theorem assign_indep : ∀ (picked : List Picked) (tbl1 tbl2 : EngTbl) (e : EngObj),
    (∃ p ∈ picked, e ∈ p.engIdx) →
    engRgen (assignEngineStreams tbl1 picked) e = engRgen (assignEngineStreams tbl2 picked) e := by
  intro picked
  induction picked with
  | nil => intro _ _ e h; obtain ⟨p, hp, _⟩ := h; simp at hp
  | cons p rest ih =>
    intro tbl1 tbl2 e h
    by_cases hr : ∃ q ∈ rest, e ∈ q.engIdx
    · have := ih (assignOne tbl1 p) (assignOne tbl2 p) e hr
      unfold assignEngineStreams at this ⊢
      rw [List.foldl_cons, List.foldl_cons]
      exact this
    · have hnone : ∀ q ∈ rest, e ∉ q.engIdx := fun q hq he => hr ⟨q, hq, he⟩
      obtain ⟨p', hp', he'⟩ := h
      have hp : e ∈ p.engIdx := by
        rcases List.mem_cons.mp hp' with h1 | h1
        · rw [← h1]; exact he'
        · exact absurd he' (hnone p' h1)
      have h1 := assign_last [] rest p tbl1 e hp hnone
      have h2 := assign_last [] rest p tbl2 e hp hnone
      simp only [List.nil_append] at h1 h2
      rw [h1, h2]

theorem resolveEv_indep {kinds : List EngKind} {tbl1 tbl2 : EngTbl} {picked : List Picked} {single : Bool}
    (ev : Ev) :
    resolveEv kinds (assignEngineStreams tbl1 picked) picked single ev =
      resolveEv kinds (assignEngineStreams tbl2 picked) picked single ev := by
  cases ev with
  | draw ens w => rfl
  | eng slot c =>
    simp only [resolveEv]
    cases hp : slotEntry picked single slot with
    | none => rfl
    | some p =>
      simp only
      cases ho : p.engIdx.head? with
      | none => rfl
      | some obj =>
        simp only
        rw [assign_indep picked tbl1 tbl2 obj ⟨p, slotEntry_mem hp, List.mem_of_mem_head? ho⟩]

theorem resolveAll_indep {kinds : List EngKind} {tbl1 tbl2 : EngTbl} {picked : List Picked} {single : Bool} :
    ∀ evs : List Ev, resolveAll kinds (assignEngineStreams tbl1 picked) picked single evs =
      resolveAll kinds (assignEngineStreams tbl2 picked) picked single evs := by
  intro evs
  induction evs with
  | nil => rfl
  | cons ev rest ih => simp only [resolveAll]; rw [resolveEv_indep ev, ih]

/-- what a job draws, and on which streams, does **not depend on what the engine objects held before**
    (generators of earlier jobs, or nothing) -/
theorem runJob_tbl_indep (v : Moves.Variant) (kinds : List EngKind) (tbl1 tbl2 : EngTbl) (picked : List Picked)
    (mv : MoveIn) :
    (match runJob v kinds tbl1 picked mv, runJob v kinds tbl2 picked mv with
     | .ok o1, .ok o2 => o1.accept = o2.accept ∧ o1.status = o2.status ∧ o1.evs = o2.evs ∧ o1.trace = o2.trace
     | .error e1, .error e2 => e1 = e2
     | _, _ => False) := by
  unfold runJob
  simp only
  cases hm : moveEvs v picked mv with
  | error e => simp only
  | ok r =>
    obtain ⟨acc, st, evs⟩ := r
    simp only
    rw [resolveAll_indep (tbl1 := tbl1) (tbl2 := tbl2) evs]
    cases resolveAll kinds (assignEngineStreams tbl2 picked) picked (picked.length == 1) evs with
    | error e => simp only
    | ok tr => exact ⟨rfl, rfl, rfl, rfl⟩

/-! ### positions of requests on their sources -/

theorem countSrc_append (x : Src) (a b : List TDraw) : countSrc x (a ++ b) = countSrc x a + countSrc x b := by
  simp [countSrc, List.filter_append]

theorem positions_ge : ∀ (tr seen : List TDraw) (d : TDraw) (k : Nat), (d, k) ∈ positions seen tr →
    countSrc d.src seen ≤ k := by
  intro tr
  induction tr with
  | nil => intro seen d k h; simp [positions] at h
  | cons a rest ih =>
    intro seen d k h
    simp only [positions, List.mem_cons] at h
    rcases h with h | h
    · injection h with h1 h2; rw [h1, h2]; exact Nat.le_refl _
    · have := ih (seen ++ [a]) d k h
      rw [countSrc_append] at this
      omega

/-- no two requests of a trace have the same (source, position) -/
theorem positions_nodup : ∀ (tr seen : List TDraw),
    ((positions seen tr).map (fun x => (x.1.src, x.2))).Nodup := by
  intro tr
  induction tr with
  | nil => intro seen; simp [positions]
  | cons a rest ih =>
    intro seen
    simp only [positions, List.map_cons, List.nodup_cons]
    refine ⟨?_, ih _⟩
    intro hmem
    obtain ⟨x, hx, hxe⟩ := List.mem_map.mp hmem
    obtain ⟨d, k⟩ := x
    simp only [Prod.mk.injEq] at hxe
    have := positions_ge rest (seen ++ [a]) d k hx
    rw [countSrc_append, hxe.1] at this
    have h1 : countSrc a.src [a] = 1 := by simp [countSrc]
    rw [h1] at this
    omega

theorem positions_mem : ∀ (tr seen : List TDraw) (x : TDraw × Nat), x ∈ positions seen tr → x.1 ∈ tr := by
  intro tr
  induction tr with
  | nil => intro seen x h; simp [positions] at h
  | cons a rest ih =>
    intro seen x h
    simp only [positions, List.mem_cons] at h
    rcases h with h | h
    · rw [h]; exact List.mem_cons_self ..
    · exact List.mem_cons_of_mem _ (ih _ x h)

/-- the derivation inputs (stream, position on it) of the seeds of one job are pairwise distinct -/
theorem seedInputs_nodup (tr : List TDraw) : (seedInputs tr).Nodup := by
  unfold seedInputs
  have hnd := positions_nodup tr []
  generalize positions [] tr = ps at hnd
  induction ps with
  | nil => simp
  | cons x rest ih =>
    simp only [List.map_cons, List.nodup_cons] at hnd
    simp only [List.filterMap_cons]
    split
    · exact ih hnd.2
    · rename_i y hy
      refine List.nodup_cons.mpr ⟨?_, ih hnd.2⟩
      intro hmem
      obtain ⟨z, hz, hze⟩ := List.mem_filterMap.mp hmem
      apply hnd.1
      refine List.mem_map.mpr ⟨z, hz, ?_⟩
      obtain ⟨d, k⟩ := x
      obtain ⟨d', k'⟩ := z
      simp only at hy hze ⊢
      split at hy
      · split at hze
        · injection hy with hy; injection hze with hze
          rw [← hy] at hze
          simp only [Prod.mk.injEq] at hze
          simp only [Prod.mk.injEq]
          exact ⟨hze.1, hze.2.1⟩
        · cases hze
      · cases hy

theorem seedInputs_mem (tr : List TDraw) (x : Src × Nat × Int) (h : x ∈ seedInputs tr) :
    ∃ d ∈ tr, d.src = x.1 ∧ d.what = .seed x.2.2 := by
  unfold seedInputs at h
  obtain ⟨z, hz, hze⟩ := List.mem_filterMap.mp h
  obtain ⟨d, k⟩ := z
  simp only at hze
  split at hze
  · rename_i hi hw
    injection hze with hze
    refine ⟨d, positions_mem tr [] _ hz, ?_, ?_⟩
    · rw [← hze]
    · rw [← hze]; exact hw
  · cases hze

end Infretis.JobDraws
