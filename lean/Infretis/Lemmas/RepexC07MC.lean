import Infretis.Model.RepexDisk
/-!
# C07 — when `self.prob` draws on the scheduler stream (the Monte-Carlo branch of `inf_retis`)

`mcDims s ≠ []` needs an idle block with more than 12 rows; the matrix `inf_retis` works on has one row per
unlocked slot, so with at most 12 idle slots (`idleCount s ≤ 12`) no `self.prob` evaluation draws.
-/
namespace Infretis.Repex
open Infretis.Perm

theorem keep_length_le {α : Type} : ∀ (locks : List Bool) (xs : List α),
    (keep locks xs).length ≤ (locks.filter (fun b => !b)).length
  | [], xs => by cases xs <;> simp [keep]
  | l :: ls, [] => by simp [keep]
  | l :: ls, x :: xs => by
    have ih := keep_length_le ls xs
    cases l with
    | true => simpa [keep] using ih
    | false => simpa [keep] using ih

theorem argsort_length (keys : List Int) : (argsort keys).length = keys.length := by
  simp [argsort]

theorem subBlock_length_le (A : Mat) (start stop : Nat) (dir : Int) :
    (subBlock A start stop dir).length ≤ A.length := by
  simp only [subBlock, List.length_map, List.length_take, List.length_drop]
  omega

/-- the block loop sends a block to `random_prob` only if it has more than 12 rows -/
theorem blockLoop_mc (sorted : Mat) (m : Nat) (hlen : sorted.length ≤ 12) :
    ∀ (bs : List (Nat × Nat × Int)) (acc : BlockAcc), acc.mc = [] → (blockLoop sorted m bs acc).mc = [] := by
  intro bs
  induction bs with
  | nil => intro acc h; simpa [blockLoop] using h
  | cons b bs ih =>
    intro acc h
    obtain ⟨start, stop, dir⟩ := b
    unfold blockLoop
    simp only []
    cases hb : branchOf (subBlock sorted start stop dir) with
    | single => exact ih _ h
    | quick => exact ih _ h
    | glynn =>
      simp only []
      split
      · exact ih _ h
      · exact ih _ h
      · exact h
    | random =>
      exfalso
      have hl := subBlock_length_le sorted start stop dir
      unfold branchOf at hb
      split at hb
      · cases hb
      · split at hb
        · cases hb
        · split at hb
          · cases hb
          · rename_i h12; omega

theorem prepare_sorted_length (o : Nat) (W : Mat) (locks : List Bool) :
    (prepare o W locks).sorted.length = (idle W locks).length := by
  simp only [prepare, List.length_map, List.length_append, argsort_length, List.length_take, List.length_drop]
  omega

theorem sortedOut_mc (s : Sorted) (hlen : s.sorted.length ≤ 12) : (sortedOut s).mc = [] := by
  unfold sortedOut
  split
  · rfl
  · split
    · rfl
    · exact blockLoop_mc s.sorted s.m hlen _ _ rfl

/-- **no Monte-Carlo block with at most 12 idle slots** -/
theorem mcDims_nil_of_idle_le (s : St) (h : idleCount s ≤ 12) : mcDims s = [] := by
  have hl : (prepare off s.W s.locks).sorted.length ≤ 12 := by
    rw [prepare_sorted_length]
    have := keep_length_le s.locks s.W
    simp only [idle, List.length_map]
    unfold idleCount at h
    omega
  have hmc := sortedOut_mc (prepare off s.W s.locks) hl
  have hno : ∀ dims, infRetis s.W s.locks off ≠ .monteCarlo dims := by
    intro dims hc
    unfold infRetis at hc
    simp only [] at hc
    split at hc
    · cases hc
    · split at hc
      · cases hc
      · split at hc
        · cases hc
        · split at hc
          · rename_i hne; exact hne hmc
          · split at hc <;> cases hc
  unfold mcDims
  split
  · rename_i dims hd; exact absurd hd (hno dims)
  · rfl

theorem idleCount_set_true (l : List Bool) (e : Nat) :
    ((l.set e true).filter (fun b => !b)).length ≤ (l.filter (fun b => !b)).length := by
  induction l generalizing e with
  | nil => simp
  | cons b bs ih =>
    cases e with
    | zero => cases b <;> simp
    | succ e =>
      have := ih e
      cases b <;> simp [List.set_cons_succ, this]

theorem idleCount_lock {s s2 : St} {e : Nat} (h : lock s e = .ok s2) : idleCount s2 ≤ idleCount s := by
  unfold lock at h
  split at h
  · simp only [Except.ok.injEq] at h
    subst h
    exact idleCount_set_true s.locks e
  · exact absurd h (by simp)
  · exact absurd h (by simp)

/-- with at most 12 idle slots none of the `self.prob` evaluations of a `pick()` requests anything from the
    scheduler stream -/
theorem pickMC_nil_of_idle_le (s : St) (o : PickOutcome) (h : idleCount s ≤ 12) :
    ∀ d ∈ pickMC s o, d = [] := by
  have h0 := mcDims_nil_of_idle_le s h
  intro d hd
  unfold pickMC at hd
  simp only [] at hd
  split at hd
  · simp only [List.mem_singleton] at hd; rw [hd, h0]
  · rename_i s2 hl
    have h2 : idleCount s2 ≤ 12 := by
      have := idleCount_lock hl
      have hs : idleCount (swap s o.t o.e) = idleCount s := rfl
      omega
    split at hd
    · simp only [List.mem_cons, List.not_mem_nil, or_false] at hd
      rcases hd with hd | hd
      · rw [hd, h0]
      · rw [hd]; exact mcDims_nil_of_idle_le s2 h2
    · simp only [List.mem_singleton] at hd; rw [hd, h0]

end Infretis.Repex
