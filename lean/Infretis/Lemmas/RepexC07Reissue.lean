import Infretis.Lemmas.RepexC07Count
/-!
# C07 — the re-issue phase after a restart

After a restart the recorded in-flight jobs wait in `locked0` (with their ordinals in `locked0Ord`).
The scheduler's initiation loop first re-issues them, one `pick_lock()` each.  This file shows that
the re-issue phase re-establishes the invariant `NInv` of `RepexC07Count` — C03's slot invariant
(which is stated for `locked0 = []`) included — provided the records describe the restored state:
each recorded (ensemble, path) pair names an idle slot that holds that path (`RecOK`).  That is what
a restart image written from an `NInv` / `MidInv` state produces (`restart_pinv`).

`strip s` forgets `locked0`; C03's `Core` only reads `n, W, trajs, locks, locked0`, so
`Core (strip s) H tn` is "the slot invariant, whatever is still waiting to be re-issued".
-/
namespace Infretis.Repex
open Infretis.Perm

/-- forget the records waiting to be re-issued -/
def strip (s : St) : St := { s with locked0 := [] }

/-- a recorded (slot, path) pair names an idle slot that holds that path with non-zero weight -/
def SlotOK (s : St) (e tr : Nat) : Prop :=
  e < s.n - 1 ∧ s.trajs[e]? = some (some tr) ∧ s.locks[e]? = some false ∧ entryM s.W e e ≠ 0

theorem swapList_self7 {α : Type} (l : List α) (e : Nat) : swapList l e e = l := by
  unfold swapList
  cases h : l[e]? with
  | none => rfl
  | some a =>
    simp only []
    have hlt : e < l.length := getElem?_lt_of_some _ _ _ h
    have ha : l[e] = a := by
      rw [List.getElem?_eq_getElem hlt] at h
      simpa using h
    rw [List.set_set, ← ha, List.set_getElem_self]

theorem swap_self7 (s : St) (e : Nat) : swap s e e = s := by
  unfold swap
  rw [swapList_self7, swapList_self7]

theorem findIdx?_live {s : St} {H : List (Nat × Nat)} {tn : Nat} (hc : Core (strip s) H tn)
    {e tr : Nat} (he : e < s.n - 1) (ht : s.trajs[e]? = some (some tr)) :
    findIdx? (livePaths s) (some tr) = some e := by
  have hlenT : s.trajs.length = s.n := hc.lenT
  have hlen : (livePaths s).length = s.n - 1 := by simp [livePaths, hlenT]
  have hget : ∀ i, i < s.n - 1 → (livePaths s)[i]? = s.trajs[i]? := by
    intro i hi
    unfold livePaths
    rw [List.getElem?_dropLast, if_pos (by rw [hlenT]; exact hi)]
  have helt : e < (livePaths s).length := by rw [hlen]; exact he
  have hle : (livePaths s)[e] = some tr := by
    have := hget e he
    rw [List.getElem?_eq_getElem helt, ht] at this
    simpa using this
  have huniq : ∀ j (hj : j < (livePaths s).length), (livePaths s)[j] = some tr → j = e := by
    intro j hj hjeq
    have hjl : j < s.n - 1 := by rw [← hlen]; exact hj
    have := hget j hjl
    rw [List.getElem?_eq_getElem hj, hjeq] at this
    exact hc.inj j e tr hjl he this.symm ht
  unfold findIdx?
  simp only []
  have hidx : ∀ (p : Option Nat → Bool), (∀ x, p x = true ↔ x = some tr) →
      (livePaths s).findIdx p = e := by
    intro p hp
    rw [List.findIdx_eq helt]
    constructor
    · exact (hp _).mpr hle
    · intro j hj
      cases hb : p (livePaths s)[j] with
      | false => rfl
      | true =>
        have := huniq j (by omega) ((hp _).mp hb)
        omega
  rw [hidx _ (fun x => by simp), if_pos helt]

/-- the re-issue loop of `pick_lock()` on records that describe the state: every recorded slot is
    locked, nothing moves -/
theorem reissue_go_spec : ∀ (l : List (Nat × Nat)) {s s' : St} {pairs : List (Int × Option Nat)}
    {H : List (Nat × Nat)} {tn : Nat},
    Core (strip s) H tn → (∀ x ∈ l, SlotOK s x.1 x.2) → (l.map (·.1)).Nodup →
    reissue.go s l = .ok (s', pairs) →
    pairs = l.map (fun x => ((x.1 : Int) - 1, some x.2)) ∧ Core (strip s') (l ++ H) tn ∧
      AuxEq s s' ∧ s'.W = s.W ∧ s'.trajs = s.trajs ∧
      (∀ e, e ∉ l.map (·.1) → s'.locks[e]? = s.locks[e]?) := by
  intro l
  induction l with
  | nil =>
    intro s s' pairs H tn hc _ _ h
    simp only [reissue.go, Except.ok.injEq, Prod.mk.injEq] at h
    obtain ⟨rfl, rfl⟩ := h
    exact ⟨rfl, hc, AuxEq.refl s, rfl, rfl, fun _ _ => rfl⟩
  | cons x rest ih =>
    intro s s' pairs H tn hc hok hnd h
    obtain ⟨e, tr⟩ := x
    obtain ⟨he, ht, hlk, hw⟩ := hok (e, tr) (List.mem_cons_self ..)
    rw [List.map_cons, List.nodup_cons] at hnd
    unfold reissue.go at h
    rw [findIdx?_live hc he ht] at h
    simp only [] at h
    rw [swap_self7] at h
    split at h
    · exact absurd h (by simp)
    rename_i s2 hl
    obtain ⟨_, hs2⟩ := lock_ok hl
    split at h
    · exact absurd h (by simp)
    rename_i s3 ps hrec
    simp only [Except.ok.injEq, Prod.mk.injEq] at h
    obtain ⟨rfl, rfl⟩ := h
    subst hs2
    have hc2 : Core (strip { s with locks := s.locks.set e true }) ((e, tr) :: H) tn :=
      lock_core hc e tr hlk ht hw rfl rfl rfl rfl rfl
    have hok2 : ∀ x ∈ rest, SlotOK { s with locks := s.locks.set e true } x.1 x.2 := by
      intro x hx
      obtain ⟨h1, h2, h3, h4⟩ := hok x (List.mem_cons_of_mem _ hx)
      refine ⟨h1, h2, ?_, h4⟩
      have hne : e ≠ x.1 := by
        intro heq
        exact hnd.1 (List.mem_map.mpr ⟨x, hx, heq.symm⟩)
      show (s.locks.set e true)[x.1]? = some false
      rw [List.getElem?_set_ne hne]
      exact h3
    obtain ⟨i1, i2, i3, i4, i5, i6⟩ := ih hc2 hok2 hnd.2 hrec
    refine ⟨?_, ?_, ?_, i4, i5, ?_⟩
    · rw [i1]
      simp only [List.map_cons, List.cons.injEq, Prod.mk.injEq, and_true]
      constructor
      · simp [off]
      · show s.trajs.getD e none = some tr
        rw [List.getD_eq_getElem?_getD, ht]; rfl
    · exact i2.perm (List.perm_middle)
    · refine AuxEq.trans (b := _) ?_ i3
      exact ⟨rfl, rfl, rfl, rfl, rfl, rfl, rfl, rfl, rfl⟩
    · intro e' he'
      simp only [List.map_cons, List.mem_cons, not_or] at he'
      rw [i6 e' he'.2]
      show (s.locks.set e true)[e']? = _
      rw [List.getElem?_set_ne (fun h => he'.1 h.symm)]

/-- a record waiting to be re-issued describes the state: one slot, or slots 0 and 1 (`[0-]`,`[0+]`),
    each idle and holding the recorded path -/
structure RecOK (s : St) (r : List Nat × List Nat) : Prop where
  len : r.1.length = r.2.length
  shape : r.1.length = 1 ∨ r.1 = [0, 1]
  slots : ∀ x ∈ r.1.zip r.2, SlotOK s x.1 x.2

theorem RecOK.nodup {s : St} {r : List Nat × List Nat} (h : RecOK s r) : r.1.Nodup := by
  rcases h.shape with h1 | h1
  · cases hr : r.1 with
    | nil => simp
    | cons a l =>
      rw [hr] at h1
      cases l with
      | nil => simp
      | cons b l => simp at h1
  · rw [h1]; decide

/-- the record `locked` keeps of a re-issued job -/
def recOf7 (r : List Nat × List Nat) : List Int × List Nat := (r.1.map (fun (e : Nat) => (e : Int) - 1), r.2)

/-- **the re-issue branch of `pick_lock()`** on a record that describes the state: the recorded slots
    are locked (nothing moves), the job carries the streams of the recorded ordinal, the spawn counter
    stays, the job goes back on record with its ordinal. -/
theorem pickLock_reissue_spec {s s' : St} {o : PickOutcome} {d : Nat} {ps : List Picked}
    {ds : List Draw} {r : List Nat × List Nat} {rest : List (List Nat × List Nat)} {ord : Nat}
    {restO : List (Option Nat)} {H : List (Nat × Nat)} {tn : Nat}
    (hl0 : s.locked0 = r :: rest) (hord : s.locked0Ord = some ord :: restO)
    (hc : Core (strip s) H tn) (hr : RecOK s r) (hp : pickLock s o d = .ok (s', ps, ds)) :
    Core (strip s') (r.1.zip r.2 ++ H) tn ∧ AuxEq s s' ∧
      ps.map (fun p => (p.ens, some p.pn)) = (r.1.zip r.2).map (fun x => ((x.1 : Int) - 1, some x.2)) ∧
      StreamsAt s.entropy ord ps ∧
      s'.locked0 = rest ∧ s'.locked0Ord = restO ∧ s'.spawned = s.spawned ∧
      s'.locked = s.locked ++ [recOf7 r] ∧ s'.lockedOrd = s.lockedOrd ++ [ord] ∧
      s'.W = s.W ∧ s'.trajs = s.trajs ∧ (∀ e, e ∉ r.1 → s'.locks[e]? = s.locks[e]?) ∧
      s'.seed = s.seed ∧ s'.entropy = s.entropy ∧ s'.mainDraws = s.mainDraws ∧ ds = [] := by
  obtain ⟨enss0, trajs0⟩ := r
  obtain ⟨s1, pairs, hre, hmk, rfl, hds⟩ := pickLock_reissue hl0 hp
  obtain ⟨q, ql, qo⟩ := reissue_quiet hre
  unfold reissue at hre
  have hc0 : Core (strip { s with locked0 := rest, locked0Ord := s.locked0Ord.tail }) H tn :=
    hc.congr ⟨rfl, rfl, rfl, rfl, rfl⟩
  have hfst : (enss0.zip trajs0).map (·.1) = enss0 := List.map_fst_zip (by have := hr.len; simp only at this; omega)
  obtain ⟨g1, g2, g3, g4, g5, g6⟩ := reissue_go_spec _ hc0 (fun x hx => hr.slots x hx)
    (by rw [hfst]; exact hr.nodup) hre
  have hjoin : s.locked0Ord.head?.join = some ord := by rw [hord]; rfl
  have hro : reissueOrd s s1 = ord := by unfold reissueOrd; rw [hjoin]; rfl
  unfold mkPickedAt at hmk
  rw [hro] at hmk
  have hst := mkPicked_streams hmk
  have hens := mkPicked_ens hmk
  refine ⟨?_, ?_, by rw [hens, g1], ?_, ?_, ?_, ?_, ?_, ?_, g4, g5, ?_, q.seed, q.entropy, q.mainDraws, hds⟩
  · exact g2.congr ⟨rfl, rfl, rfl, rfl, rfl⟩
  · refine AuxEq.trans (b := _) ?_ (AuxEq.trans g3 ?_)
    · exact ⟨rfl, rfl, rfl, rfl, rfl, rfl, rfl, rfl, rfl⟩
    · exact ⟨rfl, rfl, rfl, rfl, rfl, rfl, rfl, rfl, rfl⟩
  · intro j p hp'
    have := hst j p hp'
    rw [← q.entropy]
    exact this
  · show s1.locked0 = rest
    rw [q.locked0]
  · show s1.locked0Ord = restO
    rw [q.locked0Ord]
    show s.locked0Ord.tail = restO
    rw [hord]; rfl
  · show (if (s.locked0Ord.head?.join).isSome then s1.spawned else s1.spawned + 1) = s.spawned
    rw [hjoin, q.spawned]; rfl
  · show s1.locked ++ _ = s.locked ++ _
    rw [ql]; rfl
  · show s1.lockedOrd ++ [reissueOrd s s1] = s.lockedOrd ++ [ord]
    rw [qo, hro]
  · intro e he
    rw [← hfst] at he
    exact g6 e he

theorem RecOK.congr {s s' : St} {r : List Nat × List Nat} (h : RecOK s r) (hn : s'.n = s.n)
    (hW : s'.W = s.W) (hT : s'.trajs = s.trajs) (hL : ∀ e ∈ r.1, s'.locks[e]? = s.locks[e]?) :
    RecOK s' r := by
  refine ⟨h.len, h.shape, ?_⟩
  intro x hx
  obtain ⟨h1, h2, h3, h4⟩ := h.slots x hx
  have hxm : x.1 ∈ r.1 := (List.of_mem_zip hx).1
  exact ⟨by rw [hn]; exact h1, by rw [hT]; exact h2, by rw [hL x.1 hxm]; exact h3, by rw [hW]; exact h4⟩

theorem initiate_go7 {s : St} (h : (initiate s).2 = true) : (initiate s).1.toinitiate ≥ 0 := by
  rcases initiate_cases s with ⟨h1, _⟩ | ⟨ti, _, h1⟩
  · rw [h1] at h; exact absurd h (by simp)
  · rw [h1] at h ⊢
    simpa using h

/-- the invariant during the re-issue phase; `ords` are the ordinals still waiting with the records -/
structure PInv (y : Sys) (ords : List Nat) : Prop where
  core : Core (strip y.s) (held y.jobs) y.s.trajNum
  shape : ∀ j ∈ y.jobs, JobShape j
  recd : y.s.locked = y.jobs.map jobRec
  ordLen : y.s.lockedOrd.length = y.jobs.length
  ordStreams : ∀ jo ∈ y.jobs.zip y.s.lockedOrd, StreamsAt y.s.entropy jo.2 jo.1.picked
  pendOK : ∀ r ∈ y.s.locked0, RecOK y.s r
  pendNodup : (y.s.locked0.flatMap (·.1)).Nodup
  pendOrd : y.s.locked0Ord = ords.map some
  pendLen : ords.length = y.s.locked0.length
  count : y.s.spawned = y.s.cstep + y.s.locked.length + y.s.locked0.length
  ordLt : ∀ o ∈ y.s.lockedOrd ++ ords, o < y.s.spawned
  ordNodup : (y.s.lockedOrd ++ ords).Nodup

/-- when nothing is left to re-issue the phase invariant is the invariant of `RepexC07Count` -/
theorem PInv.ninv {y : Sys} {ords : List Nat} (h : PInv y ords) (h0 : y.s.locked0 = []) : NInv y := by
  have hords : ords = [] := by
    have := h.pendLen
    rw [h0] at this
    exact List.eq_nil_of_length_eq_zero this
  subst hords
  refine ⟨h.core.congr ⟨rfl, rfl, rfl, rfl, h0⟩, h.shape, h.recd, h.ordLen, h.ordStreams, ?_, ?_, ?_⟩
  · have := h.count; rw [h0] at this; simpa using this
  · have := h.ordLt; simpa using this
  · have := h.ordNodup; simpa using this

theorem picked_of_pairs {ps : List Picked} {l : List (Nat × Nat)}
    (h : ps.map (fun p => (p.ens, some p.pn)) = l.map (fun x => ((x.1 : Int) - 1, some x.2))) :
    ps.map (fun p => (slotOf p, p.pn)) = l ∧ ps.map (·.ens) = l.map (fun x => (x.1 : Int) - 1) ∧
      ps.map (·.pn) = l.map (·.2) := by
  refine ⟨?_, ?_, ?_⟩
  · have := congrArg (List.map (fun (x : Int × Option Nat) => ((x.1 + 1).toNat, x.2.getD 0))) h
    simp only [List.map_map, Function.comp_def, Option.getD_some] at this
    have e : (fun x : Nat × Nat => (((x.1 : Int) - 1 + 1).toNat, x.2)) = id := by
      funext x
      obtain ⟨a, b⟩ := x
      simp
    rw [e, List.map_id] at this
    exact this
  · have := congrArg (List.map Prod.fst) h
    simpa [List.map_map, Function.comp_def] using this
  · have := congrArg (List.map (fun (x : Int × Option Nat) => x.2.getD 0)) h
    simpa [List.map_map, Function.comp_def] using this

/-- **one `start` event of the re-issue phase**: the first waiting record is re-issued under its
    ordinal; the job is the recorded one (same ensembles, same paths), the counter stays. -/
theorem phase_start {y y' : Sys} {o : PickOutcome} {d : Nat} {oj : Option (Job × List Draw)}
    {ord : Nat} {ords : List Nat} {r : List Nat × List Nat} {rest : List (List Nat × List Nat)}
    (hi : PInv y (ord :: ords)) (hl0 : y.s.locked0 = r :: rest)
    (h : sysStepJ y (.start o d) = .ok (y', oj)) :
    ∃ job ds, oj = some (job, ds) ∧ y'.jobs = y.jobs ++ [job] ∧ PInv y' ords ∧ y'.s.locked0 = rest ∧
      tagOf y.s y'.s = (ord, false) ∧ jobRec job = recOf7 r ∧ StreamsAt y.s.entropy ord job.picked ∧
      y'.s.spawned = y.s.spawned ∧ y'.s.seed = y.s.seed ∧ y'.s.entropy = y.s.entropy ∧
      y'.s.cstep = y.s.cstep ∧ y'.s.mainDraws = y.s.mainDraws ∧ ds = [] := by
  obtain ⟨s1, job, ds, hs1, ⟨q, ql, qo⟩, hprep, hjobs, hoj, hgo⟩ := sysStepJ_start h
  obtain ⟨hce, htn⟩ := initiate_coreEq y.s
  rw [← hs1] at hce htn
  have hto : s1.toinitiate ≥ 0 := by rw [hs1]; exact initiate_go7 hgo
  obtain ⟨s2, ps, hr, ⟨q2, ql2, qo2⟩, ⟨f, hf⟩, _, occ', hs'⟩ := prep_decomp hprep
  rw [if_pos hto] at hr
  have hc1 : Core (strip s1) (held y.jobs) y.s.trajNum :=
    hi.core.congr ⟨hce.n, hce.W, hce.trajs, hce.locks, rfl⟩
  have hrm : r ∈ y.s.locked0 := by rw [hl0]; exact List.mem_cons_self ..
  have hr1 : RecOK s1 r := (hi.pendOK r hrm).congr hce.n hce.W hce.trajs (fun e _ => by rw [hce.locks])
  have hord1 : s1.locked0Ord = some ord :: ords.map some := by
    rw [q.locked0Ord, hi.pendOrd]; rfl
  obtain ⟨c1, c2, c3, c4, c5, c6, c7, c8, c9, c10, c11, c12, c13, c14, c15, c16⟩ :=
    pickLock_reissue_spec (by rw [q.locked0, hl0]) hord1 hc1 hr1 hr
  obtain ⟨p1, p2, p3⟩ := picked_of_pairs c3
  have hlen := (hi.pendOK r hrm).len
  have hzf : (r.1.zip r.2).map (·.1) = r.1 := List.map_fst_zip (by omega)
  have hzs : (r.1.zip r.2).map (·.2) = r.2 := List.map_snd_zip (by omega)
  have hens : job.picked.map (·.ens) = r.1.map (fun (e : Nat) => (e : Int) - 1) := by
    rw [hf, map_ens_map_engIdx, p2]
    have e1 : r.1.map (fun (e : Nat) => (e : Int) - 1)
        = ((r.1.zip r.2).map (·.1)).map (fun (e : Nat) => (e : Int) - 1) := by rw [hzf]
    rw [e1, List.map_map]; rfl
  have hpn : job.picked.map (·.pn) = r.2 := by
    rw [hf, map_pn_map_engIdx, p3, hzs]
  have hheld : heldJob job = r.1.zip r.2 := by
    unfold heldJob
    rw [hf, List.map_map]
    exact p1
  have hrec : jobRec job = recOf7 r := by
    unfold jobRec recOf7
    rw [hens, hpn]
  have hstr : StreamsAt y.s.entropy ord job.picked := by
    rw [hf, ← q.entropy]
    exact c4.map_engIdx f
  have hsp : y'.s.spawned = y.s.spawned := by rw [q2.spawned, c7, q.spawned]
  have hLO : y'.s.lockedOrd = y.s.lockedOrd ++ [ord] := by rw [qo2, c9, qo]
  have hn' : y'.s.n = y.s.n := by rw [hs']; show s2.n = _; rw [c2.n, hce.n]
  have hW' : y'.s.W = y.s.W := by rw [hs']; show s2.W = _; rw [c10, hce.W]
  have hT' : y'.s.trajs = y.s.trajs := by rw [hs']; show s2.trajs = _; rw [c11, hce.trajs]
  have hL' : ∀ e, e ∉ r.1 → y'.s.locks[e]? = y.s.locks[e]? := by
    intro e he
    rw [hs']
    show s2.locks[e]? = _
    rw [c12 e he, hce.locks]
  have hl0' : y'.s.locked0 = rest := by rw [q2.locked0, c5]
  have hnd := hi.pendNodup
  rw [hl0, List.flatMap_cons, List.nodup_append] at hnd
  refine ⟨job, ds, hoj, hjobs, ?_, hl0', ?_, hrec, hstr, hsp, ?_, ?_, ?_, ?_, c16⟩
  · constructor
    · -- core
      have : Core (strip y'.s) (heldJob job ++ held y.jobs) y.s.trajNum := by
        rw [hheld, hs']
        exact c1.congr ⟨rfl, rfl, rfl, rfl, rfl⟩
      have htn' : y'.s.trajNum = y.s.trajNum := by
        rw [hs']; show s2.trajNum = _; rw [c2.trajNum, htn]
      rw [htn', hjobs]
      exact this.perm (held_append_perm y.jobs job)
    · intro j hj
      rw [hjobs] at hj
      rcases List.mem_append.mp hj with hj | hj
      · exact hi.shape j hj
      · simp only [List.mem_singleton] at hj
        rw [hj]
        constructor
        · rcases (hi.pendOK r hrm).shape with h1 | h1
          · left
            have := congrArg List.length hens
            simpa [h1] using this
          · right
            rw [hens, h1]; rfl
        · intro p hp
          have : p.ens ∈ List.map (·.ens) job.picked := List.mem_map.mpr ⟨p, hp, rfl⟩
          rw [hens] at this
          obtain ⟨e, _, he⟩ := List.mem_map.mp this
          omega
    · rw [ql2, c8, ql, hi.recd, hjobs, List.map_append, ← hrec]; rfl
    · rw [hLO, hjobs, List.length_append, List.length_append, hi.ordLen]; rfl
    · intro jo hjo
      rw [hLO, hjobs, List.zip_append (by rw [hi.ordLen])] at hjo
      have he' : y'.s.entropy = y.s.entropy := by rw [q2.entropy, c14, q.entropy]
      rw [he']
      rcases List.mem_append.mp hjo with hjo | hjo
      · exact hi.ordStreams jo hjo
      · simp only [List.zip_cons_cons, List.zip_nil_left, List.mem_singleton] at hjo
        subst hjo
        exact hstr
    · intro r' hr'
      rw [hl0'] at hr'
      have hr'm : r' ∈ y.s.locked0 := by rw [hl0]; exact List.mem_cons_of_mem _ hr'
      refine (hi.pendOK r' hr'm).congr hn' hW' hT' ?_
      intro e he
      apply hL'
      intro her
      exact hnd.2.2 e her e (List.mem_flatMap.mpr ⟨r', hr', he⟩) rfl
    · rw [hl0']; exact hnd.2.1
    · rw [q2.locked0Ord, c6]
    · have := hi.pendLen
      rw [hl0] at this
      rw [hl0']
      simpa using this
    · rw [hsp, q2.cstep, c2.cstep, q.cstep, ql2, c8, ql, hl0', hi.count, hl0]
      simp only [List.length_append, List.length_cons, List.length_nil]
      omega
    · intro o' ho'
      rw [hsp]
      apply hi.ordLt
      rw [hLO] at ho'
      simpa using ho'
    · rw [hLO]
      have := hi.ordNodup
      simpa using this
  · unfold tagOf
    rw [hLO, hsp]
    simp
  · rw [q2.seed, c13, q.seed]
  · rw [q2.entropy, c14, q.entropy]
  · rw [q2.cstep, c2.cstep, q.cstep]
  · rw [q2.mainDraws, c15, q.mainDraws]

/-- **the re-issue phase**: as many `start` events as there are waiting records.  Afterwards nothing
    is left to re-issue and the invariant `NInv` holds; the counter has not moved; the log of the
    phase consists of re-issue entries that take the waiting ordinals in order, and the `i`-th
    re-issued job is the `i`-th recorded one (same ensembles, same path numbers). -/
theorem phase_run : ∀ (ords : List Nat) (pre : List Ev) {y y' : Sys},
    PInv y ords → pre.length = ords.length → (∀ ev ∈ pre, ∃ o d, ev = Ev.start o d) →
    run y pre = .ok y' →
    NInv y' ∧ y'.s.spawned = y.s.spawned ∧ y'.s.seed = y.s.seed ∧ y'.s.entropy = y.s.entropy ∧
      y'.s.cstep = y.s.cstep ∧ y'.s.mainDraws = y.s.mainDraws ∧
      y'.jobs = y.jobs ++ (ghost y pre).map (·.job) ∧
      (ghost y pre).map (fun e => (e.ord, e.fresh)) = ords.map (fun o => (o, false)) ∧
      (ghost y pre).map (fun e => jobRec e.job) = y.s.locked0.map recOf7 ∧
      (∀ e ∈ ghost y pre, e.draws = []) := by
  intro ords
  induction ords with
  | nil =>
    intro pre y y' hi hlen _ hr
    have hpre : pre = [] := List.eq_nil_of_length_eq_zero (by simpa using hlen)
    subst hpre
    simp only [run, Except.ok.injEq] at hr
    subst hr
    have h0 : y.s.locked0 = [] := by
      have := hi.pendLen
      exact List.eq_nil_of_length_eq_zero (by simpa using this.symm)
    exact ⟨hi.ninv h0, rfl, rfl, rfl, rfl, rfl, by simp [ghost], by simp [ghost], by simp [ghost, h0],
      by intro e he; simp [ghost] at he⟩
  | cons ord ords ih =>
    intro pre y y' hi hlen hst hr
    cases pre with
    | nil => simp at hlen
    | cons ev pre' =>
      obtain ⟨o, d, rfl⟩ := hst ev (List.mem_cons_self ..)
      obtain ⟨y1, oj, hj, hr1⟩ := run_cons hr
      cases hl0 : y.s.locked0 with
      | nil =>
        have := hi.pendLen
        rw [hl0] at this
        simp at this
      | cons r rest =>
        obtain ⟨job, ds, hoj, hjobs, hi1, hl01, htag, hrec, _, hsp, hse, hen, hcs, hmd, hds⟩ :=
          phase_start hi hl0 hj
        obtain ⟨g1, g2, g3, g4, g5, g6, g7, g8, g9, g10⟩ := ih pre' hi1 (by simpa using hlen)
          (fun ev hev => hst ev (List.mem_cons_of_mem _ hev)) hr1
        subst hoj
        refine ⟨g1, g2.trans hsp, g3.trans hse, g4.trans hen, g5.trans hcs, g6.trans hmd, ?_, ?_, ?_, ?_⟩
        · simp only [ghost, hj, Option.toList_some, List.map_cons, List.map_nil,
            List.singleton_append]
          rw [g7, hjobs, List.append_assoc]; rfl
        · simp only [ghost, hj, Option.toList_some, List.map_cons, List.map_nil,
            List.singleton_append, htag]
          rw [g8]
        · simp only [ghost, hj, Option.toList_some, List.map_cons, List.map_nil,
            List.singleton_append]
          rw [g9, hl01, hrec]
        · intro e he
          simp only [ghost, hj, Option.toList_some, List.map_cons, List.map_nil, List.singleton_append,
            List.mem_cons] at he
          rcases he with he | he
          · rw [he]; exact hds
          · exact g10 e he

/-! ### what `load_paths` rebuilds -/

theorem addTraj_lt {s s' : St} {ens : Int} {pn : Nat} {valid : List Rat}
    (h : addTraj s ens pn valid = .ok s') : (ens + 1).toNat < s.trajs.length := by
  unfold addTraj at h
  simp only [] at h
  have hoff : (ens + (off : Int)).toNat = (ens + 1).toNat := by simp [off]
  rw [hoff] at h
  split at h
  · exact absurd h (by simp)
  split at h
  · exact absurd h (by simp)
  split at h
  · exact absurd h (by simp)
  split at h
  · exact absurd h (by simp)
  rename_i hge
  omega

/-- the slot-level effect of loading one path -/
structure LoadStep (s s' : St) (e pn : Nat) : Prop where
  lt : e < s.trajs.length
  n : s'.n = s.n
  trajNum : s'.trajNum = s.trajNum
  trajs : s'.trajs = s.trajs.set e (some pn)
  locks : s'.locks = s.locks.set e false
  W : ∃ v : List Rat, v.getD e 0 ≠ 0 ∧ s'.W = s.W.set e v

theorem loadOne_step {s s' : St} {ens : Int} {pn : Nat} {valid fr : List Rat}
    (h : loadOne s ens pn valid fr = .ok s') : LoadStep s s' (ens + 1).toNat pn := by
  unfold loadOne at h
  split at h
  · exact absurd h (by simp)
  rename_i s1 hadd
  simp only [Except.ok.injEq] at h
  subst h
  have hlt := addTraj_lt hadd
  obtain ⟨v, hv, hs⟩ := addTraj_ok hadd
  subst hs
  exact ⟨hlt, rfl, rfl, rfl, rfl, ⟨v, hv, rfl⟩⟩

/-- what a state looks like on the slots `lo ≤ e < hi` that have been loaded with the path numbers
    `f e`, and that nothing else changed -/
structure LoadedRange (s0 s : St) (lo hi : Nat) (f : Nat → Nat) : Prop where
  n : s.n = s0.n
  trajNum : s.trajNum = s0.trajNum
  lenW : s.W.length = s0.W.length
  lenT : s.trajs.length = s0.trajs.length
  lenL : s.locks.length = s0.locks.length
  inside : ∀ e, lo ≤ e → e < hi → e < s0.trajs.length ∧ s.trajs[e]? = some (some (f e)) ∧
    s.locks[e]? = some false ∧ entryM s.W e e ≠ 0
  outside : ∀ e, (e < lo ∨ hi ≤ e) → s.trajs[e]? = s0.trajs[e]? ∧ s.locks[e]? = s0.locks[e]? ∧
    s.W[e]? = s0.W[e]?

theorem LoadedRange.refl (s : St) (lo : Nat) (f : Nat → Nat) : LoadedRange s s lo lo f :=
  ⟨rfl, rfl, rfl, rfl, rfl, fun e h1 h2 => by omega, fun _ _ => ⟨rfl, rfl, rfl⟩⟩

theorem entryM_set_self7 (W : Mat) (e : Nat) (v : List Rat) (h : e < W.length) :
    entryM (W.set e v) e e = v.getD e 0 := by
  unfold entryM
  simp only [List.getD_eq_getElem?_getD, List.getElem?_set_self h, Option.getD_some]

/-- extend a loaded range by one slot at either end -/
theorem LoadedRange.step {s0 s s' : St} {lo hi lo' hi' e pn : Nat} {f : Nat → Nat}
    (hsq : s0.W.length = s0.trajs.length ∧ s0.locks.length = s0.trajs.length)
    (h : LoadedRange s0 s lo hi f) (hle : lo ≤ hi) (hs : LoadStep s s' e pn) (hf : f e = pn)
    (he : (e = hi ∧ lo' = lo ∧ hi' = hi + 1) ∨ (e + 1 = lo ∧ lo' = e ∧ hi' = hi)) :
    LoadedRange s0 s' lo' hi' f := by
  have helt : e < s0.trajs.length := by rw [← h.lenT]; exact hs.lt
  obtain ⟨v, hv, hW⟩ := hs.W
  have hout : e < lo ∨ hi ≤ e := by rcases he with ⟨h1, _, _⟩ | ⟨h1, _, _⟩ <;> omega
  refine ⟨hs.n.trans h.n, hs.trajNum.trans h.trajNum, ?_, ?_, ?_, ?_, ?_⟩
  · rw [hW, List.length_set]; exact h.lenW
  · rw [hs.trajs, List.length_set]; exact h.lenT
  · rw [hs.locks, List.length_set]; exact h.lenL
  · intro x hx1 hx2
    by_cases hxe : x = e
    · subst hxe
      refine ⟨helt, ?_, ?_, ?_⟩
      · rw [hs.trajs, List.getElem?_set_self hs.lt, hf]
      · rw [hs.locks, List.getElem?_set_self (by rw [h.lenL, hsq.2]; exact helt)]
      · rw [hW, entryM_set_self7 _ _ _ (by rw [h.lenW, hsq.1]; exact helt)]
        exact hv
    · have hin : lo ≤ x ∧ x < hi := by rcases he with ⟨h1, h2, h3⟩ | ⟨h1, h2, h3⟩ <;> omega
      obtain ⟨a1, a2, a3, a4⟩ := h.inside x hin.1 hin.2
      refine ⟨a1, ?_, ?_, ?_⟩
      · rw [hs.trajs, List.getElem?_set_ne (fun h => hxe h.symm)]; exact a2
      · rw [hs.locks, List.getElem?_set_ne (fun h => hxe h.symm)]; exact a3
      · rw [hW, entryM_congr _ _ _ _ (List.getElem?_set_ne (fun h => hxe h.symm))]
        exact a4
  · intro x hx
    have hxe : x ≠ e := by rcases he with ⟨h1, h2, h3⟩ | ⟨h1, h2, h3⟩ <;> omega
    have hx' : x < lo ∨ hi ≤ x := by rcases he with ⟨h1, h2, h3⟩ | ⟨h1, h2, h3⟩ <;> omega
    obtain ⟨a1, a2, a3⟩ := h.outside x hx'
    refine ⟨?_, ?_, ?_⟩
    · rw [hs.trajs, List.getElem?_set_ne (fun h => hxe h.symm)]; exact a1
    · rw [hs.locks, List.getElem?_set_ne (fun h => hxe h.symm)]; exact a2
    · rw [hW, List.getElem?_set_ne (fun h => hxe h.symm)]; exact a3

theorem loadPlus_range {s0 : St} {f : Nat → Nat}
    (hsq : s0.W.length = s0.trajs.length ∧ s0.locks.length = s0.trajs.length) :
    ∀ (rest : List (Nat × List Rat × List Rat)) (s s' : St) (i : Nat),
    LoadedRange s0 s 1 (i + 1) f → (∀ j (hj : j < rest.length), f (i + 1 + j) = rest[j].1) →
    loadPaths.plus s i rest = .ok s' → LoadedRange s0 s' 1 (i + 1 + rest.length) f := by
  intro rest
  induction rest with
  | nil =>
    intro s s' i h _ hp
    simp only [loadPaths.plus, Except.ok.injEq] at hp
    subst hp
    simpa using h
  | cons x rest ih =>
    intro s s' i h hf hp
    obtain ⟨pn, w, fr⟩ := x
    unfold loadPaths.plus at hp
    split at hp
    · exact absurd hp (by simp)
    rename_i s1 h1
    have hstep := loadOne_step h1
    have hslot : ((i : Int) + 1).toNat = i + 1 := by omega
    rw [hslot] at hstep
    have hf0 : f (i + 1) = pn := by
      have := hf 0 (by simp)
      simpa using this
    have h2 : LoadedRange s0 s1 1 (i + 1 + 1) f :=
      h.step hsq (by omega) hstep hf0 (Or.inl ⟨rfl, rfl, rfl⟩)
    have := ih s1 s' (i + 1) h2 (fun j hj => by
      have := hf (j + 1) (by simp; omega)
      simp only [List.getElem_cons_succ] at this
      rw [← this]
      congr 1
      omega) hp
    simp only [List.length_cons]
    rw [show i + 1 + (rest.length + 1) = i + 1 + 1 + rest.length from by omega]
    exact this

/-- **`load_paths`**, slot by slot: path `e` of the list sits in slot `e`, unlocked, with non-zero
    diagonal weight; everything beyond the list is untouched -/
theorem loadPaths_range {s0 s' : St} {paths : List (Nat × List Rat × List Rat)}
    (hsq : s0.W.length = s0.trajs.length ∧ s0.locks.length = s0.trajs.length)
    (h : loadPaths s0 paths = .ok s') :
    LoadedRange s0 s' 0 paths.length (fun e => (paths.map (·.1)).getD e 0) := by
  unfold loadPaths at h
  split at h
  · exact absurd h (by simp)
  rename_i pn0 w0 fr0 rest
  split at h
  · exact absurd h (by simp)
  rename_i s1 hplus
  have h1 := loadPlus_range (f := fun e => (((pn0, w0, fr0) :: rest).map (·.1)).getD e 0) hsq rest s0 s1 0
    (by simpa using LoadedRange.refl s0 1 _)
    (fun j hj => by
      simp only [Nat.zero_add, List.map_cons, List.getD_eq_getElem?_getD]
      rw [Nat.add_comm 1 j, List.getElem?_cons_succ, List.getElem?_map, List.getElem?_eq_getElem hj]
      rfl) hplus
  have hstep := loadOne_step h
  have hslot : ((-1 : Int) + 1).toNat = 0 := by decide
  rw [hslot] at hstep
  have := h1.step hsq (by omega) hstep (by simp) (Or.inr ⟨rfl, rfl, rfl⟩)
  simp only [List.length_cons]
  rw [show rest.length + 1 = 0 + 1 + rest.length from by omega]
  exact this

/-! ### the restart: a state written from the invariant starts the re-issue phase -/

theorem filterMap_id_somes : ∀ (l : List (Option Nat)), (∀ x ∈ l, ∃ pn, x = some pn) →
    (l.filterMap id).map some = l := by
  intro l
  induction l with
  | nil => intro _; rfl
  | cons x l ih =>
    intro h
    obtain ⟨pn, rfl⟩ := h x (List.mem_cons_self ..)
    have e := ih (fun y hy => h y (List.mem_cons_of_mem _ hy))
    simp only [List.filterMap_cons, id_eq, List.map_cons]
    exact congrArg (some pn :: ·) e

theorem filterMap_map_some {β : Type} (g : Nat → β) (pns : List Nat) :
    (pns.map some).filterMap (fun o => o.map g) = pns.map g := by
  induction pns with
  | nil => rfl
  | cons x l ih => simp [ih]

/-- the record the restart file keeps of a job in flight: slots and path numbers -/
def jobRec0 (j : Job) : List Nat × List Nat := (j.picked.map slotOf, j.picked.map (·.pn))

theorem recOf7_jobRec0 (j : Job) (h : ∀ p ∈ j.picked, -1 ≤ p.ens) : recOf7 (jobRec0 j) = jobRec j := by
  unfold recOf7 jobRec0 jobRec
  simp only [List.map_map, Prod.mk.injEq, and_true]
  apply List.map_congr_left
  intro p hp
  have := h p hp
  simp only [Function.comp_apply, slotOf]
  omega

/-- **restart from an image written from the invariant** (between events: `NInv.mid`; at the write
    inside `treat_output`: `midState_inv`), same number of ensembles, any workers / steps / engine
    table / recomputed weights: the restored state starts the re-issue phase — every record names an
    idle slot holding its path, the ordinals wait with the records, and the counter is the old one. -/
theorem restart_pinv {s s' : St} {jobs : List Job} (hm : MidInv s jobs) {workers tsteps : Nat}
    {occ : List (List Int)} {ensEng : List (List Nat)} {weightOf : Nat → List Rat}
    (h : restore (persist s) s.n workers tsteps occ ensEng weightOf = .ok s') :
    PInv { s := s', jobs := [] } s.lockedOrd ∧ s'.locked0 = jobs.map jobRec0 ∧
      s'.seed = s.seed ∧ s'.entropy = s.seed ∧ s'.spawned = s.spawned ∧ s'.cstep = s.cstep ∧
      s'.mainDraws = 0 ∧ s'.restarted = true ∧ s'.rgenRestored = false := by
  have hc := hm.core
  obtain ⟨r1, r2, r3, r4, r5, r6, r7, r8⟩ := restore_continues h
  obtain ⟨_, _, _, _, _, _, t7, _, t9, t10⟩ := restore_spec h
  have hl0 : s'.locked0 = jobs.map jobRec0 := by
    rw [t7]
    simp only [persist, hm.recd, List.map_map]
    apply List.map_congr_left
    intro j _
    simp [jobRec, jobRec0, slotOf, off, List.map_map, Function.comp_def]
  have hmd : s'.mainDraws = 0 := by
    unfold restore at h
    exact (loadPaths_quiet h).1.mainDraws
  unfold restore at h
  simp only [] at h
  -- the live paths: n − 1 path numbers in slot order
  have hact : (persist s).active = s.trajs.dropLast := rfl
  have hlen : (s.trajs.dropLast).length = s.n - 1 := by simp [hc.lenT]
  have hget : ∀ i, i < s.n - 1 → (s.trajs.dropLast)[i]? = s.trajs[i]? := by
    intro i hi
    rw [List.getElem?_dropLast, if_pos (by rw [hc.lenT]; exact hi)]
  have hsomes : ∀ x ∈ s.trajs.dropLast, ∃ pn, x = some pn := by
    intro x hx
    obtain ⟨i, hi⟩ := List.mem_iff_getElem?.mp hx
    have hilt : i < s.n - 1 := by rw [← hlen]; exact getElem?_lt_of_some _ _ _ hi
    obtain ⟨pn, hpn, _⟩ := hc.live i hilt
    rw [hget i hilt, hpn] at hi
    exact ⟨pn, by simpa using hi.symm⟩
  have hmap := filterMap_id_somes (s.trajs.dropLast) hsomes
  generalize hp : (s.trajs.dropLast).filterMap id = pns at hmap
  have hpl : pns.length = s.n - 1 := by rw [← hlen, ← hmap, List.length_map]
  rw [hact, ← hmap, filterMap_map_some] at h
  have R := loadPaths_range (by simp [blank]) h
  simp only [List.length_map, List.map_map] at R
  have hfe : ∀ e, e < s.n - 1 → s.trajs[e]? = some (some ((pns.map id).getD e 0)) := by
    intro e he
    rw [← hget e he, ← hmap, List.getElem?_map, List.map_id, List.getD_eq_getElem?_getD,
      List.getElem?_eq_getElem (by omega)]
    rfl
  have hcomp : ((fun x : Nat × List Rat × List Rat => x.1) ∘ fun pn =>
      (pn, weightOf pn, (List.lookup pn (persist s).frac).getD (List.replicate s.n 0))) = id := rfl
  rw [hcomp, hpl] at R
  have hn' : s'.n = s.n := R.n
  have hin : ∀ e, e < s.n - 1 → s'.trajs[e]? = s.trajs[e]? ∧ s'.locks[e]? = some false ∧
      entryM s'.W e e ≠ 0 := by
    intro e he
    obtain ⟨_, a2, a3, a4⟩ := R.inside e (Nat.zero_le _) he
    exact ⟨by rw [a2, hfe e he], a3, a4⟩
  have hn2 := hc.n2
  have hghost : s'.locks[s.n - 1]? = some true := by
    rw [(R.outside (s.n - 1) (Or.inr (Nat.le_refl _))).2.1]
    show (List.replicate s.n true)[s.n - 1]? = some true
    rw [List.getElem?_replicate, if_pos (by omega)]
  have hcore : Core (strip s') [] s.trajNum := by
    constructor
    · show 2 ≤ s'.n; rw [hn']; exact hn2
    · show s'.W.length = s'.n; rw [R.lenW, hn']; simp [blank]
    · show s'.trajs.length = s'.n; rw [R.lenT, hn']; simp [blank]
    · show s'.locks.length = s'.n; rw [R.lenL, hn']; simp [blank]
    · show s'.locks[s'.n - 1]? = some true; rw [hn']; exact hghost
    · intro e he
      have he' : e < s.n - 1 := by
        have : (strip s').n = s'.n := rfl
        rw [this, hn'] at he; exact he
      show s'.locks[e]? = some true ↔ _
      rw [(hin e he').2.1]
      simp
    · simp
    · intro e pn hm'; simp at hm'
    · intro e he
      have he' : e < s.n - 1 := by
        have : (strip s').n = s'.n := rfl
        rw [this, hn'] at he; exact he
      show ∃ pn, s'.trajs[e]? = some (some pn) ∧ pn < s.trajNum
      rw [(hin e he').1]
      exact hc.live e he'
    · intro a b pn ha hb h1 h2
      have ha' : a < s.n - 1 := by
        have : (strip s').n = s'.n := rfl
        rw [this, hn'] at ha; exact ha
      have hb' : b < s.n - 1 := by
        have : (strip s').n = s'.n := rfl
        rw [this, hn'] at hb; exact hb
      have h1' : s.trajs[a]? = some (some pn) := by rw [← (hin a ha').1]; exact h1
      have h2' : s.trajs[b]? = some (some pn) := by rw [← (hin b hb').1]; exact h2
      exact hc.inj a b pn ha' hb' h1' h2'
    · rfl
  have htn : s'.trajNum = s.trajNum := by rw [R.trajNum]; rfl
  refine ⟨?_, hl0, r1, r2, r3, r7, hmd, t9, t10⟩
  constructor
  · show Core (strip s') (held []) s'.trajNum
    rw [htn]; exact hcore
  · intro j hj; simp at hj
  · show s'.locked = [].map jobRec
    rw [r4]; rfl
  · show s'.lockedOrd.length = 0
    rw [r5]; rfl
  · intro jo hjo; simp at hjo
  · -- every record describes the restored state
    intro r hr
    show RecOK s' r
    rw [hl0] at hr
    obtain ⟨j, hj, rfl⟩ := List.mem_map.mp hr
    have hsh := hm.shape j hj
    refine ⟨by simp [jobRec0], ?_, ?_⟩
    · rcases hsh.shape with h1 | h1
      · left; simpa [jobRec0] using h1
      · right
        have : j.picked.map slotOf = (j.picked.map (·.ens)).map (fun e => (e + 1).toNat) := by
          simp [List.map_map, Function.comp_def, slotOf]
        show j.picked.map slotOf = [0, 1]
        rw [this, h1]; rfl
    · intro x hx
      have hxh : x ∈ held jobs := by
        simp only [jobRec0, List.zip_map'] at hx
        exact List.mem_flatMap.mpr ⟨j, hj, hx⟩
      obtain ⟨e1, e2, _⟩ := hc.heldOk x.1 x.2 hxh
      obtain ⟨i1, i2, i3⟩ := hin x.1 e1
      exact ⟨by rw [hn']; exact e1, by rw [i1]; exact e2, i2, i3⟩
  · show (s'.locked0.flatMap (·.1)).Nodup
    have e : (jobs.map jobRec0).flatMap (·.1) = (held jobs).map Prod.fst := by
      simp only [held, heldJob, jobRec0, List.flatMap_map, List.map_flatMap, List.map_map, Function.comp_def]
    rw [hl0, e]
    exact hc.nodup
  · show s'.locked0Ord = s.lockedOrd.map some
    exact r8
  · show s.lockedOrd.length = s'.locked0.length
    rw [hl0, List.length_map, hm.ordLen]
  · show s'.spawned = s'.cstep + s'.locked.length + s'.locked0.length
    rw [r3, r7, r4, r6, hm.count]; simp
  · intro o ho
    show o < s'.spawned
    rw [r3]
    rw [show ({ s := s', jobs := [] } : Sys).s.lockedOrd = s'.lockedOrd from rfl, r5] at ho
    exact hm.ordLt o (by simpa using ho)
  · show (s'.lockedOrd ++ s.lockedOrd).Nodup
    rw [r5]; simpa using hm.ordNodup

end Infretis.Repex
