import Infretis.Model.Repex
/-!
Counter preservation: every operation of the replica-exchange state machine except `initiate`
and `loop` leaves `cstep`, `tsteps`, `workers` and `toinitiate` unchanged.  (Used by C17.)
-/
namespace Infretis.Repex

/-- the scheduler's counters -/
structure Ctr where
  cstep : Nat
  tsteps : Nat
  workers : Nat
  toinitiate : Int
deriving DecidableEq

def ctr (s : St) : Ctr := ⟨s.cstep, s.tsteps, s.workers, s.toinitiate⟩

@[simp] theorem ctr_swap (s : St) (t e : Nat) : ctr (swap s t e) = ctr s := rfl

theorem ctr_lock {s s' : St} {e : Nat} (h : lock s e = .ok s') : ctr s' = ctr s := by
  unfold lock at h
  split at h <;> simp at h
  subst h; rfl

theorem ctr_unlock {s s' : St} {e : Nat} (h : unlock s e = .ok s') : ctr s' = ctr s := by
  unfold unlock at h
  split at h <;> simp at h
  subst h; rfl

theorem ctr_pickCore {s s' : St} {o : PickOutcome} {pairs ds}
    (h : pickCore s o = .ok (s', pairs, ds)) : ctr s' = ctr s := by
  unfold pickCore at h
  grind [ctr_lock, ctr_swap]

theorem ctr_pick {s s' : St} {o : PickOutcome} {ps ds}
    (h : pick s o = .ok (s', ps, ds)) : ctr s' = ctr s := by
  unfold pick at h
  split at h
  · simp at h
  · rename_i s1 pairs ds1 h1
    have c1 := ctr_pickCore h1
    split at h
    · simp at h
    · simp at h
      rw [← h.1, ← c1]; rfl

theorem ctr_restoreStreamOnce (s : St) (k : Nat) : ctr (restoreStreamOnce s k) = ctr s := by
  unfold restoreStreamOnce
  split <;> rfl

theorem ctr_reissue_go : ∀ (l : List (Nat × Nat)) {s s' : St} {ps},
    reissue.go s l = .ok (s', ps) → ctr s' = ctr s := by
  intro l
  induction l with
  | nil => intro s s' ps h; simp [reissue.go] at h; rw [← h.1]
  | cons x rest ih =>
    intro s s' ps h
    obtain ⟨e, tr⟩ := x
    simp only [reissue.go] at h
    grind [ctr_lock, ctr_swap]

theorem ctr_pickLock {s s' : St} {o : PickOutcome} {k : Nat} {ps ds}
    (h : pickLock s o k = .ok (s', ps, ds)) : ctr s' = ctr s := by
  unfold pickLock at h
  split at h
  · rw [ctr_pick h, ctr_restoreStreamOnce]
  · rename_i enss0 trajs0 rest hl
    split at h
    · simp at h
    · rename_i s1 pairs h1
      unfold reissue at h1
      have c1 := ctr_reissue_go _ h1
      split at h
      · simp at h
      · simp at h
        rw [← h.1, ← (show ctr s1 = ctr s from c1)]; rfl

theorem ctr_prep {s s' : St} {prev : Option Nat} {o : PickOutcome} {k : Nat} {job ds}
    (h : prep s prev o k = .ok (s', job, ds)) : ctr s' = ctr s := by
  unfold prep at h
  simp only at h
  split at h
  · simp at h
  · rename_i s1 ps ds1 h1
    have c1 : ctr s1 = ctr s := by
      split at h1
      · exact ctr_pickLock h1
      · exact ctr_pick h1
    split at h
    · simp at h
    · split at h
      · simp at h
      · split at h
        · simp at h
        · simp at h
          rw [← h.1, ← c1]; rfl

theorem ctr_addTraj {s s' : St} {ens : Int} {pn : Nat} {v : List Rat}
    (h : addTraj s ens pn v = .ok s') : ctr s' = ctr s := by
  unfold addTraj at h
  simp only at h
  split at h
  · simp at h
  · split at h
    · simp at h
    · split at h
      · simp at h
      · split at h
        · simp at h
        · exact (ctr_unlock h).trans rfl

theorem ctr_sortStep {s s' : St} (h : sortStep s = .ok (some s')) : ctr s' = ctr s := by
  unfold sortStep at h
  grind [ctr_swap]

theorem ctr_sortTrajstate : ∀ (fuel : Nat) {s s' : St} {k : Nat},
    sortTrajstate fuel s = .ok (s', k) → ctr s' = ctr s := by
  intro fuel
  induction fuel with
  | zero => intro s s' k h; simp [sortTrajstate] at h
  | succ f ih =>
    intro s s' k h
    simp only [sortTrajstate] at h
    grind [ctr_sortStep]

theorem ctr_recordFrac {s s' : St} (h : recordFrac s = .ok s') : ctr s' = ctr s := by
  unfold recordFrac at h
  simp only at h
  split at h
  · simp at h
  · simp at h
    rw [← h]; rfl

theorem ctr_writeRows : ∀ (l : List Nat) {s s' : St}, writeRows s l = .ok s' → ctr s' = ctr s := by
  intro l
  induction l with
  | nil => intro s s' h; simp [writeRows] at h; rw [h]
  | cons pn rest ih =>
    intro s s' h
    simp only [writeRows] at h
    split at h
    · rw [ih h]; rfl
    · simp at h

theorem ctr_perEns (status : Status) : ∀ (l : List (Picked × List Rat)) {s s' : St} {tn tn' : Nat} {pns},
    treatOutput.perEns status s tn l = .ok (s', tn', pns) → ctr s' = ctr s := by
  intro l
  induction l with
  | nil => intro s s' tn tn' pns h; simp [treatOutput.perEns] at h; rw [← h.1]
  | cons x rest ih =>
    intro s s' tn tn' pns h
    obtain ⟨p, w⟩ := x
    simp only [treatOutput.perEns] at h
    split at h
    · split at h
      · simp at h
      · rename_i s3 h3
        split at h
        · simp at h
        · rename_i s4 tn4 pns4 h4
          simp at h
          rw [← h.1, ih h4, ctr_addTraj h3]; rfl
    · split at h
      · simp at h
      · split at h
        · simp at h
        · rename_i s3 h3
          split at h
          · simp at h
          · rename_i s4 tn4 pns4 h4
            simp at h
            rw [← h.1, ih h4, ctr_addTraj h3]; rfl

theorem ctr_treatOutput {s s' : St} {job : Job} {status : Status} {newW} {fuel : Nat} {pns k}
    (h : treatOutput s job status newW fuel = .ok (s', pns, k)) : ctr s' = ctr s := by
  unfold treatOutput at h
  simp only at h
  generalize (if status = Status.acc then newW else job.picked.map (fun _ => [])) = ws at h
  split at h
  · simp at h
  · split at h
    · simp at h
    · rename_i s1 tn pnNews h1
      have c1 := ctr_perEns _ _ h1
      split at h
      · simp at h
      · rename_i s2 h2
        have c2 := ctr_recordFrac h2
        split at h
        · simp at h
        · rename_i s3 h3
          have c3 : ctr s3 = ctr s2 := by
            split at h3
            · exact ctr_writeRows _ h3
            · simp at h3; rw [h3]
          split at h
          · simp at h
          · rename_i s4 iters h4
            have c4 := ctr_sortTrajstate _ h4
            simp at h
            rw [← h.1, ← c1, ← c2, ← c3, ← c4]; rfl

end Infretis.Repex
