import Infretis.Model.Runner
import Mathlib.Data.List.Nodup
/-!
Helper lemmas for C17 (runner half): the history invariant `Inv s tr` linking the state reached
by an accepted event list `tr` to the projections of `tr`, proved by induction over the event
list (appending one event at the end).
-/
set_option linter.unusedSimpArgs false
namespace Infretis.Runner

/-! ### running event lists -/

theorem run_append (s : State) (a b : List Event) :
    run s (a ++ b) = (run s a).bind (fun s' => run s' b) := by
  induction a generalizing s with
  | nil => simp [run]
  | cons e a ih =>
    simp only [List.cons_append, run]
    cases h : step s e with
    | none => simp
    | some s' => simp [ih]

theorem run_snoc {s s' : State} {tr : List Event} {e : Event}
    (h : run s (tr ++ [e]) = some s') : ∃ s1, run s tr = some s1 ∧ step s1 e = some s' := by
  rw [run_append] at h
  cases h1 : run s tr with
  | none => simp [h1] at h
  | some s1 =>
    refine ⟨s1, rfl, ?_⟩
    simp only [h1, Option.bind_some, run] at h
    cases h2 : step s1 e with
    | none => simp [h2] at h
    | some s2 => simpa [h2] using h

/-- an accepted trace splits at any event into an accepted prefix, an allowed step, and the rest -/
theorem run_split {s s' : State} {pre post : List Event} {e : Event}
    (h : run s (pre ++ e :: post) = some s') :
    ∃ s1 s2, run s pre = some s1 ∧ step s1 e = some s2 ∧ run s2 post = some s' := by
  rw [run_append] at h
  cases h1 : run s pre with
  | none => simp [h1] at h
  | some s1 =>
    simp only [h1, Option.bind_some, run] at h
    cases h2 : step s1 e with
    | none => simp [h2] at h
    | some s2 => exact ⟨s1, s2, rfl, h2, by simpa [h2] using h⟩

/-! ### projections of `tr ++ [e]` -/

@[simp] theorem subSeq_append (a b : List Event) : subSeq (a ++ b) = subSeq a ++ subSeq b := by
  simp [subSeq]
@[simp] theorem takes_append (a b : List Event) : takes (a ++ b) = takes a ++ takes b := by
  simp [takes]
@[simp] theorem takenSeq_append (a b : List Event) : takenSeq (a ++ b) = takenSeq a ++ takenSeq b := by
  simp [takenSeq]
@[simp] theorem fins_append (a b : List Event) : fins (a ++ b) = fins a ++ fins b := by
  simp [fins]
@[simp] theorem finUnits_append (a b : List Event) : finUnits (a ++ b) = finUnits a ++ finUnits b := by
  simp [finUnits]
@[simp] theorem cols_append (a b : List Event) : cols (a ++ b) = cols a ++ cols b := by
  simp [cols]
@[simp] theorem colUnits_append (a b : List Event) : colUnits (a ++ b) = colUnits a ++ colUnits b := by
  simp [colUnits]

theorem mem_subSeq {u : Nat} {tr : List Event} : u ∈ subSeq tr ↔ Event.submit u ∈ tr := by
  simp only [subSeq, List.mem_filterMap]
  constructor
  · rintro ⟨e, he, h⟩
    cases e <;> simp at h
    subst h; exact he
  · intro h; exact ⟨_, h, rfl⟩

theorem mem_takes {w u : Nat} {tr : List Event} : (w, u) ∈ takes tr ↔ Event.take w u ∈ tr := by
  simp only [takes, List.mem_filterMap]
  constructor
  · rintro ⟨e, he, h⟩
    cases e <;> simp at h
    obtain ⟨rfl, rfl⟩ := h; exact he
  · intro h; exact ⟨_, h, rfl⟩

theorem mem_fins {w u : Nat} {o : Outcome} {tr : List Event} :
    (w, u, o) ∈ fins tr ↔ Event.finish w u o ∈ tr := by
  simp only [fins, List.mem_filterMap]
  constructor
  · rintro ⟨e, he, h⟩
    cases e <;> simp at h
    obtain ⟨rfl, rfl, rfl⟩ := h; exact he
  · intro h; exact ⟨_, h, rfl⟩

theorem mem_cols {u : Nat} {o : Outcome} {tr : List Event} :
    (u, o) ∈ cols tr ↔ Event.collect u o ∈ tr := by
  simp only [cols, List.mem_filterMap]
  constructor
  · rintro ⟨e, he, h⟩
    cases e <;> simp at h
    obtain ⟨rfl, rfl⟩ := h; exact he
  · intro h; exact ⟨_, h, rfl⟩

theorem mem_takenSeq {u : Nat} {tr : List Event} : u ∈ takenSeq tr ↔ ∃ w, Event.take w u ∈ tr := by
  simp only [takenSeq, List.mem_map, Prod.exists]
  constructor
  · rintro ⟨w, u', h, rfl⟩; exact ⟨w, mem_takes.1 h⟩
  · rintro ⟨w, h⟩; exact ⟨w, u, mem_takes.2 h, rfl⟩

theorem mem_finUnits {u : Nat} {tr : List Event} :
    u ∈ finUnits tr ↔ ∃ w o, Event.finish w u o ∈ tr := by
  simp only [finUnits, List.mem_map, Prod.exists]
  constructor
  · rintro ⟨w, u', o, h, rfl⟩; exact ⟨w, o, mem_fins.1 h⟩
  · rintro ⟨w, o, h⟩; exact ⟨w, u, o, mem_fins.2 h, rfl⟩

theorem mem_colUnits {u : Nat} {tr : List Event} :
    u ∈ colUnits tr ↔ ∃ o, Event.collect u o ∈ tr := by
  simp only [colUnits, List.mem_map, Prod.exists]
  constructor
  · rintro ⟨u', o, h, rfl⟩; exact ⟨o, mem_cols.1 h⟩
  · rintro ⟨o, h⟩; exact ⟨u, o, mem_cols.2 h, rfl⟩

/-- the done futures as a function of the history -/
def doneOf (tr : List Event) : List (Nat × Outcome) :=
  ((fins tr).map (fun p => (p.2.1, p.2.2))).reverse

theorem doneOf_keys (tr : List Event) : (doneOf tr).map (·.1) = (finUnits tr).reverse := by
  simp [doneOf, finUnits, List.map_reverse]

theorem mem_doneOf {u : Nat} {o : Outcome} {tr : List Event} :
    (u, o) ∈ doneOf tr ↔ ∃ w, Event.finish w u o ∈ tr := by
  simp only [doneOf, List.mem_reverse, List.mem_map, Prod.exists, Prod.mk.injEq]
  constructor
  · rintro ⟨w, u', o', h, rfl, rfl⟩; exact ⟨w, mem_fins.1 h⟩
  · rintro ⟨w, h⟩; exact ⟨w, u, o, mem_fins.2 h, rfl, rfl⟩

theorem isDone_iff {s : State} {u : Nat} : isDone s u = true ↔ u ∈ s.done.map (·.1) := by
  simp [isDone]

/-! ### the history invariant -/

structure Inv (s : State) (tr : List Event) : Prop where
  sub_eq : s.submitted = subSeq tr
  fifo : subSeq tr = takenSeq tr ++ s.queue
  sub_nodup : (subSeq tr).Nodup
  done_eq : s.done = doneOf tr
  col_eq : s.collected = (colUnits tr).reverse
  run_taken : ∀ w u, (w, u) ∈ s.running → (w, u) ∈ takes tr
  run_notdone : ∀ w u, (w, u) ∈ s.running → u ∉ finUnits tr
  taken_cases : ∀ w u, (w, u) ∈ takes tr → (w, u) ∈ s.running ∨ ∃ o, (w, u, o) ∈ fins tr
  fin_taken : ∀ w u o, (w, u, o) ∈ fins tr → (w, u) ∈ takes tr
  fin_nodup : (finUnits tr).Nodup
  workers_nodup : (s.running.map (·.1)).Nodup
  workers_lt : ∀ w u, (w, u) ∈ s.running → w < s.nw
  col_nodup : (colUnits tr).Nodup
  col_done : ∀ u o, (u, o) ∈ cols tr → (u, o) ∈ doneOf tr
  stopped_queue : s.stopped = true → s.queue = []
  len : s.submitted.length = s.queue.length + s.running.length + s.done.length

theorem inv_init (nw : Nat) : Inv (init nw) [] := by
  constructor <;> simp [init, subSeq, takenSeq, takes, fins, finUnits, cols, colUnits, doneOf]

theorem takenSeq_nodup {s : State} {tr : List Event} (h : Inv s tr) : (takenSeq tr).Nodup := by
  have := h.sub_nodup
  rw [h.fifo] at this
  exact (List.nodup_append.1 this).1


theorem nodup_map_inj {α β : Type} {f : α → β} : ∀ {l : List α}, (l.map f).Nodup →
    ∀ {a b : α}, a ∈ l → b ∈ l → f a = f b → a = b
  | [], _, _, _, ha, _, _ => by simp at ha
  | x :: l, h, a, b, ha, hb, hab => by
    simp only [List.map_cons, List.nodup_cons, List.mem_map, not_exists, not_and] at h
    simp only [List.mem_cons] at ha hb
    rcases ha with rfl | ha <;> rcases hb with rfl | hb
    · rfl
    · exact absurd hab.symm (h.1 b hb)
    · exact absurd hab (h.1 a ha)
    · exact nodup_map_inj h.2 ha hb hab

theorem nodup_of_map {α β : Type} (f : α → β) : ∀ {l : List α}, (l.map f).Nodup → l.Nodup
  | [], _ => List.nodup_nil
  | x :: l, h => by
    simp only [List.map_cons, List.nodup_cons, List.mem_map, not_exists, not_and] at h
    exact List.nodup_cons.2 ⟨fun hx => h.1 x hx rfl, nodup_of_map f h.2⟩

theorem finUnits_snoc_finish (tr : List Event) (w u : Nat) (o : Outcome) :
    finUnits (tr ++ [.finish w u o]) = finUnits tr ++ [u] := by
  rw [finUnits_append]; rfl

theorem doneOf_snoc_finish (tr : List Event) (w u : Nat) (o : Outcome) :
    doneOf (tr ++ [.finish w u o]) = (u, o) :: doneOf tr := by
  have hfn : fins [Event.finish w u o] = [(w, u, o)] := rfl
  simp [doneOf, hfn]

/-! ### one step preserves the invariant -/

theorem inv_submit {s s' : State} {tr : List Event} {u : Nat} (h : Inv s tr)
    (hs : step s (.submit u) = some s') : Inv s' (tr ++ [.submit u]) := by
  simp only [step] at hs
  split at hs
  · simp at hs
  · rename_i hc
    simp only [Bool.or_eq_true, List.contains_eq_mem, decide_eq_true_eq, not_or, Bool.not_eq_true] at hc
    obtain ⟨hst, hu⟩ := hc
    injection hs with hs; subst hs
    have hsub : subSeq [Event.submit u] = [u] := rfl
    have htk : takes [Event.submit u] = [] := rfl
    have hfn : fins [Event.submit u] = [] := rfl
    have hcl : cols [Event.submit u] = [] := rfl
    constructor <;> simp only [subSeq_append, takenSeq_append, takes_append, fins_append,
      finUnits_append, cols_append, colUnits_append, hsub, htk, hfn, hcl, takenSeq, finUnits,
      colUnits, doneOf, List.map_nil, List.append_nil, List.map_append]
    · rw [h.sub_eq]
    · have := h.fifo; simp only [takenSeq] at this; rw [this]; simp
    · rw [h.sub_eq] at hu
      exact List.nodup_append.2 ⟨h.sub_nodup, by simp, by
        intro a ha b hb; simp at hb; subst hb; intro hab; subst hab; exact hu ha⟩
    · exact h.done_eq
    · exact h.col_eq
    · exact h.run_taken
    · exact h.run_notdone
    · exact h.taken_cases
    · exact h.fin_taken
    · exact h.fin_nodup
    · exact h.workers_nodup
    · exact h.workers_lt
    · exact h.col_nodup
    · exact h.col_done
    · intro hh; simp [hst] at hh
    · have := h.len; simp only [List.length_append, List.length_singleton]; omega

theorem inv_take {s s' : State} {tr : List Event} {w u : Nat} (h : Inv s tr)
    (hs : step s (.take w u) = some s') : Inv s' (tr ++ [.take w u]) := by
  simp only [step] at hs
  split at hs
  · simp at hs
  · rename_i hc
    simp only [Bool.or_eq_true, Bool.not_eq_true', decide_eq_false_iff_not, not_or,
      Bool.not_eq_true, Nat.not_lt, Nat.not_le] at hc
    obtain ⟨⟨hst, hw⟩, hbusy⟩ := hc
    split at hs
    · simp at hs
    · rename_i hd t hq
      split at hs
      · rename_i hhu
        have hhu : hd = u := by simpa using hhu
        subst hhu
        injection hs with hs; subst hs
        have hsub : subSeq [Event.take w hd] = [] := rfl
        have htk : takes [Event.take w hd] = [(w, hd)] := rfl
        have hfn : fins [Event.take w hd] = [] := rfl
        have hcl : cols [Event.take w hd] = [] := rfl
        have hfifo := h.fifo
        rw [hq] at hfifo
        have hnd := h.sub_nodup
        constructor <;> simp only [subSeq_append, takenSeq_append, takes_append, fins_append,
          finUnits_append, cols_append, colUnits_append, hsub, htk, hfn, hcl, takenSeq, finUnits,
          colUnits, doneOf, List.map_nil, List.append_nil, List.map_append]
        · exact h.sub_eq
        · simp only [takenSeq] at hfifo; rw [hfifo]; simp
        · exact h.sub_nodup
        · exact h.done_eq
        · exact h.col_eq
        · intro w' u' hm
          simp only [List.mem_cons, Prod.mk.injEq] at hm
          rcases hm with ⟨rfl, rfl⟩ | hm
          · simp
          · exact List.mem_append_left _ (h.run_taken _ _ hm)
        · intro w' u' hm
          simp only [List.mem_cons, Prod.mk.injEq] at hm
          rcases hm with ⟨rfl, rfl⟩ | hm
          · -- the head of the queue has not been taken, hence not finished
            intro hf
            have hf' : u' ∈ finUnits tr := hf
            obtain ⟨w2, o2, hf2⟩ := mem_finUnits.1 hf'
            have ht := h.fin_taken _ _ _ (mem_fins.2 hf2)
            have : u' ∈ takenSeq tr := mem_takenSeq.2 ⟨w2, mem_takes.1 ht⟩
            rw [hfifo] at hnd
            exact (List.nodup_append.1 hnd).2.2 _ this _ (List.mem_cons_self) rfl
          · exact h.run_notdone _ _ hm
        · intro w' u' hm
          simp only [List.mem_append, List.mem_singleton, Prod.mk.injEq] at hm
          rcases hm with hm | ⟨rfl, rfl⟩
          · rcases h.taken_cases _ _ hm with h1 | h1
            · exact Or.inl (List.mem_cons_of_mem _ h1)
            · exact Or.inr h1
          · exact Or.inl List.mem_cons_self
        · intro w' u' o' hm
          exact List.mem_append_left _ (h.fin_taken _ _ _ hm)
        · exact h.fin_nodup
        · simp only [List.map_cons, List.nodup_cons]
          refine ⟨?_, h.workers_nodup⟩
          intro hm
          simp only [List.mem_map, Prod.exists] at hm
          obtain ⟨a, b, hab, rfl⟩ := hm
          simp only [workerBusy, List.any_eq_false, beq_iff_eq, Prod.forall] at hbusy
          exact hbusy a b hab rfl
        · intro w' u' hm
          simp only [List.mem_cons, Prod.mk.injEq] at hm
          rcases hm with ⟨rfl, rfl⟩ | hm
          · exact hw
          · exact h.workers_lt _ _ hm
        · exact h.col_nodup
        · exact h.col_done
        · intro hh; simp [hst] at hh
        · have := h.len; rw [hq] at this
          simp only [List.length_cons] at this ⊢; omega
      · simp at hs

theorem inv_finish {s s' : State} {tr : List Event} {w u : Nat} {o : Outcome} (h : Inv s tr)
    (hs : step s (.finish w u o) = some s') : Inv s' (tr ++ [.finish w u o]) := by
  simp only [step] at hs
  split at hs
  · rename_i hc
    simp only [Bool.and_eq_true, List.contains_eq_mem, decide_eq_true_eq, Bool.not_eq_true',
      ] at hc
    obtain ⟨hrun, hnd⟩ := hc
    have hnd : u ∉ finUnits tr := by
      intro hm
      have : isDone s u = true := by
        rw [isDone_iff, h.done_eq, doneOf_keys]; simpa using hm
      simp [this] at hnd
    injection hs with hs; subst hs
    have hsub : subSeq [Event.finish w u o] = [] := rfl
    have htk : takes [Event.finish w u o] = [] := rfl
    have hfn : fins [Event.finish w u o] = [(w, u, o)] := rfl
    have hcl : cols [Event.finish w u o] = [] := rfl
    have hpairs : s.running.Nodup := nodup_of_map _ h.workers_nodup
    have hother : ∀ w' u', (w', u') ∈ s.running.erase (w, u) → u' ≠ u := by
      intro w' u' hm hu
      subst hu
      rw [hpairs.mem_erase_iff] at hm
      obtain ⟨hne, hm⟩ := hm
      have h1 := h.run_taken _ _ hm
      have h2 := h.run_taken _ _ hrun
      have := nodup_map_inj (f := fun p : Nat × Nat => p.2) (takenSeq_nodup h) h1 h2 rfl
      exact hne this
    constructor
    · simpa [hsub] using h.sub_eq
    · simpa [hsub, htk, takenSeq] using h.fifo
    · simpa [hsub] using h.sub_nodup
    · rw [doneOf_snoc_finish]; simp [h.done_eq]
    · simpa [hcl, colUnits] using h.col_eq
    · intro w' u' hm
      simpa [htk] using h.run_taken _ _ (List.mem_of_mem_erase hm)
    · intro w' u' hm
      rw [finUnits_snoc_finish]
      simp only [List.mem_append, List.mem_singleton, not_or]
      exact ⟨h.run_notdone _ _ (List.mem_of_mem_erase hm), hother _ _ hm⟩
    · intro w' u' hm
      simp only [takes_append, htk, List.append_nil] at hm
      rcases h.taken_cases _ _ hm with h1 | ⟨o', h1⟩
      · by_cases heq : (w', u') = (w, u)
        · injection heq with e1 e2; subst e1; subst e2
          exact Or.inr ⟨o, by simp [hfn]⟩
        · exact Or.inl ((List.mem_erase_of_ne heq).2 h1)
      · exact Or.inr ⟨o', by simp [h1]⟩
    · intro w' u' o' hm
      simp only [fins_append, hfn, List.mem_append, List.mem_singleton, Prod.mk.injEq] at hm
      simp only [takes_append, htk, List.append_nil]
      rcases hm with hm | ⟨rfl, rfl, rfl⟩
      · exact h.fin_taken _ _ _ hm
      · exact h.run_taken _ _ hrun
    · rw [finUnits_snoc_finish]
      exact List.nodup_append.2 ⟨h.fin_nodup, by simp, by
        intro a ha b hb; simp at hb; subst hb; intro hab; subst hab; exact hnd ha⟩
    · exact h.workers_nodup.sublist (List.Sublist.map _ List.erase_sublist)
    · intro w' u' hm
      exact h.workers_lt _ _ (List.mem_of_mem_erase hm)
    · simpa [hcl, colUnits] using h.col_nodup
    · intro u' o' hm
      simp only [cols_append, hcl, List.append_nil] at hm
      rw [doneOf_snoc_finish]
      exact List.mem_cons_of_mem _ (h.col_done _ _ hm)
    · exact h.stopped_queue
    · have := h.len
      have hl := List.length_erase_of_mem hrun
      have hpos : 0 < s.running.length := List.length_pos_of_mem hrun
      simp only [List.length_cons, hl]; omega
  · simp at hs

theorem colUnits_snoc_collect (tr : List Event) (u : Nat) (o : Outcome) :
    colUnits (tr ++ [.collect u o]) = colUnits tr ++ [u] := by
  rw [colUnits_append]; rfl

theorem inv_collect {s s' : State} {tr : List Event} {u : Nat} {o : Outcome} (h : Inv s tr)
    (hs : step s (.collect u o) = some s') : Inv s' (tr ++ [.collect u o]) := by
  simp only [step] at hs
  split at hs
  · rename_i hc
    simp only [Bool.and_eq_true, List.contains_eq_mem, decide_eq_true_eq, Bool.not_eq_true',
      decide_eq_false_iff_not] at hc
    obtain ⟨hdone, hnc⟩ := hc
    rw [h.col_eq, List.mem_reverse] at hnc
    rw [h.done_eq] at hdone
    injection hs with hs; subst hs
    have hsub : subSeq [Event.collect u o] = [] := rfl
    have htk : takes [Event.collect u o] = [] := rfl
    have hfn : fins [Event.collect u o] = [] := rfl
    have hcl : cols [Event.collect u o] = [(u, o)] := rfl
    have hdo : doneOf (tr ++ [Event.collect u o]) = doneOf tr := by simp [doneOf, hfn]
    constructor
    · simpa [hsub] using h.sub_eq
    · simpa [hsub, htk, takenSeq] using h.fifo
    · simpa [hsub] using h.sub_nodup
    · rw [hdo]; exact h.done_eq
    · rw [colUnits_snoc_collect]; simp [h.col_eq]
    · intro w' u' hm
      simpa [htk] using h.run_taken _ _ hm
    · intro w' u' hm
      simpa [finUnits, hfn] using h.run_notdone _ _ hm
    · intro w' u' hm
      simp only [takes_append, htk, List.append_nil] at hm
      simpa [hfn] using h.taken_cases _ _ hm
    · intro w' u' o' hm
      simp only [fins_append, hfn, List.append_nil] at hm
      simpa [htk] using h.fin_taken _ _ _ hm
    · simpa [finUnits, hfn] using h.fin_nodup
    · exact h.workers_nodup
    · exact h.workers_lt
    · rw [colUnits_snoc_collect]
      exact List.nodup_append.2 ⟨h.col_nodup, by simp, by
        intro a ha b hb; simp at hb; subst hb; intro hab; subst hab; exact hnc ha⟩
    · intro u' o' hm
      rw [hdo]
      simp only [cols_append, hcl, List.mem_append, List.mem_singleton, Prod.mk.injEq] at hm
      rcases hm with hm | ⟨rfl, rfl⟩
      · exact h.col_done _ _ hm
      · exact hdone
    · exact h.stopped_queue
    · exact h.len
  · simp at hs

theorem inv_stop {s s' : State} {tr : List Event} (h : Inv s tr)
    (hs : step s .stop = some s') : Inv s' (tr ++ [.stop]) := by
  simp only [step] at hs
  split at hs
  · simp at hs
  · rename_i hc
    simp only [Bool.or_eq_true, Bool.not_eq_true', List.isEmpty_eq_false_iff, not_or,
      Bool.not_eq_true, ne_eq, Decidable.not_not] at hc
    obtain ⟨_, hq⟩ := hc
    injection hs with hs; subst hs
    have hsub : subSeq [Event.stop] = [] := rfl
    have htk : takes [Event.stop] = [] := rfl
    have hfn : fins [Event.stop] = [] := rfl
    have hcl : cols [Event.stop] = [] := rfl
    have hdo : doneOf (tr ++ [Event.stop]) = doneOf tr := by simp [doneOf, hfn]
    constructor
    · simpa [hsub] using h.sub_eq
    · simpa [hsub, htk, takenSeq] using h.fifo
    · simpa [hsub] using h.sub_nodup
    · rw [hdo]; exact h.done_eq
    · simpa [colUnits, hcl] using h.col_eq
    · intro w' u' hm
      simpa [htk] using h.run_taken _ _ hm
    · intro w' u' hm
      simpa [finUnits, hfn] using h.run_notdone _ _ hm
    · intro w' u' hm
      simp only [takes_append, htk, List.append_nil] at hm
      simpa [hfn] using h.taken_cases _ _ hm
    · intro w' u' o' hm
      simp only [fins_append, hfn, List.append_nil] at hm
      simpa [htk] using h.fin_taken _ _ _ hm
    · simpa [finUnits, hfn] using h.fin_nodup
    · exact h.workers_nodup
    · exact h.workers_lt
    · simpa [colUnits, hcl] using h.col_nodup
    · intro u' o' hm
      rw [hdo]
      simp only [cols_append, hcl, List.append_nil] at hm
      exact h.col_done _ _ hm
    · intro _; exact hq
    · exact h.len
  
theorem inv_step {s s' : State} {tr : List Event} {e : Event} (h : Inv s tr)
    (hs : step s e = some s') : Inv s' (tr ++ [e]) := by
  cases e with
  | submit u => exact inv_submit h hs
  | take w u => exact inv_take h hs
  | finish w u o => exact inv_finish h hs
  | collect u o => exact inv_collect h hs
  | stop => exact inv_stop h hs

theorem inv_run_from : ∀ (tr pre : List Event) (s s' : State), Inv s pre → run s tr = some s' →
    Inv s' (pre ++ tr)
  | [], pre, s, s', h, hr => by
    simp only [run, Option.some.injEq] at hr; subst hr; simpa using h
  | e :: tr, pre, s, s', h, hr => by
    simp only [run] at hr
    cases h1 : step s e with
    | none => simp [h1] at hr
    | some s1 =>
      simp only [h1] at hr
      have := inv_run_from tr (pre ++ [e]) s1 s' (inv_step h h1) hr
      simpa using this

theorem inv_run {nw : Nat} {tr : List Event} {s : State} (h : run (init nw) tr = some s) :
    Inv s tr := by
  simpa using inv_run_from tr [] (init nw) s (inv_init nw) h

theorem step_nw {s s' : State} {e : Event} (h : step s e = some s') : s'.nw = s.nw := by
  cases e <;> simp only [step] at h <;> (repeat' split at h) <;> simp at h <;> subst h <;> rfl

theorem run_nw : ∀ (tr : List Event) (s s' : State), run s tr = some s' → s'.nw = s.nw
  | [], s, s', h => by simp only [run, Option.some.injEq] at h; subst h; rfl
  | e :: tr, s, s', h => by
    simp only [run] at h
    cases h1 : step s e with
    | none => simp [h1] at h
    | some s1 =>
      simp only [h1] at h
      rw [run_nw tr s1 s' h, step_nw h1]

/-! ### guards of the individual steps -/

theorem step_take_some {s s' : State} {w u : Nat} (h : step s (.take w u) = some s') :
    ∃ t, s.queue = u :: t ∧ s.stopped = false ∧ w < s.nw := by
  simp only [step] at h
  split at h
  · simp at h
  · rename_i hc
    simp only [Bool.or_eq_true, Bool.not_eq_true', decide_eq_false_iff_not, not_or,
      Bool.not_eq_true, Nat.not_lt, Nat.not_le] at hc
    split at h
    · simp at h
    · rename_i hd t hq
      split at h
      · rename_i hhu
        have hhu : hd = u := by simpa using hhu
        subst hhu
        exact ⟨t, hq, hc.1.1, hc.1.2⟩
      · simp at h

theorem step_finish_some {s s' : State} {w u : Nat} {o : Outcome}
    (h : step s (.finish w u o) = some s') : (w, u) ∈ s.running := by
  simp only [step] at h
  split at h
  · rename_i hc
    simp only [Bool.and_eq_true, List.contains_eq_mem, decide_eq_true_eq] at hc
    exact hc.1
  · simp at h

theorem step_collect_some {s s' : State} {u : Nat} {o : Outcome}
    (h : step s (.collect u o) = some s') : (u, o) ∈ s.done := by
  simp only [step] at h
  split at h
  · rename_i hc
    simp only [Bool.and_eq_true, List.contains_eq_mem, decide_eq_true_eq] at hc
    exact hc.1
  · simp at h

/-! ### association lists with distinct keys -/

theorem lookup_eq_some_iff {l : List (Nat × Outcome)} (hnd : (l.map (·.1)).Nodup) (u : Nat) (o : Outcome) :
    l.lookup u = some o ↔ (u, o) ∈ l := by
  induction l with
  | nil => simp
  | cons p l ih =>
    obtain ⟨k, v⟩ := p
    simp only [List.map_cons, List.nodup_cons, List.mem_map, not_exists, not_and] at hnd
    by_cases hk : u = k
    · subst hk
      simp only [List.lookup_cons_self, Option.some.injEq, List.mem_cons, Prod.mk.injEq, true_and]
      constructor
      · intro h; exact Or.inl h.symm
      · rintro (h | h)
        · exact h.symm
        · exact absurd rfl (hnd.1 _ h)
    · have hbeq : (u == k) = false := by simpa using hk
      simp only [List.lookup_cons, hbeq, List.mem_cons, Prod.mk.injEq, hk, false_and, false_or]
      exact ih hnd.2

theorem lookup_eq_none_iff' {l : List (Nat × Outcome)} (u : Nat) :
    l.lookup u = none ↔ u ∉ l.map (·.1) := by
  induction l with
  | nil => simp
  | cons p l ih =>
    obtain ⟨k, v⟩ := p
    by_cases hk : u = k
    · subst hk; simp
    · have hbeq : (u == k) = false := by simpa using hk
      simp only [List.lookup_cons, hbeq, List.map_cons, List.mem_cons, hk, false_or]
      exact ih

theorem doneOf_keys_nodup {s : State} {tr : List Event} (h : Inv s tr) :
    ((doneOf tr).map (·.1)).Nodup := by
  rw [doneOf_keys]; exact List.nodup_reverse.2 h.fin_nodup

theorem futOf_done_iff {s : State} {tr : List Event} (h : Inv s tr) (u : Nat) (o : Outcome) :
    futOf s u = some (.done o) ↔ ∃ w, Event.finish w u o ∈ tr := by
  have hsubm : ∀ w, Event.finish w u o ∈ tr → u ∈ s.submitted := by
    intro w hw
    have h1 := h.fin_taken _ _ _ (mem_fins.2 hw)
    rw [h.sub_eq, h.fifo]
    exact List.mem_append_left _ (mem_takenSeq.2 ⟨w, mem_takes.1 h1⟩)
  unfold futOf
  rw [h.done_eq]
  by_cases hs : u ∈ s.submitted
  · simp only [List.contains_eq_mem, hs, decide_true, if_true]
    cases hl : (doneOf tr).lookup u with
    | none =>
      simp only [Option.some.injEq, reduceCtorEq, false_iff, not_exists]
      intro w hw
      have := (lookup_eq_some_iff (doneOf_keys_nodup h) u o).2 (mem_doneOf.2 ⟨w, hw⟩)
      simp [hl] at this
    | some o' =>
      simp only [Option.some.injEq, Fut.done.injEq]
      have h1 := (lookup_eq_some_iff (doneOf_keys_nodup h) u o').1 hl
      constructor
      · rintro rfl; exact mem_doneOf.1 h1
      · rintro ⟨w, hw⟩
        have h2 := (lookup_eq_some_iff (doneOf_keys_nodup h) u o).2 (mem_doneOf.2 ⟨w, hw⟩)
        rw [hl] at h2; exact Option.some.inj h2
  · simp only [List.contains_eq_mem, hs, decide_false, Bool.false_eq_true, if_false, reduceCtorEq,
      false_iff, not_exists]
    intro w hw; exact hs (hsubm w hw)

theorem futOf_pending_iff {s : State} {tr : List Event} (h : Inv s tr) (u : Nat) :
    futOf s u = some .pending ↔ Event.submit u ∈ tr ∧ ∀ w o, Event.finish w u o ∉ tr := by
  unfold futOf
  rw [h.done_eq, ← mem_subSeq, ← h.sub_eq]
  by_cases hs : u ∈ s.submitted
  · simp only [List.contains_eq_mem, hs, decide_true, if_true, true_and]
    cases hl : (doneOf tr).lookup u with
    | none =>
      simp only [true_iff]
      intro w o hw
      have := (lookup_eq_some_iff (doneOf_keys_nodup h) u o).2 (mem_doneOf.2 ⟨w, hw⟩)
      simp [hl] at this
    | some o' =>
      simp only [Option.some.injEq, reduceCtorEq, false_iff]
      have h1 := (lookup_eq_some_iff (doneOf_keys_nodup h) u o').1 hl
      obtain ⟨w, hw⟩ := mem_doneOf.1 h1
      intro hall; exact hall w o' hw
  · simp [hs]

/-! ### the trace-only predicate -/

theorem nodupB_iff (l : List Nat) : nodupB l = true ↔ l.Nodup := by
  induction l with
  | nil => simp [nodupB]
  | cons x l ih => simp [nodupB, ih]

theorem orderOk_of : ∀ (rest pre : List Event),
    (∀ a e b, rest = a ++ e :: b → causeOk (a.reverse ++ pre) e = true) → orderOk pre rest = true
  | [], _, _ => rfl
  | e :: rest, pre, h => by
    simp only [orderOk, Bool.and_eq_true]
    refine ⟨by simpa using h [] e rest rfl, orderOk_of rest (e :: pre) ?_⟩
    intro a e' b hab
    have := h (e :: a) e' b (by simp [hab])
    simpa using this

end Infretis.Runner
