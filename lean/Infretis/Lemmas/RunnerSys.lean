import Infretis.Model.RunnerSys
import Infretis.Lemmas.Runner
/-!
Helper lemmas for C17 (runner half, fine-grained system `Model/RunnerSys.lean`):
* `future_list` as a data structure (`flCheck`, `flCall`);
* the simulation relation `Rel` between the system of the runner's own code and the abstract
  protocol `Model/Runner.lean`, preserved by every step (`sim_step`);
* the variant of `stop()`.
-/
set_option linter.unusedSimpArgs false
set_option linter.unusedVariables false
namespace Infretis.RunnerSys
open Infretis.Runner

/-! ### lists -/

theorem getElem?_set_self' {α : Type} (l : List α) (w : Nat) (a x : α) (h : l[w]? = some x) :
    (l.set w a)[w]? = some a := by
  have hw : w < l.length := by
    by_contra hn
    rw [List.getElem?_eq_none (by omega)] at h; simp at h
  simp [List.getElem?_set, hw]

theorem getElem?_set_ne' {α : Type} (l : List α) (w w' : Nat) (a : α) (h : w ≠ w') :
    (l.set w a)[w']? = l[w']? := by
  simp [List.getElem?_set, h]

theorem lt_of_getElem? {α : Type} {l : List α} {w : Nat} {x : α} (h : l[w]? = some x) : w < l.length := by
  by_contra hn
  rw [List.getElem?_eq_none (by omega)] at h; simp at h

theorem mem_of_lookup {l : List (Nat × Outcome)} {u : Nat} {o : Outcome} (h : l.lookup u = some o) :
    (u, o) ∈ l := by
  induction l with
  | nil => simp at h
  | cons p t ih =>
    obtain ⟨a, b⟩ := p
    simp only [List.lookup_cons] at h
    by_cases hab : u = a
    · subst hab; simp at h; subst h; simp
    · have : (u == a) = false := by simpa using hab
      rw [this] at h
      exact List.mem_cons_of_mem _ (ih h)

theorem lookup_none_of_not_any {l : List (Nat × Outcome)} {u : Nat}
    (h : l.any (fun p => p.1 == u) = false) : l.lookup u = none := by
  induction l with
  | nil => rfl
  | cons p t ih =>
    obtain ⟨a, b⟩ := p
    simp only [List.any_cons, Bool.or_eq_false_iff] at h
    have hab : (u == a) = false := by
      have := h.1
      simp only [beq_eq_false_iff_ne, ne_eq] at this ⊢
      exact fun hh => this hh.symm
    simp only [List.lookup_cons, hab]
    exact ih h.2

/-! ### `future_list` -/

/-- well-formedness of a `future_list` in the middle of an `as_completed()` call: the part of the
    snapshot still to be looked at is a non-empty suffix of the list -/
def FLWf (fl : FL) : Prop := ∀ l, fl.scan = some l → l ≠ [] ∧ l <:+ fl.futs

theorem flWf_idle {fl : FL} (h : fl.scan = none) : FLWf fl := by
  intro l hl; rw [h] at hl; simp at hl

theorem flWhile_spec (fl : FL) :
    (flWhile fl).1.futs = fl.futs ∧ FLWf (flWhile fl).1 ∧
    ((flWhile fl).2 = .retNone ↔ fl.futs = []) ∧ ((flWhile fl).2 = .going ∨ (flWhile fl).2 = .retNone) ∧
    ((flWhile fl).2 = .retNone → (flWhile fl).1.scan = none) := by
  unfold flWhile
  cases hf : fl.futs with
  | nil => simp [FLWf]
  | cons a t =>
    refine ⟨by simp [hf], ?_, by simp, by simp, by simp⟩
    intro l hl
    simp at hl
    subst hl
    simp [hf]

theorem flNext_of_scan {fl : FL} {f : Nat} {rest : List Nat} (h : fl.scan = some (f :: rest)) :
    flNext fl = some f := by
  simp [flNext, h]

/-- **one `done()` call.**  If the call returns future `u`: the answer was True, `u` is the future
    that was asked, it was in the list, exactly its first occurrence is removed and the call is over. -/
theorem flCheck_ret {fl fl' : FL} {ans : Bool} {u : Nat} (hw : FLWf fl)
    (h : flCheck fl ans = some (fl', .ret u)) :
    ans = true ∧ flNext fl = some u ∧ u ∈ fl.futs ∧ fl'.futs = fl.futs.erase u ∧ fl'.scan = none := by
  unfold flCheck at h
  split at h
  · simp at h
  · have := (flWhile_spec fl).2.2.2.1
    simp only [Option.some.injEq] at h
    rcases this with h1 | h1 <;> rw [Prod.ext_iff] at h <;> simp [h1] at h
  · rename_i f rest hs
    split at h
    · rename_i ha
      simp only [Option.some.injEq, Prod.mk.injEq, AcStep.ret.injEq] at h
      obtain ⟨h1, h2⟩ := h
      subst h2; subst h1
      have := (hw _ hs).2
      exact ⟨ha, flNext_of_scan hs, this.subset (by simp), rfl, rfl⟩
    · split at h
      · have := (flWhile_spec fl).2.2.2.1
        simp only [Option.some.injEq] at h
        rcases this with h1 | h1 <;> rw [Prod.ext_iff] at h <;> simp [h1] at h
      · simp at h

/-- if the call does not return a future, the list is unchanged and stays well formed; it returns
    `None` only on an empty list -/
theorem flCheck_other {fl fl' : FL} {ans : Bool} {r : AcStep} (hw : FLWf fl)
    (h : flCheck fl ans = some (fl', r)) (hr : ∀ u, r ≠ .ret u) :
    fl'.futs = fl.futs ∧ FLWf fl' ∧ (r = .retNone → fl.futs = [] ∧ fl'.scan = none) := by
  unfold flCheck at h
  split at h
  · simp at h
  · simp only [Option.some.injEq] at h
    have := flWhile_spec fl
    rw [h] at this
    exact ⟨this.1, this.2.1, fun hh => ⟨this.2.2.1.1 hh, this.2.2.2.2 hh⟩⟩
  · rename_i f rest hs
    split at h
    · simp only [Option.some.injEq, Prod.mk.injEq] at h
      exact absurd h.2.symm (hr f)
    · split at h
      · simp only [Option.some.injEq] at h
        have := flWhile_spec fl
        rw [h] at this
        exact ⟨this.1, this.2.1, fun hh => ⟨this.2.2.1.1 hh, this.2.2.2.2 hh⟩⟩
      · rename_i a t
        simp only [Option.some.injEq, Prod.mk.injEq] at h
        obtain ⟨h1, h2⟩ := h
        subst h1; subst h2
        refine ⟨rfl, ?_, by simp⟩
        intro l hl
        simp at hl
        subst hl
        have := (hw _ hs).2
        exact ⟨by simp, (List.suffix_cons f (a :: t)).trans this⟩

/-- a scripted `as_completed()` call, after the entry test -/
theorem flCallGo_spec : ∀ (fuel : Nat) (fl : FL) (as : List Bool) (n : Nat) (asked : List Nat), FLWf fl →
    ∀ fl' r n' asked', flCallGo fuel fl as n asked = (fl', r, n', asked') →
      (∀ u, r = some (.ret u) → u ∈ fl.futs ∧ fl'.futs = fl.futs.erase u ∧ fl'.scan = none ∧ asked'.getLast? = some u) ∧
      ((∀ u, r ≠ some (.ret u)) → fl'.futs = fl.futs) ∧ (r = some .retNone → fl.futs = []) ∧ r ≠ some .going
  | 0, fl, as, n, asked, hw, fl', r, n', asked', h => by
    simp only [flCallGo, Prod.mk.injEq] at h
    obtain ⟨h1, h2, _, _⟩ := h
    subst h1; subst h2
    simp
  | fuel + 1, fl, [], n, asked, hw, fl', r, n', asked', h => by
    simp only [flCallGo, Prod.mk.injEq] at h
    obtain ⟨h1, h2, _, _⟩ := h
    subst h1; subst h2
    simp
  | fuel + 1, fl, a :: as, n, asked, hw, fl', r, n', asked', h => by
    simp only [flCallGo] at h
    split at h
    · rename_i f fl1 hn hck
      have ho := flCheck_other hw hck (by simp)
      have ih := flCallGo_spec fuel fl1 as (n + 1) (asked ++ [f]) ho.2.1 fl' r n' asked' h
      rw [ho.1] at ih
      exact ih
    · rename_i f fl1 r1 hnot hn hck
      simp only [Prod.mk.injEq] at h
      obtain ⟨h1, h2, _, h4⟩ := h
      subst h1; subst h2; subst h4
      refine ⟨?_, ?_, ?_, ?_⟩
      · intro u hu
        simp only [Option.some.injEq] at hu
        subst hu
        obtain ⟨_, b, c, d, e⟩ := flCheck_ret hw hck
        rw [hn] at b
        simp only [Option.some.injEq] at b
        subst b
        exact ⟨c, d, e, by simp⟩
      · intro hr
        exact (flCheck_other hw hck (fun u hu => hr u (by rw [hu]))).1
      · intro hr
        simp only [Option.some.injEq] at hr
        exact ((flCheck_other hw hck (by intro u hu; rw [hr] at hu; simp at hu)).2.2 hr).1
      · intro hr
        simp only [Option.some.injEq] at hr
        exact hnot hr
    · simp only [Prod.mk.injEq] at h
      obtain ⟨h1, h2, _, _⟩ := h
      subst h1; subst h2
      simp

/-! ### the simulation relation -/

structure Rel (s : Sys) (c : State) : Prop where
  nw : s.pcs.length = c.nw
  queue : c.queue = s.queue
  sub : c.submitted = s.created
  done : c.done = s.done
  stopped : c.stopped = s.stopSet
  running : ∀ w u : Nat, (w, u) ∈ c.running ↔ s.pcs[w]? = some (WPc.awaiting u)
  nocrash : ∀ w : Nat, s.pcs[w]? ≠ some WPc.crashed
  noexit : s.stopSet = false → ∀ w : Nat, s.pcs[w]? ≠ some WPc.exited
  phase : s.stopSet = true ↔ (s.main = .stopT ∨ s.main = .finished)
  busy : s.main ≠ .idle → s.fl.scan = none
  col : c.collected = (s.delivered.map (·.1)).reverse
  deliv_done : ∀ p, p ∈ s.delivered → p ∈ s.done
  fl_nodup : s.fl.futs.Nodup
  fl_part : ∀ u, u ∈ s.created ↔ (u ∈ s.fl.futs ∨ u ∈ s.delivered.map (·.1))
  fl_disj : ∀ u, u ∈ s.fl.futs → u ∉ s.delivered.map (·.1)
  scan_wf : FLWf s.fl
  fin : s.main = .finished → ∀ (w : Nat) (x : WPc), s.pcs[w]? = some x → taskEnded x = true

theorem rel_init (nw : Nat) : Rel (RunnerSys.init nw) (Runner.init nw) := by
  refine ⟨by simp [RunnerSys.init, Runner.init], rfl, rfl, rfl, rfl, ?_, ?_, ?_, by simp [RunnerSys.init], by simp [RunnerSys.init, flEmpty],
    by simp [RunnerSys.init, Runner.init], by simp [RunnerSys.init], by simp [RunnerSys.init, flEmpty], by simp [RunnerSys.init, flEmpty],
    by simp [RunnerSys.init, flEmpty], flWf_idle rfl, by simp [RunnerSys.init]⟩
  · intro w u
    simp only [Runner.init, List.not_mem_nil, RunnerSys.init, false_iff]
    intro h
    have := List.mem_of_getElem? h
    simp at this
  · intro w h
    have := List.mem_of_getElem? h
    simp [RunnerSys.init] at this
  · intro _ w h
    have := List.mem_of_getElem? h
    simp [RunnerSys.init] at this

/-- changing only the program counter of worker `w` (to something that is neither `awaiting`,
    nor `crashed`) and nothing the abstract state sees, when `w` holds no unit -/
theorem rel_setpc {s : Sys} {c : State} (hR : Rel s c) {w : Nat} {pc : WPc} (hx : s.pcs[w]? = some .idle)
    (hpa : ∀ u, pc ≠ .awaiting u) (hpc : pc ≠ .crashed)
    (hpe : pc = .exited → s.stopSet = true) :
    Rel { s with pcs := s.pcs.set w pc } c := by
  refine { hR with nw := by simpa using hR.nw, running := ?_, nocrash := ?_, noexit := ?_, fin := ?_ }
  rotate_right
  · intro hm w' y hy
    have hxe := hR.fin hm w _ hx
    simp [taskEnded] at hxe
  · intro w' u
    by_cases hw : w = w'
    · subst hw
      simp only [getElem?_set_self' _ _ _ _ hx, Option.some.injEq]
      rw [hR.running, hx]
      simp only [Option.some.injEq]
      constructor
      · intro h; simp at h
      · intro h; exact absurd h (hpa u)
    · simp only [getElem?_set_ne' _ _ _ _ hw]; exact hR.running w' u
  · intro w'
    by_cases hw : w = w'
    · subst hw; simp only [getElem?_set_self' _ _ _ _ hx, ne_eq, Option.some.injEq]; exact hpc
    · simp only [getElem?_set_ne' _ _ _ _ hw]; exact hR.nocrash w'
  · intro hs w'
    by_cases hw : w = w'
    · subst hw
      simp only [getElem?_set_self' _ _ _ _ hx, ne_eq, Option.some.injEq]
      intro he
      have := hpe he
      simp only at hs
      rw [hs] at this; simp at this
    · simp only [getElem?_set_ne' _ _ _ _ hw]; exact hR.noexit hs w'

/-- the head of the worker's `while` loop, from a worker that holds no unit -/
theorem sim_head {s : Sys} {c : State} (hR : Rel s c) {w : Nat} (hx : s.pcs[w]? = some .idle) :
    ∃ c', run c (loopHead w s.stopSet s.queue).2.2 = some c' ∧
      Rel { s with pcs := s.pcs.set w (loopHead w s.stopSet s.queue).1,
                   queue := (loopHead w s.stopSet s.queue).2.1 } c' := by
  rcases s with ⟨pcs, queue, created, done, fl, stopSet, main, delivered, noneReturns, taskDone⟩
  simp only at hx ⊢
  cases stopSet with
  | true =>
    simp only [loopHead, if_true, run]
    exact ⟨c, rfl, rel_setpc hR hx (by simp) (by simp) (fun _ => rfl)⟩
  | false =>
    cases queue with
    | nil =>
      simp only [loopHead, Bool.false_eq_true, if_false, run]
      exact ⟨c, rfl, rel_setpc hR (pc := .idle) hx (by simp) (by simp) (by simp)⟩
    | cons h t =>
      simp only [loopHead, Bool.false_eq_true, if_false]
      have hw : w < c.nw := by rw [← hR.nw]; exact lt_of_getElem? hx
      have hnb : workerBusy c w = false := by
        simp only [workerBusy, List.any_eq_false, beq_iff_eq, Prod.forall]
        intro a b hab hh
        subst hh
        have := (hR.running a b).1 hab
        simp only at this
        rw [hx] at this; simp at this
      have hst : c.stopped = false := hR.stopped
      have hcq : c.queue = h :: t := hR.queue
      refine ⟨{ c with queue := t, running := (w, h) :: c.running }, ?_, ?_⟩
      · simp [run, step, hst, hw, hnb, hcq]
      · refine { hR with nw := by simpa using hR.nw, queue := rfl, running := ?_, nocrash := ?_, noexit := ?_,
                         fin := fun hm => absurd (hR.fin hm w _ hx) (by simp [taskEnded]) }
        · intro w' u
          by_cases hww : w = w'
          · subst hww
            simp only [getElem?_set_self' _ _ _ _ hx, Option.some.injEq, WPc.awaiting.injEq, List.mem_cons,
              Prod.mk.injEq, true_and]
            constructor
            · rintro (h1 | h1)
              · exact h1.symm
              · have := (hR.running w u).1 h1
                simp only at this
                rw [hx] at this; simp at this
            · intro h1; exact Or.inl h1.symm
          · simp only [getElem?_set_ne' _ _ _ _ hww, List.mem_cons, Prod.mk.injEq]
            constructor
            · rintro (h1 | h1)
              · exact absurd h1.1.symm hww
              · exact (hR.running w' u).1 h1
            · intro h1; exact Or.inr ((hR.running w' u).2 h1)
        · intro w'
          by_cases hww : w = w'
          · subst hww; simp [getElem?_set_self' _ _ _ _ hx]
          · simp only [getElem?_set_ne' _ _ _ _ hww]; exact hR.nocrash w'
        · intro hs2 w'
          by_cases hww : w = w'
          · subst hww; simp [getElem?_set_self' _ _ _ _ hx]
          · simp only [getElem?_set_ne' _ _ _ _ hww]; exact hR.noexit rfl w'

/-- `future.set_result / set_exception` by the worker that awaits unit `u`: the future is still
    pending (no `InvalidStateError`), and the abstract protocol does `finish w u o` -/
theorem sim_finish {s : Sys} {c : State} {pre : List Event} {nw : Nat}
    (hc : run (Runner.init nw) pre = some c) (hR : Rel s c) {w u : Nat} (o : Outcome)
    (hx : s.pcs[w]? = some (.awaiting u)) :
    s.done.any (fun p => p.1 == u) = false ∧
    ∃ c1, step c (.finish w u o) = some c1 ∧
      Rel { s with pcs := s.pcs.set w .idle, done := (u, o) :: s.done, taskDone := s.taskDone + 1 } c1 := by
  have hI := inv_run hc
  have hrun : (w, u) ∈ c.running := (hR.running w u).2 hx
  have hnd : u ∉ c.done.map (·.1) := by
    rw [hI.done_eq, doneOf_keys]
    simpa using hI.run_notdone w u hrun
  have hnd' : isDone c u = false := by
    cases h : isDone c u with
    | false => rfl
    | true => exact absurd (isDone_iff.1 h) hnd
  have hany : s.done.any (fun p => p.1 == u) = false := by
    rw [← hR.done]; exact hnd'
  refine ⟨hany, { c with running := c.running.erase (w, u), done := (u, o) :: c.done }, ?_, ?_⟩
  · simp [step, hrun, hnd']
  · have hnodup : c.running.Nodup := nodup_of_map _ hI.workers_nodup
    refine { hR with nw := by simpa using hR.nw, done := by simp [hR.done], running := ?_, nocrash := ?_,
                     noexit := ?_, deliv_done := ?_,
                     fin := fun hm => absurd (hR.fin hm w _ hx) (by simp [taskEnded]) }
    · intro w' u'
      simp only [hnodup.mem_erase_iff]
      by_cases hww : w = w'
      · subst hww
        simp only [getElem?_set_self' _ _ _ _ hx, Option.some.injEq, reduceCtorEq, iff_false, not_and]
        intro hne hm
        have := (hR.running w u').1 hm
        rw [hx] at this
        simp only [Option.some.injEq, WPc.awaiting.injEq] at this
        exact hne (by rw [this])
      · simp only [getElem?_set_ne' _ _ _ _ hww, ne_eq, Prod.mk.injEq, not_and]
        constructor
        · intro h1; exact (hR.running w' u').1 h1.2
        · intro h1; exact ⟨fun h2 => absurd h2.symm hww, (hR.running w' u').2 h1⟩
    · intro w'
      by_cases hww : w = w'
      · subst hww; simp [getElem?_set_self' _ _ _ _ hx]
      · simp only [getElem?_set_ne' _ _ _ _ hww]; exact hR.nocrash w'
    · intro hs2 w'
      by_cases hww : w = w'
      · subst hww; simp [getElem?_set_self' _ _ _ _ hx]
      · simp only [getElem?_set_ne' _ _ _ _ hww]; exact hR.noexit hs2 w'
    · intro p hp
      exact List.mem_cons_of_mem _ (hR.deliv_done p hp)

/-- only the `future_list` object (scan position) and the `None` counter change -/
theorem rel_fl {s : Sys} {c : State} (hR : Rel s c) (fl' : FL) (k : Nat) (hf : fl'.futs = s.fl.futs)
    (hw : FLWf fl') (hb : s.main ≠ .idle → fl'.scan = none) :
    Rel { s with fl := fl', noneReturns := k } c := by
  refine { hR with busy := hb, fl_nodup := ?_, fl_part := ?_, fl_disj := ?_, scan_wf := hw }
  · simp only [hf]; exact hR.fl_nodup
  · simp only [hf]; exact hR.fl_part
  · simp only [hf]; exact hR.fl_disj

theorem rel_flApply {s : Sys} {c : State} (hR : Rel s c) (r : FL × AcStep) (hf : r.1.futs = s.fl.futs)
    (hw : FLWf r.1) (hb : s.main ≠ .idle → r.1.scan = none) :
    (flApply s r).2 = [] ∧ Rel (flApply s r).1 c := by
  unfold flApply
  split
  · exact ⟨rfl, rel_fl hR _ _ hf hw hb⟩
  · refine ⟨rfl, ?_⟩
    have := rel_fl hR r.1 s.noneReturns hf hw hb
    exact this

theorem not_stopped_of_idle {s : Sys} {c : State} (hR : Rel s c) (hm : s.main = .idle) : s.stopSet = false := by
  cases h : s.stopSet with
  | false => rfl
  | true =>
    have := hR.phase.1 h
    rw [hm] at this; simp at this

theorem flNext_some {fl : FL} {f : Nat} (h : flNext fl = some f) : ∃ rest, fl.scan = some (f :: rest) := by
  unfold flNext at h
  split at h
  · rename_i g rest hs
    simp only [Option.some.injEq] at h
    subst h
    exact ⟨rest, hs⟩
  · simp at h

theorem sim_submit {s s' : Sys} {c : State} {out : List Event} {u : Nat} (hR : Rel s c)
    (h : stepSubmit s u = some (s', out)) : ∃ c', run c out = some c' ∧ Rel s' c' := by
  unfold stepSubmit at h
  split at h
  · rename_i hg
    obtain ⟨hm, hsc, hnc, _⟩ := hg
    simp only [Option.some.injEq, Prod.mk.injEq] at h
    obtain ⟨h1, h2⟩ := h
    subst h1; subst h2
    have hst : c.stopped = false := by rw [hR.stopped]; exact not_stopped_of_idle hR hm
    have hnc' : c.submitted.contains u = false := by rw [hR.sub]; exact hnc
    have hu : u ∉ s.created := by simpa using hnc
    have hufl : u ∉ s.fl.futs := fun hh => hu ((hR.fl_part u).2 (Or.inl hh))
    have hud : u ∉ s.delivered.map (·.1) := fun hh => hu ((hR.fl_part u).2 (Or.inr hh))
    refine ⟨{ c with submitted := c.submitted ++ [u], queue := c.queue ++ [u] }, ?_, ?_⟩
    · have hnm : u ∉ c.submitted := by rw [hR.sub]; exact hu
      simp [run, step, hst, hnm]
    · refine { hR with queue := by simp [hR.queue], sub := by simp [hR.sub], busy := ?_, fl_nodup := ?_,
                       fl_part := ?_, fl_disj := ?_, scan_wf := ?_ }
      · intro _; exact hsc
      · simp only [flAdd]
        exact List.nodup_append.2 ⟨hR.fl_nodup, by simp, by
          intro a ha b hb; simp at hb; subst hb; intro hab; subst hab; exact hufl ha⟩
      · intro u'
        simp only [flAdd, List.mem_append, List.mem_singleton]
        have := hR.fl_part u'
        constructor
        · rintro (h1 | h1)
          · rcases this.1 h1 with h2 | h2
            · exact Or.inl (Or.inl h2)
            · exact Or.inr h2
          · exact Or.inl (Or.inr h1)
        · rintro ((h1 | h1) | h1)
          · exact Or.inl (this.2 (Or.inl h1))
          · exact Or.inr h1
          · exact Or.inl (this.2 (Or.inr h1))
      · intro u'
        simp only [flAdd, List.mem_append, List.mem_singleton]
        rintro (h1 | h1)
        · exact hR.fl_disj u' h1
        · subst h1; exact hud
      · exact flWf_idle (by simpa [flAdd] using hsc)
  · simp at h

theorem sim_resume {s s' : Sys} {c : State} {pre out : List Event} {nw w : Nat} {o : Outcome}
    (hc : run (Runner.init nw) pre = some c) (hR : Rel s c)
    (h : stepResume s w o = some (s', out)) : ∃ c', run c out = some c' ∧ Rel s' c' := by
  unfold stepResume at h
  split at h
  · simp at h
  · simp at h
  · simp at h
  · rename_i hx
    simp only [Option.some.injEq, Prod.mk.injEq] at h
    obtain ⟨h1, h2⟩ := h
    subst h1; subst h2
    exact sim_head hR hx
  · rename_i u hx
    obtain ⟨hany, c1, hs1, hR1⟩ := sim_finish hc hR o hx
    rw [hany] at h
    simp only [Bool.false_eq_true, if_false, Option.some.injEq, Prod.mk.injEq] at h
    obtain ⟨h1, h2⟩ := h
    subst h1; subst h2
    have hx1 : ({ s with pcs := s.pcs.set w .idle, done := (u, o) :: s.done, taskDone := s.taskDone + 1 } : Sys).pcs[w]?
        = some .idle := getElem?_set_self' _ _ _ _ hx
    obtain ⟨c', hr, hR'⟩ := sim_head hR1 hx1
    refine ⟨c', ?_, ?_⟩
    · simp only [run, hs1]; exact hr
    · simpa [List.set_set] using hR'

theorem sim_acEnter {s s' : Sys} {c : State} {out : List Event} (hR : Rel s c)
    (h : stepAcEnter s = some (s', out)) : ∃ c', run c out = some c' ∧ Rel s' c' := by
  unfold stepAcEnter at h
  split at h
  · rename_i hg
    simp only [Option.some.injEq] at h
    have hsp := flWhile_spec s.fl
    have := rel_flApply hR (flEnter s.fl) hsp.1 hsp.2.1 (fun hh => absurd hg.1 hh)
    rw [h] at this
    simp only at this
    refine ⟨c, ?_, this.2⟩
    rw [this.1]; rfl
  · simp at h

/-- a `done()` call answered False (or the degenerate re-test of the `while`): nothing the protocol sees -/
theorem sim_acMiss {s s' : Sys} {c : State} {out : List Event} (hR : Rel s c)
    (h : (flCheck s.fl false).map (flApply s) = some (s', out)) : ∃ c', run c out = some c' ∧ Rel s' c' := by
  cases hck : flCheck s.fl false with
  | none => simp [hck] at h
  | some r =>
    simp only [hck, Option.map_some, Option.some.injEq] at h
    have hnr : ∀ u, r.2 ≠ .ret u := by
      intro u hu
      have hh : flCheck s.fl false = some (r.1, .ret u) := by rw [hck, ← hu]
      have := (flCheck_ret hR.scan_wf hh).1
      simp at this
    have hh : flCheck s.fl false = some (r.1, r.2) := hck
    obtain ⟨h1, h2, _⟩ := flCheck_other hR.scan_wf hh hnr
    have hb : s.main ≠ .idle → r.1.scan = none := by
      intro hm
      have := hR.busy hm
      simp [flCheck, this] at hck
    have := rel_flApply hR r h1 h2 hb
    rw [h] at this
    simp only at this
    refine ⟨c, ?_, this.2⟩
    rw [this.1]; rfl

theorem sim_acCheck {s s' : Sys} {c : State} {out : List Event} (hR : Rel s c)
    (h : stepAcCheck s = some (s', out)) : ∃ c', run c out = some c' ∧ Rel s' c' := by
  unfold stepAcCheck at h
  split at h
  · exact sim_acMiss hR h
  · rename_i f hf
    split at h
    · rename_i o ho
      obtain ⟨rest, hs⟩ := flNext_some hf
      have hck : flCheck s.fl true = some ({ futs := s.fl.futs.erase f, scan := none }, .ret f) := by
        simp [flCheck, hs]
      rw [hck] at h
      simp only [Option.some.injEq, Prod.mk.injEq] at h
      obtain ⟨h1, h2⟩ := h
      subst h1; subst h2
      have hfm : f ∈ s.fl.futs := (hR.scan_wf _ hs).2.subset (by simp)
      have hdone : (f, o) ∈ c.done := by rw [hR.done]; exact mem_of_lookup ho
      have hncol : f ∉ c.collected := by
        rw [hR.col]; simp only [List.mem_reverse]; exact hR.fl_disj f hfm
      refine ⟨{ c with collected := f :: c.collected }, ?_, ?_⟩
      · simp [run, step, hdone, hncol]
      · refine { hR with busy := fun _ => rfl, col := by simp [hR.col], deliv_done := ?_, fl_nodup := ?_,
                         fl_part := ?_, fl_disj := ?_, scan_wf := flWf_idle rfl }
        · intro p hp
          simp only [List.mem_append, List.mem_singleton] at hp
          rcases hp with hp | hp
          · exact hR.deliv_done p hp
          · subst hp; exact mem_of_lookup ho
        · exact hR.fl_nodup.erase f
        · intro u
          simp only [hR.fl_nodup.mem_erase_iff, List.map_append, List.map_cons, List.map_nil, List.mem_append,
            List.mem_singleton]
          have := hR.fl_part u
          constructor
          · intro h1
            rcases this.1 h1 with h2 | h2
            · by_cases huf : u = f
              · exact Or.inr (Or.inr huf)
              · exact Or.inl ⟨huf, h2⟩
            · exact Or.inr (Or.inl h2)
          · rintro (⟨_, h1⟩ | h1 | h1)
            · exact this.2 (Or.inl h1)
            · exact this.2 (Or.inr h1)
            · subst h1; exact this.2 (Or.inl hfm)
        · intro u
          simp only [hR.fl_nodup.mem_erase_iff, List.map_append, List.map_cons, List.map_nil, List.mem_append,
            List.mem_singleton, not_or]
          rintro ⟨h1, h2⟩
          exact ⟨hR.fl_disj u h2, h1⟩
    · exact sim_acMiss hR h

theorem sim_stop {s s' : Sys} {c : State} {out : List Event} (hR : Rel s c) :
    (stepStopEnter s = some (s', out) ∨ stepPollQ s = some (s', out) ∨ stepPollT s = some (s', out)) →
    ∃ c', run c out = some c' ∧ Rel s' c' := by
  rintro (h | h | h)
  · unfold stepStopEnter at h
    split at h
    · rename_i hg
      simp only [Option.some.injEq, Prod.mk.injEq] at h
      obtain ⟨h1, h2⟩ := h
      subst h1; subst h2
      have hns := not_stopped_of_idle hR hg.1
      refine ⟨c, rfl, { hR with phase := ?_, busy := fun _ => hg.2, fin := by intro hh; simp at hh }⟩
      simp only [hns, Bool.false_eq_true, reduceCtorEq, or_self]
    · simp at h
  · unfold stepPollQ at h
    split at h
    · rename_i hm
      have hns : s.stopSet = false := by
        cases hh : s.stopSet with
        | false => rfl
        | true =>
          have := hR.phase.1 hh
          rw [hm] at this; simp at this
      split at h
      · rename_i hq
        simp only [Option.some.injEq, Prod.mk.injEq] at h
        obtain ⟨h1, h2⟩ := h
        subst h1; subst h2
        have hst : c.stopped = false := by rw [hR.stopped]; exact hns
        have hcq : c.queue = [] := by rw [hR.queue]; simpa using hq
        refine ⟨{ c with stopped := true }, ?_, ?_⟩
        · simp [run, step, hst, hcq]
        · refine { hR with stopped := rfl, noexit := ?_, phase := ?_, busy := ?_, fin := by intro hh; simp at hh }
          · intro hh; simp at hh
          · simp
          · intro _; exact hR.busy (by rw [hm]; simp)
      · simp only [Option.some.injEq, Prod.mk.injEq] at h
        obtain ⟨h1, h2⟩ := h
        subst h1; subst h2
        exact ⟨c, rfl, hR⟩
    · simp at h
  · unfold stepPollT at h
    split at h
    · rename_i hm
      split at h
      · rename_i hall
        simp only [Option.some.injEq, Prod.mk.injEq] at h
        obtain ⟨h1, h2⟩ := h
        subst h1; subst h2
        have hst : s.stopSet = true := hR.phase.2 (Or.inl hm)
        refine ⟨c, rfl, { hR with phase := ?_, busy := ?_, fin := ?_ }⟩
        · simp [hst]
        · intro _; exact hR.busy (by rw [hm]; simp)
        · intro _ w x hx
          exact (List.all_eq_true.1 hall) x (List.mem_of_getElem? hx)
      · simp only [Option.some.injEq, Prod.mk.injEq] at h
        obtain ⟨h1, h2⟩ := h
        subst h1; subst h2
        exact ⟨c, rfl, hR⟩
    · simp at h

/-- **Simulation.**  Every step of the system of the runner's code is matched by the protocol
    events it emits, and the relation is kept. -/
theorem sim_step {s s' : Sys} {c : State} {pre out : List Event} {nw : Nat} {e : FEv}
    (hc : run (Runner.init nw) pre = some c) (hR : Rel s c) (h : fstep s e = some (s', out)) :
    ∃ c', run c out = some c' ∧ Rel s' c' := by
  cases e with
  | submit u => exact sim_submit hR h
  | resume w o => exact sim_resume hc hR h
  | acEnter => exact sim_acEnter hR h
  | acCheck => exact sim_acCheck hR h
  | stopEnter => exact sim_stop hR (Or.inl h)
  | stopPollQ => exact sim_stop hR (Or.inr (Or.inl h))
  | stopPollT => exact sim_stop hR (Or.inr (Or.inr h))

theorem sim_run : ∀ (evs : List FEv) {s s' : Sys} {c : State} {pre out : List Event} {nw : Nat},
    run (Runner.init nw) pre = some c → Rel s c → frun s evs = some (s', out) →
    ∃ c', run c out = some c' ∧ Rel s' c'
  | [], s, s', c, pre, out, nw, hc, hR, h => by
    simp only [frun, Option.some.injEq, Prod.mk.injEq] at h
    obtain ⟨h1, h2⟩ := h
    subst h1; subst h2
    exact ⟨c, rfl, hR⟩
  | e :: es, s, s', c, pre, out, nw, hc, hR, h => by
    simp only [frun] at h
    cases h1 : fstep s e with
    | none => simp [h1] at h
    | some r1 =>
      obtain ⟨s1, o1⟩ := r1
      simp only [h1] at h
      cases h2 : frun s1 es with
      | none => simp [h2] at h
      | some r2 =>
        obtain ⟨s2, o2⟩ := r2
        simp only [h2, Option.some.injEq, Prod.mk.injEq] at h
        obtain ⟨h3, h4⟩ := h
        subst h3; subst h4
        obtain ⟨c1, hr1, hR1⟩ := sim_step hc hR h1
        have hc1 : run (Runner.init nw) (pre ++ o1) = some c1 := by
          rw [run_append, hc]; exact hr1
        obtain ⟨c2, hr2, hR2⟩ := sim_run es hc1 hR1 h2
        refine ⟨c2, ?_, hR2⟩
        rw [run_append, hr1]; exact hr2

/-! ### the variant of `stop()` -/

theorem weightSum_set : ∀ (l : List WPc) (w : Nat) (x p : WPc), l[w]? = some x →
    weightSum (l.set w p) + pcWeight x = weightSum l + pcWeight p
  | [], w, x, p, h => by simp at h
  | a :: t, 0, x, p, h => by
    simp only [List.getElem?_cons_zero, Option.some.injEq] at h
    subst h
    simp only [List.set_cons_zero, weightSum]; omega
  | a :: t, w + 1, x, p, h => by
    simp only [List.getElem?_cons_succ] at h
    have := weightSum_set t w x p h
    simp only [List.set_cons_succ, weightSum]; omega

theorem set_same : ∀ (l : List WPc) (w : Nat) (x : WPc), l[w]? = some x → l.set w x = l
  | [], w, x, h => by simp at h
  | a :: t, 0, x, h => by
    simp only [List.getElem?_cons_zero, Option.some.injEq] at h
    subst h; rfl
  | a :: t, w + 1, x, h => by
    simp only [List.getElem?_cons_succ] at h
    simp only [List.set_cons_succ, set_same t w x h]

/-- a worker resume either strictly decreases the variant, or it is the poll of an idle worker
    that finds the queue empty while the stop event is not set (nothing changes) -/
theorem resume_variant {s s' : Sys} {out : List Event} {w : Nat} {o : Outcome}
    (h : stepResume s w o = some (s', out)) :
    variant s' < variant s ∨ (s' = s ∧ s.pcs[w]? = some .idle ∧ s.stopSet = false ∧ s.queue = []) := by
  rcases s with ⟨pcs, queue, created, done, fl, stopSet, main, delivered, noneReturns, taskDone⟩
  unfold stepResume at h
  simp only at h
  split at h
  · simp at h
  · simp at h
  · simp at h
  · rename_i hx
    simp only [Option.some.injEq, Prod.mk.injEq] at h
    obtain ⟨h1, _⟩ := h
    subst h1
    cases stopSet with
    | true =>
      left
      have := weightSum_set pcs w .idle .exited hx
      simp only [loopHead, if_true, variant, pcWeight] at this ⊢
      omega
    | false =>
      cases queue with
      | nil =>
        right
        simp only [loopHead, Bool.false_eq_true, if_false, set_same pcs w .idle hx]
        exact ⟨trivial, hx, trivial, trivial⟩
      | cons a t =>
        left
        have := weightSum_set pcs w .idle (.awaiting a) hx
        simp only [loopHead, Bool.false_eq_true, if_false, variant, pcWeight, List.length_cons] at this ⊢
        omega
  · rename_i u hx
    left
    split at h
    · simp only [Option.some.injEq, Prod.mk.injEq] at h
      obtain ⟨h1, _⟩ := h
      subst h1
      have := weightSum_set pcs w (.awaiting u) .crashed hx
      simp only [variant, pcWeight] at this ⊢
      omega
    · simp only [Option.some.injEq, Prod.mk.injEq] at h
      obtain ⟨h1, _⟩ := h
      subst h1
      cases stopSet with
      | true =>
        have := weightSum_set pcs w (.awaiting u) .exited hx
        simp only [loopHead, if_true, variant, pcWeight] at this ⊢
        omega
      | false =>
        cases queue with
        | nil =>
          have := weightSum_set pcs w (.awaiting u) .idle hx
          simp only [loopHead, Bool.false_eq_true, if_false, variant, pcWeight] at this ⊢
          omega
        | cons a t =>
          have := weightSum_set pcs w (.awaiting u) (.awaiting a) hx
          simp only [loopHead, Bool.false_eq_true, if_false, variant, pcWeight, List.length_cons] at this ⊢
          omega

/-- inside `stop()` every step either changes nothing or strictly decreases the variant -/
theorem stop_variant_step {s s' : Sys} {out : List Event} {e : FEv}
    (hm : s.main = .stopQ ∨ s.main = .stopT) (hsc : s.fl.scan = none)
    (h : fstep s e = some (s', out)) : s' = s ∨ variant s' < variant s := by
  cases e with
  | submit u =>
    simp only [fstep, stepSubmit] at h
    split at h
    · rename_i hg; rcases hm with hm | hm <;> rw [hm] at hg <;> simp at hg
    · simp at h
  | resume w o =>
    rcases resume_variant h with h1 | h1
    · exact Or.inr h1
    · exact Or.inl h1.1
  | acEnter =>
    simp only [fstep, stepAcEnter] at h
    split at h
    · rename_i hg; rcases hm with hm | hm <;> rw [hm] at hg <;> simp at hg
    · simp at h
  | acCheck =>
    simp [fstep, stepAcCheck, flNext, flCheck, hsc] at h
  | stopEnter =>
    simp only [fstep, stepStopEnter] at h
    split at h
    · rename_i hg; rcases hm with hm | hm <;> rw [hm] at hg <;> simp at hg
    · simp at h
  | stopPollQ =>
    simp only [fstep, stepPollQ] at h
    split at h
    · rename_i hq
      split at h
      · simp only [Option.some.injEq, Prod.mk.injEq] at h
        obtain ⟨h1, _⟩ := h
        subst h1
        right
        simp only [variant, hq, phaseWeight]; omega
      · simp only [Option.some.injEq, Prod.mk.injEq] at h
        exact Or.inl h.1.symm
    · simp at h
  | stopPollT =>
    simp only [fstep, stepPollT] at h
    split at h
    · rename_i hq
      split at h
      · simp only [Option.some.injEq, Prod.mk.injEq] at h
        obtain ⟨h1, _⟩ := h
        subst h1
        right
        simp only [variant, hq, phaseWeight]; omega
      · simp only [Option.some.injEq, Prod.mk.injEq] at h
        exact Or.inl h.1.symm
    · simp at h

/-- a worker task that has not ended can always be resumed -/
theorem resume_enabled {s : Sys} {w : Nat} {x : WPc} (hx : s.pcs[w]? = some x) (hne : taskEnded x = false)
    (o : Outcome) : ∃ r, stepResume s w o = some r := by
  unfold stepResume
  rw [hx]
  cases x with
  | idle => exact ⟨_, rfl⟩
  | awaiting u =>
    simp only
    split
    · exact ⟨_, rfl⟩
    · exact ⟨_, rfl⟩
  | exited => simp [taskEnded] at hne
  | crashed => simp [taskEnded] at hne

/-- **`stop()` cannot get stuck.**  In every reachable state inside `stop()` some step strictly
    decreases the variant (given at least one worker task). -/
theorem stop_progress_step {s : Sys} {c : State} (hR : Rel s c) (hnw : s.pcs ≠ [])
    (hm : s.main = .stopQ ∨ s.main = .stopT) :
    ∃ e s' out, fstep s e = some (s', out) ∧ variant s' < variant s := by
  rcases hm with hm | hm
  · cases hq : s.queue with
    | nil =>
      refine ⟨.stopPollQ, { s with stopSet := true, main := .stopT }, [.stop], ?_, ?_⟩
      · simp [fstep, stepPollQ, hm, hq]
      · simp only [variant, hm, phaseWeight]; omega
    | cons a t =>
      have hns : s.stopSet = false := by
        cases hh : s.stopSet with
        | false => rfl
        | true => have := hR.phase.1 hh; rw [hm] at this; simp at this
      cases hp : s.pcs with
      | nil => exact absurd hp hnw
      | cons x rest =>
        have hx : s.pcs[0]? = some x := by rw [hp]; rfl
        have hne : taskEnded x = false := by
          cases x with
          | idle => rfl
          | awaiting u => rfl
          | exited => exact absurd hx (hR.noexit hns 0)
          | crashed => exact absurd hx (hR.nocrash 0)
        obtain ⟨r, hr⟩ := resume_enabled hx hne (.ok 0)
        refine ⟨.resume 0 (.ok 0), r.1, r.2, hr, ?_⟩
        rcases resume_variant (s' := r.1) (out := r.2) hr with h1 | h1
        · exact h1
        · rw [hq] at h1; simp at h1
  · have hst : s.stopSet = true := hR.phase.2 (Or.inl hm)
    by_cases hall : s.pcs.all taskEnded = true
    · refine ⟨.stopPollT, { s with main := .finished }, [], ?_, ?_⟩
      · simp [fstep, stepPollT, hm, hall]
      · simp only [variant, hm, phaseWeight]; omega
    · simp only [List.all_eq_true, not_forall] at hall
      obtain ⟨x, hxm, hxe⟩ := hall
      obtain ⟨w, hw⟩ := List.getElem?_of_mem hxm
      have hne : taskEnded x = false := by simpa using hxe
      obtain ⟨r, hr⟩ := resume_enabled hw hne (.ok 0)
      refine ⟨.resume w (.ok 0), r.1, r.2, hr, ?_⟩
      rcases resume_variant (s' := r.1) (out := r.2) hr with h1 | h1
      · exact h1
      · rw [hst] at h1; simp at h1

end Infretis.RunnerSys
