/-
Concrete histories of the scheduler-with-files system (`Model/SchedDisk.lean`) for the non-vacuity
examples of `Props/C17.lean`.  Mathlib-free on purpose (`decide +kernel` over `Rat`).

System: ensembles `[0-] [0+]` (+ ghost), one worker, 3 steps, fresh directory (no restart file).
-/
import Infretis.Model.SchedDisk
namespace Infretis.SchedDiskEx
open Infretis.Repex Infretis.SchedDisk

def exFresh : St :=
  match loadPaths (blank 3 1 3 0 2 5 [[-1]] [[0], [0]] false []) [(0, [1], [0, 0, 0]), (1, [1, 0], [0, 0, 0])] with
  | .ok s => s
  | .error _ => blank 0 0 0 0 0 0 [] [] false []

/-- start, close the initiation, one accepted move, then the next unit's result is an exception -/
def evsFail : List DEv :=
  [.start { t := 1, e := 1 }, .initDone, .step 0 .acc [[1, 0]] { t := 0, e := 0 }, .unitFails 0]

/-- the scheduler history of a whole run of 3 steps (without the regular end) -/
def evsRun : List DEv :=
  [.start { t := 1, e := 1 }, .initDone, .step 0 .acc [[1, 0]] { t := 0, e := 0 },
   .step 0 .rej [] { t := 1, e := 1 }, .step 0 .rej [] { t := 1, e := 1 }]

def okWith (r : Except Err DSys) (c j : Nat) (dk : Option Nat) (w st : Nat) (ph : Phase) (m : Bool) : Bool :=
  match r with
  | .ok d => d.y.s.cstep == c && d.y.jobs.length == j && d.disk.map (·.cstep) == dk && d.writes == w &&
      d.stops == st && decide (d.phase = ph) && d.midStep == m
  | .error _ => false

theorem okWith_ok {r : Except Err DSys} {c j : Nat} {dk : Option Nat} {w st : Nat} {ph : Phase} {m : Bool}
    (h : okWith r c j dk w st ph m = true) :
    ∃ d, r = .ok d ∧ d.y.s.cstep = c ∧ d.y.jobs.length = j ∧ d.disk.map (·.cstep) = dk ∧ d.writes = w ∧
      d.stops = st ∧ d.phase = ph ∧ d.midStep = m := by
  cases r with
  | error e => simp [okWith] at h
  | ok d =>
    simp only [okWith, Bool.and_eq_true, beq_iff_eq, decide_eq_true_eq] at h
    obtain ⟨⟨⟨⟨⟨⟨h1, h2⟩, h3⟩, h4⟩, h5⟩, h6⟩, h7⟩ := h
    exact ⟨d, rfl, h1, h2, h3, h4, h5, h6, h7⟩

/-- after one completed move the second unit fails: memory says 2, the file says 1, stop() not called -/
theorem exFail : okWith (drun (begin exFresh none) evsFail) 2 0 (some 1) 1 0 .dead true = true := by
  decide +kernel

/-- the state right before the failure: running, one job in flight -/
theorem exBeforeFail : okWith (drun (begin exFresh none) (evsFail.take 3)) 1 1 (some 1) 1 0 .running false = true := by
  decide +kernel

/-- the finished run: memory 3, file 3, four writes (3 moves + the end), one stop() -/
theorem exFinished : okWith (drun (begin exFresh none) (evsRun ++ [.finish])) 3 0 (some 3) 4 1 .stopped false = true := by
  decide +kernel

/-- killed while waiting for the third result -/
theorem exKilledWaiting :
    okWith (drun (begin exFresh none) (evsRun.take 4 ++ [.killedWaiting])) 3 1 (some 2) 2 0 .dead true = true := by
  decide +kernel

theorem exFresh_counters : exFresh.cstep = 0 ∧ exFresh.tsteps = 3 ∧ exFresh.workers = 1 ∧ exFresh.toinitiate = 1 := by
  decide +kernel

end Infretis.SchedDiskEx
