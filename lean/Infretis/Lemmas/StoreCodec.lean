import Infretis.Model.Store
/-!
Helper lemmas for C14, part A: `load ∘ store` on the token-level model.
-/
namespace Infretis.Store

/-! ### the block reader on a well-formed block -/

theorem firstBlockGo_rows {β : Type} (parse : Line → Option (List β)) (g : Line → List β) (c : Nat) :
    ∀ (rows : List Line) (acc : List (List β)) (ncol : Option Nat) (rc : Bool),
      (∀ l ∈ rows, isComment l = false ∧ parse l = some (g l) ∧ (g l).length = c ∧ g l ≠ []) →
      (ncol = none ∨ ncol = some c) →
      firstBlockGo parse ncol acc true rc rows = some (acc ++ rows.map g) := by
  intro rows
  induction rows with
  | nil => intro acc ncol rc _ _; simp [firstBlockGo]
  | cons l ls ih =>
    intro acc ncol rc h hn
    obtain ⟨hc, hp, hl, hne⟩ := h l (List.mem_cons_self)
    have hrest : ∀ l' ∈ ls, isComment l' = false ∧ parse l' = some (g l') ∧ (g l').length = c ∧ g l' ≠ [] :=
      fun l' hl' => h l' (List.mem_cons_of_mem _ hl')
    rcases hn with hn | hn <;> subst hn
    · unfold firstBlockGo
      simp only [hc, hp]
      simp only [hne, ne_eq, not_false_eq_true, and_self, if_true, Bool.false_eq_true, if_false]
      rw [hl, ih (acc ++ [g l]) (some c) false hrest (Or.inr rfl)]
      simp
    · unfold firstBlockGo
      simp only [hc, hp]
      simp only [hl, hne, ne_eq, not_false_eq_true, and_self, if_true, Bool.false_eq_true, if_false]
      rw [ih (acc ++ [g l]) (some c) false hrest (Or.inr rfl)]
      simp

/-- two comment lines, then rows: the first block is the parsed rows -/
theorem firstBlock_stored {β : Type} (parse : Line → Option (List β)) (g : Line → List β) (c : Nat)
    (c1 c2 : Line) (rows : List Line) (h1 : isComment c1 = true) (h2 : isComment c2 = true)
    (h : ∀ l ∈ rows, isComment l = false ∧ parse l = some (g l) ∧ (g l).length = c ∧ g l ≠ []) :
    firstBlock parse (c1 :: c2 :: rows) = .ok (rows.map g) := by
  unfold firstBlock
  have : firstBlockGo parse none [] false false (c1 :: c2 :: rows) = some (rows.map g) := by
    rw [firstBlockGo]
    simp only [h1, if_true, Bool.false_eq_true, if_false]
    rw [firstBlockGo]
    simp only [h2, if_true]
    rw [firstBlockGo_rows parse g c rows [] none true h (Or.inl rfl)]
    simp
  rw [this]

theorem isComment_cycleLine (step : Nat) (mv : Option (List String)) : isComment (cycleLine step mv) = true := by
  cases mv <;> simp [cycleLine, isComment]

theorem isComment_headerLine (ls : List String) : isComment (headerLine ls) = true := by
  simp [headerLine, isComment]

theorem mem_rowsFrom {row : Nat → Frame → Line} : ∀ (fs : List Frame) (i : Nat) (l : Line),
    l ∈ rowsFrom row i fs → ∃ j f, f ∈ fs ∧ l = row j f := by
  intro fs
  induction fs with
  | nil => intro i l h; simp [rowsFrom] at h
  | cons f fs ih =>
    intro i l h
    simp only [rowsFrom, List.mem_cons] at h
    rcases h with h | h
    · exact ⟨i, f, List.mem_cons_self, h⟩
    · obtain ⟨j, f', hf', hl⟩ := ih (i + 1) l h
      exact ⟨j, f', List.mem_cons_of_mem _ hf', hl⟩

theorem map_rowsFrom {γ : Type} {row : Nat → Frame → Line} (g : Line → γ) (k : Frame → γ)
    (h : ∀ i f, g (row i f) = k f) : ∀ (fs : List Frame) (i : Nat), (rowsFrom row i fs).map g = fs.map k := by
  intro fs
  induction fs with
  | nil => intro i; simp [rowsFrom]
  | cons f fs ih => intro i; simp [rowsFrom, h, ih]

/-! ### traj.txt -/

def snapOf (f : Frame) : String × Int × Bool :=
  (f.base, idx0 f.idx, f.velRev)

theorem snapshot_trajRow (i : Nat) (f : Frame) : snapshot (trajRow i f) = .ok (snapOf f) := by
  cases hv : f.velRev <;> simp [snapshot, trajRow, intTok, Tok.render, snapOf, hv]

theorem snapshots_rows : ∀ (fs : List Frame) (i : Nat),
    snapshots (rowsFrom trajRow i fs) = .ok (fs.map snapOf) := by
  intro fs
  induction fs with
  | nil => intro i; simp [rowsFrom, snapshots]
  | cons f fs ih =>
    intro i
    simp only [rowsFrom, snapshots, snapshot_trajRow, ih, List.map_cons]

theorem firstBlock_traj (step : Nat) (fs : List Frame) :
    firstBlock parseStr (trajTxt step fs) = .ok (rowsFrom trajRow 0 fs) := by
  unfold trajTxt
  rw [firstBlock_stored parseStr id 4 _ _ _ (isComment_cycleLine _ _) (isComment_headerLine _)]
  · simp
  · intro l hl
    obtain ⟨j, f, _, rfl⟩ := mem_rowsFrom fs 0 l hl
    simp [trajRow, isComment, parseStr]

/-! ### the moved files -/

theorem mem_sources : ∀ (fs : List Frame) (f : Frame), f ∈ fs → (f.dir, f.base) ∈ sources fs := by
  intro fs
  induction fs with
  | nil => intro f h; simp at h
  | cons g fs ih =>
    intro f h
    simp only [sources, List.mem_cons, List.mem_filter]
    by_cases he : (f.dir, f.base) = (g.dir, g.base)
    · exact Or.inl he
    · right
      rcases List.mem_cons.mp h with h | h
      · subst h; exact absurd rfl he
      · exact ⟨ih f h, decide_eq_true he⟩

theorem sources_sub : ∀ (fs : List Frame) (s : String × String), s ∈ sources fs → ∃ f ∈ fs, s = (f.dir, f.base) := by
  intro fs
  induction fs with
  | nil => intro s h; simp [sources] at h
  | cons g fs ih =>
    intro s h
    simp only [sources, List.mem_cons, List.mem_filter] at h
    rcases h with h | ⟨h, _⟩
    · exact ⟨g, List.mem_cons_self, h⟩
    · obtain ⟨f, hf, hs⟩ := ih s h
      exact ⟨f, List.mem_cons_of_mem _ hf, hs⟩

theorem sources_nodup : ∀ (fs : List Frame), (sources fs).Nodup := by
  intro fs
  induction fs with
  | nil => simp [sources]
  | cons g fs ih =>
    simp only [sources, List.nodup_cons, List.mem_filter]
    refine ⟨?_, ih.filter _⟩
    simp

theorem files_check (fs : List Frame) :
    (fs.map snapOf).all (fun s => ((sources fs).map (·.2)).contains s.1) = true := by
  simp only [List.all_map, List.all_eq_true]
  intro f hf
  simp only [Function.comp, snapOf, List.contains_eq_mem, decide_eq_true_eq, List.mem_map]
  exact ⟨(f.dir, f.base), mem_sources fs f hf, rfl⟩

/-! ### order.txt -/

theorem mapOpt_fix6 : ∀ (l : List Int), mapOpt floatTok (l.map Tok.fix6) = some (l.map Num.val) := by
  intro l
  induction l with
  | nil => rfl
  | cons a l ih => simp [mapOpt, floatTok, ih]

theorem parseNum_orderRow (i : Nat) (f : Frame) :
    parseNum (orderRow i f) = some (Num.val ((i : Int) * 1000000) :: f.order.map Num.val) := by
  simp [parseNum, orderRow, mapOpt_fix6]

def numRow (l : Line) : List Num := match parseNum l with | some d => d | none => []

theorem firstBlock_order (step : Nat) (mv : List String) (fs : List Frame) (c : Nat)
    (hc : ∀ f ∈ fs, f.order.length = c) :
    firstBlock parseNum (orderTxt step mv fs) = .ok ((rowsFrom orderRow 0 fs).map numRow) := by
  unfold orderTxt
  rw [firstBlock_stored parseNum numRow (c + 1) _ _ _ (isComment_cycleLine _ _) (isComment_headerLine _)]
  intro l hl
  obtain ⟨j, f, hf, rfl⟩ := mem_rowsFrom fs 0 l hl
  simp [numRow, parseNum_orderRow, hc f hf]
  simp [orderRow, isComment]

theorem order_cols (fs : List Frame) (i : Nat) :
    ((rowsFrom orderRow i fs).map numRow).map List.tail = fs.map (fun f => f.order.map Num.val) := by
  rw [List.map_map]
  exact map_rowsFrom _ _ (fun i f => by simp [numRow, parseNum_orderRow]) fs i

/-! ### energy.txt -/

theorem floatTok_eTok (x : Option Int) : floatTok (eTok x) = some (eNum x) := by
  cases x <;> rfl

theorem parseNum_energyRow (i : Nat) (f : Frame) :
    parseNum (energyRow i f) = some [Num.val ((i : Int) * 1000000), eNum f.vpot, eNum f.ekin, .nan, .nan] := by
  rcases f with ⟨d, b, ix, vr, ord, vp, ek⟩
  cases vp <;> cases ek <;> simp [parseNum, energyRow, mapOpt, eTok, eNum, floatTok]

theorem firstBlock_energy (step : Nat) (mv : List String) (fs : List Frame) :
    firstBlock parseNum (energyTxt step mv fs) = .ok ((rowsFrom energyRow 0 fs).map numRow) := by
  unfold energyTxt
  rw [firstBlock_stored parseNum numRow 5 _ _ _ (isComment_cycleLine _ _) (isComment_headerLine _)]
  intro l hl
  obtain ⟨j, f, _, rfl⟩ := mem_rowsFrom fs 0 l hl
  simp [numRow, parseNum_energyRow]
  simp [energyRow, isComment]

def bare (f : Frame) : LFrame :=
  { base := f.base, idx := idx0 f.idx, velRev := f.velRev,
    order := f.order.map Num.val, vpot := none, ekin := none }

theorem zipFrames_maps : ∀ (fs : List Frame),
    zipFrames (fs.map snapOf) (fs.map (fun f => f.order.map Num.val)) = fs.map bare := by
  intro fs
  induction fs with
  | nil => simp [zipFrames]
  | cons f fs ih => simp [zipFrames, ih, bare, snapOf]

theorem setEnergies_rows : ∀ (fs : List Frame) (i : Nat),
    setEnergies (fs.map bare) ((rowsFrom energyRow i fs).map numRow) = fs.map expected := by
  intro fs
  induction fs with
  | nil => intro i; simp [setEnergies]
  | cons f fs ih =>
    intro i
    simp only [List.map_cons, rowsFrom, setEnergies, ih]
    congr 1
    simp [numRow, parseNum_energyRow, bare, expected]

end Infretis.Store
