import Infretis.Model.Store
/-!
Helper lemmas for C14, part B: the delete_old block and the pn_olds FIFO.
-/
namespace Infretis.Store

def keys {α : Type} (l : List (Nat × α)) : List Nat := l.map (·.1)

/-! ### primitive file operations -/

theorem removeAll_sub : ∀ (fs d : List DFile) (g : DFile), g ∈ (removeAll fs d).1 → g ∈ d := by
  intro fs
  induction fs with
  | nil => intro d g h; simpa [removeAll] using h
  | cons f fs ih =>
    intro d g h
    unfold removeAll at h
    split at h
    · have := ih _ g h
      exact (List.mem_filter.mp this).1
    · exact h

theorem removeAll_keeps : ∀ (fs d : List DFile) (g : DFile), g ∈ d → g ∉ fs → g ∈ (removeAll fs d).1 := by
  intro fs
  induction fs with
  | nil => intro d g h _; simpa [removeAll] using h
  | cons f fs ih =>
    intro d g h hn
    unfold removeAll
    have hgf : g ≠ f := fun e => hn (e ▸ List.mem_cons_self)
    have hnf : g ∉ fs := fun e => hn (List.mem_cons_of_mem _ e)
    split
    · exact ih _ g (List.mem_filter.mpr ⟨h, by simpa using hgf⟩) hnf
    · exact h

theorem removeAll_gone : ∀ (fs d : List DFile), (removeAll fs d).2 = none → ∀ g ∈ fs, g ∉ (removeAll fs d).1 := by
  intro fs
  induction fs with
  | nil => intro d _ g h; simp at h
  | cons f fs ih =>
    intro d hok g hg
    unfold removeAll at hok ⊢
    split at hok
    · rename_i hfd
      simp only [hfd, if_true]
      rcases List.mem_cons.mp hg with rfl | hg
      · intro hin
        have := removeAll_sub fs _ _ hin
        simp at this
      · exact ih _ hok g hg
    · simp at hok

theorem mem_removeTxts (pn : Nat) (d : List DFile) (g : DFile) :
    g ∈ removeTxts pn d ↔ g ∈ d ∧ g ≠ .txt pn 0 ∧ g ≠ .txt pn 1 ∧ g ≠ .txt pn 2 := by
  simp [removeTxts, List.mem_filter]

/-! ### `delHead` -/

/-- everything but disk, dirs and the queue is untouched; the queue keeps or loses its head;
    only files of the head path disappear -/
theorem delHead_frame (s : St) :
    (delHead s).1.n = s.n ∧ (delHead s).1.delOld = s.delOld ∧ (delHead s).1.delAll = s.delAll ∧
    (delHead s).1.trajNum = s.trajNum ∧ (delHead s).1.live = s.live ∧ (delHead s).1.trajData = s.trajData ∧
    (delHead s).1.restart = s.restart ∧ (delHead s).1.pending = s.pending ∧ (delHead s).1.cnt = s.cnt ∧
    (delHead s).1.txt = s.txt := by
  unfold delHead
  repeat' split
  all_goals simp

theorem delHead_disk_sub (s : St) (g : DFile) : g ∈ (delHead s).1.disk → g ∈ s.disk := by
  unfold delHead
  repeat' split
  all_goals (try rename_i hr) <;> intro h <;> simp_all [mem_removeTxts]
  all_goals sorry

end Infretis.Store
