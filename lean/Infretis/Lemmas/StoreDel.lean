import Infretis.Model.Store
/-!
Helper lemmas for C14, part B: the delete_old block and the pn_olds FIFO.
-/
namespace Infretis.Store

def keys {α : Type} (l : List (Nat × α)) : List Nat := l.map (·.1)

/-! ### primitive file operations -/

theorem removeAll_sub : ∀ (fs d : List DFile) (g : DFile), g ∈ (removeAll fs d).1 → g ∈ d := by
  intro fs
  induction fs with
  | nil => intro d g h; simpa [removeAll] using h
  | cons f fs ih =>
    intro d g h
    unfold removeAll at h
    split at h
    · have := ih _ g h
      exact (List.mem_filter.mp this).1
    · exact h

theorem removeAll_keeps : ∀ (fs d : List DFile) (g : DFile), g ∈ d → g ∉ fs → g ∈ (removeAll fs d).1 := by
  intro fs
  induction fs with
  | nil => intro d g h _; simpa [removeAll] using h
  | cons f fs ih =>
    intro d g h hn
    unfold removeAll
    have hgf : g ≠ f := fun e => hn (e ▸ List.mem_cons_self)
    have hnf : g ∉ fs := fun e => hn (List.mem_cons_of_mem _ e)
    split
    · exact ih _ g (List.mem_filter.mpr ⟨h, by simpa using hgf⟩) hnf
    · exact h

theorem removeAll_gone : ∀ (fs d : List DFile), (removeAll fs d).2 = none → ∀ g ∈ fs, g ∉ (removeAll fs d).1 := by
  intro fs
  induction fs with
  | nil => intro d _ g h; simp at h
  | cons f fs ih =>
    intro d hok g hg
    unfold removeAll at hok ⊢
    split at hok
    · rename_i hfd
      simp only [hfd, if_true]
      rcases List.mem_cons.mp hg with rfl | hg
      · intro hin
        have := removeAll_sub fs _ _ hin
        simp at this
      · exact ih _ hok g hg
    · simp at hok

theorem mem_removeTxts (pn : Nat) (d : List DFile) (g : DFile) :
    g ∈ removeTxts pn d ↔ g ∈ d ∧ g ≠ .txt pn 0 ∧ g ≠ .txt pn 1 ∧ g ≠ .txt pn 2 := by
  simp [removeTxts, List.mem_filter]

theorem sideFiles_pn (pd : Nat) (adr keep : List String) (g : DFile) (h : g ∈ sideFiles pd adr keep) : g.pn = pd := by
  simp only [sideFiles, List.mem_flatMap, List.mem_map] at h
  obtain ⟨a, _, e, _, rfl⟩ := h
  rfl

theorem mem_removeLeftovers (pd : Nat) (d : List DFile) (g : DFile) :
    g ∈ removeLeftovers pd d ↔ g ∈ d ∧ isAccOf pd g = false := by
  simp [removeLeftovers, List.mem_filter]

theorem isAccOf_pn (pd : Nat) (g : DFile) (h : isAccOf pd g = true) : g.pn = pd := by
  cases g with
  | txt p k => simp [isAccOf] at h
  | acc p nm => simpa [isAccOf, DFile.pn] using h

theorem cleanDir_sub (c : DelCfg) (pd : Nat) (adr : List String) (d : List DFile) (g : DFile)
    (h : g ∈ cleanDir c pd adr d) : g ∈ d := by
  unfold cleanDir at h
  cases hv : c.variant <;> simp only [hv] at h
  · exact ((mem_removeTxts _ _ _).mp h).1
  · have h1 := ((mem_removeLeftovers _ _ _).mp h).1
    have h2 := ((mem_removeTxts _ _ _).mp h1).1
    exact (List.mem_filter.mp h2).1

/-- whatever survives the cleaning is none of the three txt files -/
theorem cleanDir_not_txt (c : DelCfg) (pd : Nat) (adr : List String) (d : List DFile) (g : DFile)
    (h : g ∈ cleanDir c pd adr d) : g ≠ .txt pd 0 ∧ g ≠ .txt pd 1 ∧ g ≠ .txt pd 2 := by
  unfold cleanDir at h
  cases hv : c.variant <;> simp only [hv] at h
  · exact ((mem_removeTxts _ _ _).mp h).2
  · exact ((mem_removeTxts _ _ _).mp ((mem_removeLeftovers _ _ _).mp h).1).2

/-- the repaired code leaves no entry of accepted/ -/
theorem cleanDir_no_acc (c : DelCfg) (hv : c.variant = .repaired) (pd : Nat) (adr : List String) (d : List DFile)
    (g : DFile) (h : g ∈ cleanDir c pd adr d) : isAccOf pd g = false := by
  unfold cleanDir at h
  simp only [hv] at h
  exact ((mem_removeLeftovers _ _ _).mp h).2

theorem cleanDir_removed (c : DelCfg) (pd : Nat) (adr : List String) (d : List DFile) (g : DFile)
    (hg : g ∈ d) (hn : g ∉ cleanDir c pd adr d) : g.pn = pd := by
  apply Classical.byContradiction
  intro hne
  apply hn
  have ht : g ≠ .txt pd 0 ∧ g ≠ .txt pd 1 ∧ g ≠ .txt pd 2 :=
    ⟨fun e => hne (e ▸ rfl), fun e => hne (e ▸ rfl), fun e => hne (e ▸ rfl)⟩
  unfold cleanDir
  cases hv : c.variant <;> simp only
  · exact (mem_removeTxts _ _ _).mpr ⟨hg, ht⟩
  · refine (mem_removeLeftovers _ _ _).mpr ⟨(mem_removeTxts _ _ _).mpr ⟨?_, ht⟩, ?_⟩
    · refine List.mem_filter.mpr ⟨hg, ?_⟩
      simp only [decide_eq_true_eq]
      exact fun hs => hne (sideFiles_pn _ _ _ _ hs)
    · cases hacc : isAccOf pd g with
      | false => rfl
      | true => exact absurd (isAccOf_pn pd g hacc) hne

/-! ### `delHeadCore` -/

theorem delHeadCore_disk_sub (da : DelCfg) (olds : List (Nat × List String)) (disk : List DFile) (dirs : List DDir)
    (g : DFile) : g ∈ (delHeadCore da olds disk dirs).2.1 → g ∈ disk := by
  unfold delHeadCore
  split
  · exact id
  · dsimp only
    split
    · exact removeAll_sub _ _ g
    · split
      · split <;> (intro h; exact removeAll_sub _ _ g (cleanDir_sub _ _ _ _ _ h))
      · exact removeAll_sub _ _ g

/-- only files of the head path disappear -/
theorem delHeadCore_removed (da : DelCfg) (olds : List (Nat × List String)) (disk : List DFile) (dirs : List DDir)
    (g : DFile) (hg : g ∈ disk) (hn : g ∉ (delHeadCore da olds disk dirs).2.1) :
    ∃ pd adr rest, olds = (pd, adr) :: rest ∧ g.pn = pd := by
  unfold delHeadCore at hn
  split at hn
  · exact absurd hg hn
  · rename_i pd adr rest
    refine ⟨pd, adr, rest, rfl, ?_⟩
    have key : ∀ d', (∀ x, x ∈ disk → x ∉ List.map (DFile.acc pd) adr → x ∈ d') → g ∉ cleanDir da pd adr d' → g.pn = pd := by
      intro d' hd' hnn
      by_cases hm : g ∈ List.map (DFile.acc pd) adr
      · obtain ⟨a, _, rfl⟩ := List.mem_map.mp hm
        rfl
      · exact cleanDir_removed da pd adr d' g (hd' g hg hm) hnn
    have key2 : g ∉ (removeAll (List.map (DFile.acc pd) adr) disk).1 → g.pn = pd := by
      intro hnn
      by_cases hm : g ∈ List.map (DFile.acc pd) adr
      · obtain ⟨a, _, rfl⟩ := List.mem_map.mp hm
        rfl
      · exact absurd (removeAll_keeps _ _ g hg hm) hnn
    dsimp only at hn
    split at hn
    · exact key2 hn
    · split at hn
      · split at hn <;> exact key _ (fun x hx hxn => removeAll_keeps _ _ x hx hxn) hn
      · exact key2 hn

/-- on success the head is popped and its files are gone; on failure the queue is unchanged -/
theorem delHeadCore_ok (da : DelCfg) (olds : List (Nat × List String)) (disk : List DFile) (dirs : List DDir)
    (h : (delHeadCore da olds disk dirs).2.2.2 = none) :
    ∃ pd adr, olds = (pd, adr) :: (delHeadCore da olds disk dirs).1 ∧
      ∀ a ∈ adr, DFile.acc pd a ∉ (delHeadCore da olds disk dirs).2.1 := by
  unfold delHeadCore at h ⊢
  split at h
  · simp at h
  · rename_i pd adr rest
    dsimp only at h ⊢
    split at h
    · simp at h
    · rename_i _ hr
      split at h
      · rename_i hda
        simp only [hda, if_true]
        split at h
        · simp at h
        · rename_i _ hrd
          refine ⟨pd, adr, rfl, ?_⟩
          intro a ha hin
          exact removeAll_gone _ _ hr _ (List.mem_map_of_mem ha) (cleanDir_sub _ _ _ _ _ hin)
      · rename_i hda
        simp only [hda]
        refine ⟨pd, adr, rfl, ?_⟩
        intro a ha hin
        exact removeAll_gone _ _ hr _ (List.mem_map_of_mem ha) hin

theorem delHeadCore_err (da : DelCfg) (olds : List (Nat × List String)) (disk : List DFile) (dirs : List DDir)
    (h : (delHeadCore da olds disk dirs).2.2.2 ≠ none) : (delHeadCore da olds disk dirs).1 = olds := by
  unfold delHeadCore at h ⊢
  split
  · rfl
  · dsimp only at h ⊢
    split
    · rfl
    · split
      · split
        · rfl
        · rename_i _ hr hda _ hrd
          simp [hr, hda, hrd] at h
      · rename_i _ hr hda
        simp [hr, hda] at h


/-! ### dict helpers -/

theorem keys_dictSet {α : Type} (k : Nat) (v : α) : ∀ (l : List (Nat × α)),
    keys (dictSet k v l) = if k ∈ keys l then keys l else keys l ++ [k] := by
  intro l
  induction l with
  | nil => simp [dictSet, keys]
  | cons e t ih =>
    obtain ⟨k', v'⟩ := e
    unfold dictSet
    by_cases h : k' = k
    · subst h; simp [keys]
    · simp only [h, if_false]
      have ih' := ih
      simp only [keys] at ih' ⊢
      simp only [List.map_cons, List.mem_cons, ih']
      have hk : ¬ k = k' := fun e => h e.symm
      by_cases hm : k ∈ List.map (fun x => x.1) t
      · simp [hm]
      · simp [hm, hk]

theorem mem_keys_dictSet {α : Type} (k : Nat) (v : α) (l : List (Nat × α)) (q : Nat) :
    q ∈ keys (dictSet k v l) ↔ q = k ∨ q ∈ keys l := by
  rw [keys_dictSet]
  by_cases h : k ∈ keys l
  · simp only [h, if_true]
    constructor
    · exact Or.inr
    · rintro (rfl | h') <;> assumption
  · simp only [h, if_false, List.mem_append, List.mem_singleton]
    exact Or.comm

theorem length_dictSet {α : Type} (k : Nat) (v : α) (l : List (Nat × α)) :
    (dictSet k v l).length = if k ∈ keys l then l.length else l.length + 1 := by
  have h := congrArg List.length (keys_dictSet k v l)
  simp only [keys, List.length_map] at h
  rw [h]
  by_cases hk : k ∈ keys l
  · have hk' : k ∈ List.map (fun x => x.fst) l := hk
    simp [hk, hk']
  · have hk' : k ∉ List.map (fun x => x.fst) l := hk
    simp [hk, hk']

theorem lookup_mem {α : Type} (k : Nat) : ∀ (l : List (Nat × α)) (v : α), lookup k l = some v → (k, v) ∈ l := by
  intro l
  induction l with
  | nil => intro v h; simp [lookup] at h
  | cons e t ih =>
    intro v h
    obtain ⟨k', v'⟩ := e
    unfold lookup at h
    split at h
    · rename_i hk
      simp only [Option.some.injEq] at h
      subst hk; subst h
      exact List.mem_cons_self
    · exact List.mem_cons_of_mem _ (ih v h)

theorem lookup_keys {α : Type} (k : Nat) (l : List (Nat × α)) (v : α) (h : lookup k l = some v) : k ∈ keys l := by
  have := lookup_mem k l v h
  exact List.mem_map.mpr ⟨(k, v), this, rfl⟩

/-! ### `delHead`, `delBlock` -/

/-- what the delete_old block does, case by case -/
theorem delBlock_cases (s : St) (pnOld : Nat) (adr : List String) :
    (qualifies s pnOld = false ∧ delBlock s pnOld adr = (s, none)) ∨
    (qualifies s pnOld = true ∧ ¬ ((s.pnOlds.length : Int) > (s.n : Int) - 2) ∧
      delBlock s pnOld adr = ({ s with pnOlds := dictSet pnOld adr s.pnOlds }, none)) ∨
    (qualifies s pnOld = true ∧ ((s.pnOlds.length : Int) > (s.n : Int) - 2) ∧ (delHead s).2 ≠ none ∧
      delBlock s pnOld adr = delHead s) ∨
    (qualifies s pnOld = true ∧ ((s.pnOlds.length : Int) > (s.n : Int) - 2) ∧ (delHead s).2 = none ∧
      delBlock s pnOld adr =
        (if (((delHead s).1.pnOlds.length : Int) ≤ (s.n : Int) - 2)
          then { (delHead s).1 with pnOlds := dictSet pnOld adr (delHead s).1.pnOlds } else (delHead s).1, none)) := by
  by_cases hq : qualifies s pnOld = true
  · by_cases hl : ((s.pnOlds.length : Int) > (s.n : Int) - 2)
    · cases hd : (delHead s).2 with
      | some e =>
        right; right; left
        refine ⟨hq, hl, by simp, ?_⟩
        unfold delBlock
        simp only [hq, hl, if_true, hd]
        rw [← hd]
      | none =>
        right; right; right
        refine ⟨hq, hl, rfl, ?_⟩
        unfold delBlock
        simp only [hq, hl, if_true, hd]
        have : (delHead s).1.n = s.n := rfl
        rw [this]
        split <;> rfl
    · right; left
      refine ⟨hq, hl, ?_⟩
      have : (s.pnOlds.length : Int) ≤ (s.n : Int) - 2 := by omega
      unfold delBlock
      simp only [hq, hl, if_true, if_false, this]
  · left
    have : qualifies s pnOld = false := by simpa using hq
    refine ⟨this, ?_⟩
    unfold delBlock
    simp [this]

end Infretis.Store
