import Infretis.Lemmas.StoreDel
/-!
Invariants of the deletion model (C14, part B) and their preservation by every step,
including steps that raise (the state returned with an error is what is left on disk).
-/
namespace Infretis.Store

/-- every file that `load_path(load/p)` needs is there: order.txt, traj.txt, and the record of what
    traj.txt refers to EXISTS (`St.txt`, compared by the tie with the names in the real traj.txt after
    every call) and every trajectory file it names is on disk.
    [Until the audit of 2026-09-29 the third conjunct was `∀ adr, lookup p s.txt = some adr → …`, vacuous for a
    path without a record; a state with a live path that has lost all its trajectory files was `Good`.] -/
def Intact (s : St) (p : Nat) : Prop :=
  DFile.txt p 0 ∈ s.disk ∧ DFile.txt p 1 ∈ s.disk ∧
    ∃ adr, lookup p s.txt = some adr ∧ ∀ a ∈ adr, DFile.acc p a ∈ s.disk

structure Good (s : St) : Prop where
  olds_dead : ∀ q ∈ keys s.pnOlds, q ∉ s.live ∧ (s.n : Int) - 2 < q ∧ q < s.trajNum
  live_lt : ∀ p ∈ s.live, p < s.trajNum
  td_lt : ∀ p ∈ keys s.trajData, p < s.trajNum
  live_intact : ∀ p ∈ s.live, Intact s p

/-- fields the delete block never touches -/
def SameCtl (r s : St) : Prop :=
  r.n = s.n ∧ r.delOld = s.delOld ∧ r.delAll = s.delAll ∧ r.trajNum = s.trajNum ∧ r.live = s.live ∧
  r.trajData = s.trajData ∧ r.restart = s.restart ∧ r.pending = s.pending ∧ r.cnt = s.cnt ∧ r.txt = s.txt

theorem delHead_keys_sub (s : St) (q : Nat) (h : q ∈ keys (delHead s).1.pnOlds) : q ∈ keys s.pnOlds := by
  show q ∈ keys s.pnOlds
  have h' : q ∈ keys (delHeadCore s.delCfg s.pnOlds s.disk s.dirs).1 := h
  cases hd : (delHeadCore s.delCfg s.pnOlds s.disk s.dirs).2.2.2 with
  | none =>
    obtain ⟨pd, adr, ho, _⟩ := delHeadCore_ok _ _ _ _ hd
    rw [ho]
    exact List.mem_cons_of_mem _ h'
  | some e =>
    have := delHeadCore_err s.delCfg s.pnOlds s.disk s.dirs (by simp [hd])
    rw [this] at h'
    exact h'

theorem delBlock_summary (s : St) (pnOld : Nat) (adr : List String) :
    SameCtl (delBlock s pnOld adr).1 s ∧
    (∀ g ∈ (delBlock s pnOld adr).1.disk, g ∈ s.disk) ∧
    (∀ g ∈ s.disk, g ∉ (delBlock s pnOld adr).1.disk →
      ∃ pd adr' rest, s.pnOlds = (pd, adr') :: rest ∧ g.pn = pd ∧ ((s.pnOlds.length : Int) > (s.n : Int) - 2) ∧
        qualifies s pnOld = true) ∧
    (∀ q ∈ keys (delBlock s pnOld adr).1.pnOlds,
      q ∈ keys s.pnOlds ∨ (q = pnOld ∧ qualifies s pnOld = true ∧ (delBlock s pnOld adr).2 = none)) := by
  have hsub : ∀ g ∈ (delHead s).1.disk, g ∈ s.disk := fun g hg => delHeadCore_disk_sub _ _ _ _ g hg
  have hrem : ∀ g ∈ s.disk, g ∉ (delHead s).1.disk → ∃ pd adr' rest, s.pnOlds = (pd, adr') :: rest ∧ g.pn = pd :=
    fun g hg hn => delHeadCore_removed _ _ _ _ g hg hn
  rcases delBlock_cases s pnOld adr with ⟨_, he⟩ | ⟨hq, _, he⟩ | ⟨hq, hl, _, he⟩ | ⟨hq, hl, _, he⟩
  · rw [he]
    exact ⟨⟨rfl, rfl, rfl, rfl, rfl, rfl, rfl, rfl, rfl, rfl⟩, fun g h => h, fun g h hn => absurd h hn, fun q h => Or.inl h⟩
  · rw [he]
    refine ⟨⟨rfl, rfl, rfl, rfl, rfl, rfl, rfl, rfl, rfl, rfl⟩, fun g h => h, fun g h hn => absurd h hn, ?_⟩
    intro q h
    rcases (mem_keys_dictSet pnOld adr s.pnOlds q).mp h with h | h
    · exact Or.inr ⟨h, hq, rfl⟩
    · exact Or.inl h
  · rw [he]
    refine ⟨⟨rfl, rfl, rfl, rfl, rfl, rfl, rfl, rfl, rfl, rfl⟩, hsub, ?_, fun q h => Or.inl (delHead_keys_sub s q h)⟩
    intro g hg hn
    obtain ⟨pd, a, r, h1, h2⟩ := hrem g hg hn
    exact ⟨pd, a, r, h1, h2, hl, hq⟩
  · rw [he]
    split
    · refine ⟨⟨rfl, rfl, rfl, rfl, rfl, rfl, rfl, rfl, rfl, rfl⟩, hsub, ?_, ?_⟩
      · intro g hg hn
        obtain ⟨pd, a, r, h1, h2⟩ := hrem g hg hn
        exact ⟨pd, a, r, h1, h2, hl, hq⟩
      · intro q h
        rcases (mem_keys_dictSet pnOld adr _ q).mp h with h | h
        · exact Or.inr ⟨h, hq, rfl⟩
        · exact Or.inl (delHead_keys_sub s q h)
    · refine ⟨⟨rfl, rfl, rfl, rfl, rfl, rfl, rfl, rfl, rfl, rfl⟩, hsub, ?_, fun q h => Or.inl (delHead_keys_sub s q h)⟩
      intro g hg hn
      obtain ⟨pd, a, r, h1, h2⟩ := hrem g hg hn
      exact ⟨pd, a, r, h1, h2, hl, hq⟩


/-! ### `replace` -/

theorem stored_disk (s : St) (pnOld : Nat) (files kept : List String) (g : DFile) (h : g ∈ s.disk) :
    g ∈ (stored s pnOld files kept).disk := by
  simp only [stored, storeNew]
  exact List.mem_append_right _ h

/-- the result of `replace` is the result of the delete block, possibly with `live` updated -/
theorem replace_shape (s : St) (pnOld : Nat) (files kept : List String) :
    (lookup pnOld s.trajData = none ∧ replace s pnOld files kept = (s, some .key)) ∨
    (∃ adrOld, lookup pnOld s.trajData = some adrOld ∧
      (((delBlock (stored s pnOld files kept) pnOld adrOld).2 ≠ none ∧
        replace s pnOld files kept = delBlock (stored s pnOld files kept) pnOld adrOld) ∨
      ((delBlock (stored s pnOld files kept) pnOld adrOld).2 = none ∧
        replace s pnOld files kept =
          ({ (delBlock (stored s pnOld files kept) pnOld adrOld).1 with
              live := (delBlock (stored s pnOld files kept) pnOld adrOld).1.live.map
                (fun p => if p = pnOld then s.trajNum else p) }, none)))) := by
  unfold replace
  cases hl : lookup pnOld s.trajData with
  | none => left; exact ⟨rfl, rfl⟩
  | some adrOld =>
    right
    refine ⟨adrOld, rfl, ?_⟩
    simp only
    cases hb : (delBlock (stored s pnOld files kept) pnOld adrOld).2 with
    | some e =>
      left
      refine ⟨by simp, ?_⟩
      have : ∀ (x : St × Option Err), x.2 = some e → (x.1, some e) = x := by
        intro x hx; rw [← hx]
      exact this _ hb
    | none => right; exact ⟨rfl, rfl⟩

theorem replace_removed (s : St) (pnOld : Nat) (files kept : List String) (g : DFile) (hg : g ∈ s.disk)
    (hn : g ∉ (replace s pnOld files kept).1.disk) :
    ∃ pd adr rest, s.pnOlds = (pd, adr) :: rest ∧ g.pn = pd ∧ ((s.pnOlds.length : Int) > (s.n : Int) - 2) ∧
      qualifies s pnOld = true := by
  rcases replace_shape s pnOld files kept with ⟨_, he⟩ | ⟨adrOld, _, ⟨_, he⟩ | ⟨_, he⟩⟩
  · rw [he] at hn; exact absurd hg hn
  · rw [he] at hn
    exact (delBlock_summary (stored s pnOld files kept) pnOld adrOld).2.2.1 g (stored_disk s pnOld files kept g hg) hn
  · rw [he] at hn
    exact (delBlock_summary (stored s pnOld files kept) pnOld adrOld).2.2.1 g (stored_disk s pnOld files kept g hg) hn

theorem replace_ctl (s : St) (pnOld : Nat) (files kept : List String) :
    (replace s pnOld files kept).1.n = s.n ∧ (replace s pnOld files kept).1.restart = s.restart ∧
    (replace s pnOld files kept).1.delOld = s.delOld ∧ (replace s pnOld files kept).1.delAll = s.delAll := by
  rcases replace_shape s pnOld files kept with ⟨_, he⟩ | ⟨adrOld, _, ⟨_, he⟩ | ⟨_, he⟩⟩
  · rw [he]; exact ⟨rfl, rfl, rfl, rfl⟩
  · rw [he]
    obtain ⟨h1, h2, h3, _, _, _, h7, _⟩ := (delBlock_summary (stored s pnOld files kept) pnOld adrOld).1
    exact ⟨h1, h7, h2, h3⟩
  · rw [he]
    obtain ⟨h1, h2, h3, _, _, _, h7, _⟩ := (delBlock_summary (stored s pnOld files kept) pnOld adrOld).1
    exact ⟨h1, h7, h2, h3⟩

theorem lookup_cons_ne {α : Type} (k k' : Nat) (v : α) (l : List (Nat × α)) (h : k' ≠ k) :
    lookup k ((k', v) :: l) = lookup k l := by
  simp [lookup, h]

/-- a path other than the new one and not the queue head keeps its files through `replace` -/
theorem replace_intact (s : St) (pnOld : Nat) (files kept : List String) (p : Nat)
    (hp : p < s.trajNum) (hh : ∀ pd adr rest, s.pnOlds = (pd, adr) :: rest →
      ((s.pnOlds.length : Int) > (s.n : Int) - 2) → pd ≠ p)
    (hi : Intact s p) : Intact (replace s pnOld files kept).1 p := by
  have htxt : lookup p (replace s pnOld files kept).1.txt = lookup p s.txt := by
    rcases replace_shape s pnOld files kept with ⟨_, he⟩ | ⟨adrOld, _, ⟨_, he⟩ | ⟨_, he⟩⟩
    · rw [he]
    · rw [he]
      obtain ⟨_, _, _, _, _, _, _, _, _, h10⟩ := (delBlock_summary (stored s pnOld files kept) pnOld adrOld).1
      rw [h10]
      exact lookup_cons_ne p s.trajNum files s.txt (by omega)
    · rw [he]
      obtain ⟨_, _, _, _, _, _, _, _, _, h10⟩ := (delBlock_summary (stored s pnOld files kept) pnOld adrOld).1
      show lookup p (delBlock (stored s pnOld files kept) pnOld adrOld).1.txt = _
      rw [h10]
      exact lookup_cons_ne p s.trajNum files s.txt (by omega)
  have keep : ∀ g ∈ s.disk, g.pn = p → g ∈ (replace s pnOld files kept).1.disk := by
    intro g hgd hgp
    apply Classical.byContradiction
    intro hn
    obtain ⟨pd, adr, rest, h1, h2, h3, _⟩ := replace_removed s pnOld files kept g hgd hn
    exact hh pd adr rest h1 h3 (h2.symm.trans hgp)
  obtain ⟨h0, h1, adr, hl, h2⟩ := hi
  refine ⟨keep _ h0 rfl, keep _ h1 rfl, adr, ?_, ?_⟩
  · rw [htxt]; exact hl
  · intro a ha
    exact keep _ (h2 a ha) rfl

/-- the path just stored is intact after `replace` (when its `traj_data` lookup succeeded) -/
theorem replace_new_intact (s : St) (hg : Good s) (pnOld : Nat) (files kept : List String)
    (hk : lookup pnOld s.trajData ≠ none) : Intact (replace s pnOld files kept).1 s.trajNum := by
  have hm : Intact (stored s pnOld files kept) s.trajNum := by
    refine ⟨by simp [stored, storeNew], by simp [stored, storeNew], files, by simp [stored, storeNew, lookup], ?_⟩
    intro a ha
    simp only [stored, storeNew]
    apply List.mem_append_left
    apply List.mem_append_right
    exact List.mem_map_of_mem (List.mem_append_left _ ha)
  have hhead : ∀ pd adr rest, s.pnOlds = (pd, adr) :: rest → pd ≠ s.trajNum := by
    intro pd adr rest h
    have : pd ∈ keys s.pnOlds := by rw [h]; simp [keys]
    have := (hg.olds_dead pd this).2.2
    omega
  have transfer : ∀ adrOld, Intact (delBlock (stored s pnOld files kept) pnOld adrOld).1 s.trajNum := by
    intro adrOld
    obtain ⟨hc, _, hrem, _⟩ := delBlock_summary (stored s pnOld files kept) pnOld adrOld
    obtain ⟨_, _, _, _, _, _, _, _, _, h10⟩ := hc
    have keep : ∀ g ∈ (stored s pnOld files kept).disk, g.pn = s.trajNum →
        g ∈ (delBlock (stored s pnOld files kept) pnOld adrOld).1.disk := by
      intro g hgd hgp
      apply Classical.byContradiction
      intro hn
      obtain ⟨pd, adr, rest, h1, h2, _⟩ := hrem g hgd hn
      exact hhead pd adr rest h1 (h2.symm.trans hgp)
    obtain ⟨h0, h1, adr, hl, h2⟩ := hm
    refine ⟨keep _ h0 rfl, keep _ h1 rfl, adr, ?_, ?_⟩
    · rw [h10]; exact hl
    · intro a ha
      exact keep _ (h2 a ha) rfl
  rcases replace_shape s pnOld files kept with ⟨h0, _⟩ | ⟨adrOld, _, ⟨_, he⟩ | ⟨_, he⟩⟩
  · exact absurd h0 hk
  · rw [he]; exact transfer adrOld
  · rw [he]; exact transfer adrOld


theorem qualifies_gt (s : St) (p : Nat) (h : qualifies s p = true) : (s.n : Int) - 2 < p := by
  simp only [qualifies, Bool.and_eq_true, decide_eq_true_eq] at h
  omega

theorem mem_live_map (live : List Nat) (pnOld N q : Nat) (h : q ∈ live.map (fun p => if p = pnOld then N else p)) :
    q = N ∨ (q ∈ live ∧ q ≠ pnOld) := by
  obtain ⟨p, hp, rfl⟩ := List.mem_map.mp h
  by_cases hpo : p = pnOld
  · left; simp [hpo]
  · right; simp only [hpo, if_false]; exact ⟨hp, hpo⟩

/-- description of the control fields after `replace` -/
theorem replace_fields (s : St) (pnOld : Nat) (files kept : List String) :
    (replace s pnOld files kept = (s, some .key)) ∨
    ((replace s pnOld files kept).1.trajNum = s.trajNum + 1 ∧
     (replace s pnOld files kept).1.trajData = (s.trajNum, files) :: s.trajData ∧
     (replace s pnOld files kept).1.cnt = s.cnt + 1 ∧
     (∃ adrOld, lookup pnOld s.trajData = some adrOld) ∧
     (((replace s pnOld files kept).2 ≠ none ∧ (replace s pnOld files kept).1.live = s.live ∧
        ∀ q ∈ keys (replace s pnOld files kept).1.pnOlds, q ∈ keys s.pnOlds) ∨
      ((replace s pnOld files kept).2 = none ∧
        (replace s pnOld files kept).1.live = s.live.map (fun p => if p = pnOld then s.trajNum else p) ∧
        ∀ q ∈ keys (replace s pnOld files kept).1.pnOlds,
          q ∈ keys s.pnOlds ∨ (q = pnOld ∧ qualifies s pnOld = true)))) := by
  rcases replace_shape s pnOld files kept with ⟨_, he⟩ | ⟨adrOld, hlk, ⟨hne, he⟩ | ⟨hok, he⟩⟩
  · left; exact he
  · right
    obtain ⟨⟨_, _, _, h4, h5, h6, _, _, h9, _⟩, _, _, hk⟩ := delBlock_summary (stored s pnOld files kept) pnOld adrOld
    rw [he]
    refine ⟨h4, h6, h9, ⟨adrOld, hlk⟩, Or.inl ⟨hne, h5, ?_⟩⟩
    intro q hq
    rcases hk q hq with h | ⟨_, _, h⟩
    · exact h
    · exact absurd h hne
  · right
    obtain ⟨⟨_, _, _, h4, h5, h6, _, _, h9, _⟩, _, _, hk⟩ := delBlock_summary (stored s pnOld files kept) pnOld adrOld
    rw [he]
    refine ⟨h4, h6, h9, ⟨adrOld, hlk⟩, Or.inr ⟨rfl, ?_, ?_⟩⟩
    · show List.map _ (delBlock (stored s pnOld files kept) pnOld adrOld).1.live = _
      rw [h5]; rfl
    · intro q hq
      rcases hk q hq with h | ⟨h1, h2, _⟩
      · exact Or.inl h
      · exact Or.inr ⟨h1, h2⟩

theorem good_replace (s : St) (hg : Good s) (pnOld : Nat) (files kept : List String) :
    Good (replace s pnOld files kept).1 := by
  have hn := (replace_ctl s pnOld files kept).1
  have hhead : ∀ p ∈ s.live, ∀ pd adr rest, s.pnOlds = (pd, adr) :: rest →
      ((s.pnOlds.length : Int) > (s.n : Int) - 2) → pd ≠ p := by
    intro p hp pd adr rest h _ e
    have : pd ∈ keys s.pnOlds := by rw [h]; simp [keys]
    exact (hg.olds_dead pd this).1 (e ▸ hp)
  rcases replace_fields s pnOld files kept with he | ⟨htn, htd, _, ⟨adrOld, hlk⟩, hcase⟩
  · rw [he]; exact hg
  · have hpo : pnOld < s.trajNum := hg.td_lt pnOld (lookup_keys _ _ _ hlk)
    have hnk : lookup pnOld s.trajData ≠ none := by rw [hlk]; simp
    refine ⟨?_, ?_, ?_, ?_⟩
    · intro q hq
      rw [hn, htn]
      rcases hcase with ⟨_, hlive, hkeys⟩ | ⟨_, hlive, hkeys⟩
      · obtain ⟨h1, h2, h3⟩ := hg.olds_dead q (hkeys q hq)
        rw [hlive]
        exact ⟨h1, h2, by omega⟩
      · rw [hlive]
        rcases hkeys q hq with h | ⟨h1, h2⟩
        · obtain ⟨h1, h2, h3⟩ := hg.olds_dead q h
          refine ⟨?_, h2, by omega⟩
          intro hm
          rcases mem_live_map _ _ _ _ hm with h | ⟨h, _⟩
          · omega
          · exact h1 h
        · subst h1
          refine ⟨?_, qualifies_gt s q h2, by omega⟩
          intro hm
          rcases mem_live_map _ _ _ _ hm with h | ⟨_, h⟩
          · omega
          · exact h rfl
    · intro p hp
      rw [htn]
      rcases hcase with ⟨_, hlive, _⟩ | ⟨_, hlive, _⟩
      · rw [hlive] at hp; have := hg.live_lt p hp; omega
      · rw [hlive] at hp
        rcases mem_live_map _ _ _ _ hp with h | ⟨h, _⟩
        · omega
        · have := hg.live_lt p h; omega
    · intro p hp
      rw [htn]
      rw [htd] at hp
      simp only [keys, List.map_cons, List.mem_cons] at hp
      rcases hp with h | h
      · omega
      · have := hg.td_lt p h; omega
    · intro p hp
      have old : ∀ p ∈ s.live, Intact (replace s pnOld files kept).1 p := fun p hp =>
        replace_intact s pnOld files kept p (hg.live_lt p hp) (hhead p hp) (hg.live_intact p hp)
      rcases hcase with ⟨_, hlive, _⟩ | ⟨_, hlive, _⟩
      · rw [hlive] at hp; exact old p hp
      · rw [hlive] at hp
        rcases mem_live_map _ _ _ _ hp with h | ⟨h, _⟩
        · rw [h]; exact replace_new_intact s hg pnOld files kept hnk
        · exact old p h


/-- how the pn_olds queue evolves in one `replace` -/
theorem replace_olds (s : St) (pnOld : Nat) (files kept : List String) :
    ((replace s pnOld files kept).1.pnOlds = s.pnOlds ∧
      ((replace s pnOld files kept).2 ≠ none ∨ qualifies s pnOld = false)) ∨
    ((replace s pnOld files kept).2 = none ∧ qualifies s pnOld = true ∧
      ¬ ((s.pnOlds.length : Int) > (s.n : Int) - 2) ∧
      ∃ adr, lookup pnOld s.trajData = some adr ∧
        (replace s pnOld files kept).1.pnOlds = dictSet pnOld adr s.pnOlds) ∨
    ((replace s pnOld files kept).2 = none ∧ qualifies s pnOld = true ∧
      ((s.pnOlds.length : Int) > (s.n : Int) - 2) ∧
      ∃ pd adrd rest adr, s.pnOlds = (pd, adrd) :: rest ∧ lookup pnOld s.trajData = some adr ∧
        (∀ a ∈ adrd, DFile.acc pd a ∉ (replace s pnOld files kept).1.disk) ∧
        (replace s pnOld files kept).1.pnOlds =
          if ((rest.length : Int) ≤ (s.n : Int) - 2) then dictSet pnOld adr rest else rest) := by
  rcases replace_shape s pnOld files kept with ⟨_, he⟩ | ⟨adrOld, hlk, ⟨hne, he⟩ | ⟨hok, he⟩⟩
  · left; rw [he]; exact ⟨rfl, Or.inl (by simp)⟩
  · left
    rw [he]
    refine ⟨?_, Or.inl hne⟩
    rcases delBlock_cases (stored s pnOld files kept) pnOld adrOld with ⟨_, h⟩ | ⟨_, _, h⟩ | ⟨_, _, hd, h⟩ | ⟨_, _, _, h⟩
    · rw [h] at hne; simp at hne
    · rw [h] at hne; simp at hne
    · rw [h]
      exact delHeadCore_err _ _ _ _ hd
    · rw [h] at hne; simp at hne
  · rcases delBlock_cases (stored s pnOld files kept) pnOld adrOld with ⟨hq, h⟩ | ⟨hq, hl, h⟩ | ⟨_, _, hd, h⟩ | ⟨hq, hl, hd, h⟩
    · left
      rw [he, h]
      exact ⟨rfl, Or.inr hq⟩
    · right; left
      rw [he, h]
      exact ⟨rfl, hq, hl, adrOld, hlk, rfl⟩
    · rw [h] at hok; exact absurd hok hd
    · right; right
      obtain ⟨pd, adrd, ho, hgone⟩ := delHeadCore_ok _ _ _ _ hd
      rw [he, h]
      refine ⟨rfl, hq, hl, pd, adrd, _, adrOld, ho, hlk, ?_, ?_⟩
      · intro a ha
        have := hgone a ha
        split <;> exact this
      · have e1 : (delHead (stored s pnOld files kept)).1.pnOlds =
            (delHeadCore (stored s pnOld files kept).delCfg (stored s pnOld files kept).pnOlds
              (stored s pnOld files kept).disk (stored s pnOld files kept).dirs).1 := rfl
        have e2 : (stored s pnOld files kept).n = s.n := rfl
        simp only [e1, e2]
        split <;> rfl

end Infretis.Store
