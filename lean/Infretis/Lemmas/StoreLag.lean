import Infretis.Lemmas.StoreProt
/-!
C14 part B: the lag of the pn_olds FIFO, one step at a time.
-/
namespace Infretis.Store

/-- number of further qualifying replacements after which the queued path `q` is deleted -/
def remn (s : St) (q : Nat) : Nat := (s.n - 1 - s.pnOlds.length) + (keys s.pnOlds).idxOf q + 1

theorem keys_dictSet_new {α : Type} (k : Nat) (v : α) (l : List (Nat × α)) (h : k ∉ keys l) :
    keys (dictSet k v l) = keys l ++ [k] := by
  rw [keys_dictSet]; simp [h]

theorem idxOf_new (ks : List Nat) (k : Nat) (h : k ∉ ks) : (ks ++ [k]).idxOf k = ks.length := by
  rw [List.idxOf_append]; simp [h]

theorem nodup_replace (s : St) (hnd : (keys s.pnOlds).Nodup) (pnOld : Nat) (files kept : List String) :
    (keys (replace s pnOld files kept).1.pnOlds).Nodup := by
  have push : ∀ (l : List (Nat × List String)) (adr : List String), (keys l).Nodup → (keys (dictSet pnOld adr l)).Nodup := by
    intro l adr h
    rw [keys_dictSet]
    split
    · exact h
    · rename_i hk
      rw [List.nodup_append]
      refine ⟨h, by simp, ?_⟩
      intro a ha b hb
      simp only [List.mem_singleton] at hb
      subst hb
      intro e; subst e; exact hk ha
  rcases replace_olds s pnOld files kept with ⟨h, _⟩ | ⟨_, _, _, adr, _, h⟩ | ⟨_, _, _, pd, adrd, rest, adr, ho, _, _, h⟩
  · rw [h]; exact hnd
  · rw [h]; exact push _ _ hnd
  · rw [h]
    have hr : (keys rest).Nodup := by
      rw [ho] at hnd
      simp only [keys, List.map_cons, List.nodup_cons] at hnd
      exact hnd.2
    split
    · exact push _ _ hr
    · exact hr

/-- a live path replaced by a qualifying move is queued with exactly `n − 1` replacements to go -/
theorem lag_push (s : St) (hg : Good s) (hlen : s.pnOlds.length + 1 ≤ s.n) (pnOld : Nat) (files kept : List String)
    (hl : pnOld ∈ s.live) (hq : qualifies s pnOld = true) (hok : (replace s pnOld files kept).2 = none) :
    pnOld ∈ keys (replace s pnOld files kept).1.pnOlds ∧ remn (replace s pnOld files kept).1 pnOld = s.n - 1 := by
  have hnk : pnOld ∉ keys s.pnOlds := fun h => (hg.olds_dead pnOld h).1 hl
  have hn := (replace_ctl s pnOld files kept).1
  unfold remn
  rw [hn]
  rcases replace_olds s pnOld files kept with ⟨_, h | h⟩ | ⟨_, _, hl', adr, _, h⟩ | ⟨_, _, hl', pd, adrd, rest, adr, ho, _, _, h⟩
  · exact absurd hok h
  · rw [hq] at h; simp at h
  · rw [h, keys_dictSet_new _ _ _ hnk, length_dictSet, idxOf_new _ _ hnk, keys_length]
    simp only [hnk, if_false]
    refine ⟨by simp, ?_⟩
    omega
  · have hrl : (rest.length : Int) ≤ (s.n : Int) - 2 := by
      rw [ho] at hlen; simp only [List.length_cons] at hlen; omega
    have hnk' : pnOld ∉ keys rest := by
      intro hm
      apply hnk
      rw [ho]
      simp only [keys, List.map_cons, List.mem_cons]
      exact Or.inr hm
    rw [if_pos hrl] at h
    rw [h, keys_dictSet_new _ _ _ hnk', length_dictSet, idxOf_new _ _ hnk', keys_length]
    simp only [hnk', if_false]
    refine ⟨by simp, ?_⟩
    rw [ho] at hlen; simp only [List.length_cons] at hlen
    omega

/-- one later replacement: a non-qualifying one changes nothing for the queued path `q`; a
    qualifying one either deletes `q` (exactly when `remn = 1`: it is the head of a full queue) —
    its queue entry and every file of its `adress` are gone — or brings it one step closer and
    leaves all its files in place. -/
theorem lag_step (s : St) (hg : Good s) (hlen : s.pnOlds.length + 1 ≤ s.n) (hnd : (keys s.pnOlds).Nodup)
    (q : Nat) (hqk : q ∈ keys s.pnOlds) (pnOld : Nat) (files kept : List String) (hl : pnOld ∈ s.live)
    (hok : (replace s pnOld files kept).2 = none) :
    (qualifies s pnOld = false →
      (replace s pnOld files kept).1.pnOlds = s.pnOlds ∧
      ∀ g ∈ s.disk, g.pn = q → g ∈ (replace s pnOld files kept).1.disk) ∧
    (qualifies s pnOld = true →
      (remn s q = 1 → q ∉ keys (replace s pnOld files kept).1.pnOlds ∧
        ∀ adr, (q, adr) ∈ s.pnOlds → ∀ a ∈ adr, DFile.acc q a ∉ (replace s pnOld files kept).1.disk) ∧
      (remn s q ≠ 1 → q ∈ keys (replace s pnOld files kept).1.pnOlds ∧
        remn (replace s pnOld files kept).1 q + 1 = remn s q ∧
        ∀ g ∈ s.disk, g.pn = q → g ∈ (replace s pnOld files kept).1.disk)) := by
  have hnk : pnOld ∉ keys s.pnOlds := fun h => (hg.olds_dead pnOld h).1 hl
  have hqne : q ≠ pnOld := fun e => hnk (e ▸ hqk)
  have hn := (replace_ctl s pnOld files kept).1
  have keepIf : (∀ pd adr rest, s.pnOlds = (pd, adr) :: rest → ((s.pnOlds.length : Int) > (s.n : Int) - 2) →
      qualifies s pnOld = true → pd ≠ q) → ∀ g ∈ s.disk, g.pn = q → g ∈ (replace s pnOld files kept).1.disk := by
    intro hh g hgd hgq
    apply Classical.byContradiction
    intro hnn
    obtain ⟨pd, adr, rest, h1, h2, h3, h4⟩ := replace_removed s pnOld files kept g hgd hnn
    exact hh pd adr rest h1 h3 h4 (h2.symm.trans hgq)
  refine ⟨?_, ?_⟩
  · intro hnq
    refine ⟨?_, keepIf (fun _ _ _ _ _ h => by rw [hnq] at h; simp at h)⟩
    rcases replace_olds s pnOld files kept with ⟨h, _⟩ | ⟨_, h, _⟩ | ⟨_, h, _⟩
    · exact h
    · rw [hnq] at h; simp at h
    · rw [hnq] at h; simp at h
  · intro hq
    rcases replace_olds s pnOld files kept with ⟨_, h | h⟩ | ⟨_, _, hl', adr, _, h⟩ | ⟨_, _, hl', pd, adrd, rest, adr, ho, _, hgone, h⟩
    · exact absurd hok h
    · rw [hq] at h; simp at h
    · -- no pop: the queue was not full
      have hidx := List.idxOf_lt_length_of_mem hqk
      rw [keys_length] at hidx
      refine ⟨fun h1 => ?_, fun _ => ⟨?_, ?_, keepIf (fun _ _ _ _ h3 _ => absurd h3 hl')⟩⟩
      · unfold remn at h1; omega
      · rw [h, keys_dictSet_new _ _ _ hnk]; exact List.mem_append_left _ hqk
      · unfold remn
        rw [hn, h, keys_dictSet_new _ _ _ hnk, length_dictSet, List.idxOf_append]
        simp only [hqk, hnk, if_true, if_false]
        omega
    · -- pop of the head `pd`
      have hrl : (rest.length : Int) ≤ (s.n : Int) - 2 := by
        rw [ho] at hlen; simp only [List.length_cons] at hlen; omega
      have hnk' : pnOld ∉ keys rest := by
        intro hm
        apply hnk
        rw [ho]
        simp only [keys, List.map_cons, List.mem_cons]
        exact Or.inr hm
      have hL : s.pnOlds.length = rest.length + 1 := by rw [ho]; rfl
      have hks : keys s.pnOlds = pd :: keys rest := by rw [ho]; rfl
      have hpdn : pd ∉ keys rest := by
        rw [hks] at hnd
        exact (List.nodup_cons.mp hnd).1
      rw [if_pos hrl] at h
      by_cases hqp : q = pd
      · -- q is the head: deleted now
        have hrem : remn s q = 1 := by
          unfold remn
          rw [hks, hqp, List.idxOf_cons_self, hL]
          omega
        refine ⟨fun _ => ⟨?_, ?_⟩, fun h1 => absurd hrem h1⟩
        · rw [h, keys_dictSet_new _ _ _ hnk', hqp]
          intro hm
          rcases List.mem_append.mp hm with hm | hm
          · exact hpdn hm
          · simp only [List.mem_singleton] at hm
            exact hqne (hqp.trans hm)
        · intro adr' hmem a ha
          rw [ho, hqp] at hmem
          rcases List.mem_cons.mp hmem with hm | hm
          · simp only [Prod.mk.injEq] at hm
            rw [hm.2] at ha
            rw [hqp]
            exact hgone a ha
          · exact absurd (List.mem_map.mpr ⟨(pd, adr'), hm, rfl⟩) hpdn
      · have hqr : q ∈ keys rest := by
          rw [hks] at hqk
          rcases List.mem_cons.mp hqk with hm | hm
          · exact absurd hm hqp
          · exact hm
        have hidx : (keys s.pnOlds).idxOf q = (keys rest).idxOf q + 1 := by
          rw [hks, List.idxOf_cons]
          have : (pd == q) = false := by simpa using fun e => hqp e.symm
          simp [this]
        refine ⟨fun h1 => ?_, fun _ => ⟨?_, ?_, keepIf (fun pd' adr' rest' h1 _ _ => ?_)⟩⟩
        · unfold remn at h1; omega
        · rw [h, keys_dictSet_new _ _ _ hnk']; exact List.mem_append_left _ hqr
        · unfold remn
          rw [hn, h, keys_dictSet_new _ _ _ hnk', length_dictSet, List.idxOf_append, hidx]
          simp only [hqr, hnk', if_true, if_false]
          omega
        · rw [ho] at h1
          simp only [List.cons.injEq, Prod.mk.injEq] at h1
          rw [← h1.1.1]
          exact fun e => hqp e.symm


/-! ### when the delete block does not raise -/

theorem removeAll_ok : ∀ (fs d : List DFile), fs.Nodup → (∀ f ∈ fs, f ∈ d) → (removeAll fs d).2 = none := by
  intro fs
  induction fs with
  | nil => intro d _ _; rfl
  | cons f fs ih =>
    intro d hnd hin
    unfold removeAll
    rw [List.nodup_cons] at hnd
    simp only [hin f List.mem_cons_self, if_true]
    apply ih _ hnd.2
    intro g hg
    refine List.mem_filter.mpr ⟨hin g (List.mem_cons_of_mem _ hg), ?_⟩
    have : g ≠ f := fun e => hnd.1 (e ▸ hg)
    simpa using this

theorem rmdirs_ok (pd : Nat) (d : List DFile) (dirs : List DDir) (h1 : DDir.accepted pd ∈ dirs)
    (h2 : DDir.path pd ∈ dirs) (h3 : ∀ g ∈ d, g.pn ≠ pd) : (rmdirs pd d dirs).2 = none := by
  unfold rmdirs
  have a1 : d.any (isAccOf pd) = false := by
    rw [List.any_eq_false]
    intro g hg
    cases g with
    | txt p k => simp [isAccOf]
    | acc p nm =>
      have := h3 _ hg
      simp only [DFile.pn] at this
      simpa [isAccOf] using this
  have a2 : (d.any fun f => f.pn == pd) = false := by
    rw [List.any_eq_false]
    intro g hg
    simpa using h3 g hg
  have a3 : DDir.path pd ∈ dirs.filter (· ≠ .accepted pd) := by
    refine List.mem_filter.mpr ⟨h2, ?_⟩
    simp
  simp only [h1, not_true_eq_false, if_false, a1, Bool.false_eq_true, a3, a2]

end Infretis.Store
