import Infretis.Model.StoreMove
import Infretis.Lemmas.StorePath
import Infretis.Lemmas.StoreNR
/-!
Helper lemmas for C14: the file operations of `_move_path` (`Infretis/Model/StoreMove.lean`).
-/
namespace Infretis.Store

/-! ### the file-system primitives -/

theorem fsGet_cons_same (k : FName) (c : Nat) (fs : FS) : fsGet ((k, c) :: fs) k = some c := by
  simp [fsGet]

theorem fsGet_cons_ne (k k' : FName) (c : Nat) (fs : FS) (h : k' ≠ k) : fsGet ((k', c) :: fs) k = fsGet fs k := by
  simp [fsGet, h]

theorem fsGet_remove_same (k : FName) : ∀ (fs : FS), fsGet (fsRemove fs k) k = none := by
  intro fs
  induction fs with
  | nil => rfl
  | cons e t ih =>
    obtain ⟨k', c⟩ := e
    unfold fsRemove at ih ⊢
    by_cases h : k' = k
    · subst h
      simp only [List.filter, ne_eq, not_true_eq_false, decide_false]
      exact ih
    · simp only [List.filter, ne_eq, h, not_false_eq_true, decide_true]
      rw [fsGet_cons_ne _ _ _ _ h]
      exact ih

theorem fsGet_remove_ne (k k' : FName) (h : k ≠ k') : ∀ (fs : FS), fsGet (fsRemove fs k') k = fsGet fs k := by
  intro fs
  induction fs with
  | nil => rfl
  | cons e t ih =>
    obtain ⟨k'', c⟩ := e
    unfold fsRemove at ih ⊢
    by_cases h2 : k'' = k'
    · subst h2
      simp only [List.filter, ne_eq, not_true_eq_false, decide_false]
      rw [ih, fsGet_cons_ne _ _ _ _ (fun e => h e.symm)]
    · simp only [List.filter, ne_eq, h2, not_false_eq_true, decide_true]
      by_cases h3 : k'' = k
      · subst h3; simp [fsGet]
      · rw [fsGet_cons_ne _ _ _ _ h3, fsGet_cons_ne _ _ _ _ h3]
        exact ih

/-! ### the move loop on a well-formed dict -/

/-- every source goes to `target/<its own name>`, sources are distinct files outside `target`,
    and no two of them have the same name -/
structure DictOk (target : String) (d : MoveDict) : Prop where
  form : ∀ e ∈ d, e.2 = (target, e.1.2) ∧ e.1.1 ≠ target
  keys_nodup : (d.map (·.1)).Nodup
  names_nodup : (d.map (·.1.2)).Nodup

theorem DictOk.tail {target : String} {e : FName × FName} {t : MoveDict} (h : DictOk target (e :: t)) : DictOk target t :=
  ⟨fun x hx => h.form x (List.mem_cons_of_mem _ hx), (List.nodup_cons.mp h.keys_nodup).2,
   (List.nodup_cons.mp h.names_nodup).2⟩

theorem doMoves_spec (target : String) : ∀ (d : MoveDict) (fs : FS), DictOk target d →
    (∀ e ∈ d, fsGet fs e.1 ≠ none) →
    (doMoves d fs).2 = none ∧
    (∀ e ∈ d, fsGet (doMoves d fs).1 e.2 = fsGet fs e.1 ∧ fsGet (doMoves d fs).1 e.1 = none) ∧
    (∀ k, k ∉ d.map (·.1) → k ∉ d.map (·.2) → fsGet (doMoves d fs).1 k = fsGet fs k) := by
  intro d
  induction d with
  | nil => intro fs _ _; exact ⟨rfl, fun e he => absurd he (by simp), fun k _ _ => rfl⟩
  | cons e t ih =>
    intro fs hok hpres
    obtain ⟨src, dest⟩ := e
    have hf := hok.form (src, dest) (by simp)
    have hdest : dest = (target, src.2) := hf.1
    have hsd : src ≠ dest := by
      intro h; apply hf.2; rw [h, hdest]
    obtain ⟨c, hc⟩ := Option.ne_none_iff_exists'.mp (hpres (src, dest) (by simp))
    -- the file system after removing an existing destination
    have hfs1 : ∀ k, k ≠ dest →
        fsGet (if fsIsfile fs dest = true then fsRemove fs dest else fs) k = fsGet fs k := by
      intro k hk
      split
      · exact fsGet_remove_ne k dest hk fs
      · rfl
    have hsrc1 : fsGet (if fsIsfile fs dest = true then fsRemove fs dest else fs) src = some c := by
      rw [hfs1 src hsd]; exact hc
    have hstep : doMoves ((src, dest) :: t) fs =
        doMoves t ((dest, c) :: fsRemove (if fsIsfile fs dest = true then fsRemove fs dest else fs) src) := by
      rw [doMoves]
      simp only [hsd, if_false, hsrc1]
    rw [hstep]
    generalize hfs2 : ((dest, c) :: fsRemove (if fsIsfile fs dest = true then fsRemove fs dest else fs) src) = fs2
    have h2dest : fsGet fs2 dest = some c := by rw [← hfs2]; exact fsGet_cons_same _ _ _
    have h2src : fsGet fs2 src = none := by
      rw [← hfs2, fsGet_cons_ne _ _ _ _ (fun e => hsd e.symm)]
      exact fsGet_remove_same src _
    have h2other : ∀ k, k ≠ src → k ≠ dest → fsGet fs2 k = fsGet fs k := by
      intro k h1 h2
      rw [← hfs2, fsGet_cons_ne _ _ _ _ (fun e => h2 e.symm), fsGet_remove_ne k src h1, hfs1 k h2]
    have hkn := List.nodup_cons.mp hok.keys_nodup
    have hnn := List.nodup_cons.mp hok.names_nodup
    -- facts about the remaining entries
    have ht_src : ∀ x ∈ t, x.1 ≠ src := by
      intro x hx he
      exact hkn.1 (List.mem_map.mpr ⟨x, hx, he⟩)
    have ht_dest : ∀ x ∈ t, x.1 ≠ dest := by
      intro x hx he
      have := (hok.form x (List.mem_cons_of_mem _ hx)).2
      apply this; rw [he, hdest]
    have ht_dd : ∀ x ∈ t, x.2 ≠ dest := by
      intro x hx he
      have hx2 := (hok.form x (List.mem_cons_of_mem _ hx)).1
      rw [hx2, hdest] at he
      have : x.1.2 = src.2 := by injection he
      exact hnn.1 (List.mem_map.mpr ⟨x, hx, this⟩)
    have ht_ds : ∀ x ∈ t, x.2 ≠ src := by
      intro x hx he
      have hx2 := (hok.form x (List.mem_cons_of_mem _ hx)).1
      apply hf.2
      rw [← he, hx2]
    obtain ⟨ih1, ih2, ih3⟩ := ih fs2 hok.tail (by
      intro x hx
      rw [h2other x.1 (ht_src x hx) (ht_dest x hx)]
      exact hpres x (List.mem_cons_of_mem _ hx))
    refine ⟨ih1, ?_, ?_⟩
    · intro x hx
      rcases List.mem_cons.mp hx with h | h
      · subst h
        refine ⟨?_, ?_⟩
        · show fsGet (doMoves t fs2).1 dest = fsGet fs src
          rw [ih3 dest (by
            intro hm; obtain ⟨y, hy, hyd⟩ := List.mem_map.mp hm; exact ht_dest y hy hyd) (by
            intro hm; obtain ⟨y, hy, hyd⟩ := List.mem_map.mp hm; exact ht_dd y hy hyd), h2dest, hc]
        · show fsGet (doMoves t fs2).1 src = none
          rw [ih3 src (by
            intro hm; obtain ⟨y, hy, hyd⟩ := List.mem_map.mp hm; exact ht_src y hy hyd) (by
            intro hm; obtain ⟨y, hy, hyd⟩ := List.mem_map.mp hm; exact ht_ds y hy hyd), h2src]
      · obtain ⟨a, b⟩ := ih2 x h
        exact ⟨by rw [a, h2other x.1 (ht_src x h) (ht_dest x h)], b⟩
    · intro k hk1 hk2
      simp only [List.map_cons, List.mem_cons, not_or] at hk1 hk2
      rw [ih3 k hk1.2 hk2.2, h2other k hk1.1 hk2.1]

/-! ### the dict that `_move_path` builds -/

theorem sourceDict_keys (target : String) (fs : List Frame) : (sourceDict target fs).map (·.1) = sources fs := by
  simp [sourceDict, List.map_map, Function.comp_def]

theorem dsetF_keys (k v : FName) : ∀ (d : MoveDict),
    (dsetF k v d).map (·.1) = if k ∈ d.map (·.1) then d.map (·.1) else d.map (·.1) ++ [k] := by
  intro d
  induction d with
  | nil => simp [dsetF]
  | cons e t ih =>
    obtain ⟨k', v'⟩ := e
    unfold dsetF
    by_cases h : k' = k
    · subst h; simp
    · simp only [h, if_false, List.map_cons, ih, List.mem_cons]
      have : ¬ k = k' := fun e => h e.symm
      simp only [this, false_or]
      split <;> simp

theorem dsetF_mem (k v : FName) : ∀ (d : MoveDict) (e : FName × FName), e ∈ dsetF k v d → e = (k, v) ∨ e ∈ d := by
  intro d
  induction d with
  | nil => intro e h; simp [dsetF] at h; exact Or.inl h
  | cons x t ih =>
    intro e h
    obtain ⟨k', v'⟩ := x
    unfold dsetF at h
    by_cases hk : k' = k
    · simp only [hk, if_true, List.mem_cons] at h
      rcases h with h | h
      · exact Or.inl h
      · exact Or.inr (List.mem_cons_of_mem _ h)
    · simp only [hk, if_false, List.mem_cons] at h
      rcases h with h | h
      · exact Or.inr (by rw [h]; exact List.mem_cons_self)
      · rcases ih e h with h | h
        · exact Or.inl h
        · exact Or.inr (List.mem_cons_of_mem _ h)

/-- what the `keep_traj_fnames` loops preserve: the form of the entries, presence of the sources,
    distinct keys; and they never drop a key -/
structure KeepInv (fs : FS) (target : String) (dirs : List String) (d : MoveDict) : Prop where
  form : ∀ e ∈ d, e.2 = (target, e.1.2) ∧ e.1.1 ∈ dirs
  present : ∀ e ∈ d, fsGet fs e.1 ≠ none
  keys_nodup : (d.map (·.1)).Nodup

theorem keepInv_dsetF (fs : FS) (target : String) (dirs : List String) (d : MoveDict) (h : KeepInv fs target dirs d)
    (dir nm : String) (hd : dir ∈ dirs) (hp : fsIsfile fs (dir, nm) = true) :
    KeepInv fs target dirs (dsetF (dir, nm) (target, nm) d) ∧
    ∀ k ∈ d.map (·.1), k ∈ (dsetF (dir, nm) (target, nm) d).map (·.1) := by
  refine ⟨⟨?_, ?_, ?_⟩, ?_⟩
  · intro e he
    rcases dsetF_mem _ _ d e he with h' | h'
    · subst h'; exact ⟨rfl, hd⟩
    · exact h.form e h'
  · intro e he
    rcases dsetF_mem _ _ d e he with h' | h'
    · subst h'
      unfold fsIsfile at hp
      intro hn; rw [hn] at hp; simp at hp
    · exact h.present e h'
  · rw [dsetF_keys]
    split
    · exact h.keys_nodup
    · rename_i hk
      exact List.nodup_append.mpr ⟨h.keys_nodup, by simp, by
        intro a ha b hb
        simp only [List.mem_singleton] at hb
        subst hb
        intro hab; subst hab; exact hk ha⟩
  · intro k hk
    rw [dsetF_keys]
    split
    · exact hk
    · exact List.mem_append_left _ hk

theorem keepInv_keepOne (fs : FS) (target : String) (dirs : List String) (src : FName) (hs : src.1 ∈ dirs) :
    ∀ (exts : List String) (d : MoveDict), KeepInv fs target dirs d →
      KeepInv fs target dirs (keepOne fs target src exts d) ∧
      ∀ k ∈ d.map (·.1), k ∈ (keepOne fs target src exts d).map (·.1) := by
  intro exts
  induction exts with
  | nil => intro d h; exact ⟨h, fun k hk => hk⟩
  | cons ext exts ih =>
    intro d h
    unfold keepOne
    simp only
    by_cases hp : fsIsfile fs (src.1, stemOf src.2 ++ ext) = true
    · simp only [hp, if_true]
      obtain ⟨h1, h2⟩ := keepInv_dsetF fs target dirs d h src.1 (stemOf src.2 ++ ext) hs hp
      obtain ⟨h3, h4⟩ := ih _ h1
      exact ⟨h3, fun k hk => h4 k (h2 k hk)⟩
    · simp only [hp, Bool.false_eq_true, if_false]
      exact ih d h

theorem keepInv_keepAll (fs : FS) (target : String) (dirs : List String) (keep : List String) :
    ∀ (ss : List FName) (d : MoveDict), (∀ s ∈ ss, s.1 ∈ dirs) → KeepInv fs target dirs d →
      KeepInv fs target dirs (keepAll fs target keep ss d) ∧
      ∀ k ∈ d.map (·.1), k ∈ (keepAll fs target keep ss d).map (·.1) := by
  intro ss
  induction ss with
  | nil => intro d _ h; exact ⟨h, fun k hk => hk⟩
  | cons s ss ih =>
    intro d hs h
    unfold keepAll
    obtain ⟨h1, h2⟩ := keepInv_keepOne fs target dirs s (hs s (by simp)) keep d h
    obtain ⟨h3, h4⟩ := ih _ (fun x hx => hs x (List.mem_cons_of_mem _ hx)) h1
    exact ⟨h3, fun k hk => h4 k (h2 k hk)⟩

/-- the dict of `_move_path` for frames whose files exist -/
theorem moveDict_inv (fs : FS) (target : String) (keep : List String) (frames : List Frame)
    (H1 : ∀ f ∈ frames, fsGet fs (f.dir, f.base) ≠ none) :
    KeepInv fs target (frames.map (·.dir)) (moveDict fs target keep frames) ∧
    ∀ f ∈ frames, (f.dir, f.base) ∈ (moveDict fs target keep frames).map (·.1) := by
  have h0 : KeepInv fs target (frames.map (·.dir)) (sourceDict target frames) := by
    refine ⟨?_, ?_, ?_⟩
    · intro e he
      obtain ⟨s, hs, rfl⟩ := List.mem_map.mp he
      obtain ⟨f, hf, rfl⟩ := sources_sub frames s hs
      exact ⟨rfl, List.mem_map.mpr ⟨f, hf, rfl⟩⟩
    · intro e he
      obtain ⟨s, hs, rfl⟩ := List.mem_map.mp he
      obtain ⟨f, hf, rfl⟩ := sources_sub frames s hs
      exact H1 f hf
    · rw [sourceDict_keys]; exact sources_nodup frames
  have hk0 : ∀ f ∈ frames, (f.dir, f.base) ∈ (sourceDict target frames).map (·.1) := by
    intro f hf; rw [sourceDict_keys]; exact mem_sources frames f hf
  unfold moveDict
  simp only
  split
  · exact ⟨h0, hk0⟩
  · obtain ⟨h1, h2⟩ := keepInv_keepAll fs target (frames.map (·.dir)) keep
      ((sourceDict target frames).map (·.1)) (sourceDict target frames) (by
      intro s hs
      rw [sourceDict_keys] at hs
      obtain ⟨f, hf, rfl⟩ := sources_sub frames s hs
      exact List.mem_map.mpr ⟨f, hf, rfl⟩) h0
    exact ⟨h1, fun f hf => h2 _ (hk0 f hf)⟩

/-! ### the end-to-end function -/

theorem mem_accListing (fs : FS) (target nm : String) (h : fsGet fs (target, nm) ≠ none) : nm ∈ accListing fs target := by
  induction fs with
  | nil => simp [fsGet] at h
  | cons e t ih =>
    obtain ⟨k, c⟩ := e
    unfold accListing
    by_cases hk : k = (target, nm)
    · subst hk; simp
    · rw [fsGet_cons_ne _ _ _ _ hk] at h
      have := ih h
      unfold accListing at this
      simp only [List.filter_cons]
      split
      · exact List.mem_cons_of_mem _ this
      · exact this

theorem files_check_of_sub (fs : List Frame) (files : List String) (h : ∀ f ∈ fs, f.base ∈ files) :
    (fs.map snapOf).all (fun s => files.contains s.1) = true := by
  simp only [List.all_map, List.all_eq_true]
  intro f hf
  simp only [Function.comp, snapOf, List.contains_eq_mem, decide_eq_true_eq]
  exact h f hf

/-- the frames `loadFrames` returns for the text of a stored path when every referenced name is among `files` -/
theorem loadFrames_text (step : Nat) (mv : List String) (fs : List Frame) (hne : fs ≠ [])
    (c : Nat) (hc : ∀ f ∈ fs, f.order.length = c) (files : List String) (hfiles : ∀ f ∈ fs, f.base ∈ files) :
    loadFrames (some (trajTxt step fs)) (some (orderTxt step mv fs)) files = .ok (fs.map bare) := by
  unfold loadFrames
  simp only
  rw [firstBlock_traj]
  simp only [snapshots_rows]
  have hf := files_check_of_sub fs files hfiles
  simp only [hf, not_true_eq_false, if_false]
  rw [firstBlock_order step mv fs c hc]
  simp only
  have hrows : (rowsFrom orderRow 0 fs).map numRow ≠ [] := by
    cases fs with
    | nil => exact absurd rfl hne
    | cons f fs => simp [rowsFrom]
  simp only [dropFirstCol, hrows, if_false, order_cols, zipFrames_maps]

end Infretis.Store
