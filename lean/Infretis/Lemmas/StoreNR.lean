import Infretis.Lemmas.StoreLag
/-!
C14 part B: with the repaired delete_old_all branch no delete block ever raises — the
history-level invariant and its preservation.
-/
namespace Infretis.Store

theorem nodup_map_on {α β : Type} (f : α → β) : ∀ (l : List α),
    (∀ a ∈ l, ∀ b ∈ l, f a = f b → a = b) → l.Nodup → (l.map f).Nodup := by
  intro l
  induction l with
  | nil => intro _ _; simp
  | cons a l ih =>
    intro hinj hnd
    rw [List.nodup_cons] at hnd
    rw [List.map_cons, List.nodup_cons]
    refine ⟨?_, ih (fun x hx y hy => hinj x (List.mem_cons_of_mem _ hx) y (List.mem_cons_of_mem _ hy)) hnd.2⟩
    intro hm
    obtain ⟨b, hb, hfb⟩ := List.mem_map.mp hm
    have := hinj a List.mem_cons_self b (List.mem_cons_of_mem _ hb) hfb.symm
    exact hnd.1 (this ▸ hb)

/-! ### directories -/

theorem rmdirs_dirs (pd : Nat) (disk : List DFile) (dirs : List DDir) (d : DDir) (hd : d ∈ dirs)
    (hn : d ∉ (rmdirs pd disk dirs).1) : d = .accepted pd ∨ d = .path pd := by
  apply Classical.byContradiction
  intro hne
  simp only [not_or] at hne
  apply hn
  have m1 : d ∈ dirs.filter (· ≠ .accepted pd) := List.mem_filter.mpr ⟨hd, by simpa using hne.1⟩
  have m2 : d ∈ (dirs.filter (· ≠ .accepted pd)).filter (· ≠ .path pd) :=
    List.mem_filter.mpr ⟨m1, by simpa using hne.2⟩
  unfold rmdirs
  split
  · exact hd
  · split
    · exact hd
    · dsimp only
      split
      · exact m1
      · split
        · exact m1
        · exact m2

theorem delHeadCore_dirs_removed (c : DelCfg) (olds : List (Nat × List String)) (disk : List DFile)
    (dirs : List DDir) (d : DDir) (hd : d ∈ dirs) (hn : d ∉ (delHeadCore c olds disk dirs).2.2.1) :
    ∃ pd a rest, olds = (pd, a) :: rest ∧ (d = .accepted pd ∨ d = .path pd) := by
  unfold delHeadCore at hn
  split at hn
  · exact absurd hd hn
  · rename_i pd adr rest
    refine ⟨pd, adr, rest, rfl, ?_⟩
    dsimp only at hn
    split at hn
    · exact absurd hd hn
    · split at hn
      · split at hn <;> exact rmdirs_dirs _ _ _ d hd hn
      · exact absurd hd hn

theorem delBlock_dirs_removed (s : St) (pnOld : Nat) (adr : List String) (d : DDir) (hd : d ∈ s.dirs)
    (hn : d ∉ (delBlock s pnOld adr).1.dirs) :
    ∃ pd a rest, s.pnOlds = (pd, a) :: rest ∧ (d = .accepted pd ∨ d = .path pd) ∧
      ((s.pnOlds.length : Int) > (s.n : Int) - 2) ∧ qualifies s pnOld = true := by
  have key : d ∉ (delHead s).1.dirs → ∃ pd a rest, s.pnOlds = (pd, a) :: rest ∧ (d = .accepted pd ∨ d = .path pd) :=
    fun h => delHeadCore_dirs_removed _ _ _ _ d hd h
  rcases delBlock_cases s pnOld adr with ⟨_, he⟩ | ⟨_, _, he⟩ | ⟨hq, hl, _, he⟩ | ⟨hq, hl, _, he⟩
  · rw [he] at hn; exact absurd hd hn
  · rw [he] at hn; exact absurd hd hn
  · rw [he] at hn
    obtain ⟨pd, a, r, h1, h2⟩ := key hn
    exact ⟨pd, a, r, h1, h2, hl, hq⟩
  · rw [he] at hn
    have : d ∉ (delHead s).1.dirs := by
      revert hn
      split <;> exact id
    obtain ⟨pd, a, r, h1, h2⟩ := key this
    exact ⟨pd, a, r, h1, h2, hl, hq⟩

theorem delBlock_cfg (s : St) (pnOld : Nat) (adr : List String) :
    (delBlock s pnOld adr).1.variant = s.variant ∧ (delBlock s pnOld adr).1.keep = s.keep := by
  rcases delBlock_cases s pnOld adr with ⟨_, he⟩ | ⟨_, _, he⟩ | ⟨_, _, _, he⟩ | ⟨_, _, _, he⟩
  · rw [he]; exact ⟨rfl, rfl⟩
  · rw [he]; exact ⟨rfl, rfl⟩
  · rw [he]; exact ⟨rfl, rfl⟩
  · rw [he]; split <;> exact ⟨rfl, rfl⟩

/-! ### one delete block -/

theorem block_ok (c : DelCfg) (pd : Nat) (adr : List String)
    (rest : List (Nat × List String)) (disk : List DFile) (dirs : List DDir)
    (hnd : adr.Nodup) (hex : ∀ a ∈ adr, DFile.acc pd a ∈ disk)
    (hguard : c.delAll = false ∨
      (DDir.accepted pd ∈ dirs ∧ DDir.path pd ∈ dirs ∧
       ∀ g ∈ disk, g.pn = pd → (g = .txt pd 0 ∨ g = .txt pd 1 ∨ g = .txt pd 2 ∨ (∃ a ∈ adr, g = .acc pd a) ∨
         (c.variant = .repaired ∧ isAccOf pd g = true)))) :
    (delHeadCore c ((pd, adr) :: rest) disk dirs).2.2.2 = none ∧
    (delHeadCore c ((pd, adr) :: rest) disk dirs).1 = rest := by
  have hrm : (removeAll (adr.map (DFile.acc pd)) disk).2 = none := by
    apply removeAll_ok
    · refine nodup_map_on _ _ ?_ hnd
      intro a _ b _ h
      simpa using h
    · intro f hf
      obtain ⟨a, ha, rfl⟩ := List.mem_map.mp hf
      exact hex a ha
  unfold delHeadCore
  simp only [hrm]
  rcases hguard with h | ⟨h1, h2, h3⟩
  · simp [h]
  · cases hda : c.delAll with
    | false => simp
    | true =>
      simp only [if_true]
      have : (rmdirs pd (cleanDir c pd adr (removeAll (adr.map (DFile.acc pd)) disk).1) dirs).2 = none := by
        apply rmdirs_ok pd _ dirs h1 h2
        intro g hg hpn
        have hg1 := cleanDir_sub _ _ _ _ _ hg
        obtain ⟨n0, n1, n2⟩ := cleanDir_not_txt _ _ _ _ _ hg
        rcases h3 g (removeAll_sub _ _ g hg1) hpn with h | h | h | ⟨a, ha, h⟩ | ⟨hv, hs⟩
        · exact n0 h
        · exact n1 h
        · exact n2 h
        · subst h
          exact removeAll_gone _ _ hrm _ (List.mem_map_of_mem ha) hg1
        · have := cleanDir_no_acc c hv pd adr _ g hg
          rw [hs] at this
          exact absurd this (by simp)
      simp only [this]
      exact ⟨trivial, trivial⟩

theorem block_never_raises (c : DelCfg) (hv : c.variant = .repaired) (pd : Nat) (adr : List String)
    (rest : List (Nat × List String)) (disk : List DFile) (dirs : List DDir)
    (hnd : adr.Nodup) (hex : ∀ a ∈ adr, DFile.acc pd a ∈ disk)
    (hd1 : DDir.accepted pd ∈ dirs) (hd2 : DDir.path pd ∈ dirs)
    (htxt : ∀ p k, DFile.txt p k ∈ disk → k < 3) :
    (delHeadCore c ((pd, adr) :: rest) disk dirs).2.2.2 = none ∧
    (delHeadCore c ((pd, adr) :: rest) disk dirs).1 = rest := by
  refine block_ok c pd adr rest disk dirs hnd hex (Or.inr ⟨hd1, hd2, ?_⟩)
  intro g hg hp
  cases g with
  | txt p k =>
    simp only [DFile.pn] at hp
    subst hp
    have := htxt p k hg
    have hk : k = 0 ∨ k = 1 ∨ k = 2 := by omega
    rcases hk with rfl | rfl | rfl
    · exact Or.inl rfl
    · exact Or.inr (Or.inl rfl)
    · exact Or.inr (Or.inr (Or.inl rfl))
  | acc p nm =>
    simp only [DFile.pn] at hp
    subst hp
    exact Or.inr (Or.inr (Or.inr (Or.inr ⟨hv, by simp [isAccOf]⟩)))


/-! ### the history invariant -/

/-- what a delete block needs of the path it deletes -/
structure PathOK (s : St) (p : Nat) (adr : List String) : Prop where
  nodup : adr.Nodup
  files : ∀ a ∈ adr, DFile.acc p a ∈ s.disk
  d1 : DDir.accepted p ∈ s.dirs
  d2 : DDir.path p ∈ s.dirs

structure NR (s : St) : Prop where
  rep : s.variant = .repaired
  n2 : 2 ≤ s.n
  good : Good s
  olds_ok : ∀ e ∈ s.pnOlds, PathOK s e.1 e.2
  live_ok : ∀ p ∈ s.live, ∃ adr, lookup p s.trajData = some adr ∧ PathOK s p adr
  olds_nodup : (keys s.pnOlds).Nodup
  olds_len : s.pnOlds.length + 1 ≤ s.n
  pend_nodup : s.pending.Nodup
  pend_ok : ∀ p ∈ s.pending, p ∉ s.live ∧ ∃ adr, lookup p s.trajData = some adr
  txt3 : ∀ p k, DFile.txt p k ∈ s.disk → k < 3

theorem mem_dictSet {α : Type} (k : Nat) (v : α) : ∀ (l : List (Nat × α)) (e : Nat × α),
    e ∈ dictSet k v l → e ∈ l ∨ e = (k, v) := by
  intro l
  induction l with
  | nil => intro e h; simp [dictSet] at h; exact Or.inr h
  | cons x t ih =>
    intro e h
    obtain ⟨k', v'⟩ := x
    unfold dictSet at h
    split at h
    · rcases List.mem_cons.mp h with h | h
      · exact Or.inr h
      · exact Or.inl (List.mem_cons_of_mem _ h)
    · rcases List.mem_cons.mp h with h | h
      · exact Or.inl (h ▸ List.mem_cons_self)
      · rcases ih e h with h | h
        · exact Or.inl (List.mem_cons_of_mem _ h)
        · exact Or.inr h

theorem olds_len_replace (s : St) (hlen : s.pnOlds.length + 1 ≤ s.n) (pnOld : Nat) (files kept : List String) :
    (replace s pnOld files kept).1.pnOlds.length + 1 ≤ (replace s pnOld files kept).1.n := by
  rw [(replace_ctl s pnOld files kept).1]
  rcases replace_olds s pnOld files kept with ⟨h, _⟩ | ⟨_, _, hl, adr, _, h⟩ | ⟨_, _, hl, pd, adrd, rest, adr, ho, _, _, h⟩
  · rw [h]; exact hlen
  · rw [h, length_dictSet]
    split <;> omega
  · rw [h]
    rw [ho] at hlen
    simp only [List.length_cons] at hlen
    split
    · rw [length_dictSet]; split <;> omega
    · omega

/-- **One accepted replacement never raises** (repaired code) and keeps the invariant. -/
theorem nr_replace (s : St) (h : NR s) (pnOld : Nat) (files kept : List String)
    (hl : pnOld ∈ s.live) (hf : files.Nodup) :
    (replace s pnOld files kept).2 = none ∧ NR (replace s pnOld files kept).1 := by
  obtain ⟨adrOld, hlk, hpo⟩ := h.live_ok pnOld hl
  have hNold : pnOld < s.trajNum := h.good.live_lt pnOld hl
  obtain ⟨hc, hsub, hrem, _⟩ := delBlock_summary (stored s pnOld files kept) pnOld adrOld
  obtain ⟨c1, c2, c3, c4, c5, c6, c7, c8, c9, c10⟩ := hc
  have hdr := delBlock_dirs_removed (stored s pnOld files kept) pnOld adrOld
  have hcfg := delBlock_cfg (stored s pnOld files kept) pnOld adrOld
  -- the block itself succeeds
  have hbok : (delBlock (stored s pnOld files kept) pnOld adrOld).2 = none := by
    rcases delBlock_cases (stored s pnOld files kept) pnOld adrOld with ⟨_, he⟩ | ⟨_, _, he⟩ | ⟨_, hL, hne, _⟩ | ⟨_, _, _, he⟩
    · rw [he]
    · rw [he]
    · exfalso
      apply hne
      have hpn : (stored s pnOld files kept).pnOlds = s.pnOlds := rfl
      have hn' : (stored s pnOld files kept).n = s.n := rfl
      rw [hpn, hn'] at hL
      cases ho : s.pnOlds with
      | nil => rw [ho] at hL; simp at hL; have := h.n2; omega
      | cons e rest =>
        obtain ⟨pd, adr⟩ := e
        have hok := h.olds_ok (pd, adr) (by rw [ho]; exact List.mem_cons_self)
        show (delHeadCore (stored s pnOld files kept).delCfg (stored s pnOld files kept).pnOlds
          (stored s pnOld files kept).disk (stored s pnOld files kept).dirs).2.2.2 = none
        rw [hpn, ho]
        refine (block_never_raises _ h.rep pd adr rest _ _ hok.nodup ?_ ?_ ?_ ?_).1
        · exact fun a ha => stored_disk s pnOld files kept _ (hok.files a ha)
        · exact List.mem_cons_of_mem _ (List.mem_cons_of_mem _ hok.d1)
        · exact List.mem_cons_of_mem _ (List.mem_cons_of_mem _ hok.d2)
        · intro p k hk
          simp only [stored, storeNew, List.mem_append, List.mem_cons, List.mem_map, List.not_mem_nil, or_false] at hk
          rcases hk with ((hk | hk | hk) | ⟨_, _, hk⟩) | hk
          · injection hk with _ hk; omega
          · injection hk with _ hk; omega
          · injection hk with _ hk; omega
          · exact absurd hk (by simp)
          · exact h.txt3 p k hk
    · rw [he]
  have hr : replace s pnOld files kept =
      ({ (delBlock (stored s pnOld files kept) pnOld adrOld).1 with
          live := (delBlock (stored s pnOld files kept) pnOld adrOld).1.live.map
            (fun p => if p = pnOld then s.trajNum else p) }, none) := by
    rcases replace_shape s pnOld files kept with ⟨h0, _⟩ | ⟨a, hla, ⟨hne, _⟩ | ⟨_, he⟩⟩
    · rw [hlk] at h0; simp at h0
    · rw [hlk] at hla; injection hla with hla; subst hla; exact absurd hbok hne
    · rw [hlk] at hla; injection hla with hla; subst hla; exact he
  have hgood := good_replace s h.good pnOld files kept
  have hnd := nodup_replace s h.olds_nodup pnOld files kept
  have hlen := olds_len_replace s h.olds_len pnOld files kept
  have holds := replace_olds s pnOld files kept
  have hrm := fun g hg hn => replace_removed s pnOld files kept g hg hn
  have hok : (replace s pnOld files kept).2 = none := by rw [hr]
  have e_disk : (replace s pnOld files kept).1.disk = (delBlock (stored s pnOld files kept) pnOld adrOld).1.disk := by rw [hr]
  have e_dirs : (replace s pnOld files kept).1.dirs = (delBlock (stored s pnOld files kept) pnOld adrOld).1.dirs := by rw [hr]
  have e_pend : (replace s pnOld files kept).1.pending = s.pending ++ [pnOld] := by rw [hr]; exact c8
  have e_td : (replace s pnOld files kept).1.trajData = (s.trajNum, files) :: s.trajData := by rw [hr]; exact c6
  have e_live : (replace s pnOld files kept).1.live = s.live.map (fun p => if p = pnOld then s.trajNum else p) := by
    rw [hr]; show List.map _ (delBlock (stored s pnOld files kept) pnOld adrOld).1.live = _; rw [c5]; rfl
  have e_var : (replace s pnOld files kept).1.variant = s.variant := by rw [hr]; exact hcfg.1
  have e_n : (replace s pnOld files kept).1.n = s.n := (replace_ctl s pnOld files kept).1
  refine ⟨hok, ?_⟩
  have hmp : (stored s pnOld files kept).pnOlds = s.pnOlds := rfl
  have hmn : (stored s pnOld files kept).n = s.n := rfl
  have hmq : qualifies (stored s pnOld files kept) pnOld = qualifies s pnOld := rfl
  -- a directory of s that disappears belongs to the popped head
  have hdr' : ∀ d ∈ s.dirs, d ∉ (replace s pnOld files kept).1.dirs →
      ∃ pd a rest, s.pnOlds = (pd, a) :: rest ∧ (d = .accepted pd ∨ d = .path pd) ∧
        ((s.pnOlds.length : Int) > (s.n : Int) - 2) ∧ qualifies s pnOld = true := by
    intro d hd hn
    rw [e_dirs] at hn
    exact hdr d (List.mem_cons_of_mem _ (List.mem_cons_of_mem _ hd)) hn
  have hnk : pnOld ∉ keys s.pnOlds := fun hk => (h.good.olds_dead pnOld hk).1 hl
  -- transfer of PathOK for a path that is not the popped head
  have transfer : ∀ p adr, PathOK s p adr →
      (∀ pd a rest, s.pnOlds = (pd, a) :: rest → ((s.pnOlds.length : Int) > (s.n : Int) - 2) →
        qualifies s pnOld = true → pd ≠ p) →
      PathOK (replace s pnOld files kept).1 p adr := by
    intro p adr hp hne
    refine ⟨hp.nodup, ?_, ?_, ?_⟩
    · intro a ha
      apply Classical.byContradiction
      intro hn
      obtain ⟨pd, a', rest, h1, h2, h3, h4⟩ := hrm _ (hp.files a ha) hn
      exact hne pd a' rest h1 h3 h4 h2.symm
    · apply Classical.byContradiction
      intro hn
      obtain ⟨pd, a', rest, h1, h2, h3, h4⟩ := hdr' (.accepted p) hp.d1 hn
      rcases h2 with h2 | h2
      · injection h2 with h2; exact hne pd a' rest h1 h3 h4 h2.symm
      · exact absurd h2 (by simp)
    · apply Classical.byContradiction
      intro hn
      obtain ⟨pd, a', rest, h1, h2, h3, h4⟩ := hdr' (.path p) hp.d2 hn
      rcases h2 with h2 | h2
      · exact absurd h2 (by simp)
      · injection h2 with h2; exact hne pd a' rest h1 h3 h4 h2.symm
  have notHeadLive : ∀ p ∈ s.live, ∀ pd a rest, s.pnOlds = (pd, a) :: rest →
      ((s.pnOlds.length : Int) > (s.n : Int) - 2) → qualifies s pnOld = true → pd ≠ p := by
    intro p hp pd a rest ho _ _ e
    have : pd ∈ keys s.pnOlds := by rw [ho]; simp [keys]
    exact (h.good.olds_dead pd this).1 (e ▸ hp)
  have headOld : ∀ pd a rest, (stored s pnOld files kept).pnOlds = (pd, a) :: rest → pd < s.trajNum := by
    intro pd a rest h1
    rw [hmp] at h1
    have : pd ∈ keys s.pnOlds := by rw [h1]; simp [keys]
    exact (h.good.olds_dead pd this).2.2
  refine ⟨?_, ?_, hgood, ?_, ?_, hnd, hlen, ?_, ?_, ?_⟩
  · rw [e_var]; exact h.rep
  · rw [e_n]; exact h.n2
  · -- queue entries
    intro e he
    have hnew : e = (pnOld, adrOld) → PathOK (replace s pnOld files kept).1 e.1 e.2 := by
      intro ee; subst ee
      exact transfer pnOld adrOld hpo (notHeadLive pnOld hl)
    rcases holds with ⟨hsame, hq⟩ | ⟨_, _, hL, adr, hla, hd⟩ | ⟨_, _, hL, pd, adrd, rest, adr, ho, hla, _, hd⟩
    · have he' : e ∈ s.pnOlds := hsame ▸ he
      refine transfer e.1 e.2 (h.olds_ok e he') ?_
      intro pd a rest _ _ hqq
      rcases hq with hq | hq
      · exact absurd hok hq
      · rw [hq] at hqq; simp at hqq
    · have he' : e ∈ dictSet pnOld adr s.pnOlds := hd ▸ he
      rw [hlk] at hla; injection hla with hla; subst hla
      rcases mem_dictSet _ _ _ _ he' with h1 | h1
      · exact transfer e.1 e.2 (h.olds_ok e h1) (fun _ _ _ _ hLL _ => absurd hLL hL)
      · exact hnew h1
    · rw [hlk] at hla; injection hla with hla; subst hla
      have he' : e ∈ (if ((rest.length : Int) ≤ (s.n : Int) - 2) then dictSet pnOld adrOld rest else rest) := hd ▸ he
      have hks : keys s.pnOlds = pd :: keys rest := by rw [ho]; rfl
      have hpdn : pd ∉ keys rest := by
        have := h.olds_nodup; rw [hks] at this; exact (List.nodup_cons.mp this).1
      have inRest : e ∈ rest → PathOK (replace s pnOld files kept).1 e.1 e.2 := by
        intro h1
        refine transfer e.1 e.2 (h.olds_ok e (by rw [ho]; exact List.mem_cons_of_mem _ h1)) ?_
        intro pd' a' rest' ho' _ _ ee
        rw [ho] at ho'
        injection ho' with ho1 _
        injection ho1 with ho1 _
        apply hpdn
        rw [ho1, ee]
        exact List.mem_map.mpr ⟨e, h1, rfl⟩
      split at he'
      · rcases mem_dictSet _ _ _ _ he' with h1 | h1
        · exact inRest h1
        · exact hnew h1
      · exact inRest he'
  · -- live paths
    intro p hp
    rw [e_live] at hp
    rw [e_td]
    rcases mem_live_map _ _ _ _ hp with h1 | ⟨h1, h2⟩
    · subst h1
      refine ⟨files, by simp [lookup], hf, ?_, ?_, ?_⟩
      · intro a ha
        have hm : DFile.acc s.trajNum a ∈ (stored s pnOld files kept).disk := by
          simp only [stored, storeNew]
          exact List.mem_append_left _ (List.mem_append_right _ (List.mem_map_of_mem (List.mem_append_left _ ha)))
        rw [e_disk]
        apply Classical.byContradiction
        intro hn
        obtain ⟨pd, a', rest, h1, h2, _⟩ := hrem _ hm hn
        have := headOld pd a' rest h1
        simp only [DFile.pn] at h2
        omega
      · rw [e_dirs]
        apply Classical.byContradiction
        intro hn
        obtain ⟨pd, a', rest, h1, h2, _⟩ := hdr (.accepted s.trajNum) (by simp [stored, storeNew]) hn
        have := headOld pd a' rest h1
        rcases h2 with h2 | h2
        · injection h2 with h2; omega
        · exact absurd h2 (by simp)
      · rw [e_dirs]
        apply Classical.byContradiction
        intro hn
        obtain ⟨pd, a', rest, h1, h2, _⟩ := hdr (.path s.trajNum) (by simp [stored, storeNew]) hn
        have := headOld pd a' rest h1
        rcases h2 with h2 | h2
        · exact absurd h2 (by simp)
        · injection h2 with h2; omega
    · obtain ⟨adr, hla, hpa⟩ := h.live_ok p h1
      have hpN : p ≠ s.trajNum := by have := h.good.live_lt p h1; omega
      refine ⟨adr, ?_, transfer p adr hpa (notHeadLive p h1)⟩
      rw [lookup_cons_ne p s.trajNum files s.trajData (fun e => hpN e.symm)]
      exact hla
  · -- pending
    rw [e_pend, List.nodup_append]
    refine ⟨h.pend_nodup, by simp, ?_⟩
    intro a ha b hb
    simp only [List.mem_singleton] at hb
    subst hb
    intro e; subst e
    exact (h.pend_ok a ha).1 hl
  · intro p hp
    rw [e_pend] at hp
    rw [e_live, e_td]
    have hlook : ∀ q adr, q < s.trajNum → lookup q s.trajData = some adr →
        lookup q ((s.trajNum, files) :: s.trajData) = some adr := by
      intro q adr hq hla
      rw [lookup_cons_ne q s.trajNum files s.trajData (by omega)]
      exact hla
    rcases List.mem_append.mp hp with h1 | h1
    · obtain ⟨hnl, adr, hla⟩ := h.pend_ok p h1
      have hpN : p < s.trajNum := h.good.td_lt p (lookup_keys _ _ _ hla)
      refine ⟨?_, adr, hlook p adr hpN hla⟩
      intro hm
      rcases mem_live_map _ _ _ _ hm with h2 | ⟨h2, _⟩
      · omega
      · exact hnl h2
    · simp only [List.mem_singleton] at h1
      subst h1
      refine ⟨?_, adrOld, hlook p adrOld hNold hlk⟩
      intro hm
      rcases mem_live_map _ _ _ _ hm with h2 | ⟨_, h2⟩
      · omega
      · exact h2 rfl
  · intro p k hk
    rw [e_disk] at hk
    have := hsub _ hk
    simp only [stored, storeNew, List.mem_append, List.mem_cons, List.mem_map, List.not_mem_nil, or_false] at this
    rcases this with ((hk | hk | hk) | ⟨_, _, hk⟩) | hk
    · injection hk with _ hk; omega
    · injection hk with _ hk; omega
    · injection hk with _ hk; omega
    · exact absurd hk (by simp)
    · exact h.txt3 p k hk

/-! ### `finish` and stale files -/

theorem lookup_erase_ne {α : Type} (k k' : Nat) (h : k' ≠ k) : ∀ (l : List (Nat × α)), lookup k (erase k' l) = lookup k l := by
  intro l
  induction l with
  | nil => rfl
  | cons e t ih =>
    obtain ⟨a, v⟩ := e
    unfold erase at ih ⊢
    by_cases ha : a = k'
    · subst ha
      simp only [List.filter_cons, ne_eq, not_true_eq_false, decide_false, Bool.false_eq_true, if_false]
      rw [ih, lookup_cons_ne k a v t h]
    · simp only [List.filter_cons, ne_eq, ha, not_false_eq_true, decide_true, if_true]
      unfold lookup
      split
      · rfl
      · exact ih

theorem popAll_ok : ∀ (ps : List Nat) (td : List (Nat × List String)), ps.Nodup →
    (∀ p ∈ ps, ∃ adr, lookup p td = some adr) →
    (popAll ps td).2 = none ∧ ∀ q, q ∉ ps → lookup q (popAll ps td).1 = lookup q td := by
  intro ps
  induction ps with
  | nil => intro td _ _; exact ⟨rfl, fun _ _ => rfl⟩
  | cons p ps ih =>
    intro td hnd hall
    rw [List.nodup_cons] at hnd
    obtain ⟨adr, hla⟩ := hall p List.mem_cons_self
    unfold popAll
    simp only [hla]
    have hrest : ∀ q ∈ ps, ∃ adr, lookup q (erase p td) = some adr := by
      intro q hq
      obtain ⟨a, ha⟩ := hall q (List.mem_cons_of_mem _ hq)
      have hne : p ≠ q := fun e => hnd.1 (e ▸ hq)
      exact ⟨a, by rw [lookup_erase_ne q p hne]; exact ha⟩
    obtain ⟨h1, h2⟩ := ih (erase p td) hnd.2 hrest
    refine ⟨h1, ?_⟩
    intro q hq
    have hqp : p ≠ q := fun e => hq (e ▸ List.mem_cons_self)
    rw [h2 q (fun hm => hq (List.mem_cons_of_mem _ hm)), lookup_erase_ne q p hqp]

theorem nr_finish (s : St) (h : NR s) : (finish s).2 = none ∧ NR (finish s).1 := by
  obtain ⟨hok, hlook⟩ := popAll_ok s.pending s.trajData h.pend_nodup (fun p hp => (h.pend_ok p hp).2)
  have hgood := good_finish s h.good
  unfold finish at hgood ⊢
  simp only [hok] at hgood ⊢
  refine ⟨trivial, ⟨h.rep, h.n2, hgood, ?_, ?_, h.olds_nodup, h.olds_len, List.nodup_nil, ?_, h.txt3⟩⟩
  · intro e he
    obtain ⟨a, b, c, d⟩ := h.olds_ok e he
    exact ⟨a, b, c, d⟩
  · intro p hp
    obtain ⟨adr, hla, a, b, c, d⟩ := h.live_ok p hp
    refine ⟨adr, ?_, ⟨a, b, c, d⟩⟩
    show lookup p (popAll s.pending s.trajData).1 = some adr
    rw [hlook p (fun hm => (h.pend_ok p hm).1 hp)]
    exact hla
  · intro p hp; simp at hp

theorem nr_stale (s : St) (h : NR s) (p : Nat) (nm : String) : NR (addStale s p nm) := by
  obtain ⟨h1, h2, h3, h4, h5, h6, h7, h8, h9, h10, h11, h12, h13, h14⟩ := stale_ctl s p nm
  have tr : ∀ q adr, PathOK s q adr → PathOK (addStale s p nm) q adr := by
    intro q adr ⟨a, b, c, d⟩
    exact ⟨a, fun x hx => stale_disk s p nm _ (b x hx), h10 ▸ c, h10 ▸ d⟩
  refine ⟨h13 ▸ h.rep, h1 ▸ h.n2, good_stale s h.good p nm, ?_, ?_, h3 ▸ h.olds_nodup, ?_, h9 ▸ h.pend_nodup, ?_, ?_⟩
  · intro e he
    rw [h3] at he
    exact tr e.1 e.2 (h.olds_ok e he)
  · intro q hq
    rw [h2] at hq
    obtain ⟨adr, hla, hpa⟩ := h.live_ok q hq
    exact ⟨adr, by rw [h5]; exact hla, tr q adr hpa⟩
  · rw [h3, h1]; exact h.olds_len
  · intro q hq
    rw [h9] at hq
    rw [h2, h5]
    exact h.pend_ok q hq
  · intro q k hk
    rcases stale_disk_inv s p nm _ hk with hk | ⟨hk, _⟩
    · exact h.txt3 q k hk
    · exact absurd hk (by simp)

end Infretis.Store
