import Infretis.Model.StorePath
import Infretis.Lemmas.StoreCodec
/-!
Helper lemmas for C14: the `Path` object layer (`Infretis/Model/StorePath.lean`).
-/
namespace Infretis.Store

/-! ### the two ways of filling a path -/

theorem fill_push {α : Type} : ∀ (xs : List α) (p : PathObj α),
    fill .push p xs = { maxlen := p.maxlen, pts := p.pts ++ xs } := by
  intro xs
  induction xs with
  | nil => intro p; simp [fill]
  | cons x xs ih => intro p; simp [fill, ih, PathObj.push]

theorem fill_append_maxlen {α : Type} : ∀ (xs : List α) (p : PathObj α),
    (fill .viaAppend p xs).maxlen = p.maxlen := by
  intro xs
  induction xs with
  | nil => intro p; rfl
  | cons x xs ih =>
    intro p
    simp only [fill, ih, PathObj.append]
    split <;> rfl

theorem fill_append_none {α : Type} : ∀ (xs : List α) (pts : List α),
    fill .viaAppend { maxlen := none, pts := pts } xs = { maxlen := none, pts := pts ++ xs } := by
  intro xs
  induction xs with
  | nil => intro pts; simp [fill]
  | cons x xs ih => intro pts; simp [fill, PathObj.append, PathObj.room, ih]

/-- through `Path.append` a path takes frames only while it is shorter than its limit -/
theorem fill_append_some {α : Type} (m : Int) : ∀ (xs : List α) (pts : List α),
    fill .viaAppend { maxlen := some m, pts := pts } xs =
      { maxlen := some m, pts := pts ++ xs.take (m - pts.length).toNat } := by
  intro xs
  induction xs with
  | nil => intro pts; simp [fill]
  | cons x xs ih =>
    intro pts
    simp only [fill, PathObj.append, PathObj.room]
    by_cases h : (pts.length : Int) < m
    · simp only [h, decide_true, if_true]
      rw [ih]
      have : (m - (pts.length : Int)).toNat = (m - ((pts ++ [x]).length : Int)).toNat + 1 := by
        simp only [List.length_append, List.length_cons, List.length_nil]
        omega
      rw [this, List.take_succ_cons]
      simp
    · simp only [h, decide_false, Bool.false_eq_true, if_false]
      rw [ih]
      have : (m - (pts.length : Int)).toNat = 0 := by omega
      simp [this]

theorem fill_append_empty {α : Type} (lim : Option Int) (xs : List α) :
    fill .viaAppend (PathObj.empty lim) xs =
      { maxlen := lim, pts := match lim with | none => xs | some m => xs.take m.toNat } := by
  cases lim with
  | none => simp [PathObj.empty, fill_append_none]
  | some m => simp [PathObj.empty, fill_append_some]

theorem copy_of_fits {α : Type} (p : PathObj α) (h : p.fits) : p.copy = p := by
  obtain ⟨ml, pts⟩ := p
  unfold PathObj.copy
  rw [fill_append_empty]
  cases ml with
  | none => rfl
  | some m =>
    have hle : pts.length ≤ m.toNat := by
      have : (pts.length : Int) ≤ m := h
      omega
    simp [List.take_of_length_le hle]

theorem copy_pts {α : Type} (p : PathObj α) :
    p.copy.pts = match p.maxlen with | none => p.pts | some m => p.pts.take m.toNat := by
  obtain ⟨ml, pts⟩ := p
  unfold PathObj.copy
  rw [fill_append_empty]

/-! ### `load` is `loadFrames` followed by `loadEnergies` -/

theorem load_eq (t o e : Option (List Line)) (files : List String) :
    load t o e files = match loadFrames t o files with
      | .error er => .error er
      | .ok fr => loadEnergies e fr := by
  unfold load loadFrames
  cases t with
  | none => rfl
  | some tl =>
    cases o with
    | none => rfl
    | some ol =>
      simp only
      cases firstBlock parseStr tl with
      | error er => rfl
      | ok trows =>
        simp only
        cases snapshots trows with
        | error er => rfl
        | ok snaps =>
          simp only
          generalize (snaps.all fun s => files.contains s.1) = b
          cases b with
          | false => rfl
          | true =>
            simp only [not_true_eq_false, if_false]
            unfold loadEnergies
            cases firstBlock parseNum ol with
            | error er => rfl
            | ok orows =>
              simp only
              cases dropFirstCol orows with
              | error er => rfl
              | ok ords => rfl

theorem loadPath_push (lim : Option Int) (t o e : Option (List Line)) (files : List String) :
    loadPath .push lim t o e files =
      match load t o e files with
      | .error er => .error er
      | .ok fr => .ok { maxlen := lim, pts := fr } := by
  rw [load_eq]
  unfold loadPath
  cases loadFrames t o files with
  | error er => rfl
  | ok fr =>
    simp only [fill_push, PathObj.empty, List.nil_append]
    cases loadEnergies e fr <;> rfl

/-! ### energies on a prefix -/

theorem setEnergies_take : ∀ (k : Nat) (fr : List LFrame) (rows : List (List Num)),
    setEnergies (fr.take k) rows = (setEnergies fr rows).take k := by
  intro k
  induction k with
  | zero => intro fr rows; simp [setEnergies]
  | succ k ih =>
    intro fr rows
    cases fr with
    | nil => simp [setEnergies]
    | cons f fr =>
      cases rows with
      | nil => simp [setEnergies, ih]
      | cons r rows => simp [setEnergies, ih]

/-- the frames `loadFrames` returns for a stored path -/
theorem loadFrames_store (step : Nat) (mv : List String) (fs : List Frame) (hne : fs ≠ [])
    (c : Nat) (hc : ∀ f ∈ fs, f.order.length = c) :
    loadFrames (some (store step mv fs).traj) (some (store step mv fs).order) (store step mv fs).accepted
      = .ok (fs.map bare) := by
  unfold loadFrames store
  simp only
  rw [firstBlock_traj]
  simp only [snapshots_rows]
  have hf := files_check fs
  simp only [hf, not_true_eq_false, if_false]
  rw [firstBlock_order step mv fs c hc]
  simp only
  have hrows : (rowsFrom orderRow 0 fs).map numRow ≠ [] := by
    cases fs with
    | nil => exact absurd rfl hne
    | cons f fs => simp [rowsFrom]
  simp only [dropFirstCol, hrows, if_false, order_cols, zipFrames_maps]

/-- the energies of a stored path on any prefix of its frames -/
theorem loadEnergies_store (step : Nat) (mv : List String) (fs : List Frame) (hne : fs ≠ []) (k : Nat) :
    loadEnergies (some (store step mv fs).energy) ((fs.map bare).take k) = .ok ((fs.map expected).take k) := by
  unfold loadEnergies store
  simp only
  rw [firstBlock_energy]
  simp only
  cases fs with
  | nil => exact absurd rfl hne
  | cons f fs' =>
    have := setEnergies_rows (f :: fs') 0
    simp only [rowsFrom, List.map_cons] at this ⊢
    simp only [numRow, parseNum_energyRow] at this ⊢
    simp only [List.length_cons, List.length_nil]
    simp only [show ¬ (0 + 1 + 1 + 1 + 1 + 1 < 3) by omega, if_false]
    rw [← List.map_cons, ← List.map_cons (f := expected), setEnergies_take]
    simp only [List.map_cons]
    rw [this]

end Infretis.Store
