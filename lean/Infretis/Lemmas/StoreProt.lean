import Infretis.Lemmas.StoreInv
/-!
C14 part B: the paths named by the restart file on disk keep their files (needs the lag),
`finish`, and the run-level statements.
-/
namespace Infretis.Store

theorem keys_length {α : Type} (l : List (Nat × α)) : (keys l).length = l.length := by simp [keys]

/-- position bookkeeping for `d[k] = v` -/
theorem idx_push (ks : List Nat) (k p : Nat) (hp : p ∈ (if k ∈ ks then ks else ks ++ [k])) :
    (p ∈ ks ∧ (if k ∈ ks then ks else ks ++ [k]).idxOf p = ks.idxOf p) ∨
    (p ∉ ks ∧ p = k ∧ (if k ∈ ks then ks else ks ++ [k]) = ks ++ [k] ∧ (ks ++ [k]).idxOf p = ks.length) := by
  by_cases hk : k ∈ ks
  · simp only [hk, if_true] at hp ⊢
    exact Or.inl ⟨hp, trivial⟩
  · simp only [hk, if_false] at hp ⊢
    by_cases hpk : p ∈ ks
    · left
      refine ⟨hpk, ?_⟩
      rw [List.idxOf_append]; simp [hpk]
    · right
      have : p = k := by
        rcases List.mem_append.mp hp with h | h
        · exact absurd h hpk
        · simpa using h
      subst this
      refine ⟨hpk, rfl, trivial, ?_⟩
      rw [List.idxOf_append]; simp [hpk]

structure Prot (s : St) : Prop where
  restart_lt : ∀ p ∈ s.restart, p < s.trajNum
  restart_intact : ∀ p ∈ s.restart, Intact s p
  olds_len : s.pnOlds.length + 1 ≤ s.n
  restart_prot : ∀ p ∈ s.restart, p ∈ keys s.pnOlds →
    s.n ≤ (s.n - 1 - s.pnOlds.length) + (keys s.pnOlds).idxOf p + 1 + s.cnt

theorem prot_replace (s : St) (_hg : Good s) (hp : Prot s) (hb : s.cnt + 1 < s.n)
    (pnOld : Nat) (files kept : List String) : Prot (replace s pnOld files kept).1 := by
  obtain ⟨hn, hr, _, _⟩ := replace_ctl s pnOld files kept
  have hlen := hp.olds_len
  -- the head of a full queue is not named by the restart file
  have hhead : ∀ p ∈ s.restart, ∀ pd adr rest, s.pnOlds = (pd, adr) :: rest →
      ((s.pnOlds.length : Int) > (s.n : Int) - 2) → pd ≠ p := by
    intro p hpr pd adr rest h hl e
    subst e
    have hk : pd ∈ keys s.pnOlds := by rw [h]; simp [keys]
    have := hp.restart_prot pd hpr hk
    have hi : (keys s.pnOlds).idxOf pd = 0 := by rw [h]; simp [keys]
    rw [hi] at this
    omega
  rcases replace_fields s pnOld files kept with he | ⟨htn, _, hcnt, _, _⟩
  · rw [he]; exact hp
  refine ⟨?_, ?_, ?_, ?_⟩
  · intro p hpr
    rw [hr] at hpr
    have := hp.restart_lt p hpr
    omega
  · intro p hpr
    rw [hr] at hpr
    exact replace_intact s pnOld files kept p (hp.restart_lt p hpr) (hhead p hpr) (hp.restart_intact p hpr)
  · rw [hn]
    rcases replace_olds s pnOld files kept with ⟨h, _⟩ | ⟨_, _, hl, adr, _, h⟩ | ⟨_, _, hl, pd, adrd, rest, adr, ho, _, _, h⟩
    · rw [h]; exact hlen
    · rw [h, length_dictSet]
      split <;> omega
    · rw [h]
      rw [ho] at hlen
      simp only [List.length_cons] at hlen
      split
      · rw [length_dictSet]; split <;> omega
      · omega
  · intro p hpr hpk
    rw [hr] at hpr
    rw [hn, hcnt]
    rcases replace_olds s pnOld files kept with ⟨h, _⟩ | ⟨_, _, hl, adr, _, h⟩ | ⟨_, _, hl, pd, adrd, rest, adr, ho, _, _, h⟩
    · rw [h] at hpk ⊢
      have := hp.restart_prot p hpr hpk
      omega
    · rw [h] at hpk ⊢
      rw [keys_dictSet] at hpk ⊢
      rw [length_dictSet]
      rcases idx_push (keys s.pnOlds) pnOld p hpk with ⟨h1, h2⟩ | ⟨h1, h2, h3, h4⟩
      · have := hp.restart_prot p hpr h1
        rw [h2]
        split <;> omega
      · rw [h3, h4, keys_length]
        have : pnOld ∉ keys s.pnOlds := h2 ▸ h1
        simp only [this, if_false]
        omega
    · have hrl : (rest.length : Int) ≤ (s.n : Int) - 2 := by
        rw [ho] at hlen; simp only [List.length_cons] at hlen; omega
      rw [if_pos hrl] at h
      rw [h] at hpk ⊢
      rw [keys_dictSet] at hpk ⊢
      rw [length_dictSet]
      have hL : s.pnOlds.length = rest.length + 1 := by rw [ho]; rfl
      rcases idx_push (keys rest) pnOld p hpk with ⟨h1, h2⟩ | ⟨h1, h2, h3, h4⟩
      · have hk : p ∈ keys s.pnOlds := by rw [ho]; simp only [keys, List.map_cons, List.mem_cons]; exact Or.inr h1
        have hne : pd ≠ p := hhead p hpr pd adrd rest ho hl
        have hidx : (keys s.pnOlds).idxOf p = (keys rest).idxOf p + 1 := by
          rw [ho]
          simp only [keys, List.map_cons, List.idxOf_cons]
          have : (pd == p) = false := by simpa using hne
          simp [this]
        have := hp.restart_prot p hpr hk
        rw [h2]
        split <;> omega
      · rw [h3, h4, keys_length]
        have : pnOld ∉ keys rest := h2 ▸ h1
        simp only [this, if_false]
        omega

/-! ### `finish` -/

theorem popAll_keys_sub : ∀ (ps : List Nat) (td : List (Nat × List String)) (q : Nat),
    q ∈ keys (popAll ps td).1 → q ∈ keys td := by
  intro ps
  induction ps with
  | nil => intro td q h; exact h
  | cons p ps ih =>
    intro td q h
    unfold popAll at h
    split at h
    · exact h
    · have := ih _ q h
      simp only [keys, erase, List.mem_map, List.mem_filter] at this ⊢
      obtain ⟨e, ⟨he, _⟩, hq⟩ := this
      exact ⟨e, he, hq⟩

theorem good_finish (s : St) (hg : Good s) : Good (finish s).1 := by
  unfold finish
  dsimp only
  split
  · exact ⟨hg.olds_dead, hg.live_lt, fun p hp => hg.td_lt p (popAll_keys_sub _ _ p hp), hg.live_intact⟩
  · exact ⟨hg.olds_dead, hg.live_lt, fun p hp => hg.td_lt p (popAll_keys_sub _ _ p hp), hg.live_intact⟩

theorem prot_finish (s : St) (hg : Good s) (hp : Prot s) : Prot (finish s).1 := by
  unfold finish
  dsimp only
  split
  · exact ⟨hp.restart_lt, hp.restart_intact, hp.olds_len, hp.restart_prot⟩
  · refine ⟨hg.live_lt, hg.live_intact, hp.olds_len, ?_⟩
    intro p hpl hpk
    exact absurd hpl (hg.olds_dead p hpk).1

theorem finish_disk (s : St) : (finish s).1.disk = s.disk ∧ (finish s).1.n = s.n := by
  unfold finish
  dsimp only
  split <;> exact ⟨rfl, rfl⟩


/-! ### a stale file appearing in an accepted/ directory -/

theorem stale_ctl (s : St) (p : Nat) (nm : String) :
    (addStale s p nm).n = s.n ∧ (addStale s p nm).live = s.live ∧ (addStale s p nm).pnOlds = s.pnOlds ∧
    (addStale s p nm).trajNum = s.trajNum ∧ (addStale s p nm).trajData = s.trajData ∧
    (addStale s p nm).restart = s.restart ∧ (addStale s p nm).cnt = s.cnt ∧ (addStale s p nm).txt = s.txt ∧
    (addStale s p nm).pending = s.pending ∧ (addStale s p nm).dirs = s.dirs ∧
    (addStale s p nm).delOld = s.delOld ∧ (addStale s p nm).delAll = s.delAll ∧
    (addStale s p nm).variant = s.variant ∧ (addStale s p nm).keep = s.keep := by
  unfold addStale
  split <;> exact ⟨rfl, rfl, rfl, rfl, rfl, rfl, rfl, rfl, rfl, rfl, rfl, rfl, rfl, rfl⟩

theorem stale_disk (s : St) (p : Nat) (nm : String) (g : DFile) (h : g ∈ s.disk) : g ∈ (addStale s p nm).disk := by
  unfold addStale
  split
  · exact List.mem_cons_of_mem _ h
  · exact h

theorem stale_disk_inv (s : St) (p : Nat) (nm : String) (g : DFile) (h : g ∈ (addStale s p nm).disk) :
    g ∈ s.disk ∨ (g = .acc p nm ∧ DDir.accepted p ∈ s.dirs) := by
  unfold addStale at h
  split at h
  · rename_i hd
    rcases List.mem_cons.mp h with h | h
    · exact Or.inr ⟨h, hd⟩
    · exact Or.inl h
  · exact Or.inl h

theorem intact_stale (s : St) (p : Nat) (nm : String) (q : Nat) (h : Intact s q) : Intact (addStale s p nm) q := by
  obtain ⟨h0, h1, adr, hl, h2⟩ := h
  refine ⟨stale_disk _ _ _ _ h0, stale_disk _ _ _ _ h1, adr, ?_, ?_⟩
  · rw [(stale_ctl s p nm).2.2.2.2.2.2.2.1]; exact hl
  · intro a ha
    exact stale_disk _ _ _ _ (h2 a ha)

theorem good_stale (s : St) (hg : Good s) (p : Nat) (nm : String) : Good (addStale s p nm) := by
  obtain ⟨h1, h2, h3, h4, h5, _⟩ := stale_ctl s p nm
  refine ⟨?_, ?_, ?_, ?_⟩
  · rw [h3, h2, h1, h4]; exact hg.olds_dead
  · rw [h2, h4]; exact hg.live_lt
  · rw [h5, h4]; exact hg.td_lt
  · rw [h2]; exact fun q hq => intact_stale s p nm q (hg.live_intact q hq)

theorem prot_stale (s : St) (hp : Prot s) (p : Nat) (nm : String) : Prot (addStale s p nm) := by
  obtain ⟨h1, _, h3, h4, _, h6, h7, _⟩ := stale_ctl s p nm
  refine ⟨?_, ?_, ?_, ?_⟩
  · rw [h6, h4]; exact hp.restart_lt
  · rw [h6]; exact fun q hq => intact_stale s p nm q (hp.restart_intact q hq)
  · rw [h3, h1]; exact hp.olds_len
  · rw [h6, h3, h1, h7]; exact hp.restart_prot

end Infretis.Store
