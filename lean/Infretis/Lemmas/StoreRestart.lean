import Infretis.Model.StoreRestart
import Infretis.Lemmas.StoreProt
/-!
C14, part B: the invariants survive a restart between two calls.
-/
namespace Infretis.Store

theorem intact_restart (s : St) (p : Nat) : Intact (restartSt s) p ↔ Intact s p := Iff.rfl

theorem restart_keys (s : St) : ∀ q ∈ keys (restartSt s).trajData, q ∈ s.restart := by
  intro q hq
  simp only [restartSt, keys, List.mem_map, List.mem_filterMap] at hq
  obtain ⟨e, ⟨p, hp, he⟩, rfl⟩ := hq
  cases hl : lookup p s.txt with
  | none => simp [hl] at he
  | some adr =>
    simp only [hl, Option.map_some, Option.some.injEq] at he
    subst he
    exact hp

/-- the paths named by the restart file are intact and numbered below traj_num (`Prot`): so the
    restarted state satisfies `Good` -/
theorem good_restart (s : St) (hp : Prot s) : Good (restartSt s) := by
  refine ⟨?_, ?_, ?_, ?_⟩
  · intro q hq; simp [restartSt, keys] at hq
  · exact hp.restart_lt
  · intro q hq; exact hp.restart_lt q (restart_keys s q hq)
  · exact hp.restart_intact

theorem prot_restart (s : St) (hp : Prot s) : Prot (restartSt s) := by
  refine ⟨hp.restart_lt, hp.restart_intact, ?_, ?_⟩
  · have := hp.olds_len
    show 0 + 1 ≤ s.n
    omega
  · intro p _ hk; simp [restartSt, keys] at hk

theorem restart_disk (s : St) : (restartSt s).disk = s.disk ∧ (restartSt s).n = s.n ∧ (restartSt s).restart = s.restart ∧
    (restartSt s).trajNum = s.trajNum ∧ (restartSt s).cnt = 0 ∧ (restartSt s).pnOlds = [] ∧ (restartSt s).live = s.restart :=
  ⟨rfl, rfl, rfl, rfl, rfl, rfl, rfl⟩

end Infretis.Store
